(* C16 — region-graph constructions are valid
   Property theorems only: each is closed by `exact <lemma>`; proofs live in the imported files. *)
From Coq Require Import List ZArith QArith Qcanon Ring_theory Field_theory Permutation Sorted.
Import ListNotations.
From CK Require Import Base.
From CK Require Import Scalar.
From CK Require Import Tensor.
From CK Require Import Pexpr.
From CK Require Import Exec.
From CK Require Import Struct.
From CK Require Import RG.
From CK Require Import RGProofs.
Close Scope Qc_scope. Close Scope Q_scope. Close Scope Z_scope. Open Scope nat_scope.

(* the executable validity predicate holds exactly when: roots cover all variables, every region is non-empty, every partition splits its region into non-empty pairwise-disjoint regions covering it *)
Theorem C16_valid_spec :
  forall g : rg, rg_valid g = true <-> Valid g.
Proof. exact rg_valid_spec. Qed.
Print Assumptions C16_valid_spec.

(* the structured-decomposability flag holds exactly when partitions of the same scope split it into the same set of sub-scopes *)
Theorem C16_sd_flag :
  forall g : rg,
         rg_sd g = true <->
         (forall p q : nat * list nat,
          In p (parts g) ->
          In q (parts g) ->
          set_eq (rscope g (fst p)) (rscope g (fst q)) ->
          same_split (map (rscope g) (snd p)) (map (rscope g) (snd q))).
Proof. exact rg_sd_spec. Qed.
Print Assumptions C16_sd_flag.

(* the fully-factorised region graph is valid, structured-decomposable and over variables 0..n-1, for every n and number of repetitions *)
Theorem C16_fully_factorized :
  forall n reps : nat,
         1 <= n ->
         1 <= reps ->
         rg_valid (ff_rg n reps) = true /\ rg_sd (ff_rg n reps) = true /\ rg_vars (ff_rg n reps) = seq 0 n.
Proof. exact ff_valid. Qed.
Print Assumptions C16_fully_factorized.

(* the linear-tree region graph is valid and structured-decomposable over exactly the variables of its ordering, for every duplicate-free ordering *)
Theorem C16_linear_tree :
  forall ord : list nat,
         NoDup ord ->
         ord <> [] ->
         rg_valid (linear_rg ord) = true /\
         rg_sd (linear_rg ord) = true /\ (forall v : nat, In v (rg_vars (linear_rg ord)) <-> In v ord).
Proof. exact linear_valid. Qed.
Print Assumptions C16_linear_tree.
