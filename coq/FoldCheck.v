From Coq Require Import List Lia Bool Arith Wf_nat.
Import ListNotations.
From CK Require Import Gen Fold.

(* ------------------------------------------------------------------ *)
(* Executable, proved-sound checker for folded-graph address books.    *)
(* ------------------------------------------------------------------ *)

(* ---------- bounded quantification ---------- *)
Lemma forallb_seq (f : nat -> bool) (n : nat) :
  forallb f (seq 0 n) = true <-> forall k, k < n -> f k = true.
Proof.
  rewrite forallb_forall. split.
  - intros H k Hk. apply H. apply in_seq. lia.
  - intros H k Hk. apply in_seq in Hk. apply H. lia.
Qed.

(* ---------- executable definitions (no dependency on the value type) ---------- *)

Definition uwf_b (gins : list (list nat)) : bool :=
  forallb (fun i => forallb (fun j => j <? i) (nth i gins [])) (seq 0 (length gins)).

Definition fwf_b (F : fgraph) : bool :=
  forallb (fun Mi => forallb (fun j => j <? Mi) (ids (nth Mi F dfm))) (seq 0 (length F)).

Fixpoint decode (offs : list (nat * nat)) (size : nat -> nat) (ix : nat) : option (nat * nat) :=
  match offs with
  | [] => None
  | (fj, off) :: r =>
      if (off <=? ix) && (ix <? off + size fj) then Some (fj, ix - off)
      else decode r size ix
  end.

Definition ab_check (gins : list (list nat)) (F : fgraph) : bool :=
  forallb (fun Mi =>
    let M := nth Mi F dfm in
    (length (cum M) =? length (members M)) &&
    forallb (fun s =>
      let i := nth s (members M) 0 in
      (i <? length gins) &&
      (length (nth s (cum M) []) =? length (nth i gins [])) &&
      forallb (fun h =>
        match decode (offsets (ids M) (fsize F) 0) (fsize F) (nth h (nth s (cum M) []) 0) with
        | Some (fj, sj) =>
            (fj <? Mi) && (sj <? fsize F fj) &&
            (nth sj (members (nth fj F dfm)) 0 =? nth h (nth i gins []) 0)
        | None => false
        end) (seq 0 (length (nth i gins []))))
      (seq 0 (length (members M))))
    (seq 0 (length F)).

Definition out_check (F : fgraph) (outs : list nat) (out_ids : list nat) (out_cum : list nat) : bool :=
  (length out_cum =? length outs) &&
  forallb (fun k =>
    match decode (offsets out_ids (fsize F) 0) (fsize F) (nth k out_cum 0) with
    | Some (fj, sj) =>
        (fj <? length F) && (sj <? fsize F fj) &&
        (nth sj (members (nth fj F dfm)) 0 =? nth k outs 0)
    | None => false
    end) (seq 0 (length outs)).

(* ---------- decode ---------- *)

Lemma decode_sound (offs : list (nat * nat)) (size : nat -> nat) (ix fj sj : nat) :
  decode offs size ix = Some (fj, sj) ->
  exists off, In (fj, off) offs /\ ix = off + sj /\ sj < size fj.
Proof.
  induction offs as [|[f o] r IH]; simpl; intros Hd; [discriminate|].
  destruct ((o <=? ix) && (ix <? o + size f)) eqn:E.
  - inversion Hd; subst. apply andb_true_iff in E. destruct E as [E1 E2].
    apply Nat.leb_le in E1. apply Nat.ltb_lt in E2.
    exists o. split; [left; reflexivity|]. split; lia.
  - destruct (IH Hd) as [off [Hin [Hix Hsj]]]. exists off. split; [right; exact Hin|]. split; assumption.
Qed.

(* first-match characterisation (not needed for soundness, but documents the semantics) *)
Lemma decode_first (offs : list (nat * nat)) (size : nat -> nat) (ix fj sj : nat) :
  decode offs size ix = Some (fj, sj) ->
  exists pre off suf, offs = pre ++ (fj, off) :: suf /\ off <= ix < off + size fj /\ sj = ix - off /\
    forall f o, In (f, o) pre -> ~ (o <= ix < o + size f).
Proof.
  induction offs as [|[f o] r IH]; simpl; intros Hd; [discriminate|].
  destruct ((o <=? ix) && (ix <? o + size f)) eqn:E.
  - inversion Hd; subst. apply andb_true_iff in E. destruct E as [E1 E2].
    apply Nat.leb_le in E1. apply Nat.ltb_lt in E2.
    exists [], o, r. simpl. split; [reflexivity|]. split; [lia|]. split; [reflexivity|]. intros ? ? [].
  - destruct (IH Hd) as [pre [off [suf [Heq [Hr [Hs Hpre]]]]]].
    exists ((f, o) :: pre), off, suf. simpl. rewrite Heq. split; [reflexivity|]. split; [lia|]. split; [exact Hs|].
    intros f' o' [Ein|Hin'].
    + inversion Ein; subst. intros [H1 H2].
      apply andb_false_iff in E. destruct E as [E|E].
      * apply Nat.leb_gt in E. lia.
      * apply Nat.ltb_ge in E. lia.
    + apply Hpre; exact Hin'.
Qed.

Lemma decode_None (offs : list (nat * nat)) (size : nat -> nat) (ix : nat) :
  decode offs size ix = None -> forall f o, In (f, o) offs -> ~ (o <= ix < o + size f).
Proof.
  induction offs as [|[f o] r IH]; simpl; intros Hd f' o' Hin; [contradiction|].
  destruct ((o <=? ix) && (ix <? o + size f)) eqn:E; [discriminate|].
  destruct Hin as [Ein|Hin].
  - inversion Ein; subst. intros [H1 H2].
    apply andb_false_iff in E. destruct E as [E|E].
    + apply Nat.leb_gt in E. lia.
    + apply Nat.ltb_ge in E. lia.
  - apply IH; assumption.
Qed.

(* ---------- fwf_b ---------- *)

Theorem fwf_b_sound (F : fgraph) : fwf_b F = true -> fwf F.
Proof.
  unfold fwf_b, fwf, gwf. intros Hb Mi HMi j Hj.
  rewrite forallb_seq in Hb. specialize (Hb Mi HMi).
  rewrite forallb_forall in Hb. apply Nat.ltb_lt. apply Hb. exact Hj.
Qed.

Section Check.
Variable V : Type.
Variable dV : V.

Lemma nth_map_uins (g : ugraph V) (i : nat) :
  nth i (map (uins V) g) [] = uins V (nth i g (dmod V dV)).
Proof. exact (map_nth (uins V) g (dmod V dV) i). Qed.

(* ---------- uwf_b ---------- *)

Theorem uwf_b_sound (g : ugraph V) : uwf_b (map (uins V) g) = true -> uwf V dV g.
Proof.
  unfold uwf_b, uwf, gwf. intros Hb i Hi j Hj.
  rewrite forallb_seq in Hb. rewrite map_length in Hb. specialize (Hb i Hi).
  rewrite nth_map_uins in Hb.
  rewrite forallb_forall in Hb. apply Nat.ltb_lt. apply Hb. exact Hj.
Qed.

(* ---------- ab_check ---------- *)

Theorem ab_check_sound (g : ugraph V) (F : fgraph) :
  ab_check (map (uins V) g) F = true -> consistent V dV g F.
Proof.
  unfold ab_check, consistent. intros Hb Mi HMi.
  rewrite forallb_seq in Hb. specialize (Hb Mi HMi). cbv zeta in Hb |- *.
  set (M := nth Mi F dfm) in *.
  apply andb_true_iff in Hb. destruct Hb as [Hlen Hslots].
  apply Nat.eqb_eq in Hlen. split; [exact Hlen|].
  intros s Hs. rewrite forallb_seq in Hslots. specialize (Hslots s Hs).
  set (i := nth s (members M) 0) in *.
  apply andb_true_iff in Hslots. destruct Hslots as [Hslots Hins].
  apply andb_true_iff in Hslots. destruct Hslots as [Hi Hl].
  apply Nat.ltb_lt in Hi. rewrite map_length in Hi.
  apply Nat.eqb_eq in Hl. rewrite nth_map_uins in Hl, Hins.
  split; [exact Hi|]. split; [exact Hl|].
  intros h Hh. rewrite forallb_seq in Hins. specialize (Hins h Hh).
  destruct (decode (offsets (ids M) (fsize F) 0) (fsize F) (nth h (nth s (cum M) []) 0))
    as [[fj sj]|] eqn:Hd; [|discriminate].
  apply andb_true_iff in Hins. destruct Hins as [Hins Hmem].
  apply andb_true_iff in Hins. destruct Hins as [Hfj Hsj].
  apply Nat.ltb_lt in Hfj. apply Nat.ltb_lt in Hsj. apply Nat.eqb_eq in Hmem.
  destruct (decode_sound _ _ _ _ _ Hd) as [off [Hin [Hix _]]].
  exists fj, sj, off. repeat split; assumption.
Qed.

(* ---------- end-to-end ---------- *)

Theorem checked_fold_sound (g : ugraph V) (F : fgraph) :
  uwf_b (map (uins V) g) = true -> fwf_b F = true -> ab_check (map (uins V) g) F = true ->
  forall Mi, Mi < length F -> forall s, s < fsize F Mi ->
    nth s (nth Mi (feval V dV g F) []) dV = nth (nth s (members (nth Mi F dfm)) 0) (ueval V dV g) dV.
Proof.
  intros Hu Hf Hab Mi HMi.
  exact (proj2 (folded_sound V dV g F (uwf_b_sound g Hu) (fwf_b_sound F Hf) (ab_check_sound g F Hab) Mi HMi)).
Qed.

Lemma checked_fold_length (g : ugraph V) (F : fgraph) :
  uwf_b (map (uins V) g) = true -> fwf_b F = true -> ab_check (map (uins V) g) F = true ->
  forall mid, length (nth mid (feval V dV g F) []) = fsize F mid.
Proof.
  intros Hu Hf Hab mid. destruct (Nat.lt_ge_cases mid (length F)) as [Hlt|Hge].
  - exact (proj1 (folded_sound V dV g F (uwf_b_sound g Hu) (fwf_b_sound F Hf) (ab_check_sound g F Hab) mid Hlt)).
  - unfold fsize. rewrite (nth_overflow F) by exact Hge.
    rewrite nth_overflow; [reflexivity|].
    unfold feval. rewrite length_gen_eval. exact Hge.
Qed.

(* ---------- outputs ---------- *)

Theorem checked_outputs_sound (g : ugraph V) (F : fgraph) (outs out_ids out_cum : list nat) :
  uwf_b (map (uins V) g) = true -> fwf_b F = true -> ab_check (map (uins V) g) F = true ->
  out_check F outs out_ids out_cum = true ->
  map (fun ix => nth ix (concat (map (fun mid => nth mid (feval V dV g F) []) out_ids)) dV) out_cum
  = map (fun o => nth o (ueval V dV g) dV) outs.
Proof.
  intros Hu Hf Hab Hout. unfold out_check in Hout.
  apply andb_true_iff in Hout. destruct Hout as [Hlen Hks]. apply Nat.eqb_eq in Hlen.
  rewrite forallb_seq in Hks.
  apply (list_eq_nth dV); [rewrite !map_length; exact Hlen|].
  intros k Hk. rewrite map_length in Hk.
  rewrite (nth_map_d _ _ dV 0) by exact Hk.
  rewrite (nth_map_d _ _ dV 0) by (rewrite <- Hlen; exact Hk).
  rewrite Hlen in Hk. specialize (Hks k Hk).
  destruct (decode (offsets out_ids (fsize F) 0) (fsize F) (nth k out_cum 0)) as [[fj sj]|] eqn:Hd; [|discriminate].
  apply andb_true_iff in Hks. destruct Hks as [Hks Hmem].
  apply andb_true_iff in Hks. destruct Hks as [Hfj Hsj].
  apply Nat.ltb_lt in Hfj. apply Nat.ltb_lt in Hsj. apply Nat.eqb_eq in Hmem.
  destruct (decode_sound _ _ _ _ _ Hd) as [off [Hin [Hix _]]].
  destruct (nth_concat_offset V dV (fun mid => nth mid (feval V dV g F) []) (fsize F) out_ids 0 fj off sj
              (fun i _ => checked_fold_length g F Hu Hf Hab i) Hin Hsj) as [_ Hn].
  rewrite Nat.sub_0_r in Hn. rewrite Hix, Hn.
  rewrite (checked_fold_sound g F Hu Hf Hab fj Hfj sj Hsj). rewrite Hmem. reflexivity.
Qed.

End Check.

(* ---------- concrete examples ---------- *)
Module Examples.

Definition sum (l : list nat) : nat := fold_right Nat.add 0 l.

(* m0 = 1, m1 = 2, m2 = m0 + m1, m3 = m1 + m1, m4 = m0 + m3 *)
Definition g : ugraph nat :=
  [ {| uins := [];     ufn := fun _ => 1 |};
    {| uins := [];     ufn := fun _ => 2 |};
    {| uins := [0; 1]; ufn := sum |};
    {| uins := [1; 1]; ufn := sum |};
    {| uins := [0; 3]; ufn := sum |} ].

(* two-module fold: inputs {m0,m1} and adders {m2,m3} *)
Definition F2 : fgraph :=
  [ {| members := [0; 1]; ids := [];  cum := [[]; []] |};
    {| members := [2; 3]; ids := [0]; cum := [[0; 1]; [1; 1]] |} ].

(* three-module fold: the last module reads from two folded modules, offsets [(0,0);(1,2)] *)
Definition F3 : fgraph :=
  F2 ++ [ {| members := [4]; ids := [0; 1]; cum := [[0; 3]] |} ].

Example uwf_g : uwf_b (map (uins nat) g) = true. Proof. vm_compute. reflexivity. Qed.
Example fwf_F2 : fwf_b F2 = true. Proof. vm_compute. reflexivity. Qed.
Example fwf_F3 : fwf_b F3 = true. Proof. vm_compute. reflexivity. Qed.
(* F2 only covers m0..m3; ab_check does not require covering every unfolded module *)
Example ab_F2 : ab_check (map (uins nat) g) F2 = true. Proof. vm_compute. reflexivity. Qed.
Example ab_F3 : ab_check (map (uins nat) g) F3 = true. Proof. vm_compute. reflexivity. Qed.
Example out_F3 : out_check F3 [4; 2] [1; 2] [2; 0] = true. Proof. vm_compute. reflexivity. Qed.

Example ueval_g : ueval nat 0 g = [1; 2; 3; 4; 5]. Proof. vm_compute. reflexivity. Qed.
Example feval_F3 : feval nat 0 g F3 = [[1; 2]; [3; 4]; [5]]. Proof. vm_compute. reflexivity. Qed.

(* the certified statement, instantiated *)
Example F3_sound : forall Mi, Mi < length F3 -> forall s, s < fsize F3 Mi ->
  nth s (nth Mi (feval nat 0 g F3) []) 0 = nth (nth s (members (nth Mi F3 dfm)) 0) (ueval nat 0 g) 0.
Proof. exact (checked_fold_sound nat 0 g F3 uwf_g fwf_F3 ab_F3). Qed.

(* off-by-one in one cum index: slot 0 of module 1 reads [0;2] instead of [0;1]; index 2 is out of range *)
Definition F2_bad : fgraph :=
  [ {| members := [0; 1]; ids := [];  cum := [[]; []] |};
    {| members := [2; 3]; ids := [0]; cum := [[0; 2]; [1; 1]] |} ].
Example ab_F2_bad : ab_check (map (uins nat) g) F2_bad = false. Proof. vm_compute. reflexivity. Qed.

(* off-by-one that stays in range but addresses the wrong producer: slot 1 reads [0;1] instead of [1;1] *)
Definition F2_bad' : fgraph :=
  [ {| members := [0; 1]; ids := [];  cum := [[]; []] |};
    {| members := [2; 3]; ids := [0]; cum := [[0; 1]; [0; 1]] |} ].
Example ab_F2_bad' : ab_check (map (uins nat) g) F2_bad' = false. Proof. vm_compute. reflexivity. Qed.

(* off-by-one in the three-module fold: last module reads [0;2] (= m0 + m2) instead of [0;3] *)
Definition F3_bad : fgraph :=
  F2 ++ [ {| members := [4]; ids := [0; 1]; cum := [[0; 2]] |} ].
Example ab_F3_bad : ab_check (map (uins nat) g) F3_bad = false. Proof. vm_compute. reflexivity. Qed.
Example out_F3_bad : out_check F3 [4; 2] [1; 2] [2; 1] = false. Proof. vm_compute. reflexivity. Qed.

End Examples.

Check forallb_seq.
Check decode_sound.
Check uwf_b_sound.
Check fwf_b_sound.
Check ab_check_sound. Print Assumptions ab_check_sound.
Check checked_fold_sound. Print Assumptions checked_fold_sound.
Check checked_outputs_sound. Print Assumptions checked_outputs_sound.
