"""Abstraction function: live cirkit objects -> Coq terms of coq/Exec.v (fails closed)."""
import math
from fractions import Fraction

import numpy as np

from cirkit.symbolic import layers as L
from cirkit.symbolic import parameters as P
from cirkit.symbolic.circuit import Circuit
from cirkit.symbolic.initializers import ConstantTensorInitializer


class ExportError(Exception):
    pass


def ex_q(x):
    """real number -> (n, d) exact"""
    if isinstance(x, (int, np.integer)):
        return int(x), 1
    x = float(x)
    if math.isnan(x) or math.isinf(x):
        raise ExportError(f"non-finite value {x}")
    f = Fraction(x)
    return f.numerator, f.denominator


def ex_scalar(x):
    if isinstance(x, (complex, np.complexfloating)):
        a, b = ex_q(x.real)
        c, d = ex_q(x.imag)
        if c == 0:
            return f"(q ({a}) {b})"
        return f"(qc ({a}) {b} ({c}) {d})"
    a, b = ex_q(x)
    return f"(q ({a}) {b})"


def ex_qq(x):
    a, b = ex_q(x)
    return f"(qq ({a}) {b})"


def ex_tensor(a):
    a = np.asarray(a)
    if a.ndim == 0:
        return f"(S {ex_scalar(a.item())})"
    if a.ndim == 1:
        return "(V [" + "; ".join(ex_scalar(x) for x in a.tolist()) + "])"
    if a.ndim == 2:
        return "(M [" + "; ".join("[" + "; ".join(ex_scalar(x) for x in row) + "]" for row in a.tolist()) + "])"
    return "(T [" + "; ".join(ex_tensor(s) for s in a) + "])"


def ex_nats(l):
    return "[" + "; ".join(str(int(i)) for i in l) + "]"


class Exporter:
    """Numbers tensor leaves by first occurrence; `leafval` supplies the value of a TensorParameter."""

    def __init__(self, leafval=None):
        self.ids = {}
        self.leafval = leafval
        self.learnable = {}

    def leaf_id(self, p):
        if id(p) not in self.ids:
            self.ids[id(p)] = len(self.ids) + 1
            self._keep = getattr(self, "_keep", [])
            self._keep.append(p)
        return self.ids[id(p)]

    def leaf_value(self, p):
        if self.leafval is not None:
            v = self.leafval(p)
            if v is not None:
                return np.asarray(v)
        init = p.initializer
        if isinstance(init, ConstantTensorInitializer):
            v = init.value
            if isinstance(v, np.ndarray):
                return np.broadcast_to(v, p.shape)
            return np.full(p.shape, v)
        raise ExportError(f"no value known for tensor parameter with initializer {init}")

    def node(self, par, n):
        ins = [self.node(par, m) for m in par.node_inputs(n)]
        if isinstance(n, P.ReferenceParameter):
            n = n.deref()
        if isinstance(n, P.TensorParameter):
            lid = self.leaf_id(n)
            self.learnable[lid] = bool(n.learnable)
            return f"(PTen {lid} {'true' if n.learnable else 'false'} {ex_tensor(self.leaf_value(n))})"
        t = type(n)
        un = {
            P.ExpParameter: "UExp", P.LogParameter: "ULog", P.SquareParameter: "USquare",
            P.SoftplusParameter: "USoftplus", P.SigmoidParameter: "USigmoid",
            P.ConjugateParameter: "UConj", P.MixingWeightParameter: "UMixing",
        }
        if t in un:
            return f"(PUn {un[t]} {ins[0]})"
        if t is P.IndexParameter:
            return f"(PUn (UIndex {n.axis} {ex_nats(n.indices)}) {ins[0]})"
        if t is P.ScaledSigmoidParameter:
            return f"(PUn (UScaledSigmoid {ex_qq(n.vmin)} {ex_qq(n.vmax)}) {ins[0]})"
        if t is P.ClampParameter:
            lo = "None" if n.vmin is None else f"(Some {ex_qq(n.vmin)})"
            hi = "None" if n.vmax is None else f"(Some {ex_qq(n.vmax)})"
            return f"(PUn (UClamp {lo} {hi}) {ins[0]})"
        red = {P.ReduceSumParameter: "URSum", P.ReduceProductParameter: "URProd", P.ReduceLSEParameter: "URLSE",
               P.SoftmaxParameter: "USoftmax", P.LogSoftmaxParameter: "ULogSoftmax"}
        if t in red:
            return f"(PUn ({red[t]} {n.axis}) {ins[0]})"
        if t is P.PolynomialDifferential:
            return f"(PUn (UPolyDiff {n.order}) {ins[0]})"
        bi = {P.SumParameter: "BSum", P.HadamardParameter: "BHad", P.KroneckerParameter: "BKron",
              P.GaussianProductStddev: "BGStd", P.PolynomialProduct: "BPolyProd"}
        if t in bi:
            return f"(PBin {bi[t]} {ins[0]} {ins[1]})"
        if t is P.OuterProductParameter:
            return f"(PBin (BOuterProd {n.axis}) {ins[0]} {ins[1]})"
        if t is P.OuterSumParameter:
            return f"(PBin (BOuterSum {n.axis}) {ins[0]} {ins[1]})"
        if t is P.GaussianProductMean:
            return f"(PGMean {' '.join(ins)})"
        if t is P.GaussianProductLogPartition:
            return f"(PGLogPart {' '.join(ins)})"
        raise ExportError(f"unknown parameter node {t.__name__}")

    def param(self, par):
        if isinstance(par, P.ParameterNode):
            par = P.Parameter.from_input(par)
        return self.node(par, par.output)

    def var(self, scope):
        vs = sorted(scope._set)
        if len(vs) != 1:
            raise ExportError(f"input layer over scope {vs} (only univariate inputs are modelled)")
        return vs[0]

    def layer(self, sl):
        t = type(sl)
        b = lambda x: "true" if x else "false"
        if t is L.EmbeddingLayer:
            return f"(LEmb {self.var(sl.scope)} {sl.num_output_units} {sl.num_states} {self.param(sl.weight)})"
        if t is L.CategoricalLayer:
            lg = sl.logits is not None
            return (f"(LCat {self.var(sl.scope)} {sl.num_output_units} {sl.num_categories} {b(lg)} "
                    f"{self.param(sl.logits if lg else sl.probs)})")
        if t is L.BinomialLayer:
            lg = sl.logits is not None
            return (f"(LBin {self.var(sl.scope)} {sl.num_output_units} {sl.total_count} {b(lg)} "
                    f"{self.param(sl.logits if lg else sl.probs)})")
        if t is L.GaussianLayer:
            lp = "None" if sl.log_partition is None else f"(Some {self.param(sl.log_partition)})"
            return f"(LGau {self.var(sl.scope)} {sl.num_output_units} {self.param(sl.mean)} {self.param(sl.stddev)} {lp})"
        if t is L.PolynomialLayer:
            return f"(LPoly {self.var(sl.scope)} {sl.num_output_units} {sl.degree} {self.param(sl.coeff)})"
        if t is L.ConstantValueLayer:
            return f"(LConst {sl.num_output_units} {b(sl.log_space)} {self.param(sl.value)})"
        if t is L.EvidenceLayer:
            return f"(LEvi {self.layer(sl.layer)} {self.param(sl.observation)})"
        if t is L.SumLayer:
            return f"(LSum {sl.num_input_units} {sl.num_output_units} {sl.arity} {self.param(sl.weight)})"
        if t is L.HadamardLayer:
            return f"(LHad {sl.num_input_units} {sl.arity})"
        if t is L.KroneckerLayer:
            return f"(LKron {sl.num_input_units} {sl.arity})"
        raise ExportError(f"unknown layer {t.__name__}")

    def circuit(self, sc: Circuit):
        order = list(sc.topological_ordering())
        if len(order) != len(sc.layers):
            raise ExportError("topological ordering does not cover all layers")
        idx = {l: i for i, l in enumerate(order)}
        nodes = []
        for l in order:
            ins = [idx[i] for i in sc.layer_inputs(l)]
            nodes.append(f"({self.layer(l)}, {ex_nats(ins)})")
        outs = [idx[o] for o in sc.outputs]
        return "(mkC [" + ";\n  ".join(nodes) + "] " + ex_nats(outs) + ")"


def ex_asg(y):
    """dict var -> value"""
    return "[" + "; ".join(f"({int(v)}, {ex_scalar(x)})" for v, x in sorted(y.items())) + "]"


def ex_asgs(ys):
    return "[" + "; ".join(ex_asg(y) for y in ys) + "]"


def ex_vals(arr):
    """array (n_assignments, outputs, units) -> list (list cvec)"""
    arr = np.asarray(arr)
    return "[" + "; ".join("[" + "; ".join("[" + "; ".join(ex_scalar(x) for x in u) + "]" for u in o) + "]" for o in arr.tolist()) + "]"
