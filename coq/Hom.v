(* Hom.v — semiring-homomorphism invariance of circuit evaluation, the dual-number semiring,
   and the link between dual-number evaluation of a polynomial and its formal derivative. *)
From Coq Require Import List Lia Ring Ring_theory Bool Arith ZArith.
Import ListNotations.
From CK Require Import Base Circ.

(* ====================================================================================== *)
(* 1. Homomorphism invariance (two carriers; no ring axioms needed)                        *)
(* ====================================================================================== *)
Section Hom.
Variables R1 R2 : Type.
Variables (o1 : R1) (a1 m1 : R1 -> R1 -> R1).
Variables (o2 : R2) (a2 m2 : R2 -> R2 -> R2).
Variable D : Type.
Variable h : R1 -> R2.
Hypothesis h_add : forall a b, h (a1 a b) = a2 (h a) (h b).
Hypothesis h_mul : forall a b, h (m1 a b) = m2 (h a) (h b).
Hypothesis h_0 : h o1 = o2.

Definition map_inp (i : inp R1 D) : inp R2 D :=
  {| iscope := iscope R1 D i; iunits := iunits R1 D i; ifun := fun y => map h (ifun R1 D i y) |}.
Definition map_node (n : node R1 D) : node R2 D :=
  match n with
  | NIn _ _ i => NIn R2 D (map_inp i)
  | NSum _ _ W ins => NSum R2 D (map (map h) W) ins
  | NHad _ _ ins => NHad R2 D ins
  | NKron _ _ ins => NKron R2 D ins
  end.
Definition map_circuit (c : circuit R1 D) : circuit R2 D := map map_node c.

Lemma dot_hom a b : dot R2 o2 a2 m2 (map h a) (map h b) = h (dot R1 o1 a1 m1 a b).
Proof.
  revert b; induction a as [|x a IH]; intros [|z b]; simpl; try (symmetry; exact h_0).
  rewrite IH, h_add, h_mul. reflexivity.
Qed.
Lemma had_hom a b : had R2 m2 (map h a) (map h b) = map h (had R1 m1 a b).
Proof.
  revert b; induction a as [|x a IH]; intros [|z b]; simpl; try reflexivity.
  rewrite IH, h_mul. reflexivity.
Qed.
Lemma scale_hom a b : scale R2 m2 (h a) (map h b) = map h (scale R1 m1 a b).
Proof.
  unfold scale. rewrite !map_map. apply map_ext. intros x. symmetry. apply h_mul.
Qed.
Lemma kron_hom a b : kron R2 m2 (map h a) (map h b) = map h (kron R1 m1 a b).
Proof.
  unfold kron. induction a as [|x a IH]; simpl; [reflexivity|].
  rewrite map_app, IH. f_equal. apply scale_hom.
Qed.
Lemma get_hom vals j : get R2 (map (map h) vals) j = map h (get R1 vals j).
Proof. unfold get. change (@nil R2) with (map h []) at 1. apply map_nth. Qed.
Lemma gets_hom vals ins :
  map (get R2 (map (map h) vals)) ins = map (map h) (map (get R1 vals) ins).
Proof. rewrite map_map. apply map_ext. intros j. apply get_hom. Qed.
Lemma fold_had_hom vs v :
  fold_left (had R2 m2) (map (map h) vs) (map h v) = map h (fold_left (had R1 m1) vs v).
Proof. revert v; induction vs as [|a vs IH]; intros v; simpl; [reflexivity|]. rewrite had_hom. apply IH. Qed.
Lemma fold_kron_hom vs v :
  fold_left (kron R2 m2) (map (map h) vs) (map h v) = map h (fold_left (kron R1 m1) vs v).
Proof. revert v; induction vs as [|a vs IH]; intros v; simpl; [reflexivity|]. rewrite kron_hom. apply IH. Qed.
Lemma hadn_hom xs : hadn R2 m2 (map (map h) xs) = map h (hadn R1 m1 xs).
Proof. destruct xs as [|v vs]; simpl; [reflexivity | apply fold_had_hom]. Qed.
Lemma kronn_hom xs : kronn R2 m2 (map (map h) xs) = map h (kronn R1 m1 xs).
Proof. destruct xs as [|v vs]; simpl; [reflexivity | apply fold_kron_hom]. Qed.

Lemma map_node_eval n y vals :
  eval_node R2 o2 a2 m2 D (map_node n) y (map (map h) vals)
  = map h (eval_node R1 o1 a1 m1 D n y vals).
Proof.
  destruct n as [i|W ins|ins|ins]; simpl.
  - reflexivity.
  - rewrite gets_hom, <- concat_map, !map_map. apply map_ext. intros w. apply dot_hom.
  - rewrite gets_hom. apply hadn_hom.
  - rewrite gets_hom. apply kronn_hom.
Qed.

Lemma hom_eval_from ns y acc :
  eval_from R2 o2 a2 m2 D (map_circuit ns) y (map (map h) acc)
  = map (map h) (eval_from R1 o1 a1 m1 D ns y acc).
Proof.
  revert acc; induction ns as [|n ns IH]; intros acc; simpl; [reflexivity|].
  rewrite map_node_eval.
  change [map h (eval_node R1 o1 a1 m1 D n y acc)]
    with (map (map h) [eval_node R1 o1 a1 m1 D n y acc]).
  rewrite <- map_app. apply IH.
Qed.

Theorem hom_eval c y :
  eval R2 o2 a2 m2 D (map_circuit c) y = map (map h) (eval R1 o1 a1 m1 D c y).
Proof. unfold eval. exact (hom_eval_from c y []). Qed.

(* the structural data (scopes, units, length) is untouched by [map_circuit] *)
Lemma map_circuit_length c : length (map_circuit c) = length c.
Proof. apply map_length. Qed.
Lemma map_node_scope n sc : node_scope R2 D (map_node n) sc = node_scope R1 D n sc.
Proof. destruct n; reflexivity. Qed.
Lemma map_node_units n us : node_units R2 D (map_node n) us = node_units R1 D n us.
Proof. destruct n as [i|W ins|ins|ins]; simpl; try reflexivity. apply map_length. Qed.
Lemma map_circuit_scopes c : scopes R2 D (map_circuit c) = scopes R1 D c.
Proof.
  unfold scopes. generalize (@nil (list nat)) as acc.
  induction c as [|n c IH]; intros acc; simpl; [reflexivity|].
  rewrite map_node_scope. apply IH.
Qed.
Lemma map_circuit_units c : units R2 D (map_circuit c) = units R1 D c.
Proof.
  unfold units. generalize (@nil nat) as acc.
  induction c as [|n c IH]; intros acc; simpl; [reflexivity|].
  rewrite map_node_units. apply IH.
Qed.
End Hom.

(* ====================================================================================== *)
(* 2. Dual numbers over a commutative semiring                                             *)
(* ====================================================================================== *)
Section Dual.
Variable R : Type.
Variables (rO rI : R) (radd rmul : R -> R -> R).
Hypothesis Rth : semi_ring_theory rO rI radd rmul (@eq R).
Add Ring RringDual : Rth.
Infix "+" := radd. Infix "*" := rmul.
Notation "0" := rO. Notation "1" := rI.

Definition dual : Type := (R * R)%type.
Definition d0 : dual := (0, 0).
Definition d1 : dual := (1, 0).
Definition dadd (x y : dual) : dual := (fst x + fst y, snd x + snd y).
Definition dmul (x y : dual) : dual := (fst x * fst y, fst x * snd y + snd x * fst y).
Definition dconst (c : R) : dual := (c, 0).      (* embedding of constants *)
Definition dvar (x : R) : dual := (x, 1).        (* the differentiation variable *)

Lemma dadd_pair a a' b b' : dadd (a, a') (b, b') = (a + b, a' + b').
Proof. reflexivity. Qed.
Lemma dmul_pair a a' b b' : dmul (a, a') (b, b') = (a * b, a * b' + a' * b).
Proof. reflexivity. Qed.

Lemma pair_eq (x y : dual) : fst x = fst y -> snd x = snd y -> x = y.
Proof. destruct x, y; simpl; intros -> ->; reflexivity. Qed.

Theorem dual_semiring : semi_ring_theory d0 d1 dadd dmul (@eq dual).
Proof.
  constructor.
  - intros [a a']; apply pair_eq; simpl; ring.
  - intros [a a'] [b b']; apply pair_eq; simpl; ring.
  - intros [a a'] [b b'] [c c']; apply pair_eq; simpl; ring.
  - intros [a a']; apply pair_eq; simpl; ring.
  - intros [a a']; apply pair_eq; simpl; ring.
  - intros [a a'] [b b']; apply pair_eq; simpl; ring.
  - intros [a a'] [b b'] [c c']; apply pair_eq; simpl; ring.
  - intros [a a'] [b b'] [c c']; apply pair_eq; simpl; ring.
Qed.

(* [fst] is a semiring homomorphism dual -> R *)
Lemma fst_dadd x y : fst (dadd x y) = fst x + fst y.
Proof. reflexivity. Qed.
Lemma fst_dmul x y : fst (dmul x y) = fst x * fst y.
Proof. reflexivity. Qed.
Lemma fst_d0 : fst d0 = 0.
Proof. reflexivity. Qed.
Lemma fst_d1 : fst d1 = 1.
Proof. reflexivity. Qed.

(* [dconst] is a semiring homomorphism R -> dual (this direction needs the semiring laws) *)
Lemma dconst_add a b : dconst (a + b) = dadd (dconst a) (dconst b).
Proof. apply pair_eq; simpl; ring. Qed.
Lemma dconst_mul a b : dconst (a * b) = dmul (dconst a) (dconst b).
Proof. apply pair_eq; simpl; ring. Qed.
Lemma dconst_0 : dconst 0 = d0.
Proof. reflexivity. Qed.
Lemma dconst_1 : dconst 1 = d1.
Proof. reflexivity. Qed.

(* the tangent component is a derivation: Leibniz rule and additivity *)
Lemma snd_dmul x y : snd (dmul x y) = fst x * snd y + snd x * fst y.
Proof. reflexivity. Qed.
Lemma snd_dadd x y : snd (dadd x y) = snd x + snd y.
Proof. reflexivity. Qed.
Lemma snd_d0 : snd d0 = 0.
Proof. reflexivity. Qed.
Lemma snd_d1 : snd d1 = 0.
Proof. reflexivity. Qed.
Lemma snd_dconst c : snd (dconst c) = 0.
Proof. reflexivity. Qed.

Section DualCirc.
Variable D : Type.
(* primal part of a dual-number evaluation = evaluation of the projected circuit over R *)
Corollary dual_primal (c : circuit dual D) (y : asg D) :
  map (map fst) (eval dual d0 dadd dmul D c y)
  = eval R rO radd rmul D (map_circuit dual R D fst c) y.
Proof.
  symmetry. apply (hom_eval dual R d0 dadd dmul rO radd rmul D fst).
  - exact fst_dadd.
  - exact fst_dmul.
  - exact fst_d0.
Qed.

(* lifting a circuit over R to constants: zero tangent everywhere, same primal *)
Corollary dual_const (c : circuit R D) (y : asg D) :
  eval dual d0 dadd dmul D (map_circuit R dual D dconst c) y
  = map (map dconst) (eval R rO radd rmul D c y).
Proof.
  apply (hom_eval R dual rO radd rmul d0 dadd dmul D dconst).
  - exact dconst_add.
  - exact dconst_mul.
  - exact dconst_0.
Qed.
End DualCirc.

(* ---------- polynomials: dual-number Horner evaluation computes value and derivative ---------- *)
Notation horner := (horner R rO radd rmul).
Notation pdiff_from := (pdiff_from R rI radd rmul).
Notation pdiff1 := (pdiff1 R rI radd rmul).
Notation hornerD := (Base.horner dual d0 dadd dmul).

(* natural-number multiples by repeated addition *)
Fixpoint nmul (n : nat) (x : R) : R := match n with O => 0 | S n' => x + nmul n' x end.

Lemma nmul_mul n x y : nmul n x * y = nmul n (x * y).
Proof. induction n as [|n IH]; simpl; [ring | rewrite <- IH; ring]. Qed.
Lemma nmul_one n x : nmul n 1 * x = nmul n x.
Proof. rewrite nmul_mul. f_equal. ring. Qed.

Lemma nmul_zero n : nmul n 0 = 0.
Proof. induction n as [|n IH]; simpl; [reflexivity | rewrite IH; ring]. Qed.

(* coefficient i of [pdiff_from k p] is (k + i) * p_i *)
Lemma nth_pdiff_from i : forall k p, nth i (pdiff_from k p) 0 = (k + nmul i 1) * nth i p 0.
Proof.
  induction i as [|i IH]; intros k [|c r]; simpl; try ring.
  rewrite IH. ring.
Qed.
(* coefficient i of the formal derivative [pdiff1 p] is (i+1) * p_(i+1) *)
Lemma nth_pdiff1 i p : nth i (pdiff1 p) 0 = nmul (S i) (nth (S i) p 0).
Proof.
  destruct p as [|c r]; simpl.
  - rewrite nmul_zero. destruct i; simpl; ring.
  - rewrite nth_pdiff_from, <- (nmul_one i (nth i r 0)). ring.
Qed.
Lemma length_pdiff_from k p : length (pdiff_from k p) = length p.
Proof. revert k; induction p as [|c r IH]; intros k; simpl; [reflexivity | rewrite IH; reflexivity]. Qed.
Lemma length_pdiff1 p : length (pdiff1 p) = pred (length p).
Proof. destruct p; simpl; [reflexivity | apply length_pdiff_from]. Qed.

Lemma horner_pdiff_from_succ x r : forall k,
  horner (pdiff_from (k + 1) r) x = horner (pdiff_from k r) x + horner r x.
Proof.
  induction r as [|c r IH]; intros k; simpl; [ring|].
  rewrite (IH (k + 1)). ring.
Qed.
(* (x * q)' = x * q' + q in Horner form *)
Lemma horner_pdiff_from_1 x r :
  horner (pdiff_from 1 r) x = x * horner (pdiff1 r) x + horner r x.
Proof.
  destruct r as [|c r]; simpl; [ring|].
  rewrite horner_pdiff_from_succ. ring.
Qed.

Theorem horner_dual (p : list R) (x : R) :
  hornerD (map dconst p) (dvar x) = (horner p x, horner (pdiff1 p) x).
Proof.
  induction p as [|c r IH].
  - reflexivity.
  - change (hornerD (map dconst (c :: r)) (dvar x))
      with (dadd (dconst c) (dmul (dvar x) (hornerD (map dconst r) (dvar x)))).
    rewrite IH. apply pair_eq.
    + simpl. reflexivity.
    + change (pdiff1 (c :: r)) with (pdiff_from 1 r).
      rewrite horner_pdiff_from_1. simpl. ring.
Qed.
Corollary horner_dual_fst p x : fst (hornerD (map dconst p) (dvar x)) = horner p x.
Proof. rewrite horner_dual. reflexivity. Qed.
Corollary horner_dual_snd p x : snd (hornerD (map dconst p) (dvar x)) = horner (pdiff1 p) x.
Proof. rewrite horner_dual. reflexivity. Qed.
End Dual.

(* ====================================================================================== *)
(* 3. Non-vacuity: concrete instances over Z                                               *)
(* ====================================================================================== *)
Section Examples.
Open Scope Z_scope.

Lemma Zsrt : semi_ring_theory 0 1 Z.add Z.mul (@eq Z).
Proof. constructor; intros; ring. Qed.

Definition dualZ_semiring := dual_semiring Z 0 1 Z.add Z.mul Zsrt.

Notation DZ := (dual Z).
Notation dz0 := (d0 Z 0).
Notation dzadd := (dadd Z Z.add).
Notation dzmul := (dmul Z Z.add Z.mul).

(* two inputs reading variables 0 and 1 of a Z-valued assignment, seeded with tangents (1,0):
   i.e. we differentiate with respect to variable 0. Node 2 = Hadamard product, node 3 = Kronecker
   product, node 4 = weighted sum 2*x0*x1 + 3*(x0*x1) over nodes 2 (and 5*.. for the second unit). *)
Definition in0 : inp DZ Z := {| iscope := [0%nat]; iunits := 1; ifun := fun y => [(y 0%nat, 1)] |}.
Definition in1 : inp DZ Z := {| iscope := [1%nat]; iunits := 1; ifun := fun y => [(y 1%nat, 0)] |}.
Definition exc : circuit DZ Z :=
  [ NIn DZ Z in0; NIn DZ Z in1; NHad DZ Z [0%nat; 1%nat]; NKron DZ Z [0%nat; 2%nat];
    NSum DZ Z [[(2, 0); (3, 0)]; [(5, 0); (0, 0)]] [2%nat; 3%nat] ].
Definition exy : asg Z := fun v => match v with O => 3 | S O => 7 | _ => 0 end.

(* x0 = 3, x1 = 7: node 2 = x0*x1 = 21 with d/dx0 = 7; node 3 = x0^2*x1 = 63 with d/dx0 = 2*x0*x1 = 42;
   node 4 = [2*21 + 3*63; 5*21] = [231; 105] with tangents [2*7 + 3*42; 5*7] = [140; 35]. *)
Example dual_example :
  eval DZ dz0 dzadd dzmul Z exc exy
  = [[(3, 1)]; [(7, 0)]; [(21, 7)]; [(63, 42)]; [(231, 140); (105, 35)]].
Proof. vm_compute. reflexivity. Qed.

(* the primal projection, computed independently over Z, agrees (instance of dual_primal) *)
Example primal_example :
  eval Z 0 Z.add Z.mul Z (map_circuit DZ Z Z fst exc) exy
  = [[3]; [7]; [21]; [63]; [231; 105]].
Proof. vm_compute. reflexivity. Qed.
Example dual_primal_instance :
  map (map fst) (eval DZ dz0 dzadd dzmul Z exc exy)
  = eval Z 0 Z.add Z.mul Z (map_circuit DZ Z Z fst exc) exy.
Proof. exact (dual_primal Z 0 Z.add Z.mul Z exc exy). Qed.

(* hom_eval instantiated with a non-identity homomorphism between different carriers:
   the parity map Z.odd from (Z, +, x) to (bool, xorb, andb) *)
Lemma odd_add a b : Z.odd (a + b) = xorb (Z.odd a) (Z.odd b).
Proof. apply Z.odd_add. Qed.
Lemma odd_mul a b : Z.odd (a * b) = andb (Z.odd a) (Z.odd b).
Proof. apply Z.odd_mul. Qed.
Definition zin0 : inp Z Z := {| iscope := [0%nat]; iunits := 2; ifun := fun y => [y 0%nat; 4] |}.
Definition zin1 : inp Z Z := {| iscope := [1%nat]; iunits := 2; ifun := fun y => [y 1%nat; 5] |}.
Definition zc : circuit Z Z :=
  [ NIn Z Z zin0; NIn Z Z zin1; NHad Z Z [0%nat; 1%nat]; NKron Z Z [0%nat; 1%nat];
    NSum Z Z [[1; 2; 3; 4; 5; 6]; [7; 0; 1; 1; 2; 9]] [2%nat; 3%nat] ].
Example parity_hom (y : asg Z) :
  eval bool false xorb andb Z (map_circuit Z bool Z Z.odd zc) y
  = map (map Z.odd) (eval Z 0 Z.add Z.mul Z zc y).
Proof. apply hom_eval; [exact odd_add | exact odd_mul | reflexivity]. Qed.
Example parity_example :
  eval bool false xorb andb Z (map_circuit Z bool Z Z.odd zc) exy
  = [[true; false]; [true; true]; [true; false]; [true; true; false; false]; [false; true]].
Proof. vm_compute. reflexivity. Qed.
Example parity_example_Z :
  eval Z 0 Z.add Z.mul Z zc exy
  = [[3; 4]; [7; 5]; [21; 20]; [21; 15; 28; 20]; [21 + 40 + 63 + 60 + 140 + 120; 147 + 21 + 15 + 56 + 180]].
Proof. vm_compute. reflexivity. Qed.

(* horner_dual at Z: p(x) = 1 + 2x + 3x^2 + 4x^3 at x = 2: p = 49, p' = 2 + 6x + 12x^2 = 62 *)
Example horner_example :
  horner DZ dz0 dzadd dzmul (map (dconst Z 0) [1; 2; 3; 4]) (dvar Z 1 2) = (49, 62).
Proof. vm_compute. reflexivity. Qed.
Example pdiff1_example : pdiff1 Z 1 Z.add Z.mul [1; 2; 3; 4] = [2; 6; 12].
Proof. vm_compute. reflexivity. Qed.
End Examples.

Check hom_eval.
Print Assumptions hom_eval.
Check dual_semiring.
Print Assumptions dual_semiring.
Check dual_primal.
Print Assumptions dual_primal.
Check dual_const.
Print Assumptions dual_const.
Check snd_dmul.
Print Assumptions snd_dmul.
Check snd_dadd.
Print Assumptions snd_dadd.
Check nth_pdiff1.
Print Assumptions nth_pdiff1.
Check horner_dual.
Print Assumptions horner_dual.
Check horner_dual_snd.
Print Assumptions horner_dual_snd.
Check parity_hom.
Print Assumptions parity_hom.
Check dual_example.
Print Assumptions dual_example.
Check horner_example.
Print Assumptions horner_example.
