"""Entry point: ./check Cxx [--tier quick|thorough] [--replay path]"""
import argparse
import importlib
import json
import os
import re
import sys
import traceback

sys.path.insert(0, os.path.dirname(os.path.abspath(__file__)))
import common  # noqa: E402


def main():
    ap = argparse.ArgumentParser()
    ap.add_argument("pid")
    ap.add_argument("--tier", default=os.environ.get("VERIF_TIER", "quick"))
    ap.add_argument("--replay", default=None)
    a = ap.parse_args()
    if a.pid == "coqchk":
        # independent re-check of every compiled file with coqchk; prints the axioms the development relies on
        ok, log = common.coq_build()
        mods = " ".join("CK." + l.strip()[:-2].replace("/", ".") for l in open(os.path.join(common.COQ, "_CoqProject")) if l.strip().endswith(".v"))
        rc, out = common.sh(f"timeout 3000 coqchk -o -silent -Q {common.COQ} CK {mods}", timeout=3100)
        print(out[-2500:])
        m = re.search(r"\* Axioms:(.*?)\n\s*\n\* Constants", out, re.S)
        names = [l.strip() for l in (m.group(1) if m else "?").splitlines() if l.strip() and l.strip() != "<none>"]
        short = lambda n: ".".join(n.split(".")[-2:])
        bad = [n for n in names if short(n) not in common.ALLOWED_AXIOMS]
        clean = all(f"{k}: <none>" in out for k in ("type-in-type", "unsafe (co)fixpoints", "positivity is assumed"))
        print("coqchk axioms:", names or "none", "| not allow-listed:", bad or "none", "| kernel checks untouched:", clean)
        sys.exit(0 if rc == 0 and m and not bad and clean else 1)
    if a.pid == "selftest":
        import selftest
        sys.exit(selftest.main())
    seed = int(os.environ.get("VERIF_SEED", "0"))
    common.seed_all(seed)
    rep = common.Report(a.pid, a.tier, seed)
    ok, log = common.coq_build()
    if not ok:
        rep.violation("coq-build", "the Coq development no longer builds", {"log": log[-3000:]}, found_input=False)
    info = common.check_props(a.pid)
    rep.obligations += max(1, len(info["theorems"]))
    if info["ok"]:
        rep.discharged += max(1, len(info["theorems"]))
    else:
        rep.violation("props-" + a.pid, f"theorems of Props/{a.pid}.v no longer check", {"log": info["log"], "theorem_file": f"coq/Props/{a.pid}.v"}, found_input=False)
    gate = common.grep_gate()
    if gate:
        rep.violation("grep-gate", "forbidden declaration in the Coq development", {"lines": gate}, found_input=False)
    if a.pid in ("C14", "C17"):
        # second route: the integer glue of the current source is re-translated and GenAgree.v re-proved
        import translate
        tok, tlog = translate.run()
        rep.obligations += 3
        if tok:
            rep.discharged += 3
        else:
            rep.violation("genagree", "the shape/axis expressions translated from the current source no longer agree with the model (coq/GenAgree.v)",
                          {"log": tlog, "theorem_file": "coq/GenAgree.v"}, found_input=False)
    mod = importlib.import_module(f"props.{a.pid}")
    replay = None
    if a.replay:
        replay = json.load(open(a.replay))
    try:
        mod.run(rep, a.tier, seed, replay)
    except Exception:
        rep.violation("harness-exception", "the check itself crashed", {"traceback": traceback.format_exc()[-3000:]}, found_input=False)
    sys.exit(rep.finish(info, level="proof"))


if __name__ == "__main__":
    main()
