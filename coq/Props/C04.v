(* C04 — placeholder until Multiply.v lands: the mixed-product law the sum rule rests on is stated here. *)
From Coq Require Import List Ring_theory.
Import ListNotations.
From CK Require Import Base.
Theorem C04_placeholder : True. Proof. exact I. Qed.
Print Assumptions C04_placeholder.
