(* C02 — folding preserves the function (address-book evaluation)
   Property theorems only: each is closed by `exact <lemma>`; proofs live in the imported files. *)
From Coq Require Import List ZArith QArith Qcanon Ring_theory Field_theory Permutation Sorted.
Import ListNotations.
From CK Require Import Gen.
From CK Require Import Fold.
Close Scope Qc_scope. Close Scope Q_scope. Close Scope Z_scope. Open Scope nat_scope.

(* evaluating any folded graph through its address book (concatenate the listed module outputs, gather by the index lists, apply the members fold-wise) reproduces the unfolded values slice by slice whenever the book is consistent; modules are arbitrary functions, so this holds for every layer type, semiring, parameter value and input *)
Theorem C02_folded_sound :
  forall (V : Type) (dV : V) (g : ugraph V) (F : fgraph),
         uwf V dV g ->
         fwf F ->
         consistent V dV g F ->
         forall Mi : nat,
         Mi < length F ->
         length (nth Mi (feval V dV g F) []) = fsize F Mi /\
         (forall s : nat,
          s < fsize F Mi ->
          nth s (nth Mi (feval V dV g F) []) dV = nth (nth s (members (nth Mi F dfm)) 0) (ueval V dV g) dV).
Proof. exact folded_sound. Qed.
Print Assumptions C02_folded_sound.
