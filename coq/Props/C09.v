(* C09 — operators refuse invalid inputs and results keep the promised structure
   Property theorems only: each is closed by `exact <lemma>`; proofs live in the imported files. *)
From Coq Require Import List ZArith QArith Qcanon Ring_theory Field_theory Permutation Sorted.
Import ListNotations.
From CK Require Import Base.
From CK Require Import Scalar.
From CK Require Import Tensor.
From CK Require Import Pexpr.
From CK Require Import Exec.
From CK Require Import Ops.
From CK Require Import Struct.
From CK Require Import OpsProps.
From CK Require Import DiffStruct.
From CK Require Import MulStruct.
Close Scope Qc_scope. Close Scope Q_scope. Close Scope Z_scope. Open Scope nat_scope.

(* integrate refuses (structural-property error) every circuit that is not smooth and decomposable *)
Theorem C09_integrate_refuses_struct :
  forall (Z : list nat) (c : circuit),
         is_smooth c && is_decomposable c = false -> integrate_m Z c = Err EStruct.
Proof. exact integrate_refuses_struct. Qed.
Print Assumptions C09_integrate_refuses_struct.

(* ... refuses an empty scope *)
Theorem C09_integrate_refuses_empty :
  forall c : circuit, is_smooth c && is_decomposable c = true -> integrate_m [] c = Err EValue.
Proof. exact integrate_refuses_empty. Qed.
Print Assumptions C09_integrate_refuses_empty.

(* ... and variables outside the circuit scope *)
Theorem C09_integrate_refuses_outside :
  forall (Z : list nat) (c : circuit),
         is_smooth c && is_decomposable c = true ->
         Z <> [] -> ssubset Z (cscope c) = false -> integrate_m Z c = Err EValue.
Proof. exact integrate_refuses_outside. Qed.
Print Assumptions C09_integrate_refuses_outside.

(* differentiate refuses circuits that are not smooth and decomposable *)
Theorem C09_differentiate_refuses_struct :
  forall (k : nat) (c : circuit),
         is_smooth c && is_decomposable c = false -> differentiate_m k c = Err EStruct.
Proof. exact differentiate_refuses_struct. Qed.
Print Assumptions C09_differentiate_refuses_struct.

(* ... and a non-positive order *)
Theorem C09_differentiate_refuses_order :
  forall c : circuit, is_smooth c && is_decomposable c = true -> differentiate_m 0 c = Err EValue.
Proof. exact differentiate_refuses_order. Qed.
Print Assumptions C09_differentiate_refuses_order.

(* multiply refuses every pair that is not compatible *)
Theorem C09_multiply_refuses_incompatible :
  forall a b : circuit,
         seqb (cscope a) (cscope b) = true -> compatible a b = false -> multiply_m a b = Err EStruct.
Proof. exact multiply_refuses_incompatible. Qed.
Print Assumptions C09_multiply_refuses_incompatible.

(* ... and operands over different scopes *)
Theorem C09_multiply_refuses_scope :
  forall a b : circuit, seqb (cscope a) (cscope b) = false -> multiply_m a b = Err ENotImpl.
Proof. exact multiply_refuses_scope. Qed.
Print Assumptions C09_multiply_refuses_scope.

(* evidence refuses an empty observation *)
Theorem C09_evidence_refuses_empty :
  forall c : circuit, evidence_m [] c = Err EValue.
Proof. exact evidence_refuses_empty. Qed.
Print Assumptions C09_evidence_refuses_empty.

(* ... and variables outside the scope *)
Theorem C09_evidence_refuses_outside :
  forall (obs : list (nat * C)) (c : circuit),
         canon (map fst obs) <> [] ->
         ssubset (canon (map fst obs)) (cscope c) = false -> evidence_m obs c = Err EValue.
Proof. exact evidence_refuses_outside. Qed.
Print Assumptions C09_evidence_refuses_outside.

(* whenever integrate returns, the result is smooth and decomposable, every scope is the original minus Z, outputs and layer count are unchanged *)
Theorem C09_integrate_result :
  forall (Z : list nat) (c c' : circuit),
         integrate_m Z c = Ok c' ->
         scopes c' = map (fun s : list nat => sdiff s Z) (scopes c) /\
         is_smooth c' = true /\
         is_decomposable c' = true /\
         cscope c' = sdiff (cscope c) Z /\ outs c' = outs c /\ length (nodes c') = length (nodes c).
Proof. exact integrate_structure. Qed.
Print Assumptions C09_integrate_result.

(* whenever evidence returns, scopes are the originals minus the observed variables and smoothness / decomposability are preserved *)
Theorem C09_evidence_result :
  forall (obs : asg) (c c' : circuit),
         evidence_m obs c = Ok c' ->
         scopes c' = map (fun s : list nat => sdiff s (canon (map fst obs))) (scopes c) /\
         (is_smooth c = true -> is_smooth c' = true) /\
         (is_decomposable c = true -> is_decomposable c' = true) /\
         cscope c' = sdiff (cscope c) (canon (map fst obs)) /\
         outs c' = outs c /\ length (nodes c') = length (nodes c).
Proof. exact evidence_structure. Qed.
Print Assumptions C09_evidence_result.

(* conjugation preserves scopes and all structural flags *)
Theorem C09_conjugate_result :
  forall c c' : circuit,
         conjugate_m c = Ok c' ->
         scopes c' = scopes c /\
         is_smooth c' = is_smooth c /\
         is_decomposable c' = is_decomposable c /\ is_sd c' = is_sd c /\ outs c' = outs c.
Proof. exact conjugate_structure. Qed.
Print Assumptions C09_conjugate_result.

(* ... including compatibility with any other circuit *)
Theorem C09_conjugate_result_compat :
  forall c c' : circuit,
         conjugate_m c = Ok c' ->
         cscope c' = cscope c /\
         factorizations c' = factorizations c /\
         length (nodes c') = length (nodes c) /\
         (forall b : circuit, compatible c' b = compatible c b) /\
         (forall b : circuit, compatible b c' = compatible b c).
Proof. exact conjugate_structure_more. Qed.
Print Assumptions C09_conjugate_result_compat.

(* whenever differentiate_m returns (operand well-formed), the result is smooth and decomposable, has exactly the scope of the operand, one output per (output, variable of its scope) plus the copy, all outputs valid nodes, and every node refers to earlier nodes *)
Theorem C09_differentiate_result :
  forall (k : nat) (c c' : circuit),
         wf c = true ->
         differentiate_m k c = Ok c' ->
         is_smooth c' = true /\
         is_decomposable c' = true /\
         cscope c' = cscope c /\
         length (outs c') = list_sum (map (fun o : nat => length (nth o (scopes c) []) + 1) (outs c)) /\
         (forall o : nat, In o (outs c') -> o < length (nodes c')) /\ wsc c'.
Proof. exact differentiate_structure_eq. Qed.
Print Assumptions C09_differentiate_result.

(* the outputs split into one block per output o of the operand, of length |scope(o)|+1, every element having the scope of o *)
Theorem C09_differentiate_output_blocks :
  forall (k : nat) (c c' : circuit),
         wf c = true ->
         differentiate_m k c = Ok c' ->
         exists blocks : list (list nat),
           outs c' = concat blocks /\
           Forall2
             (fun (o : nat) (b : list nat) =>
              length b = length (nth o (scopes c) []) + 1 /\
              (forall x : nat, In x b -> nth x (scopes c') [] = nth o (scopes c) [])) 
             (outs c) blocks.
Proof. exact differentiate_output_scopes. Qed.
Print Assumptions C09_differentiate_output_blocks.

(* whenever multiply_m returns (operands well-formed), the product is smooth and decomposable, has the operands' scope, one output per pair of outputs (all valid nodes), and output (o1,o2) has scope scope(o1) U scope(o2) *)
Theorem C09_multiply_result :
  forall a b p : circuit,
         wf a = true ->
         wf b = true ->
         multiply_m a b = Ok p ->
         is_smooth p = true /\
         is_decomposable p = true /\
         length (outs p) = length (outs a) * length (outs b) /\
         (forall o : nat, In o (outs p) -> o < length (nodes p)) /\
         Forall2
           (fun (pq : nat * nat) (o : nat) =>
            nth o (scopes p) [] = sunion (nth (fst pq) (scopes a) []) (nth (snd pq) (scopes b) []))
           (pairs pair (outs a) (outs b)) (outs p) /\ cscope p = cscope a.
Proof. exact multiply_structure. Qed.
Print Assumptions C09_multiply_result.

(* every multiplied pair of layers has disjoint or equal scopes and its product node has the union as scope *)
Theorem C09_multiply_pair_scopes :
  forall (a b : circuit) (i j k : nat),
         wf a = true ->
         wf b = true ->
         compatible a b = true ->
         j < length (nodes b) ->
         nth (i * length (nodes b) + j) (mtbl (mul_final a b)) None = Some k ->
         k < length (mnodes (mul_final a b)) /\
         nth k (scopes_from (mnodes (mul_final a b)) []) [] =
         sunion (nth i (scopes a) []) (nth j (scopes b) []) /\
         (sdisjoint (nth i (scopes a) []) (nth j (scopes b) []) = true \/
          nth i (scopes a) [] = nth j (scopes b) []).
Proof. exact multiply_table_scopes. Qed.
Print Assumptions C09_multiply_pair_scopes.
