"""C20 — model templates compute the formulas they document."""
import itertools
import traceback

import numpy as np
import torch

import cirkit.symbolic.functional as SF
from cirkit.symbolic import layers as L
from cirkit.symbolic import parameters as P
from cirkit.templates import pgms, tensor_factorizations as TF
from cirkit.templates.logic import graph as LG
from cirkit.templates.utils import Parameterization
from cirkit.utils.scope import Scope

import evalc
import export
import gen
from cases import CaseSet, rng_for, close

PID = "C20"


def registry_reader(ctx):
    state = ctx._compiler.state

    def leafval(p):
        if not state.has_compiled_parameter(p):
            return None
        t, k = state.retrieve_compiled_parameter(p)
        return t._ptensor.detach()[k].numpy()
    return leafval


def layer_param_value(leafval, par):
    """numpy value of a (leaf-only or simple) symbolic parameter, read through the registry"""
    n = par.output
    if isinstance(n, P.ReferenceParameter):
        n = n.deref()
    if isinstance(n, P.TensorParameter):
        v = leafval(n)
        if v is None:
            v = export.Exporter().leaf_value(n)
        return np.asarray(v)
    (inp,) = par.node_inputs(n)
    if isinstance(inp, P.ReferenceParameter):
        inp = inp.deref()
    x = np.asarray(leafval(inp))
    if isinstance(n, P.SoftmaxParameter):
        e = np.exp(x - x.max(axis=n.axis, keepdims=True))
        return e / e.sum(axis=n.axis, keepdims=True)
    if isinstance(n, P.SigmoidParameter):
        return 1 / (1 + np.exp(-x))
    raise export.ExportError("unsupported parameterisation in oracle")


def rand_formula(rng, vs, depth=0):
    """random deterministic, decomposable (not necessarily smooth) formula over a subset of vs; returns (node, fn)"""
    nodes, ins = [], {}

    def lit(v, neg):
        n = LG.NegatedLiteralNode(v) if neg else LG.LiteralNode(v)
        nodes.append(n)
        return n, (lambda a, v=v, neg=neg: (not a[v]) if neg else bool(a[v]))

    def build(vars_, d):
        """vars_ non-empty"""
        r = rng.random()
        if len(vars_) == 1:
            return lit(vars_[0], rng.random() < 0.5)
        if r < 0.6 or d > 3:
            # decision on x: (x & A) | (~x & B), deterministic by construction; A, B over subsets of the rest
            x = vars_[0]
            rest = vars_[1:]
            ra = [v for v in rest if rng.random() < 0.8]
            rb = [v for v in rest if rng.random() < 0.8]
            (la, fa), (lb, fb) = lit(x, False), lit(x, True)
            branches = []
            for l_, f_, sub in ((la, fa, ra), (lb, fb, rb)):
                if sub:
                    a, ga = build(sub, d + 1)
                    cn = LG.ConjunctionNode()
                    nodes.append(cn)
                    ins[cn] = [l_, a]
                    branches.append((cn, (lambda asg, f_=f_, ga=ga: f_(asg) and ga(asg))))
                else:
                    branches.append((l_, f_))
            dn = LG.DisjunctionNode()
            nodes.append(dn)
            ins[dn] = [branches[0][0], branches[1][0]]
            return dn, (lambda asg, b0=branches[0][1], b1=branches[1][1]: b0(asg) or b1(asg))
        # decomposable conjunction over a split of the variables
        k = rng.randint(1, len(vars_) - 1)
        (a, ga), (b, gb) = build(vars_[:k], d + 1), build(vars_[k:], d + 1)
        cn = LG.ConjunctionNode()
        nodes.append(cn)
        ins[cn] = [a, b]
        return cn, (lambda asg, ga=ga, gb=gb: ga(asg) and gb(asg))

    root, fn = build(list(vs), depth)
    return nodes, ins, root, fn


def case_factorization(rep, cs, seed, i, rng, desc):
    kind = rng.choice(["cp", "cp", "tucker", "tt"])
    d = rng.choice([2, 2, 3, 4]) if kind != "tucker" else rng.choice([2, 2, 3])
    shape = tuple(rng.choice([1, 2, 3]) + (1 if kind == "tt" else 0) for _ in range(d))
    shape = tuple(max(s, 2) for s in shape)
    rank = rng.choice([1, 2, 3])
    desc.update({"template": kind, "shape": list(shape), "rank": rank})
    rep.count("template:" + kind)
    if kind == "cp":
        wp = rng.choice([None, Parameterization(activation="none", initialization="normal"), Parameterization(activation="softmax", initialization="normal")])
        sc = TF.cp(shape, rank, weight_param=wp)
    elif kind == "tucker":
        sc = TF.tucker(shape, rank)
    else:
        sc = TF.tensor_train(shape, rank)
    return sc, shape, rank, kind


def one_case(rep, cs, seed, i):
    rng = rng_for(seed, PID, i)
    torch.manual_seed(seed * 31 + i)
    fam = rng.choice(["fact", "fact", "hmm", "hmm", "ff", "logic", "logic"])
    fold, opt = rng.choice(evalc.FLAGS)
    sem = "sum-product"
    desc = {"i": i, "seed": seed, "family": fam, "fold": fold, "opt": opt}
    rep.count("family:" + fam)
    rep.count(f"flags:{int(fold)}{int(opt)}")
    try:
        if fam == "fact":
            sc, shape, rank, kind = case_factorization(rep, cs, seed, i, rng, desc)
            ctx = evalc.make_ctx(sem, fold, opt)
            cc = ctx.compile(sc)
            lv = registry_reader(ctx)
            idxs = list(itertools.product(*[range(s) for s in shape]))
            if len(idxs) > 40:
                idxs = rng.sample(idxs, 40)
            ys = [dict(enumerate(ix)) for ix in idxs]
            got = evalc.evaluate(cc, sc, ys, sem, int_inputs=True)[:, 0, 0]
            embs = {next(iter(l.scope._set)): l for l in sc.layers if isinstance(l, L.EmbeddingLayer)} if kind != "tt" else None
            if kind in ("cp", "tucker"):
                A = [layer_param_value(lv, embs[j].weight).T for j in range(len(shape))]       # A_j[x, r]
                sl = next(l for l in sc.layers if isinstance(l, L.SumLayer))
                W = layer_param_value(lv, sl.weight)[0]
                if kind == "cp":
                    exp = np.array([sum(W[r] * np.prod([A[j][ix[j], r] for j in range(len(shape))]) for r in range(rank)) for ix in idxs])
                else:
                    G = W.reshape((rank,) * len(shape))
                    exp = np.array([np.einsum(G, list(range(len(shape))), *sum(([A[j][ix[j]], [j]] for j in range(len(shape))), [])) for ix in idxs])
            else:
                # tensor train: cores read back from the embeddings in construction order
                first = next(l for l in sc.layers if isinstance(l, L.EmbeddingLayer) and l.scope._set == {0})
                last = next(l for l in sc.layers if isinstance(l, L.EmbeddingLayer) and l.scope._set == {len(shape) - 1})
                inner = {j: [l for l in sc.layers if isinstance(l, L.EmbeddingLayer) and l.scope._set == {j}] for j in range(1, len(shape) - 1)}
                F = layer_param_value(lv, first.weight)   # (rank, n0): F[r, x]
                Lw = layer_param_value(lv, last.weight)   # (rank, nd)
                cores = {j: np.stack([layer_param_value(lv, l.weight) for l in inner[j]]) for j in inner}  # (rank_out, rank_in, n)
                exp = []
                for ix in idxs:
                    v = F[:, ix[0]]
                    for j in range(1, len(shape) - 1):
                        v = np.array([np.dot(v, cores[j][q][:, ix[j]]) for q in range(rank)])
                    exp.append(np.dot(v, Lw[:, ix[-1]]))
                exp = np.array(exp)
            if not close(got, exp, rtol=1e-8, atol=1e-10):
                rep.violation(f"factorization-formula:{kind}", "the template does not evaluate to the documented contraction of its factor tensors",
                              {"case": desc, "indices": [list(x) for x in idxs[:6]], "observed": got.tolist()[:6], "expected": np.asarray(exp).tolist()[:6]})
            model_vals = evalc.evaluate(cc, sc, ys[:6], sem, int_inputs=True)
            ys = ys[:6]
        elif fam in ("hmm", "ff"):
            n = rng.randint(1, 5)
            order = list(range(n))
            rng.shuffle(order)
            ik = rng.choice(["categorical", "categorical", "binomial"])
            ncat = [rng.choice([2, 3, 4]) for _ in range(n)]          # per-variable arguments, by variable id
            kw = [{"num_categories": c} if ik == "categorical" else {"total_count": c - 1} for c in ncat]
            K = rng.choice([1, 2, 3])
            desc.update({"n": n, "ordering": order, "input": ik, "per_variable": ncat, "latent": K})
            sc = pgms.hmm(order, input_layer=ik, num_latent_states=K, input_layer_kwargs=kw) if fam == "hmm" else \
                pgms.fully_factorized(n, input_layer=ik, input_layer_kwargs=kw)
            # each variable uses the arguments given for that variable id
            for l in sc.layers:
                if isinstance(l, (L.CategoricalLayer, L.BinomialLayer)):
                    (v,) = l.scope._set
                    have = l.num_categories if ik == "categorical" else l.total_count + 1
                    if have != ncat[v]:
                        rep.violation("per-variable-arguments", "a variable's input layer does not use the arguments given for that variable id",
                                      {"case": desc, "variable": v, "observed": have, "expected": ncat[v]})
            ctx = evalc.make_ctx(sem, fold, opt)
            cc = ctx.compile(sc)
            lv = registry_reader(ctx)
            allx = list(itertools.product(*[range(c) for c in ncat]))
            if len(allx) > 60:
                allx = rng.sample(allx, 60)
            ys = [dict(enumerate(x)) for x in allx]
            got = evalc.evaluate(cc, sc, ys, sem, int_inputs=True)[:, 0, 0]
            # forward algorithm / product of marginals from the parameters read through the registry
            def emission(layer):
                p = layer_param_value(lv, layer.probs if layer.logits is None else layer.logits)
                if isinstance(layer, L.CategoricalLayer):
                    return p                                             # (K, N)
                from math import comb
                nt = layer.total_count
                return np.array([[comb(nt, x) * q ** x * (1 - q) ** (nt - x) for x in range(nt + 1)] for q in p])
            inl = {next(iter(l.scope._set)): l for l in sc.layers if isinstance(l, (L.CategoricalLayer, L.BinomialLayer))}
            if fam == "ff":
                exp = np.array([np.prod([emission(inl[v])[0, x[v]] for v in range(n)]) for x in allx])
            else:
                sums = [l for l in sc.topological_ordering() if isinstance(l, L.SumLayer)]
                Ws = [layer_param_value(lv, s.weight) for s in sums]  # in construction order: last variable first
                exp = []
                for x in allx:
                    v = Ws[0] @ emission(inl[order[-1]])[:, x[order[-1]]]
                    for t, i_ in enumerate(reversed(range(n - 1))):
                        v = Ws[t + 1] @ (v * emission(inl[order[i_]])[:, x[order[i_]]])
                    exp.append(v[0])
                exp = np.array(exp)
            if not close(got, exp, rtol=1e-8, atol=1e-12):
                rep.violation(f"pgm-formula:{fam}", "the template does not evaluate to the documented joint probability",
                              {"case": desc, "observed": got.tolist()[:6], "expected": exp.tolist()[:6]})
            ys = ys[:6]
            model_vals = evalc.evaluate(cc, sc, ys, sem, int_inputs=True)
        else:
            n = rng.randint(1, 5)
            vs = list(range(n))
            nodes, ins, root, fn = rand_formula(rng, vs)
            if isinstance(root, (LG.TopNode, LG.BottomNode, LG.LogicalInputNode)):
                return
            lc = LG.LogicalCircuit(nodes, ins, [root])
            desc.update({"n": n, "nnodes": len(nodes)})
            sc = lc.build_circuit()
            used = sorted(sc.scope._set)
            ctx = evalc.make_ctx(sem, fold, opt)
            cc = ctx.compile(sc)
            allx = list(itertools.product([0, 1], repeat=n))
            ys = [{v: x[v] for v in used} for x in allx]
            got = evalc.evaluate(cc, sc, ys, sem, int_inputs=True)[:, 0, 0]
            exp = np.array([1.0 if fn(dict(enumerate(x))) else 0.0 for x in allx])
            if not close(got, exp, rtol=1e-9, atol=1e-12):
                rep.violation("logic-truth-value", "the logic circuit does not evaluate to the truth value of its formula",
                              {"case": desc, "observed": got.tolist(), "expected": exp.tolist()})
            if used:
                si = SF.integrate(sc)
                z = evalc.evaluate(ctx.compile(si), si, [{}], sem)[0, 0, 0]
                # model count over the variables the circuit mentions
                mc = sum(1 for x in itertools.product([0, 1], repeat=len(used)) if fn({**{v: 0 for v in vs}, **dict(zip(used, x))}) ) \
                    if all(fn({**dict(enumerate(a)), **{}}) == fn({**dict(enumerate(a))}) for a in allx) else None
                # variables not mentioned do not influence fn: count over mentioned ones
                mc = len({tuple(x[v] for v in used) for x in allx if fn(dict(enumerate(x)))})
                if not close(np.array([z]), np.array([float(mc)]), rtol=1e-9, atol=1e-9):
                    rep.violation("logic-model-count", "the logic circuit does not integrate to the model count of its formula",
                                  {"case": desc, "observed": float(np.real(z)), "expected": mc})
            ys = ys[:8]
            model_vals = evalc.evaluate(cc, sc, ys, sem, int_inputs=True)
            lv = registry_reader(ctx)
    except Exception as e:
        rep.violation(f"template-exception:{fam}:{type(e).__name__}", "building / compiling / evaluating a template raised",
                      {"case": desc, "exception": repr(e)[:300], "traceback": traceback.format_exc()[-1500:]})
        return
    try:
        tc = export.Exporter(leafval=lv).circuit(sc)
    except export.ExportError as e:
        rep.violation("export-error", str(e), {"case": desc}, found_input=False)
        return
    term = f"let c := {tc} in [den_vs c {export.ex_asgs(ys)} {export.ex_vals(model_vals)}; b2n (is_smooth c && is_decomposable c)]"

    def interp(res, desc=desc):
        dv, sd = res
        rep.count(f"coq:den_vs={dv}")
        if dv == 0:
            rep.violation("template-vs-denotation", "the compiled template differs from the model's denotation of the exported circuit", {"case": desc})
        if sd != 1:
            rep.violation("template-structure", "the template circuit is not smooth and decomposable according to the verified predicates", {"case": desc})

    cs.add(desc, term, interp, nontrivial=True)


LOGIC_CONST_FORMULAS = {
    # constants below gates (as SDD files produce them), also nested one gate deeper
    "sdd-like": ("or", ("and", ("lit", 0), ("or", ("and", ("lit", 1), "T"), ("and", ("not", 1), ("lit", 2)))),
                 ("and", ("not", 0), ("or", ("and", ("lit", 1), "F"), ("and", ("not", 1), ("not", 2))))),
    "nested-false": ("or", ("and", ("lit", 0), ("lit", 1), ("and", ("lit", 2), "F")), ("and", ("not", 0), ("lit", 1), ("lit", 2))),
    "nested-false-deep": ("or", ("and", ("lit", 0), ("or", ("and", ("lit", 1), ("lit", 2), ("and", ("lit", 3), "F")),
                                                     ("and", ("not", 1), ("lit", 2), ("lit", 3)))),
                          ("and", ("not", 0), ("lit", 1), ("lit", 2), ("not", 3))),
    "top-in-decision": ("or", ("and", ("lit", 0), "T"), ("and", ("not", 0), ("lit", 1))),
    # a gate left with a single input (or none) once the constants are removed
    "and-top": ("and", ("lit", 0), "T"),
    "and-nested-top": ("and", ("lit", 0), ("lit", 1), ("and", "T", "T")),
}


def logic_const_case(rep, seed, i):
    """formulas with the constants true / false below (and one gate below) conjunctions and disjunctions"""
    rng = rng_for(seed, PID + "lconst", i)
    name = sorted(LOGIC_CONST_FORMULAS)[i % len(LOGIC_CONST_FORMULAS)]
    f = LOGIC_CONST_FORMULAS[name]
    nv = 1 + max(v for v in _fvars(f))
    ids = list(range(nv))
    rng.shuffle(ids)                       # variable numbering is arbitrary
    fold, opt = rng.choice(evalc.FLAGS)
    desc = {"i": i, "seed": seed, "family": "logic-constants", "formula": name, "renaming": ids, "fold": fold, "opt": opt}
    rep.count("family:logic-constants:" + name)
    rep.case(desc, True)
    innodes = {}
    lits = {}

    def rec(g):
        if g == "T":
            return LG.TopNode()
        if g == "F":
            return LG.BottomNode()
        if g[0] in ("lit", "not"):
            key = (g[0], ids[g[1]])
            if key not in lits:
                lits[key] = LG.LiteralNode(key[1]) if g[0] == "lit" else LG.NegatedLiteralNode(key[1])
            return lits[key]
        ch = [rec(h) for h in g[1:]]
        node = LG.ConjunctionNode() if g[0] == "and" else LG.DisjunctionNode()
        innodes[node] = ch
        return node

    def truth(g, a):
        if g == "T":
            return True
        if g == "F":
            return False
        if g[0] == "lit":
            return bool(a[ids[g[1]]])
        if g[0] == "not":
            return not a[ids[g[1]]]
        vals = [truth(h, a) for h in g[1:]]
        return all(vals) if g[0] == "and" else any(vals)

    try:
        root = rec(f)
        nodes = list(set(itertools.chain(*innodes.values())).union(innodes.keys()))
        sc = LG.LogicalCircuit(nodes, innodes, [root]).build_circuit()
        cc = evalc.make_ctx("sum-product", fold, opt).compile(sc)
    except Exception as e:
        rep.violation("logic-constant-gate:" + name, "building the circuit of a formula that contains the constants true / false raised "
                      f"({type(e).__name__}: {str(e)[:80]})", {"case": desc, "exception": repr(e)[:300], "traceback": traceback.format_exc()[-1200:]})
        return
    allx = list(itertools.product([0, 1], repeat=nv))
    used = sorted(sc.scope._set)
    try:
        got = evalc.evaluate(cc, sc, [{v: x[v] for v in used} for x in allx], "sum-product", int_inputs=True)[:, 0, 0]
    except Exception as e:
        rep.violation("template-exception:logic:" + type(e).__name__, "evaluating a logic circuit raised", {"case": desc, "exception": repr(e)[:300]})
        return
    exp = np.array([1.0 if truth(f, x) else 0.0 for x in allx])
    if not close(got, exp, rtol=1e-9, atol=1e-12):
        rep.violation("logic-truth-value", "the logic circuit does not evaluate to the truth value of its formula",
                      {"case": desc, "observed": got.tolist(), "expected": exp.tolist()})


def _fvars(g):
    if g in ("T", "F"):
        return set()
    if g[0] in ("lit", "not"):
        return {g[1]}
    return set().union(*(_fvars(h) for h in g[1:]))


def run(rep, tier, seed, replay=None):
    n = 120 if tier == "quick" else 2000
    cs = CaseSet(rep, PID)
    if replay is not None:
        c = replay["replay"].get("case", {})
        if c.get("family") == "logic-constants":
            logic_const_case(rep, c.get("seed", seed), c.get("i", 0))
        else:
            one_case(rep, cs, c.get("seed", seed), c.get("i", 0))
        cs.run()
        return
    for i in range(n):
        one_case(rep, cs, seed, i)
    for i in range(max(12, n // 10)):
        logic_const_case(rep, seed, i)
    cs.run(shard=max(6, 120 // 14))  # shard size of the quick tier: thorough runs use more files, not longer ones
