(* C18 — compiler registry and pipeline context stay coherent over any call history
   Property theorems only: each is closed by `exact <lemma>`; proofs live in the imported files. *)
From Coq Require Import List ZArith QArith Qcanon Ring_theory Field_theory Permutation Sorted.
Import ListNotations.
From CK Require Import Ctx.
Close Scope Qc_scope. Close Scope Q_scope. Close Scope Z_scope. Open Scope nat_scope.

(* for every well-bracketed enter/exit sequence over distinct or sequentially reused context objects (no re-entrance of an active object), every exit finds its token, the active value after the sequence equals the one before, and the tokens of enclosing contexts are untouched *)
Theorem C18_contexts :
  forall (a : list nat) (es : list ev),
         wb a es ->
         forall s : st,
         exists s' : st,
           run s es = Some s' /\
           cur s' = cur s /\
           same_on a (tok s') (tok s) /\ (forall j : nat, ~ In j a -> tok s j = None -> tok s' j = None).
Proof. exact wb_restores. Qed.
Print Assumptions C18_contexts.

(* compiling an already compiled circuit leaves the registry unchanged (the same compiled object is returned) *)
Theorem C18_memo :
  forall (ops : nat -> list nat) (r : list nat) (c : nat), In c r -> compile ops r c = r.
Proof. exact compile_memo. Qed.
Print Assumptions C18_memo.

(* after compile the circuit is registered *)
Theorem C18_registers :
  forall (ops : nat -> list nat) (r : reg) (c : nat), In c (compile ops r c).
Proof. exact compile_registers. Qed.
Print Assumptions C18_registers.

(* each symbolic circuit has exactly one compiled object: the registry never contains duplicates *)
Theorem C18_bijection :
  forall (ops : nat -> list nat) (r : list nat) (c : nat), NoDup r -> NoDup (compile ops r c).
Proof. exact compile_nodup. Qed.
Print Assumptions C18_bijection.

(* in the registry every circuit appears after all of its operands (operands are compiled before the circuits derived from them) *)
Theorem C18_operands_first :
  forall ops : nat -> list nat,
         (forall c o : nat, In o (ops c) -> o < c) ->
         forall (r : reg) (c : nat), ordered ops r -> ordered ops (compile ops r c).
Proof. exact compile_ordered. Qed.
Print Assumptions C18_operands_first.
