(* Multiply.v — the product of two semantic circuits and its correctness: every pair node of the
   product evaluates to the Kronecker product of the operands' values (for ALL circuits). *)
From Coq Require Import List Lia Ring Ring_theory Bool Arith.
Import ListNotations.
From CK Require Import Base Circ.
#[local] Arguments NIn {R D} i.
#[local] Arguments NSum {R D} W ins.
#[local] Arguments NHad {R D} ins.
#[local] Arguments NKron {R D} ins.
#[local] Arguments Build_inp {R D} _ _ _.
#[local] Arguments iscope {R D} _.
#[local] Arguments iunits {R D} _.
#[local] Arguments ifun {R D} _.

Section Multiply.
Variable R : Type.
Variables (rO rI : R) (radd rmul : R -> R -> R).
Hypothesis Rth : semi_ring_theory rO rI radd rmul (@eq R).
Add Ring Rring : Rth.
Infix "+" := radd. Infix "*" := rmul.
Notation "0" := rO. Notation "1" := rI.
Variable D : Type.
Notation asg := (asg D).
Notation vec := (vec R).
Notation dot := (dot R rO radd rmul).
Notation had := (had R rmul).
Notation kron := (kron R rmul).
Notation scale := (scale R rmul).
Notation inp := (inp R D).
Notation node := (node R D).
Notation circuit := (circuit R D).
Notation eval := (eval R rO radd rmul D).
Notation eval_node := (eval_node R rO radd rmul D).
Notation eval_from := (eval_from R rO radd rmul D).
Notation units := (units R D).
Notation get := (get R).
Notation hadn := (hadn R rmul).
Notation kronn := (kronn R rmul).

(* ====================================================================== *)
(* Part 1: semiring algebra of dot / had / kron / scale                    *)
(* ====================================================================== *)
Lemma length_scale a (v : vec) : length (scale a v) = length v.
Proof. unfold Base.scale. apply map_length. Qed.
Lemma kron_cons a (x y : vec) : kron (a :: x) y = scale a y ++ kron x y.
Proof. reflexivity. Qed.
Lemma kron_nil (y : vec) : kron [] y = [].
Proof. reflexivity. Qed.
Lemma length_kron (x y : vec) : length (kron x y) = (length x * length y)%nat.
Proof. induction x as [|a x IH]; [reflexivity|].
  rewrite kron_cons, app_length, length_scale, IH. simpl. reflexivity. Qed.

Lemma dot_app (a1 a2 b1 b2 : vec) : length a1 = length b1 ->
  dot (a1 ++ a2) (b1 ++ b2) = dot a1 b1 + dot a2 b2.
Proof. revert b1; induction a1 as [|a a1 IH]; intros [|b b1] H; simpl in *; try discriminate; [ring|].
  rewrite IH by lia. ring. Qed.
Lemma dot_scale a b (w x : vec) : dot (scale a w) (scale b x) = (a * b) * dot w x.
Proof. revert x; induction w as [|c w IH]; intros [|d x]; simpl; try ring. rewrite IH. ring. Qed.
(* mixed-product property *)
Lemma dot_kron (w1 w2 x1 x2 : vec) : length w1 = length x1 -> length w2 = length x2 ->
  dot (kron w1 w2) (kron x1 x2) = dot w1 x1 * dot w2 x2.
Proof. revert x1; induction w1 as [|a w1 IH]; intros [|b x1] H1 H2; try discriminate H1.
  - simpl. ring.
  - rewrite !kron_cons. rewrite dot_app by (rewrite !length_scale; exact H2).
    rewrite dot_scale, IH by (simpl in H1; lia || exact H2). simpl. ring. Qed.

Lemma had_nil_r (x : vec) : had x [] = [].
Proof. destruct x; reflexivity. Qed.
Lemma had_app (x1 x2 y1 y2 : vec) : length x1 = length y1 ->
  had (x1 ++ x2) (y1 ++ y2) = had x1 y1 ++ had x2 y2.
Proof. revert y1; induction x1 as [|a x1 IH]; intros [|b y1] H; simpl in *; try discriminate; [reflexivity|].
  rewrite IH by lia. reflexivity. Qed.
Lemma had_scale a b (x y : vec) : had (scale a x) (scale b y) = scale (a * b) (had x y).
Proof. revert y; induction x as [|c x IH]; intros [|d y]; simpl; try reflexivity.
  rewrite IH. f_equal. ring. Qed.
Lemma kron_had (x1 x2 y1 y2 : vec) : length y1 = length y2 ->
  kron (had x1 x2) (had y1 y2) = had (kron x1 y1) (kron x2 y2).
Proof. intros Hy. revert x2; induction x1 as [|a x1 IH]; intros [|b x2].
  - reflexivity.
  - reflexivity.
  - rewrite kron_nil, !had_nil_r. reflexivity.
  - change (had (a :: x1) (b :: x2)) with (a * b :: had x1 x2).
    rewrite !kron_cons, had_app by (rewrite !length_scale; exact Hy).
    rewrite had_scale, IH. reflexivity. Qed.

Lemma kron_fold_had u (xs ys : list vec) : forall (x y : vec), length xs = length ys ->
  length y = u -> (forall z, In z ys -> length z = u) ->
  kron (fold_left had xs x) (fold_left had ys y)
  = fold_left had (map (fun p => kron (fst p) (snd p)) (combine xs ys)) (kron x y).
Proof. revert ys; induction xs as [|a xs IH]; intros [|b ys] x y HL Hy Hys; simpl in HL; try discriminate.
  - reflexivity.
  - simpl. rewrite IH.
    + rewrite kron_had; [reflexivity|]. rewrite Hy. symmetry. apply Hys. simpl; auto.
    + lia.
    + rewrite (length_had R rmul), Hy, (Hys b) by (simpl; auto). apply Nat.min_id.
    + intros z Hz. apply Hys. simpl; auto. Qed.
Lemma kron_hadn u (xs ys : list vec) : length xs = length ys -> (forall z, In z ys -> length z = u) ->
  kron (hadn xs) (hadn ys) = hadn (map (fun p => kron (fst p) (snd p)) (combine xs ys)).
Proof. destruct xs as [|x xs], ys as [|y ys]; intros HL Hys; simpl in HL; try discriminate; [reflexivity|].
  simpl. apply (kron_fold_had u); [lia | apply Hys; simpl; auto | intros; apply Hys; simpl; auto]. Qed.

Lemma kron_map_dot (W1 W2 : list vec) (X Z : vec) :
  kron (map (fun r => dot r X) W1) (map (fun r => dot r Z) W2)
  = flat_map (fun r1 => map (fun r2 => dot r1 X * dot r2 Z) W2) W1.
Proof. induction W1 as [|r W1 IH]; [reflexivity|]. simpl map. rewrite kron_cons, IH. simpl. f_equal.
  unfold Base.scale. rewrite map_map. reflexivity. Qed.

(* block rows *)
Definition pairs_k (xs ys : list vec) : list vec := flat_map (fun x => map (kron x) ys) xs.
Definition samelen : list vec -> list vec -> Prop := Forall2 (fun b x => length b = length x).
Lemma length_concat_kron (b x : vec) bs xs : length b = length x -> samelen bs xs ->
  length (concat (map (kron b) bs)) = length (concat (map (kron x) xs)).
Proof. intros Hb H. induction H as [|b' x' bs xs Hbx H IH]; [reflexivity|]. simpl.
  rewrite !app_length, !length_kron, IH, Hb, Hbx. reflexivity. Qed.
Lemma dot_blocks_inner (b x : vec) bs xs : length b = length x -> samelen bs xs ->
  dot (concat (map (kron b) bs)) (concat (map (kron x) xs)) = dot b x * dot (concat bs) (concat xs).
Proof. intros Hb H. induction H as [|b' x' bs xs Hbx H IH]; simpl; [ring|].
  rewrite !dot_app by (rewrite ?length_kron; congruence). rewrite IH, dot_kron by assumption. ring. Qed.
Lemma dot_blocks bs1 xs1 bs2 xs2 : samelen bs1 xs1 -> samelen bs2 xs2 ->
  dot (concat (pairs_k bs1 bs2)) (concat (pairs_k xs1 xs2))
  = dot (concat bs1) (concat xs1) * dot (concat bs2) (concat xs2).
Proof. intros H1 H2. induction H1 as [|b x bs1 xs1 Hbx H1 IH]; simpl; [ring|].
  unfold pairs_k in *. rewrite !concat_app.
  rewrite !dot_app by (try apply length_concat_kron; assumption).
  rewrite IH, dot_blocks_inner by assumption. ring. Qed.

Fixpoint split_blocks (us : list nat) (r : vec) : list vec :=
  match us with [] => [] | u :: us' => firstn u r :: split_blocks us' (skipn u r) end.
Lemma split_blocks_concat us : forall r, length r = list_sum us -> concat (split_blocks us r) = r.
Proof. induction us as [|u us IH]; intros r H; simpl in *.
  - destruct r; [reflexivity | discriminate].
  - rewrite IH by (rewrite skipn_length; lia). apply firstn_skipn. Qed.
Lemma split_blocks_len us (xs : list vec) : Forall2 (fun (x : vec) u => length x = u) xs us ->
  forall r, length r = list_sum us -> samelen (split_blocks us r) xs.
Proof. intros H. induction H as [|x u xs us Hxu H IH]; intros r Hr; simpl in *; constructor.
  - rewrite firstn_length_le by lia. congruence.
  - apply IH. rewrite skipn_length. lia. Qed.

(* ====================================================================== *)
(* Part 2: evaluation as a fixpoint; prefixes; index shifting              *)
(* ====================================================================== *)
Definition ins_of (n : node) : list nat :=
  match n with NIn _ => [] | NSum _ ins | NHad ins | NKron ins => ins end.
Definition dn : node := NKron [].
Definition wscoped (c : circuit) : Prop :=
  forall k, k < length c -> forall j, In j (ins_of (nth k c dn)) -> j < k.
Definition wfm (c : circuit) : Prop :=
  wscoped c /\ forall y i, i < length c -> length (nth i (eval c y) []) = nth i (units c) 0%nat.

Lemma eval_node_ext n y (v v' : list vec) :
  (forall j, In j (ins_of n) -> get v j = get v' j) -> eval_node n y v = eval_node n y v'.
Proof. intros H. destruct n as [i|W ins|ins|ins]; simpl in *; [reflexivity| | |];
  rewrite (map_ext_in (get v) (get v') ins H); reflexivity. Qed.

Lemma nth_firstn_lt {A} (l : list A) d : forall k j, j < k -> nth j (firstn k l) d = nth j l d.
Proof. induction l as [|a l IH]; intros [|k] [|j] H; simpl; try reflexivity; try lia. apply IH. lia. Qed.
Lemma firstn_snoc_le {A} k (l : list A) x : k <= length l -> firstn k (l ++ [x]) = firstn k l.
Proof. intros H. rewrite firstn_app. replace (k - length l)%nat with 0%nat by lia. simpl. apply app_nil_r. Qed.

Lemma eval_nth c y : forall k, k < length c ->
  nth k (eval c y) [] = eval_node (nth k c dn) y (firstn k (eval c y)).
Proof. induction c as [|n c IH] using rev_ind; intros k Hk; [simpl in Hk; lia|].
  rewrite app_length in Hk. simpl in Hk.
  destruct (Nat.eq_dec k (length c)) as [->|Hne].
  - rewrite (ev_eq R rO radd rmul D), nth_snoc_eq, (eval_snoc R rO radd rmul D).
    rewrite firstn_snoc_le by (rewrite (length_eval R rO radd rmul D); lia).
    rewrite firstn_all2 by (rewrite (length_eval R rO radd rmul D); lia). reflexivity.
  - rewrite (ev_lt R rO radd rmul D) by lia. rewrite app_nth1 by lia.
    rewrite (eval_snoc R rO radd rmul D), firstn_snoc_le by (rewrite (length_eval R rO radd rmul D); lia).
    apply IH. lia. Qed.
Lemma eval_fix c y k : k < length c -> (forall j, In j (ins_of (nth k c dn)) -> j < k) ->
  nth k (eval c y) [] = eval_node (nth k c dn) y (eval c y).
Proof. intros Hk Hs. rewrite eval_nth by exact Hk. apply eval_node_ext. intros j Hj.
  unfold Circ.get. apply nth_firstn_lt. apply Hs, Hj. Qed.

Lemma nth_eval_from_lt ns y : forall acc k, k < length acc -> nth k (eval_from ns y acc) [] = nth k acc [].
Proof. induction ns as [|n ns IH]; intros acc k H; simpl; [reflexivity|].
  rewrite IH by (rewrite app_length; simpl; lia). apply app_nth1. exact H. Qed.
Lemma eval_app_lt c rest y k : k < length c -> nth k (eval (c ++ rest) y) [] = nth k (eval c y) [].
Proof. intros H. unfold Circ.eval. rewrite (eval_from_app R rO radd rmul D).
  apply nth_eval_from_lt. rewrite (length_eval_from R rO radd rmul D). simpl. exact H. Qed.

Definition shift (k : nat) (n : node) : node :=
  match n with
  | NIn i => NIn i
  | NSum W ins => NSum W (map (Nat.add k) ins)
  | NHad ins => NHad (map (Nat.add k) ins)
  | NKron ins => NKron (map (Nat.add k) ins)
  end.
Lemma ins_of_shift k n : ins_of (shift k n) = map (Nat.add k) (ins_of n).
Proof. destruct n; reflexivity. Qed.
Lemma eval_node_shift k n y (V V' : list vec) :
  (forall b, In b (ins_of n) -> get V (k + b) = get V' b) -> eval_node (shift k n) y V = eval_node n y V'.
Proof. intros H. destruct n as [i|W ins|ins|ins]; simpl in *; [reflexivity| | |];
  rewrite map_map, (map_ext_in (fun b => get V (k + b)%nat) (get V') ins H); reflexivity. Qed.

(* generic list facts *)
Lemma length_flat_map_block {A B} (g : A -> list B) m l :
  (forall x, length (g x) = m) -> length (flat_map g l) = (length l * m)%nat.
Proof. intros Hg. induction l as [|x l IH]; simpl; [reflexivity|]. rewrite app_length, Hg, IH. reflexivity. Qed.
Lemma nth_flat_map_block {A B} (g : A -> list B) m d da : (forall x, length (g x) = m) ->
  forall l i j, i < length l -> j < m -> nth (i * m + j) (flat_map g l) d = nth j (g (nth i l da)) d.
Proof. intros Hg. induction l as [|x l IH]; intros i j Hi Hj; simpl in Hi; [lia|].
  destruct i as [|i]; simpl.
  - apply app_nth1. rewrite Hg. exact Hj.
  - rewrite app_nth2 by (rewrite Hg; lia). rewrite Hg.
    replace (m + i * m + j - m)%nat with (i * m + j)%nat by lia. apply IH; lia. Qed.
Lemma map_flat_map {A B C} (f : B -> C) (g : A -> list B) l :
  map f (flat_map g l) = flat_map (fun x => map f (g x)) l.
Proof. induction l as [|x l IH]; simpl; [reflexivity|]. rewrite map_app, IH. reflexivity. Qed.
Lemma flat_map_ext_in {A B} (f g : A -> list B) l :
  (forall x, In x l -> f x = g x) -> flat_map f l = flat_map g l.
Proof. induction l as [|x l IH]; intros H; simpl; [reflexivity|].
  rewrite (H x) by (simpl; auto). rewrite IH by (intros; apply H; simpl; auto). reflexivity. Qed.
Lemma combine_map_map {A B C} (f : A -> B) (g : A -> C) (l1 l2 : list A) :
  combine (map f l1) (map g l2) = map (fun ab => (f (fst ab), g (snd ab))) (combine l1 l2).
Proof. revert l2; induction l1 as [|a l1 IH]; intros [|b l2]; simpl; try reflexivity. rewrite IH. reflexivity. Qed.


(* ====================================================================== *)
(* Part 3: the product construction                                        *)
(* ====================================================================== *)
Definition pidx (c1 c2 : circuit) (i j : nat) : nat := (length c1 + length c2 + i * length c2 + j)%nat.
Definition sel (us : list nat) (ins : list nat) : list nat := map (fun a => nth a us 0%nat) ins.
Definition rows_ok (W : list vec) (us : list nat) : bool := forallb (fun r => length r =? list_sum us) W.
Definition uniform (us : list nat) (ins : list nat) : bool :=
  forallb (fun b => nth b us 0%nat =? nth (hd 0%nat ins) us 0%nat) ins.
Definition wprod (W1 : list vec) (us1 : list nat) (W2 : list vec) (us2 : list nat) : list vec :=
  flat_map (fun r1 => map (fun r2 => concat (pairs_k (split_blocks us1 r1) (split_blocks us2 r2))) W2) W1.
Definition sum_cond (c1 c2 : circuit) W1 ins1 W2 ins2 : bool :=
  rows_ok W1 (sel (units c1) ins1) && rows_ok W2 (sel (units c2) ins2).
Definition had_cond (c2 : circuit) (ins1 ins2 : list nat) : bool :=
  (length ins1 =? length ins2) && uniform (units c2) ins2.
Definition pnode (force : nat -> nat -> bool) (c1 c2 : circuit) (i j : nat) : node :=
  let fb := NKron [i; (length c1 + j)%nat] in
  if force i j then fb else
  match nth i c1 dn, nth j c2 dn with
  | NIn a, NIn b =>
      NIn {| iscope := iscope a ++ iscope b; iunits := (iunits a * iunits b)%nat;
             ifun := fun y => kron (ifun a y) (ifun b y) |}
  | NSum W1 ins1, NSum W2 ins2 =>
      if sum_cond c1 c2 W1 ins1 W2 ins2
      then NSum (wprod W1 (sel (units c1) ins1) W2 (sel (units c2) ins2))
                (flat_map (fun a => map (fun b => pidx c1 c2 a b) ins2) ins1)
      else fb
  | NHad ins1, NHad ins2 =>
      if had_cond c2 ins1 ins2
      then NHad (map (fun ab => pidx c1 c2 (fst ab) (snd ab)) (combine ins1 ins2))
      else fb
  | _, _ => fb
  end.
Definition pairs (force : nat -> nat -> bool) (c1 c2 : circuit) : circuit :=
  flat_map (fun i => map (fun j => pnode force c1 c2 i j) (seq 0 (length c2))) (seq 0 (length c1)).
Definition multiply (force : nat -> nat -> bool) (c1 c2 : circuit) : circuit :=
  c1 ++ map (shift (length c1)) c2 ++ pairs force c1 c2.

Definition samelen_units : list vec -> list nat -> Prop := Forall2 (fun (x : vec) u => length x = u).
Lemma sel_len (c : circuit) (E : list vec) ins :
  (forall a, In a ins -> length (nth a E []) = nth a (units c) 0%nat) ->
  samelen_units (map (get E) ins) (sel (units c) ins).
Proof. induction ins as [|a ins IH]; intros H; simpl; constructor.
  - apply H. simpl; auto.
  - apply IH. intros; apply H; simpl; auto. Qed.
Lemma map_get_pairs (V : list vec) (f : nat -> nat -> nat) (g1 g2 : nat -> vec) l1 l2 :
  (forall a b, In a l1 -> In b l2 -> get V (f a b) = kron (g1 a) (g2 b)) ->
  map (get V) (flat_map (fun a => map (fun b => f a b) l2) l1)
  = flat_map (fun a => map (fun b => kron (g1 a) (g2 b)) l2) l1.
Proof. intros H. rewrite map_flat_map. apply flat_map_ext_in. intros a Ha. rewrite map_map.
  apply map_ext_in. intros b Hb. apply H; assumption. Qed.
Lemma pairs_k_map {A} (g1 g2 : A -> vec) l1 l2 :
  pairs_k (map g1 l1) (map g2 l2) = flat_map (fun a => map (fun b => kron (g1 a) (g2 b)) l2) l1.
Proof. unfold pairs_k. induction l1 as [|a l1 IH]; simpl; [reflexivity|]. rewrite map_map, IH. reflexivity. Qed.

Section Correct.
Variable force : nat -> nat -> bool.
Variables c1 c2 : circuit.
Let n1 := length c1.
Let n2 := length c2.
Let M := multiply force c1 c2.

Lemma length_pairs : length (pairs force c1 c2) = (n1 * n2)%nat.
Proof. unfold pairs. rewrite (length_flat_map_block _ n2) by (intros; rewrite map_length, seq_length; reflexivity).
  rewrite seq_length. reflexivity. Qed.
Lemma length_multiply : length M = (n1 + n2 + n1 * n2)%nat.
Proof. unfold M, multiply. rewrite !app_length, map_length, length_pairs. fold n1 n2. lia. Qed.
Lemma pidx_lt i j : i < n1 -> j < n2 -> pidx c1 c2 i j < length M.
Proof. intros Hi Hj. rewrite length_multiply. unfold pidx. fold n1 n2. nia. Qed.

Lemma nth_mul_1 i : i < n1 -> nth i M dn = nth i c1 dn.
Proof. intros H. unfold M, multiply. apply app_nth1. exact H. Qed.
Lemma nth_mul_2 j : j < n2 -> nth (n1 + j) M dn = shift n1 (nth j c2 dn).
Proof. intros H. unfold M, multiply. rewrite app_nth2 by (fold n1; lia). fold n1.
  replace (n1 + j - n1)%nat with j by lia. rewrite app_nth1 by (rewrite map_length; exact H).
  exact (map_nth (shift n1) c2 dn j). Qed.
Lemma nth_mul_3 i j : i < n1 -> j < n2 -> nth (pidx c1 c2 i j) M dn = pnode force c1 c2 i j.
Proof. intros Hi Hj. unfold M, multiply, pidx. fold n1 n2.
  rewrite app_nth2 by lia. rewrite app_nth2 by (rewrite map_length; fold n2; lia).
  rewrite map_length. fold n2. match goal with |- nth ?k _ _ = _ => replace k with (i * n2 + j)%nat by (subst n1 n2; lia) end.
  unfold pairs. fold n1 n2.
  rewrite (nth_flat_map_block _ n2 dn 0%nat) by
    (try (intros; rewrite map_length, seq_length; reflexivity); rewrite ?seq_length; assumption).
  rewrite seq_nth by exact Hi. simpl.
  rewrite (nth_map_seq (fun j0 => pnode force c1 c2 i j0) dn n2 j Hj). reflexivity. Qed.

(* the two copies *)
Lemma mul_val1 y i : i < n1 -> nth i (eval M y) [] = nth i (eval c1 y) [].
Proof. intros H. unfold M, multiply. apply eval_app_lt. exact H. Qed.
Lemma mul_val2 y : wscoped c2 -> forall j, j < n2 -> nth (n1 + j) (eval M y) [] = nth j (eval c2 y) [].
Proof. intros Hs j. induction j as [j IH] using lt_wf_ind. intros Hj.
  rewrite eval_fix.
  - rewrite nth_mul_2 by exact Hj. rewrite (eval_fix c2 y j Hj (Hs j Hj)).
    apply eval_node_shift. intros b Hb. unfold Circ.get. apply IH; [apply (Hs j Hj b Hb)|].
    pose proof (Hs j Hj b Hb). fold n2 in Hj. lia.
  - rewrite length_multiply. lia.
  - rewrite nth_mul_2 by exact Hj. rewrite ins_of_shift. intros k Hk. apply in_map_iff in Hk.
    destruct Hk as [b [<- Hb]]. pose proof (Hs j Hj b Hb). lia. Qed.

(* ---------- the value of one pair node, given the values of everything before it ---------- *)
Section PairVal.
Variable y : asg.
Variable V : list vec.
Variables i j : nat.
Hypothesis Hw1 : wfm c1.
Hypothesis Hw2 : wfm c2.
Hypothesis Hi : i < n1.
Hypothesis Hj : j < n2.
Hypothesis HV1 : forall a, a < n1 -> get V a = get (eval c1 y) a.
Hypothesis HV2 : forall b, b < n2 -> get V (n1 + b) = get (eval c2 y) b.
Hypothesis HV3 : forall a b, a < i -> b < n2 ->
  get V (pidx c1 c2 a b) = kron (get (eval c1 y) a) (get (eval c2 y) b).

Lemma fb_val : eval_node (NKron [i; (length c1 + j)%nat]) y V = kron (get (eval c1 y) i) (get (eval c2 y) j).
Proof. change (eval_node (NKron [i; (length c1 + j)%nat]) y V) with (kron (get V i) (get V (n1 + j)%nat)).
  rewrite HV1, HV2 by assumption. reflexivity. Qed.

Lemma sum_val W1 ins1 W2 ins2 : nth i c1 dn = NSum W1 ins1 -> nth j c2 dn = NSum W2 ins2 ->
  sum_cond c1 c2 W1 ins1 W2 ins2 = true ->
  eval_node (NSum (wprod W1 (sel (units c1) ins1) W2 (sel (units c2) ins2))
                  (flat_map (fun a => map (fun b => pidx c1 c2 a b) ins2) ins1)) y V
  = kron (eval_node (NSum W1 ins1) y (eval c1 y)) (eval_node (NSum W2 ins2) y (eval c2 y)).
Proof. intros N1 N2 C.
  assert (S1 : forall a, In a ins1 -> a < i) by (intros a Ha; apply (proj1 Hw1 i Hi); rewrite N1; exact Ha).
  assert (S2 : forall b, In b ins2 -> b < j) by (intros b Hb; apply (proj1 Hw2 j Hj); rewrite N2; exact Hb).
  unfold sum_cond in C. apply andb_true_iff in C. destruct C as [C1 C2]. unfold rows_ok in C1, C2.
  rewrite forallb_forall in C1, C2.
  assert (L1 : samelen_units (map (get (eval c1 y)) ins1) (sel (units c1) ins1)).
  { apply sel_len. intros a Ha. apply (proj2 Hw1). pose proof (S1 a Ha). fold n1. lia. }
  assert (L2 : samelen_units (map (get (eval c2 y)) ins2) (sel (units c2) ins2)).
  { apply sel_len. intros b Hb. apply (proj2 Hw2). pose proof (S2 b Hb). fold n2. lia. }
  unfold Circ.eval_node.
  rewrite (map_get_pairs V (pidx c1 c2) (get (eval c1 y)) (get (eval c2 y)))
    by (intros a b Ha Hb; apply HV3; [apply S1, Ha | pose proof (S2 b Hb); lia]).
  rewrite <- pairs_k_map. rewrite kron_map_dot. unfold wprod. rewrite map_flat_map.
  apply flat_map_ext_in. intros r1 Hr1. rewrite map_map. apply map_ext_in. intros r2 Hr2.
  apply C1, Nat.eqb_eq in Hr1. apply C2, Nat.eqb_eq in Hr2.
  rewrite dot_blocks by (apply split_blocks_len; assumption).
  rewrite !split_blocks_concat by assumption. reflexivity. Qed.

Lemma had_val ins1 ins2 : nth i c1 dn = NHad ins1 -> nth j c2 dn = NHad ins2 ->
  had_cond c2 ins1 ins2 = true ->
  eval_node (NHad (map (fun ab => pidx c1 c2 (fst ab) (snd ab)) (combine ins1 ins2))) y V
  = kron (eval_node (NHad ins1) y (eval c1 y)) (eval_node (NHad ins2) y (eval c2 y)).
Proof. intros N1 N2 C.
  assert (S1 : forall a, In a ins1 -> a < i) by (intros a Ha; apply (proj1 Hw1 i Hi); rewrite N1; exact Ha).
  assert (S2 : forall b, In b ins2 -> b < j) by (intros b Hb; apply (proj1 Hw2 j Hj); rewrite N2; exact Hb).
  unfold had_cond in C. apply andb_true_iff in C. destruct C as [CL CU]. apply Nat.eqb_eq in CL.
  unfold uniform in CU. rewrite forallb_forall in CU.
  unfold Circ.eval_node. rewrite map_map.
  rewrite (map_ext_in _ (fun ab => kron (get (eval c1 y) (fst ab)) (get (eval c2 y) (snd ab)))).
  2:{ intros [a b] Hab. simpl. apply HV3; [apply S1; exact (in_combine_l _ _ _ _ Hab)|].
      pose proof (S2 b (in_combine_r _ _ _ _ Hab)). lia. }
  rewrite (kron_hadn (nth (hd 0%nat ins2) (units c2) 0%nat)).
  - rewrite combine_map_map, map_map. reflexivity.
  - rewrite !map_length. exact CL.
  - intros z Hz. apply in_map_iff in Hz. destruct Hz as [b [<- Hb]].
    unfold Circ.get. rewrite (proj2 Hw2) by (pose proof (S2 b Hb); fold n2; lia).
    apply Nat.eqb_eq. apply CU, Hb. Qed.

Lemma pnode_val : eval_node (pnode force c1 c2 i j) y V
  = kron (eval_node (nth i c1 dn) y (eval c1 y)) (eval_node (nth j c2 dn) y (eval c2 y)).
Proof.
  pose proof fb_val as FB. unfold Circ.get in FB.
  rewrite (eval_fix c1 y i Hi (proj1 Hw1 i Hi)), (eval_fix c2 y j Hj (proj1 Hw2 j Hj)) in FB.
  unfold pnode. lazy zeta. revert FB.
  destruct (nth i c1 dn) as [a|W1 ins1|ins1|ins1] eqn:N1;
  destruct (nth j c2 dn) as [b|W2 ins2|ins2|ins2] eqn:N2; intros FB;
  destruct (force i j); try exact FB.
  - reflexivity.
  - destruct (sum_cond c1 c2 W1 ins1 W2 ins2) eqn:C; [|exact FB]. apply sum_val; assumption.
  - destruct (had_cond c2 ins1 ins2) eqn:C; [|exact FB]. apply had_val; assumption. Qed.

Lemma pnode_scoped : forall k, In k (ins_of (pnode force c1 c2 i j)) -> k < pidx c1 c2 i j.
Proof.
  assert (FB : forall k, In k [i; (length c1 + j)%nat] -> k < pidx c1 c2 i j).
  { intros k [<-|[<-|[]]]; unfold pidx; fold n1 n2; nia. }
  unfold pnode. lazy zeta. destruct (force i j); [exact FB|].
  destruct (nth i c1 dn) as [a|W1 ins1|ins1|ins1] eqn:N1;
  destruct (nth j c2 dn) as [b|W2 ins2|ins2|ins2] eqn:N2; try exact FB.
  - intros k [].
  - destruct (sum_cond c1 c2 W1 ins1 W2 ins2); [|exact FB]. simpl. intros k Hk.
    apply in_flat_map in Hk. destruct Hk as [a [Ha Hk]]. apply in_map_iff in Hk. destruct Hk as [b [<- Hb]].
    assert (a < i) by (apply (proj1 Hw1 i Hi); rewrite N1; exact Ha).
    assert (b < j) by (apply (proj1 Hw2 j Hj); rewrite N2; exact Hb).
    unfold pidx. fold n1 n2. nia.
  - destruct (had_cond c2 ins1 ins2); [|exact FB]. simpl. intros k Hk.
    apply in_map_iff in Hk. destruct Hk as [[a b] [<- Hab]]. simpl.
    assert (a < i) by (apply (proj1 Hw1 i Hi); rewrite N1; exact (in_combine_l _ _ _ _ Hab)).
    assert (b < j) by (apply (proj1 Hw2 j Hj); rewrite N2; exact (in_combine_r _ _ _ _ Hab)).
    unfold pidx. fold n1 n2. nia. Qed.
End PairVal.

Lemma mul_val3 y : wfm c1 -> wfm c2 -> forall i, i < n1 -> forall j, j < n2 ->
  nth (pidx c1 c2 i j) (eval M y) [] = kron (nth i (eval c1 y) []) (nth j (eval c2 y) []).
Proof. intros Hw1 Hw2 i. induction i as [i IH] using lt_wf_ind. intros Hi j Hj.
  rewrite (eval_fix M y (pidx c1 c2 i j) (pidx_lt i j Hi Hj)).
  - rewrite nth_mul_3 by assumption.
    rewrite (eval_fix c1 y i Hi (proj1 Hw1 i Hi)), (eval_fix c2 y j Hj (proj1 Hw2 j Hj)).
    apply pnode_val; try assumption.
    + intros a Ha. apply mul_val1. exact Ha.
    + intros b Hb. apply mul_val2; [exact (proj1 Hw2) | exact Hb].
    + intros a b Ha Hb. apply IH; [exact Ha | lia | exact Hb].
  - rewrite nth_mul_3 by assumption. apply pnode_scoped; assumption. Qed.
End Correct.

Theorem multiply_correct force c1 c2 : wfm c1 -> wfm c2 -> forall y i j, i < length c1 -> j < length c2 ->
  nth (pidx c1 c2 i j) (eval (multiply force c1 c2) y) []
  = kron (nth i (eval c1 y) []) (nth j (eval c2 y) []).
Proof. intros Hw1 Hw2 y i j Hi Hj. apply mul_val3; assumption. Qed.

(* declared outputs: o1-major list of pair indices *)
Definition outs_prod (c1 c2 : circuit) (outs1 outs2 : list nat) : list nat :=
  flat_map (fun o1 => map (fun o2 => pidx c1 c2 o1 o2) outs2) outs1.
Theorem multiply_outputs force c1 c2 : wfm c1 -> wfm c2 -> forall outs1 outs2 y,
  (forall o, In o outs1 -> o < length c1) -> (forall o, In o outs2 -> o < length c2) ->
  map (get (eval (multiply force c1 c2) y)) (outs_prod c1 c2 outs1 outs2)
  = flat_map (fun o1 => map (fun o2 => kron (get (eval c1 y) o1) (get (eval c2 y) o2)) outs2) outs1.
Proof. intros Hw1 Hw2 outs1 outs2 y H1 H2. unfold outs_prod. apply map_get_pairs.
  intros a b Ha Hb. apply multiply_correct; auto. Qed.

End Multiply.

Check multiply_correct.
Check multiply_outputs.
Print Assumptions multiply_correct.
Print Assumptions multiply_outputs.
