"""Re-introduce each repaired defect (reverse of a 'fix:' commit of /repo) and run the checks of the
properties it concerns: every one must be reported as a VIOLATION. Usage: selfmut.py [commit ...]"""
import json
import os
import subprocess
import sys

VERIF = os.path.dirname(os.path.dirname(os.path.abspath(__file__)))
REPO = "/repo"
EXTRA = {  # additional checks expected to notice the defect
    "9f6e9a8": ["C01", "C02"], "69ed09f": ["C05"], "a53fbab": ["C08"], "0ec7300": ["C08"], "dc43563": ["C07"],
    "e9657d0": ["C14"], "d889618": ["C14"], "7cd4507": ["C04"], "dc07110": ["C04"], "91a2486": ["C06"],
    "b0cde41": ["C04"], "308b00d": ["C05"], "3b76bd2": ["C01"], "a0629a8": ["C11"], "bf61b9d": ["C16"],
    "d68c989": ["C16"], "7c90970": ["C16"], "2bce44c": ["C16"], "982a8c2": ["C20"], "84bd0fb": ["C17"],
    "0605be9": ["C17"], "f96394a": ["C15"], "e71f868": ["C15"], "bbc51a4": ["C07"], "4fb3d8d": ["C09"], "1ae39a8": ["C20"], "e8bd6d0": ["C11"],
}


def sh(cmd, **kw):
    return subprocess.run(cmd, shell=True, capture_output=True, text=True, **kw)


def main():
    kf = json.load(open(os.path.join(VERIF, "known_findings.json")))["findings"]
    todo = [f for f in kf if f["status"] == "fixed" and (not sys.argv[1:] or f["commit"] in sys.argv[1:])]
    done = set()
    todo = [f for f in todo if f["commit"] not in done]
    results = {}
    for f in todo:
        c = f["commit"]
        assert sh(f"git -C {REPO} status --porcelain").stdout.strip() == "", "repo not clean"
        patch = sh(f"git -C {REPO} show {c} --format= ").stdout
        p = subprocess.run(f"git -C {REPO} apply -R -", shell=True, input=patch, capture_output=True, text=True)
        if p.returncode != 0:
            results[c] = {"applied": False, "err": p.stderr[-300:]}
            sh(f"git -C {REPO} reset -q --hard HEAD")
            print(c, "could not re-introduce:", p.stderr[-200:])
            continue
        res = {}
        for pid in EXTRA.get(c, [f["property"]]):
            r = sh(f"./check {pid} --tier quick", cwd=VERIF)
            v = [l for l in r.stdout.splitlines() if l.startswith("VIOLATION")]
            res[pid] = {"exit": r.returncode, "violations": len(v), "first": v[:1]}
        sh(f"git -C {REPO} reset -q --hard HEAD")
        for pid in EXTRA.get(c, [f["property"]]):
            sh(f"git -C {VERIF} checkout -- evidence/{pid}.json")
        results[c] = {"applied": True, "what": f["what"][:80], "checks": res}
        print(c, f["property"], {k: (v["exit"], v["violations"]) for k, v in res.items()}, flush=True)
    json.dump(results, open(os.path.join(VERIF, ".work", "selfmut.json"), "w"), indent=1)


if __name__ == "__main__":
    main()
