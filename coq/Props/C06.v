(* C06 — evidence and concatenate
   Property theorems only: each is closed by `exact <lemma>`; proofs live in the imported files. *)
From Coq Require Import List ZArith QArith Qcanon Ring_theory Field_theory Permutation Sorted.
Import ListNotations.
From CK Require Import Base.
From CK Require Import Circ.
From CK Require Import OpsSimple.
Close Scope Qc_scope. Close Scope Q_scope. Close Scope Z_scope. Open Scope nat_scope.

(* the evidence circuit evaluated at y equals the original circuit evaluated at y overridden by the observation, for every circuit whose inputs depend only on their scope *)
Theorem C06_evidence :
  forall (R : Type) (rO : R) (radd rmul : R -> R -> R) (D : Type) (obs : obs_t D) (c : list (node R D)),
         (forall i : inp R D, In (NIn R D i) c -> forall y : asg D, length (ifun R D i y) = iunits R D i) ->
         (forall i : inp R D,
          In (NIn R D i) c ->
          forall k : nat, dep_on R D (iscope R D i) (fun y : asg D => nth k (ifun R D i y) rO)) ->
         forall y : asg D,
         eval R rO radd rmul D (evidence R D obs c) y = eval R rO radd rmul D c (override D y obs).
Proof. exact evidence_correct. Qed.
Print Assumptions C06_evidence.

(* every scope of the evidence circuit is the original scope minus the observed variables *)
Theorem C06_evidence_scope :
  forall (R D : Type) (obs : obs_t D) (c : circuit R D),
         scopes R D (evidence R D obs c) =
         map (filter (fun v : nat => negb (mem v (map fst obs)))) (scopes R D c).
Proof. exact evidence_scopes. Qed.
Print Assumptions C06_evidence_scope.

(* evaluating the concatenation yields the operands' values one after the other, in the given order *)
Theorem C06_concatenate :
  forall (R : Type) (rO : R) (radd rmul : R -> R -> R) (D : Type) (cs : list (circuit R D)) (y : asg D),
         (forall c : circuit R D, In c cs -> wsc R D c) ->
         eval R rO radd rmul D (concat_all R D cs) y =
         concat (map (fun c : circuit R D => eval R rO radd rmul D c y) cs).
Proof. exact concat_all_correct. Qed.
Print Assumptions C06_concatenate.

(* output o of operand m is found at offset m + o and equals the operand evaluated alone *)
Theorem C06_concatenate_nth :
  forall (R : Type) (rO : R) (radd rmul : R -> R -> R) (D : Type) (cs : list (circuit R D)) 
           (y : asg D) (m o : nat),
         (forall c : circuit R D, In c cs -> wsc R D c) ->
         o < length (nth m cs []) ->
         nth (offset R D cs m + o) (eval R rO radd rmul D (concat_all R D cs) y) [] =
         nth o (eval R rO radd rmul D (nth m cs []) y) [].
Proof. exact concat_all_nth. Qed.
Print Assumptions C06_concatenate_nth.
