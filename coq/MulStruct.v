(* MulStruct.v — result structure of [multiply_m] (C09):
   whenever [multiply_m a b] returns on well-formed operands, the result is smooth and
   decomposable, has |outs a| * |outs b| outputs, all in range, output (x,y) has scope
   scope_a(x) U scope_b(y), and the scope of the product is the scope of the operands.
   Decomposability of a Hadamard x Hadamard node uses the order of [sort_by] (empty scopes
   strictly first, then by minimum) and the factorization part of [compatible]. *)
From Coq Require Import List Bool Arith Lia Sorted Permutation.
Import ListNotations.
From CK Require Import Base Scalar Tensor Pexpr Exec Ops Struct OpsProps.
Close Scope Qc_scope. Close Scope Q_scope. Close Scope Z_scope.
Open Scope nat_scope.

(* ================================================================== *)
(* 0. Generic list helpers                                              *)
(* ================================================================== *)
Lemma omap_Forall2 {X Y} (f : X -> option Y) l :
  forall ys, omap f l = Some ys -> Forall2 (fun x y => f x = Some y) l ys.
Proof.
  induction l as [|x r IH]; intros ys H; simpl in H.
  - inversion H. constructor.
  - destruct (f x) as [y|] eqn:Hf; [|discriminate H].
    destruct (omap f r) as [ys'|] eqn:Hr; [|discriminate H].
    inversion H; subst. constructor; auto.
Qed.

Lemma fold_left_nth_inv {A B} (f : A -> B -> A) (P : nat -> A -> Prop) (d : B) l :
  forall s a, (forall t a, t < length l -> P (s + t) a -> P (s + SS t) (f a (nth t l d))) ->
  P s a -> P (s + length l) (fold_left f l a).
Proof.
  induction l as [|b l IH]; intros s a Hstep Ha; simpl.
  - rewrite Nat.add_0_r. exact Ha.
  - replace (s + SS (length l)) with (SS s + length l) by lia. apply IH.
    + intros t a' Ht Hp. replace (SS s + SS t) with (s + SS (SS t)) by lia.
      apply (Hstep (SS t) a'). simpl; lia. replace (s + SS t) with (SS s + t) by lia. exact Hp.
    + replace (SS s) with (s + 1) by lia. apply (Hstep 0 a). simpl; lia.
      rewrite Nat.add_0_r; exact Ha.
Qed.

Lemma pairs_length {X Y Z} (f : X -> Y -> Z) l m : length (pairs f l m) = length l * length m.
Proof.
  unfold pairs. induction l as [|x l IH]; simpl; auto.
  rewrite app_length, map_length, IH. reflexivity.
Qed.

Lemma pairs_In {X Y Z} (f : X -> Y -> Z) l m z :
  In z (pairs f l m) <-> exists x y, In x l /\ In y m /\ z = f x y.
Proof.
  unfold pairs. rewrite in_flat_map. split.
  - intros [x [Hx Hz]]. apply in_map_iff in Hz. destruct Hz as [y [E Hy]]. exists x, y. auto.
  - intros [x [y [Hx [Hy E]]]]. exists x. split; auto. apply in_map_iff. exists y. auto.
Qed.

Lemma pairs_nth nb : forall na s t d, t < na * nb ->
  nth t (pairs pair (seq s na) (seq 0 nb)) d = (s + t / nb, t mod nb).
Proof.
  induction na as [|na IH]; intros s t d Ht; [lia|].
  assert (Hnb : nb <> 0) by (intros ->; lia).
  unfold pairs. simpl seq. simpl flat_map.
  change (flat_map (fun x => map (pair x) (seq 0 nb)) (seq (SS s) na))
    with (pairs pair (seq (SS s) na) (seq 0 nb)).
  destruct (lt_dec t nb) as [Hlt|Hge].
  - rewrite app_nth1 by (rewrite map_length, seq_length; exact Hlt).
    rewrite (nth_indep _ d (pair s 0)) by (rewrite map_length, seq_length; exact Hlt).
    rewrite map_nth, seq_nth by exact Hlt.
    rewrite Nat.div_small, Nat.mod_small by exact Hlt. f_equal; lia.
  - rewrite app_nth2 by (rewrite map_length, seq_length; lia).
    rewrite map_length, seq_length. rewrite IH by (simpl in Ht; lia).
    remember (t - nb) as t'. assert (Et : t = t' + 1 * nb) by lia. rewrite Et.
    rewrite Nat.div_add, Nat.mod_add by exact Hnb. f_equal; lia.
Qed.

Lemma divmod_uniq n p q i j : p * n + q = i * n + j -> q < n -> j < n -> p = i /\ q = j.
Proof. intros H Hq Hj. destruct (lt_eq_lt_dec p i) as [[H1|H1]|H1]; nia. Qed.

Lemma forallb_ext_in {A} (f g : A -> bool) l :
  (forall x, In x l -> f x = g x) -> forallb f l = forallb g l.
Proof.
  induction l as [|x l IH]; intros H; simpl; auto.
  rewrite (H x) by (left; reflexivity). rewrite IH; auto. intros y Hy. apply H. right; exact Hy.
Qed.

Lemma StronglySorted_map {A B} (R : B -> B -> Prop) (g : A -> B) l :
  StronglySorted (fun x y => R (g x) (g y)) l -> StronglySorted R (map g l).
Proof.
  induction 1 as [|x r Hr IH Hall]; simpl; constructor; auto.
  rewrite Forall_forall in *. intros y Hy. apply in_map_iff in Hy. destruct Hy as [z [<- Hz]]. auto.
Qed.

Lemma Forall2_combine_l {A B C} (R : A * B -> C -> Prop) l1 l2 cs :
  length l1 = length l2 -> Forall2 R (combine l1 l2) cs -> length cs = length l1.
Proof.
  intros Hl H. apply Forall2_length in H. rewrite combine_length, <- Hl, Nat.min_id in H. auto.
Qed.

(* ================================================================== *)
(* 1. sort_by (stable insertion sort)                                   *)
(* ================================================================== *)
Lemma insert_by_perm key j l : Permutation (insert_by key j l) (j :: l).
Proof.
  induction l as [|x r IH]; simpl; auto. destruct (key j <=? key x); auto.
  eapply perm_trans. apply perm_skip. exact IH. apply perm_swap.
Qed.
Lemma sort_by_perm key l : Permutation (sort_by key l) l.
Proof.
  unfold sort_by. induction l as [|x l IH]; simpl; auto.
  eapply perm_trans. apply insert_by_perm. auto.
Qed.
Definition kle (key : nat -> nat) (p q : nat) : Prop := key p <= key q.
Lemma insert_by_sorted key j l :
  StronglySorted (kle key) l -> StronglySorted (kle key) (insert_by key j l).
Proof.
  induction 1 as [|x r Hr IH Hall]; simpl. { repeat constructor. }
  destruct (key j <=? key x) eqn:E.
  - apply Nat.leb_le in E. constructor. { constructor; auto. }
    constructor. { exact E. }
    eapply Forall_impl; [|exact Hall]. unfold kle. intros; lia.
  - apply Nat.leb_gt in E. constructor; auto. rewrite Forall_forall in *. intros y Hy.
    apply (Permutation_in _ (insert_by_perm key j r)) in Hy. destruct Hy as [<-|Hy]; auto.
    unfold kle. lia.
Qed.
Lemma sort_by_sorted key l : StronglySorted (kle key) (sort_by key l).
Proof.
  unfold sort_by. induction l as [|x l IH]; simpl. constructor. apply insert_by_sorted; auto.
Qed.

(* ================================================================== *)
(* 2. Aligning two sorted partitions of the same set                    *)
(* ================================================================== *)
(* [min_of [] = 0] and [min_of (x :: _) = x + 1]: the empty scope comes strictly first *)
Lemma sorted_min_le s v : sorted s -> In v s -> min_of s <= SS v.
Proof.
  intros Hs Hv. destruct s as [|x r]; [destruct Hv|]. simpl. destruct Hv as [->|Hv]; [lia|].
  inversion Hs as [|? ? _ Hall]; subst. rewrite Forall_forall in Hall. apply Hall in Hv. lia.
Qed.

Definition ne (s : list nat) : bool := negb (sempty s).
Lemma ne_true s : ne s = true <-> s <> [].
Proof. apply sempty_false. Qed.

Definition mle (x y : list nat) : Prop := min_of x <= min_of y.
Definition InU (v : nat) (ss : list (list nat)) : Prop := exists s, In s ss /\ In v s.
(* disjoint or equal *)
Definition doe' (A B : list nat) : Prop := sdisjoint A B = true \/ A = B.

Lemma doe'_sym A B : doe' A B -> doe' B A.
Proof. intros [H|H]; [left; rewrite sdisjoint_sym; exact H | right; auto]. Qed.

Lemma InU_nil v ss : InU v ([] :: ss) <-> InU v ss.
Proof.
  split; intros [s [Hs Hv]].
  - destruct Hs as [<-|Hs]; [destruct Hv|]. exists s; auto.
  - exists s; simpl; auto.
Qed.

Lemma filter_all {A} (f : A -> bool) l : (forall x, In x l -> f x = true) -> filter f l = l.
Proof.
  induction l as [|x l IH]; intros H; simpl; auto. rewrite (H x) by (left; auto).
  f_equal. apply IH. intros y Hy. apply H. right; auto.
Qed.
Lemma filter_len_le {A} (f : A -> bool) l : length (filter f l) <= length l.
Proof. induction l as [|x l IH]; simpl; auto. destruct (f x); simpl; lia. Qed.

Lemma head_min As A : Forall sorted (A :: As) -> StronglySorted mle (A :: As) ->
  forall v, InU v (A :: As) -> min_of A <= SS v.
Proof.
  intros Hso Hst v [s [Hs Hv]]. rewrite Forall_forall in Hso.
  pose proof (sorted_min_le s v (Hso s Hs) Hv) as Hle. destruct Hs as [<-|Hs]; auto.
  apply StronglySorted_inv in Hst. destruct Hst as [_ Hall]. rewrite Forall_forall in Hall.
  specialize (Hall s Hs). unfold mle in Hall. lia.
Qed.

(* after a non-empty head, everything is non-empty *)
Lemma sorted_tail_ne A As : A <> [] -> StronglySorted mle (A :: As) -> forall y, In y As -> y <> [].
Proof.
  intros HA Hst y Hy. apply StronglySorted_inv in Hst. destruct Hst as [_ Hall].
  rewrite Forall_forall in Hall. specialize (Hall y Hy). unfold mle in Hall.
  destruct A; [congruence|]. destruct y; [simpl in Hall; lia | discriminate].
Qed.

(* two lists of pairwise disjoint sets (empty ones allowed, and then listed first), both ordered
   by [min_of], with the same union and the same number of non-empty members, whose members at
   equal positions are disjoint or equal, are equal *)
Lemma align As Bs :
  Forall2 doe' As Bs ->
  Forall sorted As -> Forall sorted Bs ->
  all_pairs sdisjoint As = true -> all_pairs sdisjoint Bs = true ->
  StronglySorted mle As -> StronglySorted mle Bs ->
  (forall v, InU v As <-> InU v Bs) ->
  length (filter ne As) = length (filter ne Bs) -> As = Bs.
Proof.
  induction 1 as [|A B As Bs HAB HF IH]; intros HsA HsB HdA HdB HmA HmB HU Hcnt; auto.
  assert (Hlen := HF). apply Forall2_length in Hlen.
  simpl in HdA, HdB. apply andb_true_iff in HdA, HdB.
  destruct HdA as [HdA1 HdA2], HdB as [HdB1 HdB2]. rewrite forallb_forall in HdA1, HdB1.
  assert (HsA' := Forall_inv_tail HsA). assert (HsB' := Forall_inv_tail HsB).
  assert (HmA' : StronglySorted mle As) by (apply StronglySorted_inv in HmA; tauto).
  assert (HmB' : StronglySorted mle Bs) by (apply StronglySorted_inv in HmB; tauto).
  destruct A as [|a0 A0], B as [|b0 B0].
  - f_equal. apply IH; auto. intros v. specialize (HU v). rewrite !InU_nil in HU. exact HU.
  - exfalso. cbn [filter ne negb sempty length] in Hcnt.
    rewrite (filter_all ne Bs) in Hcnt.
    + pose proof (filter_len_le ne As). lia.
    + intros y Hy. apply ne_true. apply (sorted_tail_ne (b0 :: B0) Bs); auto. discriminate.
  - exfalso. cbn [filter ne negb sempty length] in Hcnt.
    rewrite (filter_all ne As) in Hcnt.
    + pose proof (filter_len_le ne Bs). lia.
    + intros y Hy. apply ne_true. apply (sorted_tail_ne (a0 :: A0) As); auto. discriminate.
  - assert (H1 : min_of (b0 :: B0) <= SS a0).
    { apply (head_min Bs _ HsB HmB). apply HU. exists (a0 :: A0). simpl; auto. }
    assert (H2 : min_of (a0 :: A0) <= SS b0).
    { apply (head_min As _ HsA HmA). apply HU. exists (b0 :: B0). simpl; auto. }
    simpl in H1, H2. assert (a0 = b0) by lia. subst b0.
    assert (E : a0 :: A0 = a0 :: B0).
    { destruct HAB as [Hd|]; auto. exfalso. rewrite sdisjoint_iff in Hd.
      apply (Hd a0); left; reflexivity. }
    rewrite <- E in *. f_equal.
    assert (Hcnt' : length (filter ne As) = length (filter ne Bs)).
    { cbn [filter ne negb sempty length] in Hcnt. lia. }
    apply IH; auto.
    intros v; split; intros [s [Hs Hv]].
    + destruct (proj1 (HU v)) as [s' [Hs' Hv']]. { exists s; split; [right|]; auto. }
      destruct Hs' as [<-|Hs'].
      * exfalso. specialize (HdA1 s Hs). rewrite sdisjoint_iff in HdA1. apply (HdA1 v Hv' Hv).
      * exists s'; auto.
    + destruct (proj2 (HU v)) as [s' [Hs' Hv']]. { exists s; split; [right|]; auto. }
      destruct Hs' as [<-|Hs'].
      * exfalso. specialize (HdB1 s Hs). rewrite sdisjoint_iff in HdB1. apply (HdB1 v Hv' Hv).
      * exists s'; auto.
Qed.

(* ================================================================== *)
(* 3. Set equalities on canonical scopes                                *)
(* ================================================================== *)
Lemma sunion_same s : sorted s -> sunion s s = s.
Proof.
  intros Hs. apply sorted_ext; auto. apply sunion_sorted; auto.
  intros v. rewrite sunion_In. tauto.
Qed.
Lemma sunions_two s t : sorted t -> sunions [s; t] = sunion s t.
Proof.
  intros Ht. apply sorted_ext. apply sunions_sorted. apply sunion_sorted; auto.
  intros v. rewrite sunions_In, sunion_In. split.
  - intros [x [[<-|[<-|[]]] Hv]]; auto.
  - intros [H|H]; [exists s | exists t]; simpl; auto.
Qed.
Lemma sunions_one s : sorted s -> sunions [s] = s.
Proof.
  intros Hs. apply sorted_ext; auto. apply sunions_sorted.
  intros v. rewrite sunions_In. split.
  - intros [x [[<-|[]] Hv]]; auto.
  - intros H; exists s; simpl; auto.
Qed.
(* a non-empty family of copies of [s] *)
Lemma sunions_const s ss : sorted s -> ss <> [] -> (forall x, In x ss -> x = s) -> sunions ss = s.
Proof.
  intros Hs Hne Hall. apply sorted_ext; auto. apply sunions_sorted.
  intros v. rewrite sunions_In. split.
  - intros [x [Hx Hv]]. rewrite <- (Hall x Hx). exact Hv.
  - intros Hv. destruct ss as [|x r]; [congruence|]. exists x. split; [left; auto|].
    rewrite (Hall x) by (left; auto). exact Hv.
Qed.

(* ================================================================== *)
(* 4. Well-formedness, scopes of the base block                         *)
(* ================================================================== *)
Lemma wf_from_lt ns : forall pos us i l ins, wf_from ns pos us = true ->
  nth_error ns i = Some (l, ins) ->
  (forall j, In j ins -> j < pos + i) /\ (is_input l = false -> ins <> []).
Proof.
  induction ns as [|[l0 ins0] ns IH]; intros pos us i l ins Hwf Hn; [destruct i; discriminate|].
  cbn [wf_from] in Hwf. apply andb_prop in Hwf. destruct Hwf as [H1 H2]. destruct i as [|i].
  - cbn [nth_error] in Hn. inversion Hn; subst l0 ins0. destruct (is_input l).
    + destruct ins; [|discriminate]. split; [intros j []|discriminate].
    + apply andb_prop in H1. destruct H1 as [H1 H3]. apply andb_prop in H1. destruct H1 as [H1 H4].
      split.
      * rewrite forallb_forall in H3. intros j Hj. specialize (H3 j Hj). apply andb_prop in H3.
        destruct H3 as [H5 _]. apply Nat.ltb_lt in H5. lia.
      * intros _. destruct ins; [discriminate|congruence].
  - cbn [nth_error] in Hn. destruct (IH _ _ _ _ _ H2 Hn) as [A B]. split; auto.
    intros j Hj. specialize (A j Hj). lia.
Qed.

Lemma scopes_from_shift n ns : forall pre acc, length pre = n ->
  scopes_from (shift_nodes n ns) (pre ++ acc) = pre ++ scopes_from ns acc.
Proof.
  induction ns as [|[l ins] r IH]; intros pre acc Hn; [reflexivity|].
  unfold shift_nodes. cbn [map fst snd]. fold (shift_nodes n r).
  rewrite !scopes_from_cons. rewrite <- app_assoc. 
  replace (node_scope l (map (Nat.add n) ins) (pre ++ acc)) with (node_scope l ins acc).
  - apply IH. exact Hn.
  - unfold node_scope. destruct (is_input l); auto. f_equal. rewrite map_map.
    apply map_ext. intros j. rewrite <- Hn. symmetry. apply app_nth2_plus.
Qed.

(* ================================================================== *)
(* 5. Locally good node lists                                           *)
(* ================================================================== *)
(* every node refers to earlier nodes only, and is locally smooth / decomposable
   w.r.t. the scopes of the list itself *)
(* [Q] guards the decomposability part: [G True] is the full notion, [G False] keeps
   well-scopedness and smoothness only *)
Definition G (Q : Prop) (N : list (layer * list nat)) : Prop :=
  forall k l ins, nth_error N k = Some (l, ins) ->
    (forall j, In j ins -> j < k) /\
    smooth_at (scopes_from N []) (k, (l, ins)) = true /\
    (Q -> dec_at (scopes_from N []) (l, ins) = true).

Lemma smooth_at_ext sc sc' k l ins :
  (forall j, j <= k -> nth j sc [] = nth j sc' []) -> (forall j, In j ins -> j < k) ->
  smooth_at sc (k, (l, ins)) = smooth_at sc' (k, (l, ins)).
Proof.
  intros H Hlt. simpl. destruct (is_sum l); auto. apply forallb_ext_in. intros j Hj.
  rewrite (H j) by (specialize (Hlt j Hj); lia). rewrite (H k) by lia. reflexivity.
Qed.
Lemma dec_at_ext sc sc' k l ins :
  (forall j, j <= k -> nth j sc [] = nth j sc' []) -> (forall j, In j ins -> j < k) ->
  dec_at sc (l, ins) = dec_at sc' (l, ins).
Proof.
  intros H Hlt. simpl. destruct (is_prod l); auto. f_equal. apply map_ext_in. intros j Hj.
  apply H. specialize (Hlt j Hj). lia.
Qed.

Lemma scopes_app_old N ls j : j < length N ->
  nth j (scopes_from (N ++ ls) []) [] = nth j (scopes_from N []) [].
Proof.
  intros Hj. rewrite scopes_from_app. apply scopes_from_old. rewrite scopes_from_length. simpl; lia.
Qed.

Lemma G_extend Q N ls : G Q N ->
  (forall k l ins, nth_error ls k = Some (l, ins) ->
     (forall j, In j ins -> j < length N + k) /\
     smooth_at (scopes_from (N ++ ls) []) (length N + k, (l, ins)) = true /\
     (Q -> dec_at (scopes_from (N ++ ls) []) (l, ins) = true)) ->
  G Q (N ++ ls).
Proof.
  intros HG Hls k l ins Hn. destruct (lt_dec k (length N)) as [Hk|Hk].
  - rewrite nth_error_app1 in Hn by exact Hk. destruct (HG k l ins Hn) as [A [B C]].
    split; [exact A|]. split.
    + rewrite <- B. apply smooth_at_ext; auto. intros j Hj. apply scopes_app_old. lia.
    + intros HQ. rewrite <- (C HQ). apply (dec_at_ext _ _ k); auto. intros j Hj. apply scopes_app_old. lia.
  - rewrite nth_error_app2 in Hn by lia. destruct (Hls _ l ins Hn) as [A [B C]].
    replace (length N + (k - length N)) with k in * by lia. auto.
Qed.

Lemma scopes_snoc N l ins :
  scopes_from (N ++ [(l, ins)]) [] = scopes_from N [] ++ [node_scope l ins (scopes_from N [])].
Proof. rewrite scopes_from_app. reflexivity. Qed.

Lemma G_snoc Q N l ins : G Q N ->
  (forall j, In j ins -> j < length N) ->
  (is_sum l = true -> forall j, In j ins ->
     nth j (scopes_from N []) [] = node_scope l ins (scopes_from N [])) ->
  (Q -> is_prod l = true ->
     all_pairs sdisjoint (map (fun j => nth j (scopes_from N []) []) ins) = true) ->
  G Q (N ++ [(l, ins)]).
Proof.
  intros HG Hlt Hs Hp. apply G_extend; auto. intros k l' ins' Hn.
  destruct k as [|k]; [|destruct k; discriminate]. cbn [nth_error] in Hn. inversion Hn; subst l' ins'.
  rewrite Nat.add_0_r. split; [exact Hlt|].
  assert (Hlen : length (scopes_from N []) = length N) by (rewrite scopes_from_length; reflexivity).
  assert (Hold : forall j, j < length N ->
            nth j (scopes_from (N ++ [(l, ins)]) []) [] = nth j (scopes_from N []) []).
  { intros j Hj. apply scopes_app_old. exact Hj. }
  split.
  - simpl. destruct (is_sum l) eqn:E; auto. apply forallb_forall. intros j Hj. apply seqb_eq.
    rewrite (Hold j) by auto. rewrite (Hs eq_refl j Hj). rewrite scopes_snoc.
    rewrite app_nth2 by lia. rewrite Hlen, Nat.sub_diag. reflexivity.
  - intros HQ. simpl. destruct (is_prod l) eqn:E; auto. rewrite <- (Hp HQ eq_refl). f_equal.
    apply map_ext_in. intros j Hj. apply Hold. auto.
Qed.

Lemma G_structure Q N os : G Q N ->
  is_smooth (mkC N os) = true /\ (Q -> is_decomposable (mkC N os) = true).
Proof.
  intros HG. split; [|intros HQ].
  - rewrite is_smooth_unfold. apply forallb_forall. intros [k [l ins]] Hin.
    apply in_combine_seq0 in Hin. simpl in Hin. apply (HG k l ins Hin).
  - rewrite is_decomposable_unfold. apply forallb_forall. intros [l ins] Hin. simpl in Hin.
    apply In_nth_error in Hin. destruct Hin as [k Hk]. apply (HG k l ins Hk). exact HQ.
Qed.

Lemma G_of_circuit Q c :
  wf c = true -> is_smooth c = true -> is_decomposable c = true -> G Q (nodes c).
Proof.
  intros Hwf Hs Hd k l ins Hn. unfold wf in Hwf. apply andb_prop in Hwf. destruct Hwf as [Hwf _].
  split; [|split].
  - apply (wf_from_lt _ _ _ _ _ _ Hwf Hn).
  - rewrite is_smooth_unfold, forallb_forall in Hs. apply (Hs (k, (l, ins))).
    apply in_combine_seq0. exact Hn.
  - intros _. rewrite is_decomposable_unfold, forallb_forall in Hd. apply (Hd (l, ins)).
    eapply nth_error_In; eauto.
Qed.

Lemma G_shift_app Q Na Nb : G Q Na -> G Q Nb -> G Q (Na ++ shift_nodes (length Na) Nb).
Proof.
  intros Ha Hb. apply G_extend; auto. intros k l ins' Hn.
  unfold shift_nodes in Hn. rewrite nth_error_map in Hn.
  destruct (nth_error Nb k) as [[l0 ins]|] eqn:E; [|discriminate]. simpl in Hn.
  inversion Hn; subst l0 ins'. clear Hn. destruct (Hb k l ins E) as [A [B C]].
  assert (Hlen : length (scopes_from Na []) = length Na) by (rewrite scopes_from_length; reflexivity).
  assert (Hsc : scopes_from (Na ++ shift_nodes (length Na) Nb) [] = scopes_from Na [] ++ scopes_from Nb []).
  { rewrite scopes_from_app. rewrite <- (app_nil_r (scopes_from Na [])) at 1.
    apply scopes_from_shift. exact Hlen. }
  fold (shift_nodes (length Na) Nb). rewrite Hsc.
  assert (Hnth : forall j, nth (length Na + j) (scopes_from Na [] ++ scopes_from Nb []) [] = nth j (scopes_from Nb []) []).
  { intros j. rewrite <- Hlen. apply app_nth2_plus. }
  split; [|split].
  - intros j Hj. apply in_map_iff in Hj. destruct Hj as [j0 [<- Hj0]]. specialize (A j0 Hj0). lia.
  - rewrite <- B. simpl. destruct (is_sum l); auto. rewrite forallb_map'. apply forallb_ext'.
    intros j. rewrite !Hnth. reflexivity.
  - intros HQ. rewrite <- (C HQ). simpl. destruct (is_prod l); auto. f_equal. rewrite map_map.
    apply map_ext. intros j. apply Hnth.
Qed.

(* ================================================================== *)
(* 6. More helpers for the step                                         *)
(* ================================================================== *)
Lemma Forall2_In_r {X Y} (R : X -> Y -> Prop) l l' y :
  Forall2 R l l' -> In y l' -> exists x, In x l /\ R x y.
Proof.
  induction 1 as [|x0 y0 l l' H0 HF IH]; intros Hy; [destruct Hy|].
  destruct Hy as [<-|Hy]. exists x0; simpl; auto.
  destruct (IH Hy) as [x [Hx Hr]]. exists x; simpl; auto.
Qed.
Lemma Forall2_In_l {X Y} (R : X -> Y -> Prop) l l' x :
  Forall2 R l l' -> In x l -> exists y, In y l' /\ R x y.
Proof.
  induction 1 as [|x0 y0 l l' H0 HF IH]; intros Hx; [destruct Hx|].
  destruct Hx as [<-|Hx]. exists y0; simpl; auto.
  destruct (IH Hx) as [y [Hy Hr]]. exists y; simpl; auto.
Qed.
Lemma Forall2_map_eq {X Y Z} (R : X -> Y -> Prop) (g : Y -> Z) (h : X -> Z) l l' :
  Forall2 R l l' -> (forall x y, In x l -> R x y -> g y = h x) -> map g l' = map h l.
Proof.
  induction 1 as [|x0 y0 l l' H0 HF IH]; intros H; simpl; auto.
  rewrite (H x0 y0) by (simpl; auto). f_equal. apply IH. intros x y Hx. apply H. simpl; auto.
Qed.
Lemma map_fst_combine' {X Y} (l1 : list X) : forall (l2 : list Y),
  length l1 = length l2 -> map fst (combine l1 l2) = l1.
Proof.
  induction l1 as [|x l1 IH]; intros [|y l2] H; simpl in *; try discriminate; auto.
  f_equal. apply IH. lia.
Qed.
Lemma Forall2_of_combine {X Y X' Y'} (R : X' -> Y' -> Prop) (f : X -> X') (g : Y -> Y') (l1 : list X) :
  forall (l2 : list Y), length l1 = length l2 ->
  (forall pq, In pq (combine l1 l2) -> R (f (fst pq)) (g (snd pq))) ->
  Forall2 R (map f l1) (map g l2).
Proof.
  induction l1 as [|x l1 IH]; intros [|y l2] Hl H; simpl in *; try discriminate; constructor.
  - apply (H (x, y)). auto.
  - apply IH. lia. intros pq Hpq. apply H. auto.
Qed.
Lemma in_combine_ex_l {X Y} (l1 : list X) : forall (l2 : list Y) x,
  length l1 = length l2 -> In x l1 -> exists y, In (x, y) (combine l1 l2).
Proof.
  induction l1 as [|x0 l1 IH]; intros [|y0 l2] x Hl Hx; simpl in *; try contradiction; try discriminate.
  destruct Hx as [<-|Hx]. exists y0; auto.
  destruct (IH l2 x) as [y Hy]; auto. exists y; auto.
Qed.
Lemma map_eq_combine {X Y Z} (f : X -> Z) (g : Y -> Z) (l1 : list X) : forall (l2 : list Y),
  map f l1 = map g l2 -> forall pq, In pq (combine l1 l2) -> f (fst pq) = g (snd pq).
Proof.
  induction l1 as [|x l1 IH]; intros [|y l2] H pq Hpq; simpl in *; try contradiction.
  inversion H. destruct Hpq as [<-|Hpq]; simpl; auto. apply (IH l2); auto.
Qed.

Lemma Forall2_flip' {X Y} (R : X -> Y -> Prop) l l' :
  Forall2 R l l' -> Forall2 (fun y x => R x y) l' l.
Proof. induction 1; constructor; auto. Qed.

Lemma perm_filter_length {A} (f : A -> bool) l l' :
  Permutation l l' -> length (filter f l) = length (filter f l').
Proof.
  induction 1 as [|x l l' HP IH|x y l|l l' l'' HP1 IH1 HP2 IH2]; simpl; auto.
  - destruct (f x); simpl; auto.
  - destruct (f x), (f y); simpl; auto.
  - congruence.
Qed.
Lemma in_filter_len {A} (f : A -> bool) l x : In x (filter f l) -> 1 <= length (filter f l).
Proof. destruct (filter f l); [intros [] | simpl; lia]. Qed.
Lemma sdisjoint_false_ex s t : sdisjoint s t = false -> exists v, In v s.
Proof. destruct s as [|v r]; [discriminate | exists v; left; auto]. Qed.

(* the number of recorded factors of a decomposable product = number of non-empty inputs *)
Lemma NoDup_filter_ne ss : all_pairs sdisjoint ss = true -> NoDup (filter ne ss).
Proof.
  induction ss as [|x r IH]; simpl; intros H; [constructor|].
  apply andb_true_iff in H. destruct H as [H1 H2]. destruct (ne x) eqn:E; auto.
  constructor; auto. intros Hin. apply filter_In in Hin. destruct Hin as [Hin _].
  rewrite forallb_forall in H1. specialize (H1 x Hin). apply ne_true in E.
  destruct x as [|n x]; [congruence|]. rewrite sdisjoint_iff in H1. apply (H1 n); left; auto.
Qed.
Lemma count_fcanon ss : all_pairs sdisjoint ss = true -> length (fcanon ss) = length (filter ne ss).
Proof.
  intros H. apply Permutation_length. apply NoDup_Permutation.
  - apply fcanon_NoDup.
  - apply NoDup_filter_ne. exact H.
  - intros s. rewrite fcanon_In, filter_In, ne_true. tauto.
Qed.

(* one side has a single non-empty member (the whole union): then so has the other side,
   because that member sits last and meets a non-empty member, which must be the union too *)
Lemma single As Bs :
  Forall2 doe' As Bs -> all_pairs sdisjoint Bs = true ->
  StronglySorted mle As -> StronglySorted mle Bs ->
  (forall v, InU v As <-> InU v Bs) ->
  length (filter ne As) = 1 -> length (filter ne Bs) <= 1.
Proof.
  induction 1 as [|A B As Bs HAB HF IH]; intros HdB HmA HmB HU Hc; [simpl; lia|].
  simpl in HdB. apply andb_true_iff in HdB. destruct HdB as [HdB1 HdB2].
  rewrite forallb_forall in HdB1.
  assert (HmA' : StronglySorted mle As) by (apply StronglySorted_inv in HmA; tauto).
  assert (HmB' : StronglySorted mle Bs) by (apply StronglySorted_inv in HmB; tauto).
  destruct A as [|a0 A0].
  - cbn [filter ne negb sempty] in Hc. destruct B as [|b0 B0].
    + cbn [filter ne negb sempty]. apply IH; auto.
      intros v. specialize (HU v). rewrite !InU_nil in HU. exact HU.
    + exfalso.
      destruct (filter ne As) as [|X [|Y r]] eqn:EF; simpl in Hc; try lia.
      assert (HX : In X As /\ ne X = true) by (apply filter_In; rewrite EF; left; auto).
      destruct HX as [HX HXne].
      assert (Hall : forall v, InU v ([] :: As) -> In v X).
      { intros v [s [[<-|Hs] Hv]]; [destruct Hv|].
        assert (Hin : In s (filter ne As)).
        { apply filter_In. split; auto. apply ne_true. intros ->. destruct Hv. }
        rewrite EF in Hin. destruct Hin as [<-|[]]. exact Hv. }
      destruct (Forall2_In_l _ _ _ _ HF HX) as [B' [HB' Hdoe]].
      assert (HB'ne : B' <> []).
      { apply (sorted_tail_ne (b0 :: B0) Bs); auto. discriminate. }
      destruct B' as [|v' B'']; [congruence|].
      assert (Hv'X : In v' X).
      { apply Hall. apply HU. exists (v' :: B''). split; [right; exact HB' | left; auto]. }
      assert (E : X = v' :: B'').
      { destruct Hdoe as [Hd|]; auto. exfalso. rewrite sdisjoint_iff in Hd.
        apply (Hd v' Hv'X). left; auto. }
      assert (Hb0 : In b0 X).
      { apply Hall. apply HU. exists (b0 :: B0). split; left; auto. }
      specialize (HdB1 _ HB'). rewrite sdisjoint_iff in HdB1. apply (HdB1 b0).
      * left; auto.
      * rewrite <- E. exact Hb0.
  - cbn [filter ne negb sempty length] in Hc.
    rewrite (filter_all ne As) in Hc.
    + destruct As; [|simpl in Hc; lia]. inversion HF; subst.
      cbn [filter]. destruct (ne B); simpl; lia.
    + intros y Hy. apply ne_true. apply (sorted_tail_ne (a0 :: A0) As); auto. discriminate.
Qed.

(* what the factorization part of [compatible] says about two products over the same scope *)
Lemma compatible_facts a b : compatible a b = true ->
  forall i l1 ins1 j l2 ins2,
  nth_error (nodes a) i = Some (l1, ins1) -> is_prod l1 = true ->
  nth_error (nodes b) j = Some (l2, ins2) -> is_prod l2 = true ->
  nth i (scopes a) [] = nth j (scopes b) [] ->
  1 < length (fcanon (in_scopes a ins1)) -> 1 < length (fcanon (in_scopes b ins2)) ->
  fcanon (in_scopes a ins1) = fcanon (in_scopes b ins2).
Proof.
  rewrite compatible_unfold, !andb_true_iff. intros [_ Hok]. rewrite pairs_ok_iff in Hok.
  intros i l1 ins1 j l2 ins2 Hn1 Hp1 Hn2 Hp2 Hs L1 L2.
  apply (Hok (nth i (scopes a) [])); apply in_app_iff; [left|right]; apply factorizations_In.
  - exists i, l1, ins1. unfold prod_node. auto.
  - exists j, l2, ins2. unfold prod_node. auto.
Qed.

Lemma multiply_inputs_scope l1 l2 l : multiply_inputs l1 l2 = Ok l ->
  is_input l = true /\ in_scope l = in_scope l1.
Proof.
  intros H. destruct l1, l2; simpl in H; try discriminate H;
  repeat (match type of H with (if ?c then _ else _) = _ => destruct c; [discriminate H|] end);
  inversion H; subst; simpl; auto.
Qed.

Lemma node_facts c : G True (nodes c) -> forall i l ins, nth_error (nodes c) i = Some (l, ins) ->
  (forall j, In j ins -> j < i) /\
  nth i (scopes c) [] =
    (if is_input l then in_scope l else sunions (map (fun j => nth j (scopes c) []) ins)) /\
  (is_sum l = true -> forall j, In j ins -> nth j (scopes c) [] = nth i (scopes c) []) /\
  (is_prod l = true -> all_pairs sdisjoint (map (fun j => nth j (scopes c) []) ins) = true).
Proof.
  intros HG i l ins Hn. destruct (HG i l ins Hn) as [A [B C]]. specialize (C I).
  fold (scopes c) in B, C. split; [exact A|]. split; [apply scopes_nth_error; auto|]. split.
  - intros Hs j Hj. simpl in B. rewrite Hs, forallb_forall in B. apply seqb_eq. apply B. exact Hj.
  - intros Hp. simpl in C. rewrite Hp in C. exact C.
Qed.

(* ================================================================== *)
(* 7. The invariant of the fold of [multiply_m]                         *)
(* ================================================================== *)
Section Mul.
Variables a b : circuit.
Local Notation na := (length (nodes a)).
Local Notation nb := (length (nodes b)).
Local Notation sa := (scopes a).
Local Notation sb := (scopes b).
Variable Q : Prop.
Hypothesis HGa : G True (nodes a).
Hypothesis HGb : G True (nodes b).
Hypothesis Hnea : forall i l ins, nth_error (nodes a) i = Some (l, ins) -> is_input l = false -> ins <> [].
Hypothesis Hneb : forall i l ins, nth_error (nodes b) i = Some (l, ins) -> is_input l = false -> ins <> [].
(* the factorization part of [compatible a b] *)
Hypothesis Hfact : Q -> forall i l1 ins1 j l2 ins2,
  nth_error (nodes a) i = Some (l1, ins1) -> is_prod l1 = true ->
  nth_error (nodes b) j = Some (l2, ins2) -> is_prod l2 = true ->
  nth i sa [] = nth j sb [] ->
  1 < length (fcanon (in_scopes a ins1)) -> 1 < length (fcanon (in_scopes b ins2)) ->
  fcanon (in_scopes a ins1) = fcanon (in_scopes b ins2).

Definition base : list (layer * list nat) := nodes a ++ shift_nodes na (nodes b).
(* the scope of the product of node [p] of [a] and node [q] of [b] *)
Definition U (p q : nat) : list nat := sunion (nth p sa []) (nth q sb []).
(* disjoint or equal *)
Definition doe (p q : nat) : Prop := doe' (nth p sa []) (nth q sb []).

Definition Inv (t : nat) (st : mstate) : Prop :=
  length (mtbl st) = t /\
  (exists ext, mnodes st = base ++ ext) /\
  G Q (mnodes st) /\
  forall p q k, q < nb -> nth (p * nb + q) (mtbl st) None = Some k ->
    k < length (mnodes st) /\ nth k (scopes_from (mnodes st) []) [] = U p q /\ doe p q.

Lemma U_sorted p q : sorted (U p q).
Proof. apply sunion_sorted, scopes_nth_sorted. Qed.

Lemma base_scopes : scopes_from base [] = sa ++ sb.
Proof.
  unfold base, scopes. rewrite scopes_from_app.
  rewrite <- (app_nil_r (scopes_from (nodes a) [])) at 1.
  apply scopes_from_shift. rewrite scopes_from_length. reflexivity.
Qed.
Lemma base_length : length base = na + nb.
Proof. unfold base, shift_nodes. rewrite app_length, map_length. reflexivity. Qed.
Lemma G_weaken N : G True N -> G Q N.
Proof. intros H k l ins Hn. destruct (H k l ins Hn) as [A [B C]]. auto. Qed.
Lemma G_base : G Q base.
Proof. apply G_weaken. apply G_shift_app; assumption. Qed.

Lemma SC_a ext i : i < na -> nth i (scopes_from (base ++ ext) []) [] = nth i sa [].
Proof.
  intros Hi. rewrite scopes_app_old by (rewrite base_length; lia). rewrite base_scopes.
  apply app_nth1. rewrite scopes_length. exact Hi.
Qed.
Lemma SC_b ext j : j < nb -> nth (na + j) (scopes_from (base ++ ext) []) [] = nth j sb [].
Proof.
  intros Hj. rewrite scopes_app_old by (rewrite base_length; lia). rewrite base_scopes.
  rewrite <- (scopes_length a). apply app_nth2_plus.
Qed.

Lemma Inv_init : Inv 0 {| mnodes := base; mtbl := [] |}.
Proof.
  split; [reflexivity|]. split; [exists []; cbn [mnodes]; rewrite app_nil_r; reflexivity|].
  split; [exact G_base|]. intros p q k _ H. cbn [mtbl] in H. destruct (p * nb + q); discriminate H.
Qed.

Lemma Inv_none t st : Inv t st -> Inv (SS t) {| mnodes := mnodes st; mtbl := mtbl st ++ [None] |}.
Proof.
  intros [I1 [I2 [I3 I4]]]. split; [|split; [|split]]; cbn [mnodes mtbl]; auto.
  - rewrite app_length, I1. simpl. lia.
  - intros p q k Hq H. destruct (lt_dec (p * nb + q) (length (mtbl st))) as [Hlt|Hge].
    + rewrite app_nth1 in H by exact Hlt. apply I4; auto.
    + rewrite app_nth2 in H by lia. destruct (p * nb + q - length (mtbl st)) as [|[|m]]; discriminate H.
Qed.

Lemma Inv_add t st i j ls : Inv t st -> t = i * nb + j -> j < nb ->
  G Q (mnodes st ++ ls) -> ls <> [] ->
  nth (length (mnodes st) + length ls - 1) (scopes_from (mnodes st ++ ls) []) [] = U i j ->
  doe i j ->
  Inv (SS t) {| mnodes := mnodes st ++ ls;
                mtbl := mtbl st ++ [Some (length (mnodes st) + length ls - 1)] |}.
Proof.
  intros [I1 [[ext I2] [I3 I4]]] Ht Hj HG Hne Hsc Hdoe.
  assert (Hlen : 0 < length ls) by (destruct ls; [congruence | simpl; lia]).
  split; [|split; [|split]]; cbn [mnodes mtbl].
  - rewrite app_length, I1. simpl. lia.
  - exists (ext ++ ls). rewrite I2, <- app_assoc. reflexivity.
  - exact HG.
  - intros p q k Hq H. destruct (lt_dec (p * nb + q) (length (mtbl st))) as [Hlt|Hge].
    + rewrite app_nth1 in H by exact Hlt. destruct (I4 p q k Hq H) as [A [B C]].
      split; [rewrite app_length; lia|]. split; [|exact C].
      rewrite scopes_app_old by exact A. exact B.
    + rewrite app_nth2 in H by lia.
      destruct (p * nb + q - length (mtbl st)) as [|[|m]] eqn:E; try discriminate H.
      cbn [nth] in H. inversion H; subst k. clear H.
      assert (Hpq : p * nb + q = i * nb + j) by lia.
      destruct (divmod_uniq _ _ _ _ _ Hpq Hq Hj) as [-> ->].
      split; [rewrite app_length; lia|]. split; [exact Hsc | exact Hdoe].
Qed.

Lemma Inv_add1 t st i j l ins : Inv t st -> t = i * nb + j -> j < nb ->
  (forall x, In x ins -> x < length (mnodes st)) ->
  (is_sum l = true -> forall x, In x ins ->
     nth x (scopes_from (mnodes st) []) [] = node_scope l ins (scopes_from (mnodes st) [])) ->
  (Q -> is_prod l = true ->
     all_pairs sdisjoint (map (fun x => nth x (scopes_from (mnodes st) []) []) ins) = true) ->
  node_scope l ins (scopes_from (mnodes st) []) = U i j -> doe i j ->
  Inv (SS t) {| mnodes := mnodes st ++ [(l, ins)];
                mtbl := mtbl st ++ [Some (length (mnodes st) + length [(l, ins)] - 1)] |}.
Proof.
  intros HI Ht Hj Hlt Hs Hp Hsc Hdoe. apply (Inv_add t st i j); auto.
  - apply G_snoc; auto. apply HI.
  - discriminate.
  - rewrite scopes_snoc. cbn [length]. rewrite app_nth2 by (rewrite scopes_from_length; simpl; lia).
    rewrite scopes_from_length. cbn [length]. 
    replace (length (mnodes st) + 1 - 1 - (0 + length (mnodes st))) with 0 by lia. exact Hsc.
Qed.

Lemma Inv_add2 t st i j K ar cs x y z w : Inv t st -> t = i * nb + j -> j < nb ->
  (forall k, In k cs -> k < length (mnodes st)) ->
  (Q -> all_pairs sdisjoint (map (fun k => nth k (scopes_from (mnodes st) []) []) cs) = true) ->
  sunions (map (fun k => nth k (scopes_from (mnodes st) []) []) cs) = U i j -> doe i j ->
  Inv (SS t) {| mnodes := mnodes st ++ [(LKron K ar, cs); (LSum x y z w, [length (mnodes st)])];
                mtbl := mtbl st ++ [Some (length (mnodes st) +
                   length [(LKron K ar, cs); (LSum x y z w, [length (mnodes st)])] - 1)] |}.
Proof.
  intros HI Ht Hj Hlt Hp Hsc Hdoe.
  set (N := mnodes st) in *. set (SC := scopes_from N []) in *.
  assert (HSC : length SC = length N) by (unfold SC; rewrite scopes_from_length; reflexivity).
  assert (E : N ++ [(LKron K ar, cs); (LSum x y z w, [length N])] =
              (N ++ [(LKron K ar, cs)]) ++ [(LSum x y z w, [length N])]).
  { rewrite <- app_assoc. reflexivity. }
  assert (HG1 : G Q (N ++ [(LKron K ar, cs)])).
  { apply G_snoc; auto. apply HI. discriminate. }
  assert (HS1 : scopes_from (N ++ [(LKron K ar, cs)]) [] = SC ++ [U i j]).
  { rewrite scopes_snoc. fold SC. unfold node_scope. cbn [is_input]. rewrite Hsc. reflexivity. }
  assert (Hn1 : nth (length N) (SC ++ [U i j]) [] = U i j).
  { rewrite app_nth2 by lia. rewrite HSC, Nat.sub_diag. reflexivity. }
  assert (Hs2 : node_scope (LSum x y z w) [length N] (SC ++ [U i j]) = U i j).
  { unfold node_scope. cbn [is_input map]. rewrite Hn1. apply sunions_one. apply U_sorted. }
  apply (Inv_add t st i j); auto; fold N.
  - rewrite E. apply G_snoc; auto.
    + intros k [<-|[]]. rewrite app_length. simpl. lia.
    + intros _ k [<-|[]]. rewrite HS1, Hn1, Hs2. reflexivity.
  - discriminate.
  - rewrite E, scopes_snoc, HS1, Hs2. cbn [length].
    rewrite app_nth2 by (rewrite app_length, HSC; simpl; lia).
    rewrite app_length, HSC. cbn [length].
    replace (length N + 2 - 1 - (length N + 1)) with 0 by lia. reflexivity.
Qed.

(* what a table entry read by the step tells us *)
Lemma get_facts t st p q k : Inv t st -> q < nb ->
  nth (p * nb + q) (mtbl st) None = Some k ->
  k < length (mnodes st) /\ nth k (scopes_from (mnodes st) []) [] = U p q /\ doe p q.
Proof. intros [_ [_ [_ I4]]]. apply I4. Qed.

Lemma step_inv i j st : i < na -> j < nb ->
  Inv (i * nb + j) st -> Inv (SS (i * nb + j)) (mul_step a b st (i, j)).
Proof.
  intros Hi Hj HI. unfold mul_step.
  destruct (nth i (nodes a) (LHad 0 0, [])) as [l1 ins1] eqn:E1.
  destruct (nth j (nodes b) (LHad 0 0, [])) as [l2 ins2] eqn:E2.
  assert (Hn1 : nth_error (nodes a) i = Some (l1, ins1)) by (rewrite <- E1; apply nth_error_nth'; exact Hi).
  assert (Hn2 : nth_error (nodes b) j = Some (l2, ins2)) by (rewrite <- E2; apply nth_error_nth'; exact Hj).
  destruct (node_facts a HGa i l1 ins1 Hn1) as [A1 [A2 [A3 A4]]].
  destruct (node_facts b HGb j l2 ins2 Hn2) as [B1 [B2 [B3 B4]]].
  pose proof HI as [I1 [[ext I2] [I3 I4]]].
  assert (HlenN : na + nb <= length (mnodes st)) by (rewrite I2, app_length, base_length; lia).
  cbv zeta.
  destruct (sdisjoint (nth i sa []) (nth j sb [])) eqn:Hdis.
  { (* disjoint scopes: Kronecker join *)
    destruct (out_units l1 =? out_units l2); [|apply Inv_none; exact HI].
    apply (Inv_add1 _ st i j _ _ HI eq_refl Hj).
    - intros x [<-|[<-|[]]]; lia.
    - discriminate.
    - intros _. cbn [map all_pairs forallb]. rewrite I2, SC_a, SC_b by assumption.
      rewrite Hdis. reflexivity.
    - unfold node_scope. cbn [is_input map]. rewrite I2, SC_a, SC_b by assumption.
      apply sunions_two. apply scopes_nth_sorted.
    - left. exact Hdis. }
  destruct (negb (seqb (nth i sa []) (nth j sb []))) eqn:Hseq; [apply Inv_none; exact HI|].
  apply negb_false_iff in Hseq. apply seqb_eq in Hseq.
  assert (HU : U i j = nth i sa []).
  { unfold U. rewrite <- Hseq. apply sunion_same. apply scopes_nth_sorted. }
  assert (Hdoe : doe i j) by (right; exact Hseq).
  destruct (is_input l1) eqn:Hin1.
  { (* two input layers over the same variable *)
    destruct (multiply_inputs l1 l2) as [l|e] eqn:Hm; [|apply Inv_none; exact HI].
    destruct (multiply_inputs_scope _ _ _ Hm) as [Hl1 Hl2].
    destruct (input_not_sum l Hl1) as [Hl3 Hl4].
    apply (Inv_add1 _ st i j _ _ HI eq_refl Hj).
    - intros x [].
    - intros H; congruence.
    - intros H; congruence.
    - unfold node_scope. rewrite Hl1, Hl2, HU, A2. reflexivity.
    - exact Hdoe. }
  destruct l1; try discriminate Hin1; destruct l2; try (apply Inv_none; exact HI).
  - (* sum x sum *)
    match goal with |- context [omap ?f ?l] => destruct (omap f l) as [cs|] eqn:Hom end;
      [|apply Inv_none; exact HI].
    apply omap_Forall2 in Hom.
    assert (Hcs : forall k, In k cs ->
              k < length (mnodes st) /\ nth k (scopes_from (mnodes st) []) [] = U i j).
    { intros k Hk. destruct (Forall2_In_r _ _ _ _ Hom Hk) as [pq [Hpq Hget]].
      apply pairs_In in Hpq. destruct Hpq as [p [q [Hp [Hq ->]]]]. cbn [fst snd] in Hget.
      assert (Hq' : q < nb) by (specialize (B1 q Hq); lia).
      destruct (get_facts _ _ _ _ _ HI Hq' Hget) as [C1 [C2 _]]. split; [exact C1|].
      rewrite C2. unfold U. rewrite (A3 eq_refl p Hp), (B3 eq_refl q Hq). reflexivity. }
    assert (Hne : cs <> []).
    { apply Forall2_length in Hom. rewrite pairs_length in Hom.
      pose proof (Hnea _ _ _ Hn1 eq_refl) as N1. pose proof (Hneb _ _ _ Hn2 eq_refl) as N2.
      destruct ins1; [congruence|]. destruct ins2; [congruence|]. destruct cs; [discriminate Hom|congruence]. }
    assert (Hsc : sunions (map (fun x => nth x (scopes_from (mnodes st) []) []) cs) = U i j).
    { apply sunions_const. apply U_sorted.
      - destruct cs; [congruence | discriminate].
      - intros x Hx. apply in_map_iff in Hx. destruct Hx as [k [<- Hk]]. apply Hcs. exact Hk. }
    apply (Inv_add1 _ st i j _ _ HI eq_refl Hj).
    + intros x Hx. apply Hcs. exact Hx.
    + intros _ x Hx. unfold node_scope. cbn [is_input]. rewrite Hsc. apply Hcs. exact Hx.
    + discriminate.
    + unfold node_scope. cbn [is_input]. exact Hsc.
    + exact Hdoe.
  - (* hadamard x hadamard *)
    destruct (length ins1 =? length ins2) eqn:Hlen; [|apply Inv_none; exact HI].
    apply Nat.eqb_eq in Hlen.
    match goal with |- context [omap ?f ?l] => destruct (omap f l) as [cs|] eqn:Hom end;
      [|apply Inv_none; exact HI].
    apply omap_Forall2 in Hom.
    set (s1 := sort_by (fun p => min_of (nth p sa [])) ins1) in *.
    set (s2 := sort_by (fun q => min_of (nth q sb [])) ins2) in *.
    assert (P1 : Permutation s1 ins1) by apply sort_by_perm.
    assert (P2 : Permutation s2 ins2) by apply sort_by_perm.
    assert (Hlen' : length s1 = length s2).
    { rewrite (Permutation_length P1), (Permutation_length P2). exact Hlen. }
    set (fa := fun p => nth p sa []) in *. set (fb := fun q => nth q sb []) in *.
    assert (Hent : forall pq k, In pq (combine s1 s2) ->
              nth (fst pq * nb + snd pq) (mtbl st) None = Some k ->
              k < length (mnodes st) /\ nth k (scopes_from (mnodes st) []) [] = U (fst pq) (snd pq) /\
              doe (fst pq) (snd pq)).
    { intros [p q] k Hpq Hget. cbn [fst snd] in *.
      assert (Hq : In q ins2) by (apply (Permutation_in _ P2); eapply in_combine_r; eauto).
      assert (Hq' : q < nb) by (specialize (B1 q Hq); lia).
      apply (get_facts _ _ _ _ _ HI Hq' Hget). }
    (* the scopes of the new inputs, unconditionally *)
    assert (Hmap0 : map (fun k => nth k (scopes_from (mnodes st) []) []) cs =
                    map (fun pq => U (fst pq) (snd pq)) (combine s1 s2)).
    { apply (Forall2_map_eq _ _ _ _ _ Hom). intros pq k Hpq Hget. apply (Hent pq k Hpq Hget). }
    assert (HinA : forall v, In v (nth i sa []) <-> exists p, In p ins1 /\ In v (fa p)).
    { intros v. rewrite A2. cbn [is_input]. rewrite sunions_In. split.
      - intros [s [Hs Hv]]. apply in_map_iff in Hs. destruct Hs as [p [<- Hp]]. exists p. auto.
      - intros [p [Hp Hv]]. exists (fa p). split; auto. apply in_map_iff. exists p. auto. }
    assert (HinB : forall v, In v (nth j sb []) <-> exists q, In q ins2 /\ In v (fb q)).
    { intros v. rewrite B2. cbn [is_input]. rewrite sunions_In. split.
      - intros [s [Hs Hv]]. apply in_map_iff in Hs. destruct Hs as [q [<- Hq]]. exists q. auto.
      - intros [q [Hq Hv]]. exists (fb q). split; auto. apply in_map_iff. exists q. auto. }
    assert (Hsc : sunions (map (fun k => nth k (scopes_from (mnodes st) []) []) cs) = U i j).
    { rewrite Hmap0, HU. apply sorted_ext; [apply sunions_sorted | apply scopes_nth_sorted |].
      intros v. rewrite sunions_In. split.
      - intros [s [Hs Hv]]. apply in_map_iff in Hs. destruct Hs as [[p q] [<- Hpq]].
        cbn [fst snd] in Hv. unfold U in Hv. apply sunion_In in Hv. destruct Hv as [Hv|Hv].
        + apply HinA. exists p. split; auto. apply (Permutation_in _ P1). eapply in_combine_l; eauto.
        + rewrite Hseq. apply HinB. exists q. split; auto. apply (Permutation_in _ P2).
          eapply in_combine_r; eauto.
      - intros Hv. apply HinA in Hv. destruct Hv as [p [Hp Hv]].
        apply (Permutation_in _ (Permutation_sym P1)) in Hp.
        destruct (in_combine_ex_l s1 s2 p Hlen' Hp) as [q Hpq].
        exists (U p q). split.
        + apply in_map_iff. exists (p, q). auto.
        + unfold U. apply sunion_In. left. exact Hv. }
    apply (Inv_add1 _ st i j _ _ HI eq_refl Hj).
    + intros x Hx. destruct (Forall2_In_r _ _ _ _ Hom Hx) as [pq [Hpq Hget]].
      apply (Hent pq x Hpq Hget).
    + discriminate.
    + (* decomposability: the two sorted input lists are aligned *)
      intros HQ _.
      set (As := map fa s1). set (Bs := map fb s2).
      assert (PA : Permutation As (map fa ins1)) by (apply Permutation_map; exact P1).
      assert (PB : Permutation Bs (map fb ins2)) by (apply Permutation_map; exact P2).
      assert (HdjA0 : all_pairs sdisjoint (map fa ins1) = true) by (apply A4; reflexivity).
      assert (HdjB0 : all_pairs sdisjoint (map fb ins2) = true) by (apply B4; reflexivity).
      assert (Hdj : all_pairs sdisjoint As = true).
      { rewrite (all_pairs_perm sdisjoint sdisjoint_sym As (map fa ins1) PA). exact HdjA0. }
      assert (Hdjb : all_pairs sdisjoint Bs = true).
      { rewrite (all_pairs_perm sdisjoint sdisjoint_sym Bs (map fb ins2) PB). exact HdjB0. }
      assert (HF2 : Forall2 doe' As Bs).
      { apply Forall2_of_combine; [exact Hlen'|]. intros pq Hpq.
        destruct (Forall2_In_l _ _ _ _ Hom Hpq) as [k [_ Hget]].
        apply (Hent pq k Hpq Hget). }
      assert (HsA : Forall sorted As).
      { apply Forall_forall. intros s Hs. apply in_map_iff in Hs. destruct Hs as [p [<- _]].
        apply scopes_nth_sorted. }
      assert (HsB : Forall sorted Bs).
      { apply Forall_forall. intros s Hs. apply in_map_iff in Hs. destruct Hs as [p [<- _]].
        apply scopes_nth_sorted. }
      assert (HmA : StronglySorted mle As).
      { apply StronglySorted_map. apply (sort_by_sorted (fun p => min_of (nth p sa [])) ins1). }
      assert (HmB : StronglySorted mle Bs).
      { apply StronglySorted_map. apply (sort_by_sorted (fun q => min_of (nth q sb [])) ins2). }
      assert (HL : forall v, InU v As <-> In v (nth i sa [])).
      { intros v. unfold InU. rewrite HinA. split.
        - intros [s [Hs Hv]]. apply in_map_iff in Hs. destruct Hs as [p [<- Hp]].
          exists p. split; auto. apply (Permutation_in _ P1). exact Hp.
        - intros [p [Hp Hv]]. exists (fa p). split; auto. apply in_map_iff. exists p.
          split; auto. apply (Permutation_in _ (Permutation_sym P1)). exact Hp. }
      assert (HR : forall v, InU v Bs <-> In v (nth j sb [])).
      { intros v. unfold InU. rewrite HinB. split.
        - intros [s [Hs Hv]]. apply in_map_iff in Hs. destruct Hs as [q [<- Hq]].
          exists q. split; auto. apply (Permutation_in _ P2). exact Hq.
        - intros [q [Hq Hv]]. exists (fb q). split; auto. apply in_map_iff. exists q.
          split; auto. apply (Permutation_in _ (Permutation_sym P2)). exact Hq. }
      assert (HUab : forall v, InU v As <-> InU v Bs).
      { intros v. rewrite HL, HR, Hseq. tauto. }
      (* both sides have the same number of non-empty inputs *)
      assert (cA : length (filter ne As) = length (fcanon (in_scopes a ins1))).
      { rewrite (perm_filter_length ne _ _ PA). symmetry. apply count_fcanon. exact HdjA0. }
      assert (cB : length (filter ne Bs) = length (fcanon (in_scopes b ins2))).
      { rewrite (perm_filter_length ne _ _ PB). symmetry. apply count_fcanon. exact HdjB0. }
      destruct (sdisjoint_false_ex _ _ Hdis) as [v0 Hv0].
      assert (pA : 1 <= length (filter ne As)).
      { destruct (proj2 (HL v0) Hv0) as [s [Hs Hv]]. apply (in_filter_len ne As s).
        apply filter_In. split; auto. apply ne_true. intros ->. destruct Hv. }
      assert (pB : 1 <= length (filter ne Bs)).
      { rewrite Hseq in Hv0. destruct (proj2 (HR v0) Hv0) as [s [Hs Hv]].
        apply (in_filter_len ne Bs s).
        apply filter_In. split; auto. apply ne_true. intros ->. destruct Hv. }
      assert (Hcnt : length (filter ne As) = length (filter ne Bs)).
      { destruct (le_lt_dec (length (filter ne As)) 1) as [LA|LA],
                 (le_lt_dec (length (filter ne Bs)) 1) as [LB|LB].
        - lia.
        - exfalso. assert (E1' : length (filter ne As) = 1) by lia.
          pose proof (single As Bs HF2 Hdjb HmA HmB HUab E1'). lia.
        - exfalso. assert (E1' : length (filter ne Bs) = 1) by lia.
          assert (HF2' : Forall2 doe' Bs As).
          { eapply Forall2_impl; [|apply Forall2_flip'; exact HF2]. intros x y. apply doe'_sym. }
          assert (HUba : forall v, InU v Bs <-> InU v As) by (intros v; symmetry; apply HUab).
          pose proof (single Bs As HF2' Hdj HmB HmA HUba E1'). lia.
        - rewrite cA, cB in *. f_equal.
          apply (Hfact HQ i _ ins1 j _ ins2 Hn1 eq_refl Hn2 eq_refl Hseq LA LB). }
      assert (HAB : As = Bs) by (apply align; auto).
      rewrite Hmap0.
      replace (map (fun pq => U (fst pq) (snd pq)) (combine s1 s2)) with As; [exact Hdj|].
      unfold As.
      replace (map fa s1) with (map fa (map fst (combine s1 s2)))
        by (rewrite (map_fst_combine' s1 s2 Hlen'); reflexivity).
      rewrite map_map. apply map_ext_in. intros pq Hpq. unfold U.
      pose proof (map_eq_combine fa fb s1 s2 HAB pq Hpq) as Epq. unfold fa, fb in Epq.
      rewrite <- Epq. symmetry. apply sunion_same. apply scopes_nth_sorted.
    + unfold node_scope. cbn [is_input]. exact Hsc.
    + exact Hdoe.
  - (* kronecker x kronecker *)
    match goal with |- context [if ?c then _ else _] => destruct c eqn:Hc end;
      [|apply Inv_none; exact HI].
    apply andb_true_iff in Hc. destruct Hc as [Hlen Hall]. apply Nat.eqb_eq in Hlen.
    rewrite forallb_forall in Hall.
    match goal with |- context [omap ?f ?l] => destruct (omap f l) as [cs|] eqn:Hom end;
      [|apply Inv_none; exact HI].
    apply omap_Forall2 in Hom.
    set (fa := fun p => nth p sa []) in *.
    assert (Hent : forall pq k, In pq (combine ins1 ins2) ->
              nth (fst pq * nb + snd pq) (mtbl st) None = Some k ->
              k < length (mnodes st) /\ nth k (scopes_from (mnodes st) []) [] = fa (fst pq)).
    { intros [p q] k Hpq Hget. cbn [fst snd] in *.
      assert (Hq : In q ins2) by (eapply in_combine_r; eauto).
      assert (Hq' : q < nb) by (specialize (B1 q Hq); lia).
      destruct (get_facts _ _ _ _ _ HI Hq' Hget) as [C1 [C2 _]]. split; [exact C1|].
      rewrite C2. unfold U. specialize (Hall (p, q) Hpq). cbn [fst snd] in Hall.
      apply seqb_eq in Hall. rewrite <- Hall. apply sunion_same. apply scopes_nth_sorted. }
    assert (Hmap : map (fun k => nth k (scopes_from (mnodes st) []) []) cs = map fa ins1).
    { replace (map fa ins1) with (map fa (map fst (combine ins1 ins2)))
        by (rewrite (map_fst_combine' ins1 ins2 Hlen); reflexivity).
      rewrite map_map.
      apply (Forall2_map_eq _ _ _ _ _ Hom). intros pq k Hpq Hget.
      apply (Hent pq k Hpq Hget). }
    apply (Inv_add2 _ st i j _ _ _ _ _ _ _ HI eq_refl Hj).
    + intros x Hx. destruct (Forall2_In_r _ _ _ _ Hom Hx) as [pq [Hpq Hget]].
      apply (Hent pq x Hpq Hget).
    + intros _. rewrite Hmap. apply A4. reflexivity.
    + rewrite Hmap, HU, A2. reflexivity.
    + exact Hdoe.
Qed.

(* the state after the fold over all pairs of nodes *)
Definition mul_final : mstate :=
  fold_left (mul_step a b) (pairs pair (seq 0 na) (seq 0 nb)) {| mnodes := base; mtbl := [] |}.

Lemma final_inv : Inv (na * nb) mul_final.
Proof.
  unfold mul_final.
  pose proof (fold_left_nth_inv (mul_step a b) Inv (0, 0) (pairs pair (seq 0 na) (seq 0 nb)) 0
                {| mnodes := base; mtbl := [] |}) as H.
  rewrite pairs_length, !seq_length in H. rewrite Nat.add_0_l in H. apply H; [|exact Inv_init].
  intros t st Ht HI. rewrite !Nat.add_0_l in *. rewrite pairs_nth by exact Ht. rewrite Nat.add_0_l.
  assert (Hnb : nb <> 0) by (intros E; rewrite E in Ht; lia).
  assert (Hi : t / nb < na) by (apply Nat.div_lt_upper_bound; [exact Hnb | lia]).
  assert (Hj : t mod nb < nb) by (apply Nat.mod_upper_bound; exact Hnb).
  assert (Et : t = t / nb * nb + t mod nb) by (rewrite Nat.mul_comm; apply Nat.div_mod; exact Hnb).
  pose proof (step_inv (t / nb) (t mod nb) st Hi Hj) as Hs. rewrite <- Et in Hs. apply Hs. exact HI.
Qed.

Lemma multiply_result p : multiply_m a b = Ok p ->
  exists os, p = mkC (mnodes mul_final) os /\
    omap (fun pq => nth (fst pq * nb + snd pq) (mtbl mul_final) None) (pairs pair (outs a) (outs b)) = Some os.
Proof.
  intros H. rewrite multiply_unfold in H.
  destruct (negb (seqb (cscope a) (cscope b))); [discriminate H|].
  destruct (negb (compatible a b)); [discriminate H|].
  cbv zeta in H. fold base in H. fold mul_final in H.
  destruct (omap _ _) as [os|] eqn:E; [|discriminate H]. inversion H. exists os. auto.
Qed.

Lemma Forall2_impl_in {X Y} (R R' : X -> Y -> Prop) l l' :
  Forall2 R l l' -> (forall x y, In x l -> R x y -> R' x y) -> Forall2 R' l l'.
Proof.
  induction 1 as [|x0 y0 l l' H0 HF IH]; intros H; constructor.
  - apply H; simpl; auto.
  - apply IH. intros x y Hx. apply H. simpl; auto.
Qed.

Theorem structure_sec p : (forall o, In o (outs b) -> o < nb) -> seqb (cscope a) (cscope b) = true ->
  multiply_m a b = Ok p ->
  is_smooth p = true /\ (Q -> is_decomposable p = true) /\
  length (outs p) = length (outs a) * length (outs b) /\
  (forall o, In o (outs p) -> o < length (nodes p)) /\
  Forall2 (fun pq o => nth o (scopes p) [] = sunion (nth (fst pq) sa []) (nth (snd pq) sb []))
          (pairs pair (outs a) (outs b)) (outs p) /\
  cscope p = cscope a.
Proof.
  intros Hob Hcs H. destruct (multiply_result p H) as [os [-> Hom]].
  pose proof final_inv as HI. apply omap_Forall2 in Hom.
  assert (Hent : forall pq o, In pq (pairs pair (outs a) (outs b)) ->
            nth (fst pq * nb + snd pq) (mtbl mul_final) None = Some o ->
            o < length (mnodes mul_final) /\
            nth o (scopes_from (mnodes mul_final) []) [] = U (fst pq) (snd pq)).
  { intros pq o Hpq Hget. apply pairs_In in Hpq. destruct Hpq as [x [y [Hx [Hy ->]]]].
    cbn [fst snd] in *. destruct (get_facts _ _ _ _ _ HI (Hob y Hy) Hget) as [C1 [C2 _]]. auto. }
  assert (HF : Forall2 (fun pq o => nth o (scopes_from (mnodes mul_final) []) [] = U (fst pq) (snd pq))
                 (pairs pair (outs a) (outs b)) os).
  { apply (Forall2_impl_in _ _ _ _ Hom). intros pq o Hpq Hget. apply (Hent pq o Hpq Hget). }
  destruct HI as [_ [_ [HG _]]]. destruct (G_structure _ _ os HG) as [Hsm Hdc].
  split; [exact Hsm|]. split; [exact Hdc|]. cbn [outs nodes]. split; [|split; [|split]].
  - apply Forall2_length in Hom. rewrite pairs_length in Hom. symmetry. exact Hom.
  - intros o Ho. destruct (Forall2_In_r _ _ _ _ Hom Ho) as [pq [Hpq Hget]]. apply (Hent pq o Hpq Hget).
  - exact HF.
  - unfold cscope at 1. cbn [outs]. unfold scopes at 1. cbn [nodes].
    rewrite (Forall2_map_eq _ (fun o => nth o (scopes_from (mnodes mul_final) []) [])
               (fun pq => U (fst pq) (snd pq)) _ _ HF) by auto.
    apply seqb_eq in Hcs.
    apply sorted_ext; [apply sunions_sorted | apply sunions_sorted |].
    intros v. rewrite sunions_In. split.
    + intros [s [Hs Hv]]. apply in_map_iff in Hs. destruct Hs as [pq [<- Hpq]].
      apply pairs_In in Hpq. destruct Hpq as [x [y [Hx [Hy ->]]]]. cbn [fst snd] in Hv.
      unfold U in Hv. apply sunion_In in Hv. destruct Hv as [Hv|Hv].
      * unfold cscope. apply sunions_In. exists (nth x sa []). split; auto.
        apply in_map_iff. exists x. auto.
      * rewrite Hcs. unfold cscope. apply sunions_In. exists (nth y sb []). split; auto.
        apply in_map_iff. exists y. auto.
    + intros Hv. assert (Hv' : In v (cscope b)) by (rewrite <- Hcs; exact Hv).
      unfold cscope in Hv, Hv'. apply sunions_In in Hv, Hv'.
      destruct Hv as [s [Hs Hv]], Hv' as [s' [Hs' Hv']].
      apply in_map_iff in Hs, Hs'. destruct Hs as [x [<- Hx]], Hs' as [y [<- Hy]].
      exists (U x y). split.
      * apply in_map_iff. exists (x, y). split; auto. apply pairs_In. exists x, y. auto.
      * unfold U. apply sunion_In. auto.
Qed.

(* the table built by the fold: every entry points to a node whose scope is the union *)
Theorem table_scopes_sec i j k : j < nb ->
  nth (i * nb + j) (mtbl mul_final) None = Some k ->
  k < length (mnodes mul_final) /\
  nth k (scopes_from (mnodes mul_final) []) [] = sunion (nth i sa []) (nth j sb []) /\
  (sdisjoint (nth i sa []) (nth j sb []) = true \/ nth i sa [] = nth j sb []).
Proof. intros Hj H. apply (get_facts _ _ _ _ _ final_inv Hj H). Qed.
End Mul.

(* ================================================================== *)
(* 8. The theorem                                                       *)
(* ================================================================== *)
Lemma wf_nonempty c : wf c = true ->
  forall i l ins, nth_error (nodes c) i = Some (l, ins) -> is_input l = false -> ins <> [].
Proof.
  intros Hwf i l ins Hn. unfold wf in Hwf. apply andb_prop in Hwf. destruct Hwf as [Hwf _].
  apply (wf_from_lt _ _ _ _ _ _ Hwf Hn).
Qed.

Lemma operands_good a b : wf a = true -> wf b = true -> compatible a b = true ->
  G True (nodes a) /\ G True (nodes b) /\ (forall o, In o (outs b) -> o < length (nodes b)).
Proof.
  intros Hwa Hwb Hc.
  rewrite compatible_unfold, !andb_true_iff in Hc. destruct Hc as [[[[Hsa Hda] Hsb] Hdb] _].
  split; [apply G_of_circuit; auto|]. split; [apply G_of_circuit; auto|].
  unfold wf in Hwb. apply andb_prop in Hwb. destruct Hwb as [_ Hob].
  rewrite forallb_forall in Hob. intros o Ho. apply Nat.ltb_lt. apply Hob. exact Ho.
Qed.

(* whenever [multiply_m] returns on well-formed operands, the result is smooth and decomposable,
   has |outs a| * |outs b| outputs, all in range, output (x,y) has scope scope_a(x) U scope_b(y),
   and the scope of the product is the scope of the operands *)
Theorem multiply_structure a b p :
  wf a = true -> wf b = true ->
  multiply_m a b = Ok p ->
  is_smooth p = true /\ is_decomposable p = true /\
  length (outs p) = length (outs a) * length (outs b) /\
  (forall o, In o (outs p) -> o < length (nodes p)) /\
  Forall2 (fun pq o => nth o (scopes p) [] =
                       sunion (nth (fst pq) (scopes a) []) (nth (snd pq) (scopes b) []))
          (pairs pair (outs a) (outs b)) (outs p) /\
  cscope p = cscope a.
Proof.
  intros Hwa Hwb H. destruct (multiply_ok a b p H) as [Hc Hcs].
  destruct (operands_good a b Hwa Hwb Hc) as [HGa [HGb Hob]].
  destruct (structure_sec a b True HGa HGb (wf_nonempty a Hwa) (wf_nonempty b Hwb)
              (fun _ => compatible_facts a b Hc) p Hob Hcs H)
    as [H1 [H2 H3]].
  split; [exact H1|]. split; [exact (H2 I) | exact H3].
Qed.

(* the part that does not use the factorization check of [compatible]: smoothness, outputs, scopes *)
Theorem multiply_structure_partial a b p :
  wf a = true -> wf b = true ->
  multiply_m a b = Ok p ->
  is_smooth p = true /\
  length (outs p) = length (outs a) * length (outs b) /\
  (forall o, In o (outs p) -> o < length (nodes p)) /\
  Forall2 (fun pq o => nth o (scopes p) [] =
                       sunion (nth (fst pq) (scopes a) []) (nth (snd pq) (scopes b) []))
          (pairs pair (outs a) (outs b)) (outs p) /\
  cscope p = cscope a.
Proof.
  intros Hwa Hwb H. destruct (multiply_structure a b p Hwa Hwb H) as [H1 [_ H3]]. auto.
Qed.

(* the scope invariant of the pair table (the key of the proof): entry (i,j) points to a node
   whose scope is scope_a(i) U scope_b(j), and such an entry exists only for disjoint or equal
   scopes *)
Theorem multiply_table_scopes a b i j k :
  wf a = true -> wf b = true -> compatible a b = true ->
  j < length (nodes b) ->
  nth (i * length (nodes b) + j) (mtbl (mul_final a b)) None = Some k ->
  k < length (mnodes (mul_final a b)) /\
  nth k (scopes_from (mnodes (mul_final a b)) []) [] =
    sunion (nth i (scopes a) []) (nth j (scopes b) []) /\
  (sdisjoint (nth i (scopes a) []) (nth j (scopes b) []) = true \/
   nth i (scopes a) [] = nth j (scopes b) []).
Proof.
  intros Hwa Hwb Hc Hj H. destruct (operands_good a b Hwa Hwb Hc) as [HGa [HGb _]].
  apply (table_scopes_sec a b True HGa HGb (wf_nonempty a Hwa) (wf_nonempty b Hwb)
           (fun _ => compatible_facts a b Hc) i j k Hj H).
Qed.

(* ================================================================== *)
(* 9. Regression and boundary examples                                  *)
(* ================================================================== *)
(* a = Had(Emb(x0), Const), b = Had(Const, Emb(x0)).  With the former [min_of [] = 0] /
   tie-reversing [insert_by] the empty scope tied with {x0}, the inputs were paired
   (Const_a, Emb_b), (Emb_a, Const_b) and the product was NOT decomposable.  Now the empty
   scope sorts strictly first: (Const_a, Const_b) and (Emb_a, Emb_b) are paired. *)
Definition cx_w : pexpr := PTen 0 false (of_vec [c1]).
Definition cx_m : pexpr := PTen 0 false (of_mat [[c1; c1]]).
Definition cx_a : circuit :=
  mkC [ (LEmb 0 1 2 cx_m, []); (LConst 1 false cx_w, []); (LHad 1 2, [0; 1]) ] [2].
Definition cx_b : circuit :=
  mkC [ (LConst 1 false cx_w, []); (LEmb 0 1 2 cx_m, []); (LHad 1 2, [0; 1]) ] [2].

Example multiply_regression_empty_scope :
  wf cx_a = true /\ wf cx_b = true /\ compatible cx_a cx_b = true /\
  match multiply_m cx_a cx_b with
  | Ok p => wf p = true /\ is_smooth p = true /\ is_decomposable p = true /\
            length (outs p) = 1 /\ cscope p = [0] /\
            (* the Hadamard output multiplies Kron(Const_a, Const_b) and Emb_a * Emb_b *)
            (exists o K ar k1 k2 v K' N w, outs p = [o] /\
               nth o (nodes p) (LHad 0 0, []) = (LHad K ar, [k1; k2]) /\
               nth k1 (nodes p) (LHad 0 0, []) = (LKron 1 2, [1; 3]) /\
               nth k2 (nodes p) (LHad 0 0, []) = (LEmb v K' N w, []))
  | Err _ => False
  end.
Proof. vm_compute. repeat split. repeat eexists. Qed.

(* different numbers of empty-scope inputs: a = Had(Const, Had(Emb x0, Emb x1)) against
   b = Had(Emb x0, Emb x1).  Compatible (a's outer product has a single non-empty factor, so
   nothing is recorded for it), but the sorted pairing (Const, Emb x0), ({x0,x1}, Emb x1) meets
   overlapping different scopes and the product is refused (lemma [single] shows this always
   happens), as the library does (NotImplementedError) *)
Definition cy_a : circuit :=
  mkC [ (LEmb 0 1 2 cx_m, []); (LEmb 1 1 2 cx_m, []); (LHad 1 2, [0; 1]);
        (LConst 1 false cx_w, []); (LHad 1 2, [3; 2]) ] [4].
Definition cy_b : circuit :=
  mkC [ (LEmb 0 1 2 cx_m, []); (LEmb 1 1 2 cx_m, []); (LHad 1 2, [0; 1]) ] [2].
Example multiply_unequal_empties_refused :
  wf cy_a = true /\ wf cy_b = true /\ compatible cy_a cy_b = true /\
  seqb (cscope cy_a) (cscope cy_b) = true /\ multiply_m cy_a cy_b = Err ERule.
Proof. vm_compute. repeat split. Qed.

(* non-vacuity: Hadamard x Hadamard with inputs listed in different orders, sum x sum,
   input x input *)
Definition ex_a : circuit :=
  mkC [ (LEmb 0 1 2 cx_m, []); (LEmb 1 1 2 cx_m, []); (LHad 1 2, [0; 1]);
        (LSum 1 1 1 (PTen 0 false (of_mat [[c1]])), [2]) ] [3].
Definition ex_b : circuit :=
  mkC [ (LEmb 1 1 2 cx_m, []); (LEmb 0 1 2 cx_m, []); (LHad 1 2, [0; 1]);
        (LSum 1 1 1 (PTen 0 false (of_mat [[c1]])), [2]) ] [3].
Example multiply_structure_nonvacuous :
  wf ex_a = true /\ wf ex_b = true /\
  match multiply_m ex_a ex_b with
  | Ok p => is_smooth p = true /\ is_decomposable p = true /\ length (outs p) = 1 /\
            cscope p = [0; 1]
  | Err _ => False
  end.
Proof. vm_compute. repeat split. Qed.

Check multiply_structure. Print Assumptions multiply_structure.
Check multiply_structure_partial. Print Assumptions multiply_structure_partial.
Check multiply_table_scopes. Print Assumptions multiply_table_scopes.
Check multiply_regression_empty_scope. Print Assumptions multiply_regression_empty_scope.
Check multiply_unequal_empties_refused. Print Assumptions multiply_unequal_empties_refused.
