(* Normalised.v — circuits built from normalised parts are normalised (partition function = 1),
   softmax / mixing-weight row sums, and non-negativity of monotone circuits. *)
From Coq Require Import List Lia Ring Ring_theory Field Field_theory Bool Arith.
Import ListNotations.
From CK Require Import Base Circ Integrate.

Section Normalised.
Variable R : Type.
Variables (rO rI : R) (radd rmul : R -> R -> R).
Hypothesis Rth : semi_ring_theory rO rI radd rmul (@eq R).
Add Ring Rring : Rth.
Infix "+" := radd. Infix "*" := rmul.
Notation "0" := rO. Notation "1" := rI.
Variable D : Type.
Notation asg := (asg D).
Notation vec := (vec R).
Notation dot := (dot R rO radd rmul).
Notation had := (had R rmul).
Notation kron := (kron R rmul).
Notation scale := (scale R rmul).
Notation vsum := (vsum R rO radd).
Variable Int : nat -> (D -> R) -> R.
Hypothesis Int_ext : forall v f g, (forall d, f d = g d) -> Int v f = Int v g.
Hypothesis Int_add : forall v f g, Int v (fun d => f d + g d) = Int v f + Int v g.
Hypothesis Int_scal : forall v c f, Int v (fun d => c * f d) = c * Int v f.
Notation IntL := (IntL R D Int).
Notation IntV := (IntV R rO D Int).
Notation node := (node R D).
Notation circuit := (circuit R D).
Notation eval := (eval R rO radd rmul D).
Notation eval_node := (eval_node R rO radd rmul D).
Notation scopes := (scopes R D).
Notation units := (units R D).
Notation ok := (ok R rO D).
Notation inp := (inp R D).
Notation NIn := (NIn R D).
Notation NSum := (NSum R D).
Notation NHad := (NHad R D).
Notation NKron := (NKron R D).
Notation iscope := (iscope R D).
Notation iunits := (iunits R D).
Notation ifun := (ifun R D).
Notation get := (get R).
Notation hadn := (hadn R rmul).
Notation kronn := (kronn R rmul).
Notation integrate := (integrate R rO D Int).
Notation tr := (tr R rO D Int).

(* ====================================================================== *)
(* 1. PARTITION FUNCTION = 1                                              *)
(* ====================================================================== *)
Definition ones (n : nat) : vec := repeat 1 n.

(* [us] is the list of unit counts of the circuit the node lives in (use [units c]); it is only
   used to state that the rows of a sum node are as long as the concatenation of its inputs. *)
Definition norm_node (Z : list nat) (us : list nat) (n : node) : Prop :=
  match n with
  | Circ.NIn _ _ i =>
      (forall y, IntV (zs_of Z (iscope i)) (ifun i) (iunits i) y = ones (iunits i))
      /\ (forall v, In v (iscope i) -> In v Z)
  | Circ.NSum _ _ W ins =>
      forall w, In w W -> vsum w = 1 /\ length w = sumu (fun j => nth j us 0%nat) ins
  | Circ.NHad _ _ _ => True
  | Circ.NKron _ _ _ => True
  end.

Lemma length_ones n : length (ones n) = n.
Proof. apply repeat_length. Qed.
Lemma nth_ones k n : k < n -> nth k (ones n) 0 = 1.
Proof. unfold ones. revert k; induction n as [|n IH]; intros k H; [lia|]. destruct k; simpl; [reflexivity | apply IH; lia]. Qed.
Lemma ones_app a b : ones a ++ ones b = ones (a + b)%nat.
Proof. unfold ones. symmetry. apply repeat_app. Qed.
Lemma dot_ones w : dot w (ones (length w)) = vsum w.
Proof. unfold ones. induction w as [|a w IH]; simpl; [reflexivity|]. rewrite IH. ring. Qed.
Lemma had_ones n : had (ones n) (ones n) = ones n.
Proof. unfold ones. induction n as [|n IH]; simpl; [reflexivity|]. rewrite IH. f_equal. ring. Qed.
Lemma scale_one_ones n : scale 1 (ones n) = ones n.
Proof. unfold ones, Base.scale. induction n as [|n IH]; simpl; [reflexivity|]. rewrite IH. f_equal. ring. Qed.
Lemma kron_ones a b : kron (ones a) (ones b) = ones (a * b)%nat.
Proof. induction a as [|a IH]; [reflexivity|].
  change (ones (S a)) with (1 :: ones a). rewrite (kron_cons R rmul), IH, scale_one_ones, ones_app. reflexivity. Qed.
Lemma concat_ones (u : nat -> nat) ins : concat (map (fun j => ones (u j)) ins) = ones (sumu u ins).
Proof. induction ins as [|j ins IH]; simpl; [reflexivity|]. rewrite IH. apply ones_app. Qed.
Lemma fold_had_ones n (vs : list vec) : (forall x, In x vs -> x = ones n) -> fold_left had vs (ones n) = ones n.
Proof. induction vs as [|a vs IH]; intros H; simpl; [reflexivity|].
  rewrite (H a) by (simpl; auto). rewrite had_ones. apply IH. intros; apply H; simpl; auto. Qed.
Lemma fold_kron_ones (u : nat -> nat) ins a :
  fold_left kron (map (fun j => ones (u j)) ins) (ones a) = ones (a * fold_right Nat.mul 1%nat (map u ins))%nat.
Proof. revert a; induction ins as [|j ins IH]; intros a; simpl.
  - f_equal. lia.
  - rewrite kron_ones, IH. f_equal. lia. Qed.
Lemma map_const_ones {A} (f : A -> R) (l : list A) : (forall x, In x l -> f x = 1) -> map f l = ones (length l).
Proof. induction l as [|a l IH]; intros H; simpl; [reflexivity|]. unfold ones in *. simpl.
  rewrite (H a) by (simpl; auto). f_equal. apply IH. intros; apply H; simpl; auto. Qed.

(* the invariant: every node of the integrated circuit evaluates to the all-ones vector *)
Lemma normalised_inv Z c : ok c ->
  forall us, (forall i, i < length c -> nth i us 0%nat = nth i (units c) 0%nat) ->
  (forall n, In n c -> norm_node Z us n) ->
  forall i y, i < length c -> nth i (eval (integrate Z c) y) [] = ones (nth i (units c) 0%nat).
Proof.
  induction 1 as [|pre n Hok IH Hn]; intros us Hus Hnorm i y Hi.
  - simpl in Hi. lia.
  - rewrite app_length in Hi. simpl in Hi.
    assert (Hus' : forall j, j < length pre -> nth j us 0%nat = nth j (units pre) 0%nat).
    { intros j Hj. rewrite Hus by (rewrite app_length; simpl; lia). apply un_lt, Hj. }
    assert (IH' : forall j y, j < length pre -> nth j (eval (integrate Z pre) y) [] = ones (nth j us 0%nat)).
    { intros j y0 Hj. rewrite (Hus' j Hj). apply (IH us Hus'); [|exact Hj].
      intros m Hm. apply Hnorm. apply in_or_app; auto. }
    assert (Hnn : norm_node Z us n) by (apply Hnorm; apply in_or_app; simpl; auto).
    assert (Hcase : i < length pre \/ i = length pre) by lia. destruct Hcase as [Hlt | ->].
    + rewrite (evI_lt R rO radd rmul D Int), un_lt by exact Hlt. rewrite <- (Hus' i Hlt). apply IH', Hlt.
    + rewrite (evI_eq R rO radd rmul D Int), un_eq.
      destruct n as [inp0 | W ins | ins | ins]; simpl in Hn, Hnn.
      * (* input *) simpl. apply Hnn.
      * (* sum *)
        destruct Hn as [Hne [Hpos Hsm]]. simpl.
        assert (E : map (get (eval (integrate Z pre) y)) ins = map (fun j => ones (nth j us 0%nat)) ins).
        { apply map_ext_in. intros j Hj. unfold Circ.get. apply IH', Hpos, Hj. }
        rewrite E, concat_ones. apply map_const_ones. intros w Hw.
        destruct (Hnn w Hw) as [Hs Hl]. rewrite <- Hl. rewrite dot_ones. exact Hs.
      * (* hadamard *)
        destruct Hn as [Hne [Hpos [Hun Hdj]]]. simpl.
        destruct ins as [|j0 ins']; [congruence|]. simpl.
        unfold Circ.get at 2. rewrite IH' by (apply Hpos; simpl; auto).
        rewrite <- (Hus' j0) by (apply Hpos; simpl; auto).
        apply fold_had_ones. intros x Hx. apply in_map_iff in Hx. destruct Hx as [j [<- Hj]].
        unfold Circ.get. rewrite IH' by (apply Hpos; simpl; auto).
        rewrite !Hus' by (apply Hpos; simpl; auto). f_equal. apply (Hun j). simpl; auto.
      * (* kronecker *)
        destruct Hn as [Hne [Hpos Hdj]]. simpl.
        assert (E : map (get (eval (integrate Z pre) y)) ins = map (fun j => ones (nth j us 0%nat)) ins).
        { apply map_ext_in. intros j Hj. unfold Circ.get. apply IH', Hpos, Hj. }
        rewrite E.
        assert (E2 : map (fun j => nth j (units pre) 0%nat) ins = map (fun j => nth j us 0%nat) ins).
        { apply map_ext_in. intros j Hj. symmetry. apply Hus', Hpos, Hj. }
        rewrite E2.
        destruct ins as [|j0 ins']; [congruence|]. simpl.
        rewrite fold_kron_ones. reflexivity.
Qed.

Theorem normalised_partition Z c : ok c -> (forall n, In n c -> norm_node Z (units c) n) ->
  forall y o, o < length c -> nth o (eval (integrate Z c) y) [] = ones (nth o (units c) 0%nat).
Proof.
  intros Hok Hnorm y o Ho. apply (normalised_inv Z c Hok (units c)); auto.
Qed.

(* the partition function of every unit of every node is one *)
Corollary normalised_partition_IntL Z c : ok c -> (forall n, In n c -> norm_node Z (units c) n) ->
  forall y o k, o < length c -> k < nth o (units c) 0%nat ->
  IntL (zs_of Z (nth o (scopes c) [])) (fun y' => nth k (nth o (eval c y') []) 0) y = 1.
Proof.
  intros Hok Hnorm y o k Ho Hk.
  rewrite <- (integrate_correct R rO rI radd rmul Rth D Int Int_ext Int_add Int_scal Z c Hok o k y Ho).
  rewrite (normalised_partition Z c Hok Hnorm y o Ho). apply nth_ones, Hk.
Qed.

(* ====================================================================== *)
(* 2b. mixing-weight row sums (semiring version)                          *)
(* ====================================================================== *)
Definition mixing_row (K k : nat) (row : vec) : vec :=
  flat_map (fun v => map (fun j => if Nat.eqb j k then v else 0) (seq 0 K)) row.

Lemma vsum_app a b : vsum (a ++ b) = vsum a + vsum b.
Proof. induction a as [|x a IH]; simpl; [ring | rewrite IH; ring]. Qed.
Lemma vsum_onehot_out k v l : ~ In k l -> vsum (map (fun j => if Nat.eqb j k then v else 0) l) = 0.
Proof. induction l as [|a l IH]; intros H; simpl; [reflexivity|].
  destruct (Nat.eqb_spec a k) as [->|Hne]; [exfalso; apply H; simpl; auto|].
  rewrite IH by (intros Hc; apply H; simpl; auto). ring. Qed.
Lemma vsum_onehot k v K : forall a, a <= k -> k < a + K ->
  vsum (map (fun j => if Nat.eqb j k then v else 0) (seq a K)) = v.
Proof. induction K as [|K IH]; intros a H1 H2; [lia|]. simpl.
  destruct (Nat.eqb_spec a k) as [->|Hne].
  - rewrite vsum_onehot_out by (rewrite in_seq; lia). ring.
  - rewrite IH by lia. ring. Qed.
Theorem mixing_row_sum K k row : k < K -> vsum (mixing_row K k row) = vsum row.
Proof. intros Hk. unfold mixing_row. induction row as [|v row IH]; simpl; [reflexivity|].
  rewrite vsum_app, IH, vsum_onehot by lia. reflexivity. Qed.

End Normalised.

Section Monotone.
Variable R : Type.
Variables (rO rI : R) (radd rmul : R -> R -> R).
Hypothesis Rth : semi_ring_theory rO rI radd rmul (@eq R).
Add Ring Rring' : Rth.
Infix "+" := radd. Infix "*" := rmul.
Notation "0" := rO. Notation "1" := rI.
Variable D : Type.
Notation asg := (asg D).
Notation vec := (vec R).
Notation dot := (dot R rO radd rmul).
Notation had := (had R rmul).
Notation kron := (kron R rmul).
Notation scale := (scale R rmul).
Notation node := (node R D).
Notation circuit := (circuit R D).
Notation eval := (eval R rO radd rmul D).
Notation eval_node := (eval_node R rO radd rmul D).
Notation units := (units R D).
Notation ok := (ok R rO D).
Notation inp := (inp R D).
Notation NIn := (NIn R D).
Notation NSum := (NSum R D).
Notation iunits := (iunits R D).
Notation ifun := (ifun R D).
Notation get := (get R).

(* length of every node value = its unit count; read off [integrate_inv] with the zero functional *)
Lemma length_eval_units (c : circuit) : ok c -> forall o y, o < length c ->
  length (nth o (eval c y) []) = nth o (units c) 0%nat.
Proof.
  intros Hok o y Ho.
  assert (H1 : forall (v : nat) (f g : D -> R), (forall d, f d = g d) -> (fun (_ : nat) (_ : D -> R) => 0) v f = (fun (_ : nat) (_ : D -> R) => 0) v g) by reflexivity.
  assert (H2 : forall (v : nat) (f g : D -> R), 0 = 0 + 0) by (intros; ring).
  assert (H3 : forall (v : nat) (c0 : R) (f : D -> R), 0 = c0 * 0) by (intros; ring).
  destruct (integrate_inv R rO rI radd rmul Rth D (fun _ _ => 0) H1 H2 H3 [] c Hok o Ho) as [IA _].
  apply IA.
Qed.

(* ====================================================================== *)
(* 3. NON-NEGATIVITY                                                      *)
(* ====================================================================== *)
(* entrywise predicates closed under multiplication are preserved by the product nodes *)
Section MulClosed.
Variable P : R -> Prop.
Hypothesis P_mul : forall a b, P a -> P b -> P (a * b).
Lemma Pv_had x y : Forall P x -> Forall P y -> Forall P (had x y).
Proof. intros Hx. revert y; induction Hx as [|a x Ha Hx IH]; intros y Hy; simpl; [constructor|].
  destruct Hy as [|b y Hb Hy]; constructor; [apply P_mul; assumption | apply IH, Hy]. Qed.
Lemma Pv_scale a y : P a -> Forall P y -> Forall P (scale a y).
Proof. intros Ha Hy. unfold Base.scale. induction Hy; simpl; constructor; [apply P_mul; assumption | assumption]. Qed.
Lemma Pv_kron x y : Forall P x -> Forall P y -> Forall P (kron x y).
Proof. intros Hx Hy. induction Hx as [|a x Ha Hx IH]; [constructor|].
  rewrite (kron_cons R rmul). apply Forall_app; split; [apply Pv_scale; assumption | exact IH]. Qed.
Lemma Pv_concat (xs : list vec) : Forall (Forall P) xs -> Forall P (concat xs).
Proof. induction 1; simpl; [constructor | apply Forall_app; split; assumption]. Qed.
Lemma Pv_fold_had vs v : Forall P v -> Forall (Forall P) vs -> Forall P (fold_left had vs v).
Proof. intros Hv Hvs. revert v Hv; induction Hvs as [|a vs Ha Hvs IH]; intros v Hv; simpl; [exact Hv|].
  apply IH, Pv_had; assumption. Qed.
Lemma Pv_fold_kron vs v : Forall P v -> Forall (Forall P) vs -> Forall P (fold_left kron vs v).
Proof. intros Hv Hvs. revert v Hv; induction Hvs as [|a vs Ha Hvs IH]; intros v Hv; simpl; [exact Hv|].
  apply IH, Pv_kron; assumption. Qed.
End MulClosed.

Section Nonneg.
Variable nonneg : R -> Prop.
Hypothesis nonneg_0 : nonneg 0.
Hypothesis nonneg_1 : nonneg 1.
Hypothesis nonneg_add : forall a b, nonneg a -> nonneg b -> nonneg (a + b).
Hypothesis nonneg_mul : forall a b, nonneg a -> nonneg b -> nonneg (a * b).

Definition nnv (v : vec) : Prop := Forall nonneg v.

Lemma nnv_nth v k : nnv v -> nonneg (nth k v 0).
Proof. intros H. revert k; induction H as [|a v Ha Hv IH]; intros [|k]; simpl; auto. Qed.
Lemma nnv_of_nth v : (forall k, nonneg (nth k v 0)) -> nnv v.
Proof. induction v as [|a v IH]; intros H; constructor; [exact (H 0%nat) | apply IH; intros k; exact (H (S k))]. Qed.
Lemma nonneg_dot w x : nnv w -> nnv x -> nonneg (dot w x).
Proof. intros Hw. revert x; induction Hw as [|a w Ha Hw IH]; intros x Hx; simpl; [exact nonneg_0|].
  destruct Hx as [|b x Hb Hx]; [exact nonneg_0|]. apply nonneg_add; [apply nonneg_mul; assumption | apply IH, Hx]. Qed.
Lemma nnv_had x y : nnv x -> nnv y -> nnv (had x y).
Proof. apply Pv_had, nonneg_mul. Qed.
Lemma nnv_app x y : nnv x -> nnv y -> nnv (x ++ y).
Proof. intros; apply Forall_app; split; assumption. Qed.
Lemma nnv_concat (xs : list vec) : Forall nnv xs -> nnv (concat xs).
Proof. apply Pv_concat. Qed.
Lemma nnv_fold_had vs v : nnv v -> Forall nnv vs -> nnv (fold_left had vs v).
Proof. apply Pv_fold_had, nonneg_mul. Qed.
Lemma nnv_fold_kron vs v : nnv v -> Forall nnv vs -> nnv (fold_left kron vs v).
Proof. apply Pv_fold_kron, nonneg_mul. Qed.
Lemma nnv_get vals j : Forall nnv vals -> nnv (get vals j).
Proof. intros H. unfold Circ.get. destruct (Nat.lt_ge_cases j (length vals)) as [Hlt|Hge].
  - rewrite Forall_forall in H. apply H, nth_In, Hlt.
  - rewrite nth_overflow by exact Hge. constructor. Qed.
Lemma nnv_gets vals ins : Forall nnv vals -> Forall nnv (map (get vals) ins).
Proof. intros H. apply Forall_forall. intros x Hx. apply in_map_iff in Hx. destruct Hx as [j [<- _]]. apply nnv_get, H. Qed.

Definition nonneg_node (n : node) : Prop :=
  match n with
  | Circ.NIn _ _ i => forall y k, nonneg (nth k (ifun i y) 0)
  | Circ.NSum _ _ W _ => forall w, In w W -> forall x, In x w -> nonneg x
  | _ => True
  end.

Lemma nnv_eval_node n y vals : nonneg_node n -> Forall nnv vals -> nnv (eval_node n y vals).
Proof.
  intros Hn Hv. destruct n as [i | W ins | ins | ins]; simpl in *.
  - apply nnv_of_nth. intros k. apply Hn.
  - apply Forall_forall. intros x Hx. apply in_map_iff in Hx. destruct Hx as [w [<- Hw]].
    apply nonneg_dot; [apply Forall_forall; exact (Hn w Hw) | apply nnv_concat, nnv_gets, Hv].
  - pose proof (nnv_gets vals ins Hv) as H. unfold Circ.hadn. destruct H; [constructor | apply nnv_fold_had; assumption].
  - pose proof (nnv_gets vals ins Hv) as H. unfold Circ.kronn. destruct H; [constructor | apply nnv_fold_kron; assumption].
Qed.

Lemma nonneg_eval c y : (forall n, In n c -> nonneg_node n) -> Forall nnv (eval c y).
Proof.
  induction c as [|n pre IH] using rev_ind; intros H; [constructor|].
  rewrite eval_snoc. apply Forall_app. split.
  - apply IH. intros m Hm. apply H, in_or_app; auto.
  - constructor; [|constructor]. apply nnv_eval_node; [apply H, in_or_app; simpl; auto|].
    apply IH. intros m Hm. apply H, in_or_app; auto.
Qed.

Theorem monotone_nonneg (c : circuit) :
  (forall W ins, In (NSum W ins) c -> forall w, In w W -> forall x, In x w -> nonneg x) ->
  (forall i, In (NIn i) c -> forall y k, nonneg (nth k (ifun i y) 0)) ->
  forall y o k, nonneg (nth k (nth o (eval c y) []) 0).
Proof.
  intros HW HI y o k. apply nnv_nth. apply (nnv_get (eval c y) o). apply nonneg_eval.
  intros n Hn. destruct n as [i | W ins | ins | ins]; simpl.
  - apply HI, Hn.
  - apply (HW W ins Hn).
  - exact I.
  - exact I.
Qed.
End Nonneg.

(* ---------- strict version: positive parts give positive (and non-empty) outputs ---------- *)
Section Pos.
Variable pos : R -> Prop.
Hypothesis pos_add : forall a b, pos a -> pos b -> pos (a + b).
Hypothesis pos_mul : forall a b, pos a -> pos b -> pos (a * b).

Definition pnv (v : vec) : Prop := Forall pos v /\ v <> [].

Lemma Forall_of_nth_lt (v : vec) : (forall k, k < length v -> pos (nth k v 0)) -> Forall pos v.
Proof. induction v as [|a v IH]; intros H; constructor; [apply (H 0%nat); simpl; lia | apply IH; intros k Hk; apply (H (S k)); simpl; lia]. Qed.
Lemma Forall_nth_lt (v : vec) k : Forall pos v -> k < length v -> pos (nth k v 0).
Proof. intros H. revert k; induction H as [|a v Ha Hv IH]; intros k Hk; simpl in Hk; [lia|].
  destruct k; simpl; [exact Ha | apply IH; lia]. Qed.
Lemma pos_dot w : forall x, Forall pos w -> Forall pos x -> w <> [] -> x <> [] -> pos (dot w x).
Proof. induction w as [|a w IH]; intros x Hw Hx Hwn Hxn; [congruence|].
  destruct x as [|b x]; [congruence|]. inversion Hw as [|? ? Ha Hw']; subst. inversion Hx as [|? ? Hb Hx']; subst.
  destruct w as [|a' w'].
  - simpl. replace (a * b + 0) with (a * b) by ring. apply pos_mul; assumption.
  - destruct x as [|b' x'].
    + simpl. replace (a * b + 0) with (a * b) by ring. apply pos_mul; assumption.
    + change (pos (a * b + dot (a' :: w') (b' :: x'))). apply pos_add; [apply pos_mul; assumption|].
      apply IH; [assumption | assumption | discriminate | discriminate]. Qed.
Lemma had_ne (x y : vec) : x <> [] -> y <> [] -> had x y <> [].
Proof. destruct x, y; simpl; congruence. Qed.
Lemma kron_ne (x y : vec) : x <> [] -> y <> [] -> kron x y <> [].
Proof. destruct x as [|a x]; [congruence|]. destruct y as [|b y]; [congruence|]. intros _ _. rewrite (kron_cons R rmul). simpl. discriminate. Qed.
Lemma pnv_had x y : pnv x -> pnv y -> pnv (had x y).
Proof. intros [Hx Hxn] [Hy Hyn]. split; [apply Pv_had; assumption | apply had_ne; assumption]. Qed.
Lemma pnv_kron x y : pnv x -> pnv y -> pnv (kron x y).
Proof. intros [Hx Hxn] [Hy Hyn]. split; [apply Pv_kron; assumption | apply kron_ne; assumption]. Qed.
Lemma pnv_fold_had vs v : pnv v -> Forall pnv vs -> pnv (fold_left had vs v).
Proof. intros Hv Hvs. revert v Hv; induction Hvs as [|a vs Ha Hvs IH]; intros v Hv; simpl; [exact Hv|].
  apply IH, pnv_had; assumption. Qed.
Lemma pnv_fold_kron vs v : pnv v -> Forall pnv vs -> pnv (fold_left kron vs v).
Proof. intros Hv Hvs. revert v Hv; induction Hvs as [|a vs Ha Hvs IH]; intros v Hv; simpl; [exact Hv|].
  apply IH, pnv_kron; assumption. Qed.
Lemma pnv_concat (xs : list vec) : xs <> [] -> Forall pnv xs -> pnv (concat xs).
Proof. intros Hne H. split.
  - apply Pv_concat. apply Forall_forall. intros x Hx. rewrite Forall_forall in H. apply (H x Hx).
  - destruct H as [|x xs [_ Hx] _]; [congruence|]. simpl. destruct x; [congruence | discriminate]. Qed.

Definition pos_node (n : node) : Prop :=
  match n with
  | Circ.NIn _ _ i => 0 < iunits i /\ forall y k, k < iunits i -> pos (nth k (ifun i y) 0)
  | Circ.NSum _ _ W _ => W <> [] /\ forall w, In w W -> w <> [] /\ forall x, In x w -> pos x
  | _ => True
  end.

Lemma strict_pos_inv c : ok c -> (forall n, In n c -> pos_node n) ->
  forall y o, o < length c -> pnv (nth o (eval c y) []).
Proof.
  induction 1 as [|pre n Hok IH Hn]; intros Hpos y o Ho.
  - simpl in Ho. lia.
  - rewrite app_length in Ho. simpl in Ho.
    assert (IH' : forall j, j < length pre -> pnv (nth j (eval pre y) [])).
    { intros j Hj. apply IH; [|exact Hj]. intros m Hm. apply Hpos, in_or_app; auto. }
    assert (Hpn : pos_node n) by (apply Hpos, in_or_app; simpl; auto).
    assert (Hgets : forall ins, (forall j, In j ins -> j < length pre) -> Forall pnv (map (get (eval pre y)) ins)).
    { intros ins Hin. apply Forall_forall. intros x Hx. apply in_map_iff in Hx. destruct Hx as [j [<- Hj]].
      unfold Circ.get. apply IH', Hin, Hj. }
    assert (Hcase : o < length pre \/ o = length pre) by lia. destruct Hcase as [Hlt | ->].
    + rewrite ev_lt by exact Hlt. apply IH', Hlt.
    + rewrite ev_eq. destruct n as [i | W ins | ins | ins]; simpl in Hn, Hpn; simpl.
      * destruct Hn as [HL _]. destruct Hpn as [Hu Hp]. split.
        -- apply Forall_of_nth_lt. intros k Hk. apply Hp. rewrite <- (HL y). exact Hk.
        -- intros E. specialize (HL y). rewrite E in HL. simpl in HL. lia.
      * destruct Hn as [Hne [Hin _]]. destruct Hpn as [HWne HW]. split.
        -- apply Forall_forall. intros x Hx. apply in_map_iff in Hx. destruct Hx as [w [<- Hw]].
           destruct (HW w Hw) as [Hwne Hwp].
           destruct (pnv_concat (map (get (eval pre y)) ins)) as [Hc Hcn];
             [intros E; apply map_eq_nil in E; contradiction | apply Hgets, Hin |].
           apply pos_dot; [apply Forall_forall; exact Hwp | exact Hc | exact Hwne | exact Hcn].
        -- destruct W; [congruence | simpl; discriminate].
      * destruct Hn as [Hne [Hin _]]. pose proof (Hgets ins Hin) as H.
        destruct ins as [|j0 ins']; [congruence|]. simpl in *. inversion H; subst. apply pnv_fold_had; assumption.
      * destruct Hn as [Hne [Hin _]]. pose proof (Hgets ins Hin) as H.
        destruct ins as [|j0 ins']; [congruence|]. simpl in *. inversion H; subst. apply pnv_fold_kron; assumption.
Qed.

Theorem monotone_pos (c : circuit) : ok c ->
  (forall W ins, In (NSum W ins) c -> W <> [] /\ forall w, In w W -> w <> [] /\ forall x, In x w -> pos x) ->
  (forall i, In (NIn i) c -> 0 < iunits i /\ forall y k, k < iunits i -> pos (nth k (ifun i y) 0)) ->
  forall y o k, o < length c -> k < nth o (units c) 0%nat -> pos (nth k (nth o (eval c y) []) 0).
Proof.
  intros Hok HW HI y o k Ho Hk.
  pose proof (length_eval_units c Hok o y Ho) as IA.
  assert (Hp : pnv (nth o (eval c y) [])).
  { apply strict_pos_inv; [exact Hok | | exact Ho].
    intros n Hn. destruct n as [i | W ins | ins | ins]; simpl.
    - apply HI, Hn.
    - apply (HW W ins Hn).
    - exact I.
    - exact I. }
  apply Forall_nth_lt; [apply Hp | rewrite IA; exact Hk].
Qed.
End Pos.
End Monotone.

(* ====================================================================== *)
(* 2. ROW SUMS over a field                                               *)
(* ====================================================================== *)
Section RowSums.
Variable R : Type.
Variables (rO rI : R) (radd rmul rsub : R -> R -> R) (ropp : R -> R) (rdiv : R -> R -> R) (rinv : R -> R).
Hypothesis Fth : field_theory rO rI radd rmul rsub ropp rdiv rinv (@eq R).
Add Field Rfield : Fth.
Infix "+" := radd. Infix "*" := rmul.
Notation "0" := rO. Notation "1" := rI.
Notation vec := (vec R).
Notation vsum := (vsum R rO radd).

Lemma vsum_map_div (s : R) (e : vec) : s <> 0 -> vsum (map (fun x => rdiv x s) e) = rdiv (vsum e) s.
Proof. intros Hs. induction e as [|a e IH]; simpl; [field; exact Hs|]. rewrite IH. field. exact Hs. Qed.

Theorem softmax_row_sum (e : vec) : vsum e <> 0 -> vsum (map (fun x => rdiv x (vsum e)) e) = 1.
Proof. intros Hs. rewrite vsum_map_div by exact Hs. field. exact Hs. Qed.

(* every field is a commutative semiring, so the semiring results above apply *)
Lemma field_srt : semi_ring_theory rO rI radd rmul (@eq R).
Proof. constructor; intros; ring. Qed.

Theorem mixing_row_sum_field K k (row : vec) : k < K -> vsum (mixing_row R rO K k row) = vsum row.
Proof. apply (mixing_row_sum R rO rI radd rmul field_srt). Qed.
End RowSums.

Check normalised_partition.
Print Assumptions normalised_partition.
Check normalised_partition_IntL.
Print Assumptions normalised_partition_IntL.
Check softmax_row_sum.
Print Assumptions softmax_row_sum.
Check mixing_row_sum.
Print Assumptions mixing_row_sum.
Check mixing_row_sum_field.
Print Assumptions mixing_row_sum_field.
Check monotone_nonneg.
Print Assumptions monotone_nonneg.
Check monotone_pos.
Print Assumptions monotone_pos.
Check length_eval_units.
Print Assumptions length_eval_units.
