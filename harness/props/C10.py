"""C10 — derived circuits share parameters with their operands at all times."""
import copy
import traceback

import numpy as np
import torch

import cirkit.symbolic.functional as SF
from cirkit.symbolic import parameters as P
from cirkit.utils.scope import Scope

import evalc
import export
import gen
import opkit
from cases import CaseSet, rng_for, pick_semiring, close, all_assignments
from props.C02 import tensor_leaves, pipeline_operands

PID = "C10"
DISC = ["emb", "cat_logits", "cat_softmax"]


def build_pipeline(rng):
    """returns (root derived circuit, list of (kind, derived, operands, meta)), generator"""
    monotone = rng.random() < 0.6
    kinds = DISC if rng.random() < 0.7 else rng.choice([["emb", "cat_logits", "gau"], ["gau"]])
    o = gen.random_opts(rng, kinds=kinds, monotone=monotone, regular=True, sd=True, nout=1, gau_lp_prob=0.7)
    o["nvars"] = rng.choice([1, 2, 2, 3])
    if o["prod"] == "any":
        o["prod"] = "had"
    o["K"] = rng.choice([1, 2])
    o["max_alt"] = 2
    sc, g = gen.gen_circuit(rng, **o)
    steps = []
    cur = sc
    depth = rng.choice([1, 2, 2, 3])
    for _ in range(depth):
        scope = sorted(cur.scope._set)
        ops = ["conjugate"]
        if scope:
            ops += ["integrate", "integrate", "evidence"] + (["integrate"] * 3 if "gau" in kinds else [])
        ops += ["multiply", "multiply", "concatenate"]
        op = rng.choice(ops)
        try:
            if op == "integrate":
                Z = sorted(rng.sample(scope, rng.randint(1, len(scope))))
                nxt = SF.integrate(cur, Scope(Z))
                steps.append(("integrate", nxt, [cur], {"Z": Z, "cont": any(g.doms[v][0] != "disc" for v in Z)}))
            elif op == "evidence":
                ov = sorted(rng.sample(scope, rng.randint(1, len(scope))))
                obs = {v: (rng.randrange(g.doms[v][1]) if g.doms[v][0] == "disc" else gen.dy(rng, 0, 4, 4)) for v in ov}
                nxt = SF.evidence(cur, obs)
                steps.append(("evidence", nxt, [cur], {"obs": obs}))
            elif op == "multiply":
                other = cur if rng.random() < 0.5 else gen.gen_circuit(rng, **dict(o, like=g))[0]
                if sorted(other.scope._set) != scope:
                    continue
                if max(l.num_output_units for l in cur.layers) * max(l.num_output_units for l in other.layers) > 64:
                    continue   # repeated products of Kronecker circuits: the unit-permutation matrices grow as (K1*K2)^(2*arity)
                nxt = SF.multiply(cur, other)
                steps.append(("multiply", nxt, [cur, other], {}))
            elif op == "concatenate":
                nxt = SF.concatenate([cur, cur])
                steps.append(("concatenate", nxt, [cur, cur], {}))
            else:
                nxt = SF.conjugate(cur)
                steps.append(("conjugate", nxt, [cur], {}))
            cur = nxt
        except Exception:
            continue
    return cur, steps, g, monotone, sc


def relation_ok(ctx, kind, derived, operands, meta, g, ys_all, sem, fold, opt):
    rest = sorted(derived.scope._set)
    ys = [{v: y[v] for v in rest} for y in ys_all] or [{}]
    if kind == "integrate" and meta.get("cont"):
        return True, {}   # continuous variables: the storage-identity and model-denotation checks apply, no brute-force sum
    if kind == "integrate":
        (c,) = operands
        w = evalc.width_of(c)
        got = opkit.eval_on(ctx, derived, ys, sem, w)
        exp = np.zeros(got.shape, dtype=complex if np.iscomplexobj(got) else float)
        for o_ in range(len(c.outputs)):
            so = c.layer_scope(c.outputs[o_])._set
            zas = all_assignments(g.doms, [v for v in meta["Z"] if v in so])
            for b, y in enumerate(ys):
                vals = opkit.eval_on(ctx, c, [{**y, **z} for z in zas], sem, w)
                exp[b, o_] = vals.sum(axis=0)[o_]
        return close(got, exp, rtol=1e-6, atol=1e-8), {"observed": got.tolist(), "expected": exp.tolist()}
    if kind == "multiply":
        return opkit.oracle_multiply(operands[0], operands[1], derived, ys, sem, fold, opt, ctx=ctx)
    if kind == "evidence":
        return opkit.oracle_evidence(operands[0], derived, meta["obs"], ys, sem, fold, opt, ctx=ctx)
    if kind == "conjugate":
        return opkit.oracle_conjugate(operands[0], derived, ys, sem, fold, opt, ctx=ctx)
    if kind == "concatenate":
        return opkit.oracle_concat(operands, derived, ys, sem, fold, opt, ctx=ctx)
    return True, {}


def one_case(rep, cs, seed, i):
    rng = rng_for(seed, PID, i)
    root, steps, g, monotone, base = build_pipeline(rng)
    if not steps:
        return
    sem = pick_semiring(rng, monotone)
    fold, opt = rng.choice(evalc.FLAGS)
    staged = rng.random() < 0.4
    desc = {"i": i, "seed": seed, "pipeline": [s[0] for s in steps], "sem": sem, "fold": fold, "opt": opt, "staged_two_contexts": staged, **g.desc}
    rep.count(f"two-contexts:{int(staged)}")
    rep.count(f"depth:{len(steps)}")
    for s in steps:
        rep.count("op:" + s[0])
    rep.count(f"flags:{int(fold)}{int(opt)}")
    allscope = sorted(base.scope._set)
    ys_all = gen.sample_inputs(rng, g.doms, allscope, 2, exhaustive_limit=4, nonneg=(sem == "lse-sum"))
    ops_all = pipeline_operands(root)
    leaves = tensor_leaves(ops_all)
    history = []
    try:
        ctx = evalc.make_ctx(sem, fold, opt)
        if staged:
            # the operands are compiled first; then ANOTHER context compiles the same symbolic circuits (and moves its own
            # tensors); only then are the derived circuits compiled in the first context: they must read the first context's tensors
            for c in ops_all:
                if c.operation is None:
                    ctx.compile(c)
            ctxB = evalc.make_ctx(sem, *rng.choice(evalc.FLAGS))
            ccB = ctxB.compile(root if rng.random() < 0.5 else base)
            with torch.no_grad():
                for p in ccB.parameters():
                    if p.requires_grad:
                        p.add_(torch.tensor(gen.dy(rng, 4, 12, 16), dtype=p.dtype))
        croot = ctx.compile(root)
        state = ctx._compiler.state
        base_ccs = [ctx.get_compiled_circuit(c) for c in ops_all if c.operation is None]
        own = set()
        for bc in base_ccs:
            own |= {p.data_ptr() for p in bc.parameters()}
        # no new learnable parameters: every trainable tensor reachable from a derived circuit is an operand's tensor
        for kind, derived, operands, meta in steps:
            cd = ctx.get_compiled_circuit(derived)
            extra = [tuple(p.shape) for p in cd.parameters() if p.requires_grad and p.data_ptr() not in own]
            if extra:
                rep.violation("derived-owns-learnable", f"the compiled {kind} circuit owns learnable tensors that are not its operands' tensors",
                              {"case": desc, "shapes": extra})
        saved = {id(bc): copy.deepcopy(bc.state_dict()) for bc in base_ccs}
        nsteps = rng.randint(2, 5)
        for t in range(nsteps + 1):
            if t > 0:
                act = rng.choice(["perturb", "perturb", "reset", "load"])
                history.append(act)
                rep.count("update:" + act)
                with torch.no_grad():
                    for bc in base_ccs:
                        if act == "perturb":
                            for p in bc.parameters():
                                if p.requires_grad:
                                    p.add_(torch.tensor(gen.dy(rng, 1, 3, 16), dtype=p.dtype))
                        elif act == "reset":
                            bc.reset_parameters()
                        else:
                            bc.load_state_dict(saved[id(bc)])
            for kind, derived, operands, meta in steps:
                ok, detail = relation_ok(ctx, kind, derived, operands, meta, g, ys_all, sem, fold, opt)
                if ok is False:
                    rep.violation(f"relation-broken:{kind}", f"after {history or ['compile']} the compiled {kind} circuit no longer satisfies its defining relation to its operand",
                                  {"case": desc, "history": list(history), **detail})
    except Exception as e:
        rep.violation("pipeline-exception:" + type(e).__name__, "compiling / updating / evaluating the pipeline raised",
                      {"case": desc, "history": history, "exception": repr(e)[:300], "traceback": traceback.format_exc()[-1500:]})
        return
    # model denotation of the root at the CURRENT tensor values (read through the registry)
    def leafval(p):
        if isinstance(p, P.ConstantParameter) or not state.has_compiled_parameter(p):
            return None
        t, k = state.retrieve_compiled_parameter(p)
        return t._ptensor.detach()[k].numpy()
    rest = sorted(root.scope._set)
    ys = [{v: y[v] for v in rest} for y in ys_all] or [{}]
    try:
        w = max(evalc.width_of(c) for c in ops_all)
        out = opkit.eval_on(ctx, root, ys, sem, w)
        ex = export.Exporter(leafval=leafval)
        tc = ex.circuit(root)
    except Exception as e:
        rep.violation("export-error", str(e)[:300], {"case": desc}, found_input=False)
        return
    if not np.all(np.isfinite(out)):
        return
    term = f"[den_vs {tc} {export.ex_asgs(ys)} {export.ex_vals(out)}; learn_subset {tc} [{export.Exporter(leafval=leafval).circuit(base)}]]"

    def interp(res, desc=desc, history=history):
        dv, ls = res
        rep.count(f"coq:den_vs={dv}")
        if dv == 0:
            rep.violation("derived-vs-denotation", "after the update history the compiled derived circuit differs from the model's denotation at the current tensor values",
                          {"case": desc, "history": history})

    cs.add(desc, term, interp, nontrivial=len(steps) >= 2)


def run(rep, tier, seed, replay=None):
    n = 50 if tier == "quick" else 600
    cs = CaseSet(rep, PID)
    if replay is not None:
        c = replay["replay"].get("case", {})
        one_case(rep, cs, c.get("seed", seed), c.get("i", 0))
        cs.run()
        return
    for i in range(n):
        one_case(rep, cs, seed, i)
    cs.run(shard=max(4, 50 // 14))  # shard size of the quick tier: thorough runs use more files, not longer ones
