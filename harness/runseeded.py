"""Run the checks against a seeded change: apply <dir>/patch.diff to /repo, run the listed checks (quick tier),
undo the change. Usage: runseeded.py <seeded-dir> [check ids ...]   (default: the property named in meta/notes)"""
import json
import os
import subprocess
import sys

VERIF = os.path.dirname(os.path.dirname(os.path.abspath(__file__)))
REPO = "/repo"


def sh(cmd, **kw):
    return subprocess.run(cmd, shell=True, capture_output=True, text=True, **kw)


def main():
    d = os.path.abspath(sys.argv[1])
    meta = {}
    for fn in ("meta.json", "notes.json"):
        p = os.path.join(d, fn)
        if os.path.exists(p):
            meta = json.load(open(p))
            break
    checks = sys.argv[2:] or [meta.get("property")]
    assert sh(f"git -C {REPO} status --porcelain").stdout.strip() == "", "repo not clean"
    r = sh(f"git -C {REPO} apply {d}/patch.diff")
    if r.returncode != 0:
        print("patch does not apply:", r.stderr[-400:])
        sys.exit(2)
    out = {}
    try:
        for c in checks:
            env = dict(os.environ)
            r = sh(f"./check {c} --tier quick", cwd=VERIF, env=env)
            v = [l for l in r.stdout.splitlines() if l.startswith("VIOLATION")]
            out[c] = {"exit": r.returncode, "violations": v, "tail": r.stdout.strip().splitlines()[-1:] }
            print(c, r.returncode, len(v), v[:2], flush=True)
    finally:
        sh(f"git -C {REPO} reset -q --hard HEAD")
        # the evidence written while the change was applied does not describe /repo: restore the committed files
        for c in checks:
            sh(f"git -C {VERIF} checkout -- evidence/{c}.json")
    json.dump(out, open(os.path.join(VERIF, ".work", "seeded_last.json"), "w"), indent=1)
    return out


if __name__ == "__main__":
    main()
