(* C10 — derived circuits introduce no learnable parameters
   Property theorems only: each is closed by `exact <lemma>`; proofs live in the imported files. *)
From Coq Require Import List ZArith QArith Qcanon Ring_theory Field_theory Permutation Sorted.
Import ListNotations.
From CK Require Import Base.
From CK Require Import Scalar.
From CK Require Import Tensor.
From CK Require Import Pexpr.
From CK Require Import Exec.
From CK Require Import Ops.
From CK Require Import Struct.
From CK Require Import OpsProps.
Close Scope Qc_scope. Close Scope Q_scope. Close Scope Z_scope. Open Scope nat_scope.

(* every learnable tensor of integrate(c) is a learnable tensor of c *)
Theorem C10_integrate :
  forall (Z : list nat) (c c' : circuit),
         integrate_m Z c = Ok c' -> forall x : nat, In x (learnable_ids c') -> In x (learnable_ids c).
Proof. exact integrate_no_new_learnable. Qed.
Print Assumptions C10_integrate.

(* every learnable tensor of multiply(a,b) belongs to a or to b *)
Theorem C10_multiply :
  forall a b p : circuit,
         multiply_m a b = Ok p ->
         forall x : nat, In x (learnable_ids p) -> In x (learnable_ids a) \/ In x (learnable_ids b).
Proof. exact multiply_no_new_learnable. Qed.
Print Assumptions C10_multiply.

(* idem for differentiate *)
Theorem C10_differentiate :
  forall (k : nat) (c c' : circuit),
         differentiate_m k c = Ok c' -> forall x : nat, In x (learnable_ids c') -> In x (learnable_ids c).
Proof. exact differentiate_no_new_learnable. Qed.
Print Assumptions C10_differentiate.

(* idem for conjugate *)
Theorem C10_conjugate :
  forall c c' : circuit,
         conjugate_m c = Ok c' -> forall x : nat, In x (learnable_ids c') -> In x (learnable_ids c).
Proof. exact conjugate_no_new_learnable. Qed.
Print Assumptions C10_conjugate.

(* idem for evidence *)
Theorem C10_evidence :
  forall (obs : asg) (c c' : circuit),
         evidence_m obs c = Ok c' -> forall x : nat, In x (learnable_ids c') -> In x (learnable_ids c).
Proof. exact evidence_no_new_learnable. Qed.
Print Assumptions C10_evidence.

(* every learnable tensor of concatenate(cs) belongs to an operand *)
Theorem C10_concatenate :
  forall (cs : list circuit) (c' : circuit),
         concatenate_m cs = Ok c' ->
         forall x : nat, In x (learnable_ids c') -> exists c : circuit, In c cs /\ In x (learnable_ids c).
Proof. exact concatenate_no_new_learnable. Qed.
Print Assumptions C10_concatenate.
