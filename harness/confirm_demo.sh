#!/bin/sh
cd /verif
for p in "$@"; do
  PYTHONHASHSEED=0 /venv/bin/python harness/confirmseeded.py seeded/$p --skip-tests > ".work/confirm_$p.json" 2>&1
  echo "$p $(tr '\n' ' ' < .work/confirm_$p.json | cut -c1-120)"
done
