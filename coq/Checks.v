(* Checks.v — comparison helpers used by the generated correspondence cases.
   Everything here is executable; results are small naturals the harness parses. *)
From Coq Require Import ZArith QArith Qcanon List Bool Arith Lia.
Import ListNotations.
From CK Require Import Base Scalar Tensor Pexpr Exec Ops.
Close Scope Qc_scope. Close Scope Q_scope. Close Scope Z_scope.
Open Scope nat_scope.

Definition qabs (q : Qc) : Qc := if Qle_bool q (Q2Qc 0) then (- q)%Qc else q.
Definition qmax (a b : Qc) : Qc := if Qle_bool a b then b else a.
Definition cabs1 (a : C) : Qc := (qabs (fst a) + qabs (snd a))%Qc.

(* |a - b| <= atol + rtol * max(|a|,|b|) *)
Definition cclose (rtol atol : Qc) (a b : C) : bool :=
  Qle_bool (cabs1 (csub a b)) (atol + rtol * qmax (cabs1 a) (cabs1 b))%Qc.
Definition vmaxabs (v : cvec) : Qc := fold_left (fun m x => qmax m (cabs1 x)) v (Q2Qc 0).
Definition mmaxabs (m : list cvec) : Qc := fold_left (fun a v => qmax a (vmaxabs v)) m (Q2Qc 1).

Definition RTOL : Qc := Q2Qc (1 # 10000000).        (* 1e-7 *)
Definition ATOL : Qc := Q2Qc (1 # 1000000000).      (* 1e-9, scaled by the magnitude of the case *)

Fixpoint vclose (rt at_ : Qc) (a b : cvec) : bool :=
  match a, b with
  | [], [] => true
  | x :: a', y :: b' => cclose rt at_ x y && vclose rt at_ a' b'
  | _, _ => false
  end.
Fixpoint mclose_ (rt at_ : Qc) (a b : list cvec) : bool :=
  match a, b with
  | [], [] => true
  | x :: a', y :: b' => vclose rt at_ x y && mclose_ rt at_ a' b'
  | _, _ => false
  end.
Definition mclose (a b : list cvec) : bool :=
  let s := qmax (mmaxabs a) (mmaxabs b) in mclose_ RTOL (ATOL * s)%Qc a b.

(* codes: 1 = agree, 0 = disagree, 2 = not evaluable in the model (unsupported / error) *)
Definition ocmp (a b : option (list cvec)) : nat :=
  match a, b with
  | Some x, Some y => if mclose x y then 1 else 0
  | _, _ => 2
  end.
Definition b2n (b : bool) : nat := if b then 1 else 0.
Fixpoint nmin (l : list nat) : nat :=     (* 0 dominates, then 2, then 1 *)
  match l with
  | [] => 1
  | x :: r => let m := nmin r in
              if (x =? 0) || (m =? 0) then 0 else if (x =? 2) || (m =? 2) then 2 else 1
  end.

(* agreement of two circuits on a list of assignments *)
Definition eq_den (c1 c2 : circuit) (ys : list asg) : nat :=
  let c1 := prep c1 in let c2 := prep c2 in
  nmin (map (fun y => ocmp (den c1 y) (den c2 y)) ys).
Definition eq_den_res (r : res circuit) (c2 : circuit) (ys : list asg) : nat :=
  match r with Ok c1 => eq_den c1 c2 ys | Err _ => 2 end.
(* agreement of a circuit with externally supplied values (one matrix outputs x units per assignment) *)
Definition den_vs (c : circuit) (ys : list asg) (vals : list (list cvec)) : nat :=
  let c := prep c in
  if length ys =? length vals then
    nmin (map (fun p => ocmp (den c (fst p)) (Some (snd p))) (combine ys vals))
  else 0.

(* error classification of a model result *)
Definition res_code {X} (r : res X) : nat :=
  match r with
  | Ok _ => 0 | Err EStruct => 1 | Err EValue => 2 | Err ENotImpl => 3 | Err ERule => 4 | Err EAssert => 5
  end.

(* ---------- brute-force specifications (discrete variables) ---------- *)
Fixpoint assignments (zs : list (nat * nat)) : list asg :=
  match zs with
  | [] => [[]]
  | (v, n) :: r => flat_map (fun x => map (fun a => (v, cofZ (Z.of_nat x)) :: a) (assignments r)) (seq 0 n)
  end.
Definition madd (a b : list cvec) : list cvec := map2 (vadd C cadd) a b.
Definition osum (l : list (option (list cvec))) : option (list cvec) :=
  match l with
  | [] => None
  | x :: r => fold_left (fun acc o => match acc, o with Some a, Some b => Some (madd a b) | _, _ => None end) r x
  end.
(* sum over all values of the variables in zs of den c (z ++ y) *)
Definition out_scopes (c : circuit) : list (list nat) := map (fun o => nth o (scopes c) []) (outs c).
(* each output is summed over the variables of zs that belong to its own scope *)
Definition bf_integral (c : circuit) (zs : list (nat * nat)) (y : asg) : option (list cvec) :=
  omap (fun p => let '(k, s) := p in
          do m <- osum (map (fun z => den c (z ++ y)) (assignments (filter (fun vz => smem (fst vz) s) zs)));
          Some (nth k m []))
       (combine (seq 0 (length (outs c))) (out_scopes c)).
Definition bf_integrate_check (c ci : circuit) (zs : list (nat * nat)) (ys : list asg) : nat :=
  let c := prep c in let ci := prep ci in
  nmin (map (fun y => ocmp (den ci y) (bf_integral c zs y)) ys).

(* products: output (i, j) = kron (out i of a) (out j of b) *)
Definition kron_outputs (a b : list cvec) : list cvec := pairs vkron a b.
Definition product_check (a b p : circuit) (ys : list asg) : nat :=
  let a := prep a in let b := prep b in let p := prep p in
  nmin (map (fun y => ocmp (den p y)
                         (match den a y, den b y with Some x, Some z => Some (kron_outputs x z) | _, _ => None end)) ys).

Definition conj_check (c cc : circuit) (ys : list asg) : nat :=
  let c := prep c in let cc := prep cc in
  nmin (map (fun y => ocmp (den cc y) (match den c y with Some m => Some (map (map cconj) m) | None => None end)) ys).

Definition evidence_check (c ce : circuit) (obs : asg) (ys : list asg) : nat :=
  let c := prep c in let ce := prep ce in
  nmin (map (fun y => ocmp (den ce y) (den c (obs ++ y))) ys).

Definition concat_check (cs : list circuit) (cc : circuit) (ys : list asg) : nat :=
  let cs := map prep cs in let cc := prep cc in
  nmin (map (fun y => ocmp (den cc y)
        (fold_right (fun c acc => match den c y, acc with Some m, Some r => Some (m ++ r) | _, _ => None end) (Some []) cs)) ys).

(* scopes as reported by the implementation vs the model *)
Definition scope_check (c : circuit) (s : list nat) : nat := b2n (seqb (cscope c) (canon s)).
Definition learn_subset (c : circuit) (ops : list circuit) : nat :=
  b2n (ssubset (learnable_ids c) (canon (flat_map learnable_ids ops))).

(* parameter expressions vs externally supplied tensors *)
Fixpoint tflat (t : tn) : cvec :=
  match t with Tensor.S c => [c] | Tensor.T l => flat_map tflat l end.
Definition pcmp (e : pexpr) (t : tn) : nat :=
  match peval e with
  | Some v => if list_eqb (tshape_of v) (tshape_of t) && tregular v then b2n (mclose [tflat v] [tflat t]) else 0
  | None => 2
  end.

(* central difference quotient of the model's exact evaluation vs externally supplied derivatives *)
Definition FRTOL : Qc := Q2Qc (1 # 10000).
Definition FATOL : Qc := Q2Qc (1 # 1000000).
Definition mclose_fd (a b : list cvec) : bool :=
  let s := qmax (mmaxabs a) (mmaxabs b) in mclose_ FRTOL (FATOL * s)%Qc a b.
Definition fd_check (cp cm : circuit) (ys : list asg) (inv2h : C) (g : list (list cvec)) : nat :=
  let cp := prep cp in let cm := prep cm in
  if length ys =? length g then
    nmin (map (fun p =>
                 match den cp (fst p), den cm (fst p) with
                 | Some a, Some b =>
                     let q := map2 (fun u v => map2 (fun x y => cmul inv2h (csub x y)) u v) a b in
                     if mclose_fd q (snd p) then 1 else 0
                 | _, _ => 2
                 end) (combine ys g))
  else 0.

(* chi-square statistic of observed counts against the model's exact probabilities (C15):
   sum (obs - N p)^2 / (N p) <= threshold, and no observation where p = 0 *)
Definition chi2_check (c : circuit) (xs : list asg) (counts : list Z) (N : Z) (thr : C) : nat :=
  let c := prep c in
  match omap (fun y => match den c y with Some [[p]] => Some p | _ => None end) xs with
  | None => 2
  | Some ps =>
      if length ps =? length counts then
        let n := cofZ N in
        let terms := map2 (fun p k =>
             let e := cmul n p in
             if Qle_bool (fst e) (Q2Qc 0) then (if Z.eqb k 0 then Some c0 else None)
             else let d := csub (cofZ k) e in Some (cdiv (cmul d d) e)) ps counts in
        match omap (fun x => x) terms with
        | None => 0                          (* a sample with zero probability *)
        | Some ts =>
            let stat := fold_left cadd ts c0 in
            let tot := fold_left cadd ps c0 in
            if cclose (Q2Qc (1 # 1000000)) (Q2Qc (1 # 1000000)) tot c1 then b2n (Qle_bool (fst stat) (fst thr)) else 3
        end
      else 0
  end.

Fixpoint NoDup_b (l : list nat) : bool :=
  match l with [] => true | x :: r => negb (existsb (Nat.eqb x) r) && NoDup_b r end.

(* constructors the generated files use *)
Definition q (n : Z) (d : positive) : C := cre (Q2Qc (n # d)).
Definition qc (n : Z) (d : positive) (n' : Z) (d' : positive) : C := (Q2Qc (n # d), Q2Qc (n' # d')).
Definition qq (n : Z) (d : positive) : Qc := Q2Qc (n # d).
Definition V (l : list C) : tn := of_vec l.
Definition M (l : list (list C)) : tn := of_mat l.
