"""Case sets: (description, Coq term, interpretation) triples evaluated by sharded coqc runs."""
import itertools
import random

import numpy as np

import common
import evalc
import export
import gen

HDR = "Close Scope Qc_scope. Close Scope Q_scope. Close Scope Z_scope. Open Scope nat_scope."


class CaseSet:
    def __init__(self, rep, pid):
        self.rep, self.pid = rep, pid
        self.items = []

    def add(self, desc, term, interp, nontrivial=True):
        self.items.append((desc, term, interp))
        self.rep.case(desc, nontrivial)

    def run(self, shard=25, timeout=900):
        if not self.items:
            return
        results, logs = common.run_cases(self.pid, [t for _, t, _ in self.items], header=HDR, shard=shard, timeout=timeout)
        nfail = 0
        for (desc, _, interp), res in zip(self.items, results):
            if res is None:
                nfail += 1
                self.rep.violation("coq-eval-failed", "a correspondence case file could not be evaluated by coqc",
                                   {"case": desc, "log": logs[:1]}, found_input=False)
                continue
            interp(res)
        self.rep.obligations += 1
        if nfail == 0:
            self.rep.discharged += 1


def rng_for(seed, pid, i):
    return random.Random(f"{seed}:{pid}:{i}")


def pick_semiring(rng, monotone, cplx=False):
    if cplx:
        return "complex-lse-sum"
    if monotone:
        return rng.choice(["sum-product", "lse-sum", "lse-sum", "complex-lse-sum"])
    return rng.choice(["sum-product", "sum-product", "complex-lse-sum"])


def close(a, b, rtol=1e-7, atol=1e-9):
    a, b = np.asarray(a), np.asarray(b)
    if a.shape != b.shape:
        return False
    s = max(1.0, float(np.max(np.abs(a))) if a.size else 1.0, float(np.max(np.abs(b))) if b.size else 1.0)
    return bool(np.all(np.abs(a - b) <= atol * s + rtol * np.maximum(np.abs(a), np.abs(b))))


def cplx_ok(sem):
    return sem != "lse-sum"


def all_assignments(doms, vs):
    vs = sorted(vs)
    return [dict(zip(vs, c)) for c in itertools.product(*[range(doms[v][1]) for v in vs])]
