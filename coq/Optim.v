(* Optim.v — the algebraic identities behind cirkit's layer / parameter optimisation rules
   (cirkit/backend/torch/optimization/{layers,parameters}.py), over the abstract commutative
   semiring of Base.v.  Each fused layer is a Gallina function mirroring the einsum of the fused
   torch layer; each theorem says: fused computation = composition of the unfused layers.

     1. SumCollapse          apply_sum_collapse          sum_collapse, sum_collapse_node, mm_entry
     2. Tucker               apply_tucker                tucker_fuse, tucker_fuse3, tucker_fuse_n
     3. Candecomp (CP-T)     apply_candecomp             candecomp_fuse2, candecomp_fuse
     4. TensorDot            _apply_tensordot_rule       mkron_mixed, tdot_kron_split, dense_tensordot,
                                                         mv_kron_id_l, mv_kron_id_r, tdot_is_kron_id
     5. ReduceSum∘OuterProd  apply_sum_outer_prod_einsum reduce1_outer0, reduce0_outer0,
                                                         reduce1_outer1, reduce0_outer1
        Log∘Softmax          apply_log_softmax           log_softmax_fuse                              *)
From Coq Require Import List Lia Ring Ring_theory Bool Arith ZArith.
Import ListNotations.
From CK Require Import Base Circ Multiply Algebra.
#[local] Arguments NSum {R D} W ins.

Section Optim.
Variable R : Type.
Variables (rO rI : R) (radd rmul : R -> R -> R).
Hypothesis Rth : semi_ring_theory rO rI radd rmul (@eq R).
Add Ring Rring : Rth.
Infix "+" := radd. Infix "*" := rmul.
Notation "0" := rO. Notation "1" := rI.
Notation vec := (vec R).
Notation dot := (dot R rO radd rmul).
Notation had := (had R rmul).
Notation kron := (kron R rmul).
Notation scale := (scale R rmul).
Notation vadd := (vadd R radd).
Notation vsum := (vsum R rO radd).
Notation hadn := (hadn R rmul).
Notation kronn := (kronn R rmul).
Notation prodl := (prodl R rI rmul).
Notation col := (col R rO).
Notation block := (@block R).

(* ====================================================================== *)
(* 0. finite sums, tabulated vectors                                       *)
(* ====================================================================== *)
Definition sig (n : nat) (f : nat -> R) : R := vsum (map f (seq 0 n)).
Definition tab {A} (n : nat) (f : nat -> A) : list A := map f (seq 0 n).
Definition tab2 {A} (n m : nat) (f : nat -> nat -> A) : list A := flat_map (fun i => tab m (f i)) (seq 0 n).
(* a sum layer: weight matrix (list of rows) applied to a vector *)
Definition mv (W : list vec) (x : vec) : vec := map (fun w => dot w x) W.
Definition rows (n : nat) (M : list vec) : Prop := forall r, In r M -> length r = n.

Lemma vsum_app (a b : vec) : vsum (a ++ b) = vsum a + vsum b.
Proof. induction a as [|x a IH]; simpl; [ring | rewrite IH; ring]. Qed.

Lemma sig_S n f : sig (S n) f = f 0%nat + sig n (fun k => f (S k)).
Proof. unfold sig. cbn [seq map Base.vsum]. rewrite <- seq_shift, map_map. reflexivity. Qed.
Lemma sig_Sr n f : sig (S n) f = sig n f + f n.
Proof. unfold sig. rewrite seq_S, map_app, vsum_app. simpl. ring. Qed.
Lemma sig_ext n f g : (forall k, k < n -> f k = g k) -> sig n f = sig n g.
Proof. intros H. unfold sig. f_equal. apply map_ext_in. intros k Hk. apply in_seq in Hk. apply H. lia. Qed.
Lemma sig_zero n : sig n (fun _ => 0) = 0.
Proof. induction n as [|n IH]; [reflexivity|]. rewrite sig_S, IH. ring. Qed.
Lemma sig_add n f g : sig n (fun k => f k + g k) = sig n f + sig n g.
Proof. revert f g; induction n as [|n IH]; intros f g; [unfold sig; simpl; ring|].
  rewrite !sig_S, IH. ring. Qed.
Lemma sig_scal n c f : sig n (fun k => c * f k) = c * sig n f.
Proof. revert f; induction n as [|n IH]; intros f; [unfold sig; simpl; ring|].
  rewrite !sig_S, IH. ring. Qed.
Lemma sig_swap n m (f : nat -> nat -> R) :
  sig n (fun i => sig m (fun j => f i j)) = sig m (fun j => sig n (fun i => f i j)).
Proof. revert f; induction n as [|n IH]; intros f.
  - unfold sig at 1. simpl. symmetry. apply sig_zero.
  - rewrite sig_S, IH, <- sig_add. apply sig_ext. intros j _. rewrite sig_S. reflexivity. Qed.
Lemma sig_plus a b f : sig (a + b) f = sig a f + sig b (fun k => f (a + k)%nat).
Proof. unfold sig. rewrite seq_app, map_app, vsum_app. f_equal. simpl.
  rewrite (seq_add_map a b), map_map. reflexivity. Qed.
Lemma sig_mul n m f : sig (n * m) f = sig n (fun i => sig m (fun j => f (i * m + j)%nat)).
Proof. revert f; induction n as [|n IH]; intros f; [reflexivity|].
  change (S n * m)%nat with (m + n * m)%nat. rewrite sig_plus, IH, sig_S. f_equal.
  apply sig_ext. intros i _. apply sig_ext. intros j _. f_equal. lia. Qed.
Lemma sig_delta n q f : q < n -> sig n (fun j => (if Nat.eqb q j then 1 else 0) * f j) = f q.
Proof. induction n as [|n IH]; intros Hq; [lia|]. rewrite sig_Sr.
  destruct (Nat.eq_dec q n) as [->|Hne].
  - rewrite Nat.eqb_refl. rewrite (sig_ext n _ (fun _ => 0)).
    + rewrite sig_zero. ring.
    + intros k Hk. destruct (Nat.eqb_spec n k); [lia | ring].
  - rewrite IH by lia. destruct (Nat.eqb_spec q n); [lia | ring]. Qed.

Lemma length_tab {A} n (f : nat -> A) : length (tab n f) = n.
Proof. unfold tab. rewrite map_length, seq_length. reflexivity. Qed.
Lemma nth_tab {A} n (f : nat -> A) d k : k < n -> nth k (tab n f) d = f k.
Proof. intros H. unfold tab. apply nth_map_seq. exact H. Qed.
Lemma tab_ext {A} n (f g : nat -> A) : (forall k, k < n -> f k = g k) -> tab n f = tab n g.
Proof. intros H. unfold tab. apply map_ext_in. intros k Hk. apply in_seq in Hk. apply H. lia. Qed.
Lemma map_as_tab {A B} (f : A -> B) (l : list A) d : map f l = tab (length l) (fun k => f (nth k l d)).
Proof. unfold tab. transitivity (map f (map (fun k => nth k l d) (seq 0 (length l)))).
  - rewrite map_nth_seq. reflexivity.
  - apply map_map. Qed.
Lemma list_as_tab {A} (l : list A) d : l = tab (length l) (fun k => nth k l d).
Proof. unfold tab. symmetry. apply map_nth_seq. Qed.
Lemma flat_map_map {A B C} (h : A -> B) (g : B -> list C) l : flat_map g (map h l) = flat_map (fun a => g (h a)) l.
Proof. induction l as [|a l IH]; simpl; [reflexivity | rewrite IH; reflexivity]. Qed.
Lemma flat_map_flat_map {A B C} (g : A -> list B) (h : B -> list C) l :
  flat_map h (flat_map g l) = flat_map (fun a => flat_map h (g a)) l.
Proof. induction l as [|a l IH]; simpl; [reflexivity|]. rewrite flat_map_app, IH. reflexivity. Qed.
Lemma flat_map_as_tab {A B} (g : A -> list B) (l : list A) d :
  flat_map g l = flat_map (fun k => g (nth k l d)) (seq 0 (length l)).
Proof. rewrite (list_as_tab l d) at 1. unfold tab. apply flat_map_map. Qed.

Lemma length_tab2 {A} n m (f : nat -> nat -> A) : length (tab2 n m f) = (n * m)%nat.
Proof. unfold tab2. rewrite (length_flat_map_block _ m) by (intros; apply length_tab).
  rewrite seq_length. reflexivity. Qed.
Lemma nth_tab2 {A} n m (f : nat -> nat -> A) d i j : i < n -> j < m -> nth (i * m + j) (tab2 n m f) d = f i j.
Proof. intros Hi Hj. unfold tab2.
  rewrite (nth_flat_map_block _ m d 0%nat) by (try (intros; apply length_tab); rewrite ?seq_length; assumption).
  rewrite seq_nth by exact Hi. apply nth_tab. exact Hj. Qed.
Lemma tab2_ext {A} n m (f g : nat -> nat -> A) :
  (forall i j, i < n -> j < m -> f i j = g i j) -> tab2 n m f = tab2 n m g.
Proof. intros H. unfold tab2. apply flat_map_ext_in. intros i Hi. apply in_seq in Hi.
  apply tab_ext. intros j Hj. apply H; lia. Qed.
Lemma tab2_S {A} n m (f : nat -> nat -> A) : tab2 (S n) m f = tab m (f 0%nat) ++ tab2 n m (fun i => f (S i)).
Proof. unfold tab2. cbn [seq flat_map]. f_equal. rewrite <- seq_shift, flat_map_map. reflexivity. Qed.
Lemma tab_plus {A} a b (f : nat -> A) : tab (a + b) f = tab a f ++ tab b (fun k => f (a + k)%nat).
Proof. unfold tab. rewrite seq_app, map_app. f_equal. simpl. rewrite (seq_add_map a b), map_map. reflexivity. Qed.
Lemma tab_mul {A} n m (f : nat -> A) : tab (n * m) f = tab2 n m (fun i j => f (i * m + j)%nat).
Proof. revert f; induction n as [|n IH]; intros f; [reflexivity|].
  change (S n * m)%nat with (m + n * m)%nat. rewrite tab_plus, IH, tab2_S. f_equal.
  apply tab2_ext. intros i j _ _. f_equal. lia. Qed.
Lemma seq_mul n m : seq 0 (n * m) = tab2 n m (fun i j => (i * m + j)%nat).
Proof. rewrite <- (tab_mul n m (fun k => k)). unfold tab. symmetry. apply map_id. Qed.
Lemma flat_map_seq_mul {B} (F : nat -> list B) n m :
  flat_map F (seq 0 (n * m)) = flat_map (fun i => flat_map (fun j => F (i * m + j)%nat) (seq 0 m)) (seq 0 n).
Proof. rewrite seq_mul. unfold tab2. rewrite flat_map_flat_map. apply flat_map_ext_in. intros i _.
  unfold tab. apply flat_map_map. Qed.

(* dot products as finite sums; out-of-range entries read as 0, so no shape hypothesis is needed *)
Lemma dot_comm (w v : vec) : dot w v = dot v w.
Proof. revert v; induction w as [|a w IH]; intros [|b v]; simpl; try reflexivity. rewrite IH. ring. Qed.
Lemma dot_sig_l (w v : vec) : dot w v = sig (length w) (fun k => nth k w 0 * nth k v 0).
Proof. apply (dot_nth_sum R rO rI radd rmul Rth). Qed.
Lemma dot_sig_r (w v : vec) : dot w v = sig (length v) (fun k => nth k w 0 * nth k v 0).
Proof. rewrite dot_comm, dot_sig_l. apply sig_ext. intros; ring. Qed.
Lemma dot_tab_r (w : vec) n f : dot w (tab n f) = sig n (fun k => nth k w 0 * f k).
Proof. rewrite dot_sig_r, length_tab. apply sig_ext. intros k Hk. rewrite nth_tab by exact Hk. reflexivity. Qed.
Lemma mv_tab W x : mv W x = tab (length W) (fun k => dot (nth k W []) x).
Proof. unfold mv. apply (map_as_tab (fun w => dot w x) W []). Qed.
Lemma length_mv W x : length (mv W x) = length W.
Proof. apply map_length. Qed.

(* Kronecker product of vectors, tabulated: entry (i,j) at i*|y|+j is x_i * y_j *)
Lemma scale_tab a (y : vec) : scale a y = tab (length y) (fun j => a * nth j y 0).
Proof. unfold Base.scale. apply (map_as_tab (rmul a) y 0). Qed.
Lemma kron_tab2 (x y : vec) : kron x y = tab2 (length x) (length y) (fun i j => nth i x 0 * nth j y 0).
Proof. induction x as [|a x IH]; [reflexivity|].
  rewrite (kron_cons R rmul). cbn [length]. rewrite tab2_S, IH, scale_tab. reflexivity. Qed.
Lemma nth_kron_ij (x y : vec) i j : j < length y -> nth (i * length y + j) (kron x y) 0 = nth i x 0 * nth j y 0.
Proof. intros Hj. destruct (Nat.lt_ge_cases i (length x)) as [Hi|Hi].
  - rewrite kron_tab2. apply (nth_tab2 (length x) (length y) (fun i j => nth i x 0 * nth j y 0)); assumption.
  - rewrite nth_overflow by (rewrite (length_kron R rmul); nia).
    rewrite (nth_overflow x) by exact Hi. ring. Qed.
Lemma dot_kron_sig (u v z : vec) :
  dot (kron u v) z = sig (length u) (fun i => sig (length v) (fun j => nth i u 0 * nth j v 0 * nth (i * length v + j) z 0)).
Proof. rewrite dot_sig_l, (length_kron R rmul), sig_mul. apply sig_ext. intros i _. apply sig_ext. intros j Hj.
  rewrite nth_kron_ij by exact Hj. reflexivity. Qed.

(* ====================================================================== *)
(* 1. SumCollapse:  W2 (W1 x) = (W2 W1) x                                   *)
(* ====================================================================== *)
(* row a of A times the matrix B = the linear combination of the rows of B with coefficients a *)
Fixpoint lincomb (a : vec) (B : list vec) : vec :=
  match a, B with x :: a', r :: B' => vadd (scale x r) (lincomb a' B') | _, _ => [] end.
(* matrix product, matrices as lists of rows  (torch.matmul in the MatMul parameter node) *)
Definition mm (A B : list vec) : list vec := map (fun a => lincomb a B) A.

Lemma dot_vadd (u v x : vec) : dot (vadd u v) x = dot u x + dot v x.
Proof. revert v x; induction u as [|a u IH]; intros v x; [simpl; ring|].
  destruct v as [|b v]; [destruct x; simpl; ring|].
  destruct x as [|c x]; [simpl; ring|]. simpl. rewrite IH. ring. Qed.
Lemma dot_scale_l c (u x : vec) : dot (scale c u) x = c * dot u x.
Proof. revert x; induction u as [|a u IH]; intros [|b x]; simpl; try ring.
  change (map (rmul c) u) with (scale c u). rewrite IH. ring. Qed.
Lemma dot_lincomb (a : vec) (B : list vec) x : dot (lincomb a B) x = dot a (mv B x).
Proof. revert B; induction a as [|c a IH]; intros [|r B]; simpl; try reflexivity.
  - rewrite dot_vadd, dot_scale_l, IH. reflexivity. Qed.

(* no shape hypothesis at all is needed *)
Theorem sum_collapse (W2 W1 : list vec) (x : vec) : mv (mm W2 W1) x = mv W2 (mv W1 x).
Proof. unfold mv at 1 2, mm. rewrite map_map. apply map_ext. intros a. apply dot_lincomb. Qed.

(* mm really is the matrix product: entry (i,j) = Σ_k A[i,k] B[k,j] *)
Lemma nth_vadd k (u v : vec) : nth k (vadd u v) 0 = nth k u 0 + nth k v 0.
Proof. revert k v; induction u as [|a u IH]; intros k v.
  - destruct k; simpl; ring.
  - destruct v as [|b v]; [destruct k; simpl; ring|].
    destruct k; simpl; [reflexivity | apply IH]. Qed.
Lemma nth_lincomb j (a : vec) (B : list vec) : nth j (lincomb a B) 0 = dot a (col j B).
Proof. revert B; induction a as [|c a IH]; intros [|r B]; simpl; try apply (nth_nil0 R rO).
  rewrite nth_vadd, (nth_scale R rO rI radd rmul Rth), IH. reflexivity. Qed.
Theorem mm_entry (A B : list vec) i j : nth j (nth i (mm A B) []) 0 = dot (nth i A []) (col j B).
Proof. unfold mm.
  replace (nth i (map (fun a => lincomb a B) A) []) with (lincomb (nth i A []) B)
    by (symmetry; exact (map_nth (fun a => lincomb a B) A [] i)).
  apply nth_lincomb. Qed.
Lemma length_mm A B : length (mm A B) = length A.
Proof. apply map_length. Qed.
Lemma length_vadd (u v : vec) : length (vadd u v) = Nat.max (length u) (length v).
Proof. revert v; induction u as [|a u IH]; intros [|b v]; simpl; auto. Qed.
Lemma length_lincomb_le n (a : vec) B : rows n B -> length (lincomb a B) <= n.
Proof. revert B; induction a as [|c a IH]; intros [|r B] H; simpl; try lia.
  rewrite length_vadd, (length_scale R rmul), (H r) by (simpl; auto).
  assert (length (lincomb a B) <= n) by (apply IH; intros r' Hr'; apply H; simpl; auto). lia. Qed.
Lemma rows_mm n (A B : list vec) : rows n B -> B <> [] -> (forall a, In a A -> a <> []) -> rows n (mm A B).
Proof. intros HB Hne HA r Hr. unfold mm in Hr. apply in_map_iff in Hr. destruct Hr as [a [<- Ha]].
  apply HA in Ha. destruct a as [|c a]; [congruence|]. destruct B as [|r B]; [congruence|]. simpl.
  rewrite length_vadd, (length_scale R rmul), (HB r) by (simpl; auto).
  assert (length (lincomb a B) <= n) by (apply length_lincomb_le; intros r' Hr'; apply HB; simpl; auto). lia. Qed.

Lemma length_col s (M : list vec) : length (col s M) = length M.
Proof. apply map_length. Qed.
Lemma nth_col j s (M : list vec) : nth j (col s M) 0 = nth s (nth j M []) 0.
Proof. unfold Algebra.col. destruct (Nat.lt_ge_cases j (length M)) as [H|H].
  - rewrite (nth_indep _ 0 ((fun row : vec => nth s row 0) [])) by (rewrite map_length; exact H).
    apply (map_nth (fun row : vec => nth s row 0)).
  - rewrite (nth_overflow (map _ M)) by (rewrite map_length; exact H).
    rewrite (nth_overflow M) by exact H. symmetry. apply (nth_nil0 R rO). Qed.
(* the textbook (tabulated) matrix product with a declared number n of columns; it agrees with [mm]
   on well-shaped operands, and the collapse holds as soon as W1 really has n columns *)
Definition mmt (n : nat) (A B : list vec) : list vec := map (fun a => tab n (fun j => dot a (col j B))) A.
Theorem mm_mmt n (A B : list vec) : rows n B -> B <> [] -> (forall a, In a A -> a <> []) -> mm A B = mmt n A B.
Proof. intros HB Hne HA. unfold mmt. unfold mm at 1. apply map_ext_in. intros a Ha.
  assert (L : length (lincomb a B) = n) by (apply (rows_mm n A B HB Hne HA); exact (in_map (fun a => lincomb a B) A a Ha)).
  apply (list_eq_nth0 R rO); [rewrite length_tab; exact L|]. intros k.
  destruct (Nat.lt_ge_cases k n) as [Hk|Hk].
  - rewrite nth_tab by exact Hk. apply nth_lincomb.
  - rewrite !nth_overflow by (rewrite ?length_tab, ?L; exact Hk). reflexivity. Qed.
Theorem sum_collapse_explicit n (W2 W1 : list vec) (x : vec) : rows n W1 ->
  mv (mmt n W2 W1) x = mv W2 (mv W1 x).
Proof. intros H1. unfold mv at 1 2, mmt. rewrite map_map. apply map_ext. intros a.
  rewrite dot_comm, dot_tab_r, (dot_sig_r a (mv W1 x)), length_mv.
  rewrite (sig_ext n _ (fun j => sig (length W1) (fun k => nth k a 0 * (nth j (nth k W1 []) 0 * nth j x 0)))).
  - rewrite sig_swap. apply sig_ext. intros k Hk. rewrite sig_scal. f_equal.
    rewrite mv_tab, nth_tab by exact Hk. rewrite dot_sig_l, (H1 (nth k W1 [])) by (apply nth_In; exact Hk).
    reflexivity.
  - intros j _. rewrite dot_sig_r, length_col, <- sig_scal. apply sig_ext. intros k _. rewrite nth_col. ring. Qed.

(* circuit-level form: the (arity-1) sum W2 over the output of the sum layer NSum W1 ins (any arity)
   is the single sum layer NSum (W2 W1) ins *)
Theorem sum_collapse_node (D : Type) (W2 W1 : list vec) (ins : list nat) (y : asg D) (vals : list vec) :
  eval_node R rO radd rmul D (NSum (mm W2 W1) ins) y vals
  = mv W2 (eval_node R rO radd rmul D (NSum W1 ins) y vals).
Proof. cbn [Circ.eval_node]. apply sum_collapse. Qed.

(* ====================================================================== *)
(* 2. Tucker:  W (a ⊗ b) = einsum "i,j,oij->o" with W viewed as (Ko,K1,K2)  *)
(* ====================================================================== *)
Definition tucker2l (W : list vec) (a b : vec) : vec :=
  map (fun g => sig (length a) (fun i => sig (length b) (fun j =>
         nth (i * length b + j) g 0 * (nth i a 0 * nth j b 0)))) W.
Theorem tucker_fuse (W : list vec) (a b : vec) : mv W (kron a b) = tucker2l W a b.
Proof. unfold mv, tucker2l. apply map_ext. intros g. rewrite dot_comm, dot_kron_sig.
  apply sig_ext. intros i _. apply sig_ext. intros j _. ring. Qed.

Definition tucker3l (W : list vec) (a b c : vec) : vec :=
  map (fun g => sig (length a) (fun i => sig (length b) (fun j => sig (length c) (fun k =>
         nth ((i * length b + j) * length c + k) g 0 * (nth i a 0 * nth j b 0 * nth k c 0))))) W.
Theorem tucker_fuse3 (W : list vec) (a b c : vec) : mv W (kronn [a; b; c]) = tucker3l W a b c.
Proof. unfold mv, tucker3l. apply map_ext. intros g. cbn [Circ.kronn fold_left].
  rewrite dot_comm, dot_kron_sig, (length_kron R rmul), sig_mul.
  apply sig_ext. intros i _. apply sig_ext. intros j Hj. apply sig_ext. intros k _.
  rewrite nth_kron_ij by exact Hj. ring. Qed.

(* any arity: the flat index k of the (Ko, K1, ..., Kn) view decodes into the mixed-radix digits kidx *)
Definition tuckern (W : list vec) (xs : list vec) : vec :=
  map (fun g => sig (fold_right Nat.mul 1%nat (map (@length R) xs)) (fun k =>
         nth k g 0 * prodl (map (fun p => nth (snd p) (fst p) 0) (combine xs (kidx (map (@length R) xs) k))))) W.
Theorem tucker_fuse_n (W : list vec) (xs : list vec) : xs <> [] -> mv W (kronn xs) = tuckern W xs.
Proof. intros Hne. unfold mv, tuckern. apply map_ext. intros g.
  rewrite dot_sig_r, (length_kronn R rmul) by exact Hne. apply sig_ext. intros k _.
  rewrite (nth_kronn R rO rI radd rmul Rth) by exact Hne. reflexivity. Qed.

(* ====================================================================== *)
(* 3. Candecomp / CP-T:  W (a ⊙ b) = einsum "i,i,oi->o"                     *)
(* ====================================================================== *)
Definition cpt2 (W : list vec) (a b : vec) : vec :=
  map (fun w => sig (length w) (fun i => nth i w 0 * (nth i a 0 * nth i b 0))) W.
Theorem candecomp_fuse2 (W : list vec) (a b : vec) : mv W (had a b) = cpt2 W a b.
Proof. unfold mv, cpt2. apply map_ext. intros w. rewrite dot_sig_l. apply sig_ext. intros i _.
  rewrite (nth_had R rO rI radd rmul Rth). reflexivity. Qed.
Definition cptn (W : list vec) (xs : list vec) : vec :=
  map (fun w => sig (length w) (fun k => nth k w 0 * prodl (map (fun a => nth k a 0) xs))) W.
Theorem candecomp_fuse (W : list vec) (xs : list vec) : xs <> [] -> mv W (hadn xs) = cptn W xs.
Proof. intros Hne. unfold mv, cptn. apply map_ext. intros w. rewrite dot_sig_l. apply sig_ext. intros k _.
  rewrite (nth_hadn R rO rI radd rmul Rth) by exact Hne. reflexivity. Qed.

(* ====================================================================== *)
(* 4. TensorDot rules                                                      *)
(* ====================================================================== *)
(* Kronecker product of matrices, torch.kron order (the Kronecker parameter node):
   row (i,k) at i*|B|+k is kron A_i B_k, i.e. entry [i*|B|+k, j*b1+l] = A[i,j] * B[k,l] *)
Definition mkron (A B : list vec) : list vec := flat_map (fun ra => map (fun rb => kron ra rb) B) A.

Lemma length_mkron A B : length (mkron A B) = (length A * length B)%nat.
Proof. unfold mkron. apply length_flat_map_block. intros; apply map_length. Qed.
Lemma nth_mkron A B i k : i < length A -> k < length B ->
  nth (i * length B + k) (mkron A B) [] = kron (nth i A []) (nth k B []).
Proof. intros Hi Hk. unfold mkron.
  rewrite (nth_flat_map_block _ (length B) [] []) by (try (intros; apply map_length); assumption).
  rewrite (nth_indep _ [] (kron (nth i A []) [])) by (rewrite map_length; exact Hk).
  exact (map_nth (fun rb => kron (nth i A []) rb) B [] k). Qed.
Theorem mkron_entry A B b1 i k j l : rows b1 B -> i < length A -> k < length B -> l < b1 ->
  nth (j * b1 + l) (nth (i * length B + k) (mkron A B) []) 0 = nth j (nth i A []) 0 * nth l (nth k B []) 0.
Proof. intros HB Hi Hk Hl. rewrite nth_mkron by assumption.
  assert (E : length (nth k B []) = b1) by (apply HB, nth_In, Hk). rewrite <- E. apply nth_kron_ij. lia. Qed.
Lemma rows_mkron a1 b1 A B : rows a1 A -> rows b1 B -> rows (a1 * b1) (mkron A B).
Proof. intros HA HB r Hr. unfold mkron in Hr. apply in_flat_map in Hr. destruct Hr as [ra [Hra Hr]].
  apply in_map_iff in Hr. destruct Hr as [rb [<- Hrb]].
  rewrite (length_kron R rmul), (HA ra), (HB rb) by assumption. reflexivity. Qed.

(* mixed-product property at matrix level: (A ⊗ B)(x ⊗ y) = (A x) ⊗ (B y) *)
Theorem mkron_mixed A B (x y : vec) : rows (length x) A -> rows (length y) B ->
  mv (mkron A B) (kron x y) = kron (mv A x) (mv B y).
Proof. intros HA HB. unfold mv, mkron. rewrite (kron_map_dot R rO radd rmul), map_flat_map.
  apply flat_map_ext_in. intros ra Hra. rewrite map_map. apply map_ext_in. intros rb Hrb.
  apply (dot_kron R rO rI radd rmul Rth); [apply HA | apply HB]; assumption. Qed.

(* TorchTensorDotLayer.forward: x (Ki = Kj*Kq) is reshaped to (Kj, Kq) (Kj = weight.shape[1] major),
   permuted to (Kq, Kj), einsum "qj,kj->qk" with the weight (Kk, Kj), output flattened (Kq, Kk):
       out[q*Kk + k] = Σ_j W[k,j] * x[j*Kq + q]                                                     *)
Definition xcol (Kj Kq : nat) (x : vec) (q : nat) : vec := tab Kj (fun j => nth (j * Kq + q) x 0).
Definition tdot (Kj Kq : nat) (W : list vec) (x : vec) : vec :=
  flat_map (fun q => mv W (xcol Kj Kq x q)) (seq 0 Kq).

Lemma tdot_tab2 Kj Kq W x :
  tdot Kj Kq W x = tab2 Kq (length W) (fun q k => dot (nth k W []) (xcol Kj Kq x q)).
Proof. unfold tdot, tab2. apply flat_map_ext_in. intros q _. apply mv_tab. Qed.
Lemma length_tdot Kj Kq W x : length (tdot Kj Kq W x) = (Kq * length W)%nat.
Proof. rewrite tdot_tab2. apply length_tab2. Qed.
Lemma dot_xcol (w : vec) Kj Kq x q : dot w (xcol Kj Kq x q) = sig Kj (fun j => nth j w 0 * nth (j * Kq + q) x 0).
Proof. apply dot_tab_r. Qed.
Theorem tdot_entry Kj Kq W x q k : q < Kq -> k < length W ->
  nth (q * length W + k) (tdot Kj Kq W x) 0 = sig Kj (fun j => nth j (nth k W []) 0 * nth (j * Kq + q) x 0).
Proof. intros Hq Hk. rewrite tdot_tab2, nth_tab2 by assumption. apply dot_xcol. Qed.

(* a sum layer is the tensor-dot layer with no batch units (Kq = 1) *)
Theorem tdot_dense Kj W x : rows Kj W -> tdot Kj 1 W x = mv W x.
Proof. intros HW. unfold tdot. cbn [seq flat_map]. rewrite app_nil_r. unfold mv. apply map_ext_in.
  intros w Hw. rewrite dot_xcol, dot_sig_l, (HW w Hw). apply sig_ext. intros j _. do 2 f_equal. lia. Qed.

(* _apply_tensordot_rule, general form (apply_tensordot_tensordot): a tensor-dot layer whose weight is
   W1 ⊗ W2 (W1 : a0 x a1, W2 : b0 x b1, Kq batch units) is the composition of the tensor-dot layer
   of W1 (num_inner_units = a0 * (Ki / a1) = a0 * b1 * Kq) followed by the tensor-dot layer of W2 *)
Theorem tdot_kron_split a0 a1 b1 Kq (W1 W2 : list vec) (x : vec) :
  length W1 = a0 -> rows a1 W1 -> rows b1 W2 ->
  tdot (a1 * b1) Kq (mkron W1 W2) x = tdot b1 (a0 * Kq) W2 (tdot a1 (b1 * Kq) W1 x).
Proof. intros L1 H1 H2. unfold tdot at 1 2.
  rewrite (Nat.mul_comm a0 Kq), flat_map_seq_mul.
  apply flat_map_ext_in. intros q Hq. apply in_seq in Hq.
  unfold mv at 1, mkron. rewrite map_flat_map, (flat_map_as_tab _ W1 []), L1.
  apply flat_map_ext_in. intros i Hi. apply in_seq in Hi.
  rewrite map_map. unfold mv. apply map_ext_in. intros rb Hrb.
  set (ra := nth i W1 []).
  assert (La : length ra = a1) by (apply H1, nth_In; lia).
  assert (Lb : length rb = b1) by (apply H2, Hrb).
  transitivity (sig a1 (fun j1 => sig b1 (fun j2 =>
                  nth j1 ra 0 * nth j2 rb 0 * nth ((j1 * b1 + j2) * Kq + q) x 0))).
  - rewrite dot_kron_sig, La, Lb. apply sig_ext. intros j1 Hj1. apply sig_ext. intros j2 Hj2. f_equal.
    unfold xcol. rewrite nth_tab by nia. reflexivity.
  - rewrite dot_xcol, sig_swap. apply sig_ext. intros j2 Hj2.
    replace (j2 * (Kq * a0) + (q * a0 + i))%nat with ((j2 * Kq + q) * a0 + i)%nat by ring.
    rewrite tdot_tab2, L1, nth_tab2 by nia. fold ra. rewrite dot_xcol, <- sig_scal.
    apply sig_ext. intros j1 Hj1.
    replace ((j1 * b1 + j2) * Kq + q)%nat with (j1 * (b1 * Kq) + (j2 * Kq + q))%nat by ring. ring. Qed.

(* apply_dense_tensordot: a sum layer (arity 1) with weight W1 ⊗ W2 = two tensor-dot layers *)
Theorem dense_tensordot a0 a1 b1 (W1 W2 : list vec) (x : vec) :
  length W1 = a0 -> rows a1 W1 -> rows b1 W2 ->
  mv (mkron W1 W2) x = tdot b1 a0 W2 (tdot a1 b1 W1 x).
Proof. intros L1 H1 H2. rewrite <- (tdot_dense (a1 * b1)) by (apply rows_mkron; assumption).
  rewrite (tdot_kron_split a0 a1 b1 1) by assumption. rewrite !Nat.mul_1_r. reflexivity. Qed.

(* identity factors: a tensor-dot layer is a Kronecker-structured sum layer *)
Definition idm (n : nat) : list vec := tab n (fun i => tab n (fun j => if Nat.eqb i j then 1 else 0)).
Lemma map_tab {A B} (g : A -> B) n (f : nat -> A) : map g (tab n f) = tab n (fun k => g (f k)).
Proof. unfold tab. apply map_map. Qed.
Lemma flat_map_tab {A B} (g : A -> list B) n (f : nat -> A) :
  flat_map g (tab n f) = flat_map (fun k => g (f k)) (seq 0 n).
Proof. unfold tab. apply flat_map_map. Qed.

(* (W ⊗ I_n) x : W applied along the strided columns of x viewed as (m, n); row-major (|W|, n) output *)
Theorem mv_kron_id_r m n W (x : vec) : rows m W ->
  mv (mkron W (idm n)) x = tab2 (length W) n (fun k q => dot (nth k W []) (xcol m n x q)).
Proof. intros HW. unfold mv, mkron. rewrite map_flat_map, (flat_map_as_tab _ W []). unfold tab2.
  apply flat_map_ext_in. intros k Hk. apply in_seq in Hk. unfold idm. rewrite !map_tab.
  apply tab_ext. intros q Hq. set (ra := nth k W []).
  assert (La : length ra = m) by (apply HW, nth_In; lia).
  rewrite dot_kron_sig, La, length_tab, dot_xcol. apply sig_ext. intros j Hj.
  rewrite (sig_ext n _ (fun q' => (if Nat.eqb q q' then 1 else 0) * (nth j ra 0 * nth (j * n + q') x 0))).
  - apply sig_delta. exact Hq.
  - intros q' Hq'. rewrite nth_tab by exact Hq'. ring. Qed.
(* the tensor-dot layer is (W ⊗ I_Kq) followed by the transposition (Kk, Kq) -> (Kq, Kk) of the output *)
Theorem tdot_is_kron_id m n W (x : vec) q k : rows m W -> q < n -> k < length W ->
  nth (q * length W + k) (tdot m n W x) 0 = nth (k * n + q) (mv (mkron W (idm n)) x) 0.
Proof. intros HW Hq Hk. rewrite tdot_tab2, (mv_kron_id_r m) by exact HW.
  rewrite !nth_tab2 by assumption. reflexivity. Qed.
(* (I_n ⊗ W) x : W applied to each of the n contiguous blocks of length m of x *)
Theorem mv_kron_id_l m n W (x : vec) : rows m W ->
  mv (mkron (idm n) W) x = flat_map (fun i => mv W (block m x i)) (seq 0 n).
Proof. intros HW. unfold mv at 1, mkron, idm. rewrite map_flat_map, flat_map_tab.
  apply flat_map_ext_in. intros i Hi. apply in_seq in Hi. rewrite map_map. unfold mv.
  apply map_ext_in. intros rb Hrb. assert (Lb : length rb = m) by (apply HW, Hrb).
  rewrite dot_kron_sig, length_tab, Lb.
  rewrite (sig_ext n _ (fun i' => (if Nat.eqb i i' then 1 else 0) * sig m (fun j => nth j rb 0 * nth (i' * m + j) x 0))).
  - rewrite sig_delta by lia. rewrite dot_sig_l, Lb. apply sig_ext. intros j Hj. f_equal.
    unfold Algebra.block. rewrite nth_firstn_lt by exact Hj. rewrite nth_skipn'. reflexivity.
  - intros i' Hi'. rewrite nth_tab by exact Hi'. rewrite <- sig_scal. apply sig_ext. intros; ring. Qed.

(* ====================================================================== *)
(* 5. parameter-level rule: ReduceSum ∘ OuterProduct = einsum (+ flatten)  *)
(* ====================================================================== *)
(* the OuterProduct parameter node on rank-2 inputs (no fold axis), first operand major:
   dim=0: (K1,N),(K2,N) -> (K1*K2,N), row j*K2+k = A[j,:] * B[k,:] entrywise
   dim=1: (N,K1),(N,K2) -> (N,K1*K2), row n = kron A[n,:] B[n,:]                         *)
Definition outer0 (A B : list vec) : list vec := flat_map (fun a => map (fun b => had a b) B) A.
Definition outer1 (A B : list vec) : list vec := map (fun p => kron (fst p) (snd p)) (combine A B).
(* the ReduceSum parameter node: dim=1 sums each row; dim=0 sums the rows (N = number of columns) *)
Definition rsum1 (M : list vec) : vec := map vsum M.
Definition rsum0 (N : nat) (M : list vec) : vec := tab N (fun s => vsum (col s M)).

Lemma vsum_had (a b : vec) : vsum (had a b) = dot a b.
Proof. revert b; induction a as [|x a IH]; intros [|y b]; simpl; try reflexivity. rewrite IH. reflexivity. Qed.
Lemma vsum_scale c (v : vec) : vsum (scale c v) = c * vsum v.
Proof. induction v as [|x v IH]; simpl; [ring|]. change (map (rmul c) v) with (scale c v). rewrite IH. ring. Qed.
Lemma vsum_kron (u v : vec) : vsum (kron u v) = vsum u * vsum v.
Proof. induction u as [|x u IH]; [simpl; ring|]. rewrite (kron_cons R rmul), vsum_app, vsum_scale, IH. simpl. ring. Qed.
Lemma vsum_sig (v : vec) : vsum v = sig (length v) (fun k => nth k v 0).
Proof. unfold sig. rewrite map_nth_seq. reflexivity. Qed.
Lemma sig_prod n m f g : sig n f * sig m g = sig n (fun i => sig m (fun j => f i * g j)).
Proof. rewrite (ARmul_comm (SRth_ARth (Eqsth R) Rth)), <- sig_scal. apply sig_ext. intros i _.
  rewrite (ARmul_comm (SRth_ARth (Eqsth R) Rth)), <- sig_scal. reflexivity. Qed.
Lemma vsum_col_sig s (M : list vec) : vsum (col s M) = sig (length M) (fun j => nth s (nth j M []) 0).
Proof. rewrite vsum_sig, length_col. apply sig_ext. intros j _. apply nth_col. Qed.
Lemma dot_col_sig j k (A B : list vec) :
  dot (col j A) (col k B) = sig (length A) (fun n => nth j (nth n A []) 0 * nth k (nth n B []) 0).
Proof. rewrite dot_sig_l, length_col. apply sig_ext. intros n _. rewrite !nth_col. reflexivity. Qed.
Lemma had_map {X} (f g : X -> R) (l : list X) : had (map f l) (map g l) = map (fun k => f k * g k) l.
Proof. induction l as [|a l IH]; simpl; [reflexivity | rewrite IH; reflexivity]. Qed.

(* outer_dim = 0, reduce_dim = 1: einsum "jl,kl->jk" then flatten (j,k) *)
Theorem reduce1_outer0 (A B : list vec) :
  rsum1 (outer0 A B) = tab2 (length A) (length B) (fun j k => dot (nth j A []) (nth k B [])).
Proof. unfold rsum1, outer0. rewrite map_flat_map, (flat_map_as_tab _ A []). unfold tab2.
  apply flat_map_ext_in. intros j _. rewrite map_map.
  rewrite (map_as_tab (fun b => vsum (had (nth j A []) b)) B []). apply tab_ext. intros k _. apply vsum_had. Qed.
Theorem reduce1_outer0_einsum N (A B : list vec) : rows N A ->
  rsum1 (outer0 A B)
  = tab2 (length A) (length B) (fun j k => sig N (fun l => nth l (nth j A []) 0 * nth l (nth k B []) 0)).
Proof. intros HA. rewrite reduce1_outer0. apply tab2_ext. intros j k Hj Hk.
  rewrite dot_sig_l, (HA (nth j A [])) by (apply nth_In; exact Hj). reflexivity. Qed.

(* outer_dim = 0, reduce_dim = 0: einsum "jl,kl->l" *)
Theorem reduce0_outer0 N (A B : list vec) : rsum0 N (outer0 A B) = had (rsum0 N A) (rsum0 N B).
Proof. unfold rsum0, tab. rewrite had_map. apply map_ext. intros s. unfold outer0.
  rewrite (col_outer R rO rI radd rmul Rth). apply vsum_kron. Qed.
Theorem reduce0_outer0_einsum N (A B : list vec) :
  rsum0 N (outer0 A B)
  = tab N (fun l => sig (length A) (fun j => sig (length B) (fun k => nth l (nth j A []) 0 * nth l (nth k B []) 0))).
Proof. rewrite reduce0_outer0. unfold rsum0, tab. rewrite had_map. apply map_ext. intros l.
  rewrite !vsum_col_sig. apply sig_prod. Qed.

(* outer_dim = 1, reduce_dim = 1: einsum "nj,nk->n" *)
Theorem reduce1_outer1 (A B : list vec) :
  rsum1 (outer1 A B) = map (fun p => vsum (fst p) * vsum (snd p)) (combine A B).
Proof. unfold rsum1, outer1. rewrite map_map. apply map_ext. intros p. apply vsum_kron. Qed.
Theorem reduce1_outer1_einsum (A B : list vec) :
  rsum1 (outer1 A B)
  = map (fun p => sig (length (fst p)) (fun j => sig (length (snd p)) (fun k => nth j (fst p) 0 * nth k (snd p) 0)))
        (combine A B).
Proof. rewrite reduce1_outer1. apply map_ext. intros p. rewrite !vsum_sig. apply sig_prod. Qed.

(* outer_dim = 1, reduce_dim = 0: einsum "nj,nk->jk" then flatten (j,k) *)
Lemma vsum_col_outer1 K2 j k : k < K2 -> forall (A B : list vec), rows K2 B ->
  vsum (col (j * K2 + k) (outer1 A B)) = dot (col j A) (col k B).
Proof. intros Hk. induction A as [|a A IH]; intros [|b B] HB; try reflexivity.
  unfold outer1, Algebra.col in *. cbn [combine map fst snd Base.vsum Base.dot].
  rewrite IH by (intros r Hr; apply HB; simpl; auto). f_equal.
  rewrite <- (HB b) by (simpl; auto). apply nth_kron_ij. rewrite (HB b) by (simpl; auto). exact Hk. Qed.
Theorem reduce0_outer1 K1 K2 (A B : list vec) : rows K2 B ->
  rsum0 (K1 * K2) (outer1 A B) = tab2 K1 K2 (fun j k => dot (col j A) (col k B)).
Proof. intros HB. unfold rsum0. rewrite tab_mul. apply tab2_ext. intros j k _ Hk.
  apply vsum_col_outer1; assumption. Qed.
Theorem reduce0_outer1_einsum K1 K2 (A B : list vec) : rows K2 B ->
  rsum0 (K1 * K2) (outer1 A B)
  = tab2 K1 K2 (fun j k => sig (length A) (fun n => nth j (nth n A []) 0 * nth k (nth n B []) 0)).
Proof. intros HB. rewrite reduce0_outer1 by exact HB. apply tab2_ext. intros. apply dot_col_sig. Qed.

End Optim.

(* ====================================================================== *)
(* 5'. Log ∘ Softmax = LogSoftmax  (apply_log_softmax), over an abstract field with exp / log      *)
(* ====================================================================== *)
Section LogSoftmax.
Variable F : Type.
Variables (fsub fdiv : F -> F -> F) (fexp flog : F -> F) (fsum : list F -> F) (pos : F -> Prop).
Hypothesis log_div : forall x y, pos x -> pos y -> flog (fdiv x y) = fsub (flog x) (flog y).
Hypothesis log_exp : forall x, flog (fexp x) = x.
Hypothesis exp_pos : forall x, pos (fexp x).
Hypothesis sum_pos : forall l, l <> [] -> (forall x, In x l -> pos x) -> pos (fsum l).
Definition softmax (x : list F) : list F := map (fun xi => fdiv (fexp xi) (fsum (map fexp x))) x.
Definition log_softmax (x : list F) : list F := map (fun xi => fsub xi (flog (fsum (map fexp x)))) x.
Theorem log_softmax_fuse (x : list F) : map flog (softmax x) = log_softmax x.
Proof. unfold softmax, log_softmax. rewrite map_map. apply map_ext_in. intros xi Hxi.
  rewrite log_div, log_exp; [reflexivity | apply exp_pos |]. apply sum_pos.
  - intros E. apply map_eq_nil in E. subst x. exact Hxi.
  - intros z Hz. apply in_map_iff in Hz. destruct Hz as [w [<- _]]. apply exp_pos. Qed.
End LogSoftmax.

(* ====================================================================== *)
(* Examples over the semiring nat: non-vacuity and index-order sanity (non-symmetric data)          *)
(* ====================================================================== *)
Section Examples.
Let mvN := mv nat 0%nat Nat.add Nat.mul.
Let mmN := mm nat Nat.add Nat.mul.
Let kronN := kron nat Nat.mul.
Let hadN := had nat Nat.mul.
Let mkronN := mkron nat Nat.mul.
Let tdotN := tdot nat 0%nat Nat.add Nat.mul.

(* 1. SumCollapse: W2 (3x2), W1 (2x3) *)
Example ex_mm : mmN [[1;2];[3;4];[5;6]] [[1;0;2];[0;3;1]] = [[1;6;4];[3;12;10];[5;18;16]].
Proof. vm_compute. reflexivity. Qed.
Example ex_sum_collapse :
  mvN (mmN [[1;2];[3;4];[5;6]] [[1;0;2];[0;3;1]]) [1;2;3] = [25; 57; 89]
  /\ mvN [[1;2];[3;4];[5;6]] (mvN [[1;0;2];[0;3;1]] [1;2;3]) = [25; 57; 89].
Proof. vm_compute. split; reflexivity. Qed.

(* the column hypothesis of sum_collapse_explicit is needed: W1 declared with 1 column but given 2 *)
Example ex_sum_collapse_shape :
  mvN (mmt nat 0%nat Nat.add Nat.mul 1 [[1]] [[1;1]]) [1;1] = [1] /\ mvN [[1]] (mvN [[1;1]] [1;1]) = [2]
  /\ mvN (mmN [[1]] [[1;1]]) [1;1] = [2].
Proof. vm_compute. repeat split; reflexivity. Qed.

(* 2. Tucker: a (K1=2) is the major factor; swapping the Kronecker order gives a different value *)
Example ex_tucker :
  tucker2l nat 0%nat Nat.add Nat.mul [[1;2;3;4;5;6]] [1;2] [3;5;7] = [192]
  /\ mvN [[1;2;3;4;5;6]] (kronN [1;2] [3;5;7]) = [192]
  /\ mvN [[1;2;3;4;5;6]] (kronN [3;5;7] [1;2]) = [189].
Proof. vm_compute. repeat split; reflexivity. Qed.
Example ex_tucker3 :
  tucker3l nat 0%nat Nat.add Nat.mul [[1;2;3;4;5;6;7;8;9;10;11;12]] [1;2] [3;5;7] [1;4]
  = mvN [[1;2;3;4;5;6;7;8;9;10;11;12]] (kronN (kronN [1;2] [3;5;7]) [1;4])
  /\ tuckern nat 0%nat 1%nat Nat.add Nat.mul [[1;2;3;4;5;6;7;8;9;10;11;12]] [[1;2]; [3;5;7]; [1;4]]
  = tucker3l nat 0%nat Nat.add Nat.mul [[1;2;3;4;5;6;7;8;9;10;11;12]] [1;2] [3;5;7] [1;4]
  /\ tucker3l nat 0%nat Nat.add Nat.mul [[1;2;3;4;5;6;7;8;9;10;11;12]] [1;2] [3;5;7] [1;4] = [1875].
Proof. vm_compute. repeat split; reflexivity. Qed.

(* 3. CP-T *)
Example ex_cpt :
  cpt2 nat 0%nat Nat.add Nat.mul [[1;2;3];[4;5;6]] [1;2;3] [2;0;1] = [11; 26]
  /\ mvN [[1;2;3];[4;5;6]] (hadN [1;2;3] [2;0;1]) = [11; 26].
Proof. vm_compute. split; reflexivity. Qed.

(* 4. TensorDot.  torch.kron([[1,2],[3,4]], [[0,5],[6,7]]) *)
Example ex_mkron : mkronN [[1;2];[3;4]] [[0;5];[6;7]]
  = [[0;5;0;10]; [6;7;12;14]; [0;15;0;20]; [18;21;24;28]].
Proof. vm_compute. reflexivity. Qed.
(* the tensor-dot layer: Kj = 2, Kq = 3, W = [[1,2]]: x viewed as [[1,2,3],[4,5,6]], out[q] = x[0,q] + 2 x[1,q] *)
Example ex_tdot : tdotN 2 3 [[1;2]] [1;2;3;4;5;6] = [9; 12; 15]
  /\ tdotN 2 2 [[1;2];[0;1]] [1;2;3;4] = [7; 3; 10; 4].
Proof. vm_compute. split; reflexivity. Qed.
(* W1 : 2x3 (a0=2, a1=3), W2 : 3x2 (b0=3, b1=2), x : 6 *)
Example ex_dense_tensordot :
  mvN (mkronN [[1;2;3];[4;5;6]] [[1;0];[2;1];[0;3]]) [1;2;3;4;5;6] = [22; 72; 84; 49; 162; 192]
  /\ tdotN 2 2 [[1;0];[2;1];[0;3]] (tdotN 3 2 [[1;2;3];[4;5;6]] [1;2;3;4;5;6]) = [22; 72; 84; 49; 162; 192]
  (* the other order of the two factors is a different function *)
  /\ mvN (mkronN [[1;0];[2;1];[0;3]] [[1;2;3];[4;5;6]]) [1;2;3;4;5;6] <> [22; 72; 84; 49; 162; 192].
Proof. vm_compute. repeat split; try reflexivity. discriminate. Qed.
(* with Kq = 2 batch units, x : 12 *)
Example ex_tdot_kron_split :
  tdotN 6 2 (mkronN [[1;2;3];[4;5;6]] [[1;0];[2;1];[0;3]]) [1;2;3;4;5;6;7;8;9;10;11;12]
  = tdotN 2 4 [[1;0];[2;1];[0;3]] (tdotN 3 4 [[1;2;3];[4;5;6]] [1;2;3;4;5;6;7;8;9;10;11;12])
  /\ nth 0 (tdotN 6 2 (mkronN [[1;2;3];[4;5;6]] [[1;0];[2;1];[0;3]]) [1;2;3;4;5;6;7;8;9;10;11;12]) 0%nat = 38.
Proof. vm_compute. split; reflexivity. Qed.
Example ex_kron_id :
  mvN (mkronN (idm nat 0%nat 1%nat 2) [[1;2;3]]) [1;2;3;4;5;6] = [14; 32]
  /\ mvN (mkronN [[1;2;3]] (idm nat 0%nat 1%nat 2)) [1;2;3;4;5;6] = [22; 28].
Proof. vm_compute. split; reflexivity. Qed.

(* 5. ReduceSum ∘ OuterProduct: A (2x3), B (2x3) *)
Example ex_outer0 :
  outer0 nat Nat.mul [[1;2;3];[4;5;6]] [[1;0;2];[0;1;1]] = [[1;0;6];[0;2;3];[4;0;12];[0;5;6]]
  /\ rsum1 nat 0%nat Nat.add (outer0 nat Nat.mul [[1;2;3];[4;5;6]] [[1;0;2];[0;1;1]]) = [7; 5; 16; 11]
  /\ rsum0 nat 0%nat Nat.add 3 (outer0 nat Nat.mul [[1;2;3];[4;5;6]] [[1;0;2];[0;1;1]]) = [5; 7; 27].
Proof. vm_compute. repeat split; reflexivity. Qed.
Example ex_outer1 :
  outer1 nat Nat.mul [[1;2];[3;4]] [[1;0;2];[0;1;1]] = [[1;0;2;2;0;4];[0;3;3;0;4;4]]
  /\ rsum1 nat 0%nat Nat.add (outer1 nat Nat.mul [[1;2];[3;4]] [[1;0;2];[0;1;1]]) = [9; 14]
  /\ rsum0 nat 0%nat Nat.add 6 (outer1 nat Nat.mul [[1;2];[3;4]] [[1;0;2];[0;1;1]]) = [1; 3; 5; 2; 4; 8].
Proof. vm_compute. repeat split; reflexivity. Qed.
End Examples.

Print Assumptions sum_collapse. Print Assumptions sum_collapse_node. Print Assumptions mm_entry. Print Assumptions rows_mm. Print Assumptions mm_mmt. Print Assumptions sum_collapse_explicit.
Print Assumptions tucker_fuse. Print Assumptions tucker_fuse3. Print Assumptions tucker_fuse_n.
Print Assumptions candecomp_fuse2. Print Assumptions candecomp_fuse.
Print Assumptions mkron_entry. Print Assumptions mkron_mixed. Print Assumptions tdot_entry. Print Assumptions tdot_dense.
Print Assumptions tdot_kron_split. Print Assumptions dense_tensordot.
Print Assumptions mv_kron_id_r. Print Assumptions tdot_is_kron_id. Print Assumptions mv_kron_id_l.
Print Assumptions reduce1_outer0. Print Assumptions reduce1_outer0_einsum.
Print Assumptions reduce0_outer0. Print Assumptions reduce0_outer0_einsum.
Print Assumptions reduce1_outer1. Print Assumptions reduce1_outer1_einsum.
Print Assumptions reduce0_outer1. Print Assumptions reduce0_outer1_einsum.
Print Assumptions log_softmax_fuse.
