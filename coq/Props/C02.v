(* C02 — folding preserves the function (address-book evaluation)
   Property theorems only: each is closed by `exact <lemma>`; proofs live in the imported files. *)
From Coq Require Import List ZArith QArith Qcanon Ring_theory Field_theory Permutation Sorted.
Import ListNotations.
From CK Require Import Gen.
From CK Require Import Fold.
From CK Require Import FoldCheck.
From CK Require Import Base.
From CK Require Import Circ.
From CK Require Import Algebra.
From CK Require Import Optim.
Close Scope Qc_scope. Close Scope Q_scope. Close Scope Z_scope. Open Scope nat_scope.

(* evaluating any folded graph through its address book (concatenate the listed module outputs, gather by the index lists, apply the members fold-wise) reproduces the unfolded values slice by slice whenever the book is consistent; modules are arbitrary functions, so this holds for every layer type, semiring, parameter value and input *)
Theorem C02_folded_sound :
  forall (V : Type) (dV : V) (g : ugraph V) (F : fgraph),
         uwf V dV g ->
         fwf F ->
         consistent V dV g F ->
         forall Mi : nat,
         Mi < length F ->
         length (nth Mi (feval V dV g F) []) = fsize F Mi /\
         (forall s : nat,
          s < fsize F Mi ->
          nth s (nth Mi (feval V dV g F) []) dV = nth (nth s (members (nth Mi F dfm)) 0) (ueval V dV g) dV).
Proof. exact folded_sound. Qed.
Print Assumptions C02_folded_sound.

(* the executable address-book checker is sound: if it computes true on an exported unfolded graph and folded graph, the address book is consistent *)
Theorem C02_checker_sound :
  forall (V : Type) (dV : V) (g : ugraph V) (F : fgraph),
         ab_check (map (uins V) g) F = true -> consistent V dV g F.
Proof. exact ab_check_sound. Qed.
Print Assumptions C02_checker_sound.

(* hence every slice of every folded module equals the corresponding unfolded module's value, for all module functions (layers, semirings), parameters and inputs *)
Theorem C02_checked_fold :
  forall (V : Type) (dV : V) (g : ugraph V) (F : fgraph),
         uwf_b (map (uins V) g) = true ->
         fwf_b F = true ->
         ab_check (map (uins V) g) F = true ->
         forall Mi : nat,
         Mi < length F ->
         forall s : nat,
         s < fsize F Mi ->
         nth s (nth Mi (feval V dV g F) []) dV = nth (nth s (members (nth Mi F dfm)) 0) (ueval V dV g) dV.
Proof. exact checked_fold_sound. Qed.
Print Assumptions C02_checked_fold.

(* and the gathered graph outputs equal the unfolded outputs in the declared order *)
Theorem C02_outputs_sound :
  forall (V : Type) (dV : V) (g : ugraph V) (F : fgraph) (outs out_ids out_cum : list nat),
         uwf_b (map (uins V) g) = true ->
         fwf_b F = true ->
         ab_check (map (uins V) g) F = true ->
         out_check F outs out_ids out_cum = true ->
         map (fun ix : nat => nth ix (concat (map (fun mid : nat => nth mid (feval V dV g F) []) out_ids)) dV)
           out_cum = map (fun o : nat => nth o (ueval V dV g) dV) outs.
Proof. exact checked_outputs_sound. Qed.
Print Assumptions C02_outputs_sound.

(* optimisation rule apply_sum_collapse: a sum layer applied to a sum layer is one sum layer with the matrix product of the weights (any commutative semiring, no shape hypothesis) *)
Theorem C02_rule_sum_collapse :
  forall (R : Type) (rO rI : R) (radd rmul : R -> R -> R),
         semi_ring_theory rO rI radd rmul eq ->
         forall (W2 W1 : list (vec R)) (x : vec R),
         mv R rO radd rmul (mm R radd rmul W2 W1) x = mv R rO radd rmul W2 (mv R rO radd rmul W1 x).
Proof. exact sum_collapse. Qed.
Print Assumptions C02_rule_sum_collapse.

(* ... at circuit-node level, inner sum of any arity *)
Theorem C02_rule_sum_collapse_node :
  forall (R : Type) (rO rI : R) (radd rmul : R -> R -> R),
         semi_ring_theory rO rI radd rmul eq ->
         forall (D : Type) (W2 W1 : list (vec R)) (ins : list nat) (y : asg D) (vals : list (vec R)),
         eval_node R rO radd rmul D (NSum R D (mm R radd rmul W2 W1) ins) y vals =
         mv R rO radd rmul W2 (eval_node R rO radd rmul D (NSum R D W1 ins) y vals).
Proof. exact sum_collapse_node. Qed.
Print Assumptions C02_rule_sum_collapse_node.

(* apply_tucker / TorchTuckerLayer: a sum layer over an n-ary Kronecker product is the explicit contraction of the weight (viewed with one axis per input, first input major) with the inputs *)
Theorem C02_rule_tucker :
  forall (R : Type) (rO rI : R) (radd rmul : R -> R -> R),
         semi_ring_theory rO rI radd rmul eq ->
         forall W xs : list (vec R),
         xs <> [] -> mv R rO radd rmul W (kronn R rmul xs) = tuckern R rO rI radd rmul W xs.
Proof. exact tucker_fuse_n. Qed.
Print Assumptions C02_rule_tucker.

(* apply_candecomp / TorchCPTLayer: a sum layer over an n-ary Hadamard product is sum_i W[o,i] prod_j x_j[i] *)
Theorem C02_rule_candecomp :
  forall (R : Type) (rO rI : R) (radd rmul : R -> R -> R),
         semi_ring_theory rO rI radd rmul eq ->
         forall W xs : list (vec R),
         xs <> [] -> mv R rO radd rmul W (hadn R rmul xs) = cptn R rO rI radd rmul W xs.
Proof. exact candecomp_fuse. Qed.
Print Assumptions C02_rule_candecomp.

(* a sum layer whose weight is a Kronecker product of matrices (torch.kron order) applied to a Kronecker product of vectors is the Kronecker product of the two applications *)
Theorem C02_rule_kronecker_weight :
  forall (R : Type) (rO rI : R) (radd rmul : R -> R -> R),
         semi_ring_theory rO rI radd rmul eq ->
         forall (A B : list (vec R)) (x y : vec R),
         rows R (length x) A ->
         rows R (length y) B ->
         mv R rO radd rmul (mkron R rmul A B) (kron R rmul x y) =
         kron R rmul (mv R rO radd rmul A x) (mv R rO radd rmul B y).
Proof. exact mkron_mixed. Qed.
Print Assumptions C02_rule_kronecker_weight.

(* apply_dense_tensordot: the dense layer with weight W1 (x) W2 equals the two tensor-dot layers (reshape / permute / contract convention of TorchTensorDotLayer.forward) *)
Theorem C02_rule_dense_tensordot :
  forall (R : Type) (rO rI : R) (radd rmul : R -> R -> R),
         semi_ring_theory rO rI radd rmul eq ->
         forall (a0 a1 b1 : nat) (W1 W2 : list (vec R)) (x : vec R),
         length W1 = a0 ->
         rows R a1 W1 ->
         rows R b1 W2 ->
         mv R rO radd rmul (mkron R rmul W1 W2) x =
         tdot R rO radd rmul b1 a0 W2 (tdot R rO radd rmul a1 b1 W1 x).
Proof. exact dense_tensordot. Qed.
Print Assumptions C02_rule_dense_tensordot.

(* apply_tensordot_tensordot: a tensor-dot layer with Kronecker weight splits into two tensor-dot layers *)
Theorem C02_rule_tensordot_tensordot :
  forall (R : Type) (rO rI : R) (radd rmul : R -> R -> R),
         semi_ring_theory rO rI radd rmul eq ->
         forall (a0 a1 b1 Kq : nat) (W1 W2 : list (vec R)) (x : vec R),
         length W1 = a0 ->
         rows R a1 W1 ->
         rows R b1 W2 ->
         tdot R rO radd rmul (a1 * b1) Kq (mkron R rmul W1 W2) x =
         tdot R rO radd rmul b1 (a0 * Kq) W2 (tdot R rO radd rmul a1 (b1 * Kq) W1 x).
Proof. exact tdot_kron_split. Qed.
Print Assumptions C02_rule_tensordot_tensordot.

(* apply_sum_outer_prod_einsum: reduce-sum over axis 1 of the outer product along axis 0 is the matrix of dot products (einsum jl,kl->jk, flattened) *)
Theorem C02_rule_reduce_outer_a :
  forall (R : Type) (rO : R) (radd rmul : R -> R -> R) (A B : list (vec R)),
         rsum1 R rO radd (outer0 R rmul A B) =
         tab2 (length A) (length B) (fun j k : nat => dot R rO radd rmul (nth j A []) (nth k B [])).
Proof. exact reduce1_outer0. Qed.
Print Assumptions C02_rule_reduce_outer_a.

(* ... reduce-sum over axis 0 of the outer product along axis 0 (einsum jl,kl->l) *)
Theorem C02_rule_reduce_outer_b :
  forall (R : Type) (rO rI : R) (radd rmul : R -> R -> R),
         semi_ring_theory rO rI radd rmul eq ->
         forall (N : nat) (A B : list (vec R)),
         rsum0 R rO radd N (outer0 R rmul A B) = had R rmul (rsum0 R rO radd N A) (rsum0 R rO radd N B).
Proof. exact reduce0_outer0. Qed.
Print Assumptions C02_rule_reduce_outer_b.

(* ... reduce-sum over axis 1 of the outer product along axis 1 (einsum nj,nk->n) *)
Theorem C02_rule_reduce_outer_c :
  forall (R : Type) (rO rI : R) (radd rmul : R -> R -> R),
         semi_ring_theory rO rI radd rmul eq ->
         forall A B : list (vec R),
         rsum1 R rO radd (outer1 R rmul A B) =
         map (fun p : vec R * vec R => rmul (vsum R rO radd (fst p)) (vsum R rO radd (snd p))) (combine A B).
Proof. exact reduce1_outer1. Qed.
Print Assumptions C02_rule_reduce_outer_c.

(* ... reduce-sum over axis 0 of the outer product along axis 1 (einsum nj,nk->jk, flattened) *)
Theorem C02_rule_reduce_outer_d :
  forall (R : Type) (rO rI : R) (radd rmul : R -> R -> R),
         semi_ring_theory rO rI radd rmul eq ->
         forall (K1 K2 : nat) (A B : list (vec R)),
         rows R K2 B ->
         rsum0 R rO radd (K1 * K2) (outer1 R rmul A B) =
         tab2 K1 K2 (fun j k : nat => dot R rO radd rmul (col R rO j A) (col R rO k B)).
Proof. exact reduce0_outer1. Qed.
Print Assumptions C02_rule_reduce_outer_d.

(* apply_log_softmax: log o softmax = log_softmax over any structure with exp / log / division satisfying log(x/y) = log x - log y on positives and log(exp x) = x *)
Theorem C02_rule_log_softmax :
  forall (F : Type) (fsub fdiv : F -> F -> F) (fexp flog : F -> F) (fsum : list F -> F)
           (pos : F -> Prop),
         (forall x y : F, pos x -> pos y -> flog (fdiv x y) = fsub (flog x) (flog y)) ->
         (forall x : F, flog (fexp x) = x) ->
         (forall x : F, pos (fexp x)) ->
         (forall l : list F, l <> [] -> (forall x : F, In x l -> pos x) -> pos (fsum l)) ->
         forall x : list F, map flog (softmax F fdiv fexp fsum x) = log_softmax F fsub fexp flog fsum x.
Proof. exact log_softmax_fuse. Qed.
Print Assumptions C02_rule_log_softmax.
