(* GenAgree.v — ties the integer glue of cirkit's CURRENT source (Gen/Shapes.v, regenerated from /repo on
   every run by harness/translate.py) to the hand-written model functions of Init.v. A change of any of the
   translated expressions that alters its meaning breaks one of these proofs. *)
From Coq Require Import ZArith Bool Lia.
From CK Require Import Init.
From CK.Gen Require Import Shapes.
Open Scope Z_scope.

Ltac crush := intros; unfold eff_axis, compiled_dim, norm_dim, simplex_axis in *;
  repeat match goal with |- context [?a <? ?b] => destruct (Z.ltb_spec a b) end; simpl; lia.

(* ---- initialisers (C17) ---- *)
Lemma agree_compiled_dim a : gen_compiled_dim a = compiled_dim a.
Proof. unfold gen_compiled_dim. crush. Qed.
Lemma agree_compiled_dim_passed a : gen_compiled_dim_passed a = a.
Proof. reflexivity. Qed.
Lemma agree_norm_dim d r : gen_norm_dim d r = norm_dim d r.
Proof. unfold gen_norm_dim. crush. Qed.
Lemma agree_movedim d : gen_movedim_src = -1 /\ gen_movedim_dst d = d.
Proof. split; reflexivity. Qed.
Lemma agree_fold_slice i : gen_fold_slice_lo i = i /\ gen_fold_slice_hi i = i + 1.
Proof. split; reflexivity. Qed.
(* the whole chain of the source: a Dirichlet initialiser with declared axis a on a parameter of rank r
   normalises, within the parameter's own slice (which keeps a fold dimension of size one), the declared axis *)
Theorem source_simplex_axis a r : 0 < r -> - r <= a < r ->
  gen_norm_dim (gen_compiled_dim_passed (gen_compiled_dim a)) (r + 1) - 1 = eff_axis a r
  /\ gen_fold_slice_hi 0 - gen_fold_slice_lo 0 = 1.
Proof.
  intros Hr Ha. split; [|reflexivity].
  rewrite agree_compiled_dim_passed, agree_compiled_dim, agree_norm_dim.
  apply (simplex_axis_correct a r Hr Ha).
Qed.

(* ---- parameter nodes (C14): the torch dimension operated on is the declared axis, past the fold axis ---- *)
Lemma agree_sym_axis a r :
  gen_sym_axis_ReduceParameterOp a r = eff_axis a r /\ gen_sym_axis_EntrywiseReduceParameterOp a r = eff_axis a r /\
  gen_sym_axis_IndexParameter a r = eff_axis a r /\ gen_sym_axis_OuterParameterOp a r = eff_axis a r.
Proof. unfold gen_sym_axis_ReduceParameterOp, gen_sym_axis_EntrywiseReduceParameterOp, gen_sym_axis_IndexParameter, gen_sym_axis_OuterParameterOp.
  repeat split; crush. Qed.
Lemma agree_torch_dim d r :
  gen_torch_dim_TorchReduceParameterOp d r = eff_axis d r /\ gen_torch_dim_TorchEntrywiseReduceParameterOp d r = eff_axis d r /\
  gen_torch_dim_TorchIndexParameter d r = eff_axis d r /\ gen_torch_dim_TorchOuterProductParameter d r = eff_axis d r /\
  gen_torch_dim_TorchOuterSumParameter d r = eff_axis d r.
Proof. unfold gen_torch_dim_TorchReduceParameterOp, gen_torch_dim_TorchEntrywiseReduceParameterOp, gen_torch_dim_TorchIndexParameter,
  gen_torch_dim_TorchOuterProductParameter, gen_torch_dim_TorchOuterSumParameter. repeat split; crush. Qed.
Lemma eff_axis_idem a r : 0 < r -> - r <= a < r -> eff_axis (eff_axis a r) r = eff_axis a r.
Proof. crush. Qed.

Definition chain (sym rule tdim fwd : Z -> Z) : Z -> Z := fun a => fwd (tdim (rule (sym a))).

Theorem source_reduce_dims a r : 0 < r -> - r <= a < r ->
  let e := eff_axis a r + 1 in
  gen_fwd_dim_TorchReduceSumParameter (gen_torch_dim_TorchReduceParameterOp (gen_rule_dim_compile_reduce_sum_parameter (gen_sym_axis_ReduceParameterOp a r)) r) = e /\
  gen_fwd_dim_TorchReduceProductParameter (gen_torch_dim_TorchReduceParameterOp (gen_rule_dim_compile_reduce_product_parameter (gen_sym_axis_ReduceParameterOp a r)) r) = e /\
  gen_fwd_dim_TorchReduceLSEParameter (gen_torch_dim_TorchReduceParameterOp (gen_rule_dim_compile_reduce_lse_parameter (gen_sym_axis_ReduceParameterOp a r)) r) = e /\
  gen_fwd_dim_TorchSoftmaxParameter (gen_torch_dim_TorchEntrywiseReduceParameterOp (gen_rule_dim_compile_softmax_parameter (gen_sym_axis_EntrywiseReduceParameterOp a r)) r) = e /\
  gen_fwd_dim_TorchLogSoftmaxParameter (gen_torch_dim_TorchEntrywiseReduceParameterOp (gen_rule_dim_compile_log_softmax_parameter (gen_sym_axis_EntrywiseReduceParameterOp a r)) r) = e /\
  gen_fwd_dim_TorchIndexParameter (gen_torch_dim_TorchIndexParameter (gen_rule_dim_compile_index_parameter (gen_sym_axis_IndexParameter a r)) r) = e.
Proof.
  intros Hr Ha e. subst e.
  destruct (agree_sym_axis a r) as [S1 [S2 [S3 _]]].
  unfold gen_rule_dim_compile_reduce_sum_parameter, gen_rule_dim_compile_reduce_product_parameter, gen_rule_dim_compile_reduce_lse_parameter,
    gen_rule_dim_compile_softmax_parameter, gen_rule_dim_compile_log_softmax_parameter, gen_rule_dim_compile_index_parameter.
  rewrite S1, S2, S3.
  destruct (agree_torch_dim (eff_axis a r) r) as [T1 [T2 [T3 _]]]. rewrite T1, T2, T3.
  rewrite (eff_axis_idem a r Hr Ha).
  unfold gen_fwd_dim_TorchReduceSumParameter, gen_fwd_dim_TorchReduceProductParameter, gen_fwd_dim_TorchReduceLSEParameter,
    gen_fwd_dim_TorchSoftmaxParameter, gen_fwd_dim_TorchLogSoftmaxParameter, gen_fwd_dim_TorchIndexParameter.
  repeat split; lia.
Qed.

Theorem source_outer_dims a r : 0 < r -> - r <= a < r ->
  let d := gen_torch_dim_TorchOuterProductParameter (gen_rule_dim_compile_outer_product_parameter (gen_sym_axis_OuterParameterOp a r)) r in
  let d' := gen_torch_dim_TorchOuterSumParameter (gen_rule_dim_compile_outer_sum_parameter (gen_sym_axis_OuterParameterOp a r)) r in
  gen_outer_unsq1_TorchOuterProductParameter d = eff_axis a r + 2 /\ gen_outer_unsq2_TorchOuterProductParameter d = eff_axis a r + 1 /\
  gen_outer_unsq1_TorchOuterSumParameter d' = eff_axis a r + 2 /\ gen_outer_unsq2_TorchOuterSumParameter d' = eff_axis a r + 1.
Proof.
  intros Hr Ha d d'. subst d d'.
  destruct (agree_sym_axis a r) as [_ [_ [_ S4]]].
  unfold gen_rule_dim_compile_outer_product_parameter, gen_rule_dim_compile_outer_sum_parameter. rewrite S4.
  destruct (agree_torch_dim (eff_axis a r) r) as [_ [_ [_ [T4 T5]]]]. rewrite T4, T5.
  rewrite (eff_axis_idem a r Hr Ha).
  unfold gen_outer_unsq1_TorchOuterProductParameter, gen_outer_unsq2_TorchOuterProductParameter, gen_outer_unsq1_TorchOuterSumParameter,
    gen_outer_unsq2_TorchOuterSumParameter.
  repeat split; lia.
Qed.
Print Assumptions source_simplex_axis.
Print Assumptions source_reduce_dims.
Print Assumptions source_outer_dims.
