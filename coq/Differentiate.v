(* Differentiate.v — the differentiate operator on semantic circuits and its correctness
   against an abstract partial-derivative operator Dv whose rules (additivity, scaling, independent factor)
   are only assumed on a class DF of "differentiable" scalar functions closed under extensionality,
   constants, sums and products; the circuit's input functions are required to be in DF (inputs_DF).
   differentiate_correct_total / differentiate_outputs_total: the special case DF := fun _ => True
   (rules assumed for all functions, no condition on the inputs).
   DiffReal.v instantiates Dv / DF with the real partial derivative / real differentiability. *)
From Coq Require Import List Lia Ring Ring_theory Bool Arith Sorted.
Import ListNotations.
From CK Require Import Base Circ.

Section Differentiate.
Variable R : Type.
Variables (rO rI : R) (radd rmul : R -> R -> R).
Hypothesis Rth : semi_ring_theory rO rI radd rmul (@eq R).
Add Ring Rring : Rth.
Infix "+" := radd. Infix "*" := rmul.
Notation "0" := rO. Notation "1" := rI.
Variable D : Type.
Notation asg := (asg D).
Notation vec := (vec R).
Notation dot := (dot R rO radd rmul).
Notation had := (had R rmul).
Notation kron := (kron R rmul).
Notation scale := (scale R rmul).
Notation dep_on := (dep_on R D).
Notation inp := (inp R D).
Notation node := (node R D).
Notation circuit := (circuit R D).
Notation NIn := (NIn R D).
Notation NSum := (NSum R D).
Notation NHad := (NHad R D).
Notation NKron := (NKron R D).
Notation eval := (eval R rO radd rmul D).
Notation eval_from := (eval_from R rO radd rmul D).
Notation eval_node := (eval_node R rO radd rmul D).
Notation scopes := (scopes R D).
Notation units := (units R D).
Notation node_scope := (node_scope R D).
Notation node_units := (node_units R D).
Notation ok := (ok R rO D).
Notation ok_node := (ok_node R rO D).
Notation get := (get R).
Notation hadn := (hadn R rmul).
Notation kronn := (kronn R rmul).
Notation prodl := (prodl R rI rmul).
Notation prodf := (prodf R rI rmul D).

(* ---------- the class of differentiable scalar functions ---------- *)
(* The rules of the derivative operator below are only assumed on a class DF of "differentiable"
   functions closed under extensionality, constants, sums and products (no real derivative is additive
   on ALL functions).  DF := fun _ => True gives back the total rules (section DifferentiateTotal);
   DiffReal.v instantiates DF with real differentiability along every coordinate. *)
Variable DF : (asg -> R) -> Prop.
Hypothesis DF_ext   : forall f g, (forall y, f y = g y) -> DF f -> DF g.
Hypothesis DF_const : forall c, DF (fun _ => c).
Hypothesis DF_add   : forall f g, DF f -> DF g -> DF (fun y => f y + g y).
Hypothesis DF_mul   : forall f g, DF f -> DF g -> DF (fun y => f y * g y).

(* ---------- the abstract partial-derivative operator ---------- *)
Variable Dv : nat -> (asg -> R) -> (asg -> R).
Hypothesis Dv_ext  : forall v f g, (forall y, f y = g y) -> forall y, Dv v f y = Dv v g y.
Hypothesis Dv_add  : forall v f g y, DF f -> DF g -> Dv v (fun y => f y + g y) y = Dv v f y + Dv v g y.
Hypothesis Dv_scal : forall v c f y, DF f -> Dv v (fun y => c * f y) y = c * Dv v f y.
Hypothesis Dv_indep_mul : forall v S g f, dep_on S g -> ~ In v S -> DF f ->
  forall y, Dv v (fun y => g y * f y) y = g y * Dv v f y.
Hypothesis Dv_indep : forall v S f, dep_on S f -> ~ In v S -> forall y, Dv v f y = 0.

Lemma Dv_const v c y : Dv v (fun _ => c) y = 0.
Proof. apply (Dv_indep v [] (fun _ => c)); [intros a b _; reflexivity | intros []]. Qed.
Lemma DF_scal c f : DF f -> DF (fun y => c * f y).
Proof. intros H. apply (DF_mul (fun _ => c) f); [apply DF_const | exact H]. Qed.

(* ---------- vector-valued differentiation ---------- *)
Definition DV (v : nat) (F : asg -> vec) (L : nat) (y : asg) : vec :=
  map (fun k => Dv v (fun y' => nth k (F y') 0) y) (seq 0 L).
Lemma length_DV v F L y : length (DV v F L y) = L.
Proof. unfold DV. rewrite map_length, seq_length. reflexivity. Qed.
Lemma nth_DV v F L y k : k < L -> nth k (DV v F L y) 0 = Dv v (fun y' => nth k (F y') 0) y.
Proof. intros H. unfold DV. rewrite nth_map_seq by exact H. reflexivity. Qed.
Lemma nth_DV_all v F L y k : (forall y, length (F y) = L) ->
  nth k (DV v F L y) 0 = Dv v (fun y' => nth k (F y') 0) y.
Proof.
  intros HL. destruct (Nat.lt_ge_cases k L) as [H|H]; [apply nth_DV; exact H|].
  rewrite nth_overflow by (rewrite length_DV; exact H).
  rewrite (Dv_ext v _ (fun _ => 0)); [symmetry; apply Dv_const|].
  intros y'. apply nth_overflow. rewrite HL. exact H.
Qed.
Lemma DV_ext v F G L y : (forall y, F y = G y) -> DV v F L y = DV v G L y.
Proof. intros H. unfold DV. apply map_ext. intros k. apply Dv_ext. intros y'. rewrite H. reflexivity. Qed.
Lemma tl_DV v F L y : tl (DV v F L y) = DV v (fun y => tl (F y)) (pred L) y.
Proof. unfold DV. destruct L as [|L]; [reflexivity|]. simpl.
  rewrite <- seq_shift, map_map. apply map_ext. intros k. apply Dv_ext. intros y'. symmetry. apply nth_tl. Qed.
Lemma DF_tl (F : asg -> vec) : (forall k, DF (fun y => nth k (F y) 0)) -> forall k, DF (fun y => nth k (tl (F y)) 0).
Proof. intros HF k. apply (DF_ext (fun y => nth (S k) (F y) 0)); [intros; symmetry; apply nth_tl | apply HF]. Qed.
Lemma DF_dot w : forall F, (forall k, DF (fun y => nth k (F y) 0)) -> DF (fun y => dot w (F y)).
Proof.
  induction w as [|a w IH]; intros F HF.
  - simpl. apply DF_const.
  - apply (DF_ext (fun y => a * nth 0 (F y) 0 + dot w (tl (F y)))); [intros; symmetry; apply (dot_cons R rO rI radd rmul Rth)|].
    apply DF_add; [apply DF_scal, HF | apply IH, DF_tl, HF].
Qed.
Lemma Dv_dot v w : forall F L y, (forall k, DF (fun y => nth k (F y) 0)) -> (forall y, length (F y) = L) ->
  Dv v (fun y => dot w (F y)) y = dot w (DV v F L y).
Proof.
  induction w as [|a w IH]; intros F L y HF HL.
  - simpl. apply Dv_const.
  - rewrite (dot_cons R rO rI radd rmul Rth).
    rewrite (Dv_ext v _ (fun y => a * nth 0 (F y) 0 + dot w (tl (F y)))) by (intros; apply (dot_cons R rO rI radd rmul Rth)).
    rewrite Dv_add; [| apply DF_scal, HF | apply DF_dot, DF_tl, HF].
    rewrite Dv_scal by apply HF.
    assert (HL' : forall y0, length (tl (F y0)) = pred L)
      by (intros y0; destruct (F y0) eqn:E; specialize (HL y0); rewrite E in HL; simpl in *; subst; reflexivity).
    rewrite (IH (fun y => tl (F y)) (pred L) y (DF_tl F HF) HL').
    rewrite tl_DV. rewrite nth_DV_all by exact HL. reflexivity.
Qed.
Lemma DF_app (F G : asg -> vec) L1 : (forall y, length (F y) = L1) ->
  (forall k, DF (fun y => nth k (F y) 0)) -> (forall k, DF (fun y => nth k (G y) 0)) ->
  forall k, DF (fun y => nth k (F y ++ G y) 0).
Proof.
  intros HL HF HG k. destruct (Nat.lt_ge_cases k L1) as [H|H].
  - apply (DF_ext (fun y => nth k (F y) 0)); [|apply HF]. intros y. symmetry. apply app_nth1. rewrite HL. exact H.
  - apply (DF_ext (fun y => nth (k - L1) (G y) 0)); [|apply HG]. intros y. rewrite app_nth2 by (rewrite HL; exact H).
    rewrite HL. reflexivity.
Qed.
Lemma DF_concat (G : asg -> nat -> vec) (u : nat -> nat) ins :
  (forall j y, In j ins -> length (G y j) = u j) ->
  (forall j, In j ins -> forall k, DF (fun y => nth k (G y j) 0)) ->
  forall k, DF (fun y => nth k (concat (map (G y) ins)) 0).
Proof.
  induction ins as [|j ins IH]; intros HL HG k; simpl.
  - apply (DF_ext (fun _ => 0)); [intros _; destruct k; reflexivity | apply DF_const].
  - apply (DF_app (fun y => G y j) (fun y => concat (map (G y) ins)) (u j)).
    + intros y. apply HL. simpl; auto.
    + apply HG. simpl; auto.
    + apply IH; intros; [apply HL | apply HG]; simpl; auto.
Qed.
Lemma DV_app v F G L1 L2 y : (forall y, length (F y) = L1) ->
  DV v (fun y => F y ++ G y) (L1 + L2) y = DV v F L1 y ++ DV v G L2 y.
Proof.
  intros HL. unfold DV. rewrite seq_app, map_app. f_equal.
  - apply map_ext_in. intros k Hk. apply in_seq in Hk. apply Dv_ext. intros y'.
    apply app_nth1. rewrite HL. lia.
  - simpl. rewrite (seq_add_map L1 L2), map_map. apply map_ext. intros k.
    apply Dv_ext. intros y'. rewrite app_nth2 by (rewrite HL; lia). rewrite HL. f_equal. lia.
Qed.
Definition sumu (u : nat -> nat) (ins : list nat) : nat := fold_right (fun j acc => (u j + acc)%nat) 0%nat ins.
Lemma DV_concat v (G : asg -> nat -> vec) (u : nat -> nat) ins y :
  (forall j y, In j ins -> length (G y j) = u j) ->
  DV v (fun y' => concat (map (G y') ins)) (sumu u ins) y = concat (map (fun j => DV v (fun y' => G y' j) (u j) y) ins).
Proof.
  induction ins as [|j ins IH]; intros H; simpl.
  - reflexivity.
  - rewrite DV_app by (intros; apply H; simpl; auto). f_equal. apply IH. intros; apply H; simpl; auto.
Qed.
Lemma length_concat_sumu (xs : nat -> vec) (u : nat -> nat) ins :
  (forall j, In j ins -> length (xs j) = u j) -> length (concat (map xs ins)) = sumu u ins.
Proof. induction ins as [|j ins IH]; intros H; simpl; [reflexivity|]. rewrite app_length, H, IH; simpl; auto. intros; apply H; simpl; auto. Qed.
Lemma dep_on_ext S f g : (forall y, f y = g y) -> dep_on S f -> dep_on S g.
Proof. intros H Hf y y' Ha. rewrite <- !H. apply Hf, Ha. Qed.
Lemma nth_repeat0 k n : nth k (repeat 0 n) 0 = 0.
Proof. revert k; induction n as [|n IH]; intros [|k]; simpl; auto. Qed.
Lemma nth_nil0 k : nth k (@nil R) 0 = 0.
Proof. destruct k; reflexivity. Qed.

(* ---------- Kronecker products: entries and lengths ---------- *)
Lemma length_kron x y : length (kron x y) = (length x * length y)%nat.
Proof. unfold Base.kron. induction x as [|a x IH]; simpl; [reflexivity|].
  rewrite app_length, IH. unfold Base.scale. rewrite map_length. reflexivity. Qed.
Lemma nth_scale a y k : nth k (scale a y) 0 = a * nth k y 0.
Proof. unfold Base.scale. revert k; induction y as [|b y IH]; intros [|k]; simpl; try ring. apply IH. Qed.
Lemma nth_kron x y k : nth k (kron x y) 0 = nth (k / length y) x 0 * nth (k mod length y) y 0.
Proof.
  destruct y as [|b y'].
  { rewrite (nth_overflow (kron x [])) by (rewrite length_kron; simpl; lia). destruct (k mod _); simpl; ring. }
  set (y := b :: y'). assert (HL : length y <> 0%nat) by (simpl; lia).
  revert k; induction x as [|a x IH]; intros k.
  - change (kron [] y) with (@nil R). rewrite !nth_nil0. ring.
  - change (kron (a :: x) y) with (scale a y ++ kron x y).
    destruct (Nat.lt_ge_cases k (length y)) as [H|H].
    + rewrite app_nth1 by (unfold Base.scale; rewrite map_length; exact H).
      rewrite nth_scale, Nat.div_small, Nat.mod_small by exact H. reflexivity.
    + rewrite app_nth2 by (unfold Base.scale; rewrite map_length; exact H).
      unfold Base.scale at 1. rewrite map_length. rewrite IH.
      set (k' := (k - length y)%nat).
      assert (E1 : (k / length y = S (k' / length y))%nat).
      { replace k with (1 * length y + k')%nat by (unfold k'; lia). rewrite Nat.div_add_l by exact HL. reflexivity. }
      assert (E2 : (k mod length y = k' mod length y)%nat).
      { replace k with (k' + 1 * length y)%nat by (unfold k'; lia). apply Nat.mod_add. exact HL. }
      rewrite E1, E2. reflexivity.
Qed.
Definition P (ls : list nat) : nat := fold_right Nat.mul 1%nat ls.
Fixpoint kdig (ls : list nat) (k : nat) : list nat :=
  match ls with [] => [] | l :: ls' => (k / P ls') mod l :: kdig ls' k end.
Definition kdigs (ls : list nat) (k : nat) : list nat :=
  match ls with [] => [] | _ :: ls' => k / P ls' :: kdig ls' k end.
(* entryp xs ds = product over positions p of entry ds[p] of xs[p] *)
Definition entryp (xs : list vec) (ds : list nat) : R :=
  prodl (map (fun p => nth (snd p) (fst p) 0) (combine xs ds)).
Lemma div_div_all a b c : (a / b / c = a / (c * b))%nat.
Proof. destruct c as [|c]; [reflexivity|]. destruct b as [|b]; [rewrite Nat.mul_0_r; reflexivity|].
  rewrite Nat.div_div by lia. f_equal. lia. Qed.
Lemma nth_fold_kron k vs : forall v,
  nth k (fold_left kron vs v) 0 = nth (k / P (map (@length R) vs)) v 0 * entryp vs (kdig (map (@length R) vs) k).
Proof.
  induction vs as [|a vs IH]; intros v.
  - change (P (map (@length R) [])) with 1%nat. rewrite Nat.div_1_r. unfold entryp. simpl. ring.
  - simpl fold_left. rewrite IH, nth_kron. rewrite div_div_all. unfold entryp. simpl. ring.
Qed.
Lemma length_fold_kron vs : forall v, length (fold_left kron vs v) = (length v * P (map (@length R) vs))%nat.
Proof. induction vs as [|a vs IH]; intros v; simpl; [lia|]. rewrite IH, length_kron. lia. Qed.
Lemma nth_kronn k xs : xs <> [] -> nth k (kronn xs) 0 = entryp xs (kdigs (map (@length R) xs) k).
Proof. destruct xs as [|v vs]; [congruence|]. intros _. simpl. rewrite nth_fold_kron. unfold entryp. simpl. reflexivity. Qed.
Lemma length_kronn xs : xs <> [] -> length (kronn xs) = P (map (@length R) xs).
Proof. destruct xs as [|v vs]; [congruence|]. intros _. simpl. apply length_fold_kron. Qed.
Lemma entryp_repeat k xs : entryp xs (repeat k (length xs)) = prodl (map (fun x => nth k x 0) xs).
Proof. unfold entryp. induction xs as [|x xs IH]; simpl; [reflexivity|]. rewrite IH. reflexivity. Qed.
Lemma length_kdig ls k : length (kdig ls k) = length ls.
Proof. induction ls; simpl; auto. Qed.
Lemma length_kdigs ls k : length (kdigs ls k) = length ls.
Proof. destruct ls; simpl; [reflexivity|]. rewrite length_kdig. reflexivity. Qed.


(* ---------- product rule on decomposable products ---------- *)
Fixpoint dprodf (v : nat) (fs : list (list nat * (asg -> R))) (y : asg) : option R :=
  match fs with
  | [] => None
  | p :: r => if mem v (fst p) then Some (Dv v (snd p) y * prodf r y)
              else option_map (rmul (snd p y)) (dprodf v r y)
  end.
Definition oget (o : option R) : R := match o with Some r => r | None => 0 end.
Lemma DF_prodf fs : (forall p, In p fs -> DF (snd p)) -> DF (prodf fs).
Proof.
  induction fs as [|p fs IH]; intros H.
  - apply (DF_ext (fun _ => 1)); [intros; reflexivity | apply DF_const].
  - apply (DF_ext (fun y => snd p y * prodf fs y)); [intros; reflexivity|].
    apply DF_mul; [apply H; simpl; auto | apply IH; intros; apply H; simpl; auto].
Qed.
Lemma Dv_prodf v fs : (forall p, In p fs -> dep_on (fst p) (snd p)) -> (forall p, In p fs -> DF (snd p)) ->
  pairwise_disjoint (map fst fs) ->
  forall y, Dv v (prodf fs) y = oget (dprodf v fs y).
Proof.
  induction fs as [|[S f] fs IH]; intros Hd HDF Hp y.
  - simpl. apply (Dv_indep v []); [intros a b _; reflexivity | intros []].
  - simpl in Hp. destruct Hp as [Hp1 Hp2].
    assert (Hr : dep_on (concat (map fst fs)) (prodf fs)) by (apply prodf_dep; intros; apply Hd; simpl; auto).
    assert (Hf : dep_on S f) by (apply (Hd (S, f)); simpl; auto).
    assert (HDf : DF f) by (apply (HDF (S, f)); simpl; auto).
    assert (HDr : DF (prodf fs)) by (apply DF_prodf; intros; apply HDF; simpl; auto).
    simpl dprodf. destruct (mem v S) eqn:Ev.
    + rewrite (Dv_ext v _ (fun y => prodf fs y * f y)) by (intros; unfold Circ.prodf; simpl; ring).
      rewrite (Dv_indep_mul v _ _ _ Hr); [simpl; ring | | exact HDf].
      apply mem_In in Ev. intros Hc. exact (disjoint_concat S _ Hp1 v Ev Hc).
    + rewrite (Dv_ext v _ (fun y => f y * prodf fs y)) by (intros; reflexivity).
      rewrite (Dv_indep_mul v S _ _ Hf); [| intros Hc; apply mem_In in Hc; congruence | exact HDr].
      rewrite IH; [| intros; apply Hd; simpl; auto | intros; apply HDF; simpl; auto | exact Hp2].
      destruct (dprodf v fs y); simpl; ring.
Qed.

(* ---------- the operator ---------- *)
Definition didx (m i t : nat) : nat := (i * (m + 1) + t)%nat.
Definition cidx (m i : nat) : nat := (i * (m + 1) + m)%nat.
Definition zero_inp (u : nat) : inp := {| iscope := []; iunits := u; ifun := fun _ => repeat 0 u |}.
Definition dinp (v : nat) (a : inp) : inp :=
  {| iscope := iscope R D a; iunits := iunits R D a;
     ifun := fun y => map (fun k => Dv v (fun y' => nth k (ifun R D a y') 0) y) (seq 0 (iunits R D a)) |}.
(* first factor whose scope contains v gets differentiated, all others are copied *)
Fixpoint dins (m v : nat) (sc : list (list nat)) (t : nat) (ins : list nat) : option (list nat) :=
  match ins with
  | [] => None
  | j :: r => if mem v (nth j sc []) then Some (didx m j t :: map (cidx m) r)
              else option_map (cons (cidx m j)) (dins m v sc t r)
  end.
Definition CN (m : nat) (n : node) : node :=
  match n with
  | Circ.NIn _ _ a => NIn a
  | Circ.NSum _ _ W ins => NSum W (map (cidx m) ins)
  | Circ.NHad _ _ ins => NHad (map (cidx m) ins)
  | Circ.NKron _ _ ins => NKron (map (cidx m) ins)
  end.
Definition DN (m : nat) (sc : list (list nat)) (u : nat) (v t : nat) (n : node) : node :=
  match n with
  | Circ.NIn _ _ a => if mem v (iscope R D a) then NIn (dinp v a) else NIn (zero_inp (iunits R D a))
  | Circ.NSum _ _ W ins => NSum W (map (fun j => didx m j t) ins)
  | Circ.NHad _ _ ins => match dins m v sc t ins with Some l => NHad l | None => NIn (zero_inp u) end
  | Circ.NKron _ _ ins => match dins m v sc t ins with Some l => NKron l | None => NIn (zero_inp u) end
  end.
Definition block (vars : list nat) (sc : list (list nat)) (u : nat) (n : node) : list node :=
  map (fun t => DN (length vars) sc u (nth t vars 0%nat) t n) (seq 0 (length vars)) ++ [CN (length vars) n].
Definition dummy : node := NHad [].
Definition differentiate (vars : list nat) (c : circuit) : circuit :=
  concat (map (fun i => block vars (scopes c) (nth i (units c) 0%nat) (nth i c dummy)) (seq 0 (length c))).

Definition node_ins (n : node) : list nat :=
  match n with Circ.NIn _ _ _ => [] | Circ.NSum _ _ _ ins | Circ.NHad _ _ ins | Circ.NKron _ _ ins => ins end.

(* ---------- evaluation of appended blocks ---------- *)
Lemma eval_node_ext n y vals vals' : (forall j, In j (node_ins n) -> nth j vals [] = nth j vals' []) ->
  eval_node n y vals = eval_node n y vals'.
Proof.
  destruct n as [a|W ins|ins|ins]; simpl; intros H; [reflexivity| | |].
  - apply map_ext. intros w. f_equal. f_equal. apply map_ext_in. exact H.
  - f_equal. apply map_ext_in. exact H.
  - f_equal. apply map_ext_in. exact H.
Qed.
Lemma eval_from_old b y : forall acc i, i < length acc -> nth i (eval_from b y acc) [] = nth i acc [].
Proof. induction b as [|n b IH]; intros acc i Hi; simpl; [reflexivity|].
  rewrite IH by (rewrite app_length; simpl; lia). apply app_nth1. exact Hi. Qed.
Lemma eval_from_new b y : forall acc t,
  (forall n, In n b -> forall j, In j (node_ins n) -> j < length acc) -> t < length b ->
  nth (length acc + t) (eval_from b y acc) [] = eval_node (nth t b dummy) y acc.
Proof.
  induction b as [|n b IH]; intros acc t Hb Ht; simpl in Ht; [lia|]. simpl eval_from. destruct t as [|t].
  - rewrite Nat.add_0_r. rewrite eval_from_old by (rewrite app_length; simpl; lia). rewrite nth_snoc_eq. reflexivity.
  - replace (length acc + S t)%nat with (length (acc ++ [eval_node n y acc]) + t)%nat by (rewrite app_length; simpl; lia).
    rewrite IH.
    + simpl nth. apply eval_node_ext. intros j Hj. apply app_nth1.
      apply (Hb (nth t b dummy)); [right; apply nth_In; lia | exact Hj].
    + intros n0 Hn0 j Hj. rewrite app_length. specialize (Hb n0 (or_intror Hn0) j Hj). lia.
    + lia.
Qed.
Lemma eval_app_old a b y i : i < length a -> nth i (eval (a ++ b) y) [] = nth i (eval a y) [].
Proof. intros H. unfold Circ.eval. rewrite (eval_from_app R rO radd rmul D). apply eval_from_old.
  change (i < length (eval a y)). rewrite (length_eval R rO radd rmul D). exact H. Qed.
Lemma eval_app_new a b y t : (forall n, In n b -> forall j, In j (node_ins n) -> j < length a) -> t < length b ->
  nth (length a + t) (eval (a ++ b) y) [] = eval_node (nth t b dummy) y (eval a y).
Proof. intros Hb Ht. unfold Circ.eval. rewrite (eval_from_app R rO radd rmul D).
  rewrite <- (length_eval R rO radd rmul D a y) at 1. apply eval_from_new; [|exact Ht].
  change (forall n, In n b -> forall j, In j (node_ins n) -> j < length (eval a y)).
  rewrite (length_eval R rO radd rmul D). exact Hb. Qed.

(* ---------- structure of the result ---------- *)
Lemma length_block vars sc u n : length (block vars sc u n) = (length vars + 1)%nat.
Proof. unfold block. rewrite app_length, map_length, seq_length. reflexivity. Qed.
Lemma length_concat_const {A} (l : list (list A)) k : (forall x, In x l -> length x = k) -> length (concat l) = (length l * k)%nat.
Proof. induction l as [|x l IH]; intros H; simpl; [reflexivity|]. rewrite app_length, (H x) by (simpl; auto). rewrite IH by (intros; apply H; simpl; auto). reflexivity. Qed.
Lemma length_differentiate vars c : length (differentiate vars c) = (length c * (length vars + 1))%nat.
Proof. unfold differentiate. rewrite (length_concat_const _ (length vars + 1)).
  - rewrite map_length, seq_length. reflexivity.
  - intros x Hx. apply in_map_iff in Hx. destruct Hx as [i [<- _]]. apply length_block. Qed.
Lemma ok_node_ins pos us sc n : ok_node pos us sc n -> forall j, In j (node_ins n) -> j < pos.
Proof. destruct n as [a|W ins|ins|ins]; simpl; intros H j Hj; [contradiction| | |]; apply H; exact Hj. Qed.
Lemma ok_ins c : ok c -> forall i, i < length c -> forall j, In j (node_ins (nth i c dummy)) -> j < i.
Proof.
  induction 1 as [|pre n Hok IH Hn]; intros i Hi j Hj; [simpl in Hi; lia|].
  rewrite app_length in Hi. simpl in Hi.
  assert (Hcase : i < length pre \/ i = length pre) by lia. destruct Hcase as [Hlt | ->].
  - rewrite app_nth1 in Hj by exact Hlt. apply IH; assumption.
  - rewrite nth_snoc_eq in Hj. apply (ok_node_ins _ _ _ _ Hn). exact Hj.
Qed.
Lemma dins_ext m v sc sc' t ins : (forall j, In j ins -> nth j sc [] = nth j sc' []) ->
  dins m v sc t ins = dins m v sc' t ins.
Proof. induction ins as [|j r IH]; intros H; simpl; [reflexivity|].
  rewrite (H j) by (simpl; auto). rewrite IH by (intros; apply H; simpl; auto). reflexivity. Qed.
Lemma block_ext vars sc sc' u n : (forall j, In j (node_ins n) -> nth j sc [] = nth j sc' []) ->
  block vars sc u n = block vars sc' u n.
Proof. intros H. unfold block. f_equal. apply map_ext. intros t.
  destruct n as [a|W ins|ins|ins]; simpl in *; try reflexivity; rewrite (dins_ext _ _ sc sc') by exact H; reflexivity. Qed.
Lemma differentiate_snoc vars pre n : ok pre -> ok_node (length pre) (units pre) (scopes pre) n ->
  differentiate vars (pre ++ [n]) = differentiate vars pre ++ block vars (scopes pre) (node_units n (units pre)) n.
Proof.
  intros Hok Hn. unfold differentiate. rewrite app_length. simpl length. rewrite Nat.add_1_r, seq_S, map_app, concat_app.
  simpl. rewrite app_nil_r. f_equal.
  - f_equal. apply map_ext_in. intros i Hi. apply in_seq in Hi.
    rewrite app_nth1 by lia. rewrite (un_lt R D) by lia. apply block_ext. intros j Hj.
    apply (sc_lt R D). pose proof (ok_ins pre Hok i (proj2 Hi) j Hj). lia.
  - rewrite nth_snoc_eq, (un_eq R D). apply block_ext. intros j Hj. apply (sc_lt R D).
    apply (ok_node_ins _ _ _ _ Hn). exact Hj.
Qed.


(* ---------- entries of product nodes as prodf ---------- *)
Definition fsd (E : asg -> list vec) (sc : list (list nat)) (ins ds : list nat) : list (list nat * (asg -> R)) :=
  map (fun p => (nth (fst p) sc [], fun y => nth (snd p) (nth (fst p) (E y) []) 0)) (combine ins ds).
Lemma prodf_fsd E sc ins : forall ds y, prodf (fsd E sc ins ds) y = entryp (map (get (E y)) ins) ds.
Proof. unfold Circ.prodf, entryp, fsd, Circ.get. induction ins as [|j r IH]; intros [|d ds] y; simpl; try reflexivity.
  rewrite IH. reflexivity. Qed.
Lemma fsd_fst E sc ins : forall ds, length ds = length ins -> map fst (fsd E sc ins ds) = map (fun j => nth j sc []) ins.
Proof. unfold fsd. induction ins as [|j r IH]; intros [|d ds] H; simpl in *; try discriminate; [reflexivity|].
  f_equal. apply IH. lia. Qed.
Lemma fsd_dep E sc ins ds :
  (forall j, In j ins -> forall k, dep_on (nth j sc []) (fun y => nth k (nth j (E y) []) 0)) ->
  forall p, In p (fsd E sc ins ds) -> dep_on (fst p) (snd p).
Proof. intros H p Hp. unfold fsd in Hp. apply in_map_iff in Hp. destruct Hp as [[j d] [<- Hjd]]. simpl.
  apply H. apply in_combine_l in Hjd. exact Hjd. Qed.
Lemma fsd_DF E sc ins ds :
  (forall j, In j ins -> forall k, DF (fun y => nth k (nth j (E y) []) 0)) ->
  forall p, In p (fsd E sc ins ds) -> DF (snd p).
Proof. intros H p Hp. unfold fsd in Hp. apply in_map_iff in Hp. destruct Hp as [[j d] [<- Hjd]]. simpl.
  apply H. apply in_combine_l in Hjd. exact Hjd. Qed.
Lemma prod_dep E sc ins ds (f : asg -> R) : length ds = length ins ->
  (forall j, In j ins -> forall k, dep_on (nth j sc []) (fun y => nth k (nth j (E y) []) 0)) ->
  (forall y, f y = prodf (fsd E sc ins ds) y) ->
  dep_on (concat (map (fun j => nth j sc []) ins)) f.
Proof. intros HL Hd Hf. rewrite <- (fsd_fst E sc ins ds HL).
  apply (dep_on_ext _ (prodf (fsd E sc ins ds))); [intros; symmetry; apply Hf|]. apply prodf_dep. apply fsd_dep. exact Hd. Qed.
Lemma had_entry E sc ins k y : ins <> [] ->
  nth k (hadn (map (get (E y)) ins)) 0 = prodf (fsd E sc ins (repeat k (length ins))) y.
Proof. intros Hne. rewrite (nth_hadn R rO rI radd rmul Rth) by (intros E0; apply map_eq_nil in E0; contradiction).
  rewrite prodf_fsd. rewrite <- (map_length (get (E y)) ins). symmetry. apply entryp_repeat. Qed.
Lemma kron_entry E sc (u : nat -> nat) ins k y : ins <> [] -> (forall j, In j ins -> length (nth j (E y) []) = u j) ->
  nth k (kronn (map (get (E y)) ins)) 0 = prodf (fsd E sc ins (kdigs (map u ins) k)) y.
Proof. intros Hne HL. rewrite nth_kronn by (intros E0; apply map_eq_nil in E0; contradiction).
  rewrite prodf_fsd. rewrite map_map. f_equal. f_equal. apply map_ext_in. intros j Hj. apply HL, Hj. Qed.
Lemma in_scope_concat (sc : list (list nat)) ins j u : In j ins -> In u (nth j sc []) -> In u (concat (map (fun j => nth j sc []) ins)).
Proof. intros Hj Hu. apply in_concat. exists (nth j sc []). split; [apply in_map_iff; exists j; auto | exact Hu]. Qed.

(* ---------- lengths and dependencies of every node of an ok circuit ---------- *)
Definition AB (pre : circuit) : Prop :=
  forall i, i < length pre ->
    (forall y, length (nth i (eval pre y) []) = nth i (units pre) 0%nat) /\
    (forall k, dep_on (nth i (scopes pre) []) (fun y => nth k (nth i (eval pre y) []) 0)).
Theorem ok_AB pre : ok pre -> AB pre.
Proof.
  induction 1 as [|pre n Hok IH Hn]; intros i Hi.
  - simpl in Hi. lia.
  - rewrite app_length in Hi. simpl in Hi.
    assert (Hcase : i < length pre \/ i = length pre) by lia. destruct Hcase as [Hlt | ->].
    + destruct (IH i Hlt) as [IA IB]. split.
      * intros y. rewrite (ev_lt R rO radd rmul D), (un_lt R D) by exact Hlt. apply IA.
      * intros k. rewrite (sc_lt R D) by exact Hlt.
        apply (dep_on_ext _ (fun y => nth k (nth i (eval pre y) []) 0)); [intros y; rewrite (ev_lt R rO radd rmul D) by exact Hlt; reflexivity | apply IB].
    + set (sc := scopes pre) in *. set (us := units pre) in *.
      destruct n as [inp0 | W ins | ins | ins]; simpl in Hn.
      * destruct Hn as [HL HD]. split.
        -- intros y. rewrite (ev_eq R rO radd rmul D), (un_eq R D). simpl. apply HL.
        -- intros k. rewrite (sc_eq R D). simpl.
           apply (dep_on_ext _ (fun y => nth k (ifun R D inp0 y) 0)); [intros y; rewrite (ev_eq R rO radd rmul D); reflexivity | apply HD].
      * destruct Hn as [Hne [Hpos Hsm]].
        assert (IAj : forall j y, In j ins -> length (nth j (eval pre y) []) = nth j us 0%nat)
          by (intros j y Hj; apply (IH j (Hpos j Hj))).
        split.
        -- intros y. rewrite (ev_eq R rO radd rmul D), (un_eq R D). simpl. apply map_length.
        -- intros k. rewrite (sc_eq R D). simpl. fold sc.
           apply (dep_on_ext _ (fun y => dot (nth k W []) (concat (map (get (eval pre y)) ins)))).
           { intros y. rewrite (ev_eq R rO radd rmul D). simpl. rewrite (nth_map_dot R rO radd rmul). reflexivity. }
           intros y y' Ha. f_equal. f_equal. apply map_ext_in. intros j Hj. unfold Circ.get.
           apply (list_eq_nth0 R rO); [rewrite !IAj by exact Hj; reflexivity|].
           intros k'. destruct (IH j (Hpos j Hj)) as [_ IB]. apply IB.
           intros u Hu. apply Ha. apply (in_scope_concat sc ins j u Hj Hu).
      * destruct Hn as [Hne [Hpos [Hun Hdj]]].
        set (u0 := match ins with [] => 0%nat | j0 :: _ => nth j0 us 0%nat end) in *.
        assert (IAj : forall j y, In j ins -> length (nth j (eval pre y) []) = u0)
          by (intros j y Hj; rewrite <- (Hun j Hj); apply (IH j (Hpos j Hj))).
        split.
        -- intros y. rewrite (ev_eq R rO radd rmul D), (un_eq R D). simpl. fold us. fold u0.
           apply (length_hadn R rmul); [intros E0; apply map_eq_nil in E0; contradiction|].
           intros x Hx. apply in_map_iff in Hx. destruct Hx as [j [<- Hj]]. unfold Circ.get. apply IAj, Hj.
        -- intros k. rewrite (sc_eq R D). simpl. fold sc.
           apply (prod_dep (eval pre) sc ins (repeat k (length ins))); [apply repeat_length | |].
           ++ intros j Hj. apply (IH j (Hpos j Hj)).
           ++ intros y. rewrite (ev_eq R rO radd rmul D). simpl. apply had_entry. exact Hne.
      * destruct Hn as [Hne [Hpos Hdj]].
        assert (IAj : forall j y, In j ins -> length (nth j (eval pre y) []) = nth j us 0%nat)
          by (intros j y Hj; apply (IH j (Hpos j Hj))).
        split.
        -- intros y. rewrite (ev_eq R rO radd rmul D), (un_eq R D). simpl. fold us.
           rewrite length_kronn by (intros E0; apply map_eq_nil in E0; contradiction).
           rewrite map_map. unfold P. f_equal. apply map_ext_in. intros j Hj. unfold Circ.get. apply IAj, Hj.
        -- intros k. rewrite (sc_eq R D). simpl. fold sc.
           apply (prod_dep (eval pre) sc ins (kdigs (map (fun j => nth j us 0%nat) ins) k)); [rewrite length_kdigs; apply map_length | |].
           ++ intros j Hj. apply (IH j (Hpos j Hj)).
           ++ intros y. rewrite (ev_eq R rO radd rmul D). simpl. apply kron_entry; [exact Hne|]. intros j Hj. apply IAj, Hj.
Qed.


(* ---------- every unit of every node of an ok circuit with DF inputs is DF ---------- *)
Definition inputs_DF (c : circuit) : Prop :=
  forall a, In (NIn a) c -> forall k, DF (fun y => nth k (ifun R D a y) 0).
Lemma inputs_DF_pre pre n : inputs_DF (pre ++ [n]) -> inputs_DF pre.
Proof. intros H a Ha. apply H. apply in_or_app. left. exact Ha. Qed.
Definition ADF (pre : circuit) : Prop :=
  forall i, i < length pre -> forall k, DF (fun y => nth k (nth i (eval pre y) []) 0).
Theorem ok_ADF pre : ok pre -> inputs_DF pre -> ADF pre.
Proof.
  induction 1 as [|pre n Hok IH Hn]; intros HI i Hi k.
  - simpl in Hi. lia.
  - pose proof (ok_AB pre Hok) as HAB.
    specialize (IH (inputs_DF_pre pre n HI)).
    rewrite app_length in Hi. simpl in Hi.
    assert (Hcase : i < length pre \/ i = length pre) by lia. destruct Hcase as [Hlt | ->].
    + apply (DF_ext (fun y => nth k (nth i (eval pre y) []) 0));
        [intros y; rewrite (ev_lt R rO radd rmul D) by exact Hlt; reflexivity | apply IH, Hlt].
    + set (sc := scopes pre) in *. set (us := units pre) in *.
      destruct n as [inp0 | W ins | ins | ins]; simpl in Hn.
      * apply (DF_ext (fun y => nth k (ifun R D inp0 y) 0)); [intros y; rewrite (ev_eq R rO radd rmul D); reflexivity |].
        apply HI. apply in_or_app. right. simpl; auto.
      * destruct Hn as [Hne [Hpos Hsm]].
        apply (DF_ext (fun y => dot (nth k W []) (concat (map (get (eval pre y)) ins)))).
        { intros y. rewrite (ev_eq R rO radd rmul D). simpl. rewrite (nth_map_dot R rO radd rmul). reflexivity. }
        apply DF_dot. apply (DF_concat (fun y j => get (eval pre y) j) (fun j => nth j us 0%nat)).
        -- intros j y Hj. unfold Circ.get. apply (HAB j (Hpos j Hj)).
        -- intros j Hj k'. unfold Circ.get. apply IH, Hpos, Hj.
      * destruct Hn as [Hne [Hpos [Hun Hdj]]].
        apply (DF_ext (prodf (fsd (eval pre) sc ins (repeat k (length ins))))).
        { intros y. rewrite (ev_eq R rO radd rmul D). simpl. symmetry. apply had_entry. exact Hne. }
        apply DF_prodf, fsd_DF. intros j Hj. apply IH, Hpos, Hj.
      * destruct Hn as [Hne [Hpos Hdj]].
        apply (DF_ext (prodf (fsd (eval pre) sc ins (kdigs (map (fun j => nth j us 0%nat) ins) k)))).
        { intros y. rewrite (ev_eq R rO radd rmul D). simpl. symmetry. apply kron_entry; [exact Hne|].
          intros j Hj. apply (HAB j (Hpos j Hj)). }
        apply DF_prodf, fsd_DF. intros j Hj. apply IH, Hpos, Hj.
Qed.

(* ---------- index arithmetic and closedness of blocks ---------- *)
Lemma didx_lt m N j t : j < N -> t < m -> didx m j t < N * (m + 1).
Proof. unfold didx. intros. nia. Qed.
Lemma cidx_lt m N j : j < N -> cidx m j < N * (m + 1).
Proof. unfold cidx. intros. nia. Qed.
Lemma dins_bound m v sc t N ins : t < m -> (forall j, In j ins -> j < N) ->
  forall l, dins m v sc t ins = Some l -> forall x, In x l -> x < N * (m + 1).
Proof.
  intros Ht. induction ins as [|j r IH]; intros H l; simpl; [discriminate|].
  destruct (mem v (nth j sc [])).
  - intros E; injection E as <-. intros x [<-|Hx].
    + apply didx_lt; [apply H; simpl; auto | exact Ht].
    + apply in_map_iff in Hx. destruct Hx as [j' [<- Hj']]. apply cidx_lt. apply H; simpl; auto.
  - destruct (dins m v sc t r) as [l0|] eqn:E0; simpl; [|discriminate]. intros E; injection E as <-. intros x [<-|Hx].
    + apply cidx_lt, H; simpl; auto.
    + apply (IH (fun j' Hj' => H j' (or_intror Hj')) l0 eq_refl x Hx).
Qed.
Lemma block_closed vars sc u n N : (forall j, In j (node_ins n) -> j < N) ->
  forall n', In n' (block vars sc u n) -> forall x, In x (node_ins n') -> x < N * (length vars + 1).
Proof.
  intros H n' Hn'. unfold block in Hn'. apply in_app_or in Hn'. destruct Hn' as [Hn'|[<-|[]]].
  - apply in_map_iff in Hn'. destruct Hn' as [t [<- Ht]]. apply in_seq in Ht.
    destruct n as [a|W ins|ins|ins]; simpl in *.
    + destruct (mem _ _); simpl; intros x [].
    + intros x Hx. apply in_map_iff in Hx. destruct Hx as [j [<- Hj]]. apply didx_lt; [apply H, Hj | lia].
    + destruct (dins _ _ _ _ _) as [l|] eqn:E; simpl; [|intros x []].
      intros x Hx. apply (dins_bound _ _ _ _ N ins (proj2 Ht) H l E x Hx).
    + destruct (dins _ _ _ _ _) as [l|] eqn:E; simpl; [|intros x []].
      intros x Hx. apply (dins_bound _ _ _ _ N ins (proj2 Ht) H l E x Hx).
  - destruct n as [a|W ins|ins|ins]; simpl in *; intros x Hx; try contradiction;
      apply in_map_iff in Hx; destruct Hx as [j [<- Hj]]; apply cidx_lt, H, Hj.
Qed.
Lemma nth_block_D vars sc u n t : t < length vars ->
  nth t (block vars sc u n) dummy = DN (length vars) sc u (nth t vars 0%nat) t n.
Proof. intros Ht. unfold block. rewrite app_nth1 by (rewrite map_length, seq_length; exact Ht).
  apply (nth_map_seq (fun t => DN (length vars) sc u (nth t vars 0%nat) t n)). exact Ht. Qed.
Lemma nth_block_C vars sc u n : nth (length vars) (block vars sc u n) dummy = CN (length vars) n.
Proof. unfold block. rewrite app_nth2 by (rewrite map_length, seq_length; lia).
  rewrite map_length, seq_length, Nat.sub_diag. reflexivity. Qed.
Lemma CN_eval m n y valsD vals : (forall j, In j (node_ins n) -> nth (cidx m j) valsD [] = nth j vals []) ->
  eval_node (CN m n) y valsD = eval_node n y vals.
Proof.
  destruct n as [a|W ins|ins|ins]; simpl; intros H; [reflexivity| | |]; rewrite map_map.
  - apply map_ext. intros w. f_equal. f_equal. apply map_ext_in. exact H.
  - f_equal. apply map_ext_in. exact H.
  - f_equal. apply map_ext_in. exact H.
Qed.

(* ---------- semantics of the rewritten product inputs ---------- *)
Lemma entryp_cons x xs d ds : entryp (x :: xs) (d :: ds) = nth d x 0 * entryp xs ds.
Proof. reflexivity. Qed.
Lemma entryp_cidx m valsD vals r ds : (forall j, In j r -> nth (cidx m j) valsD [] = nth j vals []) ->
  entryp (map (get valsD) (map (cidx m) r)) ds = entryp (map (get vals) r) ds.
Proof. intros H. f_equal. rewrite map_map. apply map_ext_in. exact H. Qed.
Lemma fsd_cons E sc j r d ds :
  fsd E sc (j :: r) (d :: ds) = (nth j sc [], fun y => nth d (nth j (E y) []) 0) :: fsd E sc r ds.
Proof. reflexivity. Qed.
Lemma dins_entry m v sc t (E : asg -> list vec) y valsD : forall ins,
  (forall j, In j ins -> nth (cidx m j) valsD [] = nth j (E y) []) ->
  (forall j, In j ins -> forall d, nth d (nth (didx m j t) valsD []) 0 = Dv v (fun y' => nth d (nth j (E y') []) 0) y) ->
  forall ds, length ds = length ins ->
  dprodf v (fsd E sc ins ds) y = option_map (fun l => entryp (map (get valsD) l) ds) (dins m v sc t ins).
Proof.
  induction ins as [|j r IH]; intros Hc Hd [|d ds] HL; simpl in HL; try discriminate; [reflexivity|].
  rewrite fsd_cons. simpl dprodf. simpl dins. destruct (mem v (nth j sc [])).
  - simpl option_map. f_equal. simpl map. rewrite entryp_cons, (entryp_cidx m valsD (E y)) by (intros; apply Hc; simpl; auto).
    rewrite <- (prodf_fsd E sc). unfold Circ.get. rewrite Hd by (simpl; auto). reflexivity.
  - rewrite (IH (fun j' Hj' => Hc j' (or_intror Hj')) (fun j' Hj' => Hd j' (or_intror Hj')) ds) by lia.
    destruct (dins m v sc t r) as [l|]; simpl; [|reflexivity]. f_equal. rewrite entryp_cons.
    change (get valsD (cidx m j)) with (nth (cidx m j) valsD []). rewrite Hc by (simpl; auto). reflexivity.
Qed.
Lemma dins_map m v sc t (f g : nat -> nat) ins :
  (forall j, In j ins -> f (didx m j t) = g j /\ f (cidx m j) = g j) ->
  forall l, dins m v sc t ins = Some l -> map f l = map g ins.
Proof.
  induction ins as [|j r IH]; intros H l; simpl; [discriminate|].
  destruct (mem v (nth j sc [])).
  - intros E; injection E as <-. simpl. f_equal; [apply H; simpl; auto|].
    rewrite map_map. apply map_ext_in. intros j' Hj'. apply H; simpl; auto.
  - destruct (dins m v sc t r) as [l0|] eqn:E0; simpl; [|discriminate]. intros E; injection E as <-. simpl.
    f_equal; [apply H; simpl; auto|]. apply IH; [intros; apply H; simpl; auto | reflexivity].
Qed.
Lemma Dv_fsd m v sc t E y valsD ins ds : length ds = length ins ->
  (forall j, In j ins -> forall k, dep_on (nth j sc []) (fun y => nth k (nth j (E y) []) 0)) ->
  (forall j, In j ins -> forall k, DF (fun y => nth k (nth j (E y) []) 0)) ->
  pairwise_disjoint (map (fun j => nth j sc []) ins) ->
  (forall j, In j ins -> nth (cidx m j) valsD [] = nth j (E y) []) ->
  (forall j, In j ins -> forall d, nth d (nth (didx m j t) valsD []) 0 = Dv v (fun y' => nth d (nth j (E y') []) 0) y) ->
  Dv v (prodf (fsd E sc ins ds)) y = oget (option_map (fun l => entryp (map (get valsD) l) ds) (dins m v sc t ins)).
Proof.
  intros HL Hdep HDF Hdj Hc Hd.
  rewrite Dv_prodf; [| apply fsd_dep; exact Hdep | apply fsd_DF; exact HDF | rewrite fsd_fst by exact HL; exact Hdj].
  rewrite (dins_entry m v sc t E y valsD ins Hc Hd ds HL). reflexivity.
Qed.


(* ---------- the invariant ---------- *)
Definition CD (vars : list nat) (pre : circuit) : Prop :=
  forall i, i < length pre ->
    (forall y, nth (cidx (length vars) i) (eval (differentiate vars pre) y) [] = nth i (eval pre y) []) /\
    (forall t y, t < length vars ->
       nth (didx (length vars) i t) (eval (differentiate vars pre) y) []
       = DV (nth t vars 0%nat) (fun y' => nth i (eval pre y') []) (nth i (units pre) 0%nat) y).

Lemma in_map_eq (f g : nat -> nat) l l' c : map f l = map g l' -> (forall j, In j l' -> g j = c) ->
  forall x, In x l -> f x = c.
Proof. intros E H x Hx. assert (Hin : In (f x) (map g l')) by (rewrite <- E; apply in_map; exact Hx).
  apply in_map_iff in Hin. destruct Hin as [j [<- Hj]]. apply H, Hj. Qed.

Theorem differentiate_inv vars pre : ok pre -> inputs_DF pre -> CD vars pre.
Proof.
  induction 1 as [|pre n Hok IH Hn]; intros HI i Hi; [simpl in Hi; lia|].
  specialize (IH (inputs_DF_pre pre n HI)).
  pose proof (ok_AB pre Hok) as HAB.
  pose proof (ok_ADF pre Hok (inputs_DF_pre pre n HI)) as HF.
  pose proof (ok_AB (pre ++ [n]) (ok_snoc R rO D pre n Hok Hn)) as HAB'.
  rewrite differentiate_snoc by assumption.
  set (m := length vars) in *.
  set (Dp := differentiate vars pre) in *. set (sc := scopes pre) in *. set (us := units pre) in *.
  set (blk := block vars sc (node_units n us) n).
  assert (HLD : length Dp = (length pre * (m + 1))%nat) by apply length_differentiate.
  assert (Hnins : forall j, In j (node_ins n) -> j < length pre) by (apply (ok_node_ins _ _ _ _ Hn)).
  assert (Hclosed : forall n', In n' blk -> forall x, In x (node_ins n') -> x < length Dp).
  { rewrite HLD. apply block_closed. exact Hnins. }
  rewrite app_length in Hi. simpl in Hi.
  assert (Hcase : i < length pre \/ i = length pre) by lia. destruct Hcase as [Hlt | ->].
  - (* old node *)
    destruct (IH i Hlt) as [IC ID]. split.
    + intros y. rewrite eval_app_old by (rewrite HLD; apply cidx_lt; exact Hlt). rewrite IC.
      symmetry. apply (ev_lt R rO radd rmul D). exact Hlt.
    + intros t y Ht. rewrite eval_app_old by (rewrite HLD; apply didx_lt; assumption). rewrite ID by exact Ht.
      rewrite (un_lt R D) by exact Hlt. apply DV_ext. intros y'. symmetry. apply (ev_lt R rO radd rmul D). exact Hlt.
  - (* the new node *)
    assert (EC : forall y, nth (cidx m (length pre)) (eval (Dp ++ blk) y) [] = eval_node (CN m n) y (eval Dp y)).
    { intros y. replace (cidx m (length pre)) with (length Dp + m)%nat by (rewrite HLD; reflexivity).
      rewrite eval_app_new; [|exact Hclosed | unfold blk; rewrite length_block; fold m; lia].
      unfold blk, m. rewrite nth_block_C. reflexivity. }
    assert (ED : forall t y, t < m -> nth (didx m (length pre) t) (eval (Dp ++ blk) y) []
                 = eval_node (DN m sc (node_units n us) (nth t vars 0%nat) t n) y (eval Dp y)).
    { intros t y Ht. replace (didx m (length pre) t) with (length Dp + t)%nat by (rewrite HLD; reflexivity).
      rewrite eval_app_new; [|exact Hclosed | unfold blk; rewrite length_block; fold m; lia].
      unfold blk. rewrite nth_block_D by exact Ht. reflexivity. }
    assert (HA : forall j, j < length pre -> forall y, length (nth j (eval pre y) []) = nth j us 0%nat)
      by (intros j Hj; apply (HAB j Hj)).
    assert (HB : forall j, j < length pre -> forall k, dep_on (nth j sc []) (fun y => nth k (nth j (eval pre y) []) 0))
      by (intros j Hj; apply (HAB j Hj)).
    assert (HC : forall j, j < length pre -> forall y, nth (cidx m j) (eval Dp y) [] = nth j (eval pre y) [])
      by (intros j Hj; apply (IH j Hj)).
    assert (HD : forall j, j < length pre -> forall t y, t < m -> nth (didx m j t) (eval Dp y) []
                 = DV (nth t vars 0%nat) (fun y' => nth j (eval pre y') []) (nth j us 0%nat) y)
      by (intros j Hj; apply (IH j Hj)).
    assert (HDe : forall j, j < length pre -> forall t y d, t < m -> nth d (nth (didx m j t) (eval Dp y) []) 0
                 = Dv (nth t vars 0%nat) (fun y' => nth d (nth j (eval pre y') []) 0) y).
    { intros j Hj t y d Ht. rewrite (HD j Hj t y Ht). apply nth_DV_all. apply HA, Hj. }
    assert (HLc : forall j, j < length pre -> forall y, length (nth (cidx m j) (eval Dp y) []) = nth j us 0%nat)
      by (intros j Hj y; rewrite HC by exact Hj; apply HA, Hj).
    assert (HLd : forall j, j < length pre -> forall t y, t < m -> length (nth (didx m j t) (eval Dp y) []) = nth j us 0%nat)
      by (intros j Hj t y Ht; rewrite HD by assumption; apply length_DV).
    assert (HLn : forall y, length (eval_node n y (eval pre y)) = node_units n us).
    { intros y. destruct (HAB' (length pre)) as [HA' _]; [rewrite app_length; simpl; lia|].
      specialize (HA' y). rewrite (ev_eq R rO radd rmul D), (un_eq R D) in HA'. exact HA'. }
    split.
    + intros y. rewrite EC, (ev_eq R rO radd rmul D). apply CN_eval. intros j Hj. apply HC, Hnins, Hj.
    + intros t y Ht. rewrite ED by exact Ht. rewrite (un_eq R D). fold us.
      rewrite (DV_ext _ _ (fun y' => eval_node n y' (eval pre y'))) by (intros y'; apply (ev_eq R rO radd rmul D)).
      set (v := nth t vars 0%nat).
      destruct n as [a | W ins | ins | ins]; simpl in Hn; simpl in Hnins.
      * (* input *)
        destruct Hn as [HL HDp]. simpl DN. destruct (mem v (iscope R D a)) eqn:Ev; [reflexivity|].
        simpl. apply (list_eq_nth0 R rO); [rewrite repeat_length, length_DV; reflexivity|].
        intros k. rewrite nth_repeat0, nth_DV_all by exact HL. symmetry.
        apply (Dv_indep v (iscope R D a)); [apply HDp|]. intros Hc. apply mem_In in Hc. congruence.
      * (* sum *)
        destruct Hn as [Hne [Hpos Hsm]]. simpl.
        apply (list_eq_nth0 R rO); [rewrite map_length, length_DV; reflexivity|].
        intros k. rewrite (nth_map_dot R rO radd rmul).
        rewrite nth_DV_all by (intros; apply map_length).
        rewrite (Dv_ext v _ (fun y' => dot (nth k W []) (concat (map (get (eval pre y')) ins))))
          by (intros y'; apply (nth_map_dot R rO radd rmul)).
        rewrite (Dv_dot v _ _ (sumu (fun j => nth j us 0%nat) ins));
          [| apply (DF_concat (fun y' j => get (eval pre y') j) (fun j => nth j us 0%nat));
             [intros j y' Hj; unfold Circ.get; apply HA, Hpos, Hj | intros j Hj k'; unfold Circ.get; apply HF, Hpos, Hj]
           | intros y'; apply length_concat_sumu; intros j Hj; unfold Circ.get; apply HA, Hpos, Hj].
        f_equal.
        rewrite (DV_concat v (fun y' j => get (eval pre y') j)) by (intros j y' Hj; unfold Circ.get; apply HA, Hpos, Hj).
        f_equal. rewrite map_map. apply map_ext_in. intros j Hj. unfold Circ.get.
        apply HD; [apply Hpos, Hj | exact Ht].
      * (* hadamard *)
        destruct Hn as [Hne [Hpos [Hun Hdj]]]. fold us in Hun. fold sc in Hdj.
        set (u0 := match ins with [] => 0%nat | j0 :: _ => nth j0 us 0%nat end) in *.
        assert (Hent : forall k, Dv v (fun y' => nth k (eval_node (NHad ins) y' (eval pre y')) 0) y
                 = oget (option_map (fun l => entryp (map (get (eval Dp y)) l) (repeat k (length ins))) (dins m v sc t ins))).
        { intros k. rewrite (Dv_ext v _ (prodf (fsd (eval pre) sc ins (repeat k (length ins)))))
            by (intros y'; simpl; apply had_entry; exact Hne).
          apply Dv_fsd; [apply repeat_length | intros j Hj; apply HB, Hpos, Hj | intros j Hj; apply HF, Hpos, Hj | exact Hdj
                        | intros j Hj; apply HC, Hpos, Hj | intros j Hj d; apply HDe; [apply Hpos, Hj | exact Ht]]. }
        simpl DN. simpl node_units. fold u0.
        destruct (dins m v sc t ins) as [l|] eqn:El.
        -- assert (Hlen : map (fun x => length (get (eval Dp y) x)) l = map (fun j => nth j us 0%nat) ins).
           { apply (dins_map m v sc t _ _ ins); [|exact El]. intros j Hj. unfold Circ.get. split;
               [apply HLd; [apply Hpos, Hj | exact Ht] | apply HLc, Hpos, Hj]. }
           assert (Hll : length l = length ins) by (rewrite <- (map_length (fun x => length (get (eval Dp y) x)) l), Hlen; apply map_length).
           assert (Hlne : map (get (eval Dp y)) l <> []).
           { intros E0. apply map_eq_nil in E0. subst l. destruct ins; [congruence | simpl in Hll; lia]. }
           simpl eval_node. apply (list_eq_nth0 R rO).
           { rewrite length_DV. apply (length_hadn R rmul); [exact Hlne|].
             intros x Hx. apply in_map_iff in Hx. destruct Hx as [x0 [<- Hx0]].
             apply (in_map_eq (fun x => length (get (eval Dp y) x)) _ l ins u0 Hlen); [|exact Hx0].
             intros j Hj. apply Hun, Hj. }
           intros k. rewrite nth_DV_all by exact HLn. rewrite Hent. simpl.
           rewrite (nth_hadn R rO rI radd rmul Rth) by exact Hlne.
           rewrite <- entryp_repeat, map_length, Hll. reflexivity.
        -- simpl eval_node. apply (list_eq_nth0 R rO); [rewrite repeat_length, length_DV; reflexivity|].
           intros k. rewrite nth_repeat0, nth_DV_all by exact HLn. rewrite Hent. reflexivity.
      * (* kronecker *)
        destruct Hn as [Hne [Hpos Hdj]]. fold sc in Hdj.
        set (ls := map (fun j => nth j us 0%nat) ins).
        assert (Hent : forall k, Dv v (fun y' => nth k (eval_node (NKron ins) y' (eval pre y')) 0) y
                 = oget (option_map (fun l => entryp (map (get (eval Dp y)) l) (kdigs ls k)) (dins m v sc t ins))).
        { intros k. rewrite (Dv_ext v _ (prodf (fsd (eval pre) sc ins (kdigs ls k))))
            by (intros y'; simpl; apply kron_entry; [exact Hne | intros j Hj; apply HA, Hpos, Hj]).
          apply Dv_fsd; [unfold ls; rewrite length_kdigs; apply map_length | intros j Hj; apply HB, Hpos, Hj | intros j Hj; apply HF, Hpos, Hj | exact Hdj
                        | intros j Hj; apply HC, Hpos, Hj | intros j Hj d; apply HDe; [apply Hpos, Hj | exact Ht]]. }
        simpl DN. simpl node_units. fold ls.
        destruct (dins m v sc t ins) as [l|] eqn:El.
        -- assert (Hlen : map (fun x => length (get (eval Dp y) x)) l = ls).
           { apply (dins_map m v sc t _ _ ins); [|exact El]. intros j Hj. unfold Circ.get. split;
               [apply HLd; [apply Hpos, Hj | exact Ht] | apply HLc, Hpos, Hj]. }
           assert (Hll : length l = length ins) by (rewrite <- (map_length (fun x => length (get (eval Dp y) x)) l), Hlen; apply map_length).
           assert (Hlne : map (get (eval Dp y)) l <> []).
           { intros E0. apply map_eq_nil in E0. subst l. destruct ins; [congruence | simpl in Hll; lia]. }
           simpl eval_node. apply (list_eq_nth0 R rO).
           { rewrite length_DV. rewrite length_kronn by exact Hlne. rewrite map_map, Hlen. reflexivity. }
           intros k. rewrite nth_DV_all by exact HLn. rewrite Hent. simpl.
           rewrite nth_kronn by exact Hlne. rewrite map_map, Hlen. reflexivity.
        -- simpl eval_node. apply (list_eq_nth0 R rO); [rewrite repeat_length, length_DV; reflexivity|].
           intros k. rewrite nth_repeat0, nth_DV_all by exact HLn. rewrite Hent. reflexivity.
Qed.


(* ---------- the property ---------- *)
Theorem differentiate_correct vars c : ok c -> inputs_DF c -> forall y i, i < length c ->
  nth (cidx (length vars) i) (eval (differentiate vars c) y) [] = nth i (eval c y) []
  /\ forall t, t < length vars -> forall k,
     nth k (nth (didx (length vars) i t) (eval (differentiate vars c) y) []) 0
     = Dv (nth t vars 0%nat) (fun y' => nth k (nth i (eval c y') []) 0) y.
Proof.
  intros Hok HI y i Hi. destruct (differentiate_inv vars c Hok HI i Hi) as [IC ID]. split; [apply IC|].
  intros t Ht k. rewrite ID by exact Ht. apply nth_DV_all. apply (ok_AB c Hok i Hi).
Qed.

(* ---------- output ordering ---------- *)
(* variables of scope S in the order in which they occur in vars *)
Definition dvars (vars S : list nat) : list nat := filter (fun v => mem v S) vars.
(* output layers of the result for output o of c: one derivative per variable of scope(o), then o itself *)
Definition outs (vars : list nat) (c : circuit) (o : nat) : list nat :=
  map (didx (length vars) o)
      (filter (fun t => mem (nth t vars 0%nat) (nth o (scopes c) [])) (seq 0 (length vars)))
  ++ [cidx (length vars) o].
Lemma filter_seq_nth (f : nat -> bool) vars :
  map (fun t => nth t vars 0%nat) (filter (fun t => f (nth t vars 0%nat)) (seq 0 (length vars))) = filter f vars.
Proof.
  induction vars as [|a l IH] using rev_ind; [reflexivity|].
  rewrite app_length. simpl length. rewrite Nat.add_1_r, seq_S, !filter_app, map_app. f_equal.
  - rewrite <- IH. rewrite (filter_ext_in _ (fun t => f (nth t l 0%nat))).
    + apply map_ext_in. intros t Ht. apply filter_In in Ht. destruct Ht as [Ht _]. apply in_seq in Ht.
      apply app_nth1. lia.
    + intros t Ht. apply in_seq in Ht. rewrite app_nth1 by lia. reflexivity.
  - simpl. rewrite nth_snoc_eq. destruct (f a); simpl; rewrite ?nth_snoc_eq; reflexivity.
Qed.
Lemma dvars_In vars S v : In v (dvars vars S) <-> In v vars /\ In v S.
Proof. unfold dvars. rewrite filter_In, mem_In. reflexivity. Qed.
Lemma dvars_sorted vars S : StronglySorted lt vars -> StronglySorted lt (dvars vars S).
Proof.
  unfold dvars. induction 1 as [|a l Hs IH Hf]; simpl; [constructor|].
  destruct (mem a S); [|exact IH]. constructor; [exact IH|].
  rewrite Forall_forall in *. intros x Hx. apply filter_In in Hx. apply Hf, Hx.
Qed.
Corollary differentiate_outputs vars c o : ok c -> inputs_DF c -> o < length c ->
  (forall y k,
     map (fun idx => nth k (nth idx (eval (differentiate vars c) y) []) 0) (outs vars c o)
     = map (fun v => Dv v (fun y' => nth k (nth o (eval c y') []) 0) y) (dvars vars (nth o (scopes c) []))
       ++ [nth k (nth o (eval c y) []) 0])
  /\ (forall v, In v (dvars vars (nth o (scopes c) [])) <-> In v vars /\ In v (nth o (scopes c) []))
  /\ (StronglySorted lt vars -> StronglySorted lt (dvars vars (nth o (scopes c) []))).
Proof.
  intros Hok HI Ho. split; [|split; [intros v; apply dvars_In | apply dvars_sorted]].
  intros y k. destruct (differentiate_correct vars c Hok HI y o Ho) as [HC HD].
  unfold outs, dvars. rewrite map_app. simpl. rewrite HC. f_equal.
  rewrite <- (filter_seq_nth (fun v => mem v (nth o (scopes c) [])) vars), !map_map.
  apply map_ext_in. intros t Ht. apply filter_In in Ht. destruct Ht as [Ht _]. apply in_seq in Ht.
  apply HD. lia.
Qed.

End Differentiate.

(* ---------- the total special case: DF := fun _ => True ---------- *)
(* When the rules of Dv are assumed for ALL functions (the former statement of this file), every
   function is in the class and the side conditions on the inputs disappear. *)
Section DifferentiateTotal.
Variable R : Type.
Variables (rO rI : R) (radd rmul : R -> R -> R).
Hypothesis Rth : semi_ring_theory rO rI radd rmul (@eq R).
Variable D : Type.
Variable Dv : nat -> (asg D -> R) -> (asg D -> R).
Hypothesis Dv_ext  : forall v f g, (forall y, f y = g y) -> forall y, Dv v f y = Dv v g y.
Hypothesis Dv_add  : forall v f g y, Dv v (fun y => radd (f y) (g y)) y = radd (Dv v f y) (Dv v g y).
Hypothesis Dv_scal : forall v c f y, Dv v (fun y => rmul c (f y)) y = rmul c (Dv v f y).
Hypothesis Dv_indep_mul : forall v S g f, dep_on R D S g -> ~ In v S ->
  forall y, Dv v (fun y => rmul (g y) (f y)) y = rmul (g y) (Dv v f y).
Hypothesis Dv_indep : forall v S f, dep_on R D S f -> ~ In v S -> forall y, Dv v f y = rO.

Lemma inputs_DF_total c : inputs_DF R rO D (fun _ => True) c.
Proof. intros a _ k. exact I. Qed.

Theorem differentiate_correct_total vars c : ok R rO D c -> forall y i, i < length c ->
  nth (cidx (length vars) i) (eval R rO radd rmul D (differentiate R rO D Dv vars c) y) [] = nth i (eval R rO radd rmul D c y) []
  /\ forall t, t < length vars -> forall k,
     nth k (nth (didx (length vars) i t) (eval R rO radd rmul D (differentiate R rO D Dv vars c) y) []) rO
     = Dv (nth t vars 0%nat) (fun y' => nth k (nth i (eval R rO radd rmul D c y') []) rO) y.
Proof.
  intros Hok. apply (differentiate_correct R rO rI radd rmul Rth D (fun _ => True)); eauto using inputs_DF_total.
Qed.

Corollary differentiate_outputs_total vars c o : ok R rO D c -> o < length c ->
  (forall y k,
     map (fun idx => nth k (nth idx (eval R rO radd rmul D (differentiate R rO D Dv vars c) y) []) rO) (outs R D vars c o)
     = map (fun v => Dv v (fun y' => nth k (nth o (eval R rO radd rmul D c y') []) rO) y) (dvars vars (nth o (scopes R D c) []))
       ++ [nth k (nth o (eval R rO radd rmul D c y) []) rO])
  /\ (forall v, In v (dvars vars (nth o (scopes R D c) [])) <-> In v vars /\ In v (nth o (scopes R D c) []))
  /\ (StronglySorted lt vars -> StronglySorted lt (dvars vars (nth o (scopes R D c) []))).
Proof.
  intros Hok. apply (differentiate_outputs R rO rI radd rmul Rth D (fun _ => True)); eauto using inputs_DF_total.
Qed.
End DifferentiateTotal.

Check differentiate_correct_total.
Print Assumptions differentiate_correct_total.
Check differentiate_outputs_total.
Print Assumptions differentiate_outputs_total.
Check differentiate_correct.
Print Assumptions differentiate_correct.
Check differentiate_outputs.
Print Assumptions differentiate_outputs.
