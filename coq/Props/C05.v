(* C05 — differentiate returns the partial derivatives in variable order
   Property theorems only: each is closed by `exact <lemma>`; proofs live in the imported files. *)
From Coq Require Import Reals.
From Coquelicot Require Import Coquelicot.
From Coq Require Import List ZArith QArith Qcanon Ring_theory Field_theory Permutation Sorted.
Import ListNotations.
From CK Require Import Base.
From CK Require Import Circ.
From CK Require Import Differentiate.
From CK Require Import DiffReal.
From CK Require Import Scalar.
From CK Require Import Tensor.
From CK Require Import Pexpr.
From CK Require Import Exec.
From CK Require Import Ops.
From CK Require Import Hom.
From CK Require Import DiffStruct.
From CK Require Import LinkDiff.
Close Scope Qc_scope. Close Scope Q_scope. Close Scope Z_scope. Open Scope nat_scope.

(* for any abstract (iterated) partial-derivative operator Dv satisfying linearity and the independent-factor rules, block (i,t) of the differentiated circuit evaluates to Dv (nth t vars) of node i and the copy evaluates to node i *)
Theorem C05_differentiate :
  forall (R : Type) (rO rI : R) (radd rmul : R -> R -> R),
         semi_ring_theory rO rI radd rmul eq ->
         forall (D : Type) (DF : (Base.asg D -> R) -> Prop),
         (forall f g : Base.asg D -> R, (forall y : Base.asg D, f y = g y) -> DF f -> DF g) ->
         (forall c : R, DF (fun _ : Base.asg D => c)) ->
         (forall f g : Base.asg D -> R, DF f -> DF g -> DF (fun y : Base.asg D => radd (f y) (g y))) ->
         (forall f g : Base.asg D -> R, DF f -> DF g -> DF (fun y : Base.asg D => rmul (f y) (g y))) ->
         forall Dv : nat -> (Base.asg D -> R) -> Base.asg D -> R,
         (forall (v : nat) (f g : Base.asg D -> R),
          (forall y : Base.asg D, f y = g y) -> forall y : Base.asg D, Dv v f y = Dv v g y) ->
         (forall (v : nat) (f g : Base.asg D -> R) (y : Base.asg D),
          DF f -> DF g -> Dv v (fun y0 : Base.asg D => radd (f y0) (g y0)) y = radd (Dv v f y) (Dv v g y)) ->
         (forall (v : nat) (c : R) (f : Base.asg D -> R) (y : Base.asg D),
          DF f -> Dv v (fun y0 : Base.asg D => rmul c (f y0)) y = rmul c (Dv v f y)) ->
         (forall (v : nat) (S : list nat) (g f : Base.asg D -> R),
          dep_on R D S g ->
          ~ In v S ->
          DF f ->
          forall y : Base.asg D, Dv v (fun y0 : Base.asg D => rmul (g y0) (f y0)) y = rmul (g y) (Dv v f y)) ->
         (forall (v : nat) (S : list nat) (f : Base.asg D -> R),
          dep_on R D S f -> ~ In v S -> forall y : Base.asg D, Dv v f y = rO) ->
         forall (vars : list nat) (c : Circ.circuit R D),
         ok R rO D c ->
         inputs_DF R rO D DF c ->
         forall (y : Base.asg D) (i : nat),
         i < length c ->
         nth (Differentiate.cidx (length vars) i) (eval R rO radd rmul D (differentiate R rO D Dv vars c) y) [] =
         nth i (eval R rO radd rmul D c y) [] /\
         (forall t : nat,
          t < length vars ->
          forall k : nat,
          nth k (nth (didx (length vars) i t) (eval R rO radd rmul D (differentiate R rO D Dv vars c) y) []) rO =
          Dv (nth t vars 0) (fun y' : Base.asg D => nth k (nth i (eval R rO radd rmul D c y') []) rO) y).
Proof. exact differentiate_correct. Qed.
Print Assumptions C05_differentiate.

(* the outputs attached to an output node are the derivatives w.r.t. exactly the variables of its scope, in the order of vars (increasing when vars is sorted), followed by the node itself *)
Theorem C05_outputs_sorted :
  forall (R : Type) (rO rI : R) (radd rmul : R -> R -> R),
         semi_ring_theory rO rI radd rmul eq ->
         forall (D : Type) (DF : (Base.asg D -> R) -> Prop),
         (forall f g : Base.asg D -> R, (forall y : Base.asg D, f y = g y) -> DF f -> DF g) ->
         (forall c : R, DF (fun _ : Base.asg D => c)) ->
         (forall f g : Base.asg D -> R, DF f -> DF g -> DF (fun y : Base.asg D => radd (f y) (g y))) ->
         (forall f g : Base.asg D -> R, DF f -> DF g -> DF (fun y : Base.asg D => rmul (f y) (g y))) ->
         forall Dv : nat -> (Base.asg D -> R) -> Base.asg D -> R,
         (forall (v : nat) (f g : Base.asg D -> R),
          (forall y : Base.asg D, f y = g y) -> forall y : Base.asg D, Dv v f y = Dv v g y) ->
         (forall (v : nat) (f g : Base.asg D -> R) (y : Base.asg D),
          DF f -> DF g -> Dv v (fun y0 : Base.asg D => radd (f y0) (g y0)) y = radd (Dv v f y) (Dv v g y)) ->
         (forall (v : nat) (c : R) (f : Base.asg D -> R) (y : Base.asg D),
          DF f -> Dv v (fun y0 : Base.asg D => rmul c (f y0)) y = rmul c (Dv v f y)) ->
         (forall (v : nat) (S : list nat) (g f : Base.asg D -> R),
          dep_on R D S g ->
          ~ In v S ->
          DF f ->
          forall y : Base.asg D, Dv v (fun y0 : Base.asg D => rmul (g y0) (f y0)) y = rmul (g y) (Dv v f y)) ->
         (forall (v : nat) (S : list nat) (f : Base.asg D -> R),
          dep_on R D S f -> ~ In v S -> forall y : Base.asg D, Dv v f y = rO) ->
         forall (vars : list nat) (c : Circ.circuit R D) (o : nat),
         ok R rO D c ->
         inputs_DF R rO D DF c ->
         o < length c ->
         (forall (y : Base.asg D) (k : nat),
          map
            (fun idx : nat => nth k (nth idx (eval R rO radd rmul D (differentiate R rO D Dv vars c) y) []) rO)
            (Differentiate.outs R D vars c o) =
          map (fun v : nat => Dv v (fun y' : Base.asg D => nth k (nth o (eval R rO radd rmul D c y') []) rO) y)
            (dvars vars (nth o (Circ.scopes R D c) [])) ++ [nth k (nth o (eval R rO radd rmul D c y) []) rO]) /\
         (forall v : nat,
          In v (dvars vars (nth o (Circ.scopes R D c) [])) <-> In v vars /\ In v (nth o (Circ.scopes R D c) [])) /\
         (StronglySorted lt vars -> StronglySorted lt (dvars vars (nth o (Circ.scopes R D c) []))).
Proof. exact differentiate_outputs. Qed.
Print Assumptions C05_outputs_sorted.

(* special case DF := all functions (the unconditional rules of the first version of this theorem) *)
Theorem C05_differentiate_total :
  forall (R : Type) (rO rI : R) (radd rmul : R -> R -> R),
         semi_ring_theory rO rI radd rmul eq ->
         forall (D : Type) (Dv : nat -> (Base.asg D -> R) -> Base.asg D -> R),
         (forall (v : nat) (f g : Base.asg D -> R),
          (forall y : Base.asg D, f y = g y) -> forall y : Base.asg D, Dv v f y = Dv v g y) ->
         (forall (v : nat) (f g : Base.asg D -> R) (y : Base.asg D),
          Dv v (fun y0 : Base.asg D => radd (f y0) (g y0)) y = radd (Dv v f y) (Dv v g y)) ->
         (forall (v : nat) (c : R) (f : Base.asg D -> R) (y : Base.asg D),
          Dv v (fun y0 : Base.asg D => rmul c (f y0)) y = rmul c (Dv v f y)) ->
         (forall (v : nat) (S : list nat) (g f : Base.asg D -> R),
          dep_on R D S g ->
          ~ In v S ->
          forall y : Base.asg D, Dv v (fun y0 : Base.asg D => rmul (g y0) (f y0)) y = rmul (g y) (Dv v f y)) ->
         (forall (v : nat) (S : list nat) (f : Base.asg D -> R),
          dep_on R D S f -> ~ In v S -> forall y : Base.asg D, Dv v f y = rO) ->
         forall (vars : list nat) (c : Circ.circuit R D),
         ok R rO D c ->
         forall (y : Base.asg D) (i : nat),
         i < length c ->
         nth (Differentiate.cidx (length vars) i) (eval R rO radd rmul D (differentiate R rO D Dv vars c) y) [] =
         nth i (eval R rO radd rmul D c y) [] /\
         (forall t : nat,
          t < length vars ->
          forall k : nat,
          nth k (nth (didx (length vars) i t) (eval R rO radd rmul D (differentiate R rO D Dv vars c) y) []) rO =
          Dv (nth t vars 0) (fun y' : Base.asg D => nth k (nth i (eval R rO radd rmul D c y') []) rO) y).
Proof. exact differentiate_correct_total. Qed.
Print Assumptions C05_differentiate_total.

(* INSTANCE over the real numbers (Coquelicot): for every ok circuit over R whose input functions are differentiable in each variable, block (i,t) of the differentiated circuit IS the partial derivative (is_derive: existence included) w.r.t. variable nth t vars of unit k of node i; uses the standard library's real-number axioms and functional extensionality (named in the trusted base) *)
Theorem C05_differentiate_real :
  forall (vars : list nat) (c : circuitR),
         ok RbaseSymbolsImpl.R 0%R RbaseSymbolsImpl.R c ->
         inputs_differentiable c ->
         forall (y : asgR) (i : nat),
         i < length c ->
         forall t : nat,
         t < length vars ->
         forall k : nat,
         is_derive
           (fun x : R_AbsRing =>
            nth k
              (nth i (eval RbaseSymbolsImpl.R 0%R Rplus Rmult RbaseSymbolsImpl.R c (updR y (nth t vars 0) x))
                 []) 0%R) (y (nth t vars 0))
           (nth k
              (nth (didx (length vars) i t)
                 (eval RbaseSymbolsImpl.R 0%R Rplus Rmult RbaseSymbolsImpl.R (differentiateR vars c) y) []) 0%R).
Proof. exact differentiate_real_is_derive. Qed.
Print Assumptions C05_differentiate_real.

(* ... stated with Coquelicot's total Derive *)
Theorem C05_differentiate_real_Derive :
  forall (vars : list nat) (c : circuitR),
         ok RbaseSymbolsImpl.R 0%R RbaseSymbolsImpl.R c ->
         inputs_differentiable c ->
         forall (y : asgR) (i : nat),
         i < length c ->
         forall t : nat,
         t < length vars ->
         forall k : nat,
         nth k
           (nth (didx (length vars) i t)
              (eval RbaseSymbolsImpl.R 0%R Rplus Rmult RbaseSymbolsImpl.R (differentiateR vars c) y) []) 0%R =
         Derive
           (fun x : RbaseSymbolsImpl.R =>
            nth k
              (nth i (eval RbaseSymbolsImpl.R 0%R Rplus Rmult RbaseSymbolsImpl.R c (updR y (nth t vars 0) x))
                 []) 0%R) (y (nth t vars 0)).
Proof. exact differentiate_real. Qed.
Print Assumptions C05_differentiate_real_Derive.

(* every unit of every node of such a circuit is differentiable in each variable *)
Theorem C05_circuits_differentiable :
  forall c : circuitR,
         ok RbaseSymbolsImpl.R 0%R RbaseSymbolsImpl.R c ->
         inputs_differentiable c ->
         forall i : nat,
         i < length c ->
         forall (k : nat) (y : asgR) (v : nat),
         ex_derive
           (fun x : R_AbsRing =>
            nth k (nth i (eval RbaseSymbolsImpl.R 0%R Rplus Rmult RbaseSymbolsImpl.R c (updR y v x)) []) 0%R)
           (y v).
Proof. exact eval_differentiable. Qed.
Print Assumptions C05_circuits_differentiable.

(* non-vacuity: a quadratic polynomial input function meets the hypotheses, with derivative a1 + 2 a2 x *)
Theorem C05_polynomial_input_instance :
  forall (v : nat) (a0 a1 a2 : RbaseSymbolsImpl.R) (y : asgR),
         is_derive (fun x : R_AbsRing => (a0 + a1 * updR y v x v + a2 * updR y v x v ^ 2)%R) 
           (y v) (a1 + 2 * a2 * y v)%R.
Proof. exact poly_is_derive. Qed.
Print Assumptions C05_polynomial_input_instance.

(* EXECUTABLE level: for every well-formed circuit on which differentiate_m 1 (model of cirkit.symbolic.functional.differentiate with its per-layer rules, incl. PolynomialDifferential and the non-commutative Kronecker positions) returns, the copy of node i keeps its value and block (i,v) evaluates to the TANGENT of the dual-number (forward-mode) evaluation of node i w.r.t. variable v, whose primal part is the ordinary denotation; definedness is preserved *)
Theorem C05_differentiate_executable :
  forall (c c' : circuit) (y : asg) (vals : list cvec),
         wf c = true ->
         differentiate_m 1 c = Ok c' ->
         den_all c y = Some vals ->
         exists vals' : list cvec,
           den_all c' y = Some vals' /\
           (forall i : nat,
            i < length (nodes c) ->
            nth (copy_ix 1 c i) vals' [] = nth i vals [] /\
            (forall v : nat,
             In v (nth i (scopes c) []) ->
             exists (d : nat) (vd : list (list DC)),
               block_ix 1 c i v = Some d /\
               d < length (nodes c') /\
               dden_all v c y = Some vd /\ map (map fst) vd = vals /\ nth d vals' [] = map snd (nth i vd []))).
Proof. exact differentiate_exec_den. Qed.
Print Assumptions C05_differentiate_executable.

(* hence the outputs are, per output o of c: the derivative w.r.t. each variable of scope(o) in increasing order, then the value itself *)
Theorem C05_differentiate_executable_outputs :
  forall (c c' : circuit) (y : asg) (vals : list cvec),
         wf c = true ->
         differentiate_m 1 c = Ok c' ->
         den_all c y = Some vals ->
         (forall v : nat, dden_all v c y = Some (dvals v c y)) /\
         den c' y =
         Some
           (flat_map
              (fun o : nat =>
               map (fun v : nat => map snd (nth o (dvals v c y) [])) (nth o (scopes c) []) ++ [nth o vals []])
              (outs c)).
Proof. exact differentiate_exec_den_outputs. Qed.
Print Assumptions C05_differentiate_executable_outputs.

(* any order k: block (i,v) is the k-th pure partial derivative (k-jet seed at the polynomial inputs over v) *)
Theorem C05_differentiate_executable_order_k :
  forall (k : nat) (c c' : circuit) (y : asg) (vals : list cvec),
         wf c = true ->
         differentiate_m k c = Ok c' ->
         den_all c y = Some vals ->
         exists vals' : list cvec,
           den_all c' y = Some vals' /\
           (forall i : nat,
            i < length (nodes c) ->
            nth (copy_ix k c i) vals' [] = nth i vals [] /\
            (forall v : nat,
             In v (nth i (scopes c) []) ->
             exists d : nat,
               block_ix k c i v = Some d /\
               d < length (nodes c') /\ nth d vals' [] = map snd (nth i (jvals k v c y) []))).
Proof. exact differentiate_exec_den_k. Qed.
Print Assumptions C05_differentiate_executable_order_k.

(* block_{n+1}(i,v) is the derivative w.r.t. v of block_n(i,v) *)
Theorem C05_order_successor :
  forall (n : nat) (c c' : circuit) (y : asg) (vals : list cvec),
         wf c = true ->
         differentiate_m (Datatypes.S n) c = Ok c' ->
         den_all c y = Some vals ->
         exists vals' : list cvec,
           den_all c' y = Some vals' /\
           (forall i v : nat,
            i < length (nodes c) ->
            In v (nth i (scopes c) []) ->
            exists (d : nat) (vd : list (list DC)),
              block_ix (Datatypes.S n) c i v = Some d /\
              dden_all v (shiftv n v c) y = Some vd /\ nth d vals' [] = map snd (nth i vd [])).
Proof. exact differentiate_order_succ. Qed.
Print Assumptions C05_order_successor.

(* the primal part of the dual-number evaluation is the executable denotation *)
Theorem C05_dual_primal_is_denotation :
  forall (v : nat) (c : circuit) (y : asg),
         dfrag c = true -> option_map (map (map fst)) (dden_all v c y) = den_all c y.
Proof. exact dden_primal. Qed.
Print Assumptions C05_dual_primal_is_denotation.
