(* Link.v — links the EXECUTABLE model (Exec.v / Ops.v, scalars C = Qc * Qc) to the SEMANTIC
   model (Circ.v, abstract commutative semiring) on the algebraic fragment
   (embedding / constant inputs, dense sums, Hadamard and Kronecker products), so that the
   semantic operator theorems (OpsSimple.conjugate_correct, Integrate.integrate_correct)
   apply to the executable denotation [den_all]. *)
From Coq Require Import ZArith QArith Qcanon List Bool Arith Lia Ring Ring_theory.
Import ListNotations.
From CK Require Import Base Circ Integrate OpsSimple Scalar Tensor Pexpr Exec Ops Struct.
Close Scope Qc_scope. Close Scope Q_scope. Close Scope Z_scope. Open Scope nat_scope.

Notation SNode := (Circ.node C C).
Notation SCirc := (Circ.circuit C C).
Notation SEval := (Circ.eval C c0 cadd cmul C).
Notation SEvalFrom := (Circ.eval_from C c0 cadd cmul C).
Notation SEvalNode := (Circ.eval_node C c0 cadd cmul C).
Notation SIn := (Circ.NIn C C).
Notation SSum := (Circ.NSum C C).
Notation SHad := (Circ.NHad C C).
Notation SKron := (Circ.NKron C C).
Notation sasg := (Base.asg C).

(* ================================================================== *)
(* Stage 1. The fragment and its interpretation                         *)
(* ================================================================== *)
Definition frag_layer (l : layer) : bool :=
  match l with
  | LEmb _ _ _ (PTen _ _ _) => true
  | LSum _ _ _ (PTen _ _ _) => true
  | LHad _ _ => true
  | LKron _ _ => true
  | LConst _ false (PTen _ _ _) => true
  | _ => false
  end.
Definition frag_nodes (ns : list (layer * list nat)) : bool := forallb (fun n => frag_layer (fst n)) ns.
Definition frag (c : Exec.circuit) : bool := frag_nodes (nodes c).

Definition emb_fun (v : nat) (W : tn) : sasg -> list C :=
  fun y => map (fun row => nth (cidx (y v)) row c0) (tmat c0 W).

(* layers outside the fragment are mapped to an (irrelevant) empty product *)
Definition interp_layer (l : layer) (ins : list nat) : SNode :=
  match l with
  | LEmb v K N (PTen _ _ W) => SIn {| iscope := [v]; iunits := K; ifun := emb_fun v W |}
  | LConst K false (PTen _ _ V) => SIn {| iscope := []; iunits := K; ifun := fun _ => tvec c0 V |}
  | LSum _ _ _ (PTen _ _ W) => SSum (tmat c0 W) ins
  | LHad _ _ => SHad ins
  | LKron _ _ => SKron ins
  | _ => SHad []
  end.
Definition interp_nodes (ns : list (layer * list nat)) : SCirc :=
  map (fun n => interp_layer (fst n) (snd n)) ns.
Definition interp (c : Exec.circuit) : SCirc := interp_nodes (nodes c).

Definition afun (y : Exec.asg) : sasg := fun v => lookup v y.

(* the embedding indices of [y] are in range *)
Definition inrange_layer (y : Exec.asg) (l : layer) : bool :=
  match l with LEmb v _ N _ => cidx (lookup v y) <? N | _ => true end.
Definition inrange_nodes (y : Exec.asg) (ns : list (layer * list nat)) : bool :=
  forallb (fun n => inrange_layer y (fst n)) ns.
Definition inrange (c : Exec.circuit) (y : Exec.asg) : bool := inrange_nodes y (nodes c).

Lemma interp_nodes_app a b : interp_nodes (a ++ b) = interp_nodes a ++ interp_nodes b.
Proof. apply map_app. Qed.
Lemma length_interp_nodes ns : length (interp_nodes ns) = length ns.
Proof. apply map_length. Qed.
Lemma length_interp c : length (interp c) = length (nodes c).
Proof. apply map_length. Qed.

(* ================================================================== *)
(* Stage 2. den_all is the semantic evaluation                          *)
(* ================================================================== *)
Lemma node_eval_interp l ins y acc :
  frag_layer l = true ->
  node_eval l y (map (fun j => nth j acc []) ins)
  = if inrange_layer y l then Some (SEvalNode (interp_layer l ins) (afun y) acc) else None.
Proof.
  intros Hf. destruct l as [v K N w|v K N lg p|v K n lg p|v K mu sd lp|v K dg cf|K lsp val|inner obs|Ki Ko ar w|Ki ar|Ki ar];
    simpl in Hf; try discriminate.
  - destruct w as [i b W| | | |]; try discriminate. reflexivity.
  - destruct lsp; try discriminate. destruct val as [i b V| | | |]; try discriminate. reflexivity.
  - destruct w as [i b W| | | |]; try discriminate. reflexivity.
  - reflexivity.
  - reflexivity.
Qed.

Lemma den_from_interp ns y : forall acc, frag_nodes ns = true ->
  den_from ns y acc = if inrange_nodes y ns then Some (SEvalFrom (interp_nodes ns) (afun y) acc) else None.
Proof.
  induction ns as [|[l ins] ns IH]; intros acc Hf; [reflexivity|].
  simpl in Hf. apply andb_prop in Hf. destruct Hf as [Hl Hns].
  cbn [den_from]. rewrite (node_eval_interp l ins y acc Hl).
  cbn [inrange_nodes forallb fst interp_nodes map snd Circ.eval_from].
  destruct (inrange_layer y l); [|reflexivity].
  cbn [obind andb]. apply IH. exact Hns.
Qed.

(* complete characterisation on the fragment *)
Theorem den_all_spec c y : frag c = true ->
  den_all c y = if inrange c y then Some (SEval (interp c) (afun y)) else None.
Proof. intros Hf. unfold den_all, inrange, interp, Circ.eval. apply den_from_interp. exact Hf. Qed.

Theorem den_interp c y vals : frag c = true -> den_all c y = Some vals ->
  vals = SEval (interp c) (afun y).
Proof.
  intros Hf H. rewrite (den_all_spec c y Hf) in H. destruct (inrange c y); [|discriminate].
  inversion H. reflexivity.
Qed.

Lemma inrange_iff c y :
  inrange c y = true <->
  (forall v K N w ins, In (LEmb v K N w, ins) (nodes c) -> cidx (lookup v y) < N).
Proof.
  unfold inrange, inrange_nodes. rewrite forallb_forall. split.
  - intros H v K N w ins Hin. specialize (H _ Hin). simpl in H. apply Nat.ltb_lt. exact H.
  - intros H [l ins] Hin. destruct l; try reflexivity. simpl. apply Nat.ltb_lt. eapply H. exact Hin.
Qed.

Theorem den_interp_conv c y : frag c = true ->
  (forall v K N w ins, In (LEmb v K N w, ins) (nodes c) -> cidx (lookup v y) < N) ->
  den_all c y = Some (SEval (interp c) (afun y)).
Proof.
  intros Hf H. rewrite (den_all_spec c y Hf). apply inrange_iff in H. rewrite H. reflexivity.
Qed.

Theorem den_all_defined c y : frag c = true -> (den_all c y <> None <-> inrange c y = true).
Proof.
  intros Hf. rewrite (den_all_spec c y Hf). destruct (inrange c y); split; congruence.
Qed.


(* ================================================================== *)
(* Generic congruence lemmas                                            *)
(* ================================================================== *)
Lemma den_from_ext ns ns' y :
  Forall2 (fun n n' => snd n = snd n' /\ forall ins, node_eval (fst n) y ins = node_eval (fst n') y ins) ns ns' ->
  forall acc, den_from ns y acc = den_from ns' y acc.
Proof.
  induction 1 as [|[l ins] [l' ins'] ns ns' [Hi Hn] _ IH]; intros acc; [reflexivity|].
  simpl in Hi, Hn. subst ins'. cbn [den_from]. rewrite Hn.
  destruct (node_eval l' y (map (fun j => nth j acc []) ins)); [|reflexivity].
  cbn [obind]. apply IH.
Qed.

Lemma eval_from_ext (ns ns' : SCirc) (y : sasg) :
  Forall2 (fun n n' => forall vals, SEvalNode n y vals = SEvalNode n' y vals) ns ns' ->
  forall acc, SEvalFrom ns y acc = SEvalFrom ns' y acc.
Proof.
  induction 1 as [|n n' ns ns' Hn _ IH]; intros acc; [reflexivity|].
  cbn [Circ.eval_from]. rewrite Hn. apply IH.
Qed.

Lemma Forall2_map_r {A B} (P : A -> B -> Prop) (f : A -> B) l :
  (forall x, In x l -> P x (f x)) -> Forall2 P l (map f l).
Proof. induction l as [|a l IH]; intros H; simpl; constructor; [apply H; simpl; auto | apply IH; intros; apply H; simpl; auto]. Qed.
Lemma Forall2_map_both {A B C'} (P : B -> C' -> Prop) (f : A -> B) (g : A -> C') l :
  (forall x, In x l -> P (f x) (g x)) -> Forall2 P (map f l) (map g l).
Proof. induction l as [|a l IH]; intros H; simpl; constructor; [apply H; simpl; auto | apply IH; intros; apply H; simpl; auto]. Qed.

Lemma rmap_list_Forall2 {X Y} (f : X -> res Y) l l' :
  rmap_list f l = Ok l' -> Forall2 (fun x y => f x = Ok y) l l'.
Proof.
  revert l'; induction l as [|x l IH]; intros l' H; simpl in H.
  - inversion H. constructor.
  - destruct (f x) eqn:Ex; [|discriminate].
    destruct (rmap_list f l) eqn:El; [|discriminate]. inversion H; subst. constructor; [exact Ex | apply IH; reflexivity].
Qed.

(* ================================================================== *)
(* prep does not change the denotation (all layers, not only the fragment) *)
(* ================================================================== *)
Lemma pval_peval e e' : pval e = Some e' -> peval e' = peval e.
Proof. unfold pval. destruct (peval e) as [t|]; simpl; intros H; inversion H. reflexivity. Qed.

Ltac prep_inv H :=
  repeat match type of H with
  | obind (pval ?e) _ = Some _ =>
      let E := fresh "E" in destruct (pval e) eqn:E; cbn [obind] in H; [apply pval_peval in E | discriminate H]
  | obind (prep_layer ?e) _ = Some _ =>
      let E := fresh "E" in destruct (prep_layer e) eqn:E; cbn [obind] in H; [| discriminate H]
  end.

Lemma prep_layer_in_scope l : forall l', prep_layer l = Some l' -> in_scope l' = in_scope l.
Proof.
  destruct l; intros l' H; cbn [prep_layer] in H; prep_inv H; try (inversion H; subst; reflexivity).
  destruct lp; prep_inv H; inversion H; reflexivity.
Qed.

Lemma prep_layer_in_eval l : forall l' y, prep_layer l = Some l' -> in_eval l' y = in_eval l y.
Proof.
  induction l as [v K N w|v K N lg p|v K n lg p|v K mu sd lp|v K dg cf|K lsp val|inner IH obs|Ki Ko ar w|Ki ar|Ki ar];
    intros l' y H; cbn [prep_layer] in H; prep_inv H;
    try (inversion H; subst; cbn [in_eval]; repeat match goal with E : peval _ = peval _ |- _ => rewrite E; clear E end; reflexivity).
  - destruct lp as [e|]; prep_inv H; inversion H; subst; cbn [in_eval];
      repeat match goal with E : peval _ = peval _ |- _ => rewrite E; clear E end; reflexivity.
  - inversion H; subst. cbn [in_eval]. rewrite E0. rewrite (prep_layer_in_scope _ _ E).
    destruct (peval obs); [|reflexivity]. cbn [obind]. destruct (in_scope inner) as [|v [|]]; try reflexivity.
    apply IH. reflexivity.
Qed.

Lemma prep_layer_node_eval l l' y ins : prep_layer l = Some l' -> node_eval l' y ins = node_eval l y ins.
Proof.
  intros H. destruct l; try (cbn [prep_layer] in H; inversion H; subst; reflexivity);
  try (pose proof (prep_layer_in_eval _ _ y H) as G; cbn [prep_layer] in H; prep_inv H;
       try (destruct lp; prep_inv H); inversion H; subst; exact G).
  cbn [prep_layer] in H; prep_inv H. inversion H; subst. cbn [node_eval]. rewrite E. reflexivity.
Qed.

Lemma omap_Forall2 {X Y} (f : X -> option Y) l l' : omap f l = Some l' -> Forall2 (fun x y => f x = Some y) l l'.
Proof.
  revert l'; induction l as [|x l IH]; intros l' H; simpl in H.
  - inversion H. constructor.
  - destruct (f x) eqn:Ex; [|discriminate]. destruct (omap f l) eqn:El; [|discriminate].
    inversion H; subst. constructor; [exact Ex | apply IH; reflexivity].
Qed.

Theorem den_prep c y : den_all (prep c) y = den_all c y.
Proof.
  unfold prep. destruct (omap _ (nodes c)) as [ns|] eqn:E; [|reflexivity].
  unfold den_all. cbn [nodes]. symmetry. apply den_from_ext.
  apply omap_Forall2 in E. induction E as [|[l ins] [l' ins'] ns0 ns1 H _ IH]; constructor; [|exact IH].
  cbn [fst snd] in *. destruct (prep_layer l) as [l1|] eqn:El; cbn [obind] in H; [|discriminate].
  inversion H; subst. split; [reflexivity|]. intros ins0. symmetry. apply prep_layer_node_eval. exact El.
Qed.

(* ================================================================== *)
(* Stage 3a. CONJUGATE                                                  *)
(* ================================================================== *)
Notation SConj := (OpsSimple.conjugate C C cconj).

Lemma tvec_tmap_conj t : tvec c0 (tmap cconj t) = map cconj (tvec c0 t).
Proof.
  destruct t as [c|l]; cbn [tvec tmap map]; [reflexivity|].
  rewrite !map_map. apply map_ext. intros [c|l']; cbn [tmap]; [reflexivity | symmetry; apply cconj_0].
Qed.
Lemma tmat_tmap_conj t : tmat c0 (tmap cconj t) = map (map cconj) (tmat c0 t).
Proof.
  destruct t as [c|l]; cbn [tmat tmap map]; [reflexivity|].
  rewrite !map_map. apply map_ext. intros x. apply tvec_tmap_conj.
Qed.
Lemma nth_map_conj i row : nth i (map cconj row) c0 = cconj (nth i row c0).
Proof. transitivity (nth i (map cconj row) (cconj c0)); [rewrite cconj_0; reflexivity | apply map_nth]. Qed.

(* the conjugated layer with its parameter already evaluated *)
Definition cj_layer (l : layer) : layer :=
  match l with
  | LEmb v K N (PTen _ _ W) => LEmb v K N (PTen 0 false (tmap cconj W))
  | LSum Ki Ko ar (PTen _ _ W) => LSum Ki Ko ar (PTen 0 false (tmap cconj W))
  | LConst K false (PTen _ _ V) => LConst K false (PTen 0 false (tmap cconj V))
  | _ => l
  end.
Definition conj_exec (c : Exec.circuit) : Exec.circuit :=
  mkC (map (fun n => (cj_layer (fst n), snd n)) (nodes c)) (outs c).

Lemma frag_cj_layer l : frag_layer (cj_layer l) = frag_layer l.
Proof. destruct l as [v K N w| | | | |K lsp val| |Ki Ko ar w| |]; try reflexivity.
  - destruct w; reflexivity. - destruct lsp, val; reflexivity. - destruct w; reflexivity. Qed.
Lemma inrange_cj_layer y l : inrange_layer y (cj_layer l) = inrange_layer y l.
Proof. destruct l as [v K N w| | | | |K lsp val| |Ki Ko ar w| |]; try reflexivity.
  - destruct w; reflexivity. - destruct lsp, val; reflexivity. - destruct w; reflexivity. Qed.
Lemma frag_conj_exec c : frag (conj_exec c) = frag c.
Proof. unfold frag, frag_nodes, conj_exec. cbn [nodes]. rewrite forallb_map'. apply forallb_ext'. intros n. apply frag_cj_layer. Qed.
Lemma inrange_conj_exec c y : inrange (conj_exec c) y = inrange c y.
Proof. unfold inrange, inrange_nodes, conj_exec. cbn [nodes]. rewrite forallb_map'. apply forallb_ext'. intros n. apply inrange_cj_layer. Qed.

Lemma interp_cj_layer l ins y vals :
  SEvalNode (interp_layer (cj_layer l) ins) y vals
  = SEvalNode (OpsSimple.cj_node C C cconj (interp_layer l ins)) y vals.
Proof.
  destruct l as [v K N w| | | | |K lsp val| |Ki Ko ar w| |]; try reflexivity.
  - destruct w as [i b W| | | |]; try reflexivity. cbn [cj_layer interp_layer OpsSimple.cj_node Circ.eval_node OpsSimple.cj_inp Circ.ifun].
    unfold emb_fun. rewrite tmat_tmap_conj, !map_map. apply map_ext. intros row. apply nth_map_conj.
  - destruct lsp; try reflexivity. destruct val as [i b V| | | |]; try reflexivity.
    cbn [cj_layer interp_layer OpsSimple.cj_node Circ.eval_node OpsSimple.cj_inp Circ.ifun]. apply tvec_tmap_conj.
  - destruct w as [i b W| | | |]; try reflexivity.
    cbn [cj_layer interp_layer OpsSimple.cj_node Circ.eval_node]. rewrite tmat_tmap_conj. reflexivity.
Qed.

(* semantic conjugation of the interpretation = interpretation of the executable conjugate *)
Theorem interp_conj_exec c y : SEval (interp (conj_exec c)) y = map (map cconj) (SEval (interp c) y).
Proof.
  rewrite <- (OpsSimple.conjugate_correct C c0 cadd cmul C cconj cconj_add cconj_mul cconj_0).
  unfold Circ.eval, interp, interp_nodes, conj_exec, OpsSimple.conjugate. cbn [nodes]. rewrite !map_map.
  apply eval_from_ext. apply Forall2_map_both. intros [l ins] _ vals. cbn [fst snd]. apply interp_cj_layer.
Qed.

Theorem den_conj_exec c y : frag c = true ->
  den_all (conj_exec c) y = option_map (map (map cconj)) (den_all c y).
Proof.
  intros Hf. rewrite (den_all_spec c y Hf), (den_all_spec (conj_exec c) y) by (rewrite frag_conj_exec; exact Hf).
  rewrite inrange_conj_exec. destruct (inrange c y); [|reflexivity]. cbn [option_map]. rewrite interp_conj_exec. reflexivity.
Qed.

(* the circuit produced by Ops.conjugate_m denotes the same as conj_exec *)
Lemma conjugate_layer_node_eval l l' y ins : frag_layer l = true -> conjugate_layer l = Ok l' ->
  node_eval l' y ins = node_eval (cj_layer l) y ins.
Proof.
  intros Hf H. destruct l as [v K N w| | | | |K lsp val| |Ki Ko ar w| |]; simpl in Hf; try discriminate.
  - destruct w as [i b W| | | |]; try discriminate. inversion H; subst. reflexivity.
  - destruct w as [i b W| | | |]; try discriminate. inversion H; subst. reflexivity.
  - inversion H; subst. reflexivity.
  - inversion H; subst. reflexivity.
Qed.

Theorem den_conjugate_m c c' y : frag c = true -> conjugate_m c = Ok c' ->
  den_all c' y = den_all (conj_exec c) y.
Proof.
  intros Hf H. unfold conjugate_m in H.
  destruct (rmap_list _ (nodes c)) as [ns|] eqn:E; cbn [rbind] in H; [|discriminate]. inversion H; subst c'.
  unfold den_all, conj_exec. cbn [nodes]. apply den_from_ext.
  apply rmap_list_Forall2 in E. unfold frag, frag_nodes in Hf. rewrite forallb_forall in Hf. clear H.
  induction E as [|[l ins] [l' ins'] ns0 ns1 H1 _ IH]; [constructor|].
  cbn [map]. constructor.
  - cbn [fst snd]. destruct (conjugate_layer l) as [l1|] eqn:El; cbn [rbind] in H1; [|discriminate].
    inversion H1; subst. split; [reflexivity|]. intros ins0. apply conjugate_layer_node_eval; [|exact El].
    apply (Hf (l, ins')). simpl; auto.
  - apply IH. intros x Hx. apply Hf. simpl; auto.
Qed.

Theorem conjugate_link c c' y : frag c = true -> conjugate_m c = Ok c' ->
  den_all c' y = option_map (map (map cconj)) (den_all c y).
Proof. intros Hf H. rewrite (den_conjugate_m c c' y Hf H). apply den_conj_exec. exact Hf. Qed.

Corollary conjugate_link_prep c c' y : frag c = true -> conjugate_m c = Ok c' ->
  den_all (prep c') y = option_map (map (map cconj)) (den_all c y).
Proof. intros Hf H. rewrite den_prep. apply conjugate_link; assumption. Qed.


(* ================================================================== *)
(* Stage 3b. INTEGRATE over discrete variables                          *)
(* ================================================================== *)
Add Ring Cring : C_semi_ring.

Definition sumC (l : list C) : C := Base.vsum C c0 cadd l.
(* summation over the states 0 .. dom v - 1 of variable v *)
Definition dInt (dom : nat -> nat) (v : nat) (f : C -> C) : C :=
  sumC (map (fun d => f (cofZ (Z.of_nat d))) (seq 0 (dom v))).

Lemma sumC_cons x l : sumC (x :: l) = cadd x (sumC l).
Proof. reflexivity. Qed.
Lemma sumC_map_add {A} (f g : A -> C) l :
  sumC (map (fun d => cadd (f d) (g d)) l) = cadd (sumC (map f l)) (sumC (map g l)).
Proof. induction l as [|a l IH]; cbn [map]; [unfold sumC; cbn [Base.vsum]; ring|]. rewrite !sumC_cons, IH. ring. Qed.
Lemma sumC_map_scal {A} (c : C) (f : A -> C) l :
  sumC (map (fun d => cmul c (f d)) l) = cmul c (sumC (map f l)).
Proof. induction l as [|a l IH]; cbn [map]; [unfold sumC; cbn [Base.vsum]; ring|]. rewrite !sumC_cons, IH. ring. Qed.

Section DInt.
Variable dom : nat -> nat.
Lemma dInt_ext v f g : (forall d, f d = g d) -> dInt dom v f = dInt dom v g.
Proof. intros H. unfold dInt. f_equal. apply map_ext. intros d. apply H. Qed.
Lemma dInt_add v f g : dInt dom v (fun d => cadd (f d) (g d)) = cadd (dInt dom v f) (dInt dom v g).
Proof. unfold dInt. apply (sumC_map_add (fun d => f (cofZ (Z.of_nat d))) (fun d => g (cofZ (Z.of_nat d)))). Qed.
Lemma dInt_scal v c f : dInt dom v (fun d => cmul c (f d)) = cmul c (dInt dom v f).
Proof. unfold dInt. apply (sumC_map_scal c (fun d => f (cofZ (Z.of_nat d)))). Qed.
End DInt.

Lemma cidx_cofZ d : cidx (cofZ (Z.of_nat d)) = d.
Proof.
  unfold cidx, cofZ, cre. cbn [fst]. unfold Q2Qc. cbn [this].
  rewrite Qred_identity by (cbn [Qnum Qden]; apply Z.gcd_1_r).
  cbn [Qnum Qden]. rewrite Z.div_1_r. apply Nat2Z.id.
Qed.

(* ---------- matrices as tensors ---------- *)
Definition is_scalar (t : tn) : bool := match t with S _ => true | T _ => false end.
Definition is_row (N : nat) (r : tn) : bool :=
  match r with T l => (length l =? N) && forallb is_scalar l | S _ => false end.
Definition is_matrix (K N : nat) (W : tn) : bool :=
  match W with T rows => (length rows =? K) && forallb (is_row N) rows | S _ => false end.

Lemma scalars_of_vec (l : list tn) : forallb is_scalar l = true ->
  l = map S (map (fun x => match x with S c => c | T _ => c0 end) l).
Proof.
  induction l as [|x l IH]; cbn [forallb map]; intros H; [reflexivity|].
  apply andb_prop in H. destruct H as [Hx Hl]. destruct x; [|discriminate]. f_equal. apply IH, Hl.
Qed.
Lemma is_row_spec N r : is_row N r = true -> r = of_vec (tvec c0 r) /\ length (tvec c0 r) = N.
Proof.
  destruct r as [c|l]; cbn [is_row]; [discriminate|]. intros H. apply andb_prop in H. destruct H as [H1 H2].
  apply Nat.eqb_eq in H1. split.
  - unfold of_vec. cbn [tvec]. f_equal. apply scalars_of_vec, H2.
  - cbn [tvec]. rewrite map_length. exact H1.
Qed.
Lemma is_matrix_spec K N W : is_matrix K N W = true ->
  length (tmat c0 W) = K /\ (forall row, In row (tmat c0 W) -> length row = N) /\ W = of_mat (tmat c0 W).
Proof.
  destruct W as [c|rows]; cbn [is_matrix]; [discriminate|]. intros H. apply andb_prop in H. destruct H as [H1 H2].
  apply Nat.eqb_eq in H1. rewrite forallb_forall in H2. cbn [tmat]. split; [|split].
  - rewrite map_length. exact H1.
  - intros row Hr. apply in_map_iff in Hr. destruct Hr as [r [<- Hr]]. apply (is_row_spec N r), H2, Hr.
  - unfold of_mat. f_equal. rewrite map_map. rewrite <- (map_id rows) at 1. apply map_ext_in.
    intros r Hr. apply (is_row_spec N r), H2, Hr.
Qed.

Lemma tvec_of_vec (v : list C) : tvec c0 (of_vec v) = v.
Proof. unfold of_vec. cbn [tvec]. rewrite map_map. apply map_id. Qed.
Lemma tmat_of_mat (m : list (list C)) : tmat c0 (of_mat m) = m.
Proof. unfold of_mat. cbn [tmat]. rewrite map_map. rewrite <- (map_id m) at 2. apply map_ext. intros; apply tvec_of_vec. Qed.

Lemma fold_left_cadd r x : fold_left cadd r x = cadd x (sumC r).
Proof. revert x; induction r as [|a r IH]; intros x; cbn [fold_left]; [unfold sumC; cbn [Base.vsum]; ring|].
  rewrite IH, sumC_cons. ring. Qed.
Lemma fold_left_tzip_S r x : fold_left (tzip cadd) (map S r) (S x) = S (fold_left cadd r x).
Proof. revert x; induction r as [|a r IH]; intros x; cbn [fold_left map]; [reflexivity|]. cbn [tzip]. apply IH. Qed.
Lemma treduce0_of_vec xs : treduce cadd c0 0 (of_vec xs) = S (sumC xs).
Proof.
  unfold of_vec. cbn [treduce]. destruct xs as [|x r]; cbn [map tfold]; [reflexivity|].
  rewrite fold_left_tzip_S, fold_left_cadd. reflexivity.
Qed.
Lemma treduce1_of_mat m : treduce cadd c0 1 (of_mat m) = of_vec (map sumC m).
Proof.
  unfold of_mat. cbn [treduce]. unfold of_vec at 2. f_equal. rewrite !map_map. apply map_ext. intros xs. apply treduce0_of_vec.
Qed.

(* the executable integration rule of an embedding evaluates to the row sums *)
Lemma rowsum_peval K N i b W : is_matrix K N W = true ->
  peval (PUn (URSum 1) (PTen i b W)) = Some (of_vec (map sumC (tmat c0 W))).
Proof.
  intros H. destruct (is_matrix_spec K N W H) as [_ [_ HW]]. cbn [peval obind eval_unop].
  rewrite HW at 1. rewrite treduce1_of_mat. reflexivity.
Qed.

(* ---------- the semantic side: IntV of the input functions ---------- *)
Lemma map_nth_seq {A} (l : list A) d : map (fun k => nth k l d) (seq 0 (length l)) = l.
Proof.
  induction l as [|a l IH]; [reflexivity|]. cbn [length seq map nth]. f_equal.
  rewrite <- seq_shift, map_map. exact IH.
Qed.
Lemma nth_nil_c0 d : nth d (@nil C) c0 = c0.
Proof. destruct d; reflexivity. Qed.

Notation SIntV dom := (Base.IntV C c0 C (dInt dom)).
Notation SIntL dom := (Base.IntL C C (dInt dom)).
Notation SIntegrate dom := (Integrate.integrate C c0 C (dInt dom)).

Lemma IntV_nil_vs dom (F : sasg -> list C) K y : length (F y) = K -> SIntV dom [] F K y = F y.
Proof. intros H. unfold Base.IntV. cbn [Base.IntL]. rewrite <- H. apply map_nth_seq. Qed.

Lemma IntV_emb dom v K W y : is_matrix K (dom v) W = true ->
  SIntV dom [v] (emb_fun v W) K y = map sumC (tmat c0 W).
Proof.
  intros H. destruct (is_matrix_spec _ _ _ H) as [HK [HN _]]. set (M := tmat c0 W) in *.
  unfold Base.IntV. cbn [Base.IntL].
  transitivity (map (fun k => sumC (nth k M [])) (seq 0 K)).
  - apply map_ext_in. intros k Hk. apply in_seq in Hk. unfold dInt.
    assert (Hrow : length (nth k M []) = dom v) by (apply HN, nth_In; lia).
    transitivity (sumC (map (fun d => nth d (nth k M []) c0) (seq 0 (dom v))));
      [| rewrite <- Hrow, map_nth_seq; reflexivity].
    f_equal. apply map_ext. intros d.
    unfold emb_fun, Base.upd. rewrite Nat.eqb_refl, cidx_cofZ. fold M.
    transitivity (nth k (map (fun row => nth d row c0) M) ((fun row => nth d row c0) [])).
    + cbn beta. rewrite nth_nil_c0. reflexivity.
    + apply (map_nth (fun row => nth d row c0)).
  - rewrite <- HK. rewrite <- (map_map (fun k => nth k M []) sumC). rewrite map_nth_seq. reflexivity.
Qed.

Lemma zs_of_nil Z : zs_of Z [] = [].
Proof. unfold zs_of. induction Z as [|a Z IH]; cbn [filter]; [reflexivity | exact IH]. Qed.
Lemma zs_of_single Z v : NoDup Z -> zs_of Z [v] = if smem v Z then [v] else [].
Proof.
  induction 1 as [|a Z Ha Hnd IH]; [reflexivity|].
  unfold zs_of in *. cbn [filter]. unfold Base.mem at 1. cbn [existsb smem]. rewrite orb_false_r.
  rewrite IH. rewrite (Nat.eqb_sym v a). destruct (Nat.eqb_spec a v) as [->|Hne]; cbn [orb].
  - destruct (smem v Z) eqn:E; [|reflexivity]. exfalso. apply Ha. apply smem_In. exact E.
  - reflexivity.
Qed.

(* ---------- shape hypotheses (boolean checks) ---------- *)
Definition shape_layer (l : layer) : bool :=
  match l with
  | LEmb _ K N (PTen _ _ W) => is_matrix K N W
  | LSum _ Ko _ (PTen _ _ W) => length (tmat c0 W) =? Ko
  | LConst K false (PTen _ _ V) => length (tvec c0 V) =? K
  | _ => true
  end.
Definition shapes (c : Exec.circuit) : bool := forallb (fun n => shape_layer (fst n)) (nodes c).
(* every embedding over variable v has exactly dom v states *)
Definition dom_layer (dom : nat -> nat) (l : layer) : bool :=
  match l with LEmb v _ N _ => N =? dom v | _ => true end.
Definition doms (dom : nat -> nat) (c : Exec.circuit) : bool := forallb (fun n => dom_layer dom (fst n)) (nodes c).

(* ---------- the integrated executable circuit with evaluated parameters ---------- *)
Definition int_layer (Z : list nat) (l : layer) : layer :=
  match l with
  | LEmb v K N (PTen _ _ W) =>
      if smem v Z then LConst K false (PTen 0 false (of_vec (map sumC (tmat c0 W)))) else l
  | _ => l
  end.
Definition int_exec (Z : list nat) (c : Exec.circuit) : Exec.circuit :=
  mkC (map (fun n => (int_layer Z (fst n), snd n)) (nodes c)) (outs c).

Lemma frag_int_layer Z l : frag_layer l = true -> frag_layer (int_layer Z l) = true.
Proof. destruct l as [v K N w| | | | | | | | |]; try (intros H; exact H).
  destruct w; try (intros H; exact H). cbn [int_layer]. destruct (smem v Z); reflexivity. Qed.
Lemma frag_int_exec Z c : frag c = true -> frag (int_exec Z c) = true.
Proof. unfold frag, frag_nodes, int_exec. cbn [nodes]. rewrite forallb_map'. rewrite !forallb_forall.
  intros H n Hn. cbn [fst]. apply frag_int_layer, H, Hn. Qed.

Lemma interp_int_layer dom Z l ins y vals :
  NoDup Z -> frag_layer l = true -> shape_layer l = true -> dom_layer dom l = true ->
  SEvalNode (interp_layer (int_layer Z l) ins) y vals
  = SEvalNode (Integrate.tr C c0 C (dInt dom) Z (interp_layer l ins)) y vals.
Proof.
  intros HZ Hf Hs Hd.
  destruct l as [v K N w| | | | |K lsp val| |Ki Ko ar w| |]; simpl in Hf; try discriminate; try reflexivity.
  - destruct w as [i b W| | | |]; try discriminate. cbn [shape_layer dom_layer] in Hs, Hd.
    apply Nat.eqb_eq in Hd. subst N.
    cbn [int_layer interp_layer Integrate.tr Circ.eval_node Integrate.integ_inp Circ.ifun Circ.iscope Circ.iunits].
    rewrite (zs_of_single Z v HZ). destruct (smem v Z).
    + cbn [interp_layer Circ.eval_node Circ.ifun]. rewrite tvec_of_vec. symmetry. apply IntV_emb. exact Hs.
    + cbn [interp_layer Circ.eval_node Circ.ifun]. symmetry. apply IntV_nil_vs.
      unfold emb_fun. rewrite map_length. apply (is_matrix_spec _ _ _ Hs).
  - destruct lsp; try discriminate. destruct val as [i b V| | | |]; try discriminate.
    cbn [shape_layer] in Hs. apply Nat.eqb_eq in Hs.
    cbn [int_layer interp_layer Integrate.tr Circ.eval_node Integrate.integ_inp Circ.ifun Circ.iscope Circ.iunits].
    rewrite zs_of_nil. symmetry. apply (IntV_nil_vs dom (fun _ => tvec c0 V)). exact Hs.
  - destruct w as [i b W| | | |]; try discriminate. reflexivity.
Qed.

(* semantic integration of the interpretation = interpretation of the executable integral *)
Theorem interp_int_exec dom Z c y :
  NoDup Z -> frag c = true -> shapes c = true -> doms dom c = true ->
  SEval (interp (int_exec Z c)) y = SEval (SIntegrate dom Z (interp c)) y.
Proof.
  intros HZ Hf Hs Hd. unfold frag, frag_nodes, shapes, doms in *. rewrite forallb_forall in Hf, Hs, Hd.
  unfold Circ.eval, interp, interp_nodes, int_exec, Integrate.integrate. cbn [nodes]. rewrite !map_map.
  apply eval_from_ext. apply Forall2_map_both. intros [l ins] Hn vals. cbn [fst snd].
  apply interp_int_layer; [exact HZ | apply (Hf _ Hn) | apply (Hs _ Hn) | apply (Hd _ Hn)].
Qed.

(* the circuit produced by Ops.integrate_m denotes the same as int_exec *)
Lemma integrate_layer_node_eval Z l l' (ins ins' : list nat) y xs :
  frag_layer l = true -> shape_layer l = true ->
  (if is_input l && negb (sdisjoint (in_scope l) Z)
   then dor l1 <- integrate_layer l; Ok (l1, ins) else Ok (l, ins)) = Ok (l', ins') ->
  ins' = ins /\ node_eval l' y xs = node_eval (int_layer Z l) y xs.
Proof.
  intros Hf Hs H.
  destruct l as [v K N w| | | | |K lsp val| |Ki Ko ar w| |]; simpl in Hf; try discriminate.
  - destruct w as [i b W| | | |]; try discriminate. cbn [shape_layer] in Hs.
    cbn [is_input in_scope sdisjoint forallb andb] in H. rewrite andb_true_r, negb_involutive in H.
    cbn [int_layer]. destruct (smem v Z).
    + cbn [integrate_layer rbind] in H. inversion H; subst. split; [reflexivity|].
      cbn [node_eval in_eval]. rewrite (rowsum_peval K N i b W Hs). reflexivity.
    + inversion H; subst. split; reflexivity.
  - cbn [is_input in_scope sdisjoint forallb andb negb] in H. inversion H; subst. split; reflexivity.
  - cbn [is_input andb] in H. inversion H; subst. split; reflexivity.
  - cbn [is_input andb] in H. inversion H; subst. split; reflexivity.
  - cbn [is_input andb] in H. inversion H; subst. split; reflexivity.
Qed.

Lemma integrate_m_inv Z c c' : integrate_m Z c = Ok c' ->
  is_smooth c = true /\ is_decomposable c = true /\
  exists ns, rmap_list (fun n => let '(l, ins) := n in
                 if is_input l && negb (sdisjoint (in_scope l) Z)
                 then dor l' <- integrate_layer l; Ok (l', ins)
                 else Ok (l, ins)) (nodes c) = Ok ns /\ c' = mkC ns (outs c).
Proof.
  unfold integrate_m. destruct (is_smooth c); [|discriminate]. destruct (is_decomposable c); [|discriminate].
  cbn [andb negb]. destruct (sempty Z); [discriminate|]. destruct (negb (ssubset Z (cscope c))); [discriminate|].
  destruct (rmap_list _ (nodes c)) as [ns|] eqn:E; cbn [rbind]; [|discriminate].
  intros H. inversion H; subst. split; [reflexivity|]. split; [reflexivity|]. exists ns. split; reflexivity.
Qed.

Theorem den_integrate_m Z c c' y : frag c = true -> shapes c = true -> integrate_m Z c = Ok c' ->
  den_all c' y = den_all (int_exec Z c) y.
Proof.
  intros Hf Hs H. destruct (integrate_m_inv Z c c' H) as [_ [_ [ns [E ->]]]].
  unfold den_all, int_exec. cbn [nodes]. apply den_from_ext.
  apply rmap_list_Forall2 in E. unfold frag, frag_nodes, shapes in *. rewrite forallb_forall in Hf, Hs. clear H.
  induction E as [|[l ins] [l' ins'] ns0 ns1 H1 _ IH]; [constructor|].
  cbn [map]. constructor.
  - cbn [fst snd]. split.
    + apply (integrate_layer_node_eval Z l l' ins ins' y []); [apply (Hf (l, ins)) | apply (Hs (l, ins)) | exact H1]; simpl; auto.
    + intros xs. apply (integrate_layer_node_eval Z l l' ins ins' y xs); [apply (Hf (l, ins)) | apply (Hs (l, ins)) | exact H1]; simpl; auto.
  - apply IH; intros x Hx; [apply Hf | apply Hs]; simpl; auto.
Qed.

(* node-by-node agreement of the executable integral with the semantic integrate operator *)
Theorem integrate_link dom Z c c' y :
  NoDup Z -> frag c = true -> shapes c = true -> doms dom c = true -> integrate_m Z c = Ok c' ->
  den_all c' y = if inrange (int_exec Z c) y then Some (SEval (SIntegrate dom Z (interp c)) (afun y)) else None.
Proof.
  intros HZ Hf Hs Hd H. rewrite (den_integrate_m Z c c' y Hf Hs H).
  rewrite (den_all_spec _ y (frag_int_exec Z c Hf)). rewrite (interp_int_exec dom Z c (afun y) HZ Hf Hs Hd). reflexivity.
Qed.


(* ================================================================== *)
(* ok (interp c) from the boolean structural predicates                 *)
(* ================================================================== *)
Notation SScopes := (Circ.scopes C C).
Notation SScopesFrom := (Circ.scopes_from C C).
Notation SUnits := (Circ.units C C).
Notation SOk := (Circ.ok C c0 C).
Definition ou (n : layer * list nat) : nat := out_units (fst n).

Lemma Forall2_nth_sameset a b j : Forall2 sameset a b -> sameset (nth j a []) (nth j b []).
Proof.
  intros H; revert j; induction H as [|x y a b Hxy _ IH]; intros [|j]; simpl; try (intros u; tauto); auto.
Qed.

Lemma concat_sunions_sameset (sa se : list (list nat)) ins :
  (forall j, In j ins -> sameset (nth j sa []) (nth j se [])) ->
  sameset (concat (map (fun j => nth j sa []) ins)) (sunions (map (fun j => nth j se []) ins)).
Proof.
  intros H u. rewrite in_concat, sunions_In.
  split; intros [s [Hs Hu]]; apply in_map_iff in Hs; destruct Hs as [j [<- Hj]].
  - exists (nth j se []). split; [apply in_map_iff; exists j; auto | apply (H j Hj), Hu].
  - exists (nth j sa []). split; [apply in_map_iff; exists j; auto | apply (H j Hj), Hu].
Qed.

Lemma node_scope_link l ins sa se : Forall2 sameset sa se ->
  sameset (Circ.node_scope C C (interp_layer l ins) sa) (Struct.node_scope l ins se)
  \/ frag_layer l = false.
Proof.
  intros H.
  assert (G : forall ins, sameset (concat (map (fun j => nth j sa []) ins)) (sunions (map (fun j => nth j se []) ins))).
  { intros ins0. apply concat_sunions_sameset. intros j _. apply Forall2_nth_sameset, H. }
  destruct l as [v K N w| | | | |K lsp val| |Ki Ko ar w| |]; try (right; reflexivity).
  - destruct w; try (right; reflexivity). left. intros u. reflexivity.
  - destruct lsp; try (right; reflexivity). destruct val; try (right; reflexivity). left. intros u. reflexivity.
  - destruct w; try (right; reflexivity). left. apply G.
  - left. apply G.
  - left. apply G.
Qed.

Lemma frag_nodes_app a b : frag_nodes (a ++ b) = frag_nodes a && frag_nodes b.
Proof. apply forallb_app. Qed.

Lemma scopes_from_link ns : forall sa se, frag_nodes ns = true -> Forall2 sameset sa se ->
  Forall2 sameset (SScopesFrom (interp_nodes ns) sa) (Exec.scopes_from ns se).
Proof.
  induction ns as [|[l ins] ns IH]; intros sa se Hf H; [exact H|].
  cbn [frag_nodes forallb fst] in Hf. apply andb_prop in Hf. destruct Hf as [Hl Hns].
  rewrite scopes_from_cons. cbn [interp_nodes map fst snd Circ.scopes_from]. apply IH; [exact Hns|].
  apply Forall2_app; [exact H|]. constructor; [|constructor].
  destruct (node_scope_link l ins sa se H) as [G|G]; [exact G | congruence].
Qed.

Theorem scopes_interp c o : frag c = true -> sameset (nth o (SScopes (interp c)) []) (nth o (Exec.scopes c) []).
Proof. intros Hf. apply Forall2_nth_sameset. apply (scopes_from_link (nodes c) [] [] Hf). constructor. Qed.

Lemma scopes_link_pre c pre post j : frag c = true -> nodes c = pre ++ post -> j < length pre ->
  sameset (nth j (SScopes (interp_nodes pre)) []) (nth j (Exec.scopes c) []).
Proof.
  intros Hf Hn Hj. unfold frag in Hf. rewrite Hn, frag_nodes_app in Hf. apply andb_prop in Hf. destruct Hf as [Hp _].
  unfold Exec.scopes. rewrite Hn, Struct.scopes_from_app.
  rewrite scopes_from_old by (rewrite scopes_from_length; simpl; exact Hj).
  apply Forall2_nth_sameset. apply (scopes_from_link pre [] [] Hp). constructor.
Qed.

Lemma wf_from_nth ns : forall pos us i l ins, length us = pos -> wf_from ns pos us = true ->
  nth_error ns i = Some (l, ins) ->
  if is_input l then ins = [] else
    length ins = arity l /\ ins <> [] /\
    forall j, In j ins -> j < pos + i /\ nth j (us ++ map ou ns) 0 = in_units l.
Proof.
  induction ns as [|[l0 ins0] ns IH]; intros pos us i l ins Hlen Hwf Hn; [destruct i; discriminate|].
  cbn [wf_from] in Hwf. apply andb_prop in Hwf. destruct Hwf as [H1 H2]. destruct i as [|i].
  - cbn [nth_error] in Hn. inversion Hn; subst l0 ins0. destruct (is_input l).
    + destruct ins; [reflexivity | discriminate].
    + apply andb_prop in H1. destruct H1 as [H1 H3]. apply andb_prop in H1. destruct H1 as [H1 H4].
      apply Nat.eqb_eq in H1. split; [exact H1|]. split; [destruct ins; [discriminate | congruence]|].
      rewrite forallb_forall in H3. intros j Hj. specialize (H3 j Hj). apply andb_prop in H3. destruct H3 as [H5 H6].
      apply Nat.ltb_lt in H5. apply Nat.eqb_eq in H6. split; [lia|]. rewrite app_nth1 by lia. exact H6.
  - cbn [nth_error] in Hn.
    assert (Hlen' : length (us ++ [out_units l0]) = SS pos) by (rewrite app_length; simpl; lia).
    specialize (IH (SS pos) (us ++ [out_units l0]) i l ins Hlen' H2 Hn).
    destruct (is_input l); [exact IH|]. destruct IH as [A [B D]]. split; [exact A|]. split; [exact B|].
    intros j Hj. destruct (D j Hj) as [D1 D2]. split; [lia|]. rewrite <- app_assoc in D2. exact D2.
Qed.

Lemma pairwise_disjoint_nth (ss : list (list nat)) :
  (forall p q, p < q -> q < length ss -> disjoint (nth p ss []) (nth q ss [])) -> pairwise_disjoint ss.
Proof.
  induction ss as [|s r IH]; intros H; cbn [pairwise_disjoint]; [exact I|]. split.
  - intros t Ht. apply (In_nth _ _ []) in Ht. destruct Ht as [n [Hn <-]]. apply (H 0 (SS n)); simpl; lia.
  - apply IH. intros p q Hpq Hq. apply (H (SS p) (SS q)); simpl; lia.
Qed.

Lemma prod_const (f : nat -> nat) K ins : (forall j, In j ins -> f j = K) ->
  fold_right Nat.mul 1 (map f ins) = Nat.pow K (length ins).
Proof.
  induction ins as [|j ins IH]; intros H; [reflexivity|]. cbn [map fold_right length Nat.pow].
  rewrite (H j) by (simpl; auto). rewrite IH by (intros; apply H; simpl; auto). reflexivity.
Qed.

Lemma ok_prefix c :
  frag c = true -> shapes c = true -> wf c = true -> is_smooth c = true -> is_decomposable c = true ->
  forall pre post, nodes c = pre ++ post ->
  SOk (interp_nodes pre) /\ SUnits (interp_nodes pre) = map ou pre.
Proof.
  intros Hf Hs Hwf Hsm Hdc.
  assert (Hwf' : wf_from (nodes c) 0 [] = true) by (unfold wf in Hwf; apply andb_prop in Hwf; apply Hwf).
  induction pre as [|[l ins] pre IH] using rev_ind; intros post Hn.
  - split; [constructor | reflexivity].
  - rewrite <- app_assoc in Hn. cbn [app] in Hn. destruct (IH _ Hn) as [Hok Hun].
    set (i := length pre).
    assert (Hnth : nth_error (nodes c) i = Some (l, ins)).
    { rewrite Hn. rewrite nth_error_app2 by (unfold i; lia). unfold i. rewrite Nat.sub_diag. reflexivity. }
    assert (Hin : In (l, ins) (nodes c)) by (rewrite Hn; apply in_or_app; right; left; reflexivity).
    assert (Hfl : frag_layer l = true).
    { unfold frag, frag_nodes in Hf. rewrite forallb_forall in Hf. apply (Hf _ Hin). }
    assert (Hsl : shape_layer l = true).
    { unfold shapes in Hs. rewrite forallb_forall in Hs. apply (Hs _ Hin). }
    pose proof (wf_from_nth (nodes c) 0 [] i l ins eq_refl Hwf' Hnth) as Hw. cbn [app plus] in Hw.
    set (us := SUnits (interp_nodes pre)) in *. set (sc := SScopes (interp_nodes pre)).
    assert (Hu : forall j, j < i -> nth j us 0 = nth j (map ou (nodes c)) 0).
    { intros j Hj. rewrite Hun, Hn, map_app, app_nth1 by (rewrite map_length; exact Hj). reflexivity. }
    assert (Hsc : forall j, j < i -> sameset (nth j sc []) (nth j (Exec.scopes c) [])).
    { intros j Hj. apply (scopes_link_pre c pre ((l, ins) :: post) j Hf Hn Hj). }
    assert (Hmain : ok_node C c0 C i us sc (interp_layer l ins) /\ node_units C C (interp_layer l ins) us = out_units l).
    { destruct l as [v K N w| | | | |K lsp val| |Ki Ko ar w|Ki ar|Ki ar]; simpl in Hfl; try discriminate.
      - (* embedding *)
        destruct w as [i0 b W| | | |]; try discriminate. cbn [shape_layer] in Hsl.
        destruct (is_matrix_spec _ _ _ Hsl) as [HK _].
        cbn [interp_layer ok_node node_units Circ.iunits Circ.ifun Circ.iscope out_units]. split; [split|reflexivity].
        + intros y. unfold emb_fun. rewrite map_length. exact HK.
        + intros k y y' Ha. unfold emb_fun. rewrite (Ha v) by (left; reflexivity). reflexivity.
      - (* constant *)
        destruct lsp; try discriminate. destruct val as [i0 b V| | | |]; try discriminate.
        cbn [shape_layer] in Hsl. apply Nat.eqb_eq in Hsl.
        cbn [interp_layer ok_node node_units Circ.iunits Circ.ifun Circ.iscope out_units]. split; [split|reflexivity].
        + intros _. exact Hsl.
        + intros k y y' _. reflexivity.
      - (* sum *)
        destruct w as [i0 b W| | | |]; try discriminate. cbn [shape_layer] in Hsl. apply Nat.eqb_eq in Hsl.
        cbn [is_input arity in_units] in Hw. destruct Hw as [Hlen [Hne Hj]].
        cbn [interp_layer ok_node node_units out_units]. split; [|exact Hsl].
        split; [exact Hne|]. split; [intros j Hjin; apply (Hj j Hjin)|].
        intros j Hjin.
        pose proof (proj1 (smooth_iff' c) Hsm i _ ins Hnth eq_refl j Hjin) as Hsmj.
        pose proof (scopes_nth_error c i _ ins Hnth (fun j Hj0 => proj1 (Hj j Hj0))) as Hsci. cbn [is_input] in Hsci.
        intros u. etransitivity; [apply (Hsc j (proj1 (Hj j Hjin)) u)|].
        etransitivity; [apply (Hsmj u)|]. rewrite Hsci. symmetry.
        apply (concat_sunions_sameset sc (Exec.scopes c) ins). intros j' Hj'. apply Hsc. apply (Hj j' Hj').
      - (* hadamard *)
        cbn [is_input arity in_units] in Hw. destruct Hw as [Hlen [Hne Hj]].
        assert (Huj : forall j, In j ins -> nth j us 0 = Ki).
        { intros j Hjin. rewrite Hu by (apply (Hj j Hjin)). apply (Hj j Hjin). }
        cbn [interp_layer ok_node node_units out_units]. split.
        + split; [exact Hne|]. split; [intros j Hjin; apply (Hj j Hjin)|]. split.
          * intros j Hjin. destruct ins as [|j0 ins']; [contradiction|].
            rewrite (Huj j Hjin), (Huj j0) by (left; reflexivity). reflexivity.
          * apply pairwise_disjoint_nth. intros p q Hpq Hq. rewrite map_length in Hq.
            rewrite !nth_map_scopes by lia. intros u Hu1 Hu2.
            assert (Hp : nth p ins 0 < i) by (apply (Hj (nth p ins 0)), nth_In; lia).
            assert (Hq' : nth q ins 0 < i) by (apply (Hj (nth q ins 0)), nth_In; lia).
            apply (proj1 (decomposable_iff c) Hdc _ ins Hin eq_refl p q Hpq Hq u).
            split; [apply (Hsc _ Hp u), Hu1 | apply (Hsc _ Hq' u), Hu2].
        + destruct ins as [|j0 ins']; [contradiction|]. apply Huj. left; reflexivity.
      - (* kronecker *)
        cbn [is_input arity in_units] in Hw. destruct Hw as [Hlen [Hne Hj]].
        assert (Huj : forall j, In j ins -> nth j us 0 = Ki).
        { intros j Hjin. rewrite Hu by (apply (Hj j Hjin)). apply (Hj j Hjin). }
        cbn [interp_layer ok_node node_units out_units]. split.
        + split; [exact Hne|]. split; [intros j Hjin; apply (Hj j Hjin)|].
          apply pairwise_disjoint_nth. intros p q Hpq Hq. rewrite map_length in Hq.
          rewrite !nth_map_scopes by lia. intros u Hu1 Hu2.
          assert (Hp : nth p ins 0 < i) by (apply (Hj (nth p ins 0)), nth_In; lia).
          assert (Hq' : nth q ins 0 < i) by (apply (Hj (nth q ins 0)), nth_In; lia).
          apply (proj1 (decomposable_iff c) Hdc _ ins Hin eq_refl p q Hpq Hq u).
          split; [apply (Hsc _ Hp u), Hu1 | apply (Hsc _ Hq' u), Hu2].
        + rewrite (prod_const _ Ki ins Huj), Hlen. reflexivity. }
    destruct Hmain as [Hnode Hunit].
    rewrite interp_nodes_app. change (interp_nodes [(l, ins)]) with [interp_layer l ins]. split.
    + apply ok_snoc; [exact Hok|]. rewrite length_interp_nodes. exact Hnode.
    + rewrite (Circ.units_snoc C C). unfold us in Hunit. rewrite Hunit, map_app.
      replace (SUnits (interp_nodes pre)) with (map ou pre) by (symmetry; exact Hun). reflexivity.
Qed.

Theorem ok_interp c :
  frag c = true -> shapes c = true -> wf c = true -> is_smooth c = true -> is_decomposable c = true ->
  SOk (interp c).
Proof. intros Hf Hs Hwf Hsm Hdc. apply (ok_prefix c Hf Hs Hwf Hsm Hdc (nodes c) []). symmetry. apply app_nil_r. Qed.

Theorem units_interp c :
  frag c = true -> shapes c = true -> wf c = true -> is_smooth c = true -> is_decomposable c = true ->
  SUnits (interp c) = map ou (nodes c).
Proof. intros Hf Hs Hwf Hsm Hdc. apply (ok_prefix c Hf Hs Hwf Hsm Hdc (nodes c) []). symmetry. apply app_nil_r. Qed.

(* ================================================================== *)
(* The executable integral computes the iterated sum of the original circuit *)
(* ================================================================== *)
Theorem integrate_exec_correct dom Z c c' y vals' :
  NoDup Z -> frag c = true -> shapes c = true -> doms dom c = true -> wf c = true ->
  integrate_m Z c = Ok c' -> den_all c' y = Some vals' ->
  forall o k, o < length (nodes c) ->
  nth k (nth o vals' []) c0
  = SIntL dom (zs_of Z (nth o (Exec.scopes c) []))
              (fun y' => nth k (nth o (SEval (interp c) y') []) c0) (afun y).
Proof.
  intros HZ Hf Hs Hd Hwf H Hden o k Ho.
  destruct (integrate_m_inv Z c c' H) as [Hsm [Hdc _]].
  rewrite (integrate_link dom Z c c' y HZ Hf Hs Hd H) in Hden.
  destruct (inrange (int_exec Z c) y); [|discriminate]. inversion Hden; subst vals'.
  assert (Ho' : o < length (interp c)) by (rewrite length_interp; exact Ho).
  pose proof (integrate_correct C c0 c1 cadd cmul C_semi_ring C (dInt dom) (dInt_ext dom) (dInt_add dom) (dInt_scal dom)
             Z (interp c) (ok_interp c Hf Hs Hwf Hsm Hdc) o k (afun y) Ho') as G.
  rewrite (zs_of_sameset Z _ _ (scopes_interp c o Hf)) in G. exact G.
Qed.


(* ================================================================== *)
(* Executable-level restatement: iterated sums of den_all               *)
(* ================================================================== *)
(* iterated sum over the states of the variables vs, on list assignments (the last variable
   of vs is the innermost sum); the summed variable is bound in front of the assignment *)
Fixpoint sum_states (dom : nat -> nat) (vs : list nat) (g : Exec.asg -> C) (y : Exec.asg) : C :=
  match vs with
  | [] => g y
  | v :: vs' => sumC (map (fun d => sum_states dom vs' g ((v, cofZ (Z.of_nat d)) :: y)) (seq 0 (dom v)))
  end.
(* unit k of node o of the executable denotation (c0 where undefined) *)
Definition dval (c : Exec.circuit) (o k : nat) (y : Exec.asg) : C :=
  match den_all c y with Some vals => nth k (nth o vals []) c0 | None => c0 end.

Lemma eval_from_ext2 (ns ns' : SCirc) (y y' : sasg) :
  Forall2 (fun n n' => forall vals, SEvalNode n y vals = SEvalNode n' y' vals) ns ns' ->
  forall acc, SEvalFrom ns y acc = SEvalFrom ns' y' acc.
Proof.
  induction 1 as [|n n' ns ns' Hn _ IH]; intros acc; [reflexivity|].
  cbn [Circ.eval_from]. rewrite Hn. apply IH.
Qed.
Lemma Forall2_same {A} (P : A -> A -> Prop) l : (forall x, In x l -> P x x) -> Forall2 P l l.
Proof. induction l as [|a l IH]; intros H; constructor; [apply H; simpl; auto | apply IH; intros; apply H; simpl; auto]. Qed.

Lemma interp_layer_pw l ins y y' vals : (forall u, y u = y' u) ->
  SEvalNode (interp_layer l ins) y vals = SEvalNode (interp_layer l ins) y' vals.
Proof.
  intros H. destruct l as [v K N w| | | | |K lsp val| |Ki Ko ar w| |]; try reflexivity.
  - destruct w; try reflexivity. cbn [interp_layer Circ.eval_node Circ.ifun]. unfold emb_fun. rewrite H. reflexivity.
  - destruct lsp; try reflexivity. destruct val; reflexivity.
  - destruct w; reflexivity.
Qed.
Lemma SEval_pw c y y' : (forall u, y u = y' u) -> SEval (interp c) y = SEval (interp c) y'.
Proof.
  intros H. unfold Circ.eval. apply eval_from_ext2. apply Forall2_same. intros n Hn vals.
  unfold interp, interp_nodes in Hn. apply in_map_iff in Hn. destruct Hn as [[l ins] [<- _]].
  apply interp_layer_pw, H.
Qed.

Lemma upd_afun y v x u : Base.upd C (afun y) v x u = afun ((v, x) :: y) u.
Proof. unfold Base.upd, afun. cbn [lookup]. rewrite (Nat.eqb_sym u v). reflexivity. Qed.

Lemma IntL_pw dom vs (f : sasg -> C) : (forall y y', (forall u, y u = y' u) -> f y = f y') ->
  forall y y', (forall u, y u = y' u) -> SIntL dom vs f y = SIntL dom vs f y'.
Proof.
  intros Hf. induction vs as [|v vs IH]; intros y y' H; cbn [Base.IntL]; [apply Hf, H|].
  apply dInt_ext. intros d. apply IH. intros u. unfold Base.upd. rewrite H. reflexivity.
Qed.

Lemma IntL_sum_states dom vs (f : sasg -> C) : (forall y y', (forall u, y u = y' u) -> f y = f y') ->
  forall y, SIntL dom vs f (afun y) = sum_states dom vs (fun yl => f (afun yl)) y.
Proof.
  intros Hf. induction vs as [|v vs IH]; intros y; cbn [Base.IntL sum_states]; [reflexivity|].
  unfold dInt. f_equal. apply map_ext. intros d. rewrite <- IH. apply (IntL_pw dom vs f Hf). intros u. apply upd_afun.
Qed.

Lemma inrange_cons dom c y v d : doms dom c = true -> inrange c y = true -> d < dom v ->
  inrange c ((v, cofZ (Z.of_nat d)) :: y) = true.
Proof.
  unfold doms, inrange, inrange_nodes. rewrite !forallb_forall. intros Hd Hy Hlt [l ins] Hn.
  specialize (Hd _ Hn). specialize (Hy _ Hn). cbn [fst] in *.
  destruct l; try reflexivity. cbn [inrange_layer dom_layer lookup] in *.
  destruct (Nat.eqb_spec v v0) as [->|Hne]; [|exact Hy].
  rewrite cidx_cofZ. apply Nat.eqb_eq in Hd. apply Nat.ltb_lt. lia.
Qed.

Lemma sum_states_ext dom c vs g g' : doms dom c = true ->
  (forall yl, inrange c yl = true -> g yl = g' yl) ->
  forall y, inrange c y = true -> sum_states dom vs g y = sum_states dom vs g' y.
Proof.
  intros Hd Hg. induction vs as [|v vs IH]; intros y Hy; cbn [sum_states]; [apply Hg, Hy|].
  f_equal. apply map_ext_in. intros d Hin. apply in_seq in Hin. apply IH. apply (inrange_cons dom); [exact Hd | exact Hy | lia].
Qed.

Lemma dval_spec c o k y : frag c = true -> inrange c y = true ->
  dval c o k y = nth k (nth o (SEval (interp c) (afun y)) []) c0.
Proof. intros Hf Hy. unfold dval. rewrite (den_all_spec c y Hf), Hy. reflexivity. Qed.

Lemma inrange_int_exec Z c y : inrange c y = true -> inrange (int_exec Z c) y = true.
Proof.
  unfold inrange, inrange_nodes, int_exec. cbn [nodes]. rewrite forallb_map'. rewrite !forallb_forall.
  intros H n Hn. specialize (H n Hn). cbn [fst]. destruct (fst n) as [v K N w| | | | | | | | |]; try exact H.
  destruct w; try exact H. cbn [int_layer]. destruct (smem v Z); [reflexivity | exact H].
Qed.

(* C03 at the executable level: every unit of every node of the circuit returned by
   Ops.integrate_m is the iterated sum, over all states of the integrated variables in the
   scope of that node, of the denotation of the original circuit *)
Theorem integrate_exec_den dom Z c c' y :
  NoDup Z -> frag c = true -> shapes c = true -> doms dom c = true -> wf c = true ->
  integrate_m Z c = Ok c' -> inrange c y = true ->
  exists vals', den_all c' y = Some vals' /\
  forall o k, o < length (nodes c) ->
    nth k (nth o vals' []) c0 = sum_states dom (zs_of Z (nth o (Exec.scopes c) [])) (dval c o k) y.
Proof.
  intros HZ Hf Hs Hd Hwf H Hy.
  pose proof (integrate_link dom Z c c' y HZ Hf Hs Hd H) as Hden.
  rewrite (inrange_int_exec Z c y Hy) in Hden. eexists. split; [exact Hden|].
  intros o k Ho. rewrite (integrate_exec_correct dom Z c c' y _ HZ Hf Hs Hd Hwf H Hden o k Ho).
  rewrite (IntL_sum_states dom _ (fun y' => nth k (nth o (SEval (interp c) y') []) c0)).
  - apply (sum_states_ext dom c); [exact Hd | | exact Hy]. intros yl Hyl. symmetry. apply dval_spec; assumption.
  - intros y1 y2 Hy12. rewrite (SEval_pw c y1 y2 Hy12). reflexivity.
Qed.

(* ================================================================== *)
(* The shape check in terms of Tensor.tshape                            *)
(* ================================================================== *)
Lemma tshape_of_nil_scalar (t : tn) : tshape_of t = [] -> is_scalar t = true.
Proof. destruct t; [reflexivity | discriminate]. Qed.

Lemma tregular_row N (r : tn) : tregular r = true -> tshape_of r = [N] -> is_row N r = true.
Proof.
  destruct r as [c|l]; cbn [tshape_of]; [discriminate|]. intros Hr Hsh. inversion Hsh as [[HN Hx]]. clear Hsh.
  cbn [is_row]. rewrite Nat.eqb_refl. cbn [andb]. cbn [tregular] in Hr. apply andb_prop in Hr. destruct Hr as [_ Hr].
  destruct l as [|x l]; [reflexivity|]. cbn [forallb]. rewrite (tshape_of_nil_scalar x Hx). cbn [andb].
  rewrite forallb_forall in *. intros z Hz. specialize (Hr z Hz). apply tshape_of_nil_scalar.
  change (seqb (tshape_of z) (tshape_of x) = true) in Hr. apply seqb_eq in Hr. congruence.
Qed.

Theorem tshape_is_matrix K N (W : tn) : tshape W = Some [K; N] -> is_matrix K N W = true.
Proof.
  unfold tshape. destruct (tregular W) eqn:Hr; [|discriminate]. intros H. inversion H as [Hsh]. clear H.
  destruct W as [c|rows]; cbn [tshape_of] in Hsh; [discriminate|]. inversion Hsh as [[HK Hx]]. clear Hsh.
  cbn [is_matrix]. rewrite Nat.eqb_refl. cbn [andb]. cbn [tregular] in Hr. apply andb_prop in Hr. destruct Hr as [Hr1 Hr2].
  destruct rows as [|x rows]; [discriminate|]. cbn [forallb] in *. apply andb_prop in Hr1. destruct Hr1 as [Hx1 Hr1].
  rewrite (tregular_row N x Hx1 Hx). cbn [andb]. rewrite forallb_forall in *. intros z Hz.
  apply tregular_row; [apply Hr1, Hz|]. specialize (Hr2 z Hz).
  change (seqb (tshape_of z) (tshape_of x) = true) in Hr2. apply seqb_eq in Hr2. congruence.
Qed.

(* ================================================================== *)
(* Non-vacuity: a closed example satisfying every hypothesis            *)
(* ================================================================== *)
Module Example.
Definition q (n : Z) : C := cofZ n.
Definition W0 : tn := of_mat [[q 1; q 2]; [q 3; q 4]].
Definition W1 : tn := of_mat [[q 5; q 6]; [q 7; q 8]].
Definition Ws : tn := of_mat [[q 1; q 1]].
Definition ex : Exec.circuit :=
  mkC [ (LEmb 0 2 2 (PTen 1 true W0), []); (LEmb 1 2 2 (PTen 2 true W1), []);
        (LHad 2 2, [0; 1]); (LSum 2 1 1 (PTen 3 true Ws), [2]) ] [3].
Definition exi : Exec.circuit :=
  match integrate_m [0] ex with Ok c => c | Err _ => mkC [] [] end.
Definition y1 : Exec.asg := [(0, q 0); (1, q 1)].
Example ex_hyps :
  frag ex = true /\ shapes ex = true /\ doms (fun _ => 2) ex = true /\ wf ex = true /\
  inrange ex y1 = true /\ integrate_m [0] ex = Ok exi.
Proof. vm_compute. repeat split; reflexivity. Qed.
(* rows are units, columns are states: (1+2)*6 + (3+4)*8 = 74 *)
Example ex_value : den_all exi y1 = Some [[q 3; q 7]; [q 6; q 8]; [q 18; q 56]; [q 74]].
Proof. vm_compute. reflexivity. Qed.
Example ex_sum : sum_states (fun _ => 2) [0] (dval ex 3 0) y1 = q 74.
Proof. vm_compute. reflexivity. Qed.
Definition exc : Exec.circuit := match conjugate_m ex with Ok c => c | Err _ => mkC [] [] end.
Example ex_conj : conjugate_m ex = Ok exc /\ den_all exc y1 = option_map (map (map cconj)) (den_all ex y1).
Proof. vm_compute. split; reflexivity. Qed.
End Example.

Check den_all_spec.
Print Assumptions den_all_spec.
Check den_interp.
Print Assumptions den_interp.
Check den_interp_conv.
Print Assumptions den_interp_conv.
Check den_prep.
Print Assumptions den_prep.
Check interp_conj_exec.
Print Assumptions interp_conj_exec.
Check den_conj_exec.
Print Assumptions den_conj_exec.
Check conjugate_link.
Print Assumptions conjugate_link.
Check conjugate_link_prep.
Print Assumptions conjugate_link_prep.
Check dInt_ext.
Print Assumptions dInt_ext.
Check dInt_add.
Print Assumptions dInt_add.
Check dInt_scal.
Print Assumptions dInt_scal.
Check rowsum_peval.
Print Assumptions rowsum_peval.
Check IntV_emb.
Print Assumptions IntV_emb.
Check interp_int_exec.
Print Assumptions interp_int_exec.
Check den_integrate_m.
Print Assumptions den_integrate_m.
Check integrate_link.
Print Assumptions integrate_link.
Check scopes_interp.
Print Assumptions scopes_interp.
Check ok_interp.
Print Assumptions ok_interp.
Check units_interp.
Print Assumptions units_interp.
Check integrate_exec_correct.
Print Assumptions integrate_exec_correct.
Check integrate_exec_den.
Print Assumptions integrate_exec_den.
Check tshape_is_matrix.
Print Assumptions tshape_is_matrix.
Print Assumptions Example.ex_hyps.
Print Assumptions Example.ex_value.
Print Assumptions Example.ex_conj.
