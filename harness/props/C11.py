"""C11 — marginal queries on compiled circuits equal true marginals per sample."""
import traceback

import numpy as np
import torch

import cirkit.symbolic.functional as SF
from cirkit.backend.torch.queries import IntegrateQuery
from cirkit.utils.scope import Scope
from cirkit.symbolic import parameters as P

import evalc
import export
import gen
from cases import CaseSet, rng_for, pick_semiring, close, all_assignments

PID = "C11"


def num_folds(cc):
    return max(l.num_folds for l in cc.layers)


def brute(cc, sc, y, Z, doms, sem, w):
    """sum / quadrature of the compiled circuit over the variables Z at the sample y (per output scope)"""
    nout = len(sc.outputs)
    base = evalc.evaluate(cc, sc, [y], sem, width=w)[0]
    exp = np.zeros(base.shape, dtype=complex if np.iscomplexobj(base) else float)
    for o in range(nout):
        so = sc.layer_scope(sc.outputs[o])._set
        dz = [v for v in Z if v in so and doms[v][0] == "disc"]
        cz = [v for v in Z if v in so and doms[v][0] != "disc"]
        if len(cz) > 1:
            return None
        zas = all_assignments(doms, dz)
        tot = 0.0
        for z in zas:
            if not cz:
                tot = tot + evalc.evaluate(cc, sc, [{**y, **z}], sem, width=w)[0][o]
            else:
                grid = np.linspace(-40.0, 40.0, 3201)
                h = grid[1] - grid[0]
                vals = evalc.evaluate(cc, sc, [{**y, **z, cz[0]: t} for t in grid], sem, width=w)
                tot = tot + vals.sum(axis=0)[o] * h
        exp[o] = tot
    return exp


def one_case(rep, cs, seed, i):
    rng = rng_for(seed, PID, i)
    monotone = rng.random() < 0.6
    style = rng.choice(["disc", "disc", "emb", "bin", "gau"])
    kinds = {"disc": ["cat_probs", "cat_logits", "cat_softmax"], "emb": ["emb", "emb", "cat_logits", "cat_probs"],
             "bin": ["bin", "cat_logits"], "gau": ["gau", "cat_logits", "cat_probs"]}[style]
    o = gen.random_opts(rng, kinds=kinds, monotone=monotone)
    if style == "gau":
        o["nvars"] = min(o["nvars"], 3)
    sc, g = gen.gen_circuit(rng, **o)
    sem = pick_semiring(rng, monotone)
    fold, opt = rng.choice(evalc.FLAGS)
    scope = sorted(sc.scope._set)
    desc = {"i": i, "seed": seed, "style": style, "sem": sem, "fold": fold, "opt": opt, **g.desc}
    rep.count("style:" + style)
    rep.count("semiring:" + sem)
    rep.count(f"flags:{int(fold)}{int(opt)}")
    try:
        ctx = evalc.make_ctx(sem, fold, opt)
        cc = ctx.compile(sc)
        F = num_folds(cc)
        B = rng.choice(sorted({1, 2, F, F + 1}))
        if rng.random() < 0.4:
            B = F
        rep.count(f"batch==folds:{int(B == F)}")
        ys = gen.sample_inputs(rng, g.doms, scope, B, exhaustive_limit=0, nonneg=(sem == "lse-sum"))[:B]
        while len(ys) < B:
            ys.append(dict(ys[-1]))
        w = evalc.width_of(sc)
        x = evalc.to_batch(ys, w)
        fmt = rng.choice(["mask", "scope", "scopes"])
        rep.count("format:" + fmt)
        if fmt == "scope":
            Zs = [sorted(rng.sample(scope, rng.randint(0, len(scope))))] * B
        else:
            Zs = [sorted(rng.sample(scope, rng.randint(0, len(scope)))) for _ in range(B)]
        desc["Zs"] = Zs
        desc["format"] = fmt
        q = IntegrateQuery(cc)
        if fmt == "mask":
            mask = torch.zeros((B, w), dtype=torch.bool)
            for b, Z in enumerate(Zs):
                for v in Z:
                    mask[b, v] = True
            out = q(x, integrate_vars=mask)
        elif fmt == "scope":
            out = q(x, integrate_vars=Scope(Zs[0]))
        else:
            out = q(x, integrate_vars=[Scope(Z) for Z in Zs])
        got = evalc.to_linear(out, sem)
        # the three formats agree
        out2 = q(x, integrate_vars=[Scope(Z) for Z in Zs])
        if not close(got, evalc.to_linear(out2, sem), rtol=1e-10, atol=1e-12):
            rep.violation("formats-disagree", "mask / scope / per-sample scopes give different answers", {"case": desc})
        # out-of-scope variables are rejected
        bad = max(scope) + 1 if rng.random() < 0.5 else next((v for v in range(max(scope)) if v not in scope), max(scope) + 1)
        try:
            q(x, integrate_vars=Scope([bad]))
            rep.violation("out-of-scope-accepted", "an integration query over a variable outside the scope was accepted", {"case": desc, "variable": bad})
        except (ValueError, IndexError):
            pass
    except Exception as e:
        rep.violation("query-exception:" + type(e).__name__, "the integration query raised on valid arguments",
                      {"case": desc, "exception": repr(e)[:300], "traceback": traceback.format_exc()[-1500:]})
        return
    if got.shape != (B, len(sc.outputs), sc.outputs[0].num_output_units):
        rep.violation("query-shape", "query output does not have shape (batch, outputs, units)", {"case": desc, "observed": list(got.shape)})
        return
    # ---- oracle 1: brute-force marginal of the compiled circuit, per sample ----
    exp = []
    for y, Z in zip(ys, Zs):
        e = brute(cc, sc, y, Z, g.doms, sem, w)
        exp.append(e)
    if all(e is not None for e in exp):
        exp = np.array(exp)
        tol = 1e-5 if style == "gau" else 1e-7
        if not close(got, exp, rtol=tol, atol=tol * 0.01):
            rep.violation("query-wrong-marginal", "the integration query differs from the brute-force marginal of the compiled circuit",
                          {"case": desc, "inputs": ys, "observed": got.tolist(), "expected": exp.tolist()})
    # ---- oracle 2: compiling the symbolic integrate operator ----
    if style != "bin":
        for b, (y, Z) in enumerate(zip(ys, Zs)):
            if not Z:
                continue
            try:
                si = SF.integrate(sc, Scope(Z))
                ci = ctx.compile(si)
                v = evalc.evaluate(ci, si, [{k: y[k] for k in y if k not in Z}], sem, width=w)[0]
            except Exception as e:
                rep.violation("symbolic-integrate-exception:" + type(e).__name__, "compiling integrate(c, Z) raised", {"case": desc, "Z": Z})
                break
            if not close(got[b], v, rtol=1e-7, atol=1e-9):
                rep.violation("query-vs-symbolic", "the integration query differs from compiling the symbolic integrate operator",
                              {"case": desc, "sample": b, "Z": Z, "observed": got[b].tolist(), "expected": v.tolist()})
                break
    # ---- the SAME query object after in-place parameter updates (training step, load_state_dict, reset) ----
    try:
        from props.C02 import prob_leaves, tensor_leaves
        state = ctx._compiler.state
        keep = set()
        frozen = prob_leaves([sc])
        for p_ in tensor_leaves([sc]):
            if id(p_) in frozen and state.has_compiled_parameter(p_):
                keep.add(state.retrieve_compiled_parameter(p_)[0]._ptensor.data_ptr())
        with torch.no_grad():
            seen = set(keep)
            for p in cc.parameters():
                if p.requires_grad and p.data_ptr() not in seen:
                    seen.add(p.data_ptr())
                    p.add_(torch.tensor(gen.dy(rng, 1, 3, 16), dtype=p.dtype))
        got2 = evalc.to_linear(q(x, integrate_vars=[Scope(Z) for Z in Zs]), sem)
        exp2 = [brute(cc, sc, y, Z, g.doms, sem, w) for y, Z in zip(ys, Zs)]
        if all(e is not None for e in exp2) and np.all(np.isfinite(got2)):
            tol = 1e-5 if style == "gau" else 1e-7
            if not close(got2, np.array(exp2), rtol=tol, atol=tol * 0.01):
                rep.violation("query-stale-after-update", "after an in-place parameter update the same IntegrateQuery object no longer returns the marginal of the (updated) circuit",
                              {"case": desc, "inputs": ys, "observed": got2.tolist(), "expected": np.array(exp2).tolist()})
    except Exception as e:
        rep.violation("query-exception:" + type(e).__name__, "the integration query raised after a parameter update",
                      {"case": desc, "exception": repr(e)[:300], "traceback": traceback.format_exc()[-1500:]})
        return
    # ---- correspondence: per sample, query = den (integrate_m Z c) at the sample ----
    if style == "bin" or not np.all(np.isfinite(got)):
        return
    ex = export.Exporter()
    try:
        tc = ex.circuit(sc)
    except export.ExportError as e:
        rep.violation("export-error", str(e), {"case": desc}, found_input=False)
        return
    parts = []
    for b, (y, Z) in enumerate(zip(ys, Zs)):
        yy = {k: y[k] for k in y if k not in Z}
        if Z:
            parts.append(f"match integrate_m {export.ex_nats(Z)} c with Ok ci => den_vs ci [{export.ex_asg(yy)}] {export.ex_vals(got[b:b+1])} | Err _ => 2 end")
        else:
            parts.append(f"den_vs c [{export.ex_asg(yy)}] {export.ex_vals(got[b:b+1])}")
    term = f"let c := {tc} in [nmin [" + "; ".join(parts) + "]]"

    def interp(res, desc=desc, ys=ys):
        (dv,) = res
        rep.count(f"coq:query={dv}")
        if dv == 0:
            rep.violation("query-vs-model", "the integration query differs from the model's integrate_m evaluated at the sample", {"case": desc, "inputs": ys})

    cs.add(desc, term, interp, nontrivial=g.desc["sums"] >= 1 and g.desc["prods"] >= 1)


def extreme_case(rep, seed, i):
    """logits of large magnitude (all logits of a unit below -745, or some above +709): the marginals are finite in the log-space
    semiring and must be computed stably; compared in LOG space with the log-sum-exp of the compiled circuit's own log-outputs"""
    from cirkit.symbolic import layers as L
    from cirkit.symbolic.initializers import ConstantTensorInitializer
    rng = rng_for(seed, PID + "extreme", i)
    o = gen.random_opts(rng, kinds=["cat_logits"], monotone=True, nout=1)
    o["nvars"] = rng.choice([2, 3])
    sc, g = gen.gen_circuit(rng, **o)
    off = rng.choice([-800.0, -760.0, -1200.0, 720.0])
    shifted = 0
    for l in sc.layers:
        if isinstance(l, L.CategoricalLayer) and l.logits is not None and len(l.logits.nodes) == 1 and isinstance(l.logits.nodes[0], P.TensorParameter):
            t = l.logits.nodes[0]
            if isinstance(t.initializer, ConstantTensorInitializer) and not getattr(t, "_shifted", False) and rng.random() < 0.7:
                t.initializer = ConstantTensorInitializer(np.asarray(t.initializer.value, dtype=np.float64) + off)
                t._shifted = True
                shifted += 1
    if not shifted:
        return
    scope = sorted(sc.scope._set)
    fold, opt = rng.choice(evalc.FLAGS)
    desc = {"i": i, "seed": seed, "family": "extreme-logits", "offset": off, "sem": "lse-sum", "fold": fold, "opt": opt, **g.desc}
    rep.count("family:extreme-logits")
    rep.case(desc, True)
    try:
        ctx = evalc.make_ctx("lse-sum", fold, opt)
        cc = ctx.compile(sc)
        w = evalc.width_of(sc)
        B = rng.choice([1, 2, 3])
        ys = gen.sample_inputs(rng, g.doms, scope, B, exhaustive_limit=0)[:B]
        while len(ys) < B:
            ys.append(dict(ys[-1]))
        Zs = [sorted(rng.sample(scope, rng.randint(1, len(scope)))) for _ in range(B)]
        desc["Zs"] = Zs
        x = evalc.to_batch(ys, w)
        out = IntegrateQuery(cc)(x, integrate_vars=[Scope(Z) for Z in Zs]).detach()
        exp = []
        for y, Z in zip(ys, Zs):
            zas = all_assignments(g.doms, Z)
            raw = cc(evalc.to_batch([{**y, **z} for z in zas], w)).detach()   # (A, O, K) log-values
            exp.append(torch.logsumexp(raw, dim=0))
        exp = torch.stack(exp)
    except Exception as e:
        rep.violation("query-exception:" + type(e).__name__, "the integration query raised on valid arguments",
                      {"case": desc, "exception": repr(e)[:300], "traceback": traceback.format_exc()[-1500:]})
        return
    if not torch.all(torch.isfinite(exp)):
        rep.count("extreme:reference-not-finite")
        return
    if not torch.all(torch.isfinite(out)) or not torch.allclose(out.real if out.is_complex() else out, exp, rtol=1e-9, atol=1e-7):
        rep.violation("query-extreme-logits", "with logits of large magnitude the integration query does not return the (finite) log-marginal "
                      "that the compiled circuit's own log-outputs determine", {"case": desc, "inputs": ys, "observed": out.tolist(), "expected": exp.tolist()})


def run(rep, tier, seed, replay=None):
    n = 80 if tier == "quick" else 900
    cs = CaseSet(rep, PID)
    if replay is not None:
        c = replay["replay"].get("case", {})
        if c.get("family") == "extreme-logits":
            extreme_case(rep, c.get("seed", seed), c.get("i", 0))
        else:
            one_case(rep, cs, c.get("seed", seed), c.get("i", 0))
        cs.run()
        return
    for i in range(n):
        one_case(rep, cs, seed, i)
    for i in range(max(16, n // 5)):
        extreme_case(rep, seed, i)
    cs.run(shard=max(4, 80 // 14))  # shard size of the quick tier: thorough runs use more files, not longer ones
