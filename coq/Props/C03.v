(* C03 — integrate returns exactly the marginal / partition function
   Property theorems only: each is closed by `exact <lemma>`; proofs live in the imported files. *)
From Coq Require Import List ZArith QArith Qcanon Ring_theory Field_theory Permutation Sorted.
Import ListNotations.
From CK Require Import Base.
From CK Require Import Circ.
From CK Require Import Integrate.
From CK Require Import Scalar.
From CK Require Import Tensor.
From CK Require Import Pexpr.
From CK Require Import Exec.
From CK Require Import Ops.
From CK Require Import Struct.
From CK Require Import Link.
Close Scope Qc_scope. Close Scope Q_scope. Close Scope Z_scope. Open Scope nat_scope.

(* for every commutative semiring, every family of linear functionals Int (finite sums or integrals), every ok (smooth, decomposable, well-formed) circuit with input/sum/Hadamard/Kronecker nodes and every Z: each node of the integrated circuit evaluates to the iterated functional, over the variables of Z in its scope, of the original node *)
Theorem C03_integrate :
  forall (R : Type) (rO rI : R) (radd rmul : R -> R -> R),
         semi_ring_theory rO rI radd rmul eq ->
         forall (D : Type) (Int : nat -> (D -> R) -> R),
         (forall (v : nat) (f g : D -> R), (forall d : D, f d = g d) -> Int v f = Int v g) ->
         (forall (v : nat) (f g : D -> R), Int v (fun d : D => radd (f d) (g d)) = radd (Int v f) (Int v g)) ->
         (forall (v : nat) (c : R) (f : D -> R), Int v (fun d : D => rmul c (f d)) = rmul c (Int v f)) ->
         forall (Z : list nat) (c : Circ.circuit R D),
         ok R rO D c ->
         forall (o k : nat) (y : Base.asg D),
         o < length c ->
         nth k (nth o (eval R rO radd rmul D (integrate R rO D Int Z c) y) []) rO =
         IntL R D Int (zs_of Z (nth o (Circ.scopes R D c) []))
           (fun y' : Base.asg D => nth k (nth o (eval R rO radd rmul D c y') []) rO) y.
Proof. exact integrate_correct. Qed.
Print Assumptions C03_integrate.

(* link: the executable operator integrate_m (model of cirkit.symbolic.functional.integrate on the algebraic fragment: Embedding / constant inputs, sums, Hadamard and Kronecker products) evaluates to the iterated sum of the semantic evaluation of the interpreted circuit *)
Theorem C03_integrate_executable :
  forall (dom : nat -> nat) (Z : list nat) (c c' : circuit) (y : asg) (vals' : list cvec),
         NoDup Z ->
         frag c = true ->
         shapes c = true ->
         doms dom c = true ->
         wf c = true ->
         integrate_m Z c = Ok c' ->
         den_all c' y = Some vals' ->
         forall o k : nat,
         o < length (nodes c) ->
         nth k (nth o vals' []) c0 =
         SIntL dom (zs_of Z (nth o (scopes c) [])) (fun y' : sasg => nth k (nth o (SEval (interp c) y') []) c0)
           (afun y).
Proof. exact integrate_exec_correct. Qed.
Print Assumptions C03_integrate_executable.

(* ... stated purely on the executable denotation *)
Theorem C03_integrate_executable_den :
  forall (dom : nat -> nat) (Z : list nat) (c c' : circuit) (y : asg),
         NoDup Z ->
         frag c = true ->
         shapes c = true ->
         doms dom c = true ->
         wf c = true ->
         integrate_m Z c = Ok c' ->
         inrange c y = true ->
         exists vals' : list cvec,
           den_all c' y = Some vals' /\
           (forall o k : nat,
            o < length (nodes c) ->
            nth k (nth o vals' []) c0 = sum_states dom (zs_of Z (nth o (scopes c) [])) (dval c o k) y).
Proof. exact integrate_exec_den. Qed.
Print Assumptions C03_integrate_executable_den.
