"""C07 — conjugate computes the complex conjugate (identity on real circuits)."""
import traceback

import numpy as np

import cirkit.symbolic.functional as SF

import evalc
import export
import gen
import opkit
from cases import CaseSet, rng_for, pick_semiring

PID = "C07"
REAL_KINDS = ["emb", "cat_probs", "cat_logits", "cat_softmax", "gau", "poly"]


def one_case(rep, cs, seed, i):
    rng = rng_for(seed, PID, i)
    mode = rng.choice(["complex", "complex", "real", "product", "product", "complex-product"])
    monotone = False
    if mode == "complex":
        o = gen.random_opts(rng, kinds=["emb", "poly"], cplx=True)
        sc, g = gen.gen_circuit(rng, **o)
        base = [sc]
    elif mode == "complex-product":   # c * conj(c) with complex parameters, Kronecker products included
        o = gen.random_opts(rng, kinds=["emb", "poly"], cplx=True, regular=True, sd=True, nout=1)
        o["nvars"] = rng.choice([1, 2, 2, 3])
        o["K"] = rng.choice([1, 2])
        o["max_alt"] = 2
        if o["prod"] == "any":
            o["prod"] = rng.choice(["had", "kron"])
        s1, g = gen.gen_circuit(rng, **o)
        try:
            sc = SF.multiply(s1, SF.conjugate(s1))
        except Exception as e:
            rep.count("product-refused:" + type(e).__name__)
            rep.case({"i": i, "mode": mode}, False)
            return
        base = [s1]
    elif mode == "real":
        monotone = rng.random() < 0.5
        o = gen.random_opts(rng, kinds=REAL_KINDS, monotone=monotone)
        sc, g = gen.gen_circuit(rng, **o)
        base = [sc]
    else:  # conjugate of an (unnormalised) product, Gaussian inputs forced half of the time
        monotone = rng.random() < 0.5
        kinds = ["gau"] if rng.random() < 0.5 else REAL_KINDS
        o = gen.random_opts(rng, kinds=kinds, monotone=monotone, regular=True, sd=True, nout=1)
        o["nvars"] = rng.choice([1, 2, 2])
        if o["prod"] == "any":
            o["prod"] = "had"
        o["K"] = rng.choice([1, 2])
        o["max_alt"] = 2
        s1, g = gen.gen_circuit(rng, **o)
        s2, g2 = gen.gen_circuit(rng, **dict(o, like=g))
        try:
            sc = SF.multiply(s1, s2)
        except Exception as e:
            rep.count("product-refused:" + type(e).__name__)
            rep.case({"i": i, "mode": mode}, False)
            return
        base = [s1, s2]
    sem = "complex-lse-sum" if mode in ("complex", "complex-product") else pick_semiring(rng, monotone)
    fold, opt = rng.choice(evalc.FLAGS)
    desc = {"i": i, "seed": seed, "mode": mode, "sem": sem, "fold": fold, "opt": opt, **g.desc}
    rep.count("mode:" + mode)
    rep.count("semiring:" + sem)
    rep.count(f"flags:{int(fold)}{int(opt)}")
    try:
        scj = SF.conjugate(sc)
        scjj = SF.conjugate(scj)
    except Exception as e:
        rep.violation("conjugate-raises:" + type(e).__name__, "conjugate raised", {"case": desc, "exception": repr(e)[:300]})
        return
    scope = sorted(sc.scope._set)
    ys = gen.sample_inputs(rng, g.doms, scope, 3, exhaustive_limit=6, nonneg=(sem == "lse-sum"))
    for nm, a, b in (("conjugate", sc, scj), ("conjugate-twice", scj, scjj)):
        try:
            ok, detail = opkit.oracle_conjugate(a, b, ys, sem, fold, opt)
        except Exception as e:
            ok, detail = False, {"exception": repr(e)[:300], "traceback": traceback.format_exc()[-1500:]}
        if ok is False:
            sig = f"{nm}-wrong-value" if "exception" not in detail else f"{nm}-compile-exception:" + detail["exception"].split("(")[0]
            rep.violation(sig, "compiled conjugate(c) differs from the complex conjugate of compiled c", {"case": desc, "inputs": ys, **detail})
    # same integral (real circuits, integrable inputs)
    if mode not in ("complex", "complex-product") and scope and all(k in ("emb", "cat_probs", "cat_logits", "cat_softmax", "gau") for k in g.desc["kinds"]):
        try:
            ctx = evalc.make_ctx(sem, fold, opt)
            za = evalc.evaluate(ctx.compile(SF.integrate(sc)), SF.integrate(sc), [{}], sem)
            zb = evalc.evaluate(ctx.compile(SF.integrate(scj)), SF.integrate(scj), [{}], sem)
            from cases import close
            if not close(za, np.conj(zb), rtol=1e-6, atol=1e-8):
                rep.violation("conjugate-integral", "conjugate(c) and c have different integrals", {"case": desc, "observed": zb.tolist(), "expected": za.tolist()})
        except Exception as e:
            rep.violation("conjugate-integral-exception:" + type(e).__name__, "integrating conjugate(c) raised", {"case": desc, "exception": repr(e)[:300]})
    ex = export.Exporter()
    try:
        tb = [ex.circuit(b) for b in base]
        tc, tj, tjj = ex.circuit(sc), ex.circuit(scj), ex.circuit(scjj)
    except export.ExportError as e:
        rep.violation("export-error", f"exporter cannot represent the implementation's result: {e}", {"case": desc}, found_input=False)
        return
    tv = opkit.torch_vals(base, scj, ys, sem, fold, opt)
    parts = [
        "res_code (conjugate_m c)",
        "eq_den_res (conjugate_m c) j ys",
        "conj_check c j ys",
        "eq_den c jj ys",
        (f"den_vs j ys {tv}" if tv is not None else "2"),
        "learn_subset j [c]",
    ]
    term = f"let c := {tc} in let j := {tj} in let jj := {tjj} in let ys := {export.ex_asgs(ys)} in [" + "; ".join(parts) + "]"

    def interp(res, desc=desc, ys=ys):
        rc, eqm, cj, inv, dv, ls = res
        rep.count(f"coq:eq_model={eqm}")
        rep.count(f"coq:conj={cj}")
        if rc != 0:
            rep.violation("conjugate-model-refuses", "the model refuses a circuit the implementation conjugates", {"case": desc, "model_error": rc}, found_input=False)
        if eqm == 0:
            rep.violation("conjugate-corr", "conjugate_m (model) and cirkit conjugate disagree on the denoted function", {"case": desc, "inputs": ys}, found_input=False)
        if cj == 0:
            rep.violation("conjugate-wrong-value", "conjugate(c) is not the complex conjugate of c (exact model evaluation)", {"case": desc, "inputs": ys})
        if inv == 0:
            rep.violation("conjugate-twice-wrong-value", "conjugating twice does not give back the function of c", {"case": desc, "inputs": ys})
        if dv == 0:
            rep.violation("conjugate-compiled-vs-den", "compiled conjugate(c) differs from the model's denotation of it", {"case": desc, "inputs": ys})
        if ls == 0:
            rep.violation("conjugate-new-learnable", "conjugate introduced a learnable tensor", {"case": desc})

    cs.add(desc, term, interp, nontrivial=g.desc["sums"] >= 1 and g.desc["prods"] >= 1)


def dtype_case(rep, seed, i):
    """precision configurations: the circuit is compiled while torch's default dtype is float32 and evaluated after the default
    was switched to float64 (complex64 parameters): conjugate(c) must still be the conjugate"""
    import torch
    rng = rng_for(seed, PID + "dtype", i)
    o = gen.random_opts(rng, kinds=["emb"], cplx=True)
    sc, g = gen.gen_circuit(rng, **o)
    fold, opt = rng.choice(evalc.FLAGS)
    desc = {"i": i, "seed": seed, "family": "dtype-switch", "fold": fold, "opt": opt, **g.desc}
    rep.count("family:dtype-switch")
    rep.case(desc, True)
    scope = sorted(sc.scope._set)
    ys = gen.sample_inputs(rng, g.doms, scope, 3, exhaustive_limit=0)
    try:
        scj = SF.conjugate(sc)
        torch.set_default_dtype(torch.float32)
        ctx = evalc.make_ctx("complex-lse-sum", fold, opt)
        cj = ctx.compile(scj)
        c = ctx.get_compiled_circuit(sc)
        torch.set_default_dtype(torch.float64)
        x = evalc.to_batch(ys, evalc.width_of(sc)).long()
        a = torch.exp(c(x)).detach().numpy()
        b = torch.exp(cj(x)).detach().numpy()
    except Exception as e:
        rep.violation("conjugate-dtype-exception:" + type(e).__name__, "compiling under float32 and evaluating under float64 raised",
                      {"case": desc, "exception": repr(e)[:300], "traceback": traceback.format_exc()[-1500:]})
        return
    finally:
        torch.set_default_dtype(torch.float64)
    if np.all(np.isfinite(a)) and not np.allclose(np.conj(a), b, rtol=1e-3, atol=1e-4 * max(1.0, float(np.max(np.abs(a))))):
        rep.violation("conjugate-dtype-switch", "with complex64 parameters evaluated while the default dtype is float64, conjugate(c) is not the conjugate of c",
                      {"case": desc, "inputs": ys, "observed": str(b.tolist()), "expected": str(np.conj(a).tolist())})


def run(rep, tier, seed, replay=None):
    n = 60 if tier == "quick" else 600
    cs = CaseSet(rep, PID)
    if replay is not None:
        c = replay["replay"].get("case", {})
        if c.get("family") == "dtype-switch":
            dtype_case(rep, c.get("seed", seed), c.get("i", 0))
        else:
            one_case(rep, cs, c.get("seed", seed), c.get("i", 0))
        cs.run()
        return
    for i in range(n):
        one_case(rep, cs, seed, i)
    for i in range(max(10, n // 6)):
        dtype_case(rep, seed, i)
    cs.run(shard=max(4, 60 // 14))  # shard size of the quick tier: thorough runs use more files, not longer ones
