(* C19 — saved parameters reproduce the circuit after reload
   Property theorems only: each is closed by `exact <lemma>`; proofs live in the imported files. *)
From Coq Require Import List ZArith QArith Qcanon Ring_theory Field_theory Permutation Sorted.
Import ListNotations.
From CK Require Import State.
Close Scope Qc_scope. Close Scope Q_scope. Close Scope Z_scope. Open Scope nat_scope.

(* if the names of two instances are equal and unique, loading the saved dictionary of one into the other reproduces the saved instance exactly, whatever the other held before *)
Theorem C19_roundtrip :
  forall (V : Type) (s s' : sdict V), names V s = names V s' -> NoDup (names V s) -> load V s s' = s.
Proof. exact load_save. Qed.
Print Assumptions C19_roundtrip.

(* loading never changes the set of names *)
Theorem C19_names_preserved :
  forall (V : Type) (d s : sdict V), names V (load V d s) = names V s.
Proof. exact load_names. Qed.
Print Assumptions C19_names_preserved.

(* every entry named in the dictionary takes the dictionary's value *)
Theorem C19_load_lookup :
  forall (V : Type) (d s : sdict V) (k : nat) (v : V),
         NoDup (names V s) -> lookup V k d = Some v -> In k (names V s) -> lookup V k (load V d s) = Some v.
Proof. exact load_lookup. Qed.
Print Assumptions C19_load_lookup.
