"""Writes seeded/<id>/meta.json from the agent's notes.json, the independent confirmation (.work/confirm_<id>.json,
produced by confirmseeded.py) and seeded/detections.json; prints the markdown table used in DESIGN.md section 12."""
import json
import os

VERIF = os.path.dirname(os.path.dirname(os.path.abspath(__file__)))


def main():
    det = json.load(open(os.path.join(VERIF, "seeded", "detections.json")))
    rows = []
    for pid in sorted(det):
        d = os.path.join(VERIF, "seeded", pid)
        if not os.path.isdir(d):
            continue
        notes = json.load(open(os.path.join(d, "notes.json")))
        cf = os.path.join(VERIF, ".work", f"confirm_{pid}.json")
        old = os.path.join(d, "meta.json")
        confirm = None
        if os.path.exists(cf):
            try:
                confirm = json.load(open(cf))
            except Exception:
                confirm = None
        if confirm is None and os.path.exists(old):
            confirm = json.load(open(old)).get("confirmation")
        meta = {
            "property": pid,
            "change": notes.get("summary"),
            "needs_to_manifest": notes.get("needs"),
            "files": notes.get("files"),
            "produced_by": "a fresh sub-agent given only the property text and its own scratch git worktree of /repo",
            "confirmation": confirm,
            "confirmation_procedure": "harness/confirmseeded.py: scratch worktree of /repo HEAD; demo.py on the clean tree (must exit 0); "
                                      "git apply patch.diff; demo.py (must exit non-zero); full existing test-suite on the changed tree (must pass)",
            "checks_run": f"harness/runseeded.py: git -C /repo apply patch.diff; ./check <id> --tier quick for {det[pid]['caught_by']}; git -C /repo checkout -- .",
            "caught_by": det[pid]["caught_by"],
            "first_round": det[pid]["first_round"],
            "note": det[pid]["note"],
        }
        json.dump(meta, open(old, "w"), indent=1)
        demo_ok = confirm and confirm.get("demo_clean_exit") == 0 and confirm.get("demo_mutated_exit") not in (0, None)
        ok = demo_ok and "323 passed" in confirm.get("tests", "")
        if demo_ok and not ok and "tests" not in confirm:
            ok = "demo"      # demo confirmed here; the full test-suite run on the changed tree is the sub-agent's (notes.json)
        summ = (notes.get("summary") or "").replace("|", "/").replace("\n", " ")
        if len(summ) > 230:
            summ = summ[:227] + "..."
        rows.append(f"| {pid} | {summ} | {'yes (demo here, suite by the sub-agent)' if ok == 'demo' else 'yes' if ok else 'pending' if not confirm else 'NO'} | {', '.join(det[pid]['caught_by'])} | {det[pid]['first_round']} | {det[pid]['note'].replace('|', '/')} |")
    print("| property | seeded change (one-line) | confirmed (tests pass, demo fails only with the change) | caught by | first round | how / what was strengthened |")
    print("|---|---|---|---|---|---|")
    print("\n".join(rows))


if __name__ == "__main__":
    main()
