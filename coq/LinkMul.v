(* LinkMul.v — executable-level correctness of [Ops.multiply_m], proved directly on [den_all]
   by induction over the fold that builds the product circuit (no detour through the semantic level).

   Fragment ([mfrag]; the operands may contain exactly these layers):
     - LEmb v K N w    with [peval w = Some W], W a K x N matrix            (any parameter expression)
     - LPoly v K d c   with [peval c = Some Cf], Cf with K coefficient rows  (any parameter expression)
     - LConst K lsp e  with [peval e = Some V], V a vector of K entries
     - LSum Ki Ko ar w with [peval w = Some W], W a Ko x (ar*Ki) matrix      (any parameter expression)
     - LHad Ki ar, LKron Ki ar
   Product rules covered (ALL rules that [mul_step] can fire on the fragment):
     - Embedding x Embedding   : weight PBin (BOuterProd 0) w1 w2           (emb_rows)
     - Polynomial x Polynomial : coefficients PBin BPolyProd c1 c2          (poly_rows)
     - Sum x Sum               : weight PUn (UIndex 1 (sumsum_perm ..)) (PBin BKron w1 w2)   (sum_rows)
     - Hadamard x Hadamard     : Hadamard over the pairs of the sorted inputs (hadn_perm + kron_hadn)
     - Kronecker x Kronecker   : Kronecker over the positional pairs followed by the permutation
                                 sum layer [kron_perm]                       (kron_perm_apply)
     - disjoint scopes         : binary Kronecker node over the two copies.
   Main theorem [multiply_exec_den]: every entry (i, j) of the table that is [Some k] denotes
   [vkron (value of i in a) (value of j in b)] (a-major: unit (o1, o2) at o1 * K2 + o2), the copies of
   the operands keep their values, and the outputs of the product are the a-major list of Kronecker
   products of the outputs.  Not in the fragment: Categorical, Binomial, Gaussian and Evidence layers
   (their product rules go through the fixed-point exp/log or through rounding, so they are only
   approximately multiplicative in the executable scalar structure). *)
From Coq Require Import ZArith QArith Qcanon List Bool Arith Lia Ring Ring_theory Permutation.
Import ListNotations.
From CK Require Import Base Circ Multiply Algebra Scalar Tensor Pexpr Exec Ops Struct OpsProps Link.
Close Scope Qc_scope. Close Scope Q_scope. Close Scope Z_scope. Open Scope nat_scope.

Notation Cth := C_semi_ring.

(* ================================================================== *)
(* A. Generic facts about [den_from]                                    *)
(* ================================================================== *)
Lemma den_from_app ns1 ns2 y : forall acc,
  den_from (ns1 ++ ns2) y acc = do v <- den_from ns1 y acc; den_from ns2 y v.
Proof.
  induction ns1 as [|[l ins] ns1 IH]; intros acc; cbn [app den_from obind]; [reflexivity|].
  destruct (node_eval l y (map (fun j => nth j acc []) ins)); cbn [obind]; [apply IH | reflexivity].
Qed.

Lemma den_from_prefix ns y : forall acc vs, den_from ns y acc = Some vs ->
  exists ext, vs = acc ++ ext /\ length ext = length ns.
Proof.
  induction ns as [|[l ins] ns IH]; intros acc vs H; cbn [den_from] in H.
  - inversion H; subst. exists []. rewrite app_nil_r. auto.
  - destruct (node_eval l y (map (fun j => nth j acc []) ins)) as [v|]; cbn [obind] in H; [|discriminate].
    destruct (IH _ _ H) as [ext [E L]]. exists (v :: ext). rewrite <- app_assoc in E. simpl in *. auto.
Qed.

Lemma den_from_length ns y acc vs : den_from ns y acc = Some vs -> length vs = length acc + length ns.
Proof. intros H. destruct (den_from_prefix _ _ _ _ H) as [ext [-> L]]. rewrite app_length. lia. Qed.

Lemma den_from_shift k ns y pre : length pre = k -> forall acc,
  den_from (shift_nodes k ns) y (pre ++ acc) = option_map (app pre) (den_from ns y acc).
Proof.
  intros Hk. induction ns as [|[l ins] ns IH]; intros acc; cbn [shift_nodes map den_from fst snd option_map]; [reflexivity|].
  rewrite map_map.
  rewrite (map_ext (fun x => nth (k + x) (pre ++ acc) []) (fun j => nth j acc [])).
  2:{ intros j. rewrite <- Hk. apply app_nth2_plus. }
  destruct (node_eval l y (map (fun j => nth j acc []) ins)) as [v|]; cbn [obind]; [|reflexivity].
  rewrite <- app_assoc. apply IH.
Qed.

Lemma den_from_node ns y : forall acc vs, den_from ns y acc = Some vs ->
  forall i l ins, nth_error ns i = Some (l, ins) -> (forall j, In j ins -> j < length acc + i) ->
  node_eval l y (map (fun j => nth j vs []) ins) = Some (nth (length acc + i) vs []).
Proof.
  induction ns as [|[l0 ins0] ns IH]; intros acc vs H i l ins Hn Hlt; [destruct i; discriminate|].
  cbn [den_from] in H.
  destruct (node_eval l0 y (map (fun j => nth j acc []) ins0)) as [v|] eqn:Ev; cbn [obind] in H; [|discriminate].
  destruct i as [|i]; cbn [nth_error] in Hn.
  - inversion Hn; subst l0 ins0. destruct (den_from_prefix _ _ _ _ H) as [ext [-> _]].
    rewrite Nat.add_0_r in *.
    rewrite (map_ext_in (fun j => nth j ((acc ++ [v]) ++ ext) []) (fun j => nth j acc []) ins).
    2:{ intros j Hj. specialize (Hlt j Hj). rewrite <- app_assoc. apply app_nth1. exact Hlt. }
    rewrite Ev. f_equal. rewrite <- app_assoc. rewrite app_nth2 by lia. rewrite Nat.sub_diag. reflexivity.
  - specialize (IH _ _ H i l ins Hn). rewrite app_length in IH. cbn [length] in IH.
    replace (length acc + 1 + i) with (length acc + Datatypes.S i) in IH by lia. apply IH. exact Hlt.
Qed.

(* ================================================================== *)
(* B. Algebra on C                                                      *)
(* ================================================================== *)
Notation prodC := (Circ.prodl C c1 cmul).

Lemma hadn_eq xs : Exec.hadn xs = Circ.hadn C cmul xs.
Proof. reflexivity. Qed.
Lemma kronn_eq xs : Exec.kronn xs = Circ.kronn C cmul xs.
Proof. reflexivity. Qed.

Lemma prodC_perm l l' : Permutation l l' -> prodC l = prodC l'.
Proof.
  induction 1 as [|x l l' P IH|x z l|l l' l'' P1 IH1 P2 IH2]; unfold Circ.prodl in *; cbn [fold_right].
  - reflexivity.
  - rewrite IH. reflexivity.
  - ring.
  - congruence.
Qed.

Lemma hadn_perm (xs xs' : list cvec) u : Permutation xs xs' -> (forall x, In x xs -> length x = u) ->
  Exec.hadn xs = Exec.hadn xs'.
Proof.
  intros P Hu. destruct xs as [|x0 xs0].
  - apply Permutation_nil in P. subst. reflexivity.
  - assert (Hne : x0 :: xs0 <> []) by discriminate.
    assert (Hne' : xs' <> []) by (intros E; subst xs'; apply Permutation_sym, Permutation_nil in P; discriminate).
    assert (Hu' : forall x, In x xs' -> length x = u) by (intros x Hx; apply Hu; eapply Permutation_in; [apply Permutation_sym; exact P | exact Hx]).
    change (Circ.hadn C cmul (x0 :: xs0) = Circ.hadn C cmul xs'). apply (Circ.list_eq_nth0 C c0).
    + rewrite (Circ.length_hadn C cmul _ u Hne Hu), (Circ.length_hadn C cmul _ u Hne' Hu'). reflexivity.
    + intros k. rewrite !(Circ.nth_hadn C c0 c1 cadd cmul Cth) by assumption.
      apply prodC_perm. apply Permutation_map. exact P.
Qed.

(* insertion sort is a permutation *)
Lemma insert_by_perm key j l : Permutation (insert_by key j l) (j :: l).
Proof.
  induction l as [|x r IH]; cbn [insert_by]; [apply Permutation_refl|].
  destruct (key j <=? key x); [apply Permutation_refl|].
  eapply Permutation_trans; [apply perm_skip; exact IH | apply perm_swap].
Qed.
Lemma sort_by_perm key l : Permutation (sort_by key l) l.
Proof.
  induction l as [|x r IH]; cbn [sort_by fold_right]; [apply Permutation_refl|].
  eapply Permutation_trans; [apply insert_by_perm | apply perm_skip; exact IH].
Qed.

(* ---------- literal matrices ---------- *)
Lemma tzip_of_vec (u v : cvec) : tzip cmul (of_vec u) (of_vec v) = of_vec (vhad u v).
Proof.
  unfold of_vec. cbn [tzip]. f_equal. revert v; induction u as [|a u IH]; intros [|b v]; cbn [map Base.had]; try reflexivity.
  unfold vhad. cbn [Base.had map tzip]. f_equal. apply IH.
Qed.

Lemma touter0_of_mat (M1 M2 : list cvec) :
  touter cmul 0 (of_mat M1) (of_mat M2) = of_mat (flat_map (fun u => map (fun v => vhad u v) M2) M1).
Proof.
  unfold of_mat. cbn [touter]. f_equal. induction M1 as [|u M1 IH]; cbn [map flat_map]; [reflexivity|].
  rewrite map_app, IH. f_equal. rewrite !map_map. apply map_ext. intros v. apply tzip_of_vec.
Qed.

Lemma tkron_of_vec (u v : cvec) : tkron cmul (of_vec u) (of_vec v) = of_vec (vkron u v).
Proof.
  unfold of_vec. cbn [tkron]. f_equal. induction u as [|a u IH]; cbn [map flat_map]; [reflexivity|].
  unfold vkron, Base.kron. cbn [flat_map]. rewrite map_app. fold (Base.kron C cmul u v). fold (vkron u v).
  rewrite IH. f_equal. unfold Base.scale. rewrite !map_map. reflexivity.
Qed.

Lemma tkron_of_mat (M1 M2 : list cvec) :
  tkron cmul (of_mat M1) (of_mat M2) = of_mat (flat_map (fun u => map (fun v => vkron u v) M2) M1).
Proof.
  unfold of_mat. cbn [tkron]. f_equal. induction M1 as [|u M1 IH]; cbn [map flat_map]; [reflexivity|].
  rewrite map_app, IH. f_equal. rewrite !map_map. apply map_ext. intros v. apply tkron_of_vec.
Qed.

Lemma tindex0_of_vec idxs (r : cvec) : tindex c0 0 idxs (of_vec r) = of_vec (map (fun i => nth i r c0) idxs).
Proof.
  unfold of_vec. cbn [tindex]. f_equal. rewrite map_map. apply map_ext. intros i.
  exact (map_nth S r c0 i).
Qed.
Lemma tindex1_of_mat idxs (M : list cvec) :
  tindex c0 1 idxs (of_mat M) = of_mat (map (fun r => map (fun i => nth i r c0) idxs) M).
Proof.
  unfold of_mat. cbn [tindex]. f_equal. rewrite !map_map. apply map_ext. intros r. apply tindex0_of_vec.
Qed.

(* ---------- Embedding x Embedding: outer product along the unit axis ---------- *)
Lemma emb_rows (M1 M2 : list cvec) x :
  map (fun row => nth x row c0) (flat_map (fun u => map (fun v => vhad u v) M2) M1)
  = vkron (map (fun row => nth x row c0) M1) (map (fun row => nth x row c0) M2).
Proof. exact (Algebra.col_outer C c0 c1 cadd cmul Cth M1 M2 x). Qed.

(* ---------- Polynomial x Polynomial: convolution of the coefficient rows ---------- *)
Lemma poly_rows (M1 M2 : list cvec) (x : C) :
  map (fun row => vhorner row x) (pairs vconv M1 M2)
  = vkron (map (fun row => vhorner row x) M1) (map (fun row => vhorner row x) M2).
Proof. exact (Algebra.horner_conv_rows C c0 c1 cadd cmul Cth M1 M2 x). Qed.

(* ---------- Sum x Sum: Kronecker product of the weights + column permutation ---------- *)
Definition blk (H K : nat) (r : cvec) : list cvec :=
  map (fun h => map (fun k => nth (h * K + k) r c0) (seq 0 K)) (seq 0 H).

Lemma length_blk H K r : length (blk H K r) = H.
Proof. unfold blk. rewrite map_length, seq_length. reflexivity. Qed.
Lemma blk_len H K r x : In x (blk H K r) -> length x = K.
Proof. unfold blk. intros Hb. apply in_map_iff in Hb. destruct Hb as [h [<- _]]. rewrite map_length, seq_length. reflexivity. Qed.

Lemma blk_concat H K r : length r = H * K -> concat (blk H K r) = r.
Proof.
  intros L. unfold blk. rewrite <- flat_map_concat_map.
  assert (LB : forall h : nat, length (map (fun k => nth (h * K + k) r c0) (seq 0 K)) = K)
    by (intros; rewrite map_length, seq_length; reflexivity).
  apply (Circ.list_eq_nth0 C c0).
  - rewrite (Multiply.length_flat_map_block _ K _ LB). rewrite seq_length. lia.
  - intros k. destruct (Nat.lt_ge_cases k (H * K)) as [Hk|Hk].
    + assert (HK : K <> 0) by (intros ->; lia).
      assert (Hq : k / K < H) by (apply Nat.div_lt_upper_bound; [exact HK | lia]).
      assert (Hr : k mod K < K) by (apply Nat.mod_upper_bound; exact HK).
      assert (Ek : k = k / K * K + k mod K) by (rewrite (Nat.mul_comm (k / K)); apply Nat.div_mod; exact HK).
      rewrite Ek at 1.
      rewrite (Multiply.nth_flat_map_block _ K c0 0 LB) by (rewrite ?seq_length; assumption).
      rewrite seq_nth by exact Hq. cbn [plus].
      rewrite (Base.nth_map_seq (fun k0 => nth (k / K * K + k0) r c0) c0 K (k mod K) Hr).
      rewrite <- Ek. reflexivity.
    + rewrite !nth_overflow; [reflexivity | lia |].
      rewrite (Multiply.length_flat_map_block _ K _ LB). rewrite seq_length. lia.
Qed.

Lemma kron_map_map {A B} (f : A -> C) (g : B -> C) l m :
  vkron (map f l) (map g m) = flat_map (fun x => map (fun z => cmul (f x) (g z)) m) l.
Proof.
  unfold vkron, Base.kron. rewrite flat_map_concat_map, map_map, <- flat_map_concat_map.
  apply flat_map_ext. intros x. unfold Base.scale. rewrite map_map. reflexivity.
Qed.

Lemma concat_flat_map {A B} (f : A -> list (list B)) l :
  concat (flat_map f l) = flat_map (fun x => concat (f x)) l.
Proof. induction l as [|x l IH]; cbn [flat_map]; [reflexivity|]. rewrite concat_app, IH. reflexivity. Qed.

Lemma perm_row H1 K1 H2 K2 (r1 r2 : cvec) : length r2 = H2 * K2 ->
  map (fun i => nth i (vkron r1 r2) c0) (sumsum_perm H1 K1 H2 K2)
  = concat (Multiply.pairs_k C cmul (blk H1 K1 r1) (blk H2 K2 r2)).
Proof.
  intros L2. unfold blk. rewrite Multiply.pairs_k_map, concat_flat_map. unfold sumsum_perm.
  rewrite Multiply.map_flat_map. apply Multiply.flat_map_ext_in. intros h1 _.
  rewrite <- flat_map_concat_map. rewrite Multiply.map_flat_map. apply Multiply.flat_map_ext_in. intros h2 Hh2.
  apply in_seq in Hh2.
  change (Base.kron C cmul) with vkron. rewrite kron_map_map.
  rewrite Multiply.map_flat_map. apply Multiply.flat_map_ext_in. intros k1 _.
  rewrite map_map. apply map_ext_in. intros k2 Hk2. apply in_seq in Hk2.
  unfold vkron. rewrite (Base.nth_kron C c0 c1 cadd cmul Cth). rewrite L2.
  assert (Bd : h2 * K2 + k2 < H2 * K2) by nia.
  rewrite <- (Nat.div_unique ((h1 * K1 + k1) * (H2 * K2) + h2 * K2 + k2) (H2 * K2) (h1 * K1 + k1) (h2 * K2 + k2) Bd) by lia.
  rewrite <- (Nat.mod_unique ((h1 * K1 + k1) * (H2 * K2) + h2 * K2 + k2) (H2 * K2) (h1 * K1 + k1) (h2 * K2 + k2) Bd) by lia.
  reflexivity.
Qed.

Lemma samelen_of (bs xs : list cvec) K : length bs = length xs ->
  (forall x, In x bs -> length x = K) -> (forall x, In x xs -> length x = K) -> Multiply.samelen C bs xs.
Proof.
  revert xs; induction bs as [|x0 bs IH]; intros [|x xs] L Hb Hx; simpl in L; try discriminate; constructor.
  - rewrite (Hb x0), (Hx x) by (simpl; auto). reflexivity.
  - apply IH; [lia | intros; apply Hb; simpl; auto | intros; apply Hx; simpl; auto].
Qed.

Lemma sum_rows (M1 M2 : list cvec) H1 K1 H2 K2 (X Y : list cvec) :
  (forall r, In r M1 -> length r = H1 * K1) -> (forall r, In r M2 -> length r = H2 * K2) ->
  length X = H1 -> length Y = H2 ->
  (forall x, In x X -> length x = K1) -> (forall x, In x Y -> length x = K2) ->
  map (fun row => vdot row (concat (Multiply.pairs_k C cmul X Y)))
      (map (fun r => map (fun i => nth i r c0) (sumsum_perm H1 K1 H2 K2))
           (flat_map (fun u => map (fun v => vkron u v) M2) M1))
  = vkron (map (fun r => vdot r (concat X)) M1) (map (fun r => vdot r (concat Y)) M2).
Proof.
  intros R1 R2 LX LY HX HY. unfold vkron at 2. unfold vdot.
  rewrite (Multiply.kron_map_dot C c0 cadd cmul). rewrite map_map, Multiply.map_flat_map.
  apply Multiply.flat_map_ext_in. intros r1 Hr1. rewrite map_map. apply map_ext_in. intros r2 Hr2.
  rewrite (perm_row H1 K1 H2 K2 r1 r2 (R2 r2 Hr2)).
  rewrite (Multiply.dot_blocks C c0 c1 cadd cmul Cth).
  - rewrite !blk_concat by auto. reflexivity.
  - apply (samelen_of _ _ K1); [rewrite length_blk; auto | apply blk_len | exact HX].
  - apply (samelen_of _ _ K2); [rewrite length_blk; auto | apply blk_len | exact HY].
Qed.


(* ---------- Kronecker x Kronecker: the permutation layer [kron_perm] ---------- *)
Lemma kron_app_l (u v w : cvec) : vkron (u ++ v) w = vkron u w ++ vkron v w.
Proof. unfold vkron, Base.kron. apply flat_map_app. Qed.
Lemma kron_scale_l c (u w : cvec) : vkron (vscale c u) w = vscale c (vkron u w).
Proof.
  unfold vkron, vscale, Base.kron, Base.scale. induction u as [|e u IH]; [reflexivity|].
  cbn [map flat_map]. rewrite IH, map_app, map_map. f_equal. apply map_ext. intros z. ring.
Qed.
Lemma kron_cons' e (u w : cvec) : vkron (e :: u) w = vscale e w ++ vkron u w.
Proof. reflexivity. Qed.
Lemma kron_assoc (u v w : cvec) : vkron (vkron u v) w = vkron u (vkron v w).
Proof.
  induction u as [|e u IH]; [reflexivity|].
  rewrite !kron_cons', kron_app_l, kron_scale_l, IH. reflexivity.
Qed.
Lemma kron_one_r (v : cvec) : vkron v [c1] = v.
Proof.
  induction v as [|e v IH]; [reflexivity|]. rewrite kron_cons', IH.
  cbn. f_equal. ring.
Qed.

Definition kronr (vs : list cvec) : cvec := fold_right vkron [c1] vs.
Lemma fold_kron_kronr vs : forall v, fold_left vkron vs v = vkron v (kronr vs).
Proof.
  induction vs as [|u vs IH]; intros v; cbn [fold_left kronr fold_right].
  - symmetry. apply kron_one_r.
  - rewrite IH. apply kron_assoc.
Qed.
Lemma kronn_kronr vs : vs <> [] -> Exec.kronn vs = kronr vs.
Proof. destruct vs as [|v vs]; [congruence|]. intros _. cbn [Exec.kronn kronr fold_right]. apply fold_kron_kronr. Qed.

Definition zipk (xs ys : list cvec) : list cvec := map (fun p => vkron (fst p) (snd p)) (combine xs ys).
Lemma kronr_zip_interleave xs : forall ys, kronr (zipk xs ys) = kronr (interleave xs ys).
Proof.
  induction xs as [|x xs IH]; intros [|y ys]; try reflexivity.
  cbn [zipk combine map interleave kronr fold_right fst snd]. fold (zipk xs ys). fold (kronr (zipk xs ys)).
  fold (kronr (interleave xs ys)). rewrite IH. apply kron_assoc.
Qed.

Definition prodn (l : list nat) : nat := fold_right Nat.mul 1 l.
Lemma length_kronr vs : forall bs, Forall2 (fun (v : cvec) b => length v = b) vs bs -> length (kronr vs) = prodn bs.
Proof.
  induction vs as [|v vs IH]; intros bs H; inversion H; subst; [reflexivity|].
  change (kronr (v :: vs)) with (vkron v (kronr vs)). change (prodn (length v :: l')) with (length v * prodn l').
  unfold vkron. rewrite (Base.length_kron C cmul). rewrite (IH l'); auto.
Qed.
Lemma undigits_lt bs : forall ds, Forall2 lt ds bs -> undigits bs ds < prodn bs.
Proof.
  induction bs as [|b bs IH]; intros ds H.
  - inversion H; subst. simpl. lia.
  - inversion H as [|d b' ds' bs' Hd Hds]; subst.
    change (undigits (b :: bs) (d :: ds')) with (d * prodn bs + undigits bs ds').
    change (prodn (b :: bs)) with (b * prodn bs). specialize (IH _ Hds). nia.
Qed.
Lemma nth_kronr vs : forall bs ds,
  Forall2 (fun (v : cvec) b => length v = b) vs bs -> Forall2 lt ds bs ->
  nth (undigits bs ds) (kronr vs) c0 = prodC (map (fun p => nth (snd p) (fst p) c0) (combine vs ds)).
Proof.
  induction vs as [|v vs IH]; intros bs ds H1 H2.
  - inversion H1; subst. inversion H2; subst. reflexivity.
  - inversion H1 as [|v' b vs' bs' Hv Hvs]; subst. inversion H2 as [|d b' ds' bs'' Hd Hds]; subst.
    change (kronr (v :: vs)) with (vkron v (kronr vs)).
    change (undigits (length v :: bs') (d :: ds')) with (d * prodn bs' + undigits bs' ds').
    cbn [combine map fst snd]. unfold Circ.prodl. cbn [fold_right]. fold prodC.
    unfold vkron. rewrite (Base.nth_kron C c0 c1 cadd cmul Cth). rewrite (length_kronr vs bs' Hvs).
    pose proof (undigits_lt bs' ds' Hds) as Hu.
    rewrite <- (Nat.div_unique (d * prodn bs' + undigits bs' ds') (prodn bs') d (undigits bs' ds') Hu) by lia.
    rewrite <- (Nat.mod_unique (d * prodn bs' + undigits bs' ds') (prodn bs') d (undigits bs' ds') Hu) by lia.
    rewrite (IH bs' ds' Hvs Hds). reflexivity.
Qed.

Lemma prodn_repeat K n : prodn (repeat K n) = K ^ n.
Proof. induction n as [|n IH]; [reflexivity|]. cbn [repeat prodn fold_right Nat.pow]. fold (prodn (repeat K n)). rewrite IH. reflexivity. Qed.
Lemma length_digits K n m : length (digits K n m) = n.
Proof. induction n as [|n IH]; [reflexivity|]. cbn [digits length]. rewrite IH. reflexivity. Qed.
Lemma digits_lt K n m : 0 < K -> Forall2 lt (digits K n m) (repeat K n).
Proof.
  intros HK. induction n as [|n IH]; cbn [digits repeat]; constructor; [|exact IH].
  apply Nat.mod_upper_bound. lia.
Qed.
Lemma undigits_digits K n m : 0 < K -> undigits (repeat K n) (digits K n m) = m mod K ^ n.
Proof.
  intros HK. induction n as [|n IH]; [reflexivity|].
  cbn [digits repeat undigits]. fold (prodn (repeat K n)). rewrite prodn_repeat, IH.
  cbn [Nat.pow]. rewrite (Nat.mul_comm K (K ^ n)).
  assert (K ^ n <> 0) by (apply Nat.pow_nonzero; lia).
  rewrite (Nat.mod_mul_r m (K ^ n) K) by lia. lia.
Qed.

Lemma Forall2_interleave {A B} (R : A -> B -> Prop) l1 m1 : Forall2 R l1 m1 ->
  forall l2 m2, Forall2 R l2 m2 -> Forall2 R (interleave l1 l2) (interleave m1 m2).
Proof.
  induction 1 as [|x u l1 m1 Hx _ IH]; intros l2 m2 H2; [constructor|].
  destruct H2 as [|y w l2 m2 Hy H2]; cbn [interleave]; [constructor|].
  constructor; [exact Hx|]. constructor; [exact Hy|]. apply IH. exact H2.
Qed.
Lemma combine_interleave {A B} (xs ys : list A) : forall (is_ js : list B), length xs = length is_ -> length ys = length js ->
  combine (interleave xs ys) (interleave is_ js) = interleave (combine xs is_) (combine ys js).
Proof.
  revert ys; induction xs as [|x xs IH]; intros ys is_ js L1 L2; destruct is_ as [|i is_]; simpl in L1; try discriminate; [reflexivity|].
  destruct ys as [|y ys]; destruct js as [|j js]; simpl in L2; try discriminate; [reflexivity|].
  cbn [interleave combine]. rewrite IH by lia. reflexivity.
Qed.
Lemma map_interleave {A B} (f : A -> B) xs : forall ys, map f (interleave xs ys) = interleave (map f xs) (map f ys).
Proof. induction xs as [|x xs IH]; intros [|y ys]; try reflexivity. cbn [interleave map]. rewrite IH. reflexivity. Qed.
Lemma prodC_interleave l : forall m, length l = length m -> prodC (interleave l m) = cmul (prodC l) (prodC m).
Proof.
  induction l as [|x l IH]; intros [|z m] L; simpl in L; try discriminate.
  - unfold Circ.prodl. cbn. ring.
  - cbn [interleave]. unfold Circ.prodl in *. cbn [fold_right]. rewrite IH by lia. ring.
Qed.
Lemma Forall2_repeat_len (vs : list cvec) K : (forall v, In v vs -> length v = K) ->
  Forall2 (fun (v : cvec) b => length v = b) vs (repeat K (length vs)).
Proof.
  induction vs as [|v vs IH]; intros H; cbn [length repeat]; constructor.
  - apply H. simpl; auto.
  - apply IH. intros; apply H; simpl; auto.
Qed.

Lemma dot_indicator k (Z : cvec) : forall s,
  vdot (map (fun c => if c =? k then c1 else c0) (seq s (length Z))) Z
  = if s <=? k then nth (k - s) Z c0 else c0.
Proof.
  induction Z as [|z Z IH]; intros s; cbn [length seq map].
  - cbn. destruct (s <=? k); [destruct (k - s)|]; reflexivity.
  - unfold vdot in *. cbn [Base.dot]. rewrite IH.
    destruct (Nat.eqb_spec s k) as [->|Hne].
    + rewrite Nat.leb_refl, Nat.sub_diag. cbn [nth].
      destruct (Nat.leb_spec (Datatypes.S k) k); [lia|]. ring.
    + destruct (Nat.leb_spec s k) as [Hle|Hgt].
      * destruct (Nat.leb_spec (Datatypes.S s) k); [|lia].
        replace (k - s) with (Datatypes.S (k - Datatypes.S s)) by lia. cbn [nth]. ring.
      * destruct (Nat.leb_spec (Datatypes.S s) k); [lia|]. ring.
Qed.

Lemma kron_perm_apply K1 K2 (xs ys : list cvec) ar :
  length xs = ar -> length ys = ar -> 0 < ar ->
  (forall x, In x xs -> length x = K1) -> (forall x, In x ys -> length x = K2) ->
  map (fun row => vdot row (concat [Exec.kronn (zipk xs ys)])) (kron_perm K1 K2 ar)
  = vkron (Exec.kronn xs) (Exec.kronn ys).
Proof.
  intros Lx Ly Har HX HY.
  assert (Nx : xs <> []) by (intros ->; simpl in Lx; lia).
  assert (Ny : ys <> []) by (intros ->; simpl in Ly; lia).
  assert (Nz : zipk xs ys <> []).
  { destruct xs; [congruence|]. destruct ys; [congruence|]. discriminate. }
  rewrite !kronn_kronr by assumption. rewrite kronr_zip_interleave.
  pose proof (Forall2_repeat_len xs K1 HX) as FX. rewrite Lx in FX.
  pose proof (Forall2_repeat_len ys K2 HY) as FY. rewrite Ly in FY.
  pose proof (Forall2_interleave _ _ _ FX _ _ FY) as FZ.
  pose proof (length_kronr _ _ FX) as LX. rewrite prodn_repeat in LX.
  pose proof (length_kronr _ _ FY) as LY. rewrite prodn_repeat in LY.
  pose proof (length_kronr _ _ FZ) as LZ.
  set (n := (K1 * K2) ^ ar).
  assert (En : n = K1 ^ ar * K2 ^ ar) by (unfold n; apply Nat.pow_mul_l).
  assert (LZn : length (kronr (interleave xs ys)) = n).
  { rewrite LZ. clear - En. unfold n in *. rewrite En. clear En.
    induction ar as [|k IH]; [reflexivity|]. cbn [repeat interleave prodn fold_right Nat.pow].
    fold (prodn (interleave (repeat K1 k) (repeat K2 k))). rewrite IH. lia. }
  unfold kron_perm. fold n. rewrite map_map. cbn [concat]. rewrite app_nil_r.
  apply (Circ.list_eq_nth0 C c0).
  - rewrite map_length, seq_length. unfold vkron. rewrite (Base.length_kron C cmul), LX, LY. exact En.
  - intros r. destruct (Nat.lt_ge_cases r n) as [Hr|Hr].
    2:{ rewrite !nth_overflow; [reflexivity | |].
        - unfold vkron. rewrite (Base.length_kron C cmul), LX, LY. lia.
        - rewrite map_length, seq_length. exact Hr. }
    rewrite (Base.nth_map_seq _ c0 n r Hr).
    rewrite <- LZn at 1. rewrite dot_indicator. cbn [Nat.leb]. rewrite Nat.sub_0_r.
    assert (HK : 0 < K1 /\ 0 < K2).
    { destruct K1; [rewrite En in Hr; rewrite Nat.pow_0_l in Hr by lia; lia|].
      destruct K2; [rewrite En in Hr; rewrite (Nat.pow_0_l ar) in Hr by lia; lia|]. lia. }
    destruct HK as [HK1 HK2].
    assert (P2 : K2 ^ ar <> 0) by (apply Nat.pow_nonzero; lia).
    set (I := r / K2 ^ ar). set (J := r mod K2 ^ ar).
    assert (HI : I < K1 ^ ar) by (apply Nat.div_lt_upper_bound; [exact P2 | lia]).
    assert (HJ : J < K2 ^ ar) by (apply Nat.mod_upper_bound; exact P2).
    rewrite (nth_kronr (interleave xs ys) _ (interleave (digits K1 ar I) (digits K2 ar J)) FZ)
      by (apply Forall2_interleave; apply digits_lt; assumption).
    rewrite combine_interleave by (rewrite length_digits; assumption).
    rewrite map_interleave, prodC_interleave
      by (rewrite !map_length, !combine_length, !length_digits; lia).
    rewrite <- (nth_kronr xs (repeat K1 ar) (digits K1 ar I) FX (digits_lt K1 ar I HK1)).
    rewrite <- (nth_kronr ys (repeat K2 ar) (digits K2 ar J) FY (digits_lt K2 ar J HK2)).
    rewrite !undigits_digits by assumption. rewrite (Nat.mod_small I), (Nat.mod_small J) by assumption.
    unfold vkron. rewrite (Base.nth_kron C c0 c1 cadd cmul Cth). rewrite LY. reflexivity.
Qed.

(* ================================================================== *)
(* C. Facts about one evaluated, well-formed circuit of the fragment    *)
(* ================================================================== *)
Definition mfrag_layer (l : layer) : bool :=
  match l with
  | LEmb _ K N w => match peval w with Some W => is_matrix K N W | None => false end
  | LSum Ki Ko ar w => match peval w with Some W => is_matrix Ko (ar * Ki) W | None => false end
  | LConst K _ val => match peval val with Some V => length (tvec c0 V) =? K | None => false end
  | LPoly _ K _ cf => match peval cf with Some Cf => length (tmat c0 Cf) =? K | None => false end
  | LHad _ _ => true
  | LKron _ _ => true
  | _ => false
  end.
Definition mfrag (c : circuit) : bool := forallb (fun n => mfrag_layer (fst n)) (nodes c).

Lemma omap_length {X Y} (f : X -> option Y) l l' : omap f l = Some l' -> length l' = length l.
Proof. intros H. apply omap_Forall2 in H. symmetry. eapply OpsProps.Forall2_length. exact H. Qed.

Lemma nth_error_ou (ns : list (layer * list nat)) j n : nth_error ns j = Some n -> nth j (map ou ns) 0 = ou n.
Proof. intros H. apply nth_error_nth. apply map_nth_error. exact H. Qed.
Lemma nth_error_ex {A} (l : list A) j : j < length l -> exists x, nth_error l j = Some x.
Proof. intros H. destruct (nth_error l j) eqn:E; [eauto|]. apply nth_error_None in E. lia. Qed.

Section OneCircuit.
Variables (c : circuit) (y : asg) (vals : list cvec).
Hypothesis Hden : den_all c y = Some vals.
Hypothesis Hwf : wf c = true.
Hypothesis Hfr : mfrag c = true.

Lemma oc_len : length vals = length (nodes c).
Proof. apply (den_from_length _ _ _ _ Hden). Qed.

Lemma oc_wf i l ins : nth_error (nodes c) i = Some (l, ins) ->
  if is_input l then ins = [] else
    length ins = arity l /\ ins <> [] /\
    forall j, In j ins -> j < i /\ nth j (map ou (nodes c)) 0 = in_units l.
Proof.
  intros Hn. unfold wf in Hwf. apply andb_prop in Hwf. destruct Hwf as [Hw _].
  exact (wf_from_nth (nodes c) 0 [] i l ins eq_refl Hw Hn).
Qed.

Lemma oc_ins_lt i l ins j : nth_error (nodes c) i = Some (l, ins) -> In j ins -> j < i.
Proof.
  intros Hn Hj. pose proof (oc_wf i l ins Hn) as W. destruct (is_input l).
  - subst ins. destruct Hj.
  - apply W. exact Hj.
Qed.

Lemma oc_node i l ins : nth_error (nodes c) i = Some (l, ins) ->
  node_eval l y (map (fun j => nth j vals []) ins) = Some (nth i vals []).
Proof.
  intros Hn. apply (den_from_node (nodes c) y [] vals Hden i l ins Hn).
  intros j Hj. simpl. eapply oc_ins_lt; eauto.
Qed.

Lemma oc_frag i l ins : nth_error (nodes c) i = Some (l, ins) -> mfrag_layer l = true.
Proof.
  intros Hn. unfold mfrag in Hfr. rewrite forallb_forall in Hfr.
  apply (Hfr (l, ins)). eapply nth_error_In. exact Hn.
Qed.
End OneCircuit.

Section OneCircuitLen.
Variables (c : circuit) (y : asg) (vals : list cvec).
Hypothesis Hden : den_all c y = Some vals.
Hypothesis Hwf : wf c = true.
Hypothesis Hfr : mfrag c = true.

(* every value has as many entries as its layer has output units *)
Lemma oc_vlen : forall i l ins, nth_error (nodes c) i = Some (l, ins) -> length (nth i vals []) = out_units l.
Proof.
  intros i. induction i as [i IH] using lt_wf_ind. intros l ins Hn.
  pose proof (oc_node c y vals Hden Hwf i l ins Hn) as Hv.
  pose proof (oc_frag c Hfr i l ins Hn) as Hf.
  pose proof (oc_wf c Hwf i l ins Hn) as Hw.
  assert (Hin : forall j, In j ins -> is_input l = false -> length (nth j vals []) = in_units l).
  { intros j Hj Hi. rewrite Hi in Hw. destruct Hw as [_ [_ Hw]]. destruct (Hw j Hj) as [Hlt Hu].
    assert (Hjl : j < length (nodes c)) by (assert (i < length (nodes c)) by (apply nth_error_Some; congruence); lia).
    destruct (nth_error_ex (nodes c) j Hjl) as [[lj insj] Ej].
    rewrite (IH j Hlt lj insj Ej). rewrite (nth_error_ou _ _ _ Ej) in Hu. exact Hu. }
  destruct l as [v K N w|v K N lg p|v K n lg p|v K mu sd lp|v K dg cf|K lsp val|inner obs|Ki Ko ar w|Ki ar|Ki ar];
    cbn [mfrag_layer] in Hf; try discriminate Hf.
  - destruct (peval w) as [W|] eqn:Pw; [|discriminate Hf].
    cbn [node_eval in_eval] in Hv. rewrite Pw in Hv. cbn [obind] in Hv.
    destruct (cidx (lookup v y) <? N); [|discriminate Hv]. inversion Hv as [E]. rewrite map_length.
    apply (is_matrix_spec _ _ _ Hf).
  - destruct (peval cf) as [Cf|] eqn:Pc; [|discriminate Hf].
    cbn [node_eval in_eval] in Hv. rewrite Pc in Hv. cbn [obind] in Hv.
    inversion Hv as [E]. rewrite map_length. apply Nat.eqb_eq. exact Hf.
  - destruct (peval val) as [V|] eqn:Pv; [|discriminate Hf].
    cbn [node_eval in_eval] in Hv. rewrite Pv in Hv. cbn [obind] in Hv. apply Nat.eqb_eq in Hf.
    destruct lsp.
    + rewrite (omap_length _ _ _ Hv). exact Hf.
    + inversion Hv as [E]. exact Hf.
  - destruct (peval w) as [W|] eqn:Pw; [|discriminate Hf].
    cbn [node_eval] in Hv. rewrite Pw in Hv. cbn [obind] in Hv. inversion Hv as [E]. rewrite map_length.
    apply (is_matrix_spec _ _ _ Hf).
  - cbn [node_eval] in Hv. inversion Hv as [E]. cbn [is_input] in Hw. destruct Hw as [_ [Hne _]].
    cbn [out_units]. apply (Circ.length_hadn C cmul).
    + intros E0. apply map_eq_nil in E0. contradiction.
    + intros x Hx. apply in_map_iff in Hx. destruct Hx as [j [<- Hj]]. apply (Hin j Hj eq_refl).
  - cbn [node_eval] in Hv. inversion Hv as [E]. cbn [is_input arity] in Hw. destruct Hw as [Hl [Hne _]].
    cbn [out_units]. rewrite kronn_eq.
    rewrite (Circ.length_kronn_map C cmul _ (fun _ => Ki) ins Hne)
      by (intros j Hj; apply (Hin j Hj eq_refl)).
    rewrite (prod_const (fun _ => Ki) Ki ins) by reflexivity. rewrite Hl. reflexivity.
Qed.

Lemma oc_in_len i l ins j : nth_error (nodes c) i = Some (l, ins) -> is_input l = false -> In j ins ->
  length (nth j vals []) = in_units l.
Proof.
  intros Hn Hi Hj. pose proof (oc_wf c Hwf i l ins Hn) as Hw. rewrite Hi in Hw. destruct Hw as [_ [_ Hw]].
  destruct (Hw j Hj) as [Hlt Hu].
  assert (Hjl : j < length (nodes c)) by (assert (i < length (nodes c)) by (apply nth_error_Some; congruence); lia).
  destruct (nth_error_ex (nodes c) j Hjl) as [[lj insj] Ej].
  rewrite (oc_vlen j lj insj Ej). rewrite (nth_error_ou _ _ _ Ej) in Hu. exact Hu.
Qed.
End OneCircuitLen.

(* ================================================================== *)
(* D. The fold of [multiply_m]                                          *)
(* ================================================================== *)
Lemma Forall2_nth2 {A B} (R : A -> B -> Prop) l l' : Forall2 R l l' ->
  forall t d d', t < length l -> R (nth t l d) (nth t l' d').
Proof.
  induction 1 as [|x x' l l' Hx _ IH]; intros t d d' Ht; simpl in Ht; [lia|].
  destruct t as [|t]; simpl; [exact Hx | apply IH; lia].
Qed.

Section Mul.
Variables (a b : circuit) (y : asg) (va vb : list cvec).
Hypothesis Ha : den_all a y = Some va.
Hypothesis Hb : den_all b y = Some vb.
Hypothesis Wa : wf a = true.
Hypothesis Wb : wf b = true.
Hypothesis Fa : mfrag a = true.
Hypothesis Fb : mfrag b = true.
Let na := length (nodes a).
Let nb := length (nodes b).
Definition full : list (nat * nat) := pairs pair (seq 0 na) (seq 0 nb).

Lemma length_va : length va = na.
Proof. apply (oc_len a y va Ha). Qed.
Lemma length_vb : length vb = nb.
Proof. apply (oc_len b y vb Hb). Qed.

Lemma length_full : length full = na * nb.
Proof.
  unfold full, pairs. rewrite (Multiply.length_flat_map_block _ nb) by (intros; rewrite map_length, seq_length; reflexivity).
  rewrite seq_length. reflexivity.
Qed.
Lemma nth_full p q : p < na -> q < nb -> nth (p * nb + q) full (0, 0) = (p, q).
Proof.
  intros Hp Hq. unfold full, pairs.
  rewrite (Multiply.nth_flat_map_block (fun x => map (pair x) (seq 0 nb)) nb (0, 0) 0)
    by (try (intros; rewrite map_length, seq_length; reflexivity); rewrite ?seq_length; assumption).
  rewrite seq_nth by exact Hp. cbn [plus].
  apply (Base.nth_map_seq (fun q0 => (p, q0)) (0, 0) nb q Hq).
Qed.
Lemma in_full i j : In (i, j) full -> i < na /\ j < nb.
Proof.
  unfold full, pairs. intros H. apply in_flat_map in H. destruct H as [x [Hx H]].
  apply in_map_iff in H. destruct H as [z [E Hz]]. inversion E; subst. apply in_seq in Hx, Hz. lia.
Qed.

Definition Rel (vs : list cvec) (ij : nat * nat) (o : option nat) : Prop :=
  match o with
  | None => True
  | Some k => k < length vs /\ nth k vs [] = vkron (nth (fst ij) va []) (nth (snd ij) vb [])
  end.
Definition Inv (done : list (nat * nat)) (ns : list (layer * list nat)) (tbl : list (option nat)) : Prop :=
  exists vs, den_from ns y [] = Some vs /\ na + nb <= length vs /\
    (forall k, k < na + nb -> nth k vs [] = nth k (va ++ vb) []) /\
    Forall2 (Rel vs) done tbl.

Lemma Rel_mono vs v ij o : Rel vs ij o -> Rel (vs ++ [v]) ij o.
Proof.
  destruct o as [k|]; cbn [Rel]; [|auto]. intros [Hk E]. split.
  - rewrite app_length. simpl. lia.
  - rewrite app_nth1 by exact Hk. exact E.
Qed.

Lemma Inv_none done ns tbl ij : Inv done ns tbl -> Inv (done ++ [ij]) ns (tbl ++ [None]).
Proof.
  intros [vs [D [L [P F]]]]. exists vs. repeat split; auto.
  apply Forall2_app; [exact F|]. constructor; [exact I | constructor].
Qed.

Lemma Inv_add1 done ns tbl i j l cs :
  Inv done ns tbl ->
  (forall vs, den_from ns y [] = Some vs -> na + nb <= length vs ->
     (forall k, k < na + nb -> nth k vs [] = nth k (va ++ vb) []) -> Forall2 (Rel vs) done tbl ->
     node_eval l y (map (fun k => nth k vs []) cs) = Some (vkron (nth i va []) (nth j vb []))) ->
  Inv (done ++ [(i, j)]) (ns ++ [(l, cs)]) (tbl ++ [Some (length ns + 1 - 1)]).
Proof.
  intros [vs [D [L [P F]]]] Hnode. specialize (Hnode vs D L P F).
  pose proof (den_from_length _ _ _ _ D) as Lv. simpl in Lv.
  exists (vs ++ [vkron (nth i va []) (nth j vb [])]). split; [|split; [|split]].
  - rewrite den_from_app, D. cbn [obind den_from]. rewrite Hnode. reflexivity.
  - rewrite app_length. simpl. lia.
  - intros k Hk. rewrite app_nth1 by lia. apply P. exact Hk.
  - apply Forall2_app.
    + eapply OpsProps.Forall2_impl; [|exact F]. intros ij o. apply Rel_mono.
    + constructor; [|constructor]. cbn [Rel fst snd]. replace (length ns + 1 - 1) with (length vs) by lia. split.
      * rewrite app_length. simpl. lia.
      * rewrite app_nth2 by lia. rewrite Nat.sub_diag. reflexivity.
Qed.

Lemma Inv_add2 done ns tbl i j l cs l' :
  Inv done ns tbl ->
  (forall vs, den_from ns y [] = Some vs -> na + nb <= length vs ->
     (forall k, k < na + nb -> nth k vs [] = nth k (va ++ vb) []) -> Forall2 (Rel vs) done tbl ->
     exists z, node_eval l y (map (fun k => nth k vs []) cs) = Some z /\
               node_eval l' y [z] = Some (vkron (nth i va []) (nth j vb []))) ->
  Inv (done ++ [(i, j)]) (ns ++ [(l, cs); (l', [length ns])]) (tbl ++ [Some (length ns + 2 - 1)]).
Proof.
  intros [vs [D [L [P F]]]] Hnode. destruct (Hnode vs D L P F) as [z [Hz Ht]].
  pose proof (den_from_length _ _ _ _ D) as Lv. simpl in Lv.
  exists ((vs ++ [z]) ++ [vkron (nth i va []) (nth j vb [])]). split; [|split; [|split]].
  - rewrite den_from_app, D. cbn [obind den_from]. rewrite Hz. cbn [obind map].
    rewrite <- Lv. rewrite app_nth2 by lia. rewrite Nat.sub_diag. cbn [nth]. rewrite Ht. reflexivity.
  - rewrite !app_length. simpl. lia.
  - intros k Hk. rewrite <- app_assoc. rewrite app_nth1 by lia. apply P. exact Hk.
  - apply Forall2_app.
    + eapply OpsProps.Forall2_impl; [|exact F]. intros ij o Ho. apply Rel_mono, Rel_mono. exact Ho.
    + constructor; [|constructor]. cbn [Rel fst snd]. replace (length ns + 2 - 1) with (length (vs ++ [z])) by (rewrite app_length; simpl; lia). split.
      * rewrite !app_length. simpl. lia.
      * rewrite app_nth2 by lia. rewrite Nat.sub_diag. reflexivity.
Qed.

Lemma tbl_get done rest tbl vs p q k : done ++ rest = full -> Forall2 (Rel vs) done tbl -> q < nb ->
  nth (p * nb + q) tbl None = Some k ->
  k < length vs /\ nth k vs [] = vkron (nth p va []) (nth q vb []).
Proof.
  intros E F Hq Hk.
  assert (Ht : p * nb + q < length tbl).
  { destruct (Nat.lt_ge_cases (p * nb + q) (length tbl)) as [H|H]; [exact H|].
    rewrite nth_overflow in Hk by exact H. discriminate Hk. }
  pose proof (OpsProps.Forall2_length _ _ _ F) as LF.
  assert (Hfl : length done <= na * nb).
  { rewrite <- length_full, <- E, app_length. lia. }
  assert (Hp : p < na) by nia.
  pose proof (Forall2_nth2 _ _ _ F (p * nb + q) (0, 0) None) as G.
  rewrite Hk in G. specialize (G ltac:(lia)).
  assert (Ed : nth (p * nb + q) done (0, 0) = (p, q)).
  { rewrite <- (nth_full p q Hp Hq), <- E. symmetry. apply app_nth1. lia. }
  rewrite Ed in G. exact G.
Qed.

Lemma cs_vals done rest tbl vs L cs : done ++ rest = full -> Forall2 (Rel vs) done tbl ->
  omap (fun pq => nth (fst pq * nb + snd pq) tbl None) L = Some cs ->
  (forall pq, In pq L -> snd pq < nb) ->
  map (fun k => nth k vs []) cs = map (fun pq => vkron (nth (fst pq) va []) (nth (snd pq) vb [])) L.
Proof.
  intros E F Ho HL. apply omap_Forall2 in Ho.
  induction Ho as [|pq k L cs Hk _ IH]; [reflexivity|]. cbn [map].
  rewrite IH by (intros; apply HL; simpl; auto).
  rewrite (proj2 (tbl_get done rest tbl vs (fst pq) (snd pq) k E F (HL pq (or_introl eq_refl)) Hk)). reflexivity.
Qed.

Lemma in_pairs {X Y} (l1 : list X) (l2 : list Y) p q : In (p, q) (pairs pair l1 l2) -> In p l1 /\ In q l2.
Proof.
  unfold pairs. intros H. apply in_flat_map in H. destruct H as [x [Hx H]].
  apply in_map_iff in H. destruct H as [z [Ez Hz]]. inversion Ez; subst. auto.
Qed.

Lemma nth_nodes {ns : list (layer * list nat)} {i l ins} :
  i < length ns -> nth i ns (LHad 0 0, []) = (l, ins) -> nth_error ns i = Some (l, ins).
Proof. intros Hi E. rewrite <- E. apply nth_error_nth'. exact Hi. Qed.

Lemma pairs_vals {X} (f g : X -> cvec) (l1 l2 : list X) :
  map (fun pq => vkron (f (fst pq)) (g (snd pq))) (pairs pair l1 l2)
  = Multiply.pairs_k C cmul (map f l1) (map g l2).
Proof.
  rewrite Multiply.pairs_k_map. unfold pairs. rewrite Multiply.map_flat_map.
  apply flat_map_ext. intros x. rewrite map_map. reflexivity.
Qed.

(* ---------- one step of the fold ---------- *)
Lemma step_inv done i j rest st :
  done ++ (i, j) :: rest = full -> Inv done (mnodes st) (mtbl st) ->
  Inv (done ++ [(i, j)]) (mnodes (mul_step a b st (i, j))) (mtbl (mul_step a b st (i, j))).
Proof.
  intros E HI.
  assert (Hij : i < na /\ j < nb).
  { apply in_full. rewrite <- E. apply in_or_app. right. left. reflexivity. }
  destruct Hij as [Hi Hj].
  unfold mul_step.
  destruct (nth i (nodes a) (LHad 0 0, [])) as [l1 ins1] eqn:E1.
  destruct (nth j (nodes b) (LHad 0 0, [])) as [l2 ins2] eqn:E2.
  apply (nth_nodes Hi) in E1. apply (nth_nodes Hj) in E2.
  pose proof (oc_node a y va Ha Wa i l1 ins1 E1) as V1.
  pose proof (oc_node b y vb Hb Wb j l2 ins2 E2) as V2.
  pose proof (oc_frag a Fa i l1 ins1 E1) as F1.
  pose proof (oc_frag b Fb j l2 ins2 E2) as F2.
  pose proof (oc_wf a Wa i l1 ins1 E1) as W1.
  pose proof (oc_wf b Wb j l2 ins2 E2) as W2.
  assert (S2 : forall q, In q ins2 -> q < nb).
  { intros q Hq. pose proof (oc_ins_lt b Wb j l2 ins2 q E2 Hq). lia. }
  fold na nb.
  destruct (sdisjoint (nth i (scopes a) []) (nth j (scopes b) [])).
  { (* disjoint scopes: Kronecker join of the two copies *)
    destruct (out_units l1 =? out_units l2); cbn [mnodes mtbl length]; [|apply Inv_none; exact HI].
    apply Inv_add1; [exact HI|]. intros vs D L P F. cbn [node_eval map kronn fold_left].
    rewrite (P i), (P (na + j)) by lia.
    rewrite app_nth1 by (rewrite length_va; exact Hi).
    rewrite <- length_va at 1. rewrite app_nth2_plus. reflexivity. }
  destruct (negb (seqb (nth i (scopes a) []) (nth j (scopes b) []))); [apply Inv_none; exact HI|].
  destruct l1 as [v K N w|v K N lg p|v K n lg p|v K mu sd lp|v K dg cf|K lsp val|inner obs|Ki Ko ar w|Ki ar|Ki ar];
    cbn [mfrag_layer] in F1; try discriminate F1; cbn [is_input].
  - (* embedding x _ *)
    destruct (peval w) as [W|] eqn:Pw; [|discriminate F1].
    destruct l2 as [v' K' N' w'|v' K' N' lg p|v' K' n lg p|v' K' mu sd lp|v' K' dg cf|K' lsp val|inner obs|Ki' Ko' ar' w'|Ki' ar'|Ki' ar'];
      cbn [mfrag_layer] in F2; try discriminate F2; cbn [multiply_inputs]; try (apply Inv_none; exact HI).
    destruct (peval w') as [W'|] eqn:Pw'; [|discriminate F2].
    destruct (v =? v') eqn:Ev; cbn [negb]; [|apply Inv_none; exact HI]. apply Nat.eqb_eq in Ev. subst v'.
    destruct (N =? N') eqn:EN; cbn [negb]; [|apply Inv_none; exact HI]. apply Nat.eqb_eq in EN. subst N'.
    cbn [mnodes mtbl length]. apply Inv_add1; [exact HI|]. intros vs D L P F.
    cbn [node_eval in_eval] in V1, V2. rewrite Pw in V1. rewrite Pw' in V2. cbn [obind] in V1, V2.
    destruct (cidx (lookup v y) <? N) eqn:Ex; [|discriminate V1]. inversion V1 as [A1]. inversion V2 as [A2].
    pose proof (proj2 (proj2 (is_matrix_spec _ _ _ F1))) as HW.
    pose proof (proj2 (proj2 (is_matrix_spec _ _ _ F2))) as HW'.
    set (M1 := tmat c0 W) in *. set (M2 := tmat c0 W') in *.
    cbn [node_eval in_eval peval]. rewrite Pw, Pw'. cbn [obind eval_binop]. rewrite Ex. apply f_equal.
    rewrite HW, HW', touter0_of_mat, tmat_of_mat. apply emb_rows.
  - (* polynomial x _ *)
    destruct (peval cf) as [Cf|] eqn:Pc; [|discriminate F1].
    destruct l2 as [v' K' N' w'|v' K' N' lg p|v' K' n lg p|v' K' mu sd lp|v' K' dg' cf'|K' lsp val|inner obs|Ki' Ko' ar' w'|Ki' ar'|Ki' ar'];
      cbn [mfrag_layer] in F2; try discriminate F2; cbn [multiply_inputs]; try (apply Inv_none; exact HI).
    destruct (peval cf') as [Cf'|] eqn:Pc'; [|discriminate F2].
    destruct (v =? v') eqn:Ev; cbn [negb]; [|apply Inv_none; exact HI]. apply Nat.eqb_eq in Ev. subst v'.
    cbn [mnodes mtbl length]. apply Inv_add1; [exact HI|]. intros vs D L P F.
    cbn [node_eval in_eval] in V1, V2. rewrite Pc in V1. rewrite Pc' in V2. cbn [obind] in V1, V2.
    inversion V1 as [A1]. inversion V2 as [A2].
    cbn [node_eval in_eval peval]. rewrite Pc, Pc'. cbn [obind eval_binop]. apply f_equal.
    rewrite tmat_of_mat. apply poly_rows.
  - (* constant x _ : never multiplied *)
    destruct l2; cbn [multiply_inputs]; apply Inv_none; exact HI.
  - (* sum x _ *)
    destruct (peval w) as [W|] eqn:Pw; [|discriminate F1].
    destruct l2 as [v' K' N' w'|v' K' N' lg p|v' K' n lg p|v' K' mu sd lp|v' K' dg cf|K' lsp val|inner obs|Ki' Ko' ar' w'|Ki' ar'|Ki' ar'];
      cbn [mfrag_layer] in F2; try discriminate F2; try (apply Inv_none; exact HI).
    destruct (peval w') as [W'|] eqn:Pw'; [|discriminate F2].
    match goal with |- context [omap ?f ?l] => destruct (omap f l) as [cs|] eqn:Ecs end; [|apply Inv_none; exact HI].
    cbn [mnodes mtbl length]. apply Inv_add1; [exact HI|]. intros vs D L P F.
    cbn [is_input arity] in W1, W2. destruct W1 as [L1 [Ne1 _]]. destruct W2 as [L2 [Ne2 _]].
    cbn [node_eval] in V1, V2. rewrite Pw in V1. rewrite Pw' in V2. cbn [obind] in V1, V2.
    inversion V1 as [A1]. inversion V2 as [A2].
    destruct (is_matrix_spec _ _ _ F1) as [_ [R1 HW]]. destruct (is_matrix_spec _ _ _ F2) as [_ [R2 HW']].
    set (M1 := tmat c0 W) in *. set (M2 := tmat c0 W') in *.
    cbn [node_eval peval]. rewrite Pw, Pw'. cbn [obind eval_binop eval_unop]. apply f_equal.
    rewrite HW, HW', tkron_of_mat, tindex1_of_mat, tmat_of_mat.
    rewrite (cs_vals done ((i, j) :: rest) (mtbl st) vs _ cs E F Ecs).
    2:{ intros [p q] Hpq. cbn [snd]. apply S2. apply (in_pairs _ _ _ _ Hpq). }
    rewrite (pairs_vals (fun p => nth p va []) (fun q => nth q vb [])).
    apply sum_rows; try assumption; try (rewrite map_length; assumption).
    + intros x Hx. apply in_map_iff in Hx. destruct Hx as [p [<- Hp]].
      apply (oc_in_len a y va Ha Wa Fa i _ ins1 p E1 eq_refl Hp).
    + intros x Hx. apply in_map_iff in Hx. destruct Hx as [q [<- Hq]].
      apply (oc_in_len b y vb Hb Wb Fb j _ ins2 q E2 eq_refl Hq).
  - (* hadamard x _ *)
    destruct l2 as [v' K' N' w'|v' K' N' lg p|v' K' n lg p|v' K' mu sd lp|v' K' dg cf|K' lsp val|inner obs|Ki' Ko' ar' w'|Ki' ar'|Ki' ar'];
      cbn [mfrag_layer] in F2; try discriminate F2; try (apply Inv_none; exact HI).
    destruct (length ins1 =? length ins2) eqn:EL; [|apply Inv_none; exact HI]. apply Nat.eqb_eq in EL.
    match goal with |- context [omap ?f ?l] => destruct (omap f l) as [cs|] eqn:Ecs end; [|apply Inv_none; exact HI].
    cbn [mnodes mtbl length]. apply Inv_add1; [exact HI|]. intros vs D L P F.
    cbn [node_eval] in V1, V2. inversion V1 as [A1]. inversion V2 as [A2].
    set (s1 := sort_by (fun p => min_of (nth p (scopes a) [])) ins1) in *.
    set (s2 := sort_by (fun q => min_of (nth q (scopes b) [])) ins2) in *.
    assert (P1 : Permutation s1 ins1) by apply sort_by_perm.
    assert (P2 : Permutation s2 ins2) by apply sort_by_perm.
    cbn [node_eval]. apply f_equal.
    rewrite (cs_vals done ((i, j) :: rest) (mtbl st) vs _ cs E F Ecs).
    2:{ intros [p q] Hpq. cbn [snd]. apply in_combine_r in Hpq. apply S2.
        eapply Permutation_in; [exact P2 | exact Hpq]. }
    assert (U1 : forall x, In x (map (fun p => nth p va []) ins1) -> length x = Ki).
    { intros x Hx. apply in_map_iff in Hx. destruct Hx as [p [<- Hp]].
      apply (oc_in_len a y va Ha Wa Fa i _ ins1 p E1 eq_refl Hp). }
    assert (U2 : forall x, In x (map (fun q => nth q vb []) ins2) -> length x = Ki').
    { intros x Hx. apply in_map_iff in Hx. destruct Hx as [q [<- Hq]].
      apply (oc_in_len b y vb Hb Wb Fb j _ ins2 q E2 eq_refl Hq). }
    rewrite <- (hadn_perm (map (fun p => nth p va []) s1) (map (fun p => nth p va []) ins1) Ki).
    2:{ apply Permutation_map. exact P1. }
    2:{ intros x Hx. apply U1. eapply Permutation_in; [apply Permutation_map; exact P1 | exact Hx]. }
    rewrite <- (hadn_perm (map (fun q => nth q vb []) s2) (map (fun q => nth q vb []) ins2) Ki').
    2:{ apply Permutation_map. exact P2. }
    2:{ intros x Hx. apply U2. eapply Permutation_in; [apply Permutation_map; exact P2 | exact Hx]. }
    unfold vkron. rewrite !hadn_eq.
    rewrite (Multiply.kron_hadn C c0 c1 cadd cmul Cth Ki').
    + rewrite Multiply.combine_map_map, map_map. reflexivity.
    + rewrite !map_length. rewrite (Permutation_length P1), (Permutation_length P2). exact EL.
    + intros x Hx. apply U2. eapply Permutation_in; [apply Permutation_map; exact P2 | exact Hx].
  - (* kronecker x _ *)
    destruct l2 as [v' K' N' w'|v' K' N' lg p|v' K' n lg p|v' K' mu sd lp|v' K' dg cf|K' lsp val|inner obs|Ki' Ko' ar' w'|Ki' ar'|Ki' ar'];
      cbn [mfrag_layer] in F2; try discriminate F2; try (apply Inv_none; exact HI).
    match goal with |- context [if ?c then _ else _] => destruct c eqn:EC end; [|apply Inv_none; exact HI].
    apply andb_prop in EC. destruct EC as [EL _]. apply Nat.eqb_eq in EL.
    match goal with |- context [omap ?f ?l] => destruct (omap f l) as [cs|] eqn:Ecs end; [|apply Inv_none; exact HI].
    cbn [mnodes mtbl length]. apply Inv_add2; [exact HI|]. intros vs D L P F.
    cbn [node_eval] in V1, V2. inversion V1 as [A1]. inversion V2 as [A2].
    cbn [is_input arity] in W1, W2. destruct W1 as [L1 [Ne1 _]]. destruct W2 as [L2 [Ne2 _]].
    exists (Exec.kronn (map (fun k => nth k vs []) cs)). split; [reflexivity|].
    cbn [node_eval peval obind]. rewrite tmat_of_mat. apply f_equal.
    rewrite (cs_vals done ((i, j) :: rest) (mtbl st) vs _ cs E F Ecs).
    2:{ intros [p q] Hpq. cbn [snd]. apply in_combine_r in Hpq. apply S2. exact Hpq. }
    replace (Nat.max ar ar') with ar by lia.
    replace (map (fun pq => vkron (nth (fst pq) va []) (nth (snd pq) vb [])) (combine ins1 ins2))
      with (zipk (map (fun p => nth p va []) ins1) (map (fun q => nth q vb []) ins2))
      by (unfold zipk; rewrite Multiply.combine_map_map, map_map; reflexivity).
    apply kron_perm_apply.
    + rewrite map_length. exact L1.
    + rewrite map_length. lia.
    + destruct ins1; [congruence | simpl in L1; lia].
    + intros x Hx. apply in_map_iff in Hx. destruct Hx as [p [<- Hp]].
      apply (oc_in_len a y va Ha Wa Fa i _ ins1 p E1 eq_refl Hp).
    + intros x Hx. apply in_map_iff in Hx. destruct Hx as [q [<- Hq]].
      apply (oc_in_len b y vb Hb Wb Fb j _ ins2 q E2 eq_refl Hq).
Qed.

Lemma fold_inv : forall rest done st, done ++ rest = full -> Inv done (mnodes st) (mtbl st) ->
  Inv full (mnodes (fold_left (mul_step a b) rest st)) (mtbl (fold_left (mul_step a b) rest st)).
Proof.
  induction rest as [|[i j] rest IH]; intros done st E HI; cbn [fold_left].
  - rewrite app_nil_r in E. subst done. exact HI.
  - apply (IH (done ++ [(i, j)])); [rewrite <- app_assoc; exact E | apply (step_inv done i j rest st E HI)].
Qed.

Lemma base_inv : Inv [] (nodes a ++ shift_nodes na (nodes b)) [].
Proof.
  exists (va ++ vb). split; [|split; [|split]].
  - rewrite den_from_app. unfold den_all in Ha, Hb. rewrite Ha. cbn [obind].
    rewrite <- (app_nil_r va) at 1. rewrite (den_from_shift na (nodes b) y va length_va []).
    rewrite Hb. reflexivity.
  - rewrite app_length, length_va, length_vb. lia.
  - auto.
  - constructor.
Qed.
End Mul.

(* ================================================================== *)
(* E. The theorem                                                       *)
(* ================================================================== *)
(* the final state of the fold of [multiply_m]; [mul_table a b] maps the pair (i, j), at position
   i * |b| + j, to the index of its product node in the result (None: no product node) *)
Definition mul_final (a b : circuit) : mstate :=
  fold_left (mul_step a b) (pairs pair (seq 0 (length (nodes a))) (seq 0 (length (nodes b))))
    {| mnodes := nodes a ++ shift_nodes (length (nodes a)) (nodes b); mtbl := [] |}.
Definition mul_table (a b : circuit) : list (option nat) := mtbl (mul_final a b).

Lemma multiply_m_final a b p : multiply_m a b = Ok p ->
  nodes p = mnodes (mul_final a b) /\
  omap (fun pq => nth (fst pq * length (nodes b) + snd pq) (mul_table a b) None) (pairs pair (outs a) (outs b))
    = Some (outs p).
Proof.
  intros H. rewrite multiply_unfold in H.
  destruct (negb (seqb (cscope a) (cscope b))); [discriminate H|].
  destruct (negb (compatible a b)); [discriminate H|]. cbv zeta in H.
  fold (mul_final a b) in H. fold (mul_table a b) in H.
  destruct (omap _ _) as [os|]; [|discriminate H]. inversion H; subst p. cbn [nodes outs]. auto.
Qed.

Theorem multiply_exec_den a b p y va vb :
  mfrag a = true -> mfrag b = true -> wf a = true -> wf b = true ->
  multiply_m a b = Ok p ->
  den_all a y = Some va -> den_all b y = Some vb ->
  exists vp, den_all p y = Some vp /\
    (* the copies of the operands *)
    (forall i, i < length (nodes a) -> nth i vp [] = nth i va []) /\
    (forall j, j < length (nodes b) -> nth (length (nodes a) + j) vp [] = nth j vb []) /\
    (* every product entry of the table *)
    (forall i j k, i < length (nodes a) -> j < length (nodes b) ->
       nth (i * length (nodes b) + j) (mul_table a b) None = Some k ->
       k < length vp /\ nth k vp [] = vkron (nth i va []) (nth j vb [])) /\
    (* hence the outputs, a-major *)
    map (fun o => nth o vp []) (outs p)
    = pairs (fun o1 o2 => vkron (nth o1 va []) (nth o2 vb [])) (outs a) (outs b).
Proof.
  intros Fa Fb Wa Wb Hm Ha Hb.
  destruct (multiply_m_final a b p Hm) as [Hn Ho].
  pose proof (fold_inv a b y va vb Ha Hb Wa Wb Fa Fb (full a b) []
    {| mnodes := nodes a ++ shift_nodes (length (nodes a)) (nodes b); mtbl := [] |} eq_refl (base_inv a b y va vb Ha Hb)) as HI.
  fold (mul_final a b) in HI. fold (mul_table a b) in HI.
  destruct HI as [vs [D [L [P F]]]].
  pose proof (length_va a y va Ha) as La. pose proof (length_vb b y vb Hb) as Lb.
  exists vs. split; [unfold den_all; rewrite Hn; exact D|].
  split; [|split; [|split]].
  - intros i Hi. rewrite P by lia. apply app_nth1. lia.
  - intros j Hj. rewrite P by lia. rewrite <- La. apply app_nth2_plus.
  - intros i j k Hi Hj Hk.
    apply (tbl_get a b va vb (full a b) [] (mul_table a b) vs i j k (app_nil_r _) F Hj Hk).
  - rewrite (cs_vals a b va vb (full a b) [] (mul_table a b) vs _ (outs p) (app_nil_r _) F Ho).
    + unfold pairs. rewrite Multiply.map_flat_map. apply flat_map_ext. intros o1. rewrite map_map. reflexivity.
    + intros [o1 o2] Hpq. cbn [snd]. apply in_pairs in Hpq. destruct Hpq as [_ Hq].
      unfold wf in Wb. apply andb_prop in Wb. destruct Wb as [_ Wo]. rewrite forallb_forall in Wo.
      apply Nat.ltb_lt. apply Wo. exact Hq.
Qed.

Lemma pairs_map_map {X Y X' Y' Z} (f : X' -> Y' -> Z) (g : X -> X') (h : Y -> Y') l m :
  pairs (fun x z => f (g x) (h z)) l m = pairs f (map g l) (map h m).
Proof.
  unfold pairs. induction l as [|x l IH]; cbn [flat_map map]; [reflexivity|].
  rewrite IH, map_map. reflexivity.
Qed.

(* the function denoted by the product *)
Corollary multiply_exec_den_outputs a b p y oa ob :
  mfrag a = true -> mfrag b = true -> wf a = true -> wf b = true ->
  multiply_m a b = Ok p ->
  den a y = Some oa -> den b y = Some ob ->
  den p y = Some (pairs vkron oa ob).
Proof.
  intros Fa Fb Wa Wb Hm Ha Hb. unfold den in *.
  destruct (den_all a y) as [va|] eqn:Da; cbn [obind] in Ha; [|discriminate Ha].
  destruct (den_all b y) as [vb|] eqn:Db; cbn [obind] in Hb; [|discriminate Hb].
  inversion Ha; subst oa. inversion Hb; subst ob.
  destruct (multiply_exec_den a b p y va vb Fa Fb Wa Wb Hm Da Db) as [vp [Dp [_ [_ [_ Ho]]]]].
  rewrite Dp. cbn [obind]. rewrite Ho. apply f_equal. apply pairs_map_map.
Qed.

(* with evaluated parameters ([prep]) *)
Lemma outs_prep c : outs (prep c) = outs c.
Proof. unfold prep. destruct (omap _ (nodes c)); reflexivity. Qed.
Corollary multiply_exec_den_outputs_prep a b p y oa ob :
  mfrag a = true -> mfrag b = true -> wf a = true -> wf b = true ->
  multiply_m a b = Ok p ->
  den a y = Some oa -> den b y = Some ob ->
  den (prep p) y = Some (pairs vkron oa ob).
Proof.
  intros Fa Fb Wa Wb Hm Ha Hb. unfold den. rewrite den_prep, outs_prep.
  exact (multiply_exec_den_outputs a b p y oa ob Fa Fb Wa Wb Hm Ha Hb).
Qed.

(* ---------- non-vacuity: a concrete instance satisfies every hypothesis ---------- *)
Module MulExample.
Definition qz (n : Z) : C := cofZ n.
Definition Mx (m : list (list Z)) : pexpr := PTen 0 true (of_mat (map (map qz) m)).
Definition ea (o : nat) : circuit := mkC
  [ (LEmb 0 2 2 (Mx [[1;2];[3;4]]%Z), []); (LEmb 1 2 2 (Mx [[5;6];[7;8]]%Z), []);
    (LHad 2 2, [0;1]); (LKron 2 2, [0;1]);
    (LSum 2 2 1 (Mx [[1;2];[3;5]]%Z), [2]); (LSum 4 1 1 (Mx [[1;2;3;4]]%Z), [3]) ] [o].
Definition eb (o : nat) : circuit := mkC
  [ (LEmb 1 3 2 (Mx [[1;1];[2;3];[5;7]]%Z), []); (LEmb 0 3 2 (Mx [[2;1];[1;3];[1;1]]%Z), []);
    (LHad 3 2, [0;1]); (LKron 3 2, [1;0]);
    (LSum 3 2 1 (Mx [[1;2;3];[2;1;1]]%Z), [2]);
    (LSum 9 2 1 (Mx [[1;2;3;4;5;6;7;8;9];[1;0;1;0;1;0;1;0;1]]%Z), [3]) ] [o].
Definition ey : asg := [(0, qz 1); (1, qz 0)].
Definition ok_inst (o : nat) : bool :=
  mfrag (ea o) && mfrag (eb o) && wf (ea o) && wf (eb o)
  && (match multiply_m (ea o) (eb o) with Ok _ => true | Err _ => false end)
  && (match den (ea o) ey, den (eb o) ey with Some _, Some _ => true | _, _ => false end).
(* output 4: sums over Hadamard products; output 5: sums over Kronecker products *)
Lemma hyps : ok_inst 4 && ok_inst 5 = true.
Proof. vm_compute. reflexivity. Qed.
End MulExample.

Check multiply_exec_den. Print Assumptions multiply_exec_den.
Check multiply_exec_den_outputs. Print Assumptions multiply_exec_den_outputs.
Check multiply_exec_den_outputs_prep. Print Assumptions multiply_exec_den_outputs_prep.
