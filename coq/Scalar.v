(* Scalar.v — the executable scalar structure of the model: Gaussian rationals
   (pairs of canonical rationals Qc, Leibniz equality), a commutative ring with an
   involutive automorphism [cconj]; plus fixed-point approximations of exp / log / sqrt
   used ONLY to run the model on transcendental parameterisations (accuracy ~2^-70,
   far below the comparison tolerance; not used by any theorem). *)
From Coq Require Import ZArith QArith Qcanon List Bool Lia Ring Ring_theory Field.
Import ListNotations.
Local Open Scope Qc_scope.

Definition C := (Qc * Qc)%type.
Definition c0 : C := (0, 0).
Definition c1 : C := (1, 0).
Definition cre (q : Qc) : C := (q, 0).
Definition cadd (a b : C) : C := (fst a + fst b, snd a + snd b).
Definition cmul (a b : C) : C := (fst a * fst b - snd a * snd b, fst a * snd b + snd a * fst b).
Definition copp (a : C) : C := (- fst a, - snd a).
Definition csub (a b : C) : C := cadd a (copp b).
Definition cconj (a : C) : C := (fst a, - snd a).
Definition cnorm2 (a : C) : Qc := fst a * fst a + snd a * snd a.
Definition cinv (a : C) : C := let n := cnorm2 a in (fst a / n, - snd a / n).
Definition cdiv (a b : C) : C := cmul a (cinv b).
Definition is_real (a : C) : bool := Qc_eq_bool (snd a) 0.
Definition ceqb (a b : C) : bool := Qc_eq_bool (fst a) (fst b) && Qc_eq_bool (snd a) (snd b).

Lemma C_eq (a b : C) : fst a = fst b -> snd a = snd b -> a = b.
Proof. destruct a, b; simpl; intros; subst; reflexivity. Qed.

Lemma C_semi_ring : semi_ring_theory c0 c1 cadd cmul (@eq C).
Proof.
  constructor; intros; apply C_eq; unfold cadd, cmul, c0, c1; simpl; ring.
Qed.

Lemma C_ring : ring_theory c0 c1 cadd cmul csub copp (@eq C).
Proof.
  constructor; intros; try reflexivity; apply C_eq; unfold csub, cadd, cmul, copp, c0, c1; simpl; ring.
Qed.

Lemma cconj_invol a : cconj (cconj a) = a.
Proof. apply C_eq; unfold cconj; simpl; ring. Qed.
Lemma cconj_add a b : cconj (cadd a b) = cadd (cconj a) (cconj b).
Proof. apply C_eq; unfold cconj, cadd; simpl; ring. Qed.
Lemma cconj_mul a b : cconj (cmul a b) = cmul (cconj a) (cconj b).
Proof. apply C_eq; unfold cconj, cmul; simpl; ring. Qed.
Lemma cconj_0 : cconj c0 = c0. Proof. apply C_eq; unfold cconj, c0; simpl; ring. Qed.
Lemma cconj_1 : cconj c1 = c1. Proof. apply C_eq; unfold cconj, c1; simpl; ring. Qed.
Lemma cconj_real a : snd a = 0 -> cconj a = a.
Proof. intros H. apply C_eq; unfold cconj; simpl; [reflexivity | rewrite H; ring]. Qed.

Lemma ceqb_eq a b : ceqb a b = true -> a = b.
Proof.
  unfold ceqb. intros H. apply andb_prop in H. destruct H as [H1 H2].
  apply Qc_eq_bool_correct in H1. apply Qc_eq_bool_correct in H2. apply C_eq; assumption.
Qed.

(* ------------------------------------------------------------------ *)
(* Fixed-point transcendental approximations on rationals (P fractional bits). *)
Local Close Scope Qc_scope.
Local Open Scope Z_scope.

Definition FP : Z := 80.                       (* fractional bits *)
Definition ONE : Z := 2 ^ FP.
(* ln 2 and 2*pi scaled by 2^120 (computed offline, checked by selftest), truncated to FP bits *)
Definition LN2 : Z := 921350637599661305226344307672478454 / 2 ^ 40.
Definition TWOPI : Z := 8351785813007552717653752915327115494 / 2 ^ 40.

Definition to_fx (q : Q) : Z := Z.shiftl (Qnum q) FP / Zpos (Qden q).
Definition of_fx (z : Z) : Qc := Q2Qc (z # (Pos.pow 2 80)).
Definition fmul (a b : Z) : Z := Z.shiftr (a * b) FP.
Definition fdiv (a b : Z) : Z := Z.shiftl a FP / b.

(* Taylor series of exp on |r| <= ln2/2, n terms *)
Fixpoint exp_series (n : nat) (k : Z) (term acc r : Z) : Z :=
  match n with
  | O => acc
  | S n' => let term' := fmul term r / k in exp_series n' (k + 1) term' (acc + term') r
  end.
Definition fexp (x : Z) : Z :=
  let n := (x + LN2 / 2) / LN2 in                (* nearest multiple of ln 2 *)
  let r := x - n * LN2 in
  let e := exp_series 26 1 ONE ONE r in
  (* n < -200: the shifted value is exactly 0 (e < 2^82), computed without iterating the shift;
     n > 2^14: far beyond the float64 overflow threshold (the implementation's value is inf and is not compared) *)
  if n <? -200 then 0
  else if 0 <=? n then Z.shiftl e (Z.min n 16384) else Z.shiftr e (- n).

(* atanh series: sum z^(2k+1)/(2k+1) *)
Fixpoint atanh_series (n : nat) (k : Z) (pw acc z2 : Z) : Z :=
  match n with
  | O => acc
  | S n' => let pw' := fmul pw z2 in atanh_series n' (k + 2) pw' (acc + pw' / (k + 2)) z2
  end.
(* log of x > 0 : x = m * 2^e with m in [3/4, 3/2) *)
Definition flog (x : Z) : Z :=
  if x <=? 0 then 0 else
  let e0 := Z.log2 x - FP in
  let m0 := if 0 <=? e0 then Z.shiftr x e0 else Z.shiftl x (- e0) in      (* m0 in [1,2) *)
  let '(m, e) := if (3 * ONE / 2) <=? m0 then (m0 / 2, e0 + 1) else (m0, e0) in
  let z := fdiv (m - ONE) (m + ONE) in
  let s := atanh_series 36 1 z z (fmul z z) in
  2 * s + e * LN2.
Definition fsqrt (x : Z) : Z := Z.sqrt (Z.shiftl x FP).

Definition qexp (q : Qc) : Qc := of_fx (fexp (to_fx q)).
Definition qlog (q : Qc) : Qc := of_fx (flog (to_fx q)).
Definition qsqrt (q : Qc) : Qc := of_fx (fsqrt (to_fx q)).
Definition qtwopi : Qc := of_fx TWOPI.

(* rounding to a dyadic rational with 100 fractional bits: applied after divisions so that the
   executable evaluation only manipulates dyadic numbers (sizes then grow linearly) *)
Definition qround (q : Qc) : Qc :=
  Q2Qc (((Qnum (this q) * 2 ^ 100) / Zpos (Qden (this q))) # (Pos.pow 2 100)).
Definition cround (a : C) : C := (qround (fst a), qround (snd a)).

(* partial transcendental maps on C: defined on real arguments only *)
Definition cexp (a : C) : option C := if is_real a then Some (cre (qexp (fst a))) else None.
Definition clog (a : C) : option C :=
  if is_real a && Qle_bool 0 (fst a) && negb (Qc_eq_bool (fst a) (Q2Qc 0)) then Some (cre (qlog (fst a))) else None.
Definition csqrt (a : C) : option C :=
  if is_real a && Qle_bool 0 (fst a) then Some (cre (qsqrt (fst a))) else None.
