(* C12 — circuits built with normalised parameterisations are normalised
   Property theorems only: each is closed by `exact <lemma>`; proofs live in the imported files. *)
From Coq Require Import List ZArith QArith Qcanon Ring_theory Field_theory Permutation Sorted.
Import ListNotations.
From CK Require Import Base.
From CK Require Import Circ.
From CK Require Import Integrate.
From CK Require Import Normalised.
From CK Require Import InputNorm.
Close Scope Qc_scope. Close Scope Q_scope. Close Scope Z_scope. Open Scope nat_scope.

(* if every input node integrates to one over its scope and every sum row sums to one, every node of the integrated circuit evaluates to the all-ones vector *)
Theorem C12_partition_one :
  forall (R : Type) (rO rI : R) (radd rmul : R -> R -> R),
         semi_ring_theory rO rI radd rmul eq ->
         forall (D : Type) (Int : nat -> (D -> R) -> R) (Z : list nat) (c : circuit R D),
         ok R rO D c ->
         (forall n : node R D, In n c -> norm_node R rO rI radd D Int Z (units R D c) n) ->
         forall (y : asg D) (o : nat),
         o < length c ->
         nth o (eval R rO radd rmul D (integrate R rO D Int Z c) y) [] = ones R rI (nth o (units R D c) 0).
Proof. exact normalised_partition. Qed.
Print Assumptions C12_partition_one.

(* ... hence the partition function (iterated integral of every unit of every node) equals one, for every parameter value *)
Theorem C12_partition_function :
  forall (R : Type) (rO rI : R) (radd rmul : R -> R -> R),
         semi_ring_theory rO rI radd rmul eq ->
         forall (D : Type) (Int : nat -> (D -> R) -> R),
         (forall (v : nat) (f g : D -> R), (forall d : D, f d = g d) -> Int v f = Int v g) ->
         (forall (v : nat) (f g : D -> R), Int v (fun d : D => radd (f d) (g d)) = radd (Int v f) (Int v g)) ->
         (forall (v : nat) (c : R) (f : D -> R), Int v (fun d : D => rmul c (f d)) = rmul c (Int v f)) ->
         forall (Z : list nat) (c : circuit R D),
         ok R rO D c ->
         (forall n : node R D, In n c -> norm_node R rO rI radd D Int Z (units R D c) n) ->
         forall (y : asg D) (o k : nat),
         o < length c ->
         k < nth o (units R D c) 0 ->
         IntL R D Int (zs_of Z (nth o (scopes R D c) []))
           (fun y' : asg D => nth k (nth o (eval R rO radd rmul D c y') []) rO) y = rI.
Proof. exact normalised_partition_IntL. Qed.
Print Assumptions C12_partition_function.

(* softmax rows sum to one over any field *)
Theorem C12_softmax_rows :
  forall (R : Type) (rO rI : R) (radd rmul rsub : R -> R -> R) (ropp : R -> R) 
           (rdiv : R -> R -> R) (rinv : R -> R),
         field_theory rO rI radd rmul rsub ropp rdiv rinv eq ->
         forall e : vec R,
         vsum R rO radd e <> rO -> vsum R rO radd (map (fun x : R => rdiv x (vsum R rO radd e)) e) = rI.
Proof. exact softmax_row_sum. Qed.
Print Assumptions C12_softmax_rows.

(* a mixing-weight row sums to the sum of its mixing coefficients *)
Theorem C12_mixing_rows :
  forall (R : Type) (rO rI : R) (radd rmul : R -> R -> R),
         semi_ring_theory rO rI radd rmul eq ->
         forall (K k : nat) (row : vec R),
         k < K -> vsum R rO radd (mixing_row R rO K k row) = vsum R rO radd row.
Proof. exact mixing_row_sum. Qed.
Print Assumptions C12_mixing_rows.

(* circuits with non-negative weights and input functions are non-negative *)
Theorem C12_nonnegative :
  forall (R : Type) (rO : R) (radd rmul : R -> R -> R) (D : Type) (nonneg : R -> Prop),
         nonneg rO ->
         (forall a b : R, nonneg a -> nonneg b -> nonneg (radd a b)) ->
         (forall a b : R, nonneg a -> nonneg b -> nonneg (rmul a b)) ->
         forall c : circuit R D,
         (forall (W : list (vec R)) (ins : list nat),
          In (NSum R D W ins) c -> forall w : vec R, In w W -> forall x : R, In x w -> nonneg x) ->
         (forall i : inp R D,
          In (NIn R D i) c -> forall (y : asg D) (k : nat), nonneg (nth k (ifun R D i y) rO)) ->
         forall (y : asg D) (o k : nat), nonneg (nth k (nth o (eval R rO radd rmul D c y) []) rO).
Proof. exact monotone_nonneg. Qed.
Print Assumptions C12_nonnegative.

(* circuits with positive weights and input functions are positive (finite log) *)
Theorem C12_positive :
  forall (R : Type) (rO rI : R) (radd rmul : R -> R -> R),
         semi_ring_theory rO rI radd rmul eq ->
         forall (D : Type) (pos : R -> Prop),
         (forall a b : R, pos a -> pos b -> pos (radd a b)) ->
         (forall a b : R, pos a -> pos b -> pos (rmul a b)) ->
         forall c : circuit R D,
         ok R rO D c ->
         (forall (W : list (vec R)) (ins : list nat),
          In (NSum R D W ins) c ->
          W <> [] /\ (forall w : vec R, In w W -> w <> [] /\ (forall x : R, In x w -> pos x))) ->
         (forall i : inp R D,
          In (NIn R D i) c ->
          0 < iunits R D i /\ (forall (y : asg D) (k : nat), k < iunits R D i -> pos (nth k (ifun R D i y) rO))) ->
         forall (y : asg D) (o k : nat),
         o < length c -> k < nth o (units R D c) 0 -> pos (nth k (nth o (eval R rO radd rmul D c y) []) rO).
Proof. exact monotone_pos. Qed.
Print Assumptions C12_positive.

(* binomial theorem over any commutative semiring (iterated addition for the coefficients) *)
Theorem C12_binomial_theorem :
  forall (R : Type) (rO rI : R) (radd rmul : R -> R -> R),
         semi_ring_theory rO rI radd rmul eq ->
         forall (n : nat) (a b : R),
         tsum R rO radd (bterm R rO rI radd rmul n a b) (S n) = rpow R rI rmul (radd a b) n.
Proof. exact binomial_theorem. Qed.
Print Assumptions C12_binomial_theorem.

(* the Binomial layer is normalised: sum_k C(n,k) p^k (1-p)^(n-k) = 1 in any commutative ring, for every p *)
Theorem C12_binomial_normalised :
  forall (R : Type) (rO rI : R) (radd rmul rsub : R -> R -> R) (ropp : R -> R),
         ring_theory rO rI radd rmul rsub ropp eq ->
         forall (n : nat) (p : R), tsum R rO radd (bterm R rO rI radd rmul n p (rsub rI p)) (S n) = rI.
Proof. exact binomial_pmf_sum. Qed.
Print Assumptions C12_binomial_normalised.

(* ... hence a Binomial input node over the states 0..n integrates to one *)
Theorem C12_binomial_input_node :
  forall (R : Type) (rO rI : R) (radd rmul rsub : R -> R -> R) (ropp : R -> R),
         ring_theory rO rI radd rmul rsub ropp eq ->
         forall (D : Type) (enc : nat -> D) (idx : D -> nat),
         (forall s : nat, idx (enc s) = s) ->
         forall (dom : nat -> nat) (Z us : list nat) (v n : nat) (ps : vec R),
         NoDup Z ->
         In v Z ->
         dom v = S n ->
         norm_node R rO rI radd D (fInt R rO radd D enc dom) Z us
           (NIn R D (bin_inp R rO rI radd rmul rsub D idx v n ps)).
Proof. exact bin_inp_norm. Qed.
Print Assumptions C12_binomial_input_node.

(* a Categorical input node whose probabilities are a softmax integrates to one (any field, exp abstract with non-zero sums) *)
Theorem C12_softmax_categorical_input_node :
  forall (R : Type) (rO rI : R) (radd rmul rsub : R -> R -> R) (ropp : R -> R) 
           (rdiv : R -> R -> R) (rinv : R -> R),
         field_theory rO rI radd rmul rsub ropp rdiv rinv eq ->
         forall (ex : R -> R) (D : Type) (enc : nat -> D) (idx : D -> nat),
         (forall s : nat, idx (enc s) = s) ->
         forall (dom : nat -> nat) (Z us : list nat) (v : nat) (Th : list (list R)),
         NoDup Z ->
         In v Z ->
         (forall th : list R, In th Th -> length th <= dom v /\ vsum R rO radd (map ex th) <> rO) ->
         norm_node R rO rI radd D (fInt R rO radd D enc dom) Z us
           (NIn R D (cat_softmax R rO radd rdiv ex D idx v Th)).
Proof. exact cat_softmax_norm. Qed.
Print Assumptions C12_softmax_categorical_input_node.

(* a Categorical node given by explicit probabilities is normalised exactly when every row sums to one *)
Theorem C12_categorical_probabilities_iff :
  forall (R : Type) (rO rI : R) (radd rmul : R -> R -> R),
         semi_ring_theory rO rI radd rmul eq ->
         forall (D : Type) (enc : nat -> D) (idx : D -> nat),
         (forall s : nat, idx (enc s) = s) ->
         forall (dom : nat -> nat) (Z us : list nat) (v : nat) (W : list (list R)),
         NoDup Z ->
         In v Z ->
         (forall w : list R, In w W -> length w <= dom v) ->
         norm_node R rO rI radd D (fInt R rO radd D enc dom) Z us (NIn R D (cat_probs R rO D idx v W)) <->
         (forall w : list R, In w W -> vsum R rO radd w = rI).
Proof. exact cat_probs_norm_iff. Qed.
Print Assumptions C12_categorical_probabilities_iff.

(* a Categorical node given by logits is unnormalised: its integral is the sum of the exponentials *)
Theorem C12_categorical_logits_integral :
  forall (R : Type) (rO : R) (radd : R -> R -> R) (D : Type) (enc : nat -> D) (idx : D -> nat),
         (forall s : nat, idx (enc s) = s) ->
         forall (dom : nat -> nat) (ex : R -> R) (v : nat) (L : list (list R)) (y : asg D),
         (forall l : list R, In l L -> length l = dom v) ->
         IntV R rO D (fInt R rO radd D enc dom) [v] (ifun R D (cat_logits R rO D idx ex v L)) (length L) y =
         map (fun l : list R => vsum R rO radd (map ex l)) L.
Proof. exact cat_logits_integral. Qed.
Print Assumptions C12_categorical_logits_integral.

(* circuits whose inputs are softmax-categorical / unit-row categorical / Binomial nodes and whose sum rows are unit-sum, softmax or mixing rows: every unit of every node of the integrated circuit is one — NO hypothesis left on the input layers *)
Theorem C12_partition_one_discrete :
  forall (R : Type) (rO rI : R) (radd rmul rsub : R -> R -> R) (ropp : R -> R) 
           (rdiv : R -> R -> R) (rinv : R -> R),
         field_theory rO rI radd rmul rsub ropp rdiv rinv eq ->
         forall (ex : R -> R) (D : Type) (enc : nat -> D) (idx : D -> nat),
         (forall s : nat, idx (enc s) = s) ->
         forall (dom : nat -> nat) (Z : list nat) (c : circuit R D),
         NoDup Z ->
         ok R rO D c ->
         (forall i : inp R D, In (NIn R D i) c -> norm_inp R rO rI radd rmul rsub rdiv ex D idx dom Z i) ->
         (forall (W : list (vec R)) (ins : list nat),
          In (NSum R D W ins) c ->
          forall w : vec R,
          In w W ->
          unit_row R rO rI radd rdiv ex w /\ length w = sumu (fun j : nat => nth j (units R D c) 0) ins) ->
         forall (y : asg D) (o : nat),
         o < length c ->
         nth o (eval R rO radd rmul D (integrate R rO D (fInt R rO radd D enc dom) Z c) y) [] =
         ones R rI (nth o (units R D c) 0).
Proof. exact normalised_partition_discrete. Qed.
Print Assumptions C12_partition_one_discrete.

(* ... the partition function (iterated sum over the states) of every unit is one *)
Theorem C12_partition_function_one_discrete :
  forall (R : Type) (rO rI : R) (radd rmul rsub : R -> R -> R) (ropp : R -> R) 
           (rdiv : R -> R -> R) (rinv : R -> R),
         field_theory rO rI radd rmul rsub ropp rdiv rinv eq ->
         forall (ex : R -> R) (D : Type) (enc : nat -> D) (idx : D -> nat),
         (forall s : nat, idx (enc s) = s) ->
         forall (dom : nat -> nat) (Z : list nat) (c : circuit R D),
         NoDup Z ->
         ok R rO D c ->
         (forall i : inp R D, In (NIn R D i) c -> norm_inp R rO rI radd rmul rsub rdiv ex D idx dom Z i) ->
         (forall (W : list (vec R)) (ins : list nat),
          In (NSum R D W ins) c ->
          forall w : vec R,
          In w W ->
          unit_row R rO rI radd rdiv ex w /\ length w = sumu (fun j : nat => nth j (units R D c) 0) ins) ->
         forall (y : asg D) (o k : nat),
         o < length c ->
         k < nth o (units R D c) 0 ->
         IntL R D (fInt R rO radd D enc dom) (zs_of Z (nth o (scopes R D c) []))
           (fun y' : asg D => nth k (nth o (eval R rO radd rmul D c y') []) rO) y = rI.
Proof. exact partition_function_one. Qed.
Print Assumptions C12_partition_function_one_discrete.

(* the value computed by the EXECUTABLE Binomial layer (Exec.in_eval) sums to one over the states *)
Theorem C12_executable_binomial :
  forall (dom : nat -> nat) (v n : nat) (q : Scalar.C),
         dom v = S n ->
         Link.dInt dom v (fun d : Scalar.C => ExecLink.exec_bin n q (ExecLink.cidx d)) = Scalar.c1.
Proof. exact ExecLink.exec_binomial_normalised. Qed.
Print Assumptions C12_executable_binomial.
