"""Export of the folded structure of a compiled circuit for the verified address-book checker
(coq/FoldCheck.v). Membership (which unfolded layer sits in which fold slot) is recorded by wrapping the
module-level functions of cirkit.backend.torch.compiler in the harness process (no source change)."""
import contextlib

import torch

import cirkit.backend.torch.compiler as TC


class FoldRecord:
    def __init__(self):
        self.unfolded = None      # the TorchCircuit handed to _fold_circuit
        self.groups = {}          # id(folded layer) -> list of unfolded layers (slot order)
        self.keep = []


@contextlib.contextmanager
def recording():
    rec = FoldRecord()
    orig_group, orig_fold = TC._fold_layers_group, TC._fold_circuit

    def group(layers, *, compiler):
        folded = orig_group(layers, compiler=compiler)
        rec.groups[id(folded)] = list(layers)
        rec.keep.append(folded)
        return folded

    def fold(compiler, cc):
        rec.unfolded = cc
        return orig_fold(compiler, cc)

    TC._fold_layers_group, TC._fold_circuit = group, fold
    try:
        yield rec
    finally:
        TC._fold_layers_group, TC._fold_circuit = orig_group, orig_fold


def nats(l):
    return "[" + "; ".join(str(int(x)) for x in l) + "]"


def export(rec, cc):
    """returns (gins, F, outs, out_ids, out_cum) as Coq terms, or None if the circuit was not folded"""
    if rec.unfolded is None:
        return None
    ucc = rec.unfolded
    entries = list(cc.address_book)
    # unfolded ids in slot order of the folded modules (topological because frontiers are processed in order)
    uid = {}
    members = []
    for e in entries[:-1]:
        grp = rec.groups.get(id(e.module))
        if grp is None:
            raise RuntimeError("folded module without recorded group")
        ms = []
        for l in grp:
            uid[id(l)] = len(uid)
            ms.append(uid[id(l)])
        members.append(ms)
    if len(uid) != len(ucc.layers):
        raise RuntimeError("folded groups do not cover the unfolded circuit")
    order = sorted(ucc.layers, key=lambda l: uid[id(l)])
    gins = "[" + "; ".join(nats([uid[id(i)] for i in ucc.layer_inputs(l)]) for l in order) + "]"

    def decode_idx(fi, sizes_total):
        if isinstance(fi, torch.Tensor):
            return fi.tolist()
        # the two documented shortcuts, read through torch's own indexing semantics
        probe = torch.arange(sizes_total)
        r = probe[fi]
        return r.tolist()

    fsz = [len(m) for m in members]
    F = []
    for k, e in enumerate(entries[:-1]):
        if e.in_module_ids:
            ids = list(e.in_module_ids[0])
            tot = sum(fsz[i] for i in ids)
            cum = decode_idx(e.in_fold_idx[0], tot)
            if cum and not isinstance(cum[0], list):
                cum = [cum]
        else:
            ids, cum = [], [[] for _ in members[k]]
        F.append(f"(Build_fmod {nats(members[k])} {nats(ids)} [" + "; ".join(nats(c) for c in cum) + "])")
    last = entries[-1]
    out_ids = list(last.in_module_ids[0])
    out_cum = last.in_fold_idx[0].tolist()
    outs = [uid[id(o)] for o in ucc.outputs]
    return gins, "[" + "; ".join(F) + "]", nats(outs), nats(out_ids), nats(out_cum)
