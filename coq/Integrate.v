(* Integrate.v — the integrate operator on semantic circuits and its correctness (C03). *)
From Coq Require Import List Lia Ring Ring_theory Bool Arith.
Import ListNotations.
From CK Require Import Base Circ.

Section Integrate.
Variable R : Type.
Variables (rO rI : R) (radd rmul : R -> R -> R).
Hypothesis Rth : semi_ring_theory rO rI radd rmul (@eq R).
Add Ring Rring : Rth.
Infix "+" := radd. Infix "*" := rmul.
Notation "0" := rO. Notation "1" := rI.
Variable D : Type.
Notation asg := (asg D).
Notation vec := (vec R).
Notation dot := (dot R rO radd rmul).
Notation had := (had R rmul).
Notation kron := (kron R rmul).
Variable Int : nat -> (D -> R) -> R.
Hypothesis Int_ext : forall v f g, (forall d, f d = g d) -> Int v f = Int v g.
Hypothesis Int_add : forall v f g, Int v (fun d => f d + g d) = Int v f + Int v g.
Hypothesis Int_scal : forall v c f, Int v (fun d => c * f d) = c * Int v f.
Notation IntL := (IntL R D Int).
Notation IntV := (IntV R rO D Int).
Notation dep_on := (dep_on R D).
Notation upd := (upd D).
Notation node := (node R D).
Notation circuit := (circuit R D).
Notation eval := (eval R rO radd rmul D).
Notation eval_node := (eval_node R rO radd rmul D).
Notation scopes := (scopes R D).
Notation units := (units R D).
Notation ok := (ok R rO D).
Notation inp := (inp R D).
Notation NIn := (NIn R D).
Notation NSum := (NSum R D).
Notation NHad := (NHad R D).
Notation NKron := (NKron R D).
Notation iscope := (iscope R D).
Notation iunits := (iunits R D).
Notation ifun := (ifun R D).
Notation get := (get R).
Notation hadn := (hadn R rmul).
Notation kronn := (kronn R rmul).
Notation prodl := (prodl R rI rmul).
Notation prodf := (prodf R rI rmul D).
(* ---------- the operator ---------- *)
Definition memb v (s : list nat) := mem v s.
Definition zs_of (Z S : list nat) := filter (fun v => mem v S) Z.
Definition integ_inp (Z : list nat) (i : inp) : inp :=
  Build_inp R D (filter (fun v => negb (mem v Z)) (iscope i)) (iunits i)
                (IntV (zs_of Z (iscope i)) (ifun i) (iunits i)).
Definition tr (Z : list nat) (n : node) : node := match n with Circ.NIn _ _ i => NIn (integ_inp Z i) | _ => n end.
Definition integrate (Z : list nat) (c : circuit) : circuit := map (tr Z) c.
Lemma integrate_snoc Z pre n : integrate Z (pre ++ [n]) = integrate Z pre ++ [tr Z n].
Proof. unfold integrate. rewrite map_app. reflexivity. Qed.

(* ---------- IntV algebra ---------- *)
Lemma IntV_app zs F G L1 L2 y : (forall y, length (F y) = L1) ->
  IntV zs (fun y => F y ++ G y) (L1 + L2) y = IntV zs F L1 y ++ IntV zs G L2 y.
Proof.
  intros HL. unfold Base.IntV. rewrite seq_app, map_app. f_equal.
  - apply map_ext_in. intros k Hk. apply in_seq in Hk. apply (IntL_ext R D Int Int_ext). intros y'.
    apply app_nth1. rewrite HL. lia.
  - simpl. rewrite (seq_add_map L1 L2), map_map. apply map_ext. intros k.
    apply (IntL_ext R D Int Int_ext). intros y'. rewrite app_nth2 by (rewrite HL; lia). rewrite HL. f_equal. lia.
Qed.
Lemma IntV_nil zs L y : IntV zs (fun _ => []) L y = repeat 0 L.
Proof. unfold Base.IntV. 
  transitivity (map (fun _ : nat => 0) (seq 0 L)).
  - apply map_ext. intros k. rewrite (IntL_ext R D Int Int_ext zs _ (fun _ => 0)); [apply (IntL_zero R rO rI radd rmul Rth D Int Int_ext Int_scal)|].
    intros; destruct k; reflexivity.
  - generalize 0%nat at 1. induction L as [|L IH]; intros a; simpl; [reflexivity| f_equal; apply IH]. Qed.
Definition sumu (u : nat -> nat) (ins : list nat) : nat := fold_right (fun j acc => (u j + acc)%nat) 0%nat ins.
Lemma IntV_concat zs (G : asg -> nat -> vec) (u : nat -> nat) ins y :
  (forall j y, In j ins -> length (G y j) = u j) ->
  IntV zs (fun y' => concat (map (G y') ins)) (sumu u ins) y = concat (map (fun j => IntV zs (fun y' => G y' j) (u j) y) ins).
Proof.
  induction ins as [|j ins IH]; intros H; simpl.
  - reflexivity.
  - rewrite IntV_app by (intros; apply H; simpl; auto). f_equal. apply IH. intros; apply H; simpl; auto.
Qed.
Lemma length_concat_sumu (xs : nat -> vec) (u : nat -> nat) ins :
  (forall j, In j ins -> length (xs j) = u j) -> length (concat (map xs ins)) = sumu u ins.
Proof. induction ins as [|j ins IH]; intros H; simpl; [reflexivity|]. rewrite app_length, H, IH; simpl; auto. intros; apply H; simpl; auto. Qed.

(* ---------- scopes / filters ---------- *)
Lemma zs_of_sameset Z S S' : sameset S S' -> zs_of Z S = zs_of Z S'.
Proof. intros H. unfold zs_of. apply filter_ext. intros v.
  destruct (mem v S) eqn:E1, (mem v S') eqn:E2; auto.
  - apply mem_In in E1. apply H in E1. apply mem_In in E1. congruence.
  - apply mem_In in E2. apply H in E2. apply mem_In in E2. congruence. Qed.
Lemma zs_of_app_l Z S1 S2 : filter (fun v => mem v S1) (zs_of Z (S1 ++ S2)) = zs_of Z S1.
Proof. unfold zs_of. rewrite filter_filter. apply filter_ext. intros v. rewrite mem_app. destruct (mem v S1); simpl; [reflexivity | apply andb_false_r]. Qed.
Lemma zs_of_app_r Z S1 S2 : disjoint S1 S2 ->
  filter (fun v => negb (mem v S1)) (zs_of Z (S1 ++ S2)) = zs_of Z S2.
Proof. intros Hd. unfold zs_of. rewrite filter_filter. apply filter_ext. intros v. rewrite mem_app.
  destruct (mem v S1) eqn:E1, (mem v S2) eqn:E2; simpl; auto.
  apply mem_In in E1, E2. exfalso. exact (Hd v E1 E2). Qed.

Lemma IntL_prodn fs : (forall p, In p fs -> dep_on (fst p) (snd p)) -> pairwise_disjoint (map fst fs) ->
  forall Z y, IntL (zs_of Z (concat (map fst fs))) (prodf fs) y
            = prodl (map (fun p => IntL (zs_of Z (fst p)) (snd p) y) fs).
Proof.
  induction fs as [|[S f] fs IH]; intros Hd Hp Z y.
  - simpl. unfold zs_of. simpl. assert (E : filter (fun _ : nat => false) Z = []) by (induction Z; simpl; auto). 
    unfold mem; simpl. rewrite E. reflexivity.
  - simpl in Hp. destruct Hp as [Hp1 Hp2]. simpl map. simpl concat.
    change (prodf ((S, f) :: fs)) with (fun y => f y * prodf fs y).
    rewrite (IntL_split R rO rI radd rmul Rth D Int Int_ext Int_scal S (concat (map fst fs)) f (prodf fs)).
    + rewrite zs_of_app_l.
      rewrite zs_of_app_r by (apply disjoint_concat; exact Hp1).
      rewrite IH; [reflexivity | intros; apply Hd; simpl; auto | exact Hp2].
    + apply (Hd (S, f)); simpl; auto.
    + apply prodf_dep. intros; apply Hd; simpl; auto.
    + apply disjoint_concat. exact Hp1.
Qed.

(* ---------- extensionality helpers ---------- *)
Lemma IntV_ext zs F G L y : (forall y, F y = G y) -> IntV zs F L y = IntV zs G L y.
Proof. intros H. unfold Base.IntV. apply map_ext. intros k. apply (IntL_ext R D Int Int_ext). intros y'. rewrite H. reflexivity. Qed.
Lemma dep_on_ext S f g : (forall y, f y = g y) -> dep_on S f -> dep_on S g.
Proof. intros H Hf y y' Ha. rewrite <- !H. apply Hf, Ha. Qed.

Lemma length_integrate Z c : length (integrate Z c) = length c.
Proof. apply map_length. Qed.
Lemma evI_lt Z pre n y i : i < length pre ->
  nth i (eval (integrate Z (pre ++ [n])) y) [] = nth i (eval (integrate Z pre) y) [].
Proof. intros H. rewrite integrate_snoc. apply ev_lt. rewrite length_integrate. exact H. Qed.
Lemma evI_eq Z pre n y :
  nth (length pre) (eval (integrate Z (pre ++ [n])) y) [] = eval_node (tr Z n) y (eval (integrate Z pre) y).
Proof. rewrite integrate_snoc. rewrite <- (length_integrate Z pre) at 1. apply ev_eq. Qed.

(* ---------- the invariant ---------- *)
Definition Inv (Z : list nat) (pre : circuit) : Prop :=
  forall i, i < length pre ->
    (forall y, length (nth i (eval pre y) []) = nth i (units pre) 0%nat) /\
    (forall k, dep_on (nth i (scopes pre) []) (fun y => nth k (nth i (eval pre y) []) 0)) /\
    (forall y, nth i (eval (integrate Z pre) y) [] =
               IntV (zs_of Z (nth i (scopes pre) [])) (fun y' => nth i (eval pre y') []) (nth i (units pre) 0%nat) y).

Lemma in_scope_concat (sc : list (list nat)) ins j u : In j ins -> In u (nth j sc []) -> In u (concat (map (fun j => nth j sc []) ins)).
Proof. intros Hj Hu. apply in_concat. exists (nth j sc []). split; [apply in_map_iff; exists j; auto | exact Hu]. Qed.

Theorem integrate_inv Z pre : ok pre -> Inv Z pre.
Proof.
  induction 1 as [|pre n Hok IH Hn]; intros i Hi.
  - simpl in Hi. lia.
  - rewrite app_length in Hi. simpl in Hi.
    assert (Hcase : i < length pre \/ i = length pre) by lia. destruct Hcase as [Hlt | ->].
    + (* old node *)
      destruct (IH i Hlt) as [IA [IB IC]]. split; [|split].
      * intros y. rewrite ev_lt, un_lt by exact Hlt. apply IA.
      * intros k. rewrite sc_lt by exact Hlt.
        apply (dep_on_ext _ (fun y => nth k (nth i (eval pre y) []) 0)); [intros y; rewrite ev_lt by exact Hlt; reflexivity | apply IB].
      * intros y. rewrite evI_lt, sc_lt, un_lt by exact Hlt. rewrite IC.
        apply IntV_ext. intros y'. rewrite ev_lt by exact Hlt. reflexivity.
    + (* the new node *)
      destruct n as [inp0 | W ins | ins | ins]; simpl in Hn.
      * (* input *)
        destruct Hn as [HL HD]. split; [|split].
        -- intros y. rewrite ev_eq, un_eq. simpl. apply HL.
        -- intros k. rewrite sc_eq. simpl.
           apply (dep_on_ext _ (fun y => nth k (ifun inp0 y) 0)); [intros y; rewrite ev_eq; reflexivity | apply HD].
        -- intros y. rewrite evI_eq, sc_eq, un_eq. simpl.
           apply IntV_ext. intros y'. rewrite ev_eq. reflexivity.
      * (* sum *)
        destruct Hn as [Hne [Hpos Hsm]].
        set (sc := scopes pre) in *. set (us := units pre) in *.
        set (S := concat (map (fun j => nth j sc []) ins)) in *.
        assert (IAj : forall j y, In j ins -> length (nth j (eval pre y) []) = nth j us 0%nat)
          by (intros j y Hj; apply (IH j (Hpos j Hj))).
        split; [|split].
        -- intros y. rewrite ev_eq, un_eq. simpl. apply map_length.
        -- intros k. rewrite sc_eq. simpl. fold sc. fold S.
           apply (dep_on_ext _ (fun y => dot (nth k W []) (concat (map (get (eval pre y)) ins)))).
           { intros y. rewrite ev_eq. simpl. rewrite nth_map_dot. reflexivity. }
           intros y y' Ha. f_equal. f_equal. apply map_ext_in. intros j Hj. unfold Circ.get.
           apply (list_eq_nth0 R rO); [rewrite !IAj by exact Hj; reflexivity|].
           intros k'. destruct (IH j (Hpos j Hj)) as [_ [IB _]]. apply IB.
           intros u Hu. apply Ha. unfold S. apply (in_scope_concat sc ins j u Hj Hu).
        -- intros y. rewrite evI_eq, sc_eq, un_eq. simpl. fold sc. fold S.
           apply (list_eq_nth0 R rO).
           { rewrite map_length, (length_IntV R rO D Int). reflexivity. }
           intros k. rewrite nth_map_dot.
           rewrite (nth_IntV_all R rO rI radd rmul Rth D Int Int_ext Int_scal) by (intros; rewrite ev_eq; simpl; apply map_length).
           rewrite (IntL_ext R D Int Int_ext _ _ (fun y' => dot (nth k W []) (concat (map (get (eval pre y')) ins))))
             by (intros y'; rewrite ev_eq; simpl; apply nth_map_dot).
           rewrite (IntL_dot R rO rI radd rmul Rth D Int Int_ext Int_add Int_scal _ _ _ (sumu (fun j => nth j us 0%nat) ins))
             by (intros y'; apply length_concat_sumu; intros j Hj; unfold Circ.get; apply IAj; exact Hj).
           f_equal.
           rewrite (IntV_concat _ (fun y' j => get (eval pre y') j)) by (intros j y' Hj; unfold Circ.get; apply IAj; exact Hj).
           f_equal. apply map_ext_in. intros j Hj. unfold Circ.get.
           destruct (IH j (Hpos j Hj)) as [_ [_ IC]]. rewrite IC. fold sc. fold us.
           rewrite (zs_of_sameset Z _ _ (Hsm j Hj)). reflexivity.
      * (* hadamard *)
        destruct Hn as [Hne [Hpos [Hun Hdj]]].
        set (sc := scopes pre) in *. set (us := units pre) in *.
        set (S := concat (map (fun j => nth j sc []) ins)) in *.
        set (u0 := match ins with [] => 0%nat | j0 :: _ => nth j0 us 0%nat end) in *.
        assert (IAj : forall j y, In j ins -> length (nth j (eval pre y) []) = u0)
          by (intros j y Hj; rewrite <- (Hun j Hj); apply (IH j (Hpos j Hj))).
        assert (Hmapne : forall vals : list vec, map (get vals) ins <> []) by (intros vals E; apply map_eq_nil in E; contradiction).
        assert (HA : forall y, length (hadn (map (get (eval pre y)) ins)) = u0).
        { intros y. apply length_hadn; [apply Hmapne|]. intros x Hx. apply in_map_iff in Hx. destruct Hx as [j [<- Hj]]. unfold Circ.get. apply IAj, Hj. }
        pose (fs k := map (fun j => (nth j sc [], fun y : asg => nth k (nth j (eval pre y) []) 0)) ins).
        assert (Hfs1 : forall k, concat (map fst (fs k)) = S) by (intros k; unfold fs, S; rewrite map_map; reflexivity).
        assert (Hfsv : forall k y, nth k (hadn (map (get (eval pre y)) ins)) 0 = prodf (fs k) y).
        { intros k y. rewrite (nth_hadn R rO rI radd rmul Rth) by apply Hmapne. unfold Circ.prodf, fs. rewrite !map_map. reflexivity. }
        assert (Hfsd : forall k p, In p (fs k) -> dep_on (fst p) (snd p)).
        { intros k p Hp. unfold fs in Hp. apply in_map_iff in Hp. destruct Hp as [j [<- Hj]]. simpl.
          destruct (IH j (Hpos j Hj)) as [_ [IB _]]. apply IB. }
        split; [|split].
        -- intros y. rewrite ev_eq, un_eq. simpl. fold us. fold u0. apply HA.
        -- intros k. rewrite sc_eq. simpl. fold sc. fold S. rewrite <- (Hfs1 k).
           apply (dep_on_ext _ (prodf (fs k))); [intros y; rewrite ev_eq; simpl; symmetry; apply Hfsv | apply prodf_dep, Hfsd].
        -- intros y. rewrite evI_eq, sc_eq, un_eq. simpl. fold sc. fold S. fold us. fold u0.
           assert (ICj : forall j, In j ins -> nth j (eval (integrate Z pre) y) [] =
                     IntV (zs_of Z (nth j sc [])) (fun y' => nth j (eval pre y') []) u0 y).
           { intros j Hj. destruct (IH j (Hpos j Hj)) as [_ [_ IC]]. rewrite IC. fold sc. fold us. rewrite (Hun j Hj). reflexivity. }
           apply (list_eq_nth0 R rO).
           { rewrite (length_IntV R rO D Int). apply length_hadn; [apply Hmapne|].
             intros x Hx. apply in_map_iff in Hx. destruct Hx as [j [<- Hj]]. unfold Circ.get. rewrite (ICj j Hj). apply (length_IntV R rO D Int). }
           intros k. rewrite (nth_hadn R rO rI radd rmul Rth) by apply Hmapne. rewrite map_map.
           rewrite (nth_IntV_all R rO rI radd rmul Rth D Int Int_ext Int_scal) by (intros y'; rewrite ev_eq; simpl; apply HA).
           rewrite (IntL_ext R D Int Int_ext _ _ (prodf (fs k))) by (intros y'; rewrite ev_eq; simpl; apply Hfsv).
           rewrite <- (Hfs1 k).
           rewrite IntL_prodn; [| apply Hfsd | unfold fs; rewrite map_map; exact Hdj].
           unfold fs. rewrite map_map. f_equal. apply map_ext_in. intros j Hj. simpl. unfold Circ.get.
           rewrite (ICj j Hj).
           apply (nth_IntV_all R rO rI radd rmul Rth D Int Int_ext Int_scal). intros y'. apply IAj, Hj.
      * (* kronecker *)
        destruct Hn as [Hne [Hpos Hdj]].
        set (sc := scopes pre) in *. set (us := units pre) in *.
        set (S := concat (map (fun j => nth j sc []) ins)) in *.
        set (U := fold_right Nat.mul 1%nat (map (fun j => nth j us 0%nat) ins)).
        assert (IAj : forall j y, In j ins -> length (nth j (eval pre y) []) = nth j us 0%nat)
          by (intros j y Hj; apply (IH j (Hpos j Hj))).
        assert (HA : forall y, length (kronn (map (get (eval pre y)) ins)) = U).
        { intros y. apply (length_kronn_map R rmul); [exact Hne|]. intros j Hj. unfold Circ.get. apply IAj, Hj. }
        (* one index per factor, depending only on the unit counts *)
        pose (ds k := kidx (map (fun j => nth j us 0%nat) ins) k).
        pose (fs k := map (fun p : nat * nat => (nth (fst p) sc [], fun y : asg => nth (snd p) (nth (fst p) (eval pre y) []) 0))
                          (combine ins (ds k))).
        assert (Hfs0 : forall k, map fst (fs k) = map (fun j => nth j sc []) ins).
        { intros k. unfold fs. rewrite map_map. simpl.
          rewrite <- (map_map fst (fun j => nth j sc [])). rewrite map_fst_combine; [reflexivity|].
          unfold ds. rewrite length_kidx, map_length. reflexivity. }
        assert (Hfs1 : forall k, concat (map fst (fs k)) = S) by (intros k; rewrite Hfs0; reflexivity).
        assert (Hfsv : forall k y, nth k (kronn (map (get (eval pre y)) ins)) 0 = prodf (fs k) y).
        { intros k y.
          rewrite (nth_kronn_map R rO rI radd rmul Rth (get (eval pre y)) (fun j => nth j us 0%nat));
            [| exact Hne | intros j Hj; unfold Circ.get; apply IAj, Hj].
          unfold Circ.prodf, fs. rewrite !map_map. reflexivity. }
        assert (Hfsd : forall k p, In p (fs k) -> dep_on (fst p) (snd p)).
        { intros k p Hp. unfold fs in Hp. apply in_map_iff in Hp. destruct Hp as [[j d] [<- Hjd]]. simpl.
          apply in_combine_l in Hjd.
          destruct (IH j (Hpos j Hjd)) as [_ [IB _]]. apply IB. }
        split; [|split].
        -- intros y. rewrite ev_eq, un_eq. simpl. fold us. apply HA.
        -- intros k. rewrite sc_eq. simpl. fold sc. fold S. rewrite <- (Hfs1 k).
           apply (dep_on_ext _ (prodf (fs k))); [intros y; rewrite ev_eq; simpl; symmetry; apply Hfsv | apply prodf_dep, Hfsd].
        -- intros y. rewrite evI_eq, sc_eq, un_eq. simpl. fold sc. fold S. fold us. fold U.
           assert (ICj : forall j, In j ins -> nth j (eval (integrate Z pre) y) [] =
                     IntV (zs_of Z (nth j sc [])) (fun y' => nth j (eval pre y') []) (nth j us 0%nat) y).
           { intros j Hj. destruct (IH j (Hpos j Hj)) as [_ [_ IC]]. apply IC. }
           assert (ILj : forall j, In j ins -> length (get (eval (integrate Z pre) y) j) = nth j us 0%nat).
           { intros j Hj. unfold Circ.get. rewrite (ICj j Hj). apply (length_IntV R rO D Int). }
           apply (list_eq_nth0 R rO).
           { rewrite (length_IntV R rO D Int). apply (length_kronn_map R rmul); [exact Hne | exact ILj]. }
           intros k.
           rewrite (nth_kronn_map R rO rI radd rmul Rth (get (eval (integrate Z pre) y)) (fun j => nth j us 0%nat) ins k Hne ILj).
           rewrite (nth_IntV_all R rO rI radd rmul Rth D Int Int_ext Int_scal) by (intros y'; rewrite ev_eq; simpl; apply HA).
           rewrite (IntL_ext R D Int Int_ext _ _ (prodf (fs k))) by (intros y'; rewrite ev_eq; simpl; apply Hfsv).
           rewrite <- (Hfs1 k).
           rewrite IntL_prodn; [| apply Hfsd | rewrite Hfs0; exact Hdj].
           unfold fs, ds. rewrite map_map. f_equal. apply map_ext_in. intros [j d] Hjd. simpl.
           apply in_combine_l in Hjd. unfold Circ.get. rewrite (ICj j Hjd).
           apply (nth_IntV_all R rO rI radd rmul Rth D Int Int_ext Int_scal). intros y'. apply IAj, Hjd.
Qed.

(* the property, per output layer and unit *)
Corollary integrate_correct Z c : ok c -> forall o k y, o < length c ->
  nth k (nth o (eval (integrate Z c) y) []) 0
  = IntL (zs_of Z (nth o (scopes c) [])) (fun y' => nth k (nth o (eval c y') []) 0) y.
Proof.
  intros Hok o k y Ho. destruct (integrate_inv Z c Hok o Ho) as [IA [_ IC]]. rewrite IC.
  apply (nth_IntV_all R rO rI radd rmul Rth D Int Int_ext Int_scal). exact IA.
Qed.
End Integrate.
Check integrate_correct.
Print Assumptions integrate_correct.
