"""Seeded generators of symbolic circuits with known parameter values."""
import itertools
import random

import numpy as np

from cirkit.symbolic import layers as L
from cirkit.symbolic import parameters as P
from cirkit.symbolic.circuit import Circuit
from cirkit.symbolic.initializers import ConstantTensorInitializer
from cirkit.symbolic.dtypes import DataType
from cirkit.utils.scope import Scope

VAR_SETS = {
    "dense": lambda n: list(range(n)),
    "sparse": lambda n: [1, 8, 3, 12, 5, 17][:n],
    "big": lambda n: [2, 9, 16, 11, 30, 23][:n],
    "shift": lambda n: list(range(3, 3 + n)),
}
DISCRETE = ("emb", "cat_probs", "cat_logits", "cat_softmax", "cat_softmax0", "bin")


def dy(rng, lo=-8, hi=8, den=4, nonzero=False):
    while True:
        k = rng.randint(lo, hi)
        if not (nonzero and k == 0):
            return k / den


def dy_array(rng, shape, lo=-8, hi=8, den=4, cplx=False):
    n = int(np.prod(shape))
    if cplx:
        a = np.array([complex(dy(rng, lo, hi, den), dy(rng, lo, hi, den)) for _ in range(n)], dtype=np.complex128)
    else:
        a = np.array([dy(rng, lo, hi, den) for _ in range(n)], dtype=np.float64)
    return a.reshape(shape)


def prob_rows(rng, K, N, den=8):
    rows = []
    for _ in range(K):
        cuts = sorted(rng.sample(range(1, den + N), N - 1))
        parts = [b - a for a, b in zip([0] + cuts, cuts + [den + N])]
        parts = [p - 1 for p in parts]  # allow zeros? keep strictly positive instead
        parts = [p + 1 for p in parts]
        s = sum(parts)
        # renormalise to dyadic: use denominators 2^k only when s is a power of two
        rows.append(parts)
    rows = np.array(rows, dtype=np.float64)
    # make each row sum to a power of two by padding the last entry
    for r in rows:
        tot = r.sum()
        p2 = 1
        while p2 < tot:
            p2 *= 2
        r[-1] += p2 - tot
        r /= p2
    return rows


def tensor(value, learnable=True):
    value = np.asarray(value)
    dtype = DataType.COMPLEX if np.iscomplexobj(value) else DataType.REAL
    return P.TensorParameter(*value.shape, initializer=ConstantTensorInitializer(value), learnable=learnable, dtype=dtype)


class Gen:
    """Builds one random circuit. Options:
       nvars, varset, kinds (list of input kinds), prod ('had'|'kron'|'any'), K (units), sd (bool),
       monotone (non-negative parameters), cplx (complex weights), max_alt, nout, share (bool)."""

    def __init__(self, rng, **o):
        self.rng = rng
        self.o = o
        self.layers = []
        self.in_layers = {}
        self.partitions = {}
        self.memo = {}
        self.tensors = []  # for reference sharing
        self.doms = {}
        self.varkind = {}
        like = o.get("like")
        if like is not None:
            self.partitions = like.partitions
            self.varkind = like.varkind
            self.doms = like.doms
            self.ptypes = like.ptypes
        else:
            self.ptypes = {}
        self.desc = {"kinds": [], "sums": 0, "prods": 0, "wkinds": [], "arity": []}

    # ---- parameters ----
    def weight_param(self, shape, arity=1, normalized=False):
        rng, o = self.rng, self.o
        kinds = ["softmax", "exp", "pos", "clamp"] if o.get("monotone") else ["tensor", "tensor", "softmax", "exp", "const", "sq", "clamp", "sigmoid"]
        if normalized:
            kinds = ["softmax"]
        if o.get("cplx"):
            kinds = ["tensor", "ctensor", "ctensor"]
        if arity > 1 and shape[0] * arity == shape[1] and rng.random() < 0.5:
            kinds = ["mixing"]
        same = [t for t in self.tensors if t.shape == shape]
        if same and o.get("share", False) and rng.random() < 0.15 and kinds != ["mixing"] and not normalized:
            self.desc["wkinds"].append("ref")
            return P.Parameter.from_input(P.ReferenceParameter(rng.choice(same)))
        k = rng.choice(kinds)
        self.desc["wkinds"].append(k)
        if k == "mixing":
            ms = (shape[0], arity)
            t = tensor(dy_array(rng, ms, -4, 4))
            inner = P.Parameter.from_unary(P.SoftmaxParameter(ms, axis=1), t) if (o.get("monotone") or normalized or rng.random() < 0.5) else P.Parameter.from_input(t)
            return P.Parameter.from_unary(P.MixingWeightParameter(ms), inner)
        if k == "tensor":
            t = tensor(dy_array(rng, shape))
            self.tensors.append(t)
            return P.Parameter.from_input(t)
        if k == "ctensor":
            t = tensor(dy_array(rng, shape, cplx=True))
            return P.Parameter.from_input(t)
        if k == "pos":
            t = tensor(dy_array(rng, shape, 1 if o.get("strict") else 0, 8))
            self.tensors.append(t)
            return P.Parameter.from_input(t)
        if k == "const":
            if o.get("int_consts") and rng.random() < 0.4:
                # an integer-typed constant (Python int): another data type than the float tensors of the same shape next to it
                return P.Parameter.from_input(P.ConstantParameter(*shape, value=rng.choice([1, 2, 3])))
            return P.Parameter.from_input(P.ConstantParameter(*shape, value=dy_array(rng, shape)))
        if k == "clamp":
            # two-sided (or one-sided) clamp with values on both sides of the bounds
            t = tensor(dy_array(rng, shape, 0, 10, 4))
            lo, hi = rng.choice([(0.5, 1.75), (0.5, 1.75), (0.25, None), (None, 1.5)])
            if o.get("strict"):
                # gradients are compared: keep the (quarter-valued) entries off the kinks of the clamp
                lo, hi = rng.choice([(0.625, 1.625), (0.625, 1.625), (0.375, None), (None, 1.375)])
            if o.get("monotone") and lo is None:
                lo = 0.375 if o.get("strict") else 0.25
            return P.Parameter.from_unary(P.ClampParameter(shape, vmin=lo, vmax=hi), t)
        if k == "sigmoid":
            t = tensor(dy_array(rng, shape, -6, 6, 4))
            return P.Parameter.from_unary(P.ScaledSigmoidParameter(shape, vmin=0.25, vmax=rng.choice([1.0, 2.0])), t) if rng.random() < 0.5 else \
                P.Parameter.from_unary(P.SigmoidParameter(shape), t)
        t = tensor(dy_array(rng, shape, -4, 4))
        self.tensors.append(t)
        if k == "softmax":
            return P.Parameter.from_unary(P.SoftmaxParameter(shape, axis=1), t)
        if k == "exp":
            return P.Parameter.from_unary(P.ExpParameter(shape), t)
        if k == "sq":
            return P.Parameter.from_unary(P.SquareParameter(shape), t)
        raise AssertionError(k)

    # ---- input layers ----
    def input_layer(self, v, K, kind):
        rng, o = self.rng, self.o
        sc = Scope([v])
        # one kind / domain per variable, fixed at first use
        if v in self.varkind:
            kind, dpar = self.varkind[v]
        else:
            dpar = rng.choice([1, 2, 3]) if kind == "bin" else rng.choice([2, 2, 3])
            self.varkind[v] = (kind, dpar)
        self.desc["kinds"].append(kind)
        if kind == "emb":
            N = dpar
            self.doms[v] = ("disc", N)
            if o.get("monotone"):
                w = P.Parameter.from_input(tensor(dy_array(rng, (K, N), 1 if o.get("strict") else 0, 8)))
            elif o.get("cplx"):
                w = P.Parameter.from_input(tensor(dy_array(rng, (K, N), cplx=True)))
            else:
                w = P.Parameter.from_input(tensor(dy_array(rng, (K, N))))
            return L.EmbeddingLayer(sc, K, num_states=N, weight=w)
        if kind in ("cat_probs", "cat_logits", "cat_softmax", "cat_unnorm", "cat_softmax0"):
            N = dpar
            self.doms[v] = ("disc", N)
            if kind == "cat_probs":
                return L.CategoricalLayer(sc, K, num_categories=N, probs=P.Parameter.from_input(tensor(prob_rows(rng, K, N))))
            if kind == "cat_unnorm":
                return L.CategoricalLayer(sc, K, num_categories=N, probs=P.Parameter.from_input(tensor(dy_array(rng, (K, N), 1, 8))))
            if kind == "cat_softmax0":   # probabilities normalised over the units axis (not a normalised layer)
                t = tensor(dy_array(rng, (K, N), -4, 4))
                return L.CategoricalLayer(sc, K, num_categories=N, probs=P.Parameter.from_unary(P.SoftmaxParameter((K, N), axis=rng.choice([0, -2])), t))
            if kind == "cat_softmax":
                t = tensor(dy_array(rng, (K, N), -4, 4))
                return L.CategoricalLayer(sc, K, num_categories=N, probs=P.Parameter.from_unary(P.SoftmaxParameter((K, N), axis=1), t))
            return L.CategoricalLayer(sc, K, num_categories=N, logits=P.Parameter.from_input(tensor(dy_array(rng, (K, N), -4, 4))))
        if kind == "bin":
            n = dpar
            self.doms[v] = ("disc", n + 1)
            if rng.random() < 0.5:
                return L.BinomialLayer(sc, K, total_count=n, probs=P.Parameter.from_input(tensor(dy_array(rng, (K,), 1, 7, 8))))
            return L.BinomialLayer(sc, K, total_count=n, logits=P.Parameter.from_input(tensor(dy_array(rng, (K,), -4, 4))))
        if kind == "gau":
            self.doms[v] = ("real",)
            mean = P.Parameter.from_input(tensor(dy_array(rng, (K,), -4, 4)))
            if rng.random() < 0.5:
                sd = P.Parameter.from_input(tensor(dy_array(rng, (K,), 2, 8)))
            else:
                sd = P.Parameter.from_unary(P.ScaledSigmoidParameter((K,), vmin=0.25, vmax=2.0), tensor(dy_array(rng, (K,), -4, 4)))
            lp = None
            if rng.random() < o.get("gau_lp_prob", 0.3):
                lp = P.Parameter.from_input(tensor(dy_array(rng, (K,), -4, 4)))
            return L.GaussianLayer(sc, K, mean=mean, stddev=sd, log_partition=lp)
        if kind == "poly":
            self.doms[v] = ("real",)
            deg = rng.choice([0, 1, 2, 3])
            if o.get("cplx"):
                c = tensor(dy_array(rng, (K, deg + 1), cplx=True))
            elif o.get("monotone"):
                c = tensor(dy_array(rng, (K, deg + 1), 1 if o.get("strict") else 0, 8))
            else:
                c = tensor(dy_array(rng, (K, deg + 1)))
            return L.PolynomialLayer(sc, K, degree=deg, coeff=P.Parameter.from_input(c))
        raise AssertionError(kind)

    def add(self, layer, ins=()):
        self.layers.append(layer)
        if ins:
            self.in_layers[layer] = list(ins)
        return layer

    def partition(self, vs):
        rng = self.rng
        key = tuple(vs)
        if self.o.get("sd", True) and key in self.partitions:
            parts = list(self.partitions[key])
            rng.shuffle(parts)  # same split, arbitrary input order
            return parts
        vs = list(vs)
        rng.shuffle(vs)
        nparts = 2 if len(vs) < 3 or rng.random() < 0.6 else 3
        cuts = sorted(rng.sample(range(1, len(vs)), nparts - 1))
        parts = [sorted(vs[a:b]) for a, b in zip([0] + cuts, cuts + [len(vs)])]
        rng.shuffle(parts)  # product-input order is arbitrary
        if self.o.get("sd", True):
            self.partitions[key] = parts
        return parts

    def region(self, vs, K, top=False):
        """returns a layer with scope vs and K output units"""
        rng, o = self.rng, self.o
        key = (tuple(vs), K)
        if not top and key in self.memo and rng.random() < 0.5:
            return self.memo[key]
        if len(vs) == 1:
            kind = rng.choice(o["kinds"])
            Ki = K if rng.random() < 0.5 else rng.choice([1, 2, 3])
            il = self.add(self.input_layer(vs[0], Ki, kind))
            out = il
            if Ki != K or rng.random() < 0.3 or o.get("regular"):
                out = self.sum([il], Ki, K)
            self.memo[key] = out
            return out
        prod = o.get("prod", "any")
        n_alt = 1 if rng.random() < 0.6 else rng.randint(2, o.get("max_alt", 3))
        ptype = rng.choice(["had", "kron"]) if prod == "any" else prod
        if o.get("regular"):
            ptype = self.ptypes.setdefault(tuple(vs), ptype)
        parts0 = self.partition(vs)
        arity = len(parts0)
        if ptype == "kron":
            Kc = rng.choice([1, 2, 2, 3] if o.get("kron_units3") else [1, 2]) if arity == 2 else rng.choice([1, 1, 2])
            pu = Kc**arity
        else:
            Kc = K if (n_alt == 1 and rng.random() < 0.4) else rng.choice([1, 2, 3])
            pu = Kc
        alts = []
        for a in range(n_alt):
            parts = parts0 if (o.get("sd", True) or a == 0) else self.partition(vs)
            if len(parts) != arity:
                parts = parts0
            children = [self.region(p, Kc) for p in parts]
            if ptype == "kron":
                pl = self.add(L.KroneckerLayer(Kc, arity=arity), children)
            else:
                pl = self.add(L.HadamardLayer(Kc, arity=arity), children)
            self.desc["prods"] += 1
            alts.append(pl)
        if n_alt == 1 and pu == K and rng.random() < 0.35 and not top and not o.get("regular"):
            out = alts[0]
        else:
            out = self.sum(alts, pu, K)
        if not o.get("regular") and not o.get("normalized") and rng.random() < 0.15:
            out = self.sum([out], K, K)      # two consecutive dense layers (collapsed by the optimiser)
        self.memo[key] = out
        return out

    def sum(self, ins, Ki, Ko):
        ar = len(ins)
        self.desc["sums"] += 1
        self.desc["arity"].append(ar)
        w = self.weight_param((Ko, Ki * ar), arity=ar, normalized=self.o.get("normalized", False))
        return self.add(L.SumLayer(Ki, Ko, arity=ar, weight=w), ins)

    def circuit(self):
        rng, o = self.rng, self.o
        n = o.get("nvars", rng.randint(1, 4))
        vs = sorted(VAR_SETS[o.get("varset", "dense")](n))
        K = o.get("K", rng.choice([1, 2, 3]))
        root = self.region(vs, K, top=True)
        outs = [root]
        nout = o.get("nout", 1)
        if nout > 1:
            cands = [l for l in self.layers if l.num_output_units == K and l is not root]
            if o.get("regular"):
                c0 = Circuit(self.layers, self.in_layers, [root])
                cands = [l for l in cands if isinstance(l, L.SumLayer) and c0.layer_scope(l) == c0.layer_scope(root)]
            rng.shuffle(cands)
            for l in cands[: nout - 1]:
                outs.append(l)
            if o.get("force_nout") and isinstance(root, L.SumLayer):
                # not enough candidates: further sum layers over the root's inputs (same scope, fresh weights)
                while len(outs) < nout:
                    outs.append(self.sum(list(self.in_layers[root]), root.num_input_units, K))
            rng.shuffle(outs)
        if o.get("heads") and not o.get("regular") and not o.get("normalized"):
            # multi-head: further arity-1 sum layers (extra outputs) reading a product layer that already feeds a sum layer
            prods = [l for l in self.layers if isinstance(l, (L.HadamardLayer, L.KroneckerLayer))
                     and any(isinstance(s_, L.SumLayer) and self.in_layers.get(s_) == [l] for s_ in self.layers)]
            rng.shuffle(prods)
            for pl in prods[: rng.choice([1, 1, 2])]:
                for _ in range(rng.choice([1, 1, 2])):
                    outs.append(self.sum([pl], pl.num_output_units, K))
            self.desc["heads"] = len(outs)
        # keep only layers reachable from outputs
        c = Circuit(self.layers, self.in_layers, outs)
        sub = c.subgraph(*outs)
        self.desc.update({"vars": vs, "K": K, "nout": len(outs), "nlayers": len(sub.layers)})
        return sub


def random_opts(rng, **fixed):
    o = {
        "nvars": rng.choice([1, 2, 2, 3, 3, 4]),
        "varset": rng.choice(["dense", "dense", "sparse", "big", "shift"]),
        "prod": rng.choice(["had", "had", "kron", "any"]),
        "sd": rng.random() < 0.7,
        "nout": rng.choice([1, 1, 1, 2, 3]),
        "max_alt": 3,
    }
    o.update(fixed)
    return o


def gen_circuit(rng, **opts):
    g = Gen(rng, **opts)
    c = g.circuit()
    return c, g


def sample_inputs(rng, doms, scope, n, exhaustive_limit=16, nonneg=False):
    """assignments (dict var->value) for the variables in scope"""
    vs = sorted(scope)
    disc = all(doms[v][0] == "disc" for v in vs)
    if disc:
        sizes = [doms[v][1] for v in vs]
        total = int(np.prod(sizes)) if vs else 1
        if total <= exhaustive_limit:
            return [dict(zip(vs, c)) for c in itertools.product(*[range(s) for s in sizes])]
    ys = []
    for _ in range(n):
        y = {}
        for v in vs:
            if doms[v][0] == "disc":
                y[v] = rng.randrange(doms[v][1])
            else:
                y[v] = dy(rng, 0 if nonneg else -6, 6, 4)
        ys.append(y)
    return ys
