"""Shared infrastructure of the verification harness: environment, Coq runner, evidence,
known findings, violation reporting."""
import hashlib
import json
import os
import random
import re
import subprocess
import sys
import time
from concurrent.futures import ThreadPoolExecutor

VERIF = os.path.dirname(os.path.dirname(os.path.abspath(__file__)))
REPO = os.environ.get("CIRKIT_REPO", "/repo")
COQ = os.path.join(VERIF, "coq")
WORK = os.path.join(VERIF, ".work")
GUARD = "CIRKIT_VERIF"

if REPO not in sys.path:
    sys.path.insert(0, REPO)
os.environ.setdefault(GUARD, "1")


def seed_all(seed):
    import numpy as np
    import torch

    random.seed(seed)
    np.random.seed(seed % (2**32))
    torch.manual_seed(seed)
    torch.set_default_dtype(torch.float64)


# --------------------------------------------------------------------------------------------
# Coq
# --------------------------------------------------------------------------------------------
ALLOWED_AXIOMS = {
    # standard-library axioms only (named in DESIGN.md §7); nothing is declared by this development
    "ClassicalDedekindReals.sig_forall_dec",
    "ClassicalDedekindReals.sig_not_dec",
    "FunctionalExtensionality.functional_extensionality_dep",
    "Classical_Prop.classic",
}


def sh(cmd, timeout=1800, cwd=None):
    p = subprocess.run(cmd, shell=True, cwd=cwd, capture_output=True, text=True, timeout=timeout)
    return p.returncode, p.stdout + p.stderr


def coq_build():
    """(Re)build the Coq development (incremental). Returns (ok, log)."""
    os.makedirs(WORK, exist_ok=True)
    lock = os.path.join(WORK, "make.lock")
    rc, out = sh(
        f"flock {lock} sh -c 'test -f Makefile || coq_makefile -f _CoqProject -o Makefile >/dev/null; "
        f"timeout 1500 make -j16 2>&1 | tail -40'",
        cwd=COQ,
        timeout=1600,
    )
    ok = rc == 0 and "Error" not in out
    return ok, out


def check_props(pid):
    """Compile coq/Props/<pid>.v on its own, return dict(ok, theorems, axioms, log)."""
    path = os.path.join(COQ, "Props", f"{pid}.v")
    if not os.path.exists(path):
        return {"ok": False, "theorems": [], "axioms": [], "log": f"missing {path}"}
    os.makedirs(os.path.join(WORK, pid), exist_ok=True)
    out_vo = os.path.join(WORK, pid, f"{pid}.vo")
    rc, out = sh(f"timeout 600 coqc -Q {COQ} CK -o {out_vo} {path}", timeout=700)
    src = open(path).read()
    theorems = re.findall(r"^(?:Theorem|Corollary)\s+(\w+)", src, re.M)
    n_print = len(re.findall(r"^Print Assumptions", src, re.M))
    closed = out.count("Closed under the global context")
    axioms = []
    in_blk = False
    for line in out.splitlines():
        if line.strip() == "Axioms:":
            in_blk = True
            continue
        if not in_blk:
            continue
        if line[:1].isspace() and line.strip():
            continue                      # continuation of the previous axiom's type
        m = re.match(r"^([A-Za-z_][\w.']*)\s*(:.*)?$", line)
        if m and line.strip() != "Closed under the global context":
            axioms.append(m.group(1))     # an axiom name starts at column 0, its type may follow on indented lines
        else:
            in_blk = False
    bad = [a for a in axioms if a not in ALLOWED_AXIOMS]
    forbidden = re.findall(r"\b(Admitted|admit|Axiom|Parameter|Conjecture|Unset Guard|bypass_check)\b", src)
    ok = rc == 0 and not bad and not forbidden and n_print >= len(theorems) and (closed + (1 if axioms else 0)) >= 1
    return {
        "ok": ok,
        "theorems": theorems,
        "axioms": sorted(set(axioms)),
        "bad_axioms": bad,
        "log": out[-3000:],
        "rc": rc,
    }


def strip_coq_comments(src):
    """remove (nested) Coq comments and string literals"""
    out, depth, k, n = [], 0, 0, len(src)
    in_str = False
    while k < n:
        if depth == 0 and src[k] == '"':
            in_str = not in_str
            k += 1
            continue
        if in_str:
            k += 1
            continue
        if src.startswith("(*", k):
            depth += 1
            k += 2
            continue
        if depth and src.startswith("*)", k):
            depth -= 1
            k += 2
            continue
        if depth == 0:
            out.append(src[k])
        elif src[k] == "\n":
            out.append("\n")
        k += 1
    return "".join(out)


FORBIDDEN = re.compile(r"\b(Admitted|admit|Axiom|Axioms|Parameter|Parameters|Conjecture|Conjectures|Admit\s+Obligations)\b"
                       r"|Unset\s+Guard|Unset\s+Positivity|Unset\s+Universe|bypass_check|type-in-type|impredicative-set")


def grep_gate():
    """No Admitted / Axiom / Parameter / Conjecture / disabled kernel check anywhere in the development (comments and
    strings are stripped first), and no Variable / Hypothesis / Context outside a section (those declare axioms too)."""
    bad = []
    for root, _dirs, files in os.walk(COQ):
        for fn in sorted(files):
            if not fn.endswith(".v") or fn.startswith("cases"):
                continue
            path = os.path.join(root, fn)
            code = strip_coq_comments(open(path).read())
            sections = []
            for ln, line in enumerate(code.splitlines(), 1):
                m = FORBIDDEN.search(line)
                if m:
                    bad.append(f"{os.path.relpath(path, COQ)}:{ln}: {line.strip()[:160]}")
                ms = re.match(r"\s*Section\s+(\w+)\s*\.", line)
                if ms:
                    sections.append(ms.group(1))
                me = re.match(r"\s*End\s+(\w+)\s*\.", line)
                if me and sections and sections[-1] == me.group(1):
                    sections.pop()
                if not sections and re.match(r"\s*(Local\s+|Global\s+)?(Variable|Variables|Hypothesis|Hypotheses|Context)\b", line):
                    bad.append(f"{os.path.relpath(path, COQ)}:{ln}: outside a section: {line.strip()[:160]}")
    for extra in ("_CoqProject",):
        txt = open(os.path.join(COQ, extra)).read()
        if re.search(r"type-in-type|impredicative-set|-noinit", txt):
            bad.append(f"{extra}: forbidden flag")
    return bad


def _parse_lists(out):
    """Parse the value printed by `Eval vm_compute in (x : list (list nat))`."""
    m = re.search(r"=\s*(\[.*\])\s*:\s*list", out, re.S)
    if not m:
        return None
    txt = m.group(1).replace(";", ",").replace("\n", " ")
    txt = re.sub(r"%\w+", "", txt)
    try:
        return json.loads(txt)
    except Exception:
        return None


TIMEOUT = "timeout"


def run_cases(pid, case_terms, header="", shard=40, timeout=900):
    """case_terms: list of Coq terms of type `list nat`. Returns list of result lists (or None on failure)
    in the same order. Each shard is one .v file evaluated by one coqc process."""
    wdir = os.path.join(WORK, pid)
    os.makedirs(wdir, exist_ok=True)
    for f in os.listdir(wdir):
        if f.startswith("cases_"):
            os.remove(os.path.join(wdir, f))
    shards = [case_terms[i : i + shard] for i in range(0, len(case_terms), shard)]
    files = []
    for k, sh_terms in enumerate(shards):
        fn = os.path.join(wdir, f"cases_{k}.v")
        with open(fn, "w") as f:
            f.write("From Coq Require Import ZArith QArith Qcanon List.\nImport ListNotations.\n")
            f.write("From CK Require Import Base Scalar Tensor Pexpr Exec Ops Checks RG Init Ctx Gen Fold FoldCheck PShapes.\n")
            f.write(header + "\n")
            for j, t in enumerate(sh_terms):
                f.write(f"Definition case_{j} : list nat := {t}.\n")
            f.write("Eval vm_compute in ([" + "; ".join(f"case_{j}" for j in range(len(sh_terms))) + "] : list (list nat)).\n")
        files.append(fn)

    def run(fn):
        t0 = time.time()
        try:
            rc, out = sh(f"ulimit -s unlimited 2>/dev/null; timeout {timeout} coqc -Q {COQ} CK {fn}", timeout=timeout + 30)
        except subprocess.TimeoutExpired:
            return None, f"{fn} rc=124 (timeout)"
        if os.environ.get("VERIF_DEBUG"):
            print(f"  coqc {os.path.basename(fn)} rc={rc} {time.time() - t0:.1f}s", flush=True)
        return (_parse_lists(out) if rc == 0 else None), f"{fn} rc={rc} " + out[-2000:]

    def write_one(k, j, t):
        fn = os.path.join(wdir, f"cases_{k}_{j}.v")
        with open(fn, "w") as f:
            f.write("From Coq Require Import ZArith QArith Qcanon List.\nImport ListNotations.\n")
            f.write("From CK Require Import Base Scalar Tensor Pexpr Exec Ops Checks RG Init Ctx Gen Fold FoldCheck PShapes.\n")
            f.write(header + "\n")
            f.write(f"Definition case_0 : list nat := {t}.\n")
            f.write("Eval vm_compute in ([case_0] : list (list nat)).\n")
        return fn

    results = []
    logs = []
    with ThreadPoolExecutor(max_workers=14) as ex:
        first = list(ex.map(run, files))
        for k, ((res, log), terms) in enumerate(zip(first, shards)):
            if res is not None and len(res) == len(terms):
                results.extend(res)
                continue
            if "rc=124" in log and len(terms) > 1:
                # the shard ran out of time (machine load, or one very large case): evaluate its cases one by one;
                # a case that still does not finish is reported as TIMEOUT (an unevaluated sample, not a disagreement)
                singles = [write_one(k, j, t) for j, t in enumerate(terms)]
                for (r1, l1) in ex.map(run, singles):
                    if r1 is not None and len(r1) == 1:
                        results.append(r1[0])
                    elif "rc=124" in l1:
                        results.append(TIMEOUT)
                        logs.append(l1)
                    else:
                        results.append(None)
                        logs.append(l1)
            elif "rc=124" in log:
                results.append(TIMEOUT)
                logs.append(log)
            else:
                results.extend([None] * len(terms))
                logs.append(log)
    return results, logs


# --------------------------------------------------------------------------------------------
# findings, violations, evidence
# --------------------------------------------------------------------------------------------
def load_known():
    p = os.path.join(VERIF, "known_findings.json")
    if not os.path.exists(p):
        return []
    return json.load(open(p)).get("findings", [])


class Report:
    def __init__(self, pid, tier, seed):
        self.pid, self.tier, self.seed = pid, tier, seed
        self.t0 = time.time()
        self.violations = []  # (signature, replay dict)
        self.known_hits = {}
        self.evaluations = 0
        self.nontrivial = set()
        self.samples = []
        self.dist = {}
        self.obligations = 0
        self.discharged = 0
        self.notes = []
        self.known = [k for k in load_known() if k.get("property") == pid and k.get("status") == "known"]

    def count(self, key, n=1):
        self.dist[key] = self.dist.get(key, 0) + n

    def case(self, desc, nontrivial=True):
        self.evaluations += 1
        if nontrivial:
            self.nontrivial.add(hashlib.sha1(json.dumps(desc, sort_keys=True, default=str).encode()).hexdigest())
        if len(self.samples) < 3:
            self.samples.append(desc)

    def violation(self, signature, what, replay, found_input=True):
        """signature: stable string naming the failing call site / input class."""
        for k in self.known:
            if k["signature"] == signature or re.fullmatch(k["signature"], signature):
                self.known_hits.setdefault(k["signature"], k["what"])
                return
        self.violations.append((signature, what, replay, found_input))

    def finish(self, props_info, extra_cov=None, level="proof"):
        rdir = os.path.join(VERIF, "replays", self.pid)
        lines = []
        for sig, what in sorted(self.known_hits.items()):
            lines.append(f"KNOWN-FINDING: property={self.pid} {what} [{sig}]")
        seen = set()
        nviol = 0
        for sig, what, replay, found in self.violations:
            if sig in seen:
                continue
            seen.add(sig)
            nviol += 1
            os.makedirs(rdir, exist_ok=True)
            h = hashlib.sha1((sig + json.dumps(replay, sort_keys=True, default=str)).encode()).hexdigest()[:12]
            path = os.path.join(rdir, f"{h}.json")
            with open(path, "w") as f:
                json.dump(
                    {"property": self.pid, "signature": sig, "what": what,
                     "kind": "failing-input" if found else "broken-obligation", "replay": replay},
                    f, indent=1, default=str)
            lines.append(f"VIOLATION property={self.pid} replay={path}" + ("" if found else " no-failing-input-found"))
        cov = {
            "obligations": self.obligations,
            "discharged": self.discharged,
            "checker_cmd": f"make -C coq && coqc -Q coq CK coq/Props/{self.pid}.v ; coqc -Q coq CK .work/{self.pid}/cases_*.v",
            "trusted_base": [
                "Coq 8.16.1 kernel and bytecode VM (vm_compute); no native_compute",
                "axioms reported by Print Assumptions: " + (", ".join(props_info.get("axioms", [])) or "none (closed under the global context)"),
                "hand-written exporter harness/export.py (Python object -> Coq term) and generators",
                "fixed-point exp/log/sqrt approximations in coq/Scalar.v (used only to run the model)",
                "PyTorch primitives; float64 results compared as exact rationals under rtol 1e-7 / scaled atol 1e-9",
            ],
            "theorems": props_info.get("theorems", []),
            "evaluations": self.evaluations,
            "distinct_nontrivial": len(self.nontrivial),
            "rule": "cases are drawn from the seeded generators of harness/gen.py; distinct = distinct sha1 of the case "
                    "description; non-trivial = as flagged by the property module (at least one sum and one product layer, "
                    "or >= 2 operations for histories)",
            "samples": self.samples or ["(no sampled case: obligations only)"],
            "distribution": self.dist,
            "known_findings_hit": sorted(self.known_hits),
            "notes": self.notes,
        }
        if extra_cov:
            cov.update(extra_cov)
        ev = {
            "property_id": self.pid,
            "tier": self.tier,
            "seed": self.seed,
            "level": level,
            "coverage": cov,
            "assumptions": cov["trusted_base"],
            "wall_s": round(time.time() - self.t0, 2),
            "violations": nviol,
        }
        os.makedirs(os.path.join(VERIF, "evidence"), exist_ok=True)
        with open(os.path.join(VERIF, "evidence", f"{self.pid}.json"), "w") as f:
            json.dump(ev, f, indent=1, default=str)
        for l in lines:
            print(l)
        print(f"[{self.pid}] tier={self.tier} seed={self.seed} obligations={self.obligations} discharged={self.discharged} "
              f"cases={self.evaluations} distinct={len(self.nontrivial)} violations={nviol} known={len(self.known_hits)} "
              f"wall={ev['wall_s']}s")
        return 1 if nviol else 0
