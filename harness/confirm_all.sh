#!/bin/sh
cd /verif
for p in "$@"; do
  echo "== $p"
  PYTHONHASHSEED=0 /venv/bin/python harness/confirmseeded.py seeded/$p > ".work/confirm_$p.json" 2>&1
  cat .work/confirm_$p.json | tr '\n' ' '
  echo
done
