From Coq Require Import List.
Theorem C14_placeholder : True. Proof. exact I. Qed.
Print Assumptions C14_placeholder.
