(* Tensor.v — nested-list tensors over a scalar type and the axis operations used by
   cirkit's parameter nodes.  Definitions only (executable); lemmas live in TensorLemmas.v. *)
From Coq Require Import List Bool Arith Lia.
Import ListNotations.

Section Tensor.
Variable A : Type.
Variables (a0 a1 : A) (aadd amul : A -> A -> A).

Inductive tensor := S (c : A) | T (l : list tensor).

Fixpoint tshape_of (t : tensor) : list nat :=
  match t with S _ => [] | T l => length l :: match l with [] => [] | x :: _ => tshape_of x end end.

Definition list_eqb (a b : list nat) : bool :=
  (length a =? length b) && forallb (fun p => fst p =? snd p) (combine a b).

(* regular: every sub-tensor at the same level has the same shape *)
Fixpoint tregular (t : tensor) : bool :=
  match t with
  | S _ => true
  | T l => forallb tregular l &&
           match l with [] => true | x :: r => forallb (fun y => list_eqb (tshape_of y) (tshape_of x)) r end
  end.
Definition tshape (t : tensor) : option (list nat) := if tregular t then Some (tshape_of t) else None.

Fixpoint tmap (f : A -> A) (t : tensor) : tensor :=
  match t with S c => S (f c) | T l => T (map (tmap f) l) end.

Definition omap {X Y} (f : X -> option Y) : list X -> option (list Y) :=
  fix go (l : list X) : option (list Y) :=
  match l with
  | [] => Some []
  | x :: r => match f x, go r with Some y, Some ys => Some (y :: ys) | _, _ => None end
  end.
Fixpoint tmapo (f : A -> option A) (t : tensor) : option tensor :=
  match t with
  | S c => match f c with Some d => Some (S d) | None => None end
  | T l => match omap (tmapo f) l with Some l' => Some (T l') | None => None end
  end.

Definition map2 {X Y Z} (f : X -> Y -> Z) : list X -> list Y -> list Z :=
  fix go (l : list X) (m : list Y) : list Z :=
  match l, m with a :: l, b :: m => f a b :: go l m | _, _ => [] end.

Fixpoint tzip (f : A -> A -> A) (a b : tensor) : tensor :=
  match a, b with
  | S x, S y => S (f x y)
  | T la, T lb => T ((fix go (la lb : list tensor) : list tensor :=
                        match la, lb with x :: la', y :: lb' => tzip f x y :: go la' lb' | _, _ => [] end) la lb)
  | _, _ => a
  end.

(* combine a non-empty list of equally shaped tensors entry-wise *)
Definition tfold (f : A -> A -> A) (d : tensor) (l : list tensor) : tensor :=
  match l with [] => d | x :: r => fold_left (tzip f) r x end.

(* reduce along [axis] with the binary operation f (neutral element e for an empty axis) *)
Fixpoint treduce (f : A -> A -> A) (e : A) (axis : nat) (t : tensor) : tensor :=
  match t with
  | S c => S c
  | T l => match axis with
           | O => tfold f (S e) l
           | Datatypes.S k => T (map (treduce f e k) l)
           end
  end.

(* select entries [idxs] along [axis] *)
Fixpoint tindex (axis : nat) (idxs : list nat) (t : tensor) : tensor :=
  match t with
  | S c => S c
  | T l => match axis with
           | O => T (map (fun i => nth i l (S a0)) idxs)
           | Datatypes.S k => T (map (tindex k idxs) l)
           end
  end.

(* outer operation along [axis]: entries (i, j) at position i * n2 + j *)
Fixpoint touter (f : A -> A -> A) (axis : nat) (a b : tensor) : tensor :=
  match a, b with
  | T la, T lb =>
      match axis with
      | O => T (flat_map (fun x => map (fun y => tzip f x y) lb) la)
      | Datatypes.S k => T ((fix go (la lb : list tensor) : list tensor :=
                     match la, lb with x :: la', y :: lb' => touter f k x y :: go la' lb' | _, _ => [] end) la lb)
      end
  | _, _ => a
  end.

(* Kronecker product of two tensors of equal rank *)
Fixpoint tkron (a b : tensor) : tensor :=
  match a with
  | S x => tmap (amul x) b
  | T la => match b with
            | S _ => a
            | T lb => T (flat_map (fun x => map (fun y => tkron x y) lb) la)
            end
  end.

(* divide every fibre along [axis] by a tensor obtained from the reduction along that axis *)
Fixpoint tbroadcast (f : A -> A -> A) (axis : nat) (t r : tensor) : tensor :=
  match t with
  | S c => S c
  | T l => match axis with
           | O => T (map (fun x => tzip f x r) l)
           | Datatypes.S k => match r with
                    | T lr => T (map2 (tbroadcast f k) l lr)
                    | S _ => t
                    end
           end
  end.

(* ---- vectors and matrices ---- *)
Definition vec := list A.
Definition tvec (t : tensor) : vec :=
  match t with T l => map (fun x => match x with S c => c | T _ => a0 end) l | S c => [c] end.
Definition tmat (t : tensor) : list vec := match t with T l => map tvec l | S c => [[c]] end.
Definition of_vec (v : vec) : tensor := T (map S v).
Definition of_mat (m : list vec) : tensor := T (map of_vec m).

(* mixing weights: (K, H) -> (K, H*K), W[k, h*K + j] = v[k,h] * [j = k] *)
Definition mixing_row (K k : nat) (row : vec) : vec :=
  flat_map (fun v => map (fun j => if Nat.eqb j k then v else a0) (seq 0 K)) row.
Definition mixing (m : list vec) : list vec :=
  let K := length m in map (fun p => mixing_row K (fst p) (snd p)) (combine (seq 0 K) m).

End Tensor.

Arguments S {A}. Arguments T {A}.
Arguments tshape_of {A}. Arguments tregular {A}. Arguments tshape {A}.
Arguments tmap {A}. Arguments tmapo {A}. Arguments tzip {A}. Arguments tfold {A}.
Arguments treduce {A}. Arguments tindex {A}. Arguments touter {A}. Arguments tkron {A}.
Arguments tbroadcast {A}. Arguments tvec {A}. Arguments tmat {A}. Arguments of_vec {A}. Arguments of_mat {A}.
Arguments mixing {A}. Arguments mixing_row {A}.
