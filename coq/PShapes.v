(* PShapes.v — symbolic shape inference [pshape] for parameter expressions and the proof
   that evaluation [peval] produces tensors of exactly the inferred shape. *)
From Coq Require Import ZArith QArith Qcanon List Bool Arith Lia.
Import ListNotations.
From CK Require Import Base Scalar Tensor Pexpr.
Close Scope Qc_scope. Close Scope Q_scope. Close Scope Z_scope. Open Scope nat_scope.

(* NB: after importing Tensor, [S] is the scalar-tensor constructor; successor is [Datatypes.S]. *)

(* ------------------------------------------------------------------ *)
(* 0. Induction principle for the nested inductive [tensor]             *)
Section TensorInd.
Variable A : Type.
Variable P : tensor A -> Prop.
Hypothesis HS : forall c, P (S c).
Hypothesis HT : forall l, Forall P l -> P (T l).
Fixpoint tensor_ind' (t : tensor A) : P t :=
  match t with
  | S c => HS c
  | T l => HT l ((fix go (l : list (tensor A)) : Forall P l :=
                    match l with
                    | [] => Forall_nil P
                    | x :: r => Forall_cons x (tensor_ind' x) (go r)
                    end) l)
  end.
End TensorInd.

(* ------------------------------------------------------------------ *)
(* 1. Generic list facts                                                *)
Section ListFacts.
Context {X Y Z : Type}.

Lemma omap_spec (g : X -> option Y) (P : X -> Prop) (Q : Y -> Prop) :
  (forall x y, P x -> g x = Some y -> Q y) ->
  forall l l', Forall P l -> omap g l = Some l' -> length l' = length l /\ Forall Q l'.
Proof.
  intros Hg. induction l as [|x r IH]; intros l' HP Ho; simpl in Ho.
  - inversion Ho; subst. split; [reflexivity | constructor].
  - inversion HP as [|x0 r0 Hx Hr]; subst.
    destruct (g x) as [y|] eqn:Ey; [|discriminate].
    destruct (omap g r) as [ys|] eqn:Er; [|discriminate].
    inversion Ho; subst. destruct (IH ys Hr eq_refl) as [Hl HQ].
    split; [simpl; congruence | constructor; [eapply Hg; eauto | exact HQ]].
Qed.

Lemma omap_length (g : X -> option Y) l l' : omap g l = Some l' -> length l' = length l.
Proof.
  intros Ho. apply (omap_spec g (fun _ => True) (fun _ => True)) in Ho; [tauto | auto |].
  apply Forall_forall; auto.
Qed.

Lemma omap_total (g : X -> option Y) l :
  Forall (fun x => exists y, g x = Some y) l -> exists l', omap g l = Some l'.
Proof.
  induction 1 as [|x r [y Hy] Hr [ys IH]]; simpl.
  - eexists; reflexivity.
  - rewrite Hy, IH. eexists; reflexivity.
Qed.

Lemma map2_length (f : X -> Y -> Z) : forall la lb, length la = length lb -> length (map2 f la lb) = length la.
Proof. induction la as [|a la IH]; intros [|b lb] H; simpl in *; try discriminate; auto. Qed.

Lemma map2_Forall (f : X -> Y -> Z) (Pa : X -> Prop) (Pb : Y -> Prop) (Q : Z -> Prop) :
  (forall x y, Pa x -> Pb y -> Q (f x y)) ->
  forall la lb, Forall Pa la -> Forall Pb lb -> Forall Q (map2 f la lb).
Proof.
  intros Hf. induction la as [|a la IH]; intros lb Ha Hb; simpl; [constructor|].
  destruct lb as [|b lb]; [constructor|].
  inversion Ha; inversion Hb; subst. constructor; auto.
Qed.

Lemma pairs_length (f : X -> Y -> Z) la lb : length (pairs f la lb) = length la * length lb.
Proof.
  unfold pairs. induction la as [|a la IH]; simpl; [reflexivity|].
  rewrite app_length, map_length, IH. reflexivity.
Qed.

Lemma pairs_Forall (f : X -> Y -> Z) (Pa : X -> Prop) (Pb : Y -> Prop) (Q : Z -> Prop) :
  (forall x y, Pa x -> Pb y -> Q (f x y)) ->
  forall la lb, Forall Pa la -> Forall Pb lb -> Forall Q (pairs f la lb).
Proof.
  intros Hf la lb Ha Hb. unfold pairs. apply Forall_forall. intros z Hz.
  apply in_flat_map in Hz. destruct Hz as [x [Hx Hz]]. apply in_map_iff in Hz.
  destruct Hz as [y [Hy Hin]]. subst z. rewrite Forall_forall in Ha, Hb. auto.
Qed.

Lemma flat_map_const_length (f : X -> list Y) c l :
  (forall x, length (f x) = c) -> length (flat_map f l) = length l * c.
Proof.
  intros Hf. induction l as [|x r IH]; simpl; [reflexivity|].
  rewrite app_length, Hf, IH. reflexivity.
Qed.
End ListFacts.

Lemma list_eqb_refl a : list_eqb a a = true.
Proof.
  unfold list_eqb. rewrite Nat.eqb_refl. simpl.
  induction a as [|x a IH]; simpl; [reflexivity|]. rewrite Nat.eqb_refl. exact IH.
Qed.
Lemma list_eqb_eq a : forall b, list_eqb a b = true -> a = b.
Proof.
  unfold list_eqb. induction a as [|x a IH]; intros [|y b] H; simpl in H; try discriminate; [reflexivity|].
  apply andb_prop in H. destruct H as [Hl H]. apply andb_prop in H. destruct H as [Hxy H].
  apply Nat.eqb_eq in Hxy. simpl in Hxy. subst y. f_equal. apply IH. rewrite Hl, H. reflexivity.
Qed.

(* all dims positive *)
Definition pos (s : list nat) : bool := forallb (fun d => 0 <? d) s.
Lemma pos_cons n s : pos (n :: s) = true <-> 0 < n /\ pos s = true.
Proof. unfold pos. simpl. rewrite andb_true_iff, Nat.ltb_lt. tauto. Qed.

(* ------------------------------------------------------------------ *)
(* 2. The shape relation [hs s t] ("t has shape s") and [tshape]        *)
Section Shape.
Variable A : Type.
Notation tns := (tensor A).

Fixpoint hs (s : list nat) (t : tns) {struct s} : Prop :=
  match s, t with
  | [], S _ => True
  | n :: s', T l => length l = n /\ Forall (hs s') l
  | _, _ => False
  end.

Lemma hs_nil t : hs [] t <-> exists c, t = S c.
Proof. destruct t; simpl; split; try tauto; eauto. intros [c0 H]; discriminate. Qed.
Lemma hs_cons n s t : hs (n :: s) t <-> exists l, t = T l /\ length l = n /\ Forall (hs s) l.
Proof.
  destruct t as [c|l]; simpl; split.
  - tauto.
  - intros [l [H _]]; discriminate.
  - intros H; exists l; tauto.
  - intros [l' [H1 H2]]. inversion H1; subst. exact H2.
Qed.

(* tshape t = Some s  ->  hs s t   (always) *)
Lemma tshape_hs (t : tns) : tregular t = true -> hs (tshape_of t) t.
Proof.
  induction t as [c | l IH] using tensor_ind'; intros Hr; simpl; [exact I|].
  split; [reflexivity|]. simpl in Hr. apply andb_prop in Hr. destruct Hr as [Hreg Hsame].
  destruct l as [|x r]; [constructor|].
  rewrite forallb_forall in Hreg, Hsame. rewrite Forall_forall in IH.
  apply Forall_forall. intros y Hy.
  assert (E : tshape_of y = tshape_of x).
  { destruct Hy as [->|Hy]; [reflexivity|]. apply list_eqb_eq. apply Hsame. exact Hy. }
  rewrite <- E. apply IH; [exact Hy | apply Hreg; exact Hy].
Qed.

Lemma tshape_Some_hs (t : tns) s : tshape t = Some s -> hs s t.
Proof.
  unfold tshape. destruct (tregular t) eqn:E; [|discriminate]. intros H; inversion H; subst.
  apply tshape_hs. exact E.
Qed.

(* hs s t  ->  tshape t = Some s   (for positive dims) *)
Lemma hs_reg_shape s : forall t : tns, pos s = true -> hs s t -> tregular t = true /\ tshape_of t = s.
Proof.
  induction s as [|n s IH]; intros [c|l] Hp Hh; simpl in Hh; try (exfalso; exact Hh).
  - split; reflexivity.
  - destruct Hh as [Hl Hall]. apply pos_cons in Hp. destruct Hp as [Hn Hp].
    assert (Hall' : Forall (fun x => tregular x = true /\ tshape_of x = s) l).
    { apply Forall_forall. intros x Hx. rewrite Forall_forall in Hall. apply IH; auto. }
    destruct l as [|x r]; [simpl in Hl; lia|].
    rewrite Forall_forall in Hall'.
    destruct (Hall' x (or_introl eq_refl)) as [Hxr Hxs].
    split.
    + simpl. rewrite Hxr. simpl. apply andb_true_intro. split.
      * apply forallb_forall. intros y Hy. apply Hall'. right; exact Hy.
      * apply forallb_forall. intros y Hy. destruct (Hall' y (or_intror Hy)) as [_ Hys].
        rewrite Hys, Hxs. apply list_eqb_refl.
    + simpl tshape_of. rewrite Hxs, <- Hl. reflexivity.
Qed.

Lemma hs_tshape s (t : tns) : pos s = true -> hs s t -> tshape t = Some s.
Proof.
  intros Hp Hh. destruct (hs_reg_shape s t Hp Hh) as [Hr Hs]. unfold tshape. rewrite Hr, Hs. reflexivity.
Qed.

Lemma tshape_iff_hs s (t : tns) : pos s = true -> (tshape t = Some s <-> hs s t).
Proof. intros Hp; split; [apply tshape_Some_hs | apply hs_tshape; exact Hp]. Qed.

End Shape.
Arguments hs {A}.

(* ------------------------------------------------------------------ *)
(* 3. Shape transformers                                                *)
Definition ocons (n : nat) (o : option (list nat)) : option (list nat) :=
  match o with Some s => Some (n :: s) | None => None end.

(* remove position [ax] *)
Fixpoint reduce_shape (ax : nat) (s : list nat) {struct s} : option (list nat) :=
  match s with
  | [] => None
  | n :: s' => match ax with O => Some s' | Datatypes.S k => ocons n (reduce_shape k s') end
  end.

(* replace position [ax] by [length idxs]; all indices in range, at least one index *)
Fixpoint index_shape (ax : nat) (idxs : list nat) (s : list nat) {struct s} : option (list nat) :=
  match s with
  | [] => None
  | n :: s' => match ax with
               | O => if forallb (fun i => i <? n) idxs && (0 <? length idxs)
                      then Some (length idxs :: s') else None
               | Datatypes.S k => ocons n (index_shape k idxs s')
               end
  end.

(* equal ranks; pointwise product *)
Fixpoint kron_shape (sa sb : list nat) {struct sa} : option (list nat) :=
  match sa, sb with
  | [], [] => Some []
  | na :: sa', nb :: sb' => ocons (na * nb) (kron_shape sa' sb')
  | _, _ => None
  end.

(* equal ranks, equal dims except at [ax] where the dim is the product *)
Fixpoint outer_shape (ax : nat) (sa sb : list nat) {struct sa} : option (list nat) :=
  match sa, sb with
  | na :: sa', nb :: sb' =>
      match ax with
      | O => if list_eqb sa' sb' then Some (na * nb :: sa') else None
      | Datatypes.S k => if na =? nb then ocons na (outer_shape k sa' sb') else None
      end
  | _, _ => None
  end.

Lemma ocons_Some n o s : ocons n o = Some s -> exists s', o = Some s' /\ s = n :: s'.
Proof. destruct o as [s'|]; simpl; intros H; inversion H; eauto. Qed.

(* closed forms of the transformers *)
Lemma reduce_shape_spec : forall s ax s', reduce_shape ax s = Some s' ->
  ax < length s /\ s' = firstn ax s ++ skipn (Datatypes.S ax) s.
Proof.
  induction s as [|n s IH]; intros ax s' H; simpl in H; [discriminate|].
  destruct ax as [|k].
  - inversion H; subst. simpl. split; [lia | reflexivity].
  - apply ocons_Some in H. destruct H as [s'' [H ->]]. apply IH in H. destruct H as [Hk ->].
    simpl. split; [lia | reflexivity].
Qed.
Lemma reduce_shape_some : forall s ax, ax < length s -> exists s', reduce_shape ax s = Some s'.
Proof.
  induction s as [|n s IH]; intros ax H; simpl in H; [lia|]. destruct ax as [|k]; simpl; [eauto|].
  destruct (IH k) as [s' E]; [lia|]. rewrite E. simpl. eauto.
Qed.
Lemma index_shape_spec idxs : forall s ax s', index_shape ax idxs s = Some s' ->
  ax < length s /\ idxs <> [] /\ Forall (fun i => i < nth ax s 0) idxs /\
  s' = firstn ax s ++ length idxs :: skipn (Datatypes.S ax) s.
Proof.
  induction s as [|n s IH]; intros ax s' H; simpl in H; [discriminate|].
  destruct ax as [|k].
  - destruct (forallb (fun i => i <? n) idxs && (0 <? length idxs)) eqn:E; [|discriminate].
    inversion H; subst. apply andb_prop in E. destruct E as [E1 E2]. apply Nat.ltb_lt in E2.
    simpl. split; [lia|]. split; [intros ->; simpl in E2; lia|]. split; [|reflexivity].
    apply Forall_forall. intros i Hi. rewrite forallb_forall in E1. apply Nat.ltb_lt. auto.
  - apply ocons_Some in H. destruct H as [s'' [H ->]]. apply IH in H.
    destruct H as [Hk [Hne [Hall ->]]]. simpl. split; [lia|]. split; [exact Hne|]. split; [exact Hall | reflexivity].
Qed.
Lemma kron_shape_spec : forall sa sb s, kron_shape sa sb = Some s ->
  length sa = length sb /\ s = map (fun p => fst p * snd p) (combine sa sb).
Proof.
  induction sa as [|na sa IH]; intros [|nb sb] s H; simpl in H; try discriminate.
  - inversion H; subst. split; reflexivity.
  - apply ocons_Some in H. destruct H as [s' [H ->]]. apply IH in H. destruct H as [Hl ->].
    simpl. split; [lia | reflexivity].
Qed.
Lemma outer_shape_spec : forall sa ax sb s, outer_shape ax sa sb = Some s ->
  ax < length sa /\ length sa = length sb /\ length s = length sa /\
  forall i, i < length sa ->
    nth i s 0 = (if i =? ax then nth i sa 0 * nth i sb 0 else nth i sa 0) /\
    (i <> ax -> nth i sa 0 = nth i sb 0).
Proof.
  induction sa as [|na sa IH]; intros ax [|nb sb] s H; simpl in H; try discriminate.
  destruct ax as [|k].
  - destruct (list_eqb sa sb) eqn:E; [|discriminate]. apply list_eqb_eq in E. subst sb.
    inversion H; subst. simpl. repeat split; try lia.
    + destruct i as [|i]; simpl; reflexivity.
    + destruct i as [|i]; simpl; [lia | reflexivity].
  - destruct (na =? nb) eqn:E; [|discriminate]. apply Nat.eqb_eq in E. subst nb.
    apply ocons_Some in H. destruct H as [s' [H ->]]. apply IH in H.
    destruct H as [Hk [Hl [Hl' Hnth]]]. simpl. repeat split; try lia.
    + destruct i as [|i]; simpl; [reflexivity|]. apply Hnth. lia.
    + destruct i as [|i]; simpl; [reflexivity|]. intros Hne. apply Hnth; lia.
Qed.

(* positivity is preserved *)
Lemma reduce_shape_pos : forall s ax s', reduce_shape ax s = Some s' -> pos s = true -> pos s' = true.
Proof.
  induction s as [|n s IH]; intros ax s' H Hp; simpl in H; [discriminate|].
  apply pos_cons in Hp. destruct Hp as [Hn Hp]. destruct ax as [|k].
  - inversion H; subst; exact Hp.
  - apply ocons_Some in H. destruct H as [s'' [H ->]]. apply pos_cons. split; [exact Hn | eapply IH; eauto].
Qed.
Lemma index_shape_pos idxs : forall s ax s', index_shape ax idxs s = Some s' -> pos s = true -> pos s' = true.
Proof.
  induction s as [|n s IH]; intros ax s' H Hp; simpl in H; [discriminate|].
  apply pos_cons in Hp. destruct Hp as [Hn Hp]. destruct ax as [|k].
  - destruct (forallb (fun i => i <? n) idxs && (0 <? length idxs)) eqn:E; [|discriminate].
    inversion H; subst. apply andb_prop in E. destruct E as [_ E]. apply Nat.ltb_lt in E.
    apply pos_cons. split; assumption.
  - apply ocons_Some in H. destruct H as [s'' [H ->]]. apply pos_cons. split; [exact Hn | eapply IH; eauto].
Qed.
Lemma kron_shape_pos : forall sa sb s, kron_shape sa sb = Some s -> pos sa = true -> pos sb = true -> pos s = true.
Proof.
  induction sa as [|na sa IH]; intros [|nb sb] s H Ha Hb; simpl in H; try discriminate.
  - inversion H; reflexivity.
  - apply ocons_Some in H. destruct H as [s' [H ->]].
    apply pos_cons in Ha. apply pos_cons in Hb. destruct Ha as [Hna Ha]. destruct Hb as [Hnb Hb].
    apply pos_cons. split; [nia | eapply IH; eauto].
Qed.
Lemma outer_shape_pos : forall sa ax sb s, outer_shape ax sa sb = Some s -> pos sa = true -> pos sb = true -> pos s = true.
Proof.
  induction sa as [|na sa IH]; intros ax [|nb sb] s H Ha Hb; simpl in H; try discriminate.
  apply pos_cons in Ha. apply pos_cons in Hb. destruct Ha as [Hna Ha]. destruct Hb as [Hnb Hb].
  destruct ax as [|k].
  - destruct (list_eqb sa sb); [|discriminate]. inversion H; subst. apply pos_cons. split; [nia | exact Ha].
  - destruct (na =? nb); [|discriminate]. apply ocons_Some in H. destruct H as [s' [H ->]].
    apply pos_cons. split; [exact Hna | eapply IH; eauto].
Qed.

(* ------------------------------------------------------------------ *)
(* 4. Shape lemmas for the tensor operations (in terms of [hs])         *)
Section OpShapes.
Variable A : Type.
Variables (a0 : A) (amul : A -> A -> A).
Notation tns := (tensor A).

Lemma tmap_hs f : forall s (t : tns), hs s t -> hs s (tmap f t).
Proof.
  induction s as [|n s IH]; intros [c|l] H; simpl in H; try (exfalso; exact H); simpl; [exact I|].
  destruct H as [Hl Hall]. split; [rewrite map_length; exact Hl|].
  apply Forall_forall. intros y Hy. apply in_map_iff in Hy. destruct Hy as [x [<- Hx]].
  rewrite Forall_forall in Hall. apply IH, Hall, Hx.
Qed.

Lemma tmapo_hs f : forall s (t t' : tns), hs s t -> tmapo f t = Some t' -> hs s t'.
Proof.
  induction s as [|n s IH]; intros [c|l] t' H Hm; simpl in H; try (exfalso; exact H); simpl in Hm.
  - destruct (f c); inversion Hm; subst. exact I.
  - destruct H as [Hl Hall]. destruct (omap (tmapo f) l) as [l'|] eqn:E; [|discriminate].
    inversion Hm; subst. simpl.
    destruct (omap_spec (tmapo f) (hs s) (hs s) (fun x y Hx Hy => IH x y Hx Hy) l l' Hall E) as [H1 H2].
    split; [congruence | exact H2].
Qed.

Lemma tzip_T f (la lb : list tns) : tzip f (T la) (T lb) = T (map2 (tzip f) la lb).
Proof. reflexivity. Qed.
Lemma touter_T_S f k (la lb : list tns) :
  touter f (Datatypes.S k) (T la) (T lb) = T (map2 (touter f k) la lb).
Proof. reflexivity. Qed.

Lemma tzip_hs f : forall s (a b : tns), hs s a -> hs s b -> hs s (tzip f a b).
Proof.
  induction s as [|n s IH]; intros [x|la] [y|lb] Ha Hb; simpl in Ha, Hb; try (exfalso; assumption).
  - exact I.
  - rewrite tzip_T. destruct Ha as [Hla Ha]. destruct Hb as [Hlb Hb]. simpl. split.
    + rewrite map2_length; congruence.
    + apply (map2_Forall (tzip f) (hs s) (hs s) (hs s) (IH)); assumption.
Qed.

Lemma tfold_hs f d s (l : list tns) : 0 < length l -> Forall (hs s) l -> hs s (tfold f d l).
Proof.
  destruct l as [|x r]; simpl; [lia|]. intros _ H. inversion H as [|x0 r0 Hx Hr]; subst. clear H.
  revert x Hx. induction r as [|y r IH]; intros x Hx; simpl; [exact Hx|].
  inversion Hr; subst. apply IH; [assumption|]. apply tzip_hs; assumption.
Qed.

(* reduction removes axis [ax]; only the reduced dim has to be positive *)
Lemma treduce_hs f e : forall s ax s' (t : tns),
  reduce_shape ax s = Some s' -> 0 < nth ax s 0 -> hs s t -> hs s' (treduce f e ax t).
Proof.
  induction s as [|n s IH]; intros ax s' [c|l] Hr Hp Hh; simpl in Hh; try (exfalso; exact Hh);
    simpl in Hr; [discriminate|].
  destruct Hh as [Hl Hall]. destruct ax as [|k]; simpl in Hp |- *.
  - inversion Hr; subst s'. apply tfold_hs; [lia | exact Hall].
  - apply ocons_Some in Hr. destruct Hr as [s'' [Hr ->]]. simpl. split; [rewrite map_length; exact Hl|].
    apply Forall_forall. intros y Hy. apply in_map_iff in Hy. destruct Hy as [x [<- Hx]].
    rewrite Forall_forall in Hall. eapply IH; eauto.
Qed.

Lemma tindex_hs idxs : forall s ax s' (t : tns),
  index_shape ax idxs s = Some s' -> hs s t -> hs s' (tindex a0 ax idxs t).
Proof.
  induction s as [|n s IH]; intros ax s' [c|l] Hr Hh; simpl in Hh; try (exfalso; exact Hh);
    simpl in Hr; [discriminate|].
  destruct Hh as [Hl Hall]. destruct ax as [|k]; simpl.
  - destruct (forallb (fun i => i <? n) idxs && (0 <? length idxs)) eqn:E; [|discriminate].
    inversion Hr; subst s'. apply andb_prop in E. destruct E as [E _]. simpl.
    split; [apply map_length|]. apply Forall_forall. intros y Hy. apply in_map_iff in Hy.
    destruct Hy as [i [<- Hi]]. rewrite forallb_forall in E. specialize (E i Hi). apply Nat.ltb_lt in E.
    rewrite Forall_forall in Hall. apply Hall. apply nth_In. lia.
  - apply ocons_Some in Hr. destruct Hr as [s'' [Hr ->]]. simpl. split; [rewrite map_length; exact Hl|].
    apply Forall_forall. intros y Hy. apply in_map_iff in Hy. destruct Hy as [x [<- Hx]].
    rewrite Forall_forall in Hall. eapply IH; eauto.
Qed.

Lemma touter_hs f : forall sa ax sb s (a b : tns),
  outer_shape ax sa sb = Some s -> hs sa a -> hs sb b -> hs s (touter f ax a b).
Proof.
  induction sa as [|na sa IH]; intros ax [|nb sb] s [x|la] [y|lb] Ho Ha Hb; simpl in Ha, Hb;
    try (exfalso; assumption); simpl in Ho; try discriminate.
  destruct Ha as [Hla Ha]. destruct Hb as [Hlb Hb]. destruct ax as [|k].
  - destruct (list_eqb sa sb) eqn:E; [|discriminate]. apply list_eqb_eq in E. subst sb.
    inversion Ho; subst s. simpl. split.
    + change (length (pairs (fun x y => tzip f x y) la lb) = na * nb). rewrite pairs_length. congruence.
    + change (Forall (hs sa) (pairs (fun x y => tzip f x y) la lb)).
      apply (pairs_Forall _ (hs sa) (hs sa) (hs sa)); [|assumption|assumption].
      intros; apply tzip_hs; assumption.
  - destruct (na =? nb) eqn:E; [|discriminate]. apply Nat.eqb_eq in E. subst nb.
    apply ocons_Some in Ho. destruct Ho as [s' [Ho ->]]. rewrite touter_T_S. simpl. split.
    + rewrite map2_length; congruence.
    + apply (map2_Forall (touter f k) (hs sa) (hs sb) (hs s')); [|assumption|assumption].
      intros x y Hx Hy. eapply IH; eauto.
Qed.

Lemma tkron_hs : forall sa sb s (a b : tns),
  kron_shape sa sb = Some s -> hs sa a -> hs sb b -> hs s (tkron amul a b).
Proof.
  induction sa as [|na sa IH]; intros [|nb sb] s [x|la] [y|lb] Hk Ha Hb; simpl in Ha, Hb;
    try (exfalso; assumption); simpl in Hk; try discriminate.
  - inversion Hk; subst. exact I.
  - apply ocons_Some in Hk. destruct Hk as [s' [Hk ->]].
    destruct Ha as [Hla Ha]. destruct Hb as [Hlb Hb]. simpl. split.
    + change (length (pairs (fun x y => tkron amul x y) la lb) = na * nb). rewrite pairs_length. congruence.
    + change (Forall (hs s') (pairs (fun x y => tkron amul x y) la lb)).
      apply (pairs_Forall _ (hs sa) (hs sb) (hs s')); [|assumption|assumption].
      intros x y Hx Hy. eapply IH; eauto.
Qed.

Lemma tbroadcast_hs f : forall s ax s' (t r : tns),
  reduce_shape ax s = Some s' -> hs s t -> hs s' r -> hs s (tbroadcast f ax t r).
Proof.
  induction s as [|n s IH]; intros ax s' [c|l] r Hr Ht Hrr; simpl in Ht; try (exfalso; exact Ht);
    simpl in Hr; [discriminate|].
  destruct Ht as [Hl Hall]. destruct ax as [|k]; simpl.
  - inversion Hr; subst s'. split; [rewrite map_length; exact Hl|].
    apply Forall_forall. intros y Hy. apply in_map_iff in Hy. destruct Hy as [x [<- Hx]].
    rewrite Forall_forall in Hall. apply tzip_hs; auto.
  - apply ocons_Some in Hr. destruct Hr as [s'' [Hr ->]].
    destruct r as [c|lr]; simpl in Hrr; [exfalso; exact Hrr|]. destruct Hrr as [Hlr Hrr]. simpl. split.
    + rewrite map2_length; congruence.
    + apply (map2_Forall (tbroadcast f k) (hs s) (hs s'') (hs s)); [|assumption|assumption].
      intros x y Hx Hy. eapply IH; eauto.
Qed.

(* vectors and matrices *)
Lemma of_vec_hs (v : list A) : hs [length v] (of_vec v).
Proof.
  unfold of_vec. simpl. split; [apply map_length|]. apply Forall_forall. intros y Hy.
  apply in_map_iff in Hy. destruct Hy as [c [<- _]]. exact I.
Qed.
Lemma of_vec_hs' (v : list A) n : length v = n -> hs [n] (of_vec v).
Proof. intros <-. apply of_vec_hs. Qed.
Lemma of_mat_hs (m : list (list A)) K d :
  length m = K -> Forall (fun r => length r = d) m -> hs [K; d] (of_mat m).
Proof.
  intros HK Hm. unfold of_mat. cbn [hs]. split; [rewrite map_length; exact HK|].
  apply Forall_forall. intros y Hy. apply in_map_iff in Hy. destruct Hy as [v [<- Hv]].
  rewrite Forall_forall in Hm. apply of_vec_hs'. auto.
Qed.
Lemma tvec_length (t : tns) K : hs [K] t -> length (tvec a0 t) = K.
Proof. destruct t as [c|l]; simpl; [intros F; exfalso; exact F|]. intros [Hl _]. rewrite map_length. exact Hl. Qed.
Lemma tmat_rows (t : tns) K d :
  hs [K; d] t -> length (tmat a0 t) = K /\ Forall (fun r => length r = d) (tmat a0 t).
Proof.
  destruct t as [c|l]; cbn [hs]; [intros F; exfalso; exact F|]. intros [Hl Hall]. simpl. split; [rewrite map_length; exact Hl|].
  apply Forall_forall. intros r Hr. apply in_map_iff in Hr. destruct Hr as [x [<- Hx]].
  rewrite Forall_forall in Hall. apply tvec_length. apply Hall, Hx.
Qed.

Lemma mixing_row_length K k (row : list A) : length (mixing_row a0 K k row) = length row * K.
Proof.
  unfold mixing_row. apply flat_map_const_length. intros v. rewrite map_length, seq_length. reflexivity.
Qed.
Lemma mixing_rows (m : list (list A)) K H :
  length m = K -> Forall (fun r => length r = H) m ->
  length (mixing a0 m) = K /\ Forall (fun r => length r = K * H) (mixing a0 m).
Proof.
  intros HK Hm. subst K. unfold mixing. split.
  - rewrite map_length, combine_length, seq_length. apply Nat.min_id.
  - apply Forall_forall. intros r Hr. apply in_map_iff in Hr. destruct Hr as [[k row] [<- Hin]].
    apply in_combine_r in Hin. rewrite Forall_forall in Hm. simpl.
    rewrite mixing_row_length, (Hm row Hin). apply Nat.mul_comm.
Qed.
End OpShapes.

(* general (no side condition) tshape lemmas for the entrywise maps, by tensor induction *)
Section MapShapes.
Variable A : Type.
Notation tns := (tensor A).

Lemma omap_Forall2 {X Y} (g : X -> option Y) : forall l l', omap g l = Some l' -> Forall2 (fun x y => g x = Some y) l l'.
Proof.
  induction l as [|x r IH]; intros l' H; simpl in H.
  - inversion H; constructor.
  - destruct (g x) as [y|] eqn:Ey; [|discriminate]. destruct (omap g r) as [ys|] eqn:Er; [|discriminate].
    inversion H; subst. constructor; auto.
Qed.

Lemma tmap_reg_shape f (t : tns) : tshape_of (tmap f t) = tshape_of t /\ tregular (tmap f t) = tregular t.
Proof.
  induction t as [c | l IH] using tensor_ind'; [split; reflexivity|].
  assert (Hs : Forall (fun x => tshape_of (tmap f x) = tshape_of x) l)
    by (eapply Forall_impl; [|exact IH]; simpl; tauto).
  assert (Hr : Forall (fun x => tregular (tmap f x) = tregular x) l)
    by (eapply Forall_impl; [|exact IH]; simpl; tauto).
  clear IH. simpl. split.
  - rewrite map_length. f_equal. destruct l as [|x r]; simpl; [reflexivity|]. inversion Hs; assumption.
  - f_equal.
    + induction Hr as [|x r Hx Hr IHr]; simpl; [reflexivity|]. inversion Hs; subst. rewrite Hx, IHr; auto.
    + destruct l as [|x r]; simpl; [reflexivity|]. inversion Hs as [|x0 r0 Hx Hs']; subst. rewrite Hx.
      clear Hr Hs Hx. induction Hs' as [|y r Hy Hs' IHr]; simpl; [reflexivity|]. rewrite Hy, IHr. reflexivity.
Qed.
Lemma tmap_tshape f (t : tns) : tshape (tmap f t) = tshape t.
Proof. unfold tshape. destruct (tmap_reg_shape f t) as [-> ->]. reflexivity. Qed.

Lemma tmapo_reg_shape f (t : tns) : forall t', tmapo f t = Some t' ->
  tshape_of t' = tshape_of t /\ tregular t' = tregular t.
Proof.
  induction t as [c | l IH] using tensor_ind'; intros t' H; simpl in H.
  - destruct (f c); inversion H; subst. split; reflexivity.
  - destruct (omap (tmapo f) l) as [l'|] eqn:E; [|discriminate]. inversion H; subst. clear H.
    apply omap_Forall2 in E.
    assert (F : Forall2 (fun x y => tshape_of y = tshape_of x /\ tregular y = tregular x) l l').
    { clear - IH E. induction E as [|x y l l' Hxy E IHE]; [constructor|].
      inversion IH; subst. constructor; auto. }
    clear IH E. simpl. split.
    + assert (EL : length l' = length l) by (clear - F; induction F; simpl; congruence).
      rewrite EL. f_equal. destruct F as [|x y r r' [Hxy _] F]; simpl; auto.
    + f_equal.
      * induction F as [|x y r r' [_ Hxy] F IHF]; simpl; [reflexivity|]. rewrite Hxy, IHF. reflexivity.
      * destruct F as [|x y r r' [Hxy _] F]; simpl; [reflexivity|]. rewrite Hxy.
        induction F as [|x2 y2 r r' [Hxy2 _] F IHF]; simpl; [reflexivity|]. rewrite Hxy2, IHF. reflexivity.
Qed.
Lemma tmapo_tshape f (t t' : tns) : tmapo f t = Some t' -> tshape t' = tshape t.
Proof. intros H. unfold tshape. destruct (tmapo_reg_shape f t t' H) as [-> ->]. reflexivity. Qed.

(* tmapo is total when f is total on the entries *)
Lemma tmapo_total f (t : tns) : (forall c, exists d, f c = Some d) -> exists t', tmapo f t = Some t'.
Proof.
  intros Hf. induction t as [c | l IH] using tensor_ind'; simpl.
  - destruct (Hf c) as [d ->]. eauto.
  - destruct (omap_total (tmapo f) l IH) as [l' ->]. eauto.
Qed.
End MapShapes.

(* tshape-level corollaries for positive shapes *)
Section TshapeOps.
Variable A : Type.
Variables (a0 : A) (amul : A -> A -> A).
Notation tns := (tensor A).

Lemma pos_nth : forall s ax, pos s = true -> ax < length s -> 0 < nth ax s 0.
Proof.
  induction s as [|n s IH]; intros ax Hp Hl; simpl in Hl; [lia|].
  apply pos_cons in Hp. destruct Hp as [Hn Hp]. destruct ax as [|k]; simpl; [exact Hn | apply IH; [exact Hp | lia]].
Qed.

Lemma tzip_tshape f s (a b : tns) : pos s = true ->
  tshape a = Some s -> tshape b = Some s -> tshape (tzip f a b) = Some s.
Proof. intros Hp Ha Hb. apply hs_tshape; [exact Hp|]. apply tzip_hs; apply tshape_Some_hs; assumption. Qed.

Lemma treduce_tshape f e ax s s' (t : tns) : pos s = true -> reduce_shape ax s = Some s' ->
  tshape t = Some s -> tshape (treduce f e ax t) = Some s'.
Proof.
  intros Hp Hr Ht. apply hs_tshape; [eapply reduce_shape_pos; eauto|].
  eapply treduce_hs; [exact Hr | | apply tshape_Some_hs; exact Ht].
  apply pos_nth; [exact Hp | apply (reduce_shape_spec _ _ _ Hr)].
Qed.

Lemma tindex_tshape ax idxs s s' (t : tns) : pos s = true -> index_shape ax idxs s = Some s' ->
  tshape t = Some s -> tshape (tindex a0 ax idxs t) = Some s'.
Proof.
  intros Hp Hr Ht. apply hs_tshape; [eapply index_shape_pos; eauto|].
  eapply tindex_hs; [exact Hr | apply tshape_Some_hs; exact Ht].
Qed.

Lemma touter_tshape f ax sa sb s (a b : tns) : pos sa = true -> pos sb = true ->
  outer_shape ax sa sb = Some s -> tshape a = Some sa -> tshape b = Some sb ->
  tshape (touter f ax a b) = Some s.
Proof.
  intros Hpa Hpb Ho Ha Hb. apply hs_tshape; [eapply outer_shape_pos; eauto|].
  eapply touter_hs; [exact Ho | apply tshape_Some_hs; exact Ha | apply tshape_Some_hs; exact Hb].
Qed.

Lemma tkron_tshape sa sb s (a b : tns) : pos sa = true -> pos sb = true ->
  kron_shape sa sb = Some s -> tshape a = Some sa -> tshape b = Some sb ->
  tshape (tkron amul a b) = Some s.
Proof.
  intros Hpa Hpb Ho Ha Hb. apply hs_tshape; [eapply kron_shape_pos; eauto|].
  eapply tkron_hs; [exact Ho | apply tshape_Some_hs; exact Ha | apply tshape_Some_hs; exact Hb].
Qed.

Lemma tbroadcast_tshape f ax s s' (t r : tns) : pos s = true -> reduce_shape ax s = Some s' ->
  tshape t = Some s -> tshape r = Some s' -> tshape (tbroadcast f ax t r) = Some s.
Proof.
  intros Hp Hr Ht Hrr. apply hs_tshape; [exact Hp|].
  eapply tbroadcast_hs; [exact Hr | apply tshape_Some_hs; exact Ht | apply tshape_Some_hs; exact Hrr].
Qed.

Lemma of_vec_tshape (v : list A) : v <> [] -> tshape (of_vec v) = Some [length v].
Proof.
  intros Hv. apply hs_tshape; [|apply of_vec_hs]. apply pos_cons. split; [|reflexivity].
  destruct v; [congruence | simpl; lia].
Qed.
Lemma of_mat_tshape (m : list (list A)) d : m <> [] -> 0 < d -> Forall (fun r => length r = d) m ->
  tshape (of_mat m) = Some [length m; d].
Proof.
  intros Hm Hd Hall. apply hs_tshape; [|apply of_mat_hs; auto].
  apply pos_cons. split; [destruct m; [congruence | simpl; lia]|]. apply pos_cons. split; [exact Hd | reflexivity].
Qed.
End TshapeOps.

(* ------------------------------------------------------------------ *)
(* 5. Polynomial rows: convolution and differentiation                  *)
Section Poly.
Variable R : Type.
Variables (rO rI : R) (radd rmul : R -> R -> R).

Lemma vadd_length : forall x y, length (vadd R radd x y) = Nat.max (length x) (length y).
Proof. induction x as [|a x IH]; intros [|b y]; simpl; auto. Qed.

Lemma conv_length : forall p q, p <> [] -> q <> [] ->
  length (conv R rO radd rmul p q) = length p + length q - 1.
Proof.
  induction p as [|a p IH]; intros q Hp Hq; [congruence|].
  assert (Hlq : 0 < length q) by (destruct q; [congruence | simpl; lia]).
  simpl conv. rewrite vadd_length. unfold scale. rewrite map_length. simpl length.
  destruct p as [|b p].
  - simpl. lia.
  - rewrite IH by (auto; discriminate). simpl length. lia.
Qed.

Lemma pdiff_from_length : forall p k, length (pdiff_from R rI radd rmul k p) = length p.
Proof. induction p as [|c p IH]; intros k; simpl; auto. Qed.
Lemma pdiff1_length p : length (pdiff1 R rI radd rmul p) = length p - 1.
Proof. destruct p as [|c p]; simpl; [reflexivity|]. rewrite pdiff_from_length. lia. Qed.
End Poly.

Lemma vconv_length p q : p <> [] -> q <> [] -> length (vconv p q) = length p + length q - 1.
Proof. apply conv_length. Qed.

Lemma iter_pdiff_length : forall n row, length (iter n vpdiff1 row) = length row - n.
Proof.
  induction n as [|n IH]; intros row; simpl; [lia|]. rewrite IH. unfold vpdiff1. rewrite pdiff1_length. lia.
Qed.
Lemma polydiff_row_length order row d : length row = d ->
  length (polydiff_row order row) = if order <? d then d - order else 1.
Proof.
  intros <-. unfold polydiff_row. destruct (Nat.leb_spec (length row) order) as [Hle|Hlt].
  - destruct (Nat.ltb_spec order (length row)); [lia | reflexivity].
  - destruct (Nat.ltb_spec order (length row)); [apply iter_pdiff_length | lia].
Qed.

(* ------------------------------------------------------------------ *)
(* 6. Shape inference for parameter expressions                         *)
Definition unop_shape (op : unop) (s : list nat) : option (list nat) :=
  match op with
  | UIndex ax idxs => index_shape ax idxs s
  | UExp | ULog | USquare | USoftplus | USigmoid | UScaledSigmoid _ _ | UClamp _ _ | UConj => Some s
  | USoftmax ax | ULogSoftmax ax => if ax <? length s then Some s else None
  | URSum ax | URProd ax | URLSE ax => reduce_shape ax s
  | UMixing => match s with [K; H] => Some [K; K * H] | _ => None end
  | UPolyDiff order => match s with [K; d] => Some [K; if order <? d then d - order else 1] | _ => None end
  end.

Definition binop_shape (op : binop) (sa sb : list nat) : option (list nat) :=
  match op with
  | BSum | BHad => if list_eqb sa sb then Some sa else None
  | BKron => kron_shape sa sb
  | BOuterProd ax | BOuterSum ax => outer_shape ax sa sb
  | BGStd => match sa, sb with [K1], [K2] => Some [K1 * K2] | _, _ => None end
  | BPolyProd => match sa, sb with [K1; d1], [K2; d2] => Some [K1 * K2; d1 + d2 - 1] | _, _ => None end
  end.

Definition gauss_shape (a b c d : list nat) : option (list nat) :=
  match a, b, c, d with
  | [K1], [K1'], [K2], [K2'] => if (K1 =? K1') && (K2 =? K2') then Some [K1 * K2] else None
  | _, _, _, _ => None
  end.

(* leaves: the tensor must be regular AND all its dims positive *)
Definition leaf_shape (t : tn) : option (list nat) :=
  match tshape t with Some s => if pos s then Some s else None | None => None end.

Fixpoint pshape (e : pexpr) : option (list nat) :=
  match e with
  | PTen _ _ t => leaf_shape t
  | PUn op e1 => do s <- pshape e1; unop_shape op s
  | PBin op e1 e2 => do sa <- pshape e1; do sb <- pshape e2; binop_shape op sa sb
  | PGMean m1 s1 m2 s2 | PGLogPart m1 s1 m2 s2 =>
      do a <- pshape m1; do b <- pshape s1; do c <- pshape m2; do d <- pshape s2; gauss_shape a b c d
  end.

Lemma obind_Some {X Y} (o : option X) (f : X -> option Y) y :
  obind o f = Some y -> exists x, o = Some x /\ f x = Some y.
Proof. destruct o as [x|]; simpl; [eauto | discriminate]. Qed.

Ltac obind_inv H :=
  let x := fresh "x" in let E := fresh "E" in
  apply obind_Some in H; destruct H as [x [E H]].

(* ---- positivity of every inferred shape ---- *)
Lemma unop_shape_pos op s s' : unop_shape op s = Some s' -> pos s = true -> pos s' = true.
Proof.
  intros H Hp. destruct op; simpl in H;
    try (inversion H; subst; exact Hp);
    try (eapply reduce_shape_pos; eauto; fail).
  - eapply index_shape_pos; eauto.
  - destruct (axis <? length s); inversion H; subst; exact Hp.
  - destruct (axis <? length s); inversion H; subst; exact Hp.
  - destruct s as [|K [|H0 [|? ?]]]; try discriminate. inversion H; subst.
    apply pos_cons in Hp. destruct Hp as [HK Hp]. apply pos_cons in Hp. destruct Hp as [HH _].
    apply pos_cons. split; [exact HK|]. apply pos_cons. split; [nia | reflexivity].
  - destruct s as [|K [|d [|? ?]]]; try discriminate. inversion H; subst.
    apply pos_cons in Hp. destruct Hp as [HK Hp]. apply pos_cons in Hp. destruct Hp as [Hd _].
    apply pos_cons. split; [exact HK|]. apply pos_cons. split; [|reflexivity].
    destruct (Nat.ltb_spec order d); lia.
Qed.

Lemma binop_shape_pos op sa sb s : binop_shape op sa sb = Some s -> pos sa = true -> pos sb = true -> pos s = true.
Proof.
  intros H Ha Hb. destruct op; simpl in H.
  - destruct (list_eqb sa sb); inversion H; subst; exact Ha.
  - destruct (list_eqb sa sb); inversion H; subst; exact Ha.
  - eapply kron_shape_pos; eauto.
  - eapply outer_shape_pos; eauto.
  - eapply outer_shape_pos; eauto.
  - destruct sa as [|K1 [|? ?]]; try discriminate. destruct sb as [|K2 [|? ?]]; try discriminate.
    inversion H; subst. apply pos_cons in Ha. apply pos_cons in Hb.
    apply pos_cons. split; [nia | reflexivity].
  - destruct sa as [|K1 [|d1 [|? ?]]]; try discriminate. destruct sb as [|K2 [|d2 [|? ?]]]; try discriminate.
    inversion H; subst.
    apply pos_cons in Ha. destruct Ha as [HK1 Ha]. apply pos_cons in Ha. destruct Ha as [Hd1 _].
    apply pos_cons in Hb. destruct Hb as [HK2 Hb]. apply pos_cons in Hb. destruct Hb as [Hd2 _].
    apply pos_cons. split; [nia|]. apply pos_cons. split; [lia | reflexivity].
Qed.

Lemma gauss_shape_inv a b c d s : gauss_shape a b c d = Some s ->
  exists K1 K2, a = [K1] /\ b = [K1] /\ c = [K2] /\ d = [K2] /\ s = [K1 * K2].
Proof.
  unfold gauss_shape. intros H.
  destruct a as [|K1 [|? ?]]; try discriminate. destruct b as [|K1' [|? ?]]; try discriminate.
  destruct c as [|K2 [|? ?]]; try discriminate. destruct d as [|K2' [|? ?]]; try discriminate.
  destruct ((K1 =? K1') && (K2 =? K2')) eqn:E; [|discriminate]. inversion H; subst.
  apply andb_prop in E. destruct E as [E1 E2]. apply Nat.eqb_eq in E1, E2. subst.
  exists K1', K2'. repeat split; reflexivity.
Qed.

Lemma leaf_shape_inv t s : leaf_shape t = Some s -> tshape t = Some s /\ pos s = true.
Proof.
  unfold leaf_shape. destruct (tshape t) as [s0|]; [|discriminate].
  destruct (pos s0) eqn:E; [|discriminate]. intros H; inversion H; subst. auto.
Qed.

Lemma pshape_pos e : forall s, pshape e = Some s -> pos s = true.
Proof.
  induction e as [id learn t | op e1 IH1 | op e1 IH1 e2 IH2
                 | m1 IHa s1 IHb m2 IHc s2 IHd | m1 IHa s1 IHb m2 IHc s2 IHd]; intros s H; simpl in H.
  - apply leaf_shape_inv in H. tauto.
  - obind_inv H. eapply unop_shape_pos; eauto.
  - obind_inv H. obind_inv H. eapply binop_shape_pos; eauto.
  - obind_inv H. obind_inv H. obind_inv H. obind_inv H.
    apply gauss_shape_inv in H. destruct H as [K1 [K2 [-> [-> [-> [-> ->]]]]]].
    apply IHa in E. apply IHc in E1. apply pos_cons in E. apply pos_cons in E1.
    apply pos_cons. split; [nia | reflexivity].
  - obind_inv H. obind_inv H. obind_inv H. obind_inv H.
    apply gauss_shape_inv in H. destruct H as [K1 [K2 [-> [-> [-> [-> ->]]]]]].
    apply IHa in E. apply IHc in E1. apply pos_cons in E. apply pos_cons in E1.
    apply pos_cons. split; [nia | reflexivity].
Qed.

(* ---- operators return a tensor of the declared shape ---- *)
Lemma eval_unop_hs op s s' (t t' : tn) : pos s = true -> hs s t ->
  unop_shape op s = Some s' -> eval_unop op t = Some t' -> hs s' t'.
Proof.
  intros Hp Hh Hs He.
  assert (Hred : forall f e ax s1, reduce_shape ax s = Some s1 -> hs s1 (treduce f e ax t)).
  { intros f e ax s1 Hr. eapply treduce_hs; [exact Hr | | exact Hh].
    apply pos_nth; [exact Hp | apply (reduce_shape_spec _ _ _ Hr)]. }
  destruct op; unfold eval_unop in He; unfold unop_shape in Hs.
  - (* UIndex *) inversion He; subst. eapply tindex_hs; eauto.
  - (* UExp *) inversion Hs; subst. eapply tmapo_hs; eauto.
  - (* ULog *) inversion Hs; subst. eapply tmapo_hs; eauto.
  - (* USquare *) inversion Hs; inversion He; subst. apply tmap_hs; exact Hh.
  - (* USoftplus *) inversion Hs; subst. eapply tmapo_hs; eauto.
  - (* USigmoid *) inversion Hs; subst. eapply tmapo_hs; eauto.
  - (* UScaledSigmoid *) inversion Hs; subst. eapply tmapo_hs; eauto.
  - (* UClamp *) inversion Hs; subst. eapply tmapo_hs; eauto.
  - (* UConj *) inversion Hs; inversion He; subst. apply tmap_hs; exact Hh.
  - (* URSum *) inversion He; subst. apply Hred; exact Hs.
  - (* URProd *) inversion He; subst. apply Hred; exact Hs.
  - (* URLSE *) obind_inv He. eapply tmapo_hs; [|exact He].
    eapply treduce_hs; [exact Hs | | eapply tmapo_hs; eauto].
    apply pos_nth; [exact Hp | apply (reduce_shape_spec _ _ _ Hs)].
  - (* USoftmax *)
    destruct (Nat.ltb_spec axis (length s)) as [Hax|]; [|discriminate]. inversion Hs; subst s'.
    destruct (reduce_shape_some s axis Hax) as [s1 Hr].
    obind_inv He. inversion He; subst t'. apply tmap_hs.
    assert (Hx : hs s x) by (eapply tmapo_hs; eauto).
    eapply tbroadcast_hs; [exact Hr | exact Hx |].
    eapply treduce_hs; [exact Hr | apply pos_nth; assumption | exact Hx].
  - (* ULogSoftmax *)
    destruct (Nat.ltb_spec axis (length s)) as [Hax|]; [|discriminate]. inversion Hs; subst s'.
    destruct (reduce_shape_some s axis Hax) as [s1 Hr].
    obind_inv He. obind_inv He. inversion He; subst t'.
    assert (Hx : hs s x) by (eapply tmapo_hs; eauto).
    eapply tbroadcast_hs; [exact Hr | exact Hh |].
    eapply tmapo_hs; [|exact E0].
    eapply treduce_hs; [exact Hr | apply pos_nth; assumption | exact Hx].
  - (* UMixing *)
    destruct s as [|K [|H0 [|? ?]]]; try discriminate. inversion Hs; inversion He; subst.
    destruct (tmat_rows C c0 t K H0 Hh) as [Hl Hrows].
    destruct (mixing_rows C c0 _ K H0 Hl Hrows) as [Hl' Hrows'].
    apply of_mat_hs; assumption.
  - (* UPolyDiff *)
    destruct s as [|K [|d [|? ?]]]; try discriminate. inversion Hs; inversion He; subst.
    destruct (tmat_rows C c0 t K d Hh) as [Hl Hrows].
    apply of_mat_hs; [rewrite map_length; exact Hl|].
    apply Forall_forall. intros r Hr. apply in_map_iff in Hr. destruct Hr as [row [<- Hrow]].
    rewrite Forall_forall in Hrows. apply polydiff_row_length. apply Hrows, Hrow.
Qed.

Lemma eval_binop_hs op sa sb s (a b t : tn) : pos sa = true -> pos sb = true -> hs sa a -> hs sb b ->
  binop_shape op sa sb = Some s -> eval_binop op a b = Some t -> hs s t.
Proof.
  intros Hpa Hpb Ha Hb Hs He. destruct op; unfold eval_binop in He; unfold binop_shape in Hs.
  - (* BSum *) destruct (list_eqb sa sb) eqn:E; [|discriminate]. apply list_eqb_eq in E.
    inversion Hs; inversion He; subst. apply tzip_hs; assumption.
  - (* BHad *) destruct (list_eqb sa sb) eqn:E; [|discriminate]. apply list_eqb_eq in E.
    inversion Hs; inversion He; subst. apply tzip_hs; assumption.
  - (* BKron *) inversion He; subst. eapply tkron_hs; eauto.
  - (* BOuterProd *) inversion He; subst. eapply touter_hs; eauto.
  - (* BOuterSum *) inversion He; subst. eapply touter_hs; eauto.
  - (* BGStd *)
    destruct sa as [|K1 [|? ?]]; try discriminate. destruct sb as [|K2 [|? ?]]; try discriminate.
    inversion Hs; subst s. obind_inv He. inversion He; subst t.
    apply of_vec_hs'. rewrite (omap_length _ _ _ E), pairs_length.
    rewrite (tvec_length C c0 a K1 Ha), (tvec_length C c0 b K2 Hb). reflexivity.
  - (* BPolyProd *)
    destruct sa as [|K1 [|d1 [|? ?]]]; try discriminate. destruct sb as [|K2 [|d2 [|? ?]]]; try discriminate.
    inversion Hs; inversion He; subst.
    destruct (tmat_rows C c0 a K1 d1 Ha) as [Hla Hra]. destruct (tmat_rows C c0 b K2 d2 Hb) as [Hlb Hrb].
    apply pos_cons in Hpa. destruct Hpa as [_ Hpa]. apply pos_cons in Hpa. destruct Hpa as [Hd1 _].
    apply pos_cons in Hpb. destruct Hpb as [_ Hpb]. apply pos_cons in Hpb. destruct Hpb as [Hd2 _].
    apply of_mat_hs; [rewrite pairs_length; f_equal; assumption|].
    apply (pairs_Forall vconv (fun r => length r = d1) (fun r => length r = d2)); [|assumption|assumption].
    intros p q Hp Hq. rewrite vconv_length; [congruence | |]; intros ->; simpl in *; lia.
Qed.

Lemma gmean_length m1 s1 m2 s2 K1 K2 :
  length m1 = K1 -> length s1 = K1 -> length m2 = K2 -> length s2 = K2 ->
  length (gmean m1 s1 m2 s2) = K1 * K2.
Proof.
  intros H1 H2 H3 H4. unfold gmean. rewrite pairs_length, !combine_length, H1, H2, H3, H4, !Nat.min_id.
  reflexivity.
Qed.
Lemma glogpart_length m1 s1 m2 s2 K1 K2 l :
  length m1 = K1 -> length s1 = K1 -> length m2 = K2 -> length s2 = K2 ->
  glogpart m1 s1 m2 s2 = Some l -> length l = K1 * K2.
Proof.
  intros H1 H2 H3 H4 Hg. unfold glogpart in Hg. apply omap_length in Hg. rewrite Hg.
  rewrite pairs_length, !combine_length, H1, H2, H3, H4, !Nat.min_id. reflexivity.
Qed.

(* the invariant carried through the induction *)
Lemma peval_hs e : forall s t, pshape e = Some s -> peval e = Some t -> hs s t.
Proof.
  induction e as [id learn t0 | op e1 IH1 | op e1 IH1 e2 IH2
                 | m1 IHa s1 IHb m2 IHc s2 IHd | m1 IHa s1 IHb m2 IHc s2 IHd];
    intros s t Hs He; simpl in Hs; simpl in He.
  - apply leaf_shape_inv in Hs. destruct Hs as [Hs _]. inversion He; subst. apply tshape_Some_hs; exact Hs.
  - obind_inv Hs. obind_inv He.
    eapply eval_unop_hs; [eapply pshape_pos; exact E | eapply IH1; eauto | exact Hs | exact He].
  - obind_inv Hs. obind_inv Hs. obind_inv He. obind_inv He.
    eapply eval_binop_hs; [eapply pshape_pos; exact E | eapply pshape_pos; exact E0
                          | eapply IH1; eauto | eapply IH2; eauto | exact Hs | exact He].
  - obind_inv Hs. obind_inv Hs. obind_inv Hs. obind_inv Hs.
    apply gauss_shape_inv in Hs. destruct Hs as [K1 [K2 [-> [-> [-> [-> ->]]]]]].
    obind_inv He. obind_inv He. obind_inv He. obind_inv He. inversion He; subst t.
    apply of_vec_hs'. apply gmean_length; apply tvec_length; eauto.
  - obind_inv Hs. obind_inv Hs. obind_inv Hs. obind_inv Hs.
    apply gauss_shape_inv in Hs. destruct Hs as [K1 [K2 [-> [-> [-> [-> ->]]]]]].
    obind_inv He. obind_inv He. obind_inv He. obind_inv He. obind_inv He. inversion He; subst t.
    apply of_vec_hs'. eapply glogpart_length; [| | | |exact E7]; apply tvec_length; eauto.
Qed.

(* ------------------------------------------------------------------ *)
(* 7. MAIN THEOREM: evaluation yields a tensor of exactly the inferred shape *)
Theorem peval_shape e s t : pshape e = Some s -> peval e = Some t -> tshape t = Some s.
Proof.
  intros Hs He. apply hs_tshape; [eapply pshape_pos; exact Hs | eapply peval_hs; eauto].
Qed.

(* operator-level statements on [tshape] *)
Theorem eval_unop_shape op s s' (t t' : tn) : pos s = true -> tshape t = Some s ->
  unop_shape op s = Some s' -> eval_unop op t = Some t' -> tshape t' = Some s'.
Proof.
  intros Hp Ht Hs He. apply hs_tshape; [eapply unop_shape_pos; eauto|].
  eapply eval_unop_hs; [exact Hp | apply tshape_Some_hs; exact Ht | exact Hs | exact He].
Qed.
Theorem eval_binop_shape op sa sb s (a b t : tn) : pos sa = true -> pos sb = true ->
  tshape a = Some sa -> tshape b = Some sb ->
  binop_shape op sa sb = Some s -> eval_binop op a b = Some t -> tshape t = Some s.
Proof.
  intros Hpa Hpb Ha Hb Hs He. apply hs_tshape; [eapply binop_shape_pos; eauto|].
  eapply eval_binop_hs; [exact Hpa | exact Hpb | apply tshape_Some_hs; exact Ha
                        | apply tshape_Some_hs; exact Hb | exact Hs | exact He].
Qed.

(* ------------------------------------------------------------------ *)
(* 8. Partial converse on the algebraic fragment                        *)
Definition alg_unop (op : unop) : bool :=
  match op with
  | UIndex _ _ | USquare | UConj | URSum _ | URProd _ | UMixing | UPolyDiff _ => true
  | UExp | ULog | USoftplus | USigmoid | UScaledSigmoid _ _ | UClamp _ _
  | URLSE _ | USoftmax _ | ULogSoftmax _ => false
  end.
Definition alg_binop (op : binop) : bool :=
  match op with
  | BSum | BHad | BKron | BOuterProd _ | BOuterSum _ | BPolyProd => true
  | BGStd => false
  end.
Fixpoint alg (e : pexpr) : bool :=
  match e with
  | PTen _ _ _ => true
  | PUn op e1 => alg_unop op && alg e1
  | PBin op e1 e2 => alg_binop op && alg e1 && alg e2
  | PGMean _ _ _ _ | PGLogPart _ _ _ _ => false
  end.

(* evaluation of the algebraic fragment is total (it does not even need well-shapedness) *)
Lemma alg_total e : alg e = true -> exists t, peval e = Some t.
Proof.
  induction e as [id learn t0 | op e1 IH1 | op e1 IH1 e2 IH2
                 | m1 IHa s1 IHb m2 IHc s2 IHd | m1 IHa s1 IHb m2 IHc s2 IHd];
    intros Ha; simpl in Ha; try discriminate.
  - simpl. eauto.
  - apply andb_prop in Ha. destruct Ha as [Hop Ha]. destruct (IH1 Ha) as [t1 E1].
    simpl. rewrite E1. simpl. destruct op; simpl in Hop; try discriminate; simpl; eauto.
  - apply andb_prop in Ha. destruct Ha as [Ha Ha2]. apply andb_prop in Ha. destruct Ha as [Hop Ha1].
    destruct (IH1 Ha1) as [t1 E1]. destruct (IH2 Ha2) as [t2 E2].
    simpl. rewrite E1, E2. simpl. destruct op; simpl in Hop; try discriminate; simpl; eauto.
Qed.

Theorem alg_peval_defined e s : alg e = true -> pshape e = Some s ->
  exists t, peval e = Some t /\ tshape t = Some s.
Proof.
  intros Ha Hs. destruct (alg_total e Ha) as [t Ht]. exists t. split; [exact Ht|].
  eapply peval_shape; eauto.
Qed.

(* ------------------------------------------------------------------ *)
(* 9. Examples                                                          *)
Definition qz (n : Z) : C := cre (Q2Qc (inject_Z n)).
Definition m23 : tn := of_mat [[qz 1; qz 2; qz 3]; [qz 4; qz 5; qz 6]].
Definition m22 : tn := of_mat [[qz 1; qz 2]; [qz 3; qz 4]].
Definition m24 : tn := of_mat [[qz 1; qz 0; qz 2; qz (-1)]; [qz 3; qz 1; qz 1; qz 5]].
Definition eshape (e : pexpr) : option (list nat) := do t <- peval e; tshape t.

(* softmax along axis 0 of a 2x3 matrix *)
Definition ex1 := PUn (USoftmax 0) (PTen 0 true m23).
Example ex1_ok : pshape ex1 = Some [2; 3] /\ eshape ex1 = Some [2; 3].
Proof. vm_compute. split; reflexivity. Qed.

(* outer product along axis 1: (2,3) x (2,4) -> (2,12) *)
Definition ex2 := PBin (BOuterProd 1) (PTen 0 true m23) (PTen 1 true m24).
Example ex2_ok : pshape ex2 = Some [2; 12] /\ eshape ex2 = Some [2; 12].
Proof. vm_compute. split; reflexivity. Qed.

(* Kronecker product: (2,3) (x) (2,2) -> (4,6) *)
Definition ex3 := PBin BKron (PTen 0 true m23) (PTen 1 false m22).
Example ex3_ok : pshape ex3 = Some [4; 6] /\ eshape ex3 = Some [4; 6].
Proof. vm_compute. split; reflexivity. Qed.

(* reduce-sum along axis 1 of the outer product *)
Definition ex4 := PUn (URSum 1) ex2.
Example ex4_ok : pshape ex4 = Some [2] /\ eshape ex4 = Some [2].
Proof. vm_compute. split; reflexivity. Qed.

(* log-softmax, index, mixing, polynomial product/differentiation, Gaussian product *)
Definition ex5 := PUn (ULogSoftmax 1) (PUn (UIndex 1 [2; 0; 2; 1]) (PTen 0 true m23)).
Example ex5_ok : pshape ex5 = Some [2; 4] /\ eshape ex5 = Some [2; 4].
Proof. vm_compute. split; reflexivity. Qed.
Definition ex6 := PUn UMixing (PTen 0 true m23).
Example ex6_ok : pshape ex6 = Some [2; 6] /\ eshape ex6 = Some [2; 6].
Proof. vm_compute. split; reflexivity. Qed.
Definition ex7 := PUn (UPolyDiff 2) (PBin BPolyProd (PTen 0 true m23) (PTen 1 true m24)).
Example ex7_ok : pshape ex7 = Some [4; 4] /\ eshape ex7 = Some [4; 4].
Proof. vm_compute. split; reflexivity. Qed.
Definition v2 : tn := of_vec [qz 1; qz 2].
Definition v3 : tn := of_vec [qz 1; qz 3; qz 2].
Definition ex8 := PGMean (PTen 0 true v2) (PTen 1 true v2) (PTen 2 true v3) (PTen 3 true v3).
Example ex8_ok : pshape ex8 = Some [6] /\ eshape ex8 = Some [6].
Proof. vm_compute. split; reflexivity. Qed.

(* corner cases that [pshape] rejects (evaluation does NOT yield the "declared" shape) *)
(* empty index list on axis 0: declared (0,3), but the result T [] has tshape [0] *)
Example corner_index_empty :
  eshape (PUn (UIndex 0 []) (PTen 0 true m23)) = Some [0] /\ pshape (PUn (UIndex 0 []) (PTen 0 true m23)) = None.
Proof. vm_compute. split; reflexivity. Qed.
(* out-of-range index: [tindex] silently inserts the scalar S c0, the result is not even regular *)
Example corner_index_oob :
  eshape (PUn (UIndex 0 [0; 5]) (PTen 0 true m23)) = None /\ pshape (PUn (UIndex 0 [0; 5]) (PTen 0 true m23)) = None.
Proof. vm_compute. split; reflexivity. Qed.
(* mismatched operands of an entrywise sum: [tzip] truncates to the shorter operand instead of failing *)
Example corner_tzip_mismatch :
  eshape (PBin BSum (PTen 0 true m23) (PTen 1 true m22)) = Some [2; 2] /\
  pshape (PBin BSum (PTen 0 true m23) (PTen 1 true m22)) = None.
Proof. vm_compute. split; reflexivity. Qed.
(* axis out of range: [treduce] is the identity instead of failing *)
Example corner_reduce_axis :
  eshape (PUn (URSum 2) (PTen 0 true m23)) = Some [2; 3] /\ pshape (PUn (URSum 2) (PTen 0 true m23)) = None.
Proof. vm_compute. split; reflexivity. Qed.
(* a leaf with a zero dim, shape (2,0): reducing axis 0 then axis 0 again gives a scalar; the
   leaf is rejected by the positivity check in [leaf_shape] *)
Example corner_zero_dim :
  tshape (T [T []; T []] : tn) = Some [2; 0] /\ pshape (PTen 0 true (T [T []; T []])) = None.
Proof. vm_compute. split; reflexivity. Qed.

(* polynomial product with an EMPTY coefficient row: length d1 (resp. 0), not d1 + d2 - 1 *)
Example corner_conv_empty :
  length (vconv [qz 1; qz 2] []) = 2 /\ length (vconv [] [qz 1; qz 2; qz 3]) = 0.
Proof. vm_compute. split; reflexivity. Qed.

(* ------------------------------------------------------------------ *)
Check tensor_ind'.
Check tshape_iff_hs.
Check tmap_tshape. Check tmapo_tshape. Check tzip_tshape. Check treduce_tshape. Check tindex_tshape.
Check touter_tshape. Check tkron_tshape. Check tbroadcast_tshape. Check of_vec_tshape. Check of_mat_tshape.
Check mixing_rows. Check vconv_length. Check polydiff_row_length.
Check pshape_pos.
Check eval_unop_shape.
Check eval_binop_shape.
Check peval_shape.
Check alg_total.
Check alg_peval_defined.
Print Assumptions tshape_iff_hs.
Print Assumptions tmap_tshape. Print Assumptions tmapo_tshape. Print Assumptions tzip_tshape.
Print Assumptions treduce_tshape. Print Assumptions tindex_tshape. Print Assumptions touter_tshape.
Print Assumptions tkron_tshape. Print Assumptions tbroadcast_tshape.
Print Assumptions of_vec_tshape. Print Assumptions of_mat_tshape.
Print Assumptions mixing_rows. Print Assumptions vconv_length. Print Assumptions polydiff_row_length.
Print Assumptions pshape_pos.
Print Assumptions eval_unop_shape.
Print Assumptions eval_binop_shape.
Print Assumptions peval_shape.
Print Assumptions alg_total.
Print Assumptions alg_peval_defined.
Print Assumptions ex1_ok. Print Assumptions ex4_ok.

(* ------------------------------------------------------------------ *)
(* 10. Used by the correspondence check (harness/props/C14.py): the shape rule against the shape
   declared by the implementation's symbolic node *)
Definition pshape_vs (e : pexpr) (s : list nat) : nat :=
  match pshape e with
  | Some s' => if list_eq_dec Nat.eq_dec s' s then 1 else 0
  | None => 2
  end.
