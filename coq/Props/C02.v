(* C02 — folding preserves the function (address-book evaluation)
   Property theorems only: each is closed by `exact <lemma>`; proofs live in the imported files. *)
From Coq Require Import List ZArith QArith Qcanon Ring_theory Field_theory Permutation Sorted.
Import ListNotations.
From CK Require Import Gen.
From CK Require Import Fold.
From CK Require Import FoldCheck.
Close Scope Qc_scope. Close Scope Q_scope. Close Scope Z_scope. Open Scope nat_scope.

(* evaluating any folded graph through its address book (concatenate the listed module outputs, gather by the index lists, apply the members fold-wise) reproduces the unfolded values slice by slice whenever the book is consistent; modules are arbitrary functions, so this holds for every layer type, semiring, parameter value and input *)
Theorem C02_folded_sound :
  forall (V : Type) (dV : V) (g : ugraph V) (F : fgraph),
         uwf V dV g ->
         fwf F ->
         consistent V dV g F ->
         forall Mi : nat,
         Mi < length F ->
         length (nth Mi (feval V dV g F) []) = fsize F Mi /\
         (forall s : nat,
          s < fsize F Mi ->
          nth s (nth Mi (feval V dV g F) []) dV = nth (nth s (members (nth Mi F dfm)) 0) (ueval V dV g) dV).
Proof. exact folded_sound. Qed.
Print Assumptions C02_folded_sound.

(* the executable address-book checker is sound: if it computes true on an exported unfolded graph and folded graph, the address book is consistent *)
Theorem C02_checker_sound :
  forall (V : Type) (dV : V) (g : ugraph V) (F : fgraph),
         ab_check (map (uins V) g) F = true -> consistent V dV g F.
Proof. exact ab_check_sound. Qed.
Print Assumptions C02_checker_sound.

(* hence every slice of every folded module equals the corresponding unfolded module's value, for all module functions (layers, semirings), parameters and inputs *)
Theorem C02_checked_fold :
  forall (V : Type) (dV : V) (g : ugraph V) (F : fgraph),
         uwf_b (map (uins V) g) = true ->
         fwf_b F = true ->
         ab_check (map (uins V) g) F = true ->
         forall Mi : nat,
         Mi < length F ->
         forall s : nat,
         s < fsize F Mi ->
         nth s (nth Mi (feval V dV g F) []) dV = nth (nth s (members (nth Mi F dfm)) 0) (ueval V dV g) dV.
Proof. exact checked_fold_sound. Qed.
Print Assumptions C02_checked_fold.

(* and the gathered graph outputs equal the unfolded outputs in the declared order *)
Theorem C02_outputs_sound :
  forall (V : Type) (dV : V) (g : ugraph V) (F : fgraph) (outs out_ids out_cum : list nat),
         uwf_b (map (uins V) g) = true ->
         fwf_b F = true ->
         ab_check (map (uins V) g) F = true ->
         out_check F outs out_ids out_cum = true ->
         map (fun ix : nat => nth ix (concat (map (fun mid : nat => nth mid (feval V dV g F) []) out_ids)) dV)
           out_cum = map (fun o : nat => nth o (ueval V dV g) dV) outs.
Proof. exact checked_outputs_sound. Qed.
Print Assumptions C02_outputs_sound.
