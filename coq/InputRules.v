(* InputRules.v -- real-number correctness of the FORMULAS used by the symbolic
   [multiply] rules for input layers of cirkit
   (cirkit/symbolic/operators.py: multiply_gaussian_layers, multiply_categorical_layers)
   and of the torch parameter nodes / layers that realise them
   (cirkit/backend/torch/parameters/nodes.py, cirkit/backend/torch/layers/input.py).

   The executable model (Ops.v [multiply_inputs], Pexpr.v [PGMean], [BGStd], [PGLogPart],
   [BOuterSum]) evaluates exp/log/sqrt with fixed-point approximations, so there the value
   correctness of the product rule is only checked per instance.  Here every formula is
   transcribed as a real-valued Gallina definition (next to the Python line it mirrors) and the
   product identities are proved over R, for every unit pair (i, j).

   No axiom is declared in this file; only the axioms of the standard Reals library are used. *)

Require Import Reals Lra Psatz Arith Lia List.
From Coquelicot Require Import Coquelicot.
Import ListNotations.
Open Scope R_scope.

(* ------------------------------------------------------------------------------------------ *)
(** * Small facts about ln / sqrt / exp                                                        *)
(* ------------------------------------------------------------------------------------------ *)

Lemma ln_sqrt_half : forall x, 0 < x -> ln (sqrt x) = ln x / 2.
Proof.
  intros x H. assert (Hs : 0 < sqrt x) by now apply sqrt_lt_R0.
  assert (E : ln x = ln (sqrt x) + ln (sqrt x)).
  { rewrite <- ln_mult by assumption. rewrite sqrt_sqrt by lra. reflexivity. }
  lra.
Qed.

Lemma ln_sq : forall x, 0 < x -> ln (x ^ 2) = 2 * ln x.
Proof. intros x H. simpl. rewrite Rmult_1_r, ln_mult by assumption. lra. Qed.

Lemma sq_pos : forall x, 0 < x -> 0 < x ^ 2.
Proof. intros; nra. Qed.

(* the decimal literal [-0.5] is [Q2R (-5 # 10)]: [lra] knows it, [field] does not *)
Lemma minus_half : -0.5 = - / 2.
Proof. lra. Qed.

(* ------------------------------------------------------------------------------------------ *)
(** * 1. Gaussian layers                                                                       *)
(* ------------------------------------------------------------------------------------------ *)

(** torch/distributions/normal.py, [Normal.log_prob]:
<<
        var = self.scale**2
        log_scale = ... self.scale.log()
        return (
            -((value - self.loc) ** 2) / (2 * var)
            - log_scale
            - math.log(math.sqrt(2 * math.pi))
        )
>> *)
Definition normal_log_prob (loc scale value : R) : R :=
  let var := scale ^ 2 in
  let log_scale := ln scale in
  - ((value - loc) ^ 2) / (2 * var) - log_scale - ln (sqrt (2 * PI)).

(** cirkit/backend/torch/layers/input.py, [TorchGaussianLayer.log_unnormalized_likelihood]:
<<
        dist = distributions.Normal(loc=mean, scale=stddev)
        log_probs = dist.log_prob(x)
        if self.log_partition is not None:
            log_partition = self.log_partition()  # (F, K)
            log_probs = log_probs + log_partition.unsqueeze(dim=1)
        return log_probs
>>
   (one output unit: [mean], [stddev], optional [log_partition] are the scalars of that unit). *)
Definition gauss_log_unnormalized_likelihood (mean stddev : R) (log_partition : option R) (x : R) : R :=
  let log_probs := normal_log_prob mean stddev x in
  match log_partition with
  | Some lp => log_probs + lp
  | None => log_probs
  end.

(** [TorchExpFamilyLayer.forward]:
<<
        x = self.log_unnormalized_likelihood(x)
        return self.semiring.map_from(x, LSESumSemiring)
>>
   and semiring.py: [@SumProductSemiring.register_map_from(LSESumSemiring)  return torch.exp(x)].
   So, in the sum-product semiring, the value of one Gaussian unit at x is: *)
Definition gauss_layer (mean stddev : R) (log_partition : option R) (x : R) : R :=
  exp (gauss_log_unnormalized_likelihood mean stddev log_partition x).

(** [TorchGaussianLayer.log_partition_function] (zeros if [log_partition is None], else the
    parameter) and [TorchExpFamilyLayer.integrate] = map_from(log_partition_function) = exp(..);
    symbolically, operators.py [integrate_gaussian_layer]:
<<
    if sl.log_partition is None:
        log_partition = Parameter.from_input(ConstantParameter(sl.num_output_units, value=0.0))
    else:
        log_partition = sl.log_partition.ref()
    int_sl = ConstantValueLayer(sl.num_output_units, log_space=True, value=log_partition)
>> *)
Definition odflt0 (o : option R) : R := match o with Some l => l | None => 0 end.
Definition gauss_layer_integrate (log_partition : option R) : R := exp (odflt0 log_partition).

(** The textbook Gaussian density. *)
Definition gauss (mu sigma x : R) : R :=
  exp (- (x - mu) ^ 2 / (2 * sigma ^ 2)) / (sigma * sqrt (2 * PI)).

Lemma two_PI_pos : 0 < 2 * PI.
Proof. generalize PI_RGT_0; lra. Qed.

Lemma sqrt_two_PI_pos : 0 < sqrt (2 * PI).
Proof. apply sqrt_lt_R0, two_PI_pos. Qed.

(** The layer without [log_partition] computes exactly the Gaussian density (sigma > 0). *)
Lemma exp_normal_log_prob : forall mu sigma x, 0 < sigma ->
  exp (normal_log_prob mu sigma x) = gauss mu sigma x.
Proof.
  intros mu sigma x Hs. unfold normal_log_prob, gauss. cbv zeta.
  pose proof sqrt_two_PI_pos as Hq.
  set (A := - (x - mu) ^ 2 / (2 * sigma ^ 2)).
  replace (A - ln sigma - ln (sqrt (2 * PI))) with (A + (- ln sigma + - ln (sqrt (2 * PI)))) by ring.
  rewrite !exp_plus, !exp_Ropp, !exp_ln by assumption.
  field. split; lra.
Qed.

Lemma gauss_layer_None : forall mu sigma x, 0 < sigma ->
  gauss_layer mu sigma None x = gauss mu sigma x.
Proof. intros. unfold gauss_layer; simpl. now apply exp_normal_log_prob. Qed.

Lemma gauss_layer_Some : forall mu sigma lp x, 0 < sigma ->
  gauss_layer mu sigma (Some lp) x = exp lp * gauss mu sigma x.
Proof.
  intros. unfold gauss_layer; simpl. rewrite exp_plus, exp_normal_log_prob by assumption. ring.
Qed.

Lemma gauss_layer_odflt0 : forall mu sigma lp x,
  gauss_layer mu sigma lp x = exp (odflt0 lp) * exp (normal_log_prob mu sigma x).
Proof.
  intros. unfold gauss_layer. destruct lp; simpl.
  - rewrite exp_plus; ring.
  - rewrite exp_0; ring.
Qed.

(** ** The three parameter nodes of the product rule (one pair (i, j) of units)              *)

(** nodes.py [TorchGaussianProductMean.forward]:
<<
        var1 = torch.square(stddev1)
        var2 = torch.square(stddev2)
        inv_var12 = torch.reciprocal(var1.unsqueeze(dim=2) + var2.unsqueeze(dim=1))
        wm1 = mean1.unsqueeze(dim=2) * var2.unsqueeze(dim=1)
        wm2 = mean2.unsqueeze(dim=1) * var1.unsqueeze(dim=2)
        mean = (wm1 + wm2) * inv_var12
>> *)
Definition gp_mean (mean1 stddev1 mean2 stddev2 : R) : R :=
  let var1 := stddev1 ^ 2 in
  let var2 := stddev2 ^ 2 in
  let inv_var12 := / (var1 + var2) in
  let wm1 := mean1 * var2 in
  let wm2 := mean2 * var1 in
  (wm1 + wm2) * inv_var12.

(** nodes.py [TorchGaussianProductStddev.forward]:
<<
        var1 = torch.square(x1)
        var2 = torch.square(x2)
        inv_var1 = torch.reciprocal(var1).unsqueeze(dim=2)
        inv_var2 = torch.reciprocal(var2).unsqueeze(dim=1)
        var = torch.reciprocal(inv_var1 + inv_var2)
        return torch.sqrt(var)
>> *)
Definition gp_stddev (stddev1 stddev2 : R) : R :=
  let var1 := stddev1 ^ 2 in
  let var2 := stddev2 ^ 2 in
  let inv_var1 := / var1 in
  let inv_var2 := / var2 in
  let var := / (inv_var1 + inv_var2) in
  sqrt var.

(** nodes.py [TorchGaussianProductLogPartition]:
<<
        self._log_two_pi = np.log(2.0 * np.pi)
        ...
        var1 = torch.square(stddev1)
        var2 = torch.square(stddev2)
        var12 = var1.unsqueeze(dim=2) + var2.unsqueeze(dim=1)
        inv_var12 = torch.reciprocal(var12)
        sq_mahalanobis = torch.square(mean1.unsqueeze(dim=2) - mean2.unsqueeze(dim=1)) * inv_var12
        log_partition = -0.5 * (self._log_two_pi + torch.log(var12) + sq_mahalanobis)
>> *)
Definition gp_logpart (mean1 stddev1 mean2 stddev2 : R) : R :=
  let log_two_pi := ln (2 * PI) in
  let var1 := stddev1 ^ 2 in
  let var2 := stddev2 ^ 2 in
  let var12 := var1 + var2 in
  let inv_var12 := / var12 in
  let sq_mahalanobis := (mean1 - mean2) ^ 2 * inv_var12 in
  -0.5 * (log_two_pi + ln var12 + sq_mahalanobis).

(** operators.py [multiply_gaussian_layers], the log-partition of the product layer:
<<
    log_partition = Parameter.from_nary(GaussianProductLogPartition(...), mean1, stddev1, mean2, stddev2)
    if sl1.log_partition is not None or sl2.log_partition is not None:
        if sl1.log_partition is None:
            log_partition1 = ConstantParameter(sl1.num_output_units, value=0.0)
        else:
            log_partition1 = sl1.log_partition.ref()
        (same for log_partition2)
        log_partition = Parameter.from_binary(
            SumParameter(log_partition.shape, log_partition.shape),
            log_partition,
            Parameter.from_binary(OuterSumParameter(..., axis=0), log_partition1, log_partition2))
    sl = GaussianLayer(sl1.scope, K1 * K2, mean=mean, stddev=stddev, log_partition=log_partition)
>>
   (the product layer ALWAYS carries a log_partition). *)
Definition gp_total_logpart (mean1 stddev1 : R) (lp1 : option R) (mean2 stddev2 : R) (lp2 : option R) : R :=
  let log_partition := gp_logpart mean1 stddev1 mean2 stddev2 in
  match lp1, lp2 with
  | None, None => log_partition
  | _, _ =>
      let log_partition1 := odflt0 lp1 in
      let log_partition2 := odflt0 lp2 in
      log_partition + (log_partition1 + log_partition2)
  end.

(** ** Facts about the product variance                                                       *)

Lemma gp_var_eq : forall s1 s2, 0 < s1 -> 0 < s2 ->
  / (/ (s1 ^ 2) + / (s2 ^ 2)) = s1 ^ 2 * s2 ^ 2 / (s1 ^ 2 + s2 ^ 2).
Proof.
  intros s1 s2 H1 H2. pose proof (sq_pos _ H1). pose proof (sq_pos _ H2).
  field. repeat split; lra.
Qed.

Lemma gp_var_pos : forall s1 s2, 0 < s1 -> 0 < s2 -> 0 < / (/ (s1 ^ 2) + / (s2 ^ 2)).
Proof.
  intros s1 s2 H1 H2. pose proof (sq_pos _ H1). pose proof (sq_pos _ H2).
  apply Rinv_0_lt_compat. apply Rplus_lt_0_compat; now apply Rinv_0_lt_compat.
Qed.

(** The product standard deviation is positive, so products can be iterated. *)
Lemma gp_stddev_pos : forall s1 s2, 0 < s1 -> 0 < s2 -> 0 < gp_stddev s1 s2.
Proof. intros. unfold gp_stddev; cbv zeta. apply sqrt_lt_R0. now apply gp_var_pos. Qed.

Lemma gp_stddev_sq : forall s1 s2, 0 < s1 -> 0 < s2 ->
  gp_stddev s1 s2 ^ 2 = s1 ^ 2 * s2 ^ 2 / (s1 ^ 2 + s2 ^ 2).
Proof.
  intros s1 s2 H1 H2. unfold gp_stddev; cbv zeta.
  rewrite pow2_sqrt by (left; now apply gp_var_pos). now apply gp_var_eq.
Qed.

Lemma ln_gp_stddev : forall s1 s2, 0 < s1 -> 0 < s2 ->
  ln (gp_stddev s1 s2) = ln s1 + ln s2 - ln (s1 ^ 2 + s2 ^ 2) / 2.
Proof.
  intros s1 s2 H1 H2. pose proof (sq_pos _ H1) as P1. pose proof (sq_pos _ H2) as P2.
  unfold gp_stddev; cbv zeta.
  rewrite ln_sqrt_half by now apply gp_var_pos.
  rewrite gp_var_eq by assumption.
  unfold Rdiv at 2. rewrite ln_mult; [| nra | apply Rinv_0_lt_compat; lra].
  rewrite ln_mult by assumption. rewrite ln_Rinv by lra. rewrite !ln_sq by assumption. lra.
Qed.

(** ** The key identity, in log space (this is literally what the layers add up)             *)

Lemma normal_log_prob_product : forall m1 s1 m2 s2 x, 0 < s1 -> 0 < s2 ->
  normal_log_prob m1 s1 x + normal_log_prob m2 s2 x =
  normal_log_prob (gp_mean m1 s1 m2 s2) (gp_stddev s1 s2) x + gp_logpart m1 s1 m2 s2.
Proof.
  intros m1 s1 m2 s2 x H1 H2.
  pose proof (sq_pos _ H1) as P1. pose proof (sq_pos _ H2) as P2.
  unfold normal_log_prob; cbv zeta.
  rewrite gp_stddev_sq, ln_gp_stddev by assumption.
  unfold gp_mean, gp_logpart; cbv zeta.
  rewrite (ln_sqrt_half (2 * PI)) by apply two_PI_pos.
  rewrite minus_half.
  generalize (ln (2 * PI)) (ln (s1 ^ 2 + s2 ^ 2)) (ln s1) (ln s2). intros a b c d.
  field. repeat split; nra.
Qed.

(** ** Main theorem: value of the product layer = product of the operand values              *)

(** For every pair of units (unit i of the first layer with parameters m1 s1 lp1, unit j of the
    second with m2 s2 lp2), including operands that themselves carry a log_partition
    (products of products): *)
Theorem multiply_gaussian_layers_correct :
  forall m1 s1 (lp1 : option R) m2 s2 (lp2 : option R) x,
    0 < s1 -> 0 < s2 ->
    gauss_layer (gp_mean m1 s1 m2 s2) (gp_stddev s1 s2)
                (Some (gp_total_logpart m1 s1 lp1 m2 s2 lp2)) x
    = gauss_layer m1 s1 lp1 x * gauss_layer m2 s2 lp2 x.
Proof.
  intros m1 s1 lp1 m2 s2 lp2 x H1 H2.
  unfold gauss_layer. rewrite <- exp_plus. f_equal.
  unfold gauss_log_unnormalized_likelihood, gp_total_logpart; cbv zeta.
  pose proof (normal_log_prob_product m1 s1 m2 s2 x H1 H2) as E.
  destruct lp1, lp2; simpl; lra.
Qed.

(** Same statement against the textbook density. *)
Corollary gauss_product_density : forall m1 s1 m2 s2 x, 0 < s1 -> 0 < s2 ->
  gauss m1 s1 x * gauss m2 s2 x =
  exp (gp_logpart m1 s1 m2 s2) * gauss (gp_mean m1 s1 m2 s2) (gp_stddev s1 s2) x.
Proof.
  intros m1 s1 m2 s2 x H1 H2.
  rewrite <- (gauss_layer_None m1 s1 x), <- (gauss_layer_None m2 s2 x) by assumption.
  rewrite <- (multiply_gaussian_layers_correct m1 s1 None m2 s2 None x H1 H2).
  simpl. apply gauss_layer_Some. now apply gp_stddev_pos.
Qed.

Corollary gauss_product_density_lp : forall m1 s1 l1 m2 s2 l2 x, 0 < s1 -> 0 < s2 ->
  (exp l1 * gauss m1 s1 x) * (exp l2 * gauss m2 s2 x) =
  exp (gp_logpart m1 s1 m2 s2 + (l1 + l2)) * gauss (gp_mean m1 s1 m2 s2) (gp_stddev s1 s2) x.
Proof.
  intros m1 s1 l1 m2 s2 l2 x H1 H2.
  rewrite <- (gauss_layer_Some m1 s1 l1 x), <- (gauss_layer_Some m2 s2 l2 x) by assumption.
  rewrite <- (multiply_gaussian_layers_correct m1 s1 (Some l1) m2 s2 (Some l2) x H1 H2).
  simpl. apply gauss_layer_Some. now apply gp_stddev_pos.
Qed.

(** The partition function produced by the rule is itself a Gaussian density:
    exp(log_partition) = N(mean1 ; mean2, sqrt(var1 + var2)). *)
Lemma exp_gp_logpart : forall m1 s1 m2 s2, 0 < s1 -> 0 < s2 ->
  exp (gp_logpart m1 s1 m2 s2) = gauss m1 (sqrt (s1 ^ 2 + s2 ^ 2)) m2.
Proof.
  intros m1 s1 m2 s2 H1 H2.
  pose proof (sq_pos _ H1) as P1. pose proof (sq_pos _ H2) as P2.
  assert (P : 0 < s1 ^ 2 + s2 ^ 2) by lra.
  assert (Q : 0 < sqrt (s1 ^ 2 + s2 ^ 2)) by now apply sqrt_lt_R0.
  rewrite <- exp_normal_log_prob by assumption. f_equal.
  unfold gp_logpart, normal_log_prob; cbv zeta.
  rewrite pow2_sqrt by lra. rewrite !ln_sqrt_half by (assumption || apply two_PI_pos).
  rewrite minus_half.
  generalize (ln (2 * PI)) (ln (s1 ^ 2 + s2 ^ 2)). intros a b.
  field. lra.
Qed.

(** Numeric sanity: N(0,1) * N(2,1) has mean 1, variance 1/2 and partition N(0; 2, sqrt 2). *)
Example gp_mean_ex : gp_mean 0 1 2 1 = 1.
Proof. unfold gp_mean; cbv zeta. field. Qed.
Example gp_stddev_ex : gp_stddev 1 1 ^ 2 = / 2.
Proof. rewrite gp_stddev_sq by lra. field. Qed.
Example gp_logpart_ex : gp_logpart 0 1 2 1 = - (ln (2 * PI) + ln 2) / 2 - 1.
Proof.
  unfold gp_logpart; cbv zeta. rewrite minus_half.
  replace (1 ^ 2 + 1 ^ 2) with 2 by ring. generalize (ln (2 * PI)) (ln 2); intros. field.
Qed.

(** ** Vector level: unit (i, j) of the product is unit [i * K2 + j]                          *)

(** The three nodes end with [.view(-1, K1 * K2)] of a tensor of shape (F, K1, K2), and
    [OuterSumParameter(axis=0)] with [x.view(F, K1 * K2)] of (F, K1, K2): in both cases the flat
    index of the pair (i, j) is [i * K2 + j].  A layer with K units is a function from the unit
    index to its scalars. *)
Record glayer := mkG {
  g_units : nat;
  g_mean : nat -> R;
  g_stddev : nat -> R;
  g_logpart : option (nat -> R)
}.

Definition glayer_value (l : glayer) (k : nat) (x : R) : R :=
  gauss_layer (g_mean l k) (g_stddev l k)
              (match g_logpart l with Some lp => Some (lp k) | None => None end) x.

Definition multiply_gaussian_layers (l1 l2 : glayer) : glayer :=
  let K2 := g_units l2 in
  let fst_ (k : nat) := (k / K2)%nat in
  let snd_ (k : nat) := (k mod K2)%nat in
  let lpo (l : glayer) (k : nat) := match g_logpart l with Some lp => Some (lp k) | None => None end in
  mkG (g_units l1 * g_units l2)
      (fun k => gp_mean (g_mean l1 (fst_ k)) (g_stddev l1 (fst_ k)) (g_mean l2 (snd_ k)) (g_stddev l2 (snd_ k)))
      (fun k => gp_stddev (g_stddev l1 (fst_ k)) (g_stddev l2 (snd_ k)))
      (Some (fun k => gp_total_logpart (g_mean l1 (fst_ k)) (g_stddev l1 (fst_ k)) (lpo l1 (fst_ k))
                                       (g_mean l2 (snd_ k)) (g_stddev l2 (snd_ k)) (lpo l2 (snd_ k)))).

Definition glayer_wf (l : glayer) : Prop := forall k, (k < g_units l)%nat -> 0 < g_stddev l k.

Theorem multiply_gaussian_layers_units : forall l1 l2 i j x,
  glayer_wf l1 -> glayer_wf l2 -> (i < g_units l1)%nat -> (j < g_units l2)%nat ->
  glayer_value (multiply_gaussian_layers l1 l2) (i * g_units l2 + j) x
  = glayer_value l1 i x * glayer_value l2 j x.
Proof.
  intros l1 l2 i j x W1 W2 Hi Hj.
  unfold glayer_value, multiply_gaussian_layers; cbv zeta; simpl.
  assert (E1 : ((i * g_units l2 + j) / g_units l2 = i)%nat).
  { rewrite Nat.div_add_l by lia. rewrite Nat.div_small by assumption. lia. }
  assert (E2 : ((i * g_units l2 + j) mod g_units l2 = j)%nat).
  { rewrite Nat.add_comm, Nat.mod_add by lia. now apply Nat.mod_small. }
  rewrite E1, E2.
  apply multiply_gaussian_layers_correct; [now apply W1 | now apply W2].
Qed.

Theorem multiply_gaussian_layers_wf : forall l1 l2,
  glayer_wf l1 -> glayer_wf l2 -> glayer_wf (multiply_gaussian_layers l1 l2).
Proof.
  intros l1 l2 W1 W2 k Hk. simpl in *.
  assert (g_units l2 <> 0)%nat by (intros E; rewrite E in Hk; lia).
  apply gp_stddev_pos.
  - apply W1. apply Nat.div_lt_upper_bound; [assumption | lia].
  - apply W2. now apply Nat.mod_upper_bound.
Qed.

(** ** 3b. Integration of Gaussian layers, conditionally on the Gaussian integral            *)

Section GaussIntegral.

  (** NOT proved here (hypothesis of the section, not an axiom): the normal density integrates
      to one over the real line. *)
  Hypothesis gauss_integral_one : forall m s, 0 < s ->
    is_RInt_gen (fun x => exp (normal_log_prob m s x))
                (Rbar_locally m_infty) (Rbar_locally p_infty) 1.

  (** [integrate_gaussian_layer] / [TorchExpFamilyLayer.integrate] is right for any Gaussian unit *)
  Lemma gauss_layer_integral : forall m s lp, 0 < s ->
    is_RInt_gen (gauss_layer m s lp) (Rbar_locally m_infty) (Rbar_locally p_infty)
                (gauss_layer_integrate lp).
  Proof.
    intros m s lp Hs. unfold gauss_layer_integrate.
    pose proof (is_RInt_gen_scal (fun x => exp (normal_log_prob m s x)) (exp (odflt0 lp)) 1
                                 (gauss_integral_one m s Hs)) as H.
    unfold scal in H; simpl in H; unfold mult in H; simpl in H. rewrite Rmult_1_r in H.
    eapply is_RInt_gen_ext; [| exact H].
    apply filter_forall. intros ab x _. rewrite gauss_layer_odflt0. reflexivity.
  Qed.

  (** integrate (multiply (l1, l2)) on the pair (i, j) = the integral of the product of the two
      operand units: exp of the log_partition built by [multiply_gaussian_layers]. *)
  Theorem multiply_gaussian_layers_integral : forall m1 s1 lp1 m2 s2 lp2, 0 < s1 -> 0 < s2 ->
    is_RInt_gen (fun x => gauss_layer m1 s1 lp1 x * gauss_layer m2 s2 lp2 x)
                (Rbar_locally m_infty) (Rbar_locally p_infty)
                (gauss_layer_integrate (Some (gp_total_logpart m1 s1 lp1 m2 s2 lp2))).
  Proof.
    intros m1 s1 lp1 m2 s2 lp2 H1 H2.
    eapply is_RInt_gen_ext; [| apply gauss_layer_integral, (gp_stddev_pos s1 s2 H1 H2) ].
    apply filter_forall. intros ab x _.
    now apply multiply_gaussian_layers_correct.
  Qed.

  (** e.g. for two normalised Gaussians the integral of the product is
      N(mean1; mean2, sqrt(var1 + var2)) *)
  Corollary gauss_product_integral : forall m1 s1 m2 s2, 0 < s1 -> 0 < s2 ->
    is_RInt_gen (fun x => gauss m1 s1 x * gauss m2 s2 x)
                (Rbar_locally m_infty) (Rbar_locally p_infty)
                (gauss m1 (sqrt (s1 ^ 2 + s2 ^ 2)) m2).
  Proof.
    intros m1 s1 m2 s2 H1 H2.
    rewrite <- exp_gp_logpart by assumption.
    eapply is_RInt_gen_ext; [| apply (multiply_gaussian_layers_integral m1 s1 None m2 s2 None H1 H2) ].
    apply filter_forall. intros ab x _. simpl.
    now rewrite !gauss_layer_None.
  Qed.

End GaussIntegral.

(* ------------------------------------------------------------------------------------------ *)
(** * 2. Categorical layers                                                                    *)
(* ------------------------------------------------------------------------------------------ *)

(** input.py [TorchCategoricalLayer.log_unnormalized_likelihood]:
<<
        if self.logits is None:
            logits = torch.log(self.probs())
        else:
            logits = self.logits()
        x = logits[idx_fold[:, None], :, x]
>>
   then [forward] maps to the sum-product semiring with exp.  One unit: [param s] is the
   probability resp. the logit of state s; [is_logits] tells which. *)
Definition cat_logits (is_logits : bool) (param : nat -> R) (s : nat) : R :=
  if is_logits then param s else ln (param s).

Definition cat_layer (is_logits : bool) (param : nat -> R) (s : nat) : R :=
  exp (cat_logits is_logits param s).

(** operators.py [multiply_categorical_layers]:
<<
    if sl1.logits is None:
        sl1_logits = Parameter.from_unary(LogParameter(sl1.probs.shape), sl1.probs.ref())
    else:
        sl1_logits = sl1.logits.ref()
    (same for sl2)
    sl_logits = Parameter.from_binary(OuterSumParameter(sl1_logits.shape, sl2_logits.shape, axis=0),
                                      sl1_logits, sl2_logits)
    sl = CategoricalLayer(sl1.scope, K1 * K2, num_categories=..., logits=sl_logits)
>>
   nodes.py [TorchLogParameter.forward]: [torch.log(x)];
   [TorchOuterSumParameter.forward]: [x = x1 + x2] on the pair (i, j).
   So unit (i, j) of the product has LOGITS: *)
Definition cat_product_logits (lg1 : bool) (p1 : nat -> R) (lg2 : bool) (p2 : nat -> R) (s : nat) : R :=
  cat_logits lg1 p1 s + cat_logits lg2 p2 s.

(** The value of a categorical unit: the probability itself, PROVIDED it is positive
    (in Coq [ln 0 = 0]; in torch [log 0 = -inf] and [exp (-inf) = 0], see the note at the end). *)
Lemma cat_layer_probs : forall p s, 0 < p s -> cat_layer false p s = p s.
Proof. intros. unfold cat_layer, cat_logits. now apply exp_ln. Qed.

Lemma cat_layer_logits : forall l s, cat_layer true l s = exp (l s).
Proof. reflexivity. Qed.

(** As implemented (exp of a sum of logs): the product layer evaluates to the product of the
    operand layers, for the four combinations probs/logits; no hypothesis needed at this level
    because the operand layers themselves evaluate exp (log p). *)
Theorem multiply_categorical_layers_correct : forall lg1 p1 lg2 p2 s,
  cat_layer true (cat_product_logits lg1 p1 lg2 p2) s = cat_layer lg1 p1 s * cat_layer lg2 p2 s.
Proof. intros. unfold cat_layer, cat_product_logits; simpl. apply exp_plus. Qed.

(** The three mathematical readings. *)
Corollary cat_product_probs_probs : forall p1 p2 s, 0 < p1 s -> 0 < p2 s ->
  cat_layer true (cat_product_logits false p1 false p2) s = p1 s * p2 s.
Proof.
  intros. rewrite multiply_categorical_layers_correct. now rewrite !cat_layer_probs.
Qed.

Corollary cat_product_logits_logits : forall l1 l2 s,
  cat_layer true (cat_product_logits true l1 true l2) s = exp (l1 s) * exp (l2 s).
Proof. intros. now rewrite multiply_categorical_layers_correct. Qed.

Corollary cat_product_probs_logits : forall p1 l2 s, 0 < p1 s ->
  cat_layer true (cat_product_logits false p1 true l2) s = p1 s * exp (l2 s).
Proof.
  intros. rewrite multiply_categorical_layers_correct. now rewrite cat_layer_probs.
Qed.

Corollary cat_product_logits_probs : forall l1 p2 s, 0 < p2 s ->
  cat_layer true (cat_product_logits true l1 false p2) s = exp (l1 s) * p2 s.
Proof.
  intros. rewrite multiply_categorical_layers_correct. now rewrite cat_layer_probs.
Qed.

(** The bare scalar identities. *)
Lemma exp_ln_plus : forall p1 p2, 0 < p1 -> 0 < p2 -> exp (ln p1 + ln p2) = p1 * p2.
Proof. intros. rewrite exp_plus, !exp_ln by assumption. reflexivity. Qed.

Lemma exp_ln_plus_mixed : forall p1 l2, 0 < p1 -> exp (ln p1 + l2) = p1 * exp l2.
Proof. intros. rewrite exp_plus, exp_ln by assumption. reflexivity. Qed.

(** Without positivity the real-number statement is FALSE (Coq's [ln 0 = 0]): this is why the
    hypothesis is there; it is an artefact of totalising ln, not of the Python. *)
Lemma exp_ln_plus_zero_counterexample : exp (ln 0 + ln 0) <> 0 * 0.
Proof.
  assert (E : ln 0 = 0).
  { unfold ln. destruct (Rlt_dec 0 0) as [r | r].
    - exfalso; lra.
    - reflexivity. }
  rewrite E, Rplus_0_r, exp_0. lra.
Qed.

(** Vector level, same pairing as for Gaussians: unit [i * K2 + j]. *)
Definition multiply_categorical_units (K2 : nat) (lg1 : bool) (p1 : nat -> nat -> R)
           (lg2 : bool) (p2 : nat -> nat -> R) (k : nat) (s : nat) : R :=
  cat_product_logits lg1 (p1 (k / K2)%nat) lg2 (p2 (k mod K2)%nat) s.

Theorem multiply_categorical_layers_units : forall K2 lg1 p1 lg2 p2 i j s,
  (j < K2)%nat ->
  cat_layer true (multiply_categorical_units K2 lg1 p1 lg2 p2 (i * K2 + j)) s
  = cat_layer lg1 (p1 i) s * cat_layer lg2 (p2 j) s.
Proof.
  intros K2 lg1 p1 lg2 p2 i j s Hj.
  unfold multiply_categorical_units.
  assert (E1 : ((i * K2 + j) / K2 = i)%nat).
  { rewrite Nat.div_add_l by lia. rewrite Nat.div_small by assumption. lia. }
  assert (E2 : ((i * K2 + j) mod K2 = j)%nat).
  { rewrite Nat.add_comm, Nat.mod_add by lia. now apply Nat.mod_small. }
  unfold cat_layer at 1. unfold cat_logits at 1. unfold cat_product_logits.
  rewrite E1, E2. apply exp_plus.
Qed.

(** Integration of a categorical unit with logits, operators.py [integrate_categorical_layer]:
<<
        reduce_lse = ReduceLSEParameter(sl.logits.shape, axis=1)
        log_partition = Parameter.from_unary(reduce_lse, sl.logits.ref())
    int_sl = ConstantValueLayer(sl.num_output_units, log_space=True, value=log_partition)
>>
   exp (logsumexp logits) is the sum over the states of the unit's values. *)
Definition Rsum (l : list R) : R := fold_right Rplus 0 l.

Lemma Rsum_exp_pos : forall l, l <> [] -> 0 < Rsum (map exp l).
Proof.
  induction l as [| a l IH]; [congruence |]. intros _. simpl.
  destruct l as [| b l].
  - simpl. generalize (exp_pos a); lra.
  - assert (0 < Rsum (map exp (b :: l))) by (apply IH; congruence).
    generalize (exp_pos a); lra.
Qed.

Theorem integrate_categorical_logits : forall logits, logits <> [] ->
  exp (ln (Rsum (map exp logits))) = Rsum (map exp logits).
Proof. intros. apply exp_ln. now apply Rsum_exp_pos. Qed.

(* ------------------------------------------------------------------------------------------ *)
(** * 3a. Conjugation                                                                          *)
(* ------------------------------------------------------------------------------------------ *)

(** operators.py [conjugate_categorical_layer] / [conjugate_gaussian_layer] rebuild the layer
    with the SAME parameters ([sl.logits.ref()], [sl.probs.ref()], [sl.mean.ref()], ...).
    The values of these layers are real ([exp] of a real number), and a real number is its own
    complex conjugate, so the rule is the identity on values.  With Coquelicot's complex
    numbers: *)
Lemma conj_gauss_layer : forall m s lp x,
  Cconj (RtoC (gauss_layer m s lp x)) = RtoC (gauss_layer m s lp x).
Proof. intros. unfold Cconj, RtoC; simpl. now rewrite Ropp_0. Qed.

Lemma conj_cat_layer : forall lg p s,
  Cconj (RtoC (cat_layer lg p s)) = RtoC (cat_layer lg p s).
Proof. intros. unfold Cconj, RtoC; simpl. now rewrite Ropp_0. Qed.

(* ------------------------------------------------------------------------------------------ *)
(** * 4. Binomial layer                                                                        *)
(* ------------------------------------------------------------------------------------------ *)

(** input.py [TorchBinomialLayer.log_unnormalized_likelihood]:
<<
        if self.logits is None:
            dist = distributions.Binomial(self.total_count, probs=probs)
        else:
            dist = distributions.Binomial(self.total_count, logits=logits)
        return dist.log_prob(x)
>>
   torch/distributions/binomial.py:
<<
def _clamp_by_zero(x):
    # works like clamp(x, min=0) but has grad at 0 is 0.5
    return (x.clamp(min=0) + x - x.clamp(max=0)) / 2

    def log_prob(self, value):
        log_factorial_n = torch.lgamma(self.total_count + 1)
        log_factorial_k = torch.lgamma(value + 1)
        log_factorial_nmk = torch.lgamma(self.total_count - value + 1)
        normalize_term = (
            self.total_count * _clamp_by_zero(self.logits)
            + self.total_count * torch.log1p(torch.exp(-torch.abs(self.logits)))
            - log_factorial_n
        )
        return (
            value * self.logits - log_factorial_k - log_factorial_nmk - normalize_term
        )
>>
   with, when probs are given, [logits = probs_to_logits(probs, is_binary=True)
   = torch.log(ps_clamped) - torch.log1p(-ps_clamped)], and, when logits are given,
   [probs = torch.sigmoid(logits)].
   Modelling assumptions: [lgamma (m + 1) = ln (m!)] for a natural m, [log1p y = ln (1 + y)],
   and the eps-clamping of the probabilities is ignored (0 < p < 1). *)
Definition clamp_by_zero (x : R) : R := (Rmax x 0 + x - Rmin x 0) / 2.
Definition lgamma_succ (m : nat) : R := ln (INR (fact m)).

Definition binomial_log_prob (total_count : nat) (logits : R) (value : nat) : R :=
  let log_factorial_n := lgamma_succ total_count in
  let log_factorial_k := lgamma_succ value in
  let log_factorial_nmk := lgamma_succ (total_count - value) in
  let normalize_term :=
    INR total_count * clamp_by_zero logits
    + INR total_count * ln (1 + exp (- Rabs logits))
    - log_factorial_n in
  INR value * logits - log_factorial_k - log_factorial_nmk - normalize_term.

Definition sigmoid (x : R) : R := / (1 + exp (- x)).
Definition probs_to_logits (p : R) : R := ln p - ln (1 + - p).

(** value of a Binomial unit (sum-product semiring) *)
Definition binomial_layer_logits (n : nat) (logits : R) (k : nat) : R :=
  exp (binomial_log_prob n logits k).
Definition binomial_layer_probs (n : nat) (p : R) (k : nat) : R :=
  exp (binomial_log_prob n (probs_to_logits p) k).

(** the binomial pmf; [Binomial.C n k] is the binomial coefficient of the standard library
    ([INR (fact n) / (INR (fact k) * INR (fact (n - k)))]) *)
Definition binomial_pmf (n : nat) (p : R) (k : nat) : R :=
  Binomial.C n k * p ^ k * (1 - p) ^ (n - k).

Lemma clamp_by_zero_max : forall x, clamp_by_zero x = Rmax x 0.
Proof.
  intros x. unfold clamp_by_zero, Rmax, Rmin.
  destruct (Rle_dec x 0); lra.
Qed.

(** the numerically stable softplus of torch is ln (1 + e^l) *)
Lemma stable_softplus : forall l,
  clamp_by_zero l + ln (1 + exp (- Rabs l)) = ln (1 + exp l).
Proof.
  intros l. rewrite clamp_by_zero_max. unfold Rmax, Rabs.
  destruct (Rle_dec l 0) as [H | H]; destruct (Rcase_abs l) as [H' | H']; try lra.
  - rewrite Ropp_involutive. lra.
  - assert (l = 0) by lra. subst. rewrite Ropp_0. lra.
  - (* l > 0 *)
    assert (E : 1 + exp l = exp l * (1 + exp (- l))).
    { rewrite Rmult_plus_distr_l, <- exp_plus, Rplus_opp_r, exp_0. ring. }
    rewrite E, ln_mult, ln_exp; [reflexivity | apply exp_pos |].
    generalize (exp_pos (- l)); lra.
Qed.

Lemma sigmoid_alt : forall l, sigmoid l = exp l / (1 + exp l).
Proof.
  intros l. unfold sigmoid. rewrite exp_Ropp.
  generalize (exp_pos l); intros. field. lra.
Qed.

Lemma one_minus_sigmoid : forall l, 1 - sigmoid l = / (1 + exp l).
Proof.
  intros l. rewrite sigmoid_alt. generalize (exp_pos l); intros. field. lra.
Qed.

Lemma exp_INR_mult : forall n x, exp (INR n * x) = exp x ^ n.
Proof.
  induction n as [| n IH]; intros x.
  - simpl. rewrite Rmult_0_l. apply exp_0.
  - rewrite S_INR, Rmult_plus_distr_r, Rmult_1_l, exp_plus, IH. simpl. ring.
Qed.

Lemma INR_fact_pos : forall n, 0 < INR (fact n).
Proof. intros. apply lt_0_INR, lt_O_fact. Qed.

(** logits parameterisation: the layer is the binomial pmf with p = sigmoid(logits) *)
Theorem binomial_layer_logits_correct : forall n l k, (k <= n)%nat ->
  binomial_layer_logits n l k = binomial_pmf n (sigmoid l) k.
Proof.
  intros n l k Hk. unfold binomial_layer_logits, binomial_log_prob, lgamma_succ; cbv zeta.
  pose proof (INR_fact_pos n) as Fn. pose proof (INR_fact_pos k) as Fk.
  pose proof (INR_fact_pos (n - k)) as Fnk. pose proof (exp_pos l) as El.
  assert (Hpos : 0 < 1 + exp l) by lra.
  replace (INR k * l - ln (INR (fact k)) - ln (INR (fact (n - k))) -
           (INR n * clamp_by_zero l + INR n * ln (1 + exp (- Rabs l)) - ln (INR (fact n))))
    with (INR k * l + (- ln (INR (fact k)) + (- ln (INR (fact (n - k)))
          + (- (INR n * ln (1 + exp l)) + ln (INR (fact n))))))
    by (rewrite <- stable_softplus; ring).
  rewrite !exp_plus, !exp_Ropp, !exp_ln by assumption.
  rewrite !exp_INR_mult, exp_ln by assumption.
  unfold binomial_pmf, Binomial.C. rewrite one_minus_sigmoid, sigmoid_alt.
  assert (Hn : (1 + exp l) ^ n = (1 + exp l) ^ k * (1 + exp l) ^ (n - k)).
  { rewrite <- pow_add. f_equal. lia. }
  rewrite Hn. unfold Rdiv. rewrite Rpow_mult_distr, !pow_inv.
  assert (0 < (1 + exp l) ^ k) by now apply pow_lt.
  assert (0 < (1 + exp l) ^ (n - k)) by now apply pow_lt.
  field. repeat split; lra.
Qed.

(** probs parameterisation: sigmoid (log p - log1p (-p)) = p, hence the layer is the pmf *)
Lemma sigmoid_probs_to_logits : forall p, 0 < p < 1 -> sigmoid (probs_to_logits p) = p.
Proof.
  intros p [H0 H1]. rewrite sigmoid_alt. unfold probs_to_logits.
  unfold Rminus. rewrite exp_plus, exp_Ropp, !exp_ln by lra. field. lra.
Qed.

Theorem binomial_layer_probs_correct : forall n p k, (k <= n)%nat -> 0 < p < 1 ->
  binomial_layer_probs n p k = binomial_pmf n p k.
Proof.
  intros n p k Hk Hp. unfold binomial_layer_probs.
  change (exp (binomial_log_prob n (probs_to_logits p) k))
    with (binomial_layer_logits n (probs_to_logits p) k).
  rewrite binomial_layer_logits_correct by assumption.
  now rewrite sigmoid_probs_to_logits.
Qed.

(** [TorchBinomialLayer.log_partition_function] returns zeros in BOTH parameterisations, i.e.
    integrate = 1.  That is right: the pmf sums to one over k = 0..n whatever p is (also for
    p = sigmoid(logits)), by the binomial theorem. *)
Theorem binomial_pmf_sums_to_one : forall n p,
  sum_f_R0 (fun k => binomial_pmf n p k) n = 1.
Proof.
  intros n p. unfold binomial_pmf.
  rewrite <- (binomial p (1 - p) n). replace (p + (1 - p)) with 1 by ring. now rewrite pow1.
Qed.

(* ------------------------------------------------------------------------------------------ *)
(** * Axioms                                                                                   *)
(* ------------------------------------------------------------------------------------------ *)

Print Assumptions multiply_gaussian_layers_correct.
Print Assumptions multiply_gaussian_layers_units.
Print Assumptions gauss_product_density.
Print Assumptions exp_gp_logpart.
Check multiply_gaussian_layers_integral.
Print Assumptions multiply_gaussian_layers_integral.
Print Assumptions multiply_categorical_layers_correct.
Print Assumptions cat_product_probs_probs.
Print Assumptions integrate_categorical_logits.
Print Assumptions binomial_layer_logits_correct.
Print Assumptions binomial_layer_probs_correct.
Print Assumptions binomial_pmf_sums_to_one.
