From Coq Require Import List Lia Bool Arith Wf_nat.
Import ListNotations.
From CK Require Import Gen.

Section Fold.
Variable V : Type.
Variable dV : V.

(* ---------- unfolded graph ---------- *)
Record umod := { uins : list nat; ufn : list V -> V }.
Definition ugraph := list umod.
Definition dmod : umod := {| uins := []; ufn := fun _ => dV |}.
Definition ustep (m : umod) (acc : list V) : V := ufn m (map (fun j => nth j acc dV) (uins m)).
Definition ueval (g : ugraph) : list V := gen_eval umod V ustep g.
Definition uwf (g : ugraph) := gwf umod dmod uins g.
Lemma ustep_local m acc acc' : (forall j, In j (uins m) -> nth j acc dV = nth j acc' dV) -> ustep m acc = ustep m acc'.
Proof. intros H. unfold ustep. f_equal. apply map_ext_in. exact H. Qed.
Lemma ueval_spec g : uwf g -> forall i, i < length g -> nth i (ueval g) dV = ustep (nth i g dmod) (ueval g).
Proof. apply (gen_spec umod V dmod dV ustep uins ustep_local). Qed.

(* ---------- folded graph with address book ---------- *)
Record fmod := { members : list nat; ids : list nat; cum : list (list nat) }.
Definition fgraph := list fmod.
Definition dfm : fmod := {| members := []; ids := []; cum := [] |}.
Variable g : ugraph.
Fixpoint map2 {A B C} (f : A -> B -> C) (l : list A) (m : list B) : list C :=
  match l, m with a :: l, b :: m => f a b :: map2 f l m | _, _ => [] end.
Definition gather (M : fmod) (outs : list (list V)) : list V := concat (map (fun mid => nth mid outs []) (ids M)).
Definition fstep (M : fmod) (outs : list (list V)) : list V :=
  map2 (fun i idxs => ufn (nth i g dmod) (map (fun ix => nth ix (gather M outs) dV) idxs)) (members M) (cum M).
Definition feval (F : fgraph) : list (list V) := gen_eval fmod (list V) fstep F.
Definition fwf (F : fgraph) := gwf fmod dfm ids F.
Lemma fstep_local M acc acc' : (forall j, In j (ids M) -> nth j acc [] = nth j acc' []) -> fstep M acc = fstep M acc'.
Proof. intros H. unfold fstep, gather. replace (map (fun mid => nth mid acc []) (ids M)) with (map (fun mid => nth mid acc' []) (ids M)); [reflexivity|].
  apply map_ext_in. intros; symmetry; apply H; assumption. Qed.
Lemma feval_spec F : fwf F -> forall Mi, Mi < length F -> nth Mi (feval F) [] = fstep (nth Mi F dfm) (feval F).
Proof. apply (gen_spec fmod (list V) dfm [] fstep ids fstep_local). Qed.

Lemma length_map2 {A B C} (f : A -> B -> C) l m : length l = length m -> length (map2 f l m) = length l.
Proof. revert m; induction l as [|a l IH]; intros [|b m] H; simpl in *; try discriminate; auto. Qed.
Lemma nth_map2 {A B C} (f : A -> B -> C) l m da db dc s : length l = length m -> s < length l ->
  nth s (map2 f l m) dc = f (nth s l da) (nth s m db).
Proof. revert m s; induction l as [|a l IH]; intros [|b m] s H Hs; simpl in *; try discriminate; try lia.
  destruct s; [reflexivity|]. apply IH; lia. Qed.

(* cumulative offsets *)
Fixpoint offsets (is : list nat) (len : nat -> nat) (acc : nat) : list (nat * nat) :=
  match is with [] => [] | i :: r => (i, acc) :: offsets r len (acc + len i) end.
Lemma nth_concat_offset (out : nat -> list V) (len : nat -> nat) :
  forall is acc fid off s, (forall i, In i is -> length (out i) = len i) ->
  In (fid, off) (offsets is len acc) -> s < len fid ->
  acc <= off /\ nth (off - acc + s) (concat (map out is)) dV = nth s (out fid) dV.
Proof.
  induction is as [|i r IH]; intros acc fid off s Hlen Hin Hs; simpl in *; [contradiction|].
  destruct Hin as [E|Hin].
  - inversion E; subst. split; [lia|]. replace (off - off + s) with s by lia.
    rewrite app_nth1; [reflexivity| rewrite Hlen by auto; exact Hs].
  - destruct (IH (acc + len i) fid off s) as [Hle Hn]; auto. split; [lia|].
    rewrite app_nth2; rewrite Hlen by auto; [|lia].
    replace (off - acc + s - len i) with (off - (acc + len i) + s) by lia. exact Hn.
Qed.

(* ---------- consistency of an address book w.r.t. the unfolded graph ---------- *)
Definition fsize (F : fgraph) (mid : nat) := length (members (nth mid F dfm)).
Definition consistent (F : fgraph) : Prop :=
  forall Mi, Mi < length F -> let M := nth Mi F dfm in
    length (cum M) = length (members M) /\
    forall s, s < length (members M) -> let i := nth s (members M) 0 in
      i < length g /\ length (nth s (cum M) []) = length (uins (nth i g dmod)) /\
      forall h, h < length (uins (nth i g dmod)) ->
        exists fj sj off, fj < Mi /\ sj < fsize F fj /\ nth sj (members (nth fj F dfm)) 0 = nth h (uins (nth i g dmod)) 0
          /\ In (fj, off) (offsets (ids M) (fsize F) 0) /\ nth h (nth s (cum M) []) 0 = off + sj.

Lemma offsets_In is len acc fid off : In (fid, off) (offsets is len acc) -> In fid is.
Proof. revert acc; induction is as [|i r IH]; intros acc H; simpl in *; [contradiction|]. destruct H as [E|H]; [inversion E; auto | right; eapply IH; eauto]. Qed.

Lemma list_eq_nth {A} (d : A) (l l' : list A) : length l = length l' -> (forall k, k < length l -> nth k l d = nth k l' d) -> l = l'.
Proof. revert l'; induction l as [|a l IH]; intros [|b l'] HL H; simpl in *; try discriminate; [reflexivity|].
  f_equal; [exact (H 0 ltac:(lia)) | apply IH; [lia | intros k Hk; exact (H (S k) ltac:(lia))]]. Qed.

Lemma nth_map_d {A B} (f : A -> B) (l : list A) (d : B) (d0 : A) h : h < length l -> nth h (map f l) d = f (nth h l d0).
Proof. intros H. rewrite (nth_indep _ d (f d0)) by (rewrite map_length; exact H). apply map_nth. Qed.

Theorem folded_sound F : uwf g -> fwf F -> consistent F ->
  forall Mi, Mi < length F ->
    length (nth Mi (feval F) []) = fsize F Mi /\
    forall s, s < fsize F Mi -> nth s (nth Mi (feval F) []) dV = nth (nth s (members (nth Mi F dfm)) 0) (ueval g) dV.
Proof.
  intros Hu Hf Hc Mi. induction Mi as [Mi IH] using lt_wf_ind. intros HMi.
  destruct (Hc Mi HMi) as [Hlc Hmem]. set (M := nth Mi F dfm) in *.
  rewrite (feval_spec F Hf Mi HMi). fold M. unfold fstep.
  split.
  - unfold fsize. fold M. apply length_map2. symmetry; exact Hlc.
  - intros s Hs. unfold fsize in Hs. fold M in Hs.
    rewrite (nth_map2 _ _ _ 0 [] dV) by (auto; symmetry; exact Hlc).
    destruct (Hmem s Hs) as [Hig [Hlen Hin]]. set (i := nth s (members M) 0) in *.
    rewrite (ueval_spec g Hu i Hig). unfold ustep. f_equal.
    apply (list_eq_nth dV); [rewrite !map_length; exact Hlen|].
    intros h Hh. rewrite map_length in Hh. rewrite Hlen in Hh.
    rewrite (nth_map_d (fun ix => nth ix (gather M (feval F)) dV) _ dV 0) by (rewrite Hlen; exact Hh).
    rewrite (nth_map_d (fun j => nth j (ueval g) dV) _ dV 0) by exact Hh.
    destruct (Hin h Hh) as [fj [sj [off [Hfj [Hsj [Hmemj [Hoff Hcum]]]]]]].
    rewrite Hcum. unfold gather.
    assert (HIHlen : forall mid, In mid (ids M) -> length (nth mid (feval F) []) = fsize F mid).
    { intros mid Hmid. assert (mid < Mi) by (apply (Hf Mi HMi mid Hmid)). apply IH; lia. }
    destruct (nth_concat_offset (fun mid => nth mid (feval F) []) (fsize F) (ids M) 0 fj off sj HIHlen Hoff Hsj) as [_ Hn].
    rewrite Nat.sub_0_r in Hn. rewrite Hn.
    destruct (IH fj Hfj ltac:(lia)) as [_ IHv]. rewrite (IHv sj Hsj). rewrite Hmemj. reflexivity.
Qed.
End Fold.
Check folded_sound. Print Assumptions folded_sound.
