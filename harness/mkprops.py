"""Generate coq/Props/<id>.v from a table (property id -> list of (module, lemma, comment)).
The statement of each property theorem is the printed type of the proved lemma, re-parsed by Coq
(so the Props file shows the full statement and is closed by `exact <lemma>`)."""
import os, re, subprocess, sys
COQ = os.path.join(os.path.dirname(os.path.dirname(os.path.abspath(__file__))), "coq")

PRE = {}   # property id -> extra imports (only C05's real-analysis instance needs any)
CUR = [""]

def check_type(mods, name):
    src = CUR[0] + "From Coq Require Import List ZArith QArith Qcanon Ring_theory Field_theory Permutation Sorted.\nImport ListNotations.\n" + \
          "".join(f"From CK Require Import {m}.\n" for m in mods) + \
          "Close Scope Qc_scope. Close Scope Q_scope. Close Scope Z_scope. Open Scope nat_scope.\nSet Printing Width 110.\n" + f"Check {name}.\n"
    open("/tmp/_chk.v", "w").write(src)
    out = subprocess.run(f"coqc -Q {COQ} CK /tmp/_chk.v", shell=True, capture_output=True, text=True)
    if out.returncode != 0:
        raise SystemExit(out.stdout + out.stderr)
    m = re.search(re.escape(name) + r"\s*:\s*(.*)", out.stdout, re.S)
    return m.group(1).strip()

def gen(pid, title, mods, items):
    CUR[0] = PRE.get(pid, "")
    lines = [f"(* {pid} — {title}", "   Property theorems only: each is closed by `exact <lemma>`; proofs live in the imported files. *)",
             "From Coq Require Import List ZArith QArith Qcanon Ring_theory Field_theory Permutation Sorted.", "Import ListNotations."]
    if CUR[0]:
        lines.insert(2, CUR[0].rstrip("\n"))
    lines += [f"From CK Require Import {m}." for m in mods]
    lines += ["Close Scope Qc_scope. Close Scope Q_scope. Close Scope Z_scope. Open Scope nat_scope.", ""]
    for name, thm, comment in items:
        ty = check_type(mods, name)
        lines += [f"(* {comment} *)", f"Theorem {thm} :", "  " + ty.replace("\n", "\n  ") + ".", f"Proof. exact {name}. Qed.", f"Print Assumptions {thm}.", ""]
    open(os.path.join(COQ, "Props", f"{pid}.v"), "w").write("\n".join(lines))
    r = subprocess.run(f"coqc -Q {COQ} CK {COQ}/Props/{pid}.v", shell=True, capture_output=True, text=True)
    print(pid, "rc", r.returncode, r.stdout.count("Closed under the global context"), "closed", (r.stderr or r.stdout)[-400:] if r.returncode else "")

TABLE = {
 "C03": ("integrate returns exactly the marginal / partition function", ["Base", "Circ", "Integrate"], [
   ("integrate_correct", "C03_integrate", "for every commutative semiring, every family of linear functionals Int (finite sums or integrals), every ok (smooth, decomposable, well-formed) circuit with input/sum/Hadamard/Kronecker nodes and every Z: each node of the integrated circuit evaluates to the iterated functional, over the variables of Z in its scope, of the original node"),
 ]),
 "C04": ("multiply returns the pointwise product", ["Base", "Circ", "Multiply"], [
   ("multiply_correct", "C04_multiply", "every pair node (i,j) of the product circuit evaluates to kron (value of i in c1) (value of j in c2), for all well-scoped circuits with declared unit counts, all inputs, any choice of pairs forced to the Kronecker fallback"),
   ("multiply_outputs", "C04_outputs", "the outputs of the product circuit are the Kronecker products of the operands' outputs, output (o1,o2) in o1-major order"),
 ]),
 "C05": ("differentiate returns the partial derivatives in variable order", ["Base", "Circ", "Differentiate"], [
   ("differentiate_correct", "C05_differentiate", "for any abstract (iterated) partial-derivative operator Dv satisfying linearity and the independent-factor rules, block (i,t) of the differentiated circuit evaluates to Dv (nth t vars) of node i and the copy evaluates to node i"),
   ("differentiate_outputs", "C05_outputs_sorted", "the outputs attached to an output node are the derivatives w.r.t. exactly the variables of its scope, in the order of vars (increasing when vars is sorted), followed by the node itself"),
 ]),
 "C06": ("evidence and concatenate", ["Base", "Circ", "OpsSimple"], [
   ("evidence_correct", "C06_evidence", "the evidence circuit evaluated at y equals the original circuit evaluated at y overridden by the observation, for every circuit whose inputs depend only on their scope"),
   ("evidence_scopes", "C06_evidence_scope", "every scope of the evidence circuit is the original scope minus the observed variables"),
   ("concat_all_correct", "C06_concatenate", "evaluating the concatenation yields the operands' values one after the other, in the given order"),
   ("concat_all_nth", "C06_concatenate_nth", "output o of operand m is found at offset m + o and equals the operand evaluated alone"),
 ]),
 "C07": ("conjugate computes the complex conjugate", ["Base", "Circ", "OpsSimple", "Scalar"], [
   ("conjugate_correct", "C07_conjugate", "for any map conj compatible with + and * (a semiring endomorphism), the conjugated circuit evaluates to conj applied entrywise to the original circuit's values"),
   ("conjugate_involutive", "C07_involutive", "if conj is an involution, conjugating twice gives back the function of c"),
   ("conjugate_real", "C07_real_identity", "if all weights and input functions are fixed by conj (real parameters), conjugate(c) computes the same function as c"),
   ("cconj_invol", "C07_instance_invol", "the executable scalar structure (Gaussian rationals) satisfies the hypotheses: conj is an involution"),
   ("cconj_add", "C07_instance_add", "... additive"),
   ("cconj_mul", "C07_instance_mul", "... multiplicative"),
 ]),
 "C08": ("structural predicates agree with their definitions", ["Base", "Scalar", "Tensor", "Pexpr", "Exec", "Struct"], [
   ("smooth_iff'", "C08_smooth_iff", "is_smooth is true exactly when every input of every sum has the sum's scope"),
   ("decomposable_iff", "C08_decomposable_iff", "is_decomposable is true exactly when the inputs of every product have pairwise disjoint scopes"),
   ("is_sd_sound", "C08_sd_sound", "structured-decomposable answers are sound: products over the same scope split it into the same set of sub-scopes"),
   ("compatible_sound", "C08_compatible_sound", "compatibility answers are sound across the two circuits"),
   ("compatible_iff", "C08_compatible_iff", "... and complete"),
   ("compatible_sym", "C08_symmetric", "the answer is symmetric in the two circuits"),
   ("is_sd_perm_nodes", "C08_sd_perm_invariant", "the answers do not depend on the order in which layers list their inputs"),
   ("compatible_perm_nodes_l", "C08_compatible_perm_invariant", "idem for compatibility"),
   ("is_sd_rename", "C08_sd_rename_invariant", "the answers do not depend on how variables are numbered (injective renaming)"),
   ("compatible_rename", "C08_compatible_rename_invariant", "idem for compatibility"),
   ("is_smooth_rename", "C08_smooth_rename_invariant", "idem for smoothness"),
   ("is_decomposable_rename", "C08_decomposable_rename_invariant", "idem for decomposability"),
 ]),
}

TABLE.update({
 "C02": ("folding preserves the function (address-book evaluation)", ["Gen", "Fold"], [
   ("folded_sound", "C02_folded_sound", "evaluating any folded graph through its address book (concatenate the listed module outputs, gather by the index lists, apply the members fold-wise) reproduces the unfolded values slice by slice whenever the book is consistent; modules are arbitrary functions, so this holds for every layer type, semiring, parameter value and input"),
 ]),
 "C12": ("circuits built with normalised parameterisations are normalised", ["Base", "Circ", "Integrate", "Normalised"], [
   ("normalised_partition", "C12_partition_one", "if every input node integrates to one over its scope and every sum row sums to one, every node of the integrated circuit evaluates to the all-ones vector"),
   ("normalised_partition_IntL", "C12_partition_function", "... hence the partition function (iterated integral of every unit of every node) equals one, for every parameter value"),
   ("softmax_row_sum", "C12_softmax_rows", "softmax rows sum to one over any field"),
   ("mixing_row_sum", "C12_mixing_rows", "a mixing-weight row sums to the sum of its mixing coefficients"),
   ("monotone_nonneg", "C12_nonnegative", "circuits with non-negative weights and input functions are non-negative"),
   ("monotone_pos", "C12_positive", "circuits with positive weights and input functions are positive (finite log)"),
 ]),
 "C16": ("region-graph constructions are valid", ["Base", "Scalar", "Tensor", "Pexpr", "Exec", "Struct", "RG", "RGProofs"], [
   ("rg_valid_spec", "C16_valid_spec", "the executable validity predicate holds exactly when: roots cover all variables, every region is non-empty, every partition splits its region into non-empty pairwise-disjoint regions covering it"),
   ("rg_sd_spec", "C16_sd_flag", "the structured-decomposability flag holds exactly when partitions of the same scope split it into the same set of sub-scopes"),
   ("ff_valid", "C16_fully_factorized", "the fully-factorised region graph is valid, structured-decomposable and over variables 0..n-1, for every n and number of repetitions"),
   ("linear_valid", "C16_linear_tree", "the linear-tree region graph is valid and structured-decomposable over exactly the variables of its ordering, for every duplicate-free ordering"),
 ]),
 "C17": ("parameter initialisation bookkeeping", ["Init"], [
   ("simplex_axis_correct", "C17_axis", "the axis normalised inside a parameter's own slice (kept with its fold dimension) is the declared axis modulo the rank, for positive and negative declarations"),
   ("movedim_restores", "C17_dirichlet_shape", "sampling with the simplex axis last and moving it back to its position restores the tensor's shape, for every rank and axis"),
   ("foldwise_nth", "C17_foldwise_slice", "fold-wise initialisation applies initialiser i to slice i only"),
   ("foldwise_length", "C17_foldwise_length", "and keeps the number of slices"),
 ]),
 "C18": ("compiler registry and pipeline context stay coherent over any call history", ["Ctx"], [
   ("wb_restores", "C18_contexts", "for every well-bracketed enter/exit sequence over distinct or sequentially reused context objects (no re-entrance of an active object), every exit finds its token, the active value after the sequence equals the one before, and the tokens of enclosing contexts are untouched"),
   ("compile_memo", "C18_memo", "compiling an already compiled circuit leaves the registry unchanged (the same compiled object is returned)"),
   ("compile_registers", "C18_registers", "after compile the circuit is registered"),
   ("compile_nodup", "C18_bijection", "each symbolic circuit has exactly one compiled object: the registry never contains duplicates"),
   ("compile_ordered", "C18_operands_first", "in the registry every circuit appears after all of its operands (operands are compiled before the circuits derived from them)"),
 ]),
 "C19": ("saved parameters reproduce the circuit after reload", ["State"], [
   ("load_save", "C19_roundtrip", "if the names of two instances are equal and unique, loading the saved dictionary of one into the other reproduces the saved instance exactly, whatever the other held before"),
   ("load_names", "C19_names_preserved", "loading never changes the set of names"),
   ("load_lookup", "C19_load_lookup", "every entry named in the dictionary takes the dictionary's value"),
 ]),
})

TABLE["C02"][2].extend([
   ("ab_check_sound", "C02_checker_sound", "the executable address-book checker is sound: if it computes true on an exported unfolded graph and folded graph, the address book is consistent"),
   ("checked_fold_sound", "C02_checked_fold", "hence every slice of every folded module equals the corresponding unfolded module's value, for all module functions (layers, semirings), parameters and inputs"),
   ("checked_outputs_sound", "C02_outputs_sound", "and the gathered graph outputs equal the unfolded outputs in the declared order"),
])
TABLE["C02"] = (TABLE["C02"][0], ["Gen", "Fold", "FoldCheck"], TABLE["C02"][2])
TABLE.update({
 "C01": ("the compiled circuit computes the denotation, in every semiring", ["Base", "Circ", "Hom", "Gen", "Fold", "FoldCheck"], [
   ("hom_eval", "C01_hom_eval", "evaluation commutes with every semiring homomorphism h: evaluating the h-image of a circuit gives the h-image of its values (h = exp from the log semiring, h = fst from dual numbers, h = conj); hence one denotation serves all semirings"),
   ("checked_fold_sound", "C01_folded_evaluation", "address-book evaluation of a checked folded graph equals plain evaluation, slice by slice"),
 ]),
 "C13": ("gradients: forward-mode (dual-number) evaluation", ["Base", "Circ", "Hom"], [
   ("dual_semiring", "C13_dual_semiring", "dual numbers over a commutative semiring form a commutative semiring, so every theorem about circuits (denotation, folding, operators) holds for value-and-tangent evaluation"),
   ("dual_primal", "C13_dual_primal", "the primal part of the dual-number evaluation is the ordinary evaluation"),
   ("dual_const", "C13_constants_zero_tangent", "a circuit whose parameters carry zero tangent has zero tangent"),
   ("snd_dmul", "C13_leibniz", "the tangent of a product follows the Leibniz rule"),
   ("horner_dual", "C13_polynomial_derivative", "a polynomial evaluated at (x, 1) gives (p(x), p'(x)) with p' the formal derivative computed by the model's PolynomialDifferential"),
 ]),
 "C14": ("parameter operators: algebraic laws the operator rules rest on", ["Base", "Circ", "Multiply", "Algebra", "Hom"], [
   ("horner_conv", "C14_polynomial_product", "coefficient convolution evaluates to the product of the polynomials"),
   ("horner_conv_rows", "C14_polynomial_product_rows", "... row pairs in Kronecker order"),
   ("col_outer", "C14_outer_product_columns", "the outer product along axis 0 of two matrices, read at a column, is the Kronecker product of the two columns"),
   ("vsum_states", "C14_reduce_sum_states", "reduce-sum over the state axis is the sum of the lookups over all states"),
   ("dot_kron", "C14_kronecker_mixed_product", "mixed-product law of the Kronecker product"),
   ("nth_pdiff1", "C14_polynomial_differential", "entry i of the differentiated coefficients is (i+1) times coefficient i+1"),
 ]),
 "C15": ("sampling draws from the distribution the circuit encodes", ["Base", "Circ", "Sampling"], [
   ("sampling_law", "C15_sampling_law", "for every ok circuit with univariate inputs over finite domains, the total weight of the ancestral-sampling outcomes consistent with an assignment equals the value of the circuit at that assignment, for every node and unit"),
   ("sampling_support", "C15_support", "every sampled value lies in the domain of its variable"),
   ("sampling_columns", "C15_columns", "every outcome of a node assigns exactly the variables of that node's scope"),
 ]),
 "C20": ("templates compute their formulas", ["Base", "Circ", "Multiply", "Algebra"], [
   ("cp_circuit_correct", "C20_cp", "the CP template circuit evaluates to sum_k w_k prod_j a_j[k]"),
   ("tucker_kronn", "C20_tucker", "a Tucker (Kronecker + sum) layer contracts the core with one more factor at a time"),
   ("tucker2", "C20_tucker_order2", "order-2 Tucker as the explicit double sum"),
   ("hmm_correct", "C20_hmm", "the chain circuit evaluates to the forward-algorithm recursion"),
 ]),
})

TABLE.update({
 "C09": ("operators refuse invalid inputs and results keep the promised structure", ["Base", "Scalar", "Tensor", "Pexpr", "Exec", "Ops", "Struct", "OpsProps"], [
   ("integrate_refuses_struct", "C09_integrate_refuses_struct", "integrate refuses (structural-property error) every circuit that is not smooth and decomposable"),
   ("integrate_refuses_empty", "C09_integrate_refuses_empty", "... refuses an empty scope"),
   ("integrate_refuses_outside", "C09_integrate_refuses_outside", "... and variables outside the circuit scope"),
   ("differentiate_refuses_struct", "C09_differentiate_refuses_struct", "differentiate refuses circuits that are not smooth and decomposable"),
   ("differentiate_refuses_order", "C09_differentiate_refuses_order", "... and a non-positive order"),
   ("multiply_refuses_incompatible", "C09_multiply_refuses_incompatible", "multiply refuses every pair that is not compatible"),
   ("multiply_refuses_scope", "C09_multiply_refuses_scope", "... and operands over different scopes"),
   ("evidence_refuses_empty", "C09_evidence_refuses_empty", "evidence refuses an empty observation"),
   ("evidence_refuses_outside", "C09_evidence_refuses_outside", "... and variables outside the scope"),
   ("integrate_structure", "C09_integrate_result", "whenever integrate returns, the result is smooth and decomposable, every scope is the original minus Z, outputs and layer count are unchanged"),
   ("evidence_structure", "C09_evidence_result", "whenever evidence returns, scopes are the originals minus the observed variables and smoothness / decomposability are preserved"),
   ("conjugate_structure", "C09_conjugate_result", "conjugation preserves scopes and all structural flags"),
   ("conjugate_structure_more", "C09_conjugate_result_compat", "... including compatibility with any other circuit"),
 ]),
 "C10": ("derived circuits introduce no learnable parameters", ["Base", "Scalar", "Tensor", "Pexpr", "Exec", "Ops", "Struct", "OpsProps"], [
   ("integrate_no_new_learnable", "C10_integrate", "every learnable tensor of integrate(c) is a learnable tensor of c"),
   ("multiply_no_new_learnable", "C10_multiply", "every learnable tensor of multiply(a,b) belongs to a or to b"),
   ("differentiate_no_new_learnable", "C10_differentiate", "idem for differentiate"),
   ("conjugate_no_new_learnable", "C10_conjugate", "idem for conjugate"),
   ("evidence_no_new_learnable", "C10_evidence", "idem for evidence"),
   ("concatenate_no_new_learnable", "C10_concatenate", "every learnable tensor of concatenate(cs) belongs to an operand"),
 ]),
 "C11": ("marginal queries = per-sample integration (executable level)", ["Base", "Circ", "Integrate", "Scalar", "Tensor", "Pexpr", "Exec", "Ops", "Struct", "Link"], [
   ("integrate_exec_den", "C11_marginal_is_sum", "on the algebraic fragment, every unit of every node of the executable integrate_m result is the iterated sum, over all states of the integrated variables in that node's scope, of the executable denotation of the original circuit"),
   ("den_all_spec", "C11_denotation_is_semantic", "the executable denotation is the semantic evaluation of the interpreted circuit (defined exactly when every embedding index is in range)"),
 ]),
})
TABLE["C03"][2].extend([
   ("integrate_exec_correct", "C03_integrate_executable", "link: the executable operator integrate_m (model of cirkit.symbolic.functional.integrate on the algebraic fragment: Embedding / constant inputs, sums, Hadamard and Kronecker products) evaluates to the iterated sum of the semantic evaluation of the interpreted circuit"),
   ("integrate_exec_den", "C03_integrate_executable_den", "... stated purely on the executable denotation"),
])
TABLE["C03"] = (TABLE["C03"][0], ["Base", "Circ", "Integrate", "Scalar", "Tensor", "Pexpr", "Exec", "Ops", "Struct", "Link"], TABLE["C03"][2])
TABLE["C07"][2].extend([
   ("conjugate_link", "C07_conjugate_executable", "link: on the algebraic fragment the executable conjugate_m result denotes the entrywise conjugate of the executable denotation"),
])
TABLE["C07"] = (TABLE["C07"][0], ["Base", "Circ", "OpsSimple", "Scalar", "Tensor", "Pexpr", "Exec", "Ops", "Struct", "Link"], TABLE["C07"][2])
TABLE["C01"][2].extend([
   ("den_all_spec", "C01_denotation_is_semantic", "the executable denotation den_all used as reference by the correspondence check is the semantic evaluation of the interpreted circuit (algebraic fragment)"),
   ("den_prep", "C01_prep_invariant", "pre-evaluating parameter expressions does not change the denotation (any layer kind)"),
])
TABLE["C01"] = (TABLE["C01"][0], ["Base", "Circ", "Hom", "Gen", "Fold", "FoldCheck", "Scalar", "Tensor", "Pexpr", "Exec", "Ops", "Struct", "Link"], TABLE["C01"][2])
TABLE["C14"][2].extend([
   ("peval_shape", "C14_shape_inference", "for every parameter expression (all node types of coq/Pexpr.v, any nesting): if the symbolic shape rule pshape (the model of each node's declared `shape`) gives s and evaluation is defined, the evaluated tensor is rectangular with exactly shape s"),
   ("eval_unop_shape", "C14_unary_shape", "every unary node applied to a tensor of positive shape s yields a tensor of the shape its rule declares (reductions drop the axis, index selects len(indices) along the axis, softmax / entrywise keep s)"),
   ("eval_binop_shape", "C14_binary_shape", "idem for binary nodes (sum, Hadamard, Kronecker, outer product / sum along an axis, polynomial product, Gaussian product std)"),
   ("alg_peval_defined", "C14_algebraic_total", "on the algebraic fragment evaluation of a well-shaped expression is always defined and has the inferred shape"),
])
TABLE["C14"] = (TABLE["C14"][0], ["Base", "Circ", "Multiply", "Algebra", "Hom", "Scalar", "Tensor", "Pexpr", "PShapes"], TABLE["C14"][2])
TABLE["C06"][2].extend([
   ("evidence_exec_den", "C06_evidence_executable", "EXECUTABLE level, every layer kind, no structural hypothesis: the circuit returned by evidence_m (model of cirkit.symbolic.functional.evidence) evaluated at y has, node by node, the values of the original circuit at y overridden by the observation"),
   ("evidence_exec_sem", "C06_evidence_executable_semantic", "... and on the algebraic fragment this is the semantic evidence operator of C06_evidence"),
   ("concatenate_exec_den", "C06_concatenate_executable", "EXECUTABLE level, every layer kind: the node values of concatenate_m cs are the operands' node values one after the other"),
   ("concatenate_exec_outs", "C06_concatenate_executable_outputs", "the outputs of concatenate_m cs are the operands' outputs in order, provided each operand's outputs are valid node indices (sharp: Link2.Example2.ex_cat_sharp)"),
])
TABLE["C06"] = (TABLE["C06"][0], ["Base", "Circ", "OpsSimple", "Scalar", "Tensor", "Pexpr", "Exec", "Ops", "Struct", "Link", "Link2"], TABLE["C06"][2])
TABLE["C07"][2].extend([
   ("conjugate_conjugate_den", "C07_involutive_executable", "EXECUTABLE level, every layer kind conjugate_m accepts: conjugating twice gives back a circuit with the original denotation at every node"),
   ("conjugate_m_twice", "C07_second_conjugation_defined", "the second conjugation never fails once the first succeeded"),
])
TABLE["C07"] = (TABLE["C07"][0], TABLE["C07"][1] + ["Link2"], TABLE["C07"][2])
TABLE["C09"][2].extend([
   ("differentiate_structure_eq", "C09_differentiate_result", "whenever differentiate_m returns (operand well-formed), the result is smooth and decomposable, has exactly the scope of the operand, one output per (output, variable of its scope) plus the copy, all outputs valid nodes, and every node refers to earlier nodes"),
   ("differentiate_output_scopes", "C09_differentiate_output_blocks", "the outputs split into one block per output o of the operand, of length |scope(o)|+1, every element having the scope of o"),
])
TABLE["C09"] = (TABLE["C09"][0], TABLE["C09"][1] + ["DiffStruct"], TABLE["C09"][2])
TABLE["C09"][2].extend([
   ("multiply_structure", "C09_multiply_result", "whenever multiply_m returns (operands well-formed), the product is smooth and decomposable, has the operands' scope, one output per pair of outputs (all valid nodes), and output (o1,o2) has scope scope(o1) U scope(o2)"),
   ("multiply_table_scopes", "C09_multiply_pair_scopes", "every multiplied pair of layers has disjoint or equal scopes and its product node has the union as scope"),
])
TABLE["C09"] = (TABLE["C09"][0], TABLE["C09"][1] + ["MulStruct"], TABLE["C09"][2])
TABLE["C04"][2].extend([
   ("multiply_exec_den", "C04_multiply_executable", "EXECUTABLE level: for well-formed operands in the fragment (Embedding, Polynomial, constant inputs, sums, Hadamard and Kronecker products, weights ANY parameter expression evaluating to a matrix of the right shape), every product node (i,j) of the circuit returned by multiply_m (model of cirkit.symbolic.functional.multiply with its per-layer rules: outer-product embeddings, coefficient convolution, Kronecker weight with the column permutation sumsum_perm, sorted Hadamard pairing, Kronecker x Kronecker with the permutation layer kron_perm, disjoint-scope Kronecker joins) evaluates to the Kronecker product of the values of node i of a and node j of b, and the operand copies keep their values"),
   ("multiply_exec_den_outputs", "C04_multiply_executable_outputs", "... hence the outputs of the product are the Kronecker products of the operands' outputs, output (o1,o2) at o1-major position"),
])
TABLE["C04"] = (TABLE["C04"][0], ["Base", "Circ", "Multiply", "Scalar", "Tensor", "Pexpr", "Exec", "Ops", "Struct", "OpsProps", "Link", "LinkMul"], TABLE["C04"][2])
TABLE["C02"][2].extend([
   ("sum_collapse", "C02_rule_sum_collapse", "optimisation rule apply_sum_collapse: a sum layer applied to a sum layer is one sum layer with the matrix product of the weights (any commutative semiring, no shape hypothesis)"),
   ("sum_collapse_node", "C02_rule_sum_collapse_node", "... at circuit-node level, inner sum of any arity"),
   ("tucker_fuse_n", "C02_rule_tucker", "apply_tucker / TorchTuckerLayer: a sum layer over an n-ary Kronecker product is the explicit contraction of the weight (viewed with one axis per input, first input major) with the inputs"),
   ("candecomp_fuse", "C02_rule_candecomp", "apply_candecomp / TorchCPTLayer: a sum layer over an n-ary Hadamard product is sum_i W[o,i] prod_j x_j[i]"),
   ("mkron_mixed", "C02_rule_kronecker_weight", "a sum layer whose weight is a Kronecker product of matrices (torch.kron order) applied to a Kronecker product of vectors is the Kronecker product of the two applications"),
   ("dense_tensordot", "C02_rule_dense_tensordot", "apply_dense_tensordot: the dense layer with weight W1 (x) W2 equals the two tensor-dot layers (reshape / permute / contract convention of TorchTensorDotLayer.forward)"),
   ("tdot_kron_split", "C02_rule_tensordot_tensordot", "apply_tensordot_tensordot: a tensor-dot layer with Kronecker weight splits into two tensor-dot layers"),
   ("reduce1_outer0", "C02_rule_reduce_outer_a", "apply_sum_outer_prod_einsum: reduce-sum over axis 1 of the outer product along axis 0 is the matrix of dot products (einsum jl,kl->jk, flattened)"),
   ("reduce0_outer0", "C02_rule_reduce_outer_b", "... reduce-sum over axis 0 of the outer product along axis 0 (einsum jl,kl->l)"),
   ("reduce1_outer1", "C02_rule_reduce_outer_c", "... reduce-sum over axis 1 of the outer product along axis 1 (einsum nj,nk->n)"),
   ("reduce0_outer1", "C02_rule_reduce_outer_d", "... reduce-sum over axis 0 of the outer product along axis 1 (einsum nj,nk->jk, flattened)"),
   ("log_softmax_fuse", "C02_rule_log_softmax", "apply_log_softmax: log o softmax = log_softmax over any structure with exp / log / division satisfying log(x/y) = log x - log y on positives and log(exp x) = x"),
])
TABLE["C02"] = (TABLE["C02"][0], TABLE["C02"][1] + ["Base", "Circ", "Algebra", "Optim"], TABLE["C02"][2])
PRE["C05"] = "From Coq Require Import Reals.\nFrom Coquelicot Require Import Coquelicot.\n"
TABLE["C05"][2].extend([
   ("differentiate_correct_total", "C05_differentiate_total", "special case DF := all functions (the unconditional rules of the first version of this theorem)"),
   ("differentiate_real_is_derive", "C05_differentiate_real", "INSTANCE over the real numbers (Coquelicot): for every ok circuit over R whose input functions are differentiable in each variable, block (i,t) of the differentiated circuit IS the partial derivative (is_derive: existence included) w.r.t. variable nth t vars of unit k of node i; uses the standard library's real-number axioms and functional extensionality (named in the trusted base)"),
   ("differentiate_real", "C05_differentiate_real_Derive", "... stated with Coquelicot's total Derive"),
   ("eval_differentiable", "C05_circuits_differentiable", "every unit of every node of such a circuit is differentiable in each variable"),
   ("poly_is_derive", "C05_polynomial_input_instance", "non-vacuity: a quadratic polynomial input function meets the hypotheses, with derivative a1 + 2 a2 x"),
])
TABLE["C05"] = (TABLE["C05"][0], TABLE["C05"][1] + ["DiffReal"], TABLE["C05"][2])
TABLE["C16"][2].extend([
   ("tree_rg_valid", "C16_tree_valid", "EVERY tree-shaped region graph (recursive splitting of a scope into >= 2 pairwise disjoint non-empty parts: RandomBinaryTree with one repetition, LinearTree, QuadTree, tree2rg / Chow-Liu) is valid, for all trees"),
   ("tree_rg_valid_iff", "C16_tree_valid_iff", "validity of a tree-shaped graph is exactly: leaves non-empty, no empty split, siblings pairwise disjoint"),
   ("tree_rg_sd", "C16_tree_structured_decomposable", "... and structured-decomposable (needs >= 2 children per split: RGTree.unary_ex is the counterexample otherwise)"),
   ("multi_rg_valid", "C16_repetitions_valid", "several repetitions sharing only the root region (num_repetitions > 1) are valid (in general not structured-decomposable: RGTree.two_reps_not_sd)"),
   ("rg_sd_facts_perm", "C16_sd_numbering_independent", "the structured-decomposability flag depends only on the multiset of scope-level partitions, not on the numbering of regions or the order of partitions"),
   ("tree_rg_topological", "C16_tree_topological", "partitions of a tree-shaped graph refer to later regions only (acyclic)"),
])
TABLE["C16"] = (TABLE["C16"][0], TABLE["C16"][1] + ["RGTree"], TABLE["C16"][2])
TABLE["C05"][2].extend([
   ("differentiate_exec_den", "C05_differentiate_executable", "EXECUTABLE level: for every well-formed circuit on which differentiate_m 1 (model of cirkit.symbolic.functional.differentiate with its per-layer rules, incl. PolynomialDifferential and the non-commutative Kronecker positions) returns, the copy of node i keeps its value and block (i,v) evaluates to the TANGENT of the dual-number (forward-mode) evaluation of node i w.r.t. variable v, whose primal part is the ordinary denotation; definedness is preserved"),
   ("differentiate_exec_den_outputs", "C05_differentiate_executable_outputs", "hence the outputs are, per output o of c: the derivative w.r.t. each variable of scope(o) in increasing order, then the value itself"),
   ("differentiate_exec_den_k", "C05_differentiate_executable_order_k", "any order k: block (i,v) is the k-th pure partial derivative (k-jet seed at the polynomial inputs over v)"),
   ("differentiate_order_succ", "C05_order_successor", "block_{n+1}(i,v) is the derivative w.r.t. v of block_n(i,v)"),
   ("dden_primal", "C05_dual_primal_is_denotation", "the primal part of the dual-number evaluation is the executable denotation"),
])
TABLE["C05"] = (TABLE["C05"][0], TABLE["C05"][1] + ["Scalar", "Tensor", "Pexpr", "Exec", "Ops", "Hom", "DiffStruct", "LinkDiff"], TABLE["C05"][2])
TABLE["C12"][2].extend([
   ("binomial_theorem", "C12_binomial_theorem", "binomial theorem over any commutative semiring (iterated addition for the coefficients)"),
   ("binomial_pmf_sum", "C12_binomial_normalised", "the Binomial layer is normalised: sum_k C(n,k) p^k (1-p)^(n-k) = 1 in any commutative ring, for every p"),
   ("bin_inp_norm", "C12_binomial_input_node", "... hence a Binomial input node over the states 0..n integrates to one"),
   ("cat_softmax_norm", "C12_softmax_categorical_input_node", "a Categorical input node whose probabilities are a softmax integrates to one (any field, exp abstract with non-zero sums)"),
   ("cat_probs_norm_iff", "C12_categorical_probabilities_iff", "a Categorical node given by explicit probabilities is normalised exactly when every row sums to one"),
   ("cat_logits_integral", "C12_categorical_logits_integral", "a Categorical node given by logits is unnormalised: its integral is the sum of the exponentials"),
   ("normalised_partition_discrete", "C12_partition_one_discrete", "circuits whose inputs are softmax-categorical / unit-row categorical / Binomial nodes and whose sum rows are unit-sum, softmax or mixing rows: every unit of every node of the integrated circuit is one — NO hypothesis left on the input layers"),
   ("partition_function_one", "C12_partition_function_one_discrete", "... the partition function (iterated sum over the states) of every unit is one"),
   ("ExecLink.exec_binomial_normalised", "C12_executable_binomial", "the value computed by the EXECUTABLE Binomial layer (Exec.in_eval) sums to one over the states"),
])
TABLE["C12"] = (TABLE["C12"][0], TABLE["C12"][1] + ["InputNorm"], TABLE["C12"][2])
PRE["C04"] = "From Coq Require Import Reals.\nFrom Coquelicot Require Import Coquelicot.\n"
TABLE["C04"][2].extend([
   ("multiply_gaussian_layers_correct", "C04_gaussian_product_rule", "REAL numbers: the Gaussian layer built by multiply_gaussian_layers (GaussianProductMean / GaussianProductStddev / GaussianProductLogPartition, transcribed from the torch nodes, incl. operands that already carry a log-partition) evaluates at x to the product of the two operand layers' values"),
   ("multiply_gaussian_layers_units", "C04_gaussian_product_units", "... per unit pair (i,j) at flat index i*K2+j"),
   ("multiply_categorical_layers_correct", "C04_categorical_product_rule", "REAL numbers: the Categorical layer with logits log p1 + log p2 (outer sum of log-probabilities / logits) evaluates to the product of the operand layers' values, any mix of probability / logit parameterisations"),
   ("multiply_categorical_layers_units", "C04_categorical_product_units", "... per unit pair"),
   ("gauss_product_density", "C04_gaussian_density_identity", "N(x;m1,s1) N(x;m2,s2) = exp(logZ) N(x; m, s) with the rule's m, s, logZ"),
])
TABLE["C04"] = (TABLE["C04"][0], TABLE["C04"][1] + ["InputRules"], TABLE["C04"][2])

if __name__ == "__main__":
    for pid in (sys.argv[1:] or TABLE):
        gen(pid, *TABLE[pid])
