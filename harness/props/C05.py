"""C05 — differentiate returns the partial derivatives in variable order."""
import traceback

import numpy as np

import cirkit.symbolic.functional as SF

import evalc
import export
import gen
import opkit
from cases import CaseSet, rng_for

PID = "C05"


def one_case(rep, cs, seed, i):
    rng = rng_for(seed, PID, i)
    cplx = False
    o = gen.random_opts(rng, kinds=["poly"], monotone=False, cplx=cplx)
    # force large / unsorted ids and nesting in a third of the cases
    if i % 3 == 0:
        o["varset"] = rng.choice(["sparse", "big"])
        o["nvars"] = rng.choice([2, 3, 3, 4])
        o["prod"] = "had"
    sc, g = gen.gen_circuit(rng, **o)
    order = rng.choice([1, 1, 2, 3])
    fold, opt = rng.choice(evalc.FLAGS)
    sem = "sum-product"
    desc = {"i": i, "seed": seed, "order": order, "fold": fold, "opt": opt, **g.desc}
    rep.count(f"order:{order}")
    rep.count(f"flags:{int(fold)}{int(opt)}")
    rep.count("varset:" + o["varset"])
    rep.count(f"nvars:{len(g.desc['vars'])}")
    try:
        sd = SF.differentiate(sc, order=order)
    except Exception as e:
        rep.violation("differentiate-raises:" + type(e).__name__, "differentiate raised on a smooth decomposable polynomial circuit",
                      {"case": desc, "exception": repr(e)[:300]})
        return
    scope = sorted(sc.scope._set)
    ys = gen.sample_inputs(rng, g.doms, scope, 3)
    # expected number of outputs: per output layer |scope|+1
    exp_nout = sum(len(sc.layer_scope(o_)._set) + 1 for o_ in sc.outputs)
    if len(sd.outputs) != exp_nout:
        rep.violation("differentiate-num-outputs", "wrong number of outputs", {"case": desc, "observed": len(sd.outputs), "expected": exp_nout})
    try:
        ok, detail = opkit.oracle_differentiate(sc, sd, order, ys, fold, opt)
    except Exception as e:
        ok, detail = False, {"exception": repr(e)[:300], "traceback": traceback.format_exc()[-1500:]}
    if ok is False:
        sig = "differentiate-wrong-value" if "exception" not in detail else "differentiate-compile-exception:" + detail["exception"].split("(")[0]
        rep.violation(sig, "compiled differentiate(c) differs from the autograd derivatives of compiled c (variable order / value)",
                      {"case": desc, "inputs": ys, **detail})
    ex = export.Exporter()
    try:
        tc, td = ex.circuit(sc), ex.circuit(sd)
    except export.ExportError as e:
        rep.violation("export-error", f"exporter cannot represent the implementation's result: {e}", {"case": desc}, found_input=False)
        return
    tv = opkit.torch_vals([sc], sd, ys, sem, fold, opt)
    parts = [
        f"res_code (differentiate_m {order} c)",
        f"eq_den_res (differentiate_m {order} c) d ys",
        (f"den_vs d ys {tv}" if tv is not None else "2"),
        "learn_subset d [c]",
    ]
    term = f"let c := {tc} in let d := {td} in let ys := {export.ex_asgs(ys)} in [" + "; ".join(parts) + "]"

    def interp(res, desc=desc, ys=ys):
        rc, eqm, dv, ls = res
        rep.count(f"coq:eq_model={eqm}")
        if rc != 0:
            rep.violation("differentiate-model-refuses", "the model refuses an operand the implementation differentiates",
                          {"case": desc, "model_error": rc}, found_input=False)
        if eqm == 0:
            rep.violation("differentiate-corr", "differentiate_m (model, outputs in increasing variable order) and cirkit differentiate disagree",
                          {"case": desc, "inputs": ys}, found_input=False)
        if dv == 0:
            rep.violation("differentiate-compiled-vs-den", "compiled differentiate(c) differs from the model's denotation of it", {"case": desc, "inputs": ys})
        if ls == 0:
            rep.violation("differentiate-new-learnable", "differentiate introduced a learnable tensor", {"case": desc})

    cs.add(desc, term, interp, nontrivial=g.desc["sums"] >= 1 and g.desc["prods"] >= 1)


def run(rep, tier, seed, replay=None):
    n = 60 if tier == "quick" else 600
    cs = CaseSet(rep, PID)
    if replay is not None:
        c = replay["replay"].get("case", {})
        one_case(rep, cs, c.get("seed", seed), c.get("i", 0))
        cs.run()
        return
    for i in range(n):
        one_case(rep, cs, seed, i)
    cs.run(shard=max(4, 60 // 14))  # shard size of the quick tier: thorough runs use more files, not longer ones
