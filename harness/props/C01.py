"""C01 — the compiled circuit computes the function its symbolic circuit denotes."""
import traceback

import numpy as np
import torch

import evalc
import export
import gen
from cases import CaseSet, rng_for, pick_semiring, close

PID = "C01"
KINDS = ["emb", "cat_probs", "cat_logits", "cat_softmax", "cat_softmax0", "bin", "gau", "poly"]


def num_folds(cc):
    return max(l.num_folds for l in cc.layers)


class _G:
    pass


def hetero_circuit(rng):
    """input layers of one class, width and parameter shape in the same frontier that differ only in a hyper-parameter which
    no parameter shape reflects (Binomial total_count, ConstantValue log_space): folding must keep them apart"""
    from cirkit.symbolic import layers as L
    from cirkit.symbolic import parameters as P
    from cirkit.symbolic.circuit import Circuit
    from cirkit.utils.scope import Scope
    K = rng.choice([1, 2, 3])
    n = rng.choice([2, 3, 4])
    counts = [rng.choice([1, 2, 3, 4, 5]) for _ in range(n)]
    if len(set(counts)) == 1:
        counts[0] += 1
    use_logits = rng.random() < 0.5
    g = _G()
    g.doms = {}
    layers, ins, parts = [], {}, []
    for v, tc in enumerate(counts):
        g.doms[v] = ("disc", tc + 1)
        if use_logits:
            bl = L.BinomialLayer(Scope([v]), K, total_count=tc, logits=P.Parameter.from_input(gen.tensor(gen.dy_array(rng, (K,), -4, 4))))
        else:
            bl = L.BinomialLayer(Scope([v]), K, total_count=tc, probs=P.Parameter.from_input(gen.tensor(gen.dy_array(rng, (K,), 1, 7, 8))))
        parts.append(bl)
    nconst = rng.choice([0, 2, 2, 3])
    for j in range(nconst):
        ls = bool(j % 2) if rng.random() < 0.8 else bool((j + 1) % 2)
        lo, hi = (-3, 3) if ls else (1, 9)
        parts.append(L.ConstantValueLayer(K, log_space=ls, value=P.Parameter.from_input(gen.tensor(gen.dy_array(rng, (K,), lo, hi, 4)))))
    rng.shuffle(parts)
    layers.extend(parts)
    pl = L.HadamardLayer(K, arity=len(parts))
    layers.append(pl)
    ins[pl] = parts
    Ko = rng.choice([1, 2])
    sl = L.SumLayer(K, Ko, arity=1, weight=P.Parameter.from_input(gen.tensor(gen.dy_array(rng, (Ko, K), 1, 8))))
    layers.append(sl)
    ins[sl] = [pl]
    g.desc = {"family": "hetero-hyperparameters", "total_counts": counts, "constants": nconst, "logits": use_logits, "K": K,
              "kinds": ["bin"] * n, "sums": 1, "prods": 1, "arity": [1], "nout": 1}
    return Circuit(layers, ins, [sl]), g


def one_case(rep, cs, seed, i, family=None):
    if family == "hetero-hyperparameters":
        rng = rng_for(seed, PID + "het", i)
        sc, g = hetero_circuit(rng)
        monotone, cplx = True, False
        o = {"varset": "dense"}
    else:
        rng = rng_for(seed, PID, i)
        monotone = rng.random() < 0.5
        cplx = (not monotone) and rng.random() < 0.15
        kinds = ["emb", "poly"] if cplx else KINDS
        if rng.random() < 0.2:
            kinds = [rng.choice(kinds)]
        o = gen.random_opts(rng, kinds=kinds, monotone=monotone, cplx=cplx, heads=rng.random() < 0.25, int_consts=True)
        sc, g = gen.gen_circuit(rng, **o)
    sem = pick_semiring(rng, monotone, cplx)
    fold, opt = rng.choice(evalc.FLAGS)
    if family:
        fold = True if rng.random() < 0.8 else fold
    desc = {"i": i, "seed": seed, "sem": sem, "fold": fold, "opt": opt, **g.desc}
    rep.count("semiring:" + sem)
    rep.count(f"flags:{int(fold)}{int(opt)}")
    rep.count("varset:" + o["varset"])
    rep.count(f"nout:{g.desc['nout']}")
    for kd in set(g.desc["kinds"]):
        rep.count("kind:" + kd)
    for a in g.desc["arity"]:
        rep.count(f"sum-arity:{a}")
    scope = sorted(sc.scope._set)
    nonneg = sem == "lse-sum"
    try:
        ctx = evalc.make_ctx(sem, fold, opt)
        cc = ctx.compile(sc)
        F = num_folds(cc)
        sizes = sorted({1, 2, 3, F, F + 1})
        B = rng.choice(sizes) if rng.random() < 0.5 else F
        rep.count(f"batch==folds:{int(B == F)}")
        ys = gen.sample_inputs(rng, g.doms, scope, B, exhaustive_limit=0, nonneg=nonneg)[:B]
        while len(ys) < B:
            ys.append(dict(ys[-1]))
        w = evalc.width_of(sc)
        out = evalc.evaluate(cc, sc, ys, sem, width=w)
        nout, K = len(sc.outputs), sc.outputs[0].num_output_units
        if out.shape != (B, nout, K):
            rep.violation("output-shape", "compiled output does not have shape (batch, outputs, units)",
                          {"case": desc, "observed": list(out.shape), "expected": [B, nout, K], "batch": B})
            return
        # each row depends only on its own input row
        rows = np.concatenate([evalc.evaluate(cc, sc, [y], sem, width=w) for y in ys], axis=0)
        if not close(out, rows, rtol=1e-9, atol=1e-11):
            rep.violation("row-dependence", "a row of the batched output differs from evaluating that row alone",
                          {"case": desc, "inputs": ys, "observed": out.tolist(), "expected": rows.tolist()})
        # integer-typed inputs give the same result for discrete circuits
        if all(g.doms[v][0] == "disc" for v in scope) and scope:
            outi = evalc.evaluate(cc, sc, ys, sem, width=w, int_inputs=True)
            if not close(out, outi, rtol=1e-9, atol=1e-11):
                rep.violation("int-inputs", "integer and floating inputs give different outputs", {"case": desc, "inputs": ys})
    except Exception as e:
        rep.violation("compile-exception:" + type(e).__name__, "compiling / evaluating a well-formed circuit raised",
                      {"case": desc, "exception": repr(e)[:300], "traceback": traceback.format_exc()[-1500:]})
        return
    if not np.all(np.isfinite(out)):
        rep.count("non-finite-skipped")
        return
    ex = export.Exporter()
    try:
        tc = ex.circuit(sc)
    except export.ExportError as e:
        rep.violation("export-error", str(e), {"case": desc}, found_input=False)
        return
    term = f"[den_vs {tc} {export.ex_asgs(ys)} {export.ex_vals(out)}; b2n (wf {tc})]"

    def interp(res, desc=desc, ys=ys, out=out):
        dv, wf = res
        rep.count(f"coq:den_vs={dv}")
        if wf != 1:
            rep.violation("wf-corr", "the model considers a circuit accepted by cirkit ill-formed", {"case": desc}, found_input=False)
        if dv == 0:
            rep.violation("compiled-vs-denotation", "compiled output differs from the denotation of the symbolic circuit (exact model evaluation)",
                          {"case": desc, "inputs": ys, "observed": out.tolist()})

    cs.add(desc, term, interp, nontrivial=g.desc["sums"] >= 1 and g.desc["prods"] >= 1)


def run(rep, tier, seed, replay=None):
    n = 120 if tier == "quick" else 1500
    cs = CaseSet(rep, PID)
    if replay is not None:
        c = replay["replay"].get("case", {})
        one_case(rep, cs, c.get("seed", seed), c.get("i", 0), family=c.get("family"))
        cs.run()
        return
    for i in range(n):
        one_case(rep, cs, seed, i)
    for i in range(max(16, n // 8)):
        one_case(rep, cs, seed, i, family="hetero-hyperparameters")
    cs.run(shard=max(6, 120 // 14))  # shard size of the quick tier: thorough runs use more files, not longer ones
