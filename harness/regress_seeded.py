"""Regression over all stored seeded changes: apply seeded/<id>/patch.diff to /repo, run the quick tier of the first check that is
recorded to catch it, undo, and report. Every change must still be reported (exit 1 with a VIOLATION line).
Usage: regress_seeded.py [ids...]   (never run other checks against /repo while this runs)"""
import json
import os
import subprocess
import sys

VERIF = os.path.dirname(os.path.dirname(os.path.abspath(__file__)))
REPO = "/repo"


def sh(cmd, **kw):
    return subprocess.run(cmd, shell=True, capture_output=True, text=True, **kw)


def main():
    det = json.load(open(os.path.join(VERIF, "seeded", "detections.json")))
    ids = sys.argv[1:] or sorted(det)
    out = {}
    for key in ids:
        d = os.path.join(VERIF, "seeded", key)
        if not det[key]["caught_by"]:
            print(key, "recorded as not caught", flush=True)
            continue
        assert sh(f"git -C {REPO} status --porcelain").stdout.strip() == "", "repo not clean"
        r = sh(f"git -C {REPO} apply {d}/patch.diff")
        if r.returncode != 0:
            out[key] = {"applied": False, "err": r.stderr[-200:]}
            print(key, "patch does not apply", flush=True)
            continue
        pid = det[key]["caught_by"][0]
        c = sh(f"./check {pid} --tier quick", cwd=VERIF)
        sh(f"git -C {REPO} checkout -- . && git -C {REPO} clean -fdq")
        sh(f"git -C {VERIF} checkout -- evidence/{pid}.json")   # evidence written with the change applied does not describe /repo
        v = [l for l in c.stdout.splitlines() if l.startswith("VIOLATION")]
        out[key] = {"applied": True, "check": pid, "exit": c.returncode, "violations": len(v)}
        print(key, pid, c.returncode, len(v), flush=True)
    json.dump(out, open(os.path.join(VERIF, ".work", "regress_seeded.json"), "w"), indent=1)
    missed = [k for k, v in out.items() if v.get("applied") and v["violations"] == 0]
    print("missed:", missed)


if __name__ == "__main__":
    main()
