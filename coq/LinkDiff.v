(* LinkDiff.v — executable-level VALUE correctness of [Ops.differentiate_m], proved directly on
   [den_all] by induction over the fold that builds the derivative circuit.

   Reference semantics: FORWARD-MODE evaluation of the operand over the dual numbers [dual C]
   ([dden_all v c y]: node values (primal, tangent w.r.t. variable v)); polynomial inputs are
   evaluated by Horner's rule over the dual numbers at [dvar x] (the variable v) or [dconst x]
   (another variable), sum layers use the constant embedding of their weights, products are products of
   dual numbers (Leibniz rule).  For polynomial circuits the tangent IS the partial derivative.

   Results (no fragment hypothesis is needed: [differentiate_m k c = Ok _] already forces every layer
   of c to be a polynomial input, a sum, a Hadamard or a Kronecker layer — [differentiate_frag]):
     - [dden_primal]            : the primal part of the dual evaluation is [den_all]
     - [differentiate_exec_den] : order 1 — the result evaluates wherever the operand does; the copy of
                                  node i has the value of node i; the block (i, v) has the tangent of
                                  node i w.r.t. v, for every v in scope(i)
     - [differentiate_exec_den_outputs] : the function denoted by the result (per output o of c:
                                  d/dv for the variables v of scope(o) in increasing order, then o itself)
     - [differentiate_exec_den_k], [.._outputs_k] : any order k >= 1, against the "seeded" dual
                                  evaluation [jden_all k v] whose polynomial inputs over v carry the
                                  k-th formal derivative as tangent ([jden_all 1 = dden_all])
     - [shiftv_den_block], [differentiate_order_succ] : what order k means: with [shiftv n v c] = c with
                                  the coefficient rows of its inputs over v differentiated n times,
                                  node i of [shiftv n v c] denotes the order-n block (i, v), and the
                                  order-(n+1) block (i, v) is the forward-mode tangent w.r.t. v of node i
                                  of [shiftv n v c]: block_(n+1)(i,v) = d/dx_v block_n(i,v), i.e. the
                                  blocks are the pure partial derivatives d^k/dx_v^k (no mixed ones).
   Hypotheses: [wf c] (as for the structure theorem in DiffStruct.v: forward references break the scopes),
   and that the operand evaluates at y ([den_all c y = Some vals]; i.e. its parameters evaluate). *)
From Coq Require Import ZArith QArith Qcanon List Bool Arith Lia Ring Ring_theory.
Import ListNotations.
From CK Require Import Base Circ Hom Scalar Tensor Pexpr Exec Ops Struct OpsProps Link DiffStruct LinkMul.
Close Scope Qc_scope. Close Scope Q_scope. Close Scope Z_scope. Open Scope nat_scope.

(* ================================================================== *)
(* A. Dual numbers over C: vectors                                      *)
(* ================================================================== *)
Notation DC := (dual C).
Definition Dadd : DC -> DC -> DC := dadd C cadd.
Definition Dmul : DC -> DC -> DC := dmul C cadd cmul.
Definition D0 : DC := d0 C c0.
Definition Dc : C -> DC := dconst C c0.       (* constants: zero tangent *)
Definition Dv : C -> DC := dvar C c1.         (* the differentiation variable: tangent 1 *)
Definition dvdot := dot DC D0 Dadd Dmul.
Definition dvhad := had DC Dmul.
Definition dvkron := kron DC Dmul.
Definition dvhorner := horner DC D0 Dadd Dmul.

(* zero tangent *)
Definition ztan (X : list DC) : Prop := Forall (fun x => snd x = c0) X.

Lemma ztan_nil : ztan []. Proof. constructor. Qed.
Lemma ztan_app X Z : ztan X -> ztan Z -> ztan (X ++ Z).
Proof. intros H1 H2. apply Forall_app. split; assumption. Qed.
Lemma ztan_concat Xs : Forall ztan Xs -> ztan (concat Xs).
Proof. induction 1; cbn [concat]; [constructor | apply ztan_app; assumption]. Qed.
Lemma ztan_map_Dc {A} (f : A -> C) l : ztan (map (fun a => Dc (f a)) l).
Proof. unfold ztan. rewrite Forall_map. apply Forall_forall. intros; reflexivity. Qed.

Lemma dot_Dc (row : list C) : forall X,
  dvdot (map Dc row) X = (vdot row (map fst X), vdot row (map snd X)).
Proof.
  induction row as [|a r IH]; intros [|x X]; try reflexivity.
  unfold dvdot, vdot in *. cbn [map dot]. rewrite IH. destruct x as [x1 x2].
  unfold Dadd, Dmul, Dc, dadd, dmul, dconst. cbn [fst snd]. f_equal. ring.
Qed.

Lemma vdot_zero (row : list C) : forall Z, Forall (fun z => z = c0) Z -> vdot row Z = c0.
Proof.
  induction row as [|a r IH]; intros Z HZ; [reflexivity|]. destruct HZ as [|z Z Hz HZ]; [reflexivity|].
  unfold vdot in *. cbn [dot]. rewrite (IH Z HZ), Hz. ring.
Qed.

Lemma horner_Dc (row : list C) x : dvhorner (map Dc row) (Dc x) = Dc (vhorner row x).
Proof.
  induction row as [|a r IH]; [reflexivity|]. unfold dvhorner, vhorner in *. cbn [map horner]. rewrite IH.
  unfold Dadd, Dmul, Dc, dadd, dmul, dconst. cbn [fst snd]. f_equal. ring.
Qed.

Lemma horner_Dv (row : list C) x : dvhorner (map Dc row) (Dv x) = (vhorner row x, vhorner (vpdiff1 row) x).
Proof. exact (horner_dual C c0 c1 cadd cmul C_semi_ring row x). Qed.

(* ---------- Hadamard ---------- *)
Lemma had_fst A : forall X, map fst (dvhad A X) = vhad (map fst A) (map fst X).
Proof. induction A as [|a A IH]; intros [|x X]; try reflexivity. unfold dvhad, vhad in *. cbn [had map]. rewrite IH. reflexivity. Qed.
Lemma had_snd_r A : forall X, ztan X -> map snd (dvhad A X) = vhad (map snd A) (map fst X).
Proof.
  induction A as [|a A IH]; intros [|x X] HX; try reflexivity. inversion HX as [|x' X' Hx HX']; subst.
  unfold dvhad, vhad in *. cbn [had map]. rewrite (IH X HX'). f_equal.
  unfold Dmul, dmul. cbn [snd]. rewrite Hx. ring.
Qed.
Lemma had_snd_l A : forall X, ztan A -> map snd (dvhad A X) = vhad (map fst A) (map snd X).
Proof.
  induction A as [|a A IH]; intros [|x X] HA; try reflexivity. inversion HA as [|a' A' Ha HA']; subst.
  unfold dvhad, vhad in *. cbn [had map]. rewrite (IH X HA'). f_equal.
  unfold Dmul, dmul. cbn [snd]. rewrite Ha. ring.
Qed.
Lemma had_ztan A : forall X, ztan A -> ztan X -> ztan (dvhad A X).
Proof.
  induction A as [|a A IH]; intros [|x X] HA HX; try constructor.
  - inversion HA; inversion HX; subst. unfold Dmul, dmul. cbn [snd].
    match goal with H1 : snd a = c0, H2 : snd x = c0 |- _ => rewrite H1, H2 end. ring.
  - inversion HA; inversion HX; subst. apply IH; assumption.
Qed.

(* ---------- Kronecker ---------- *)
Lemma scale_fst a X : map fst (scale DC Dmul a X) = vscale (fst a) (map fst X).
Proof. unfold vscale, scale. rewrite !map_map. reflexivity. Qed.
Lemma kron_fst A X : map fst (dvkron A X) = vkron (map fst A) (map fst X).
Proof.
  induction A as [|a A IH]; [reflexivity|]. unfold dvkron, vkron, kron in *. cbn [flat_map map].
  rewrite map_app. apply f_equal2; [apply scale_fst | exact IH].
Qed.
Lemma kron_snd_r A X : ztan X -> map snd (dvkron A X) = vkron (map snd A) (map fst X).
Proof.
  intros HX. induction A as [|a A IH]; [reflexivity|]. unfold dvkron, vkron, kron in *. cbn [flat_map map].
  rewrite map_app. apply f_equal2; [|exact IH]. unfold scale. rewrite !map_map. apply map_ext_in. intros x Hx.
  unfold ztan in HX. rewrite Forall_forall in HX. unfold Dmul, dmul. cbn [snd]. rewrite (HX x Hx). ring.
Qed.
Lemma kron_snd_l A X : ztan A -> map snd (dvkron A X) = vkron (map fst A) (map snd X).
Proof.
  induction A as [|a A IH]; intros HA; [reflexivity|]. inversion HA as [|a' A' Ha HA']; subst.
  unfold dvkron, vkron, kron in *. cbn [flat_map map].
  rewrite map_app. apply f_equal2; [|exact (IH HA')]. unfold scale. rewrite !map_map. apply map_ext. intros x.
  unfold Dmul, dmul. cbn [snd]. rewrite Ha. ring.
Qed.
Lemma kron_ztan A X : ztan A -> ztan X -> ztan (dvkron A X).
Proof.
  intros HA HX. induction HA as [|a A Ha HA IH]; [constructor|]. unfold dvkron, kron in *. cbn [flat_map].
  apply ztan_app; [|exact IH]. unfold ztan, scale. rewrite Forall_map. unfold ztan in HX.
  eapply Forall_impl; [|exact HX]. intros x Hx. unfold Dmul, dmul. cbn [snd]. rewrite Ha, Hx. ring.
Qed.

(* ---------- n-ary products with at most one factor of non-zero tangent ---------- *)
(* [one_hot Xs Ys]: exactly one position carries the tangent of the dual vector, every other
   position carries the primal part of a dual vector with zero tangent *)
Inductive one_hot : list (list DC) -> list (list C) -> Prop :=
| oh_here X Y Xs Ys : Y = map snd X -> Forall2 (fun X Y => ztan X /\ Y = map fst X) Xs Ys ->
    one_hot (X :: Xs) (Y :: Ys)
| oh_later X Y Xs Ys : ztan X -> Y = map fst X -> one_hot Xs Ys -> one_hot (X :: Xs) (Y :: Ys).

Section OneHot.
Variables (dop : list DC -> list DC -> list DC) (op : list C -> list C -> list C).
Hypothesis op_fst : forall A X, map fst (dop A X) = op (map fst A) (map fst X).
Hypothesis op_snd_r : forall A X, ztan X -> map snd (dop A X) = op (map snd A) (map fst X).
Hypothesis op_snd_l : forall A X, ztan A -> map snd (dop A X) = op (map fst A) (map snd X).
Hypothesis op_z : forall A X, ztan A -> ztan X -> ztan (dop A X).

Definition dfoldn (xs : list (list DC)) : list DC := match xs with [] => [] | v :: vs => fold_left dop vs v end.
Definition foldn (xs : list (list C)) : list C := match xs with [] => [] | v :: vs => fold_left op vs v end.

Lemma fold_fst Xs : forall A, map fst (fold_left dop Xs A) = fold_left op (map (map fst) Xs) (map fst A).
Proof. induction Xs as [|X Xs IH]; intros A; cbn [fold_left map]; [reflexivity|]. rewrite IH, op_fst. reflexivity. Qed.
Lemma foldn_fst Xs : map fst (dfoldn Xs) = foldn (map (map fst) Xs).
Proof. destruct Xs as [|X Xs]; [reflexivity|]. apply fold_fst. Qed.

Lemma fold_ztan Xs : forall A, ztan A -> Forall ztan Xs -> ztan (fold_left dop Xs A).
Proof.
  induction Xs as [|X Xs IH]; intros A HA HX; cbn [fold_left]; [exact HA|].
  inversion HX; subst. apply IH; [apply op_z; assumption | assumption].
Qed.
Lemma foldn_ztan Xs : Forall ztan Xs -> ztan (dfoldn Xs).
Proof. intros H. destruct H as [|X Xs HX HXs]; [constructor|]. apply fold_ztan; assumption. Qed.

Lemma fold_tail Xs Ys : Forall2 (fun X Y => ztan X /\ Y = map fst X) Xs Ys ->
  forall A, map snd (fold_left dop Xs A) = fold_left op Ys (map snd A).
Proof.
  induction 1 as [|X Y Xs Ys [HX HY] _ IH]; intros A; cbn [fold_left]; [reflexivity|].
  rewrite IH, (op_snd_r A X HX), HY. reflexivity.
Qed.
Lemma fold_one_hot Xs Ys : one_hot Xs Ys ->
  forall A, ztan A -> map snd (fold_left dop Xs A) = fold_left op Ys (map fst A).
Proof.
  induction 1 as [X Y Xs Ys HY HF | X Y Xs Ys HX HY _ IH]; intros A HA; cbn [fold_left].
  - rewrite (fold_tail Xs Ys HF), (op_snd_l A X HA), HY. reflexivity.
  - rewrite IH by (apply op_z; assumption). rewrite op_fst, HY. reflexivity.
Qed.
Lemma foldn_one_hot Xs Ys : one_hot Xs Ys -> map snd (dfoldn Xs) = foldn Ys.
Proof.
  intros H. inversion H as [X Y Xs' Ys' HY HF | X Y Xs' Ys' HX HY HO]; subst; cbn [dfoldn foldn].
  - apply fold_tail. exact HF.
  - apply fold_one_hot; assumption.
Qed.
End OneHot.

Definition dhadn : list (list DC) -> list DC := dfoldn dvhad.
Definition dkronn : list (list DC) -> list DC := dfoldn dvkron.
Lemma hadn_foldn xs : Exec.hadn xs = foldn vhad xs. Proof. reflexivity. Qed.
Lemma kronn_foldn xs : Exec.kronn xs = foldn vkron xs. Proof. reflexivity. Qed.

(* ================================================================== *)
(* B. Forward-mode (dual-number) evaluation of executable circuits      *)
(* ================================================================== *)
(* the layers [differentiate_m] accepts: polynomial inputs, sums, Hadamard and Kronecker products *)
Definition dfrag_layer (l : layer) : bool :=
  match l with LPoly _ _ _ _ | LSum _ _ _ _ | LHad _ _ | LKron _ _ => true | _ => false end.
Definition dfrag (c : circuit) : bool := forallb (fun n => dfrag_layer (fst n)) (nodes c).

(* forward mode w.r.t. variable [v] *)
Definition dnode_eval (v : nat) (l : layer) (y : asg) (ins : list (list DC)) : option (list DC) :=
  match l with
  | LPoly u K deg cf =>
      do Cf <- peval cf;
      let x := lookup u y in
      let X := if u =? v then Dv x else Dc x in
      Some (map (fun row => dvhorner (map Dc row) X) (tmat c0 Cf))
  | LSum Ki Ko ar w =>
      do W <- peval w; Some (map (fun row => dvdot (map Dc row) (concat ins)) (tmat c0 W))
  | LHad _ _ => Some (dhadn ins)
  | LKron _ _ => Some (dkronn ins)
  | _ => None
  end.

(* "seeded" forward mode of order k: a polynomial input over [v] carries its k-th formal derivative
   (as computed by [polydiff_row k], the semantics of the parameter node [UPolyDiff k]) as tangent;
   for k = 1 this is [dnode_eval] *)
Definition jnode_eval (k v : nat) (l : layer) (y : asg) (ins : list (list DC)) : option (list DC) :=
  match l with
  | LPoly u K deg cf =>
      do Cf <- peval cf;
      let x := lookup u y in
      Some (map (fun row => (vhorner row x, if u =? v then vhorner (polydiff_row k row) x else c0)) (tmat c0 Cf))
  | LSum Ki Ko ar w =>
      do W <- peval w; Some (map (fun row => dvdot (map Dc row) (concat ins)) (tmat c0 W))
  | LHad _ _ => Some (dhadn ins)
  | LKron _ _ => Some (dkronn ins)
  | _ => None
  end.

Section GFrom.
Variable ev : layer -> list (list DC) -> option (list DC).
Fixpoint gfrom (ns : list (layer * list nat)) (acc : list (list DC)) : option (list (list DC)) :=
  match ns with
  | [] => Some acc
  | (l, ins) :: r => do x <- ev l (map (fun j => nth j acc []) ins); gfrom r (acc ++ [x])
  end.

Lemma gfrom_prefix ns : forall acc vs, gfrom ns acc = Some vs ->
  exists ext, vs = acc ++ ext /\ length ext = length ns.
Proof.
  induction ns as [|[l ins] ns IH]; intros acc vs H; cbn [gfrom] in H.
  - inversion H; subst. exists []. rewrite app_nil_r. auto.
  - destruct (ev l (map (fun j => nth j acc []) ins)) as [x|]; cbn [obind] in H; [|discriminate].
    destruct (IH _ _ H) as [ext [E L]]. exists (x :: ext). rewrite <- app_assoc in E. simpl in *. auto.
Qed.
Lemma gfrom_length ns acc vs : gfrom ns acc = Some vs -> length vs = length acc + length ns.
Proof. intros H. destruct (gfrom_prefix _ _ _ H) as [ext [-> L]]. rewrite app_length. lia. Qed.
Lemma gfrom_node ns : forall acc vs, gfrom ns acc = Some vs ->
  forall i l ins, nth_error ns i = Some (l, ins) -> (forall j, In j ins -> j < length acc + i) ->
  ev l (map (fun j => nth j vs []) ins) = Some (nth (length acc + i) vs []).
Proof.
  induction ns as [|[l0 ins0] ns IH]; intros acc vs H i l ins Hn Hlt; [destruct i; discriminate|].
  cbn [gfrom] in H.
  destruct (ev l0 (map (fun j => nth j acc []) ins0)) as [x|] eqn:Ev; cbn [obind] in H; [|discriminate].
  destruct i as [|i]; cbn [nth_error] in Hn.
  - inversion Hn; subst l0 ins0. destruct (gfrom_prefix _ _ _ H) as [ext [-> _]].
    rewrite Nat.add_0_r in *.
    rewrite (map_ext_in (fun j => nth j ((acc ++ [x]) ++ ext) []) (fun j => nth j acc []) ins).
    2:{ intros j Hj. specialize (Hlt j Hj). rewrite <- app_assoc. apply app_nth1. exact Hlt. }
    rewrite Ev. f_equal. rewrite <- app_assoc. rewrite app_nth2 by lia. rewrite Nat.sub_diag. reflexivity.
  - specialize (IH _ _ H i l ins Hn). rewrite app_length in IH. cbn [length] in IH.
    replace (length acc + 1 + i) with (length acc + Datatypes.S i) in IH by lia. apply IH. exact Hlt.
Qed.
End GFrom.

Lemma gfrom_ext ev ev' ns : (forall l xs, ev l xs = ev' l xs) -> forall acc, gfrom ev ns acc = gfrom ev' ns acc.
Proof.
  intros H. induction ns as [|[l ins] ns IH]; intros acc; cbn [gfrom]; [reflexivity|].
  rewrite H. destruct (ev' l _); cbn [obind]; [apply IH | reflexivity].
Qed.

(* mirrors [den_from] / [den_all] *)
Definition dden_from (v : nat) (ns : list (layer * list nat)) (y : asg) (acc : list (list DC)) :=
  gfrom (fun l => dnode_eval v l y) ns acc.
Definition dden_all (v : nat) (c : circuit) (y : asg) : option (list (list DC)) := dden_from v (nodes c) y [].
Definition jden_from (k v : nat) (ns : list (layer * list nat)) (y : asg) (acc : list (list DC)) :=
  gfrom (fun l => jnode_eval k v l y) ns acc.
Definition jden_all (k v : nat) (c : circuit) (y : asg) : option (list (list DC)) := jden_from k v (nodes c) y [].

Lemma dden_from_cons v l ins r y acc :
  dden_from v ((l, ins) :: r) y acc =
  do x <- dnode_eval v l y (map (fun j => nth j acc []) ins); dden_from v r y (acc ++ [x]).
Proof. reflexivity. Qed.

(* order 1: the seed is the dual-number Horner evaluation *)
Lemma polydiff_row_1 row x : vhorner (polydiff_row 1 row) x = vhorner (vpdiff1 row) x.
Proof.
  unfold polydiff_row. destruct row as [|a [|b r]]; cbn [length Nat.leb iter]; try reflexivity;
    unfold vhorner, vpdiff1; cbn [pdiff1 pdiff_from horner]; ring.
Qed.
Lemma jnode_eval_1 v l y ins : jnode_eval 1 v l y ins = dnode_eval v l y ins.
Proof.
  destruct l; try reflexivity. cbn [jnode_eval dnode_eval]. destruct (peval c); cbn [obind]; [|reflexivity].
  apply f_equal. apply map_ext. intros row. cbv zeta. destruct (v0 =? v).
  - rewrite horner_Dv, polydiff_row_1. reflexivity.
  - rewrite horner_Dc. reflexivity.
Qed.
Lemma jden_all_1 v c y : jden_all 1 v c y = dden_all v c y.
Proof. unfold jden_all, dden_all, jden_from, dden_from. apply gfrom_ext. intros l xs. apply jnode_eval_1. Qed.

(* ---------- the primal part is the ordinary denotation ---------- *)
Lemma nth_map_fst (acc : list (list DC)) j : nth j (map (map fst) acc) [] = map fst (nth j acc []).
Proof. change (@nil C) with (map (@fst C C) []). apply map_nth. Qed.
Lemma nth_map_snd (acc : list (list DC)) j : nth j (map (map snd) acc) [] = map snd (nth j acc []).
Proof. change (@nil C) with (map (@snd C C) []). apply map_nth. Qed.

Lemma jnode_fst k v l y ins : dfrag_layer l = true ->
  option_map (map fst) (jnode_eval k v l y ins) = node_eval l y (map (map fst) ins).
Proof.
  intros Hf. destruct l; try discriminate Hf; cbn [jnode_eval node_eval in_eval].
  - destruct (peval c); cbn [obind option_map]; [|reflexivity]. rewrite map_map. reflexivity.
  - destruct (peval w); cbn [obind option_map]; [|reflexivity]. rewrite map_map. f_equal. apply map_ext.
    intros row. rewrite dot_Dc. cbn [fst]. rewrite concat_map. reflexivity.
  - cbn [option_map]. f_equal. rewrite hadn_foldn. apply (foldn_fst dvhad vhad had_fst).
  - cbn [option_map]. f_equal. rewrite kronn_foldn. apply (foldn_fst dvkron vkron kron_fst).
Qed.

Lemma jden_from_fst k v y ns : forallb (fun n => dfrag_layer (fst n)) ns = true -> forall acc,
  option_map (map (map fst)) (jden_from k v ns y acc) = den_from ns y (map (map fst) acc).
Proof.
  induction ns as [|[l ins] ns IH]; intros Hf acc; [reflexivity|].
  cbn [forallb fst] in Hf. apply andb_prop in Hf. destruct Hf as [Hl Hf].
  unfold jden_from in *. cbn [gfrom den_from].
  rewrite (map_ext (fun j => nth j (map (map fst) acc) []) (fun j => map fst (nth j acc []))) by (intros; apply nth_map_fst).
  rewrite <- (map_map (fun j => nth j acc []) (map fst)).
  rewrite <- (jnode_fst k v l y _ Hl).
  destruct (jnode_eval k v l y (map (fun j => nth j acc []) ins)) as [x|]; cbn [obind option_map]; [|reflexivity].
  rewrite (IH Hf). rewrite map_app. reflexivity.
Qed.

Theorem jden_primal k v c y : dfrag c = true -> option_map (map (map fst)) (jden_all k v c y) = den_all c y.
Proof. intros Hf. exact (jden_from_fst k v y (nodes c) Hf []). Qed.

Theorem dden_primal v c y : dfrag c = true -> option_map (map (map fst)) (dden_all v c y) = den_all c y.
Proof. intros Hf. rewrite <- jden_all_1. apply jden_primal. exact Hf. Qed.

(* ================================================================== *)
(* C. Facts about the dual evaluation of one well-formed circuit        *)
(* ================================================================== *)
(* total versions (the empty list where undefined) *)
Definition jvals (k v : nat) (c : circuit) (y : asg) : list (list DC) :=
  match jden_all k v c y with Some x => x | None => [] end.
Definition dvals (v : nat) (c : circuit) (y : asg) : list (list DC) :=
  match dden_all v c y with Some x => x | None => [] end.
Lemma jvals_1 v c y : jvals 1 v c y = dvals v c y.
Proof. unfold jvals, dvals. rewrite jden_all_1. reflexivity. Qed.

Section OneDual.
Variables (k : nat) (c : circuit) (y : asg) (vals : list (list C)).
Hypothesis Hden : den_all c y = Some vals.
Hypothesis Hwf : wf c = true.
Hypothesis Hfr : dfrag c = true.
Notation jv v := (jvals k v c y) (only parsing).

Lemma jv_some v : jden_all k v c y = Some (jv v) /\ map (map fst) (jv v) = vals.
Proof.
  pose proof (jden_primal k v c y Hfr) as H. rewrite Hden in H. unfold jvals.
  destruct (jden_all k v c y); cbn [option_map] in H; [|discriminate H]. inversion H. auto.
Qed.

Lemma jv_fst v i : map fst (nth i (jv v) []) = nth i vals [].
Proof. rewrite <- nth_map_fst, (proj2 (jv_some v)). reflexivity. Qed.

Lemma jv_node v i l ins : nth_error (nodes c) i = Some (l, ins) ->
  jnode_eval k v l y (map (fun j => nth j (jv v) []) ins) = Some (nth i (jv v) []).
Proof.
  intros Hn. apply (gfrom_node _ (nodes c) [] _ (proj1 (jv_some v)) i l ins Hn).
  intros j Hj. simpl. eapply oc_ins_lt; eauto.
Qed.

Lemma df_layer i l ins : nth_error (nodes c) i = Some (l, ins) -> dfrag_layer l = true.
Proof.
  intros Hn. unfold dfrag in Hfr. rewrite forallb_forall in Hfr.
  apply (Hfr (l, ins)). eapply nth_error_In. exact Hn.
Qed.

(* a node whose scope does not contain v has zero tangent w.r.t. v *)
Lemma jv_zero v : forall i l ins, nth_error (nodes c) i = Some (l, ins) ->
  ~ In v (nth i (scopes c) []) -> ztan (nth i (jv v) []).
Proof.
  intros i. induction i as [i IH] using lt_wf_ind. intros l ins Hn Hv.
  pose proof (jv_node v i l ins Hn) as Hnode.
  pose proof (df_layer i l ins Hn) as Hf.
  rewrite (scope_at c i l ins Hwf Hn) in Hv.
  assert (Hins : is_input l = false -> Forall ztan (map (fun j => nth j (jv v) []) ins)).
  { intros Hi. rewrite Hi in Hv. rewrite Forall_map. apply Forall_forall. intros j Hj.
    assert (Hlt : j < i) by (eapply oc_ins_lt; eauto).
    assert (Hjl : j < length (nodes c)) by (assert (i < length (nodes c)) by (apply nth_error_Some; congruence); lia).
    destruct (nth_error_ex (nodes c) j Hjl) as [[lj insj] Ej].
    apply (IH j Hlt lj insj Ej). intros Hin. apply Hv. apply sunions_In.
    exists (nth j (scopes c) []). split; [|exact Hin]. apply in_map_iff. exists j. auto. }
  destruct l as [? ? ? ?|? ? ? ? ?|? ? ? ? ?|? ? ? ? ?|u K dg cf|? ? ?|? ?|Ki Ko ar w|Ki ar|Ki ar];
    try discriminate Hf; cbn [jnode_eval] in Hnode.
  - destruct (peval cf) as [Cf|]; cbn [obind] in Hnode; [|discriminate Hnode].
    inversion Hnode as [E]. cbn [is_input in_scope] in Hv.
    assert (Hne : (u =? v) = false) by (apply Nat.eqb_neq; intros ->; apply Hv; left; reflexivity).
    rewrite Hne. unfold ztan. rewrite Forall_map. apply Forall_forall. intros; reflexivity.
  - destruct (peval w) as [W|]; cbn [obind] in Hnode; [|discriminate Hnode].
    inversion Hnode as [E]. unfold ztan. rewrite Forall_map. apply Forall_forall. intros row _.
    rewrite dot_Dc. cbn [snd]. apply vdot_zero. rewrite Forall_map.
    exact (ztan_concat _ (Hins eq_refl)).
  - inversion Hnode as [E]. apply (foldn_ztan dvhad had_ztan). exact (Hins eq_refl).
  - inversion Hnode as [E]. apply (foldn_ztan dvkron kron_ztan). exact (Hins eq_refl).
Qed.
End OneDual.

(* ================================================================== *)
(* D. The fold of [differentiate_m]                                     *)
(* ================================================================== *)
Lemma alookup_none v l : ~ In v (map fst l) -> alookup v l = None.
Proof.
  induction l as [|[u x] r IH]; intros H; cbn [alookup]; [reflexivity|].
  destruct (Nat.eqb_spec u v) as [->|Hne]; [exfalso; apply H; left; reflexivity|].
  apply IH. intros Hin. apply H. right. exact Hin.
Qed.
Lemma alookup_some v l : In v (map fst l) -> exists d, alookup v l = Some d.
Proof.
  induction l as [|[u x] r IH]; intros H; [destruct H|]. cbn [alookup].
  destruct (Nat.eqb_spec u v) as [->|Hne]; [eauto|].
  destruct H as [H|H]; [simpl in H; congruence | apply IH; exact H].
Qed.

Lemma Forall2_map_flip {A B X Y} (P : X -> Y -> Prop) (f : B -> X) (g : A -> Y) la lb :
  Forall2 (fun a b => P (f b) (g a)) la lb -> Forall2 P (map f lb) (map g la).
Proof. induction 1; cbn [map]; constructor; assumption. Qed.

(* a batch of nodes that only read the values [acc0] computed before the batch *)
Lemma den_from_batch y acc0 new exts :
  Forall2 (fun n e => (forall x, In x (snd n) -> x < length acc0) /\
                      node_eval (fst n) y (map (fun x => nth x acc0 []) (snd n)) = Some e) new exts ->
  forall pre, den_from new y (acc0 ++ pre) = Some (acc0 ++ pre ++ exts).
Proof.
  induction 1 as [|[l ins] e new exts [Hb He] _ IH]; intros pre; cbn [den_from].
  - rewrite app_nil_r. reflexivity.
  - cbn [fst snd] in Hb, He.
    rewrite (map_ext_in (fun j => nth j (acc0 ++ pre) []) (fun j => nth j acc0 []) ins)
      by (intros j Hj; apply app_nth1; apply Hb; exact Hj).
    rewrite He. cbn [obind]. rewrite <- app_assoc, IH, <- app_assoc. reflexivity.
Qed.

Section DiffVal.
Variables (k : nat) (c : circuit) (y : asg) (vals : list (list C)).
Hypothesis Hden : den_all c y = Some vals.
Hypothesis Hwf : wf c = true.
Hypothesis Hsm : is_smooth c = true.
Hypothesis Hde : is_decomposable c = true.
Hypothesis Hfr : dfrag c = true.
Notation sc := (scopes c).
Notation jv v := (jvals k v c y) (only parsing).
Notation tb0 := (@nil (nat * nat), 0).

(* the value invariant: [vs] are the values of the nodes built so far *)
Definition ValInv (ns : list (layer * list nat)) (tbl : list (list (nat * nat) * nat)) (m : nat)
    (vs : list (list C)) : Prop :=
  den_from ns y [] = Some vs /\
  (forall j, j < m -> nth (snd (nth j tbl tb0)) vs [] = nth j vals []) /\
  (forall j, j < m -> forall v d, In (v, d) (fst (nth j tbl tb0)) ->
     nth d vs [] = map snd (nth j (jv v) [])).
Definition VInv (ns : list (layer * list nat)) (tbl : list (list (nat * nat) * nat)) (m : nat) : Prop :=
  DiffStruct.Inv c ns tbl m /\ exists vs, ValInv ns tbl m vs.

Lemma valinv_extend ns tbl m vs new exts ds s :
  DiffStruct.Inv c ns tbl m -> ValInv ns tbl m vs ->
  Forall2 (fun n e => (forall x, In x (snd n) -> x < length vs) /\
                      node_eval (fst n) y (map (fun x => nth x vs []) (snd n)) = Some e) new exts ->
  length vs <= s /\ nth (s - length vs) exts [] = nth m vals [] ->
  (forall v d, In (v, d) ds -> length vs <= d /\ nth (d - length vs) exts [] = map snd (nth m (jv v) [])) ->
  ValInv (ns ++ new) (tbl ++ [(ds, s)]) (Datatypes.S m) (vs ++ exts).
Proof.
  intros HI [D [V1 V2]] HF [Hs1 Hs2] Hds.
  pose proof (den_from_length _ _ _ _ D) as Lv. simpl in Lv.
  pose proof (inv_len _ _ _ _ HI) as Lt.
  assert (Htold : forall j, j < m -> nth j (tbl ++ [(ds, s)]) tb0 = nth j tbl tb0)
    by (intros j Hj; apply app_nth1; lia).
  assert (Htnew : nth m (tbl ++ [(ds, s)]) tb0 = (ds, s))
    by (rewrite app_nth2 by lia; rewrite Lt, Nat.sub_diag; reflexivity).
  assert (Hcase : forall j, j < Datatypes.S m -> j < m \/ j = m) by (intros; lia).
  split; [|split].
  - rewrite den_from_app, D. cbn [obind].
    pose proof (den_from_batch y vs new exts HF []) as B. rewrite app_nil_r in B. exact B.
  - intros j Hj. destruct (Hcase j Hj) as [Hlt| ->].
    + rewrite (Htold j Hlt). destruct (inv_self _ _ _ _ HI j Hlt) as [A _].
      rewrite app_nth1 by lia. apply V1. exact Hlt.
    + rewrite Htnew. cbn [snd]. rewrite app_nth2 by lia. exact Hs2.
  - intros j Hj v d Hin. destruct (Hcase j Hj) as [Hlt| ->].
    + rewrite (Htold j Hlt) in Hin. destruct (inv_diffs _ _ _ _ HI j Hlt v d Hin) as [A _].
      rewrite app_nth1 by lia. apply (V2 j Hlt v d Hin).
    + rewrite Htnew in Hin. cbn [fst] in Hin. destruct (Hds v d Hin) as [A B].
      rewrite app_nth2 by lia. exact B.
Qed.

Section Step.
Variables (ns : list (layer * list nat)) (tbl : list (list (nat * nat) * nat)) (m : nat) (vs : list (list C)).
Hypothesis HI : DiffStruct.Inv c ns tbl m.
Hypothesis HV : ValInv ns tbl m vs.
Hypothesis Hm : m < length (nodes c).

Lemma len_vs : length vs = length ns.
Proof. destruct HV as [D _]. apply (den_from_length _ _ _ _ D). Qed.

(* sum layers: every input replaced by its derivative block *)
Lemma blk_vals_sum v ins b :
  Forall2 (fun j x => alookup v (fst (nth j tbl tb0)) = Some x) ins b -> (forall j, In j ins -> j < m) ->
  (forall x, In x b -> x < length vs) /\
  map (fun x => nth x vs []) b = map (fun j => map snd (nth j (jv v) [])) ins.
Proof.
  destruct HV as [D [V1 V2]]. pose proof len_vs as Lv.
  induction 1 as [|j x ins b Hx _ IH]; intros Hlt; [split; [intros x []|reflexivity]|].
  destruct (IH (fun j' Hj' => Hlt j' (or_intror Hj'))) as [B E].
  assert (Hj : j < m) by (apply Hlt; left; reflexivity).
  apply alookup_In in Hx. destruct (inv_diffs _ _ _ _ HI j Hj v x Hx) as [A _]. split.
  - intros x' [<- |Hx']; [lia | apply B; exact Hx'].
  - cbn [map]. rewrite E, (V2 j Hj v x Hx). reflexivity.
Qed.

(* product layers, inputs whose scope does not contain v: the copies *)
Lemma blk_vals_tail v ins b :
  Forall2 (fun j x => match alookup v (fst (nth j tbl tb0)) with
                      | Some d => Some d
                      | None => if smem v (nth j sc []) then None else Some (snd (nth j tbl tb0))
                      end = Some x) ins b ->
  (forall j, In j ins -> j < m) -> (forall j, In j ins -> ~ In v (nth j sc [])) ->
  (forall x, In x b -> x < length vs) /\
  Forall2 (fun X Y => ztan X /\ Y = map fst X) (map (fun j => nth j (jv v) []) ins) (map (fun x => nth x vs []) b).
Proof.
  destruct HV as [D [V1 V2]]. pose proof len_vs as Lv.
  induction 1 as [|j x ins b Hx _ IH]; intros Hlt Hnv; [split; [intros x []|constructor]|].
  destruct (IH (fun j' Hj' => Hlt j' (or_intror Hj')) (fun j' Hj' => Hnv j' (or_intror Hj'))) as [B E].
  assert (Hj : j < m) by (apply Hlt; left; reflexivity).
  assert (Hv : ~ In v (nth j sc [])) by (apply Hnv; left; reflexivity).
  rewrite alookup_none in Hx by (rewrite (inv_vars _ _ _ _ HI j Hj); exact Hv).
  destruct (smem v (nth j sc [])) eqn:Es; [apply smem_In in Es; contradiction|].
  inversion Hx; subst x. destruct (inv_self _ _ _ _ HI j Hj) as [A _]. split.
  - intros x' [<- |Hx']; [lia | apply B; exact Hx'].
  - cbn [map]. constructor; [|exact E]. split.
    + destruct (nth_error_ex (nodes c) j ltac:(lia)) as [[lj insj] Ej].
      apply (jv_zero k c y vals Hden Hwf Hfr v j lj insj Ej Hv).
    + rewrite (V1 j Hj). symmetry. apply (jv_fst k c y vals Hden Hfr).
Qed.

(* product layers: the single input whose scope contains v replaced by its derivative block *)
Lemma blk_vals_prod v ins b :
  Forall2 (fun j x => match alookup v (fst (nth j tbl tb0)) with
                      | Some d => Some d
                      | None => if smem v (nth j sc []) then None else Some (snd (nth j tbl tb0))
                      end = Some x) ins b ->
  (forall j, In j ins -> j < m) ->
  all_pairs sdisjoint (map (fun j => nth j sc []) ins) = true ->
  In v (sunions (map (fun j => nth j sc []) ins)) ->
  (forall x, In x b -> x < length vs) /\
  one_hot (map (fun j => nth j (jv v) []) ins) (map (fun x => nth x vs []) b).
Proof.
  destruct HV as [D [V1 V2]]. pose proof len_vs as Lv.
  induction 1 as [|j x ins b Hx HF IH]; intros Hlt Hdj Hin.
  - cbn in Hin. destruct Hin.
  - assert (Hj : j < m) by (apply Hlt; left; reflexivity).
    cbn [map all_pairs] in Hdj. apply andb_prop in Hdj. destruct Hdj as [Hd1 Hd2].
    destruct (in_dec Nat.eq_dec v (nth j sc [])) as [Hv|Hv].
    + (* v in the scope of this input: its block; every later input is disjoint from it *)
      assert (Hrest : forall j', In j' ins -> ~ In v (nth j' sc [])).
      { intros j' Hj'. rewrite forallb_forall in Hd1.
        specialize (Hd1 (nth j' sc []) (in_map (fun j => nth j sc []) ins j' Hj')).
        rewrite sdisjoint_iff in Hd1. apply Hd1. exact Hv. }
      destruct (blk_vals_tail v ins b HF (fun j' Hj' => Hlt j' (or_intror Hj')) Hrest) as [B E].
      destruct (alookup_some v (fst (nth j tbl tb0))) as [d Hd];
        [rewrite (inv_vars _ _ _ _ HI j Hj); exact Hv|].
      rewrite Hd in Hx. inversion Hx; subst x. apply alookup_In in Hd.
      destruct (inv_diffs _ _ _ _ HI j Hj v d Hd) as [A _]. split.
      * intros x' [<- |Hx']; [lia | apply B; exact Hx'].
      * cbn [map]. apply oh_here; [apply (V2 j Hj v d Hd) | exact E].
    + (* v not in the scope of this input: its copy *)
      assert (Hin' : In v (sunions (map (fun j => nth j sc []) ins))).
      { cbn [map sunions fold_right] in Hin. apply sunion_In in Hin. destruct Hin as [Hin|Hin]; [contradiction|exact Hin]. }
      destruct (IH (fun j' Hj' => Hlt j' (or_intror Hj')) Hd2 Hin') as [B E].
      rewrite alookup_none in Hx by (rewrite (inv_vars _ _ _ _ HI j Hj); exact Hv).
      destruct (smem v (nth j sc [])) eqn:Es; [apply smem_In in Es; contradiction|].
      inversion Hx; subst x. destruct (inv_self _ _ _ _ HI j Hj) as [A _]. split.
      * intros x' [<- |Hx']; [lia | apply B; exact Hx'].
      * cbn [map]. apply oh_later; [| |exact E].
        -- destruct (nth_error_ex (nodes c) j ltac:(lia)) as [[lj insj] Ej].
           apply (jv_zero k c y vals Hden Hwf Hfr v j lj insj Ej Hv).
        -- rewrite (V1 j Hj). symmetry. apply (jv_fst k c y vals Hden Hfr).
Qed.

(* the copy of a non-input node *)
Lemma self_vals ins : (forall j, In j ins -> j < m) ->
  (forall x, In x (map (fun j => snd (nth j tbl tb0)) ins) -> x < length vs) /\
  map (fun x => nth x vs []) (map (fun j => snd (nth j tbl tb0)) ins) = map (fun j => nth j vals []) ins.
Proof.
  destruct HV as [D [V1 V2]]. pose proof len_vs as Lv. intros Hlt. split.
  - intros x Hx. apply in_map_iff in Hx. destruct Hx as [j [<- Hj]].
    destruct (inv_self _ _ _ _ HI j (Hlt j Hj)) as [A _]. lia.
  - rewrite map_map. apply map_ext_in. intros j Hj. apply V1. apply Hlt. exact Hj.
Qed.
End Step.

Lemma nth_map_lt {A B} (f : A -> B) l i d d' : i < length l -> nth i (map f l) d = f (nth i l d').
Proof. intros H. rewrite (nth_indep _ d (f d')) by (rewrite map_length; exact H). apply map_nth. Qed.

Lemma in_combine_seq {A} (l : list A) a0 : forall s v d, In (v, d) (combine l (seq s (length l))) ->
  s <= d < s + length l /\ nth (d - s) l a0 = v.
Proof.
  induction l as [|a l IH]; intros s v d H; [destruct H|]. cbn [length seq combine] in H. destruct H as [E|H].
  - inversion E; subst. split; [simpl; lia|]. rewrite Nat.sub_diag. reflexivity.
  - destruct (IH (Datatypes.S s) v d H) as [B E]. split; [simpl; lia|].
    replace (d - s) with (Datatypes.S (d - Datatypes.S s)) by lia. exact E.
Qed.

(* the batch of a sum / product node: one block per variable of its scope, then the copy *)
Lemma nonin_extend ns tbl m vs l ins bl (g : nat -> option (list nat)) :
  DiffStruct.Inv c ns tbl m -> ValInv ns tbl m vs ->
  nth_error (nodes c) m = Some (l, ins) -> is_input l = false ->
  Forall2 (fun v b => g v = Some b) (nth m sc []) bl ->
  (forall v b, In v (nth m sc []) -> g v = Some b ->
     (forall x, In x b -> x < length vs) /\
     node_eval l y (map (fun x => nth x vs []) b) = Some (map snd (nth m (jv v) []))) ->
  ValInv (ns ++ map (fun b => (l, b)) bl ++ [(l, map (fun j => snd (nth j tbl tb0)) ins)])
         (tbl ++ [(combine (nth m sc []) (seq (length ns) (length (nth m sc []))), length ns + length (nth m sc []))])
         (Datatypes.S m)
         (vs ++ map (fun v => map snd (nth m (jv v) [])) (nth m sc []) ++ [nth m vals []]).
Proof.
  intros HI HV Hn Hi HF Hcore.
  assert (Hm : m < length (nodes c)) by (apply nth_error_Some; congruence).
  assert (Hlt : forall j, In j ins -> j < m) by (intros j Hj; eapply oc_ins_lt; eauto).
  pose proof (oc_node c y vals Hden Hwf m l ins Hn) as Hval.
  pose proof (len_vs _ _ _ _ HV) as Lv.
  set (vars := nth m sc []) in *.
  apply (valinv_extend _ _ _ _ _ _ _ _ HI HV).
  - apply Forall2_app.
    + apply Forall2_map_flip. eapply DiffStruct.Forall2_impl_in; [|exact HF].
      intros v b Hv Hg. cbn [fst snd]. apply (Hcore v b Hv Hg).
    + constructor; [|constructor]. cbn [fst snd].
      destruct (self_vals _ _ _ _ HI HV Hm ins Hlt) as [B E]. split; [exact B|]. rewrite E. exact Hval.
  - split; [lia|]. rewrite app_nth2 by (rewrite map_length; lia).
    rewrite map_length. replace (length ns + length vars - length vs - length vars) with 0 by lia. reflexivity.
  - intros v d Hin. destruct (in_combine_seq vars 0 _ _ _ Hin) as [B E]. split; [lia|].
    rewrite app_nth1 by (rewrite map_length; lia).
    rewrite (nth_map_lt _ vars _ [] 0) by lia. rewrite Lv, E. reflexivity.
Qed.

Lemma diff_step_vinv st m l ins st' :
  VInv (dnodes st) (dtbl st) m ->
  nth_error (nodes c) m = Some (l, ins) ->
  diff_step k sc (Ok st) (m, (l, ins)) = Ok st' ->
  VInv (dnodes st') (dtbl st') (Datatypes.S m).
Proof.
  intros [HI [vs HV]] Hn Hst.
  split; [apply (diff_step_inv k c Hwf Hsm Hde st m l ins st' HI Hn Hst)|].
  assert (Hm : m < length (nodes c)) by (apply nth_error_Some; congruence).
  assert (Hlt : forall j, In j ins -> j < m) by (intros j Hj; eapply oc_ins_lt; eauto).
  pose proof (oc_node c y vals Hden Hwf m l ins Hn) as Hval.
  pose proof (len_vs _ _ _ _ HV) as Lv.
  unfold diff_step, rbind in Hst.
  destruct l as [? ? ? ?|? ? ? ? ?|? ? ? ? ?|? ? ? ? ?|u K dg cf|? ? ?|? ?|Ki Ko ar w|Ki ar|Ki ar];
    cbn [is_input diff_layer] in Hst; try discriminate Hst.
  - (* polynomial input: the differentiated layer, then the copy *)
    cbn [in_scope] in Hst. inversion Hst; subst st'. cbn [dnodes dtbl]. clear Hst.
    exists (vs ++ [map snd (nth m (jv u) []); nth m vals []]).
    apply (valinv_extend _ _ _ _ _ _ _ _ HI HV).
    + pose proof (jv_node k c y vals Hden Hwf Hfr u m _ ins Hn) as Hj. cbn [jnode_eval] in Hj.
      constructor; [|constructor; [|constructor]].
      * split; [intros x []|]. cbn [fst snd map node_eval in_eval peval].
        destruct (peval cf) as [Cf|]; cbn [obind] in Hj |- *; [|discriminate Hj].
        inversion Hj as [E]. cbn [eval_unop obind]. rewrite tmat_of_mat, !map_map. apply f_equal.
        apply map_ext. intros row. cbn [snd]. rewrite Nat.eqb_refl. reflexivity.
      * split; [intros x []|]. cbn [fst snd map]. cbn [node_eval] in Hval |- *. exact Hval.
    + split; [lia|]. replace (length (dnodes st) + 1 - length vs) with 1 by lia. reflexivity.
    + intros v d [E|[]]. inversion E; subst. split; [lia|].
      replace (length (dnodes st) - length vs) with 0 by lia. reflexivity.
  - (* sum layer *)
    cbn [is_sum] in Hst.
    match type of Hst with match omap _ ?B with _ => _ end = _ => set (blocks := B) in * end.
    destruct (omap (fun x => x) blocks) as [bl|] eqn:Hbl; [|discriminate Hst].
    inversion Hst; subst st'. cbn [dnodes dtbl]. clear Hst. subst blocks. apply omap_id_map in Hbl.
    eexists. apply (nonin_extend _ _ _ _ _ _ _ _ HI HV Hn eq_refl Hbl).
    intros v b Hv Hg. apply omap_F2 in Hg.
    destruct (blk_vals_sum _ _ _ _ HI HV Hm v ins b Hg Hlt) as [B E]. split; [exact B|]. rewrite E.
    pose proof (jv_node k c y vals Hden Hwf Hfr v m _ ins Hn) as Hj. cbn [jnode_eval] in Hj. cbn [node_eval].
    destruct (peval w) as [W|]; cbn [obind] in Hj |- *; [|discriminate Hj].
    inversion Hj as [E2]. rewrite map_map. apply f_equal. apply map_ext. intros row.
    rewrite dot_Dc. cbn [snd]. f_equal. rewrite concat_map, map_map. reflexivity.
  - (* Hadamard layer *)
    cbn [is_sum] in Hst.
    match type of Hst with match omap _ ?B with _ => _ end = _ => set (blocks := B) in * end.
    destruct (omap (fun x => x) blocks) as [bl|] eqn:Hbl; [|discriminate Hst].
    inversion Hst; subst st'. cbn [dnodes dtbl]. clear Hst. subst blocks. apply omap_id_map in Hbl.
    eexists. apply (nonin_extend _ _ _ _ _ _ _ _ HI HV Hn eq_refl Hbl).
    intros v b Hv Hg. apply omap_F2 in Hg.
    rewrite (scope_at c m _ ins Hwf Hn) in Hv. cbn [is_input] in Hv.
    pose proof (dec_all c Hde _ ins (nth_error_In _ _ Hn) eq_refl) as Hdj.
    destruct (blk_vals_prod _ _ _ _ HI HV Hm v ins b Hg Hlt Hdj Hv) as [B OH]. split; [exact B|].
    pose proof (jv_node k c y vals Hden Hwf Hfr v m _ ins Hn) as Hj. cbn [jnode_eval] in Hj. cbn [node_eval].
    inversion Hj as [E2]. apply f_equal. rewrite hadn_foldn. symmetry.
    apply (foldn_one_hot dvhad vhad had_fst had_snd_r had_snd_l had_ztan). exact OH.
  - (* Kronecker layer: the positions of the inputs are kept *)
    cbn [is_sum] in Hst.
    match type of Hst with match omap _ ?B with _ => _ end = _ => set (blocks := B) in * end.
    destruct (omap (fun x => x) blocks) as [bl|] eqn:Hbl; [|discriminate Hst].
    inversion Hst; subst st'. cbn [dnodes dtbl]. clear Hst. subst blocks. apply omap_id_map in Hbl.
    eexists. apply (nonin_extend _ _ _ _ _ _ _ _ HI HV Hn eq_refl Hbl).
    intros v b Hv Hg. apply omap_F2 in Hg.
    rewrite (scope_at c m _ ins Hwf Hn) in Hv. cbn [is_input] in Hv.
    pose proof (dec_all c Hde _ ins (nth_error_In _ _ Hn) eq_refl) as Hdj.
    destruct (blk_vals_prod _ _ _ _ HI HV Hm v ins b Hg Hlt Hdj Hv) as [B OH]. split; [exact B|].
    pose proof (jv_node k c y vals Hden Hwf Hfr v m _ ins Hn) as Hj. cbn [jnode_eval] in Hj. cbn [node_eval].
    inversion Hj as [E2]. apply f_equal. rewrite kronn_foldn. symmetry.
    apply (foldn_one_hot dvkron vkron kron_fst kron_snd_r kron_snd_l kron_ztan). exact OH.
Qed.

Lemma VInv_nil : VInv [] [] 0.
Proof.
  split; [apply Inv_nil|]. exists []. split; [reflexivity|]. split; intros; lia.
Qed.

Lemma diff_fold_vinv rest : forall pre st st',
  nodes c = pre ++ rest ->
  VInv (dnodes st) (dtbl st) (length pre) ->
  fold_left (diff_step k sc) (combine (seq (length pre) (length rest)) rest) (Ok st) = Ok st' ->
  VInv (dnodes st') (dtbl st') (length (nodes c)).
Proof.
  induction rest as [|[l ins] r IH]; intros pre st st' Hn HI Hf.
  - cbn [length seq combine fold_left] in Hf. inversion Hf; subst st'.
    rewrite Hn, app_nil_r. exact HI.
  - cbn [length seq combine fold_left] in Hf.
    destruct (diff_step k sc (Ok st) (length pre, (l, ins))) as [st1|e] eqn:E.
    + apply (IH (pre ++ [(l, ins)]) st1 st').
      * rewrite <- app_assoc. exact Hn.
      * rewrite app_length. simpl. rewrite Nat.add_1_r.
        apply (diff_step_vinv st (length pre) l ins st1 HI); auto.
        rewrite Hn, nth_error_app2, Nat.sub_diag by lia. reflexivity.
      * rewrite app_length. simpl. rewrite Nat.add_1_r. exact Hf.
    + rewrite diff_fold_err in Hf. discriminate Hf.
Qed.
End DiffVal.

(* ================================================================== *)
(* E. The theorems                                                      *)
(* ================================================================== *)
(* the final state of the fold of [differentiate_m]; [diff_table k c] maps node i of c to
   (list of (variable v of scope(i), index of the block d(node i)/dv), index of the copy of node i) *)
Definition diff_final (k : nat) (c : circuit) : res dstate :=
  fold_left (diff_step k (scopes c)) (combine (seq 0 (length (nodes c))) (nodes c))
    (Ok {| dnodes := []; dtbl := [] |}).
Definition diff_table (k : nat) (c : circuit) : list (list (nat * nat) * nat) :=
  match diff_final k c with Ok st => dtbl st | Err _ => [] end.
Definition copy_ix (k : nat) (c : circuit) (i : nat) : nat := snd (nth i (diff_table k c) ([], 0)).
Definition block_ix (k : nat) (c : circuit) (i v : nat) : option nat :=
  alookup v (fst (nth i (diff_table k c) ([], 0))).

Lemma differentiate_m_final k c c' : differentiate_m k c = Ok c' ->
  exists st, diff_final k c = Ok st /\ nodes c' = dnodes st /\
             outs c' = flat_map (diff_outs (dtbl st)) (outs c).
Proof.
  intros H. rewrite differentiate_unfold in H.
  destruct (negb (is_smooth c && is_decomposable c)); [discriminate H|].
  destruct (k =? 0); [discriminate H|]. fold (diff_final k c) in H.
  destruct (diff_final k c) as [st|e]; [|discriminate H].
  unfold rbind in H. inversion H; subst c'. exists st. repeat split.
Qed.

(* [differentiate_m] only returns on circuits made of polynomial inputs, sums and products *)
Lemma diff_fold_frag k c rest : forall s st st',
  fold_left (diff_step k (scopes c)) (combine (seq s (length rest)) rest) (Ok st) = Ok st' ->
  forallb (fun n => dfrag_layer (fst n)) rest = true.
Proof.
  induction rest as [|[l ins] r IH]; intros s st st' Hf; [reflexivity|].
  cbn [length seq combine fold_left] in Hf.
  destruct (diff_step k (scopes c) (Ok st) (s, (l, ins))) as [st1|e] eqn:E.
  - cbn [forallb fst]. rewrite (IH _ _ _ Hf), andb_true_r.
    unfold diff_step, rbind in E. destruct l; cbn [is_input diff_layer] in E; try discriminate E; reflexivity.
  - rewrite diff_fold_err in Hf. discriminate Hf.
Qed.
Theorem differentiate_frag k c c' : differentiate_m k c = Ok c' -> dfrag c = true.
Proof.
  intros H. destruct (differentiate_m_final k c c' H) as [st [Hf _]].
  exact (diff_fold_frag k c (nodes c) 0 _ st Hf).
Qed.

Lemma map_flat_map' {A B D} (f : B -> D) (g : A -> list B) l :
  map f (flat_map g l) = flat_map (fun x => map f (g x)) l.
Proof. induction l as [|x l IH]; simpl; [reflexivity|]. rewrite map_app, IH. reflexivity. Qed.
Lemma flat_map_ext_in' {A B} (f g : A -> list B) l :
  (forall x, In x l -> f x = g x) -> flat_map f l = flat_map g l.
Proof.
  induction l as [|x l IH]; intros H; simpl; [reflexivity|].
  rewrite (H x) by (simpl; auto). rewrite IH by (intros; apply H; simpl; auto). reflexivity.
Qed.

(* what the dual evaluation is, wherever the operand evaluates *)
Theorem jvals_spec k v c y vals : dfrag c = true -> den_all c y = Some vals ->
  jden_all k v c y = Some (jvals k v c y) /\ map (map fst) (jvals k v c y) = vals.
Proof. intros Hf Hd. exact (jv_some k c y vals Hd Hf v). Qed.
Theorem dvals_spec v c y vals : dfrag c = true -> den_all c y = Some vals ->
  dden_all v c y = Some (dvals v c y) /\ map (map fst) (dvals v c y) = vals.
Proof. intros Hf Hd. rewrite <- jvals_1, <- jden_all_1. apply jvals_spec; assumption. Qed.

(* ---------- any order k: blocks = tangents of the k-seeded dual evaluation ---------- *)
Lemma differentiate_exec_inv k c c' y vals :
  wf c = true -> differentiate_m k c = Ok c' -> den_all c y = Some vals ->
  exists vals',
    den_all c' y = Some vals' /\
    outs c' = flat_map (diff_outs (diff_table k c)) (outs c) /\
    DiffStruct.Inv c (nodes c') (diff_table k c) (length (nodes c)) /\
    (forall j, j < length (nodes c) -> nth (copy_ix k c j) vals' [] = nth j vals []) /\
    (forall j, j < length (nodes c) -> forall v d, In (v, d) (fst (nth j (diff_table k c) ([], 0))) ->
       nth d vals' [] = map snd (nth j (jvals k v c y) [])).
Proof.
  intros Hwf H Hden. destruct (differentiate_ok k c c' H) as (Hsm & Hde & _).
  pose proof (differentiate_frag k c c' H) as Hfr.
  destruct (differentiate_m_final k c c' H) as [st [Hf [Hn Ho]]].
  pose proof (diff_fold_vinv k c y vals Hden Hwf Hsm Hde Hfr (nodes c) [] {| dnodes := []; dtbl := [] |} st
                eq_refl (VInv_nil k c y vals) Hf) as [HI [vs [D [V1 V2]]]].
  unfold copy_ix, diff_table, den_all. rewrite Hf. exists vs. rewrite Hn.
  split; [exact D|]. split; [exact Ho|]. split; [exact HI|]. split; [exact V1 | exact V2].
Qed.

Theorem differentiate_exec_den_k k c c' y vals :
  wf c = true -> differentiate_m k c = Ok c' -> den_all c y = Some vals ->
  exists vals', den_all c' y = Some vals' /\
    forall i, i < length (nodes c) ->
      (* the copy of node i *)
      nth (copy_ix k c i) vals' [] = nth i vals [] /\
      (* the block (i, v), for every variable v of the scope of node i *)
      forall v, In v (nth i (scopes c) []) ->
        exists d, block_ix k c i v = Some d /\ d < length (nodes c') /\
                  nth d vals' [] = map snd (nth i (jvals k v c y) []).
Proof.
  intros Hwf H Hden.
  destruct (differentiate_exec_inv k c c' y vals Hwf H Hden) as [vs [D [Ho [HI [V1 V2]]]]].
  exists vs. split; [exact D|]. intros i Hi. split; [apply V1; exact Hi|]. intros v Hv.
  destruct (alookup_some v (fst (nth i (diff_table k c) ([], 0)))) as [d Hd];
    [rewrite (inv_vars _ _ _ _ HI i Hi); exact Hv|].
  exists d. split; [exact Hd|]. apply alookup_In in Hd.
  split; [apply (inv_diffs _ _ _ _ HI i Hi v d Hd) | apply (V2 i Hi v d Hd)].
Qed.

(* the function denoted by the result: per output o of c, the blocks for the variables of
   scope(o) in increasing order, then o itself *)
Corollary differentiate_exec_den_outputs_k k c c' y vals :
  wf c = true -> differentiate_m k c = Ok c' -> den_all c y = Some vals ->
  den c' y = Some (flat_map (fun o => map (fun v => map snd (nth o (jvals k v c y) [])) (nth o (scopes c) [])
                                      ++ [nth o vals []]) (outs c)).
Proof.
  intros Hwf H Hden.
  destruct (differentiate_exec_inv k c c' y vals Hwf H Hden) as [vs [D [Ho [HI [V1 V2]]]]].
  unfold den. rewrite D. cbn [obind]. apply f_equal. rewrite Ho, map_flat_map'.
  apply flat_map_ext_in'. intros o Hin. pose proof (wf_outs c Hwf o Hin) as Hlt.
  specialize (V1 o Hlt). specialize (V2 o Hlt). pose proof (inv_vars _ _ _ _ HI o Hlt) as Hvars.
  unfold copy_ix in V1. unfold diff_outs. destruct (nth o (diff_table k c) ([], 0)) as [ds s].
  cbn [fst snd] in V1, V2, Hvars. rewrite map_app. cbn [map]. rewrite V1. f_equal.
  rewrite <- Hvars, !map_map. apply map_ext_in. intros [v d] Hvd. cbn [fst snd]. apply V2. exact Hvd.
Qed.

(* ---------- order 1: blocks = forward-mode tangents = partial derivatives ---------- *)
Theorem differentiate_exec_den c c' y vals :
  wf c = true -> differentiate_m 1 c = Ok c' -> den_all c y = Some vals ->
  exists vals', den_all c' y = Some vals' /\
    forall i, i < length (nodes c) ->
      nth (copy_ix 1 c i) vals' [] = nth i vals [] /\
      forall v, In v (nth i (scopes c) []) ->
        exists d vd, block_ix 1 c i v = Some d /\ d < length (nodes c') /\
                     dden_all v c y = Some vd /\ map (map fst) vd = vals /\
                     nth d vals' [] = map snd (nth i vd []).
Proof.
  intros Hwf H Hden.
  destruct (differentiate_exec_den_k 1 c c' y vals Hwf H Hden) as [vs [D HB]].
  exists vs. split; [exact D|]. intros i Hi. destruct (HB i Hi) as [HC HV]. split; [exact HC|].
  intros v Hv. destruct (HV v Hv) as [d [Hd [Hlt E]]].
  destruct (dvals_spec v c y vals (differentiate_frag 1 c c' H) Hden) as [S1 S2].
  exists d, (dvals v c y). rewrite jvals_1 in E. auto.
Qed.

(* in the form: for whatever values the result and the dual evaluation have *)
Corollary differentiate_exec_den' c c' y vals vals' :
  wf c = true -> differentiate_m 1 c = Ok c' -> den_all c y = Some vals -> den_all c' y = Some vals' ->
  forall i, i < length (nodes c) ->
    nth (copy_ix 1 c i) vals' [] = nth i vals [] /\
    forall v vd, In v (nth i (scopes c) []) -> dden_all v c y = Some vd ->
      exists d, block_ix 1 c i v = Some d /\ nth d vals' [] = map snd (nth i vd []).
Proof.
  intros Hwf H Hden Hden' i Hi.
  destruct (differentiate_exec_den c c' y vals Hwf H Hden) as [vs [D HB]].
  rewrite Hden' in D. inversion D; subst vs. destruct (HB i Hi) as [HC HV]. split; [exact HC|].
  intros v vd Hv Hvd. destruct (HV v Hv) as [d [vd' [Hd [_ [Hvd' [_ E]]]]]].
  rewrite Hvd in Hvd'. inversion Hvd'; subst vd'. eauto.
Qed.

Corollary differentiate_exec_den_outputs c c' y vals :
  wf c = true -> differentiate_m 1 c = Ok c' -> den_all c y = Some vals ->
  (forall v, dden_all v c y = Some (dvals v c y)) /\
  den c' y = Some (flat_map (fun o => map (fun v => map snd (nth o (dvals v c y) [])) (nth o (scopes c) [])
                                      ++ [nth o vals []]) (outs c)).
Proof.
  intros Hwf H Hden. split.
  - intros v. apply (dvals_spec v c y vals (differentiate_frag 1 c c' H) Hden).
  - rewrite (differentiate_exec_den_outputs_k 1 c c' y vals Hwf H Hden). apply f_equal.
    apply flat_map_ext_in'. intros o _. f_equal. apply map_ext. intros v. rewrite jvals_1. reflexivity.
Qed.

(* ================================================================== *)
(* E2. Order k as iterated differentiation                              *)
(* ================================================================== *)
(* [shiftv n v c]: the circuit c whose polynomial inputs over the variable v had their coefficient
   rows formally differentiated n times.  Shown below, for every node i with v in scope(i):
     - node i of [shiftv n v c] denotes the order-n block (i, v)            ([shiftv_den_block]), and
     - the order-(n+1) block (i, v) is the forward-mode tangent w.r.t. v of node i of [shiftv n v c]
                                                                            ([differentiate_order_succ]),
   i.e. as functions of the assignment, block_(n+1)(i, v) = d/dx_v block_n(i, v), block_1 = d/dx_v node i. *)
Definition shift_layer (n v : nat) (l : layer) : layer :=
  match l with
  | LPoly u K dg cf => if u =? v then LPoly u K dg (PUn (UPolyDiff n) cf) else l
  | _ => l
  end.
Definition shift_nodes_v (n v : nat) (ns : list (layer * list nat)) : list (layer * list nat) :=
  map (fun p => (shift_layer n v (fst p), snd p)) ns.
Definition shiftv (n v : nat) (c : circuit) : circuit := mkC (shift_nodes_v n v (nodes c)) (outs c).

Lemma shift_is_input n v l : is_input (shift_layer n v l) = is_input l.
Proof. destruct l; try reflexivity. cbn [shift_layer]. destruct (_ =? _); reflexivity. Qed.
Lemma shift_in_scope n v l : in_scope (shift_layer n v l) = in_scope l.
Proof. destruct l; try reflexivity. cbn [shift_layer]. destruct (_ =? _); reflexivity. Qed.
Lemma shift_out_units n v l : out_units (shift_layer n v l) = out_units l.
Proof. destruct l; try reflexivity. cbn [shift_layer]. destruct (_ =? _); reflexivity. Qed.
Lemma shift_arity n v l : arity (shift_layer n v l) = arity l.
Proof. destruct l; try reflexivity. cbn [shift_layer]. destruct (_ =? _); reflexivity. Qed.
Lemma shift_in_units n v l : in_units (shift_layer n v l) = in_units l.
Proof. destruct l; try reflexivity. cbn [shift_layer]. destruct (_ =? _); reflexivity. Qed.
Lemma shift_dfrag_layer n v l : dfrag_layer (shift_layer n v l) = dfrag_layer l.
Proof. destruct l; try reflexivity. cbn [shift_layer]. destruct (_ =? _); reflexivity. Qed.

Lemma scopes_shiftv n v c : scopes (shiftv n v c) = scopes c.
Proof.
  unfold scopes, shiftv. cbn [nodes]. generalize (@nil (list nat)) as acc.
  induction (nodes c) as [|[l ins] ns IH]; intros acc; [reflexivity|].
  cbn [shift_nodes_v map fst snd scopes_from]. rewrite shift_is_input, shift_in_scope. apply IH.
Qed.
Lemma wf_shiftv n v c : wf (shiftv n v c) = wf c.
Proof.
  unfold wf, shiftv. cbn [nodes outs]. unfold shift_nodes_v at 2. rewrite map_length. f_equal.
  generalize 0 as pos. generalize (@nil nat) as us.
  induction (nodes c) as [|[l ins] ns IH]; intros us pos; [reflexivity|].
  cbn [shift_nodes_v map fst snd wf_from]. rewrite shift_is_input, shift_arity, shift_in_units, shift_out_units.
  f_equal. apply IH.
Qed.
Lemma dfrag_shiftv n v c : dfrag (shiftv n v c) = dfrag c.
Proof.
  unfold dfrag, shiftv. cbn [nodes]. induction (nodes c) as [|[l ins] ns IH]; [reflexivity|].
  cbn [shift_nodes_v map fst snd forallb]. rewrite shift_dfrag_layer. f_equal. apply IH.
Qed.
Lemma nth_error_shiftv n v c i l ins : nth_error (nodes c) i = Some (l, ins) ->
  nth_error (nodes (shiftv n v c)) i = Some (shift_layer n v l, ins).
Proof. intros H. unfold shiftv, shift_nodes_v. cbn [nodes]. rewrite nth_error_map, H. reflexivity. Qed.

(* definedness is preserved *)
Lemma shift_node_defined n v l y ins e : dfrag_layer l = true -> node_eval l y ins = Some e ->
  forall ins', exists e', node_eval (shift_layer n v l) y ins' = Some e'.
Proof.
  intros Hf He ins'. destruct l as [? ? ? ?|? ? ? ? ?|? ? ? ? ?|? ? ? ? ?|u K dg cf|? ? ?|? ?|Ki Ko ar w|Ki ar|Ki ar];
    try discriminate Hf; cbn [shift_layer].
  - cbn [node_eval in_eval] in He. destruct (u =? v); cbn [node_eval in_eval peval];
      destruct (peval cf); cbn [obind eval_unop] in *; try discriminate He; eauto.
  - cbn [node_eval] in *. destruct (peval w); cbn [obind] in *; try discriminate He; eauto.
  - cbn [node_eval]. eauto.
  - cbn [node_eval]. eauto.
Qed.
Lemma shift_den_defined n v y ns : forallb (fun p => dfrag_layer (fst p)) ns = true ->
  forall acc vs, den_from ns y acc = Some vs ->
  forall acc', exists vs', den_from (shift_nodes_v n v ns) y acc' = Some vs'.
Proof.
  induction ns as [|[l ins] ns IH]; intros Hf acc vs H acc'; [cbn; eauto|].
  cbn [forallb fst] in Hf. apply andb_prop in Hf. destruct Hf as [Hl Hf].
  cbn [den_from] in H. destruct (node_eval l y (map (fun j => nth j acc []) ins)) as [e|] eqn:E; cbn [obind] in H; [|discriminate H].
  destruct (shift_node_defined n v l y _ e Hl E (map (fun j => nth j acc' []) ins)) as [e' E'].
  cbn [shift_nodes_v map fst snd den_from]. rewrite E'. cbn [obind]. apply (IH Hf _ _ H).
Qed.

(* formal derivatives of coefficient rows *)
Lemma iter_comm {X} (f : X -> X) n : forall x, iter n f (f x) = f (iter n f x).
Proof. induction n as [|n IH]; intros x; cbn [iter]; [reflexivity | apply IH]. Qed.
Lemma length_iter_pdiff n : forall row, length (iter n vpdiff1 row) = length row - n.
Proof.
  induction n as [|n IH]; intros row; cbn [iter]; [lia|]. rewrite IH. unfold vpdiff1.
  rewrite (length_pdiff1 C c1 cadd cmul). lia.
Qed.
Lemma polydiff_row_succ n row x :
  vhorner (polydiff_row 1 (polydiff_row n row)) x = vhorner (polydiff_row (Datatypes.S n) row) x.
Proof.
  unfold polydiff_row at 2 3. destruct (Nat.leb_spec (length row) n) as [H1|H1].
  - destruct (Nat.leb_spec (length row) (Datatypes.S n)); [reflexivity | lia].
  - unfold polydiff_row. rewrite length_iter_pdiff.
    destruct (Nat.leb_spec (length row - n) 1) as [H2|H2];
      destruct (Nat.leb_spec (length row) (Datatypes.S n)) as [H3|H3]; try lia; [reflexivity|].
    cbn [iter]. rewrite iter_comm. reflexivity.
Qed.

Lemma ztan_snd_eq (X X' : list DC) : ztan X -> ztan X' -> length X = length X' -> map snd X = map snd X'.
Proof.
  intros H. revert X'. induction H as [|x X Hx _ IH]; intros [|x' X'] H' L; try discriminate L; [reflexivity|].
  inversion H'; subst. cbn [map]. rewrite Hx. f_equal; [congruence | apply IH; [assumption | simpl in L; lia]].
Qed.

Section Shift.
Variables (n v : nat) (c : circuit) (y : asg) (vals valsS : list (list C)).
Hypothesis Hden : den_all c y = Some vals.
Hypothesis HdenS : den_all (shiftv n v c) y = Some valsS.
Hypothesis Hwf : wf c = true.
Hypothesis Hsm : is_smooth c = true.
Hypothesis Hde : is_decomposable c = true.
Hypothesis Hfr : dfrag c = true.
Notation sc := (scopes c).
Notation cS := (shiftv n v c).

Let HwfS : wf cS = true. Proof. rewrite wf_shiftv. exact Hwf. Qed.
Let HfrS : dfrag cS = true. Proof. rewrite dfrag_shiftv. exact Hfr. Qed.

(* products: from decomposability, exactly one input has v in its scope *)
Lemma one_hot_of_dec ins (X : nat -> list DC) (Y : nat -> list C) :
  all_pairs sdisjoint (map (fun j => nth j sc []) ins) = true ->
  In v (sunions (map (fun j => nth j sc []) ins)) ->
  (forall j, In j ins -> In v (nth j sc []) -> Y j = map snd (X j)) ->
  (forall j, In j ins -> ~ In v (nth j sc []) -> ztan (X j) /\ Y j = map fst (X j)) ->
  one_hot (map X ins) (map Y ins).
Proof.
  induction ins as [|j ins IH]; intros Hdj Hin H1 H0; [cbn in Hin; destruct Hin|].
  cbn [map all_pairs] in Hdj. apply andb_prop in Hdj. destruct Hdj as [Hd1 Hd2].
  destruct (in_dec Nat.eq_dec v (nth j sc [])) as [Hv|Hv].
  - cbn [map]. apply oh_here; [apply H1; [left; reflexivity | exact Hv]|].
    assert (Hrest : forall j', In j' ins -> ~ In v (nth j' sc [])).
    { intros j' Hj'. rewrite forallb_forall in Hd1.
      specialize (Hd1 (nth j' sc []) (in_map (fun j => nth j sc []) ins j' Hj')).
      rewrite sdisjoint_iff in Hd1. apply Hd1. exact Hv. }
    clear - H0 Hrest. induction ins as [|j' ins IH']; cbn [map]; constructor.
    + apply H0; [right; left; reflexivity | apply Hrest; left; reflexivity].
    + apply IH'.
      * intros j0 Hj0 Hn0. apply H0; [|exact Hn0].
        destruct Hj0 as [E|Hj0]; [left; exact E | right; right; exact Hj0].
      * intros j0 Hj0. apply Hrest. right. exact Hj0.
  - cbn [map]. destruct (H0 j (or_introl eq_refl) Hv) as [Z E]. apply oh_later; [exact Z | exact E|].
    apply IH; [exact Hd2| | |].
    + cbn [map sunions fold_right] in Hin. apply sunion_In in Hin. destruct Hin; [contradiction|assumption].
    + intros j' Hj'. apply H1. right. exact Hj'.
    + intros j' Hj'. apply H0. right. exact Hj'.
Qed.

(* node i of the shifted circuit: the n-seeded tangent if v is in scope(i), the value of node i otherwise *)
Lemma shift_vals : forall i l ins, nth_error (nodes c) i = Some (l, ins) ->
  (In v (nth i sc []) -> nth i valsS [] = map snd (nth i (jvals n v c y) [])) /\
  (~ In v (nth i sc []) -> nth i valsS [] = nth i vals []).
Proof.
  intros i. induction i as [i IH] using lt_wf_ind. intros l ins Hn.
  pose proof (oc_node c y vals Hden Hwf i l ins Hn) as Hval.
  pose proof (oc_node cS y valsS HdenS HwfS i _ ins (nth_error_shiftv n v c i l ins Hn)) as HvalS.
  pose proof (jv_node n c y vals Hden Hwf Hfr v i l ins Hn) as Hj.
  pose proof (df_layer c Hfr i l ins Hn) as Hf.
  pose proof (scope_at c i l ins Hwf Hn) as Hsc.
  assert (Hlt : forall j, In j ins -> j < i) by (intros j Hj'; exact (oc_ins_lt c Hwf i l ins j Hn Hj')).
  assert (Hex : forall j, In j ins -> exists lj insj, nth_error (nodes c) j = Some (lj, insj)).
  { intros j Hj'. assert (Hjl : j < length (nodes c)).
    { assert (i < length (nodes c)) by (apply nth_error_Some; congruence). specialize (Hlt j Hj'). lia. }
    destruct (nth_error_ex (nodes c) j Hjl) as [[lj insj] Ej]. eauto. }
  (* all inputs outside the scope: same values as in c *)
  assert (Hout : is_input l = false -> ~ In v (nth i sc []) ->
                 map (fun j => nth j valsS []) ins = map (fun j => nth j vals []) ins).
  { intros Hi Hv. rewrite Hsc, Hi in Hv. apply map_ext_in. intros j Hj'.
    destruct (Hex j Hj') as [lj [insj Ej]]. apply (proj2 (IH j (Hlt j Hj') lj insj Ej)).
    intros Hin. apply Hv. apply sunions_In. exists (nth j sc []). split; [|exact Hin].
    apply in_map_iff. exists j. auto. }
  destruct l as [? ? ? ?|? ? ? ? ?|? ? ? ? ?|? ? ? ? ?|u K dg cf|? ? ?|? ?|Ki Ko ar w|Ki ar|Ki ar];
    try discriminate Hf; cbn [shift_layer] in HvalS; cbn [jnode_eval] in Hj.
  - (* polynomial input *)
    cbn [is_input in_scope] in Hsc. rewrite Hsc.
    cbn [node_eval in_eval] in Hval. destruct (Nat.eqb_spec u v) as [->|Hne].
    + split; [intros _ | intros Hv; exfalso; apply Hv; left; reflexivity].
      cbn [node_eval in_eval peval] in HvalS.
      destruct (peval cf) as [Cf|]; cbn [obind eval_unop] in *; [|discriminate Hj].
      rewrite tmat_of_mat in HvalS.
      inversion Hj as [E]. inversion HvalS as [ES]. rewrite !map_map.
      apply map_ext. intros row. reflexivity.
    + split; [intros [E|[]]; congruence | intros _].
      cbn [node_eval in_eval] in HvalS. rewrite Hval in HvalS. inversion HvalS. reflexivity.
  - (* sum *)
    split; intros Hv.
    + assert (E : map (fun j => nth j valsS []) ins = map (fun j => map snd (nth j (jvals n v c y) [])) ins).
      { apply map_ext_in. intros j Hj'. destruct (Hex j Hj') as [lj [insj Ej]].
        apply (proj1 (IH j (Hlt j Hj') lj insj Ej)).
        rewrite (smooth_eq c Hsm i _ ins Hn eq_refl j Hj'). exact Hv. }
      cbn [node_eval] in HvalS. rewrite E in HvalS.
      destruct (peval w) as [W|]; cbn [obind] in *; [|discriminate Hj].
      inversion Hj as [E2]. inversion HvalS as [ES]. rewrite map_map. apply map_ext. intros row.
      rewrite dot_Dc. cbn [snd]. f_equal. rewrite concat_map, map_map. reflexivity.
    + rewrite (Hout eq_refl Hv) in HvalS. rewrite Hval in HvalS. inversion HvalS. reflexivity.
  - (* Hadamard *)
    split; intros Hv.
    + cbn [node_eval] in HvalS. inversion HvalS as [ES]. inversion Hj as [E2].
      rewrite hadn_foldn. symmetry.
      apply (foldn_one_hot dvhad vhad had_fst had_snd_r had_snd_l had_ztan).
      rewrite Hsc in Hv. cbn [is_input] in Hv.
      apply (one_hot_of_dec ins (fun j => nth j (jvals n v c y) []) (fun j => nth j valsS [])
               (dec_all c Hde _ ins (nth_error_In _ _ Hn) eq_refl) Hv).
      * intros j Hj' Hvj. destruct (Hex j Hj') as [lj [insj Ej]]. apply (proj1 (IH j (Hlt j Hj') lj insj Ej) Hvj).
      * intros j Hj' Hvj. destruct (Hex j Hj') as [lj [insj Ej]]. split.
        -- apply (jv_zero n c y vals Hden Hwf Hfr v j lj insj Ej Hvj).
        -- rewrite (proj2 (IH j (Hlt j Hj') lj insj Ej) Hvj). symmetry. apply (jv_fst n c y vals Hden Hfr).
    + rewrite (Hout eq_refl Hv) in HvalS. rewrite Hval in HvalS. inversion HvalS. reflexivity.
  - (* Kronecker *)
    split; intros Hv.
    + cbn [node_eval] in HvalS. inversion HvalS as [ES]. inversion Hj as [E2].
      rewrite kronn_foldn. symmetry.
      apply (foldn_one_hot dvkron vkron kron_fst kron_snd_r kron_snd_l kron_ztan).
      rewrite Hsc in Hv. cbn [is_input] in Hv.
      apply (one_hot_of_dec ins (fun j => nth j (jvals n v c y) []) (fun j => nth j valsS [])
               (dec_all c Hde _ ins (nth_error_In _ _ Hn) eq_refl) Hv).
      * intros j Hj' Hvj. destruct (Hex j Hj') as [lj [insj Ej]]. apply (proj1 (IH j (Hlt j Hj') lj insj Ej) Hvj).
      * intros j Hj' Hvj. destruct (Hex j Hj') as [lj [insj Ej]]. split.
        -- apply (jv_zero n c y vals Hden Hwf Hfr v j lj insj Ej Hvj).
        -- rewrite (proj2 (IH j (Hlt j Hj') lj insj Ej) Hvj). symmetry. apply (jv_fst n c y vals Hden Hfr).
    + rewrite (Hout eq_refl Hv) in HvalS. rewrite Hval in HvalS. inversion HvalS. reflexivity.
Qed.
(* the forward-mode tangent of the shifted circuit is the (n+1)-seeded tangent of c *)
Lemma shift_tan : forall i l ins, nth_error (nodes c) i = Some (l, ins) ->
  map snd (nth i (jvals 1 v cS y) []) = map snd (nth i (jvals (Datatypes.S n) v c y) []).
Proof.
  intros i. induction i as [i IH] using lt_wf_ind. intros l ins Hn.
  pose proof (nth_error_shiftv n v c i l ins Hn) as HnS.
  destruct (in_dec Nat.eq_dec v (nth i sc [])) as [Hv|Hv].
  2:{ (* v not in the scope: both tangents are zero, and the lengths agree *)
      apply ztan_snd_eq.
      - apply (jv_zero 1 cS y valsS HdenS HwfS HfrS v i _ ins HnS). rewrite scopes_shiftv. exact Hv.
      - apply (jv_zero (Datatypes.S n) c y vals Hden Hwf Hfr v i l ins Hn Hv).
      - transitivity (length (nth i valsS [])).
        + rewrite <- (jv_fst 1 cS y valsS HdenS HfrS v i). symmetry. apply map_length.
        + rewrite (proj2 (shift_vals i l ins Hn) Hv), <- (jv_fst (Datatypes.S n) c y vals Hden Hfr v i).
          apply map_length. }
  pose proof (jv_node 1 cS y valsS HdenS HwfS HfrS v i _ ins HnS) as HjS.
  pose proof (jv_node (Datatypes.S n) c y vals Hden Hwf Hfr v i l ins Hn) as Hj.
  pose proof (df_layer c Hfr i l ins Hn) as Hf.
  pose proof (scope_at c i l ins Hwf Hn) as Hsc.
  assert (Hlt : forall j, In j ins -> j < i) by (intros j Hj'; exact (oc_ins_lt c Hwf i l ins j Hn Hj')).
  assert (Hex : forall j, In j ins -> exists lj insj, nth_error (nodes c) j = Some (lj, insj)).
  { intros j Hj'. assert (Hjl : j < length (nodes c)).
    { assert (i < length (nodes c)) by (apply nth_error_Some; congruence). specialize (Hlt j Hj'). lia. }
    destruct (nth_error_ex (nodes c) j Hjl) as [[lj insj] Ej]. eauto. }
  set (Y := fun j => if in_dec Nat.eq_dec v (nth j sc []) then map snd (nth j (jvals (Datatypes.S n) v c y) [])
                     else nth j vals []).
  assert (OH : is_prod l = true ->
     one_hot (map (fun j => nth j (jvals 1 v cS y) []) ins) (map Y ins) /\
     one_hot (map (fun j => nth j (jvals (Datatypes.S n) v c y) []) ins) (map Y ins)).
  { intros Hp. assert (Hi : is_input l = false) by (destruct l; try discriminate Hp; reflexivity).
    rewrite Hsc, Hi in Hv.
    pose proof (dec_all c Hde l ins (nth_error_In _ _ Hn) Hp) as Hdj. split.
    - apply (one_hot_of_dec ins (fun j => nth j (jvals 1 v cS y) []) Y Hdj Hv).
      + intros j Hj' Hvj. unfold Y. destruct (in_dec Nat.eq_dec v (nth j sc [])); [|contradiction].
        destruct (Hex j Hj') as [lj [insj Ej]]. symmetry. apply (IH j (Hlt j Hj') lj insj Ej).
      + intros j Hj' Hvj. unfold Y. destruct (in_dec Nat.eq_dec v (nth j sc [])); [contradiction|].
        destruct (Hex j Hj') as [lj [insj Ej]]. split.
        * apply (jv_zero 1 cS y valsS HdenS HwfS HfrS v j _ insj (nth_error_shiftv n v c j lj insj Ej)).
          rewrite scopes_shiftv. exact Hvj.
        * rewrite (jv_fst 1 cS y valsS HdenS HfrS). symmetry. apply (proj2 (shift_vals j lj insj Ej) Hvj).
    - apply (one_hot_of_dec ins (fun j => nth j (jvals (Datatypes.S n) v c y) []) Y Hdj Hv).
      + intros j Hj' Hvj. unfold Y. destruct (in_dec Nat.eq_dec v (nth j sc [])); [reflexivity|contradiction].
      + intros j Hj' Hvj. unfold Y. destruct (in_dec Nat.eq_dec v (nth j sc [])); [contradiction|].
        destruct (Hex j Hj') as [lj [insj Ej]]. split.
        * apply (jv_zero (Datatypes.S n) c y vals Hden Hwf Hfr v j lj insj Ej Hvj).
        * symmetry. apply (jv_fst (Datatypes.S n) c y vals Hden Hfr). }
  destruct l as [? ? ? ?|? ? ? ? ?|? ? ? ? ?|? ? ? ? ?|u K dg cf|? ? ?|? ?|Ki Ko ar w|Ki ar|Ki ar];
    try discriminate Hf; cbn [shift_layer] in HjS.
  - (* polynomial input over v *)
    cbn [is_input in_scope] in Hsc. rewrite Hsc in Hv. destruct Hv as [->|[]].
    rewrite Nat.eqb_refl in HjS. cbn [jnode_eval peval] in HjS, Hj.
    destruct (peval cf) as [Cf|]; cbn [obind eval_unop] in *; [|discriminate Hj].
    rewrite tmat_of_mat in HjS. inversion Hj as [E]. inversion HjS as [ES]. rewrite !map_map.
    apply map_ext. intros row. cbn [snd]. rewrite Nat.eqb_refl. apply polydiff_row_succ.
  - (* sum *)
    cbn [jnode_eval] in HjS, Hj. destruct (peval w) as [W|]; cbn [obind] in *; [|discriminate Hj].
    inversion Hj as [E]. inversion HjS as [ES]. rewrite !map_map. apply map_ext. intros row.
    rewrite !dot_Dc. cbn [snd]. f_equal. rewrite !concat_map, !map_map. f_equal.
    apply map_ext_in. intros j Hj'. destruct (Hex j Hj') as [lj [insj Ej]]. apply (IH j (Hlt j Hj') lj insj Ej).
  - (* Hadamard *)
    cbn [jnode_eval] in HjS, Hj. inversion Hj as [E]. inversion HjS as [ES].
    destruct (OH eq_refl) as [O1 O2]. unfold dhadn.
    rewrite (foldn_one_hot dvhad vhad had_fst had_snd_r had_snd_l had_ztan _ _ O1).
    rewrite (foldn_one_hot dvhad vhad had_fst had_snd_r had_snd_l had_ztan _ _ O2). reflexivity.
  - (* Kronecker *)
    cbn [jnode_eval] in HjS, Hj. inversion Hj as [E]. inversion HjS as [ES].
    destruct (OH eq_refl) as [O1 O2]. unfold dkronn.
    rewrite (foldn_one_hot dvkron vkron kron_fst kron_snd_r kron_snd_l kron_ztan _ _ O1).
    rewrite (foldn_one_hot dvkron vkron kron_fst kron_snd_r kron_snd_l kron_ztan _ _ O2). reflexivity.
Qed.
End Shift.

Lemma shiftv_defined n v c y vals : dfrag c = true -> den_all c y = Some vals ->
  exists valsS, den_all (shiftv n v c) y = Some valsS.
Proof. intros Hf H. exact (shift_den_defined n v y (nodes c) Hf [] vals H []). Qed.

(* for every order n accepted by [differentiate_m], the order-n block (i, v) is what node i of the
   circuit [shiftv n v c] denotes (at every assignment y) *)
Theorem shiftv_den_block n c c' y vals :
  wf c = true -> differentiate_m n c = Ok c' -> den_all c y = Some vals ->
  exists vals', den_all c' y = Some vals' /\
    forall i v, i < length (nodes c) -> In v (nth i (scopes c) []) ->
      exists d valsS, block_ix n c i v = Some d /\ den_all (shiftv n v c) y = Some valsS /\
                      nth d vals' [] = nth i valsS [].
Proof.
  intros Hwf H Hden. destruct (differentiate_ok n c c' H) as (Hsm & Hde & _).
  pose proof (differentiate_frag n c c' H) as Hfr.
  destruct (differentiate_exec_den_k n c c' y vals Hwf H Hden) as [vs [D HB]].
  exists vs. split; [exact D|]. intros i v Hi Hv.
  destruct (HB i Hi) as [_ HV]. destruct (HV v Hv) as [d [Hd [_ E]]].
  destruct (shiftv_defined n v c y vals Hfr Hden) as [valsS HdenS].
  destruct (nth_error_ex (nodes c) i Hi) as [[l ins] Hn].
  exists d, valsS. split; [exact Hd|]. split; [exact HdenS|]. rewrite E. symmetry.
  apply (proj1 (shift_vals n v c y vals valsS Hden HdenS Hwf Hsm Hde Hfr i l ins Hn) Hv).
Qed.

(* the order-(n+1) block (i, v) is the forward-mode tangent (= partial derivative) w.r.t. v of node i
   of [shiftv n v c]; with [shiftv_den_block]: block_(n+1)(i, v) = d/dx_v block_n(i, v) as functions of y *)
Theorem differentiate_order_succ n c c' y vals :
  wf c = true -> differentiate_m (Datatypes.S n) c = Ok c' -> den_all c y = Some vals ->
  exists vals', den_all c' y = Some vals' /\
    forall i v, i < length (nodes c) -> In v (nth i (scopes c) []) ->
      exists d vd, block_ix (Datatypes.S n) c i v = Some d /\ dden_all v (shiftv n v c) y = Some vd /\
                   nth d vals' [] = map snd (nth i vd []).
Proof.
  intros Hwf H Hden. destruct (differentiate_ok _ c c' H) as (Hsm & Hde & _).
  pose proof (differentiate_frag _ c c' H) as Hfr.
  destruct (differentiate_exec_den_k _ c c' y vals Hwf H Hden) as [vs [D HB]].
  exists vs. split; [exact D|]. intros i v Hi Hv.
  destruct (HB i Hi) as [_ HV]. destruct (HV v Hv) as [d [Hd [_ E]]].
  destruct (shiftv_defined n v c y vals Hfr Hden) as [valsS HdenS].
  destruct (nth_error_ex (nodes c) i Hi) as [[l ins] Hn].
  assert (HfrS : dfrag (shiftv n v c) = true) by (rewrite dfrag_shiftv; exact Hfr).
  exists d, (dvals v (shiftv n v c) y). split; [exact Hd|].
  split; [apply (dvals_spec v _ y valsS HfrS HdenS)|].
  rewrite E, <- jvals_1. symmetry.
  apply (shift_tan n v c y vals valsS Hden HdenS Hwf Hsm Hde Hfr i l ins Hn).
Qed.

(* ================================================================== *)
(* F. Non-vacuity and index conventions on a concrete circuit           *)
(* ================================================================== *)
Module DiffExample.
Definition qz (n : Z) : C := cofZ n.
Definition Mx (m : list (list Z)) : pexpr := PTen 0 true (of_mat (map (map qz) m)).
(* three variables; two units per input; a Kronecker product with inputs in the order (x1, x0), Hadamard
   products, sums with non-symmetric weights; outputs of scopes {0,1,2}, {0,1,2} and {0,1} *)
Definition ex : circuit := mkC
  [ (LPoly 0 2 3 (Mx [[1;2;3;4];[2;0;1;5]]%Z), []);      (* 0 : x0 *)
    (LPoly 1 2 2 (Mx [[3;1;2];[1;1;7]]%Z), []);          (* 1 : x1 *)
    (LPoly 2 2 2 (Mx [[2;5;1];[4;3;2]]%Z), []);          (* 2 : x2 *)
    (LKron 2 2, [1; 0]);                                  (* 3 : {0,1}, 4 units *)
    (LSum 4 2 1 (Mx [[1;2;3;4];[5;0;7;1]]%Z), [3]);      (* 4 : {0,1} *)
    (LHad 2 2, [2; 4]);                                   (* 5 : {0,1,2} *)
    (LHad 2 2, [0; 1]);                                   (* 6 : {0,1} *)
    (LSum 2 2 2 (Mx [[1;2;3;4];[2;7;1;3]]%Z), [4; 6]);   (* 7 : {0,1} *)
    (LKron 2 2, [7; 2]);                                  (* 8 : {0,1,2}, 4 units *)
    (LSum 4 1 1 (Mx [[1;3;2;5]]%Z), [8])                 (* 9 : {0,1,2} *)
  ] [5; 9; 7].
Definition ey : asg := [(0, qz 2); (1, qz 3); (2, qz 5)].
Definition get_ok (r : res circuit) : circuit := match r with Ok c => c | Err _ => mkC [] [] end.
Definition ex1 : circuit := get_ok (differentiate_m 1 ex).
Definition ex2 : circuit := get_ok (differentiate_m 2 ex).
Definition ex11 : circuit := get_ok (differentiate_m 1 ex1).

(* the hypotheses of the theorems hold *)
Lemma hyps : wf ex = true /\ differentiate_m 1 ex = Ok ex1 /\ differentiate_m 2 ex = Ok ex2 /\
             (exists vals, den_all ex ey = Some vals).
Proof. split; [vm_compute; reflexivity|]. split; [vm_compute; reflexivity|]. split; [vm_compute; reflexivity|].
  destruct (den_all ex ey) eqn:E; [eauto|]. vm_compute in E. discriminate E. Qed.

(* index conventions: node 3 = Kronecker(x1, x0) has scope [0;1]; its d/dx0 block is node 6 = Kronecker
   (copy of node 1, d node 0), its d/dx1 block is node 7 = Kronecker (d node 1, copy of node 0); copy = node 8 *)
Example table_node3 :
  nth 3 (diff_table 1 ex) ([], 0) = ([(0, 6); (1, 7)], 8) /\
  map snd (firstn 9 (nodes ex1)) = [[]; []; []; []; []; []; [3; 0]; [2; 1]; [3; 1]] /\
  outs ex1 = [12; 13; 14; 15; 26; 27; 28; 29; 19; 20; 21].
Proof. vm_compute. auto. Qed.

Definition ceqb_vec (a b : list C) : bool := (length a =? length b) && forallb (fun p => ceqb (fst p) (snd p)) (combine a b).
(* the statement of [differentiate_exec_den], evaluated *)
Definition check1 : bool :=
  match den_all ex ey, den_all ex1 ey with
  | Some vals, Some vals' =>
      forallb (fun i =>
        ceqb_vec (nth (copy_ix 1 ex i) vals' []) (nth i vals []) &&
        forallb (fun v => match block_ix 1 ex i v, dden_all v ex ey with
                          | Some d, Some vd => ceqb_vec (nth d vals' []) (map snd (nth i vd []))
                          | _, _ => false
                          end) (nth i (scopes ex) []))
        (seq 0 (length (nodes ex)))
  | _, _ => false
  end.
Example check1_ok : check1 = true. Proof. vm_compute. reflexivity. Qed.

(* order 2 on this circuit = order 1 applied twice w.r.t. the same variable: the block (i, v) of
   [differentiate_m 2 ex] has the value of the block (block (i, v), v) of [differentiate_m 1 (differentiate_m 1 ex)] *)
Definition check2 : bool :=
  match den_all ex2 ey, den_all ex11 ey with
  | Some v2, Some v11 =>
      forallb (fun i =>
        forallb (fun v => match block_ix 2 ex i v, block_ix 1 ex i v with
                          | Some d2, Some d1 =>
                              match block_ix 1 ex1 d1 v with
                              | Some d11 => ceqb_vec (nth d2 v2 []) (nth d11 v11 [])
                              | None => false
                              end
                          | _, _ => false
                          end) (nth i (scopes ex) []))
        (seq 0 (length (nodes ex)))
  | _, _ => false
  end.
Example check2_ok : check2 = true. Proof. vm_compute. reflexivity. Qed.

(* model note: every input layer must have a differentiation rule, also those over no variable, so the
   branch of [diff_step] for inputs with an empty scope is never taken (as in cirkit, where the rule is
   retrieved before looping over the scope) *)
Example const_rejected :
  differentiate_m 1 (mkC [(LPoly 0 1 1 (Mx [[1;2]]%Z), []); (LConst 1 false (pconst0 1), []); (LHad 1 2, [0; 1])] [2])
  = Err ERule.
Proof. vm_compute. reflexivity. Qed.
End DiffExample.

(* ================================================================== *)
(* Deliverables                                                         *)
(* ================================================================== *)
Check dden_primal. Print Assumptions dden_primal.
Check differentiate_frag. Print Assumptions differentiate_frag.
Check differentiate_exec_den. Print Assumptions differentiate_exec_den.
Check differentiate_exec_den'. Print Assumptions differentiate_exec_den'.
Check differentiate_exec_den_outputs. Print Assumptions differentiate_exec_den_outputs.
Check differentiate_exec_den_k. Print Assumptions differentiate_exec_den_k.
Check differentiate_exec_den_outputs_k. Print Assumptions differentiate_exec_den_outputs_k.
Check shiftv_den_block. Print Assumptions shiftv_den_block.
Check differentiate_order_succ. Print Assumptions differentiate_order_succ.
