"""C02 — folding and optimization never change the computed function; parameters stay addressable."""
import traceback

import numpy as np
import torch

import cirkit.symbolic.functional as SF
from cirkit.symbolic import parameters as P
from cirkit.utils.scope import Scope

import evalc
import export
import foldexport
import gen
from cases import CaseSet, rng_for, pick_semiring, close

PID = "C02"
KINDS = ["emb", "cat_probs", "cat_logits", "cat_softmax", "cat_softmax0", "bin", "gau", "poly"]
INTEGRABLE = ["emb", "cat_probs", "cat_logits", "cat_softmax", "gau"]


def tensor_leaves(scs):
    """all symbolic TensorParameter leaves (not references, not constants) of the circuits, in order"""
    seen, out = set(), []
    for sc in scs:
        for l in sc.layers:
            stack = [l]
            while stack:
                x = stack.pop()
                for p in x.params.values():
                    for n in p.nodes:
                        if isinstance(n, P.TensorParameter) and not isinstance(n, P.ConstantParameter) and id(n) not in seen:
                            seen.add(id(n))
                            out.append(n)
                if hasattr(x, "layer"):
                    stack.append(x.layer)
    return out


def prob_leaves(ops):
    """ids of the tensor leaves that parameterise `probs` of Categorical / Binomial layers (directly or through operators)"""
    from cirkit.symbolic import layers as L
    frozen = set()
    for c in ops:
        for l in c.layers:
            stack = [l]
            while stack:
                x = stack.pop()
                if isinstance(x, (L.CategoricalLayer, L.BinomialLayer)) and x.probs is not None:
                    for n in x.probs.nodes:
                        frozen.add(id(n.deref() if isinstance(n, P.ReferenceParameter) else n))
                if hasattr(x, "layer"):
                    stack.append(x.layer)
    return frozen


def pipeline_operands(sc):
    out, stack = [], [sc]
    while stack:
        c = stack.pop()
        if c in out:
            continue
        out.append(c)
        if c.operation is not None:
            stack.extend(c.operation.operands)
    return out


class _G:
    pass


def mixed_dtype_circuit(rng):
    """same-shaped weights of different data types (integer constant, float array constant, learnable float tensor) in sum layers
    of one frontier: folding must not cast one into the type of another"""
    from cirkit.symbolic import layers as L
    from cirkit.symbolic.circuit import Circuit
    n = rng.choice([2, 3, 3])
    K = rng.choice([1, 2])
    vs = gen.VAR_SETS[rng.choice(["dense", "sparse"])](n)
    g = _G()
    g.doms = {v: ("disc", 2) for v in vs}
    layers, ins, sums = [], {}, []
    kinds = ["int", "array", rng.choice(["array", "tensor", "int"])][:n]
    rng.shuffle(kinds)
    if rng.random() < 0.6 and "int" in kinds:      # the narrower type first in the frontier
        kinds.remove("int")
        kinds.insert(0, "int")
    for v, kd in zip(vs, kinds):
        il = L.EmbeddingLayer(Scope([v]), K, num_states=2, weight=P.Parameter.from_input(gen.tensor(gen.dy_array(rng, (K, 2), 1, 8))))
        if kd == "int":
            w = P.Parameter.from_input(P.ConstantParameter(K, K, value=rng.choice([1, 2, 3])))
        elif kd == "array":
            w = P.Parameter.from_input(P.ConstantParameter(K, K, value=gen.dy_array(rng, (K, K), 1, 11, 4)))
        else:
            w = P.Parameter.from_input(gen.tensor(gen.dy_array(rng, (K, K), 1, 11, 4)))
        sl = L.SumLayer(K, K, arity=1, weight=w)
        layers += [il, sl]
        ins[sl] = [il]
        sums.append(sl)
    h = L.HadamardLayer(K, arity=n)
    ins[h] = sums
    out = L.SumLayer(K, 1, arity=1, weight=P.Parameter.from_input(gen.tensor(gen.dy_array(rng, (1, K), 1, 8))))
    ins[out] = [h]
    layers += [h, out]
    g.desc = {"family": "mixed-dtype-weights", "kinds": ["emb"] * n, "wkinds": kinds, "sums": n + 1, "prods": 1, "arity": [1] * (n + 1), "K": K, "nout": 1, "vars": list(vs)}
    return Circuit(layers, ins, [out]), g


def build(rng):
    mode = rng.choice(["base", "base", "integrate", "multiply", "intmul", "intmul", "differentiate", "evidence", "conjugate", "concatenate", "mixed-dtype"])
    monotone = rng.random() < 0.6
    if mode == "mixed-dtype":
        sc, g = mixed_dtype_circuit(rng)
        return mode, sc, g, True
    if mode == "differentiate":
        o = gen.random_opts(rng, kinds=["poly"], monotone=False)
        sc, g = gen.gen_circuit(rng, **o)
        return mode, SF.differentiate(sc, order=rng.choice([1, 2])), g, False
    if mode in ("multiply", "intmul"):
        kinds = [rng.choice(["emb", "cat_logits", "cat_softmax0", "cat_softmax", "gau", "poly"])] if rng.random() < 0.6 else ["emb", "cat_probs", "cat_logits", "gau", "poly"]
        if rng.random() < 0.25:
            kinds = [rng.choice(["cat_softmax0", "cat_softmax"])]     # log(softmax(.)) on either axis, rewritten by optimize
        if mode == "intmul":
            kinds = [rng.choice(["emb", "emb", "cat_softmax", "cat_logits"])]
        o = gen.random_opts(rng, kinds=kinds, monotone=monotone, regular=True, sd=True)
        o["nvars"] = rng.choice([1, 2, 2, 3])
        o["nout"] = 1
        if o["prod"] == "any":
            o["prod"] = "had"
        o["K"] = rng.choice([1, 2])
        o["max_alt"] = 2
        s1, g = gen.gen_circuit(rng, **o)
        s2 = s1 if rng.random() < 0.3 else gen.gen_circuit(rng, **dict(o, like=g))[0]
        try:
            sp = SF.multiply(s1, s2)
            if mode == "intmul":
                sp = SF.integrate(sp)
            return mode, sp, g, monotone
        except Exception:
            return "base", s1, g, monotone
    kinds = INTEGRABLE if mode == "integrate" else KINDS
    o = gen.random_opts(rng, kinds=kinds, monotone=monotone, heads=rng.random() < 0.3, int_consts=True)
    sc, g = gen.gen_circuit(rng, **o)
    scope = sorted(sc.scope._set)
    if mode == "integrate":
        Z = sorted(rng.sample(scope, rng.randint(1, len(scope))))
        return mode, SF.integrate(sc, Scope(Z)), g, monotone
    if mode == "evidence":
        ov = sorted(rng.sample(scope, rng.randint(1, len(scope))))
        obs = {v: (rng.randrange(g.doms[v][1]) if g.doms[v][0] == "disc" else gen.dy(rng, 0, 6, 4)) for v in ov}
        return mode, SF.evidence(sc, obs), g, monotone
    if mode == "conjugate":
        return mode, SF.conjugate(sc), g, monotone
    if mode == "concatenate":
        o2 = dict(o, like=g, K=g.desc["K"])
        s2, _ = gen.gen_circuit(rng, **o2)
        return mode, SF.concatenate([sc, s2]), g, monotone
    return mode, sc, g, monotone


def one_case(rep, cs, seed, i):
    rng = rng_for(seed, PID, i)
    try:
        mode, sc, g, monotone = build(rng)
    except Exception as e:
        rep.count("build-failed:" + type(e).__name__)
        return
    sem = pick_semiring(rng, monotone)
    desc = {"i": i, "seed": seed, "mode": mode, "sem": sem, **g.desc}
    rep.count("mode:" + mode)
    rep.count("semiring:" + sem)
    scope = sorted(sc.scope._set)
    ys = gen.sample_inputs(rng, g.doms, scope, 3, exhaustive_limit=0, nonneg=(sem == "lse-sum"))
    ops = pipeline_operands(sc)
    leaves = tensor_leaves(ops)
    w = max(evalc.width_of(c) for c in ops)
    # new parameter values, the same for every compilation (positive if the semiring needs it)
    newvals = {}
    frozen = prob_leaves(ops)  # tensors used directly as probabilities must stay valid: not perturbed
    for p in leaves:
        cur = np.array(export.Exporter().leaf_value(p))
        if id(p) in frozen:
            newvals[id(p)] = cur
            continue
        delta = np.array([gen.dy(rng, 0, 2, 8) for _ in range(cur.size)]).reshape(cur.shape)
        newvals[id(p)] = cur + delta
    outs0, outs1 = {}, {}
    fold_terms = []
    for fold, opt in evalc.FLAGS:
        try:
            ctx = evalc.make_ctx(sem, fold, opt)
            if fold:
                with foldexport.recording() as rec:
                    cc = ctx.compile(sc)
                try:
                    fx = foldexport.export(rec, cc)
                    if fx is not None:
                        fold_terms.append(((fold, opt), fx))
                except Exception as e:
                    rep.violation("fold-export-error", "the folded structure cannot be exported for the verified checker: " + repr(e)[:200],
                                  {"case": desc, "flags": [fold, opt]}, found_input=False)
            else:
                cc = ctx.compile(sc)
            outs0[(fold, opt)] = evalc.evaluate(cc, sc, ys, sem, width=w)
            # ---- addressability: exactly one slice of exactly one compiled tensor ----
            state = ctx._compiler.state
            seen = {}
            for p in leaves:
                if not state.has_compiled_parameter(p):
                    rep.violation("param-unaddressable", "a symbolic tensor parameter has no compiled tensor registered",
                                  {"case": desc, "flags": [fold, opt], "shape": list(p.shape)})
                    continue
                t, k = state.retrieve_compiled_parameter(p)
                key = (id(t), k)
                if key in seen:
                    rep.violation("param-aliased", "two symbolic tensor parameters map to the same slice of the same compiled tensor",
                                  {"case": desc, "flags": [fold, opt]})
                seen[key] = p
                val = t._ptensor.detach()[k].numpy()
                decl = export.Exporter().leaf_value(p)
                if val.shape != tuple(p.shape) or not close(val, decl, rtol=1e-12, atol=1e-14):
                    rep.violation("param-slice-value", "the registered slice does not hold the symbolic parameter's value",
                                  {"case": desc, "flags": [fold, opt], "observed": val.tolist(), "expected": decl.tolist()})
            # ---- same values written through the registry into every compilation ----
            with torch.no_grad():
                for p in leaves:
                    if state.has_compiled_parameter(p):
                        t, k = state.retrieve_compiled_parameter(p)
                        t._ptensor[k] = torch.as_tensor(newvals[id(p)], dtype=t._ptensor.dtype)
            outs1[(fold, opt)] = evalc.evaluate(cc, sc, ys, sem, width=w)
        except Exception as e:
            rep.violation("compile-exception:" + type(e).__name__, "compiling / evaluating under some flag combination raised",
                          {"case": desc, "flags": [fold, opt], "exception": repr(e)[:300], "traceback": traceback.format_exc()[-1500:]})
            return
    base0, base1 = outs0[(False, False)], outs1[(False, False)]
    for fl in evalc.FLAGS[1:]:
        for nm, b, o_ in (("initial", base0, outs0[fl]), ("updated", base1, outs1[fl])):
            if not close(b, o_, rtol=1e-7, atol=1e-9):
                rep.violation("flags-disagree", f"fold/optimize changed the computed function ({nm} parameter values)",
                              {"case": desc, "flags": list(fl), "inputs": ys, "observed": o_.tolist(), "expected": b.tolist()})
    if not np.all(np.isfinite(base1)):
        rep.count("non-finite-skipped")
        return
    # ---- model denotation at the updated values vs the (folded, optimized) compilation ----
    fl = rng.choice(evalc.FLAGS)
    ex = export.Exporter(leafval=lambda p: newvals.get(id(p)))
    try:
        tc = ex.circuit(sc)
    except export.ExportError as e:
        rep.violation("export-error", str(e), {"case": desc}, found_input=False)
        return
    fparts = []
    for flg, (gins, F, outs_, oids, ocum) in fold_terms:
        fparts.append(f"b2n (uwf_b {gins} && fwf_b {F} && ab_check {gins} {F} && out_check {F} {outs_} {oids} {ocum})")
    term = f"[den_vs {tc} {export.ex_asgs(ys)} {export.ex_vals(outs1[fl])}" + "".join("; " + p for p in fparts) + "]"
    fflags = [flg for flg, _ in fold_terms]

    def interp(res, desc=desc, ys=ys, fl=fl, fflags=fflags):
        dv = res[0]
        for flg, r in zip(fflags, res[1:]):
            rep.count(f"coq:ab_check={r}")
            if r != 1:
                rep.violation("address-book-inconsistent", "the verified checker (FoldCheck.ab_check / out_check) rejects the address book of the folded circuit",
                              {"case": desc, "flags": list(flg)}, found_input=False)
        rep.count(f"coq:den_vs={dv}")
        if dv == 0:
            rep.violation("compiled-vs-denotation-updated", "after writing new parameter values through the registry the compiled output differs from the denotation",
                          {"case": desc, "flags": list(fl), "inputs": ys})

    cs.add(desc, term, interp, nontrivial=g.desc["sums"] >= 1 and g.desc["prods"] >= 1)


def run(rep, tier, seed, replay=None):
    n = 100 if tier == "quick" else 1200
    cs = CaseSet(rep, PID)
    if replay is not None:
        c = replay["replay"].get("case", {})
        one_case(rep, cs, c.get("seed", seed), c.get("i", 0))
        cs.run()
        return
    for i in range(n):
        one_case(rep, cs, seed, i)
    cs.run(shard=max(6, 100 // 14))  # shard size of the quick tier: thorough runs use more files, not longer ones
