(* C17 — parameter initialisation bookkeeping
   Property theorems only: each is closed by `exact <lemma>`; proofs live in the imported files. *)
From Coq Require Import List ZArith QArith Qcanon Ring_theory Field_theory Permutation Sorted.
Import ListNotations.
From CK Require Import Init.
Close Scope Qc_scope. Close Scope Q_scope. Close Scope Z_scope. Open Scope nat_scope.

(* the axis normalised inside a parameter's own slice (kept with its fold dimension) is the declared axis modulo the rank, for positive and negative declarations *)
Theorem C17_axis :
  forall axis r : Z, (0 < r)%Z -> (- r <= axis < r)%Z -> simplex_axis axis r = eff_axis axis r.
Proof. exact simplex_axis_correct. Qed.
Print Assumptions C17_axis.

(* sampling with the simplex axis last and moving it back to its position restores the tensor's shape, for every rank and axis *)
Theorem C17_dirichlet_shape :
  forall (d : nat) (shape : list nat), d < length shape -> movedim_last d (sample_shape d shape) = shape.
Proof. exact movedim_restores. Qed.
Print Assumptions C17_dirichlet_shape.

(* fold-wise initialisation applies initialiser i to slice i only *)
Theorem C17_foldwise_slice :
  forall (T : Type) (inits : list (T -> T)) (slices : list T) (i : nat) (d : T),
         i < length inits ->
         i < length slices -> nth i (foldwise T inits slices) d = nth i inits (fun x : T => x) (nth i slices d).
Proof. exact foldwise_nth. Qed.
Print Assumptions C17_foldwise_slice.

(* and keeps the number of slices *)
Theorem C17_foldwise_length :
  forall (T : Type) (inits : list (T -> T)) (slices : list T),
         length (foldwise T inits slices) = length slices.
Proof. exact foldwise_length. Qed.
Print Assumptions C17_foldwise_length.
