(* C03 — integrate returns exactly the marginal / partition function
   Property theorems only: each is closed by `exact <lemma>`; proofs live in the imported files. *)
From Coq Require Import List ZArith QArith Qcanon Ring_theory Field_theory Permutation Sorted.
Import ListNotations.
From CK Require Import Base.
From CK Require Import Circ.
From CK Require Import Integrate.
Close Scope Qc_scope. Close Scope Q_scope. Close Scope Z_scope. Open Scope nat_scope.

(* for every commutative semiring, every family of linear functionals Int (finite sums or integrals), every ok (smooth, decomposable, well-formed) circuit with input/sum/Hadamard/Kronecker nodes and every Z: each node of the integrated circuit evaluates to the iterated functional, over the variables of Z in its scope, of the original node *)
Theorem C03_integrate :
  forall (R : Type) (rO rI : R) (radd rmul : R -> R -> R),
         semi_ring_theory rO rI radd rmul eq ->
         forall (D : Type) (Int : nat -> (D -> R) -> R),
         (forall (v : nat) (f g : D -> R), (forall d : D, f d = g d) -> Int v f = Int v g) ->
         (forall (v : nat) (f g : D -> R), Int v (fun d : D => radd (f d) (g d)) = radd (Int v f) (Int v g)) ->
         (forall (v : nat) (c : R) (f : D -> R), Int v (fun d : D => rmul c (f d)) = rmul c (Int v f)) ->
         forall (Z : list nat) (c : circuit R D),
         ok R rO D c ->
         forall (o k : nat) (y : asg D),
         o < length c ->
         nth k (nth o (eval R rO radd rmul D (integrate R rO D Int Z c) y) []) rO =
         IntL R D Int (zs_of Z (nth o (scopes R D c) []))
           (fun y' : asg D => nth k (nth o (eval R rO radd rmul D c y') []) rO) y.
Proof. exact integrate_correct. Qed.
Print Assumptions C03_integrate.
