"""C08 — structural-property predicates agree with their definitions."""
import itertools
import random

import numpy as np

import cirkit.symbolic.functional as SF
from cirkit.symbolic import layers as L
from cirkit.symbolic import parameters as P
from cirkit.symbolic.circuit import Circuit, are_compatible
from cirkit.utils.scope import Scope

import export
import gen
from cases import CaseSet, rng_for

PID = "C08"


def emb(v, K):
    return L.EmbeddingLayer(Scope([v]), K, num_states=2, weight=P.Parameter.from_input(P.ConstantParameter(K, 2, value=1.0)))


def sumw(Ki, Ko, ar):
    return P.Parameter.from_input(P.ConstantParameter(Ko, Ki * ar, value=1.0))


def random_dag(rng, vars_, n_inner, K=1, bias_valid=0.5, input_factory=None, consts=False):
    """arbitrary DAG of sum/hadamard/kronecker layers over univariate inputs: smoothness and decomposability
    are NOT enforced (bias_valid = probability of choosing inputs that keep the layer valid)"""
    layers, ins = [], {}
    scopes = {}
    for v in vars_:
        for _ in range(rng.choice([1, 1, 2])):
            l = emb(v, K) if input_factory is None else input_factory(v, K)
            layers.append(l)
            scopes[l] = frozenset([v])
    if rng.random() < 0.3 and (input_factory is None or consts):  # a constant (empty-scope) layer
        l = L.ConstantValueLayer(K, value=P.Parameter.from_input(P.ConstantParameter(K, value=1.0)))
        layers.append(l)
        scopes[l] = frozenset()
    for _ in range(n_inner):
        kind = rng.choice(["sum", "sum", "had", "had", "kron"])
        ar = rng.choice([1, 2, 2, 3]) if kind == "sum" else rng.choice([2, 2, 3])
        pool = [l for l in layers if l.num_output_units == K]
        if len(pool) < ar:
            continue
        valid = rng.random() < bias_valid
        chosen = None
        for _try in range(20):
            cand = rng.sample(pool, ar)
            if not valid:
                chosen = cand
                break
            if kind == "sum" and len({scopes[c] for c in cand}) == 1:
                chosen = cand
                break
            if kind != "sum" and all(not (scopes[a] & scopes[b]) for a, b in itertools.combinations(cand, 2)):
                chosen = cand
                break
        if chosen is None:
            chosen = rng.sample(pool, ar)
        if kind == "sum":
            l = L.SumLayer(K, K, arity=ar, weight=sumw(K, K, ar))
        elif kind == "had":
            l = L.HadamardLayer(K, arity=ar)
        else:
            if K != 1:
                continue
            l = L.KroneckerLayer(K, arity=ar)
        layers.append(l)
        ins[l] = chosen
        scopes[l] = frozenset().union(*[scopes[c] for c in chosen])
    inner = [l for l in layers if l in ins]
    if not inner:
        return None
    nout = rng.choice([1, 1, 2])
    outs = rng.sample(inner, min(nout, len(inner)))
    c = Circuit(layers, ins, outs)
    return c.subgraph(*outs)


def permute_inputs(rng, sc, only_products=True):
    """same circuit with the input lists of (product) layers permuted"""
    ins = {}
    changed = False
    for l in sc.layers:
        li = list(sc.layer_inputs(l))
        if li and (not only_products or isinstance(l, L.ProductLayer)) and len(li) > 1:
            p = li[:]
            rng.shuffle(p)
            changed = changed or p != li
            li = p
        if li:
            ins[l] = li
    return Circuit(list(sc.layers), ins, list(sc.outputs)), changed


def rename(sc, r):
    """rebuild the circuit with variable v -> r[v] (fresh layer objects)"""
    m = {}
    ins = {}
    layers = []
    for l in sc.topological_ordering():
        if isinstance(l, L.EmbeddingLayer):
            (v,) = l.scope._set
            nl = emb(r[v], l.num_output_units)
        elif isinstance(l, L.ConstantValueLayer):
            nl = L.ConstantValueLayer(l.num_output_units, value=P.Parameter.from_input(P.ConstantParameter(l.num_output_units, value=1.0)))
        elif isinstance(l, L.SumLayer):
            nl = L.SumLayer(l.num_input_units, l.num_output_units, arity=l.arity, weight=sumw(l.num_input_units, l.num_output_units, l.arity))
        elif isinstance(l, L.HadamardLayer):
            nl = L.HadamardLayer(l.num_input_units, arity=l.arity)
        elif isinstance(l, L.KroneckerLayer):
            nl = L.KroneckerLayer(l.num_input_units, arity=l.arity)
        else:
            return None
        m[l] = nl
        layers.append(nl)
        if sc.layer_inputs(l):
            ins[nl] = [m[i] for i in sc.layer_inputs(l)]
    return Circuit(layers, ins, [m[o] for o in sc.outputs])


def preds(sc):
    return [int(sc.is_smooth), int(sc.is_decomposable), int(sc.is_structured_decomposable)]


def own_scopes(sc):
    """bottom-up scopes recomputed here from the input layers alone (union over the inputs of every inner layer): the oracle must
    not rely on Circuit.layer_scope, which is part of what the property examines"""
    sco = {}
    for l in sc.topological_ordering():
        if isinstance(l, L.InputLayer):
            sco[l] = frozenset(l.scope._set)
        else:
            u = frozenset()
            for i in sc.layer_inputs(l):
                u = u | sco[i]
            sco[l] = u
    return sco


def spec_preds(sc):
    """independent set-based recomputation (the definitions in the property)"""
    sco = own_scopes(sc)
    smooth = all(sco[s] == sco[i] for s in sc.sum_layers for i in sc.layer_inputs(s))
    dec = all(not (sco[a] & sco[b]) for p in sc.product_layers for a, b in itertools.combinations(sc.layer_inputs(p), 2))
    return smooth, dec


def splits(sc):
    out = {}
    sco = own_scopes(sc)
    for p in sc.product_layers:
        fs = frozenset(sco[i] for i in sc.layer_inputs(p) if sco[i])
        if len(fs) > 1 or sum(1 for i in sc.layer_inputs(p) if sco[i]) > 1:
            out.setdefault(sco[p], set()).add(fs)
    return out


def spec_sd_ok(scs):
    """all products over the same scope (across the given circuits) split it into the same set of sub-scopes"""
    allsp = {}
    for sc in scs:
        for k, v in splits(sc).items():
            allsp.setdefault(k, set()).update(v)
    return all(len(v) == 1 for v in allsp.values())


def one_case(rep, cs, seed, i, exhaustive_spec=None):
    rng = rng_for(seed, PID, i)
    kind = rng.choice(["dag", "dag", "gen", "gen-nonsd", "one-sided", "one-sided"])
    if kind == "dag":
        vs = gen.VAR_SETS[rng.choice(["dense", "sparse", "big"])](rng.choice([1, 2, 3, 4]))
        a = random_dag(rng, vs, rng.randint(1, 7), K=rng.choice([1, 1, 2]), bias_valid=rng.choice([0.3, 0.7, 0.95]))
        vb = vs if rng.random() < 0.5 else gen.VAR_SETS[rng.choice(["dense", "sparse", "big"])](rng.choice([2, 3, 4, 5]))
        b = random_dag(rng, vb, rng.randint(1, 9), K=1, bias_valid=0.95)
    elif kind == "one-sided":
        # one circuit factorizes a scope in two different ways, the other never factorizes that scope at all:
        # the pair must be reported incompatible whichever argument comes first
        allv = gen.VAR_SETS[rng.choice(["dense", "sparse", "big"])](rng.choice([3, 4, 4, 5]))
        def split_prod(vs_):
            vs_ = list(vs_)
            rng.shuffle(vs_)
            k = rng.randint(1, len(vs_) - 1)
            parts = [vs_[:k], vs_[k:]]
            ls, ins_ = [], {}
            tops = []
            for part in parts:
                if len(part) == 1:
                    l = emb(part[0], 1)
                    ls.append(l)
                else:
                    es = [emb(v, 1) for v in part]
                    l = L.HadamardLayer(1, arity=len(es))
                    ls.extend(es)
                    ls.append(l)
                    ins_[l] = es
                tops.append(l)
            h = L.HadamardLayer(1, arity=2)
            ls.append(h)
            ins_[h] = tops
            return ls, ins_, h
        l1, i1, h1 = split_prod(allv)
        l2, i2, h2 = split_prod(allv)
        top = L.SumLayer(1, 1, arity=2, weight=sumw(1, 1, 2))
        nonsd = Circuit(l1 + l2 + [top], {**i1, **i2, top: [h1, h2]}, [top])
        sub = rng.sample(allv, rng.randint(2, len(allv) - 1))
        ls, is_, hs = split_prod(sub)
        small = Circuit(ls, is_, [hs])
        a, b = (small, nonsd) if rng.random() < 0.5 else (nonsd, small)
    else:
        o = gen.random_opts(rng, kinds=["emb"], sd=(kind == "gen"))
        a, ga = gen.gen_circuit(rng, **o)
        o2 = dict(o)
        if rng.random() < 0.6:
            o2["like"] = ga
        b, gb = gen.gen_circuit(rng, **o2)
    if a is None or b is None:
        return
    desc = {"i": i, "seed": seed, "kind": kind, "na": len(a.layers), "nb": len(b.layers),
            "scopes_a": sorted(sorted(a.layer_scope(l)._set) for l in a.layers)}
    rep.count("kind:" + kind)
    pa, pb = preds(a), preds(b)
    cab, cba = int(are_compatible(a, b)), int(are_compatible(b, a))
    caa = int(are_compatible(a, a))
    rep.count(f"smooth={pa[0]} dec={pa[1]} sd={pa[2]}")
    rep.count(f"compatible={cab}")
    # ---- direct oracles (the property itself, on the implementation) ----
    sm, de = spec_preds(a)
    if pa[0] != int(sm):
        rep.violation("smooth-flag", "is_smooth disagrees with: every sum has same-scope inputs", {"case": desc, "observed": pa[0], "expected": int(sm)})
    if pa[1] != int(de):
        rep.violation("decomposable-flag", "is_decomposable disagrees with: every product has pairwise disjoint inputs", {"case": desc, "observed": pa[1], "expected": int(de)})
    if pa[2] and not (sm and de and spec_sd_ok([a])):
        rep.violation("sd-unsound", "reported structured-decomposable although two products over one scope split it differently", {"case": desc})
    if cab and not (spec_sd_ok([a, b]) and all(spec_preds(x) == (True, True) for x in (a, b))):
        rep.violation("compatible-unsound", "reported compatible although products over the same scope split it differently", {"case": desc})
    if cab != cba:
        rep.violation("compatible-asymmetric", "are_compatible(a,b) != are_compatible(b,a)", {"case": desc, "ab": cab, "ba": cba})
    # permutation of input lists
    a2, changed = permute_inputs(rng, a)
    if changed:
        rep.count("permuted")
        if preds(a2) != pa:
            rep.violation("perm-dependence", "structural flags changed when a product's inputs were listed in another order",
                          {"case": desc, "before": pa, "after": preds(a2)})
        if int(are_compatible(a2, b)) != cab or int(are_compatible(b, a2)) != cba or int(are_compatible(a, a2)) != caa:
            rep.violation("perm-dependence-compatible", "compatibility changed when a product's inputs were listed in another order",
                          {"case": desc, "a~b": [cab, int(are_compatible(a2, b))], "a~a": [caa, int(are_compatible(a, a2))]})
    # renaming of variables (same injective map on both circuits)
    # all variables of the input layers (not Circuit.scope: the check must not depend on the scope computation it examines)
    allv = sorted({v for c_ in (a, b) for l_ in c_.layers if isinstance(l_, L.InputLayer) for v in l_.scope._set})
    img = rng.sample(range(0, 40), len(allv))
    r = dict(zip(allv, img))
    ra, rb = rename(a, r), rename(b, r)
    if ra is not None and rb is not None:
        rep.count("renamed")
        if preds(ra) != pa or int(are_compatible(ra, rb)) != cab:
            rep.violation("renaming-dependence", "structural answers changed under an injective renaming of the variables",
                          {"case": desc, "renaming": r, "before": pa + [cab], "after": preds(ra) + [int(are_compatible(ra, rb))]})
    # ---- correspondence with the model ----
    ex = export.Exporter()
    try:
        ta, tb = ex.circuit(a), ex.circuit(b)
    except export.ExportError as e:
        rep.violation("export-error", str(e), {"case": desc}, found_input=False)
        return
    term = ("let a := %s in let b := %s in [b2n (is_smooth a); b2n (is_decomposable a); b2n (is_sd a); "
            "b2n (compatible a b); b2n (compatible b a); b2n (is_smooth b); b2n (is_decomposable b); b2n (is_sd b)]" % (ta, tb))
    impl = pa + [cab, cba] + pb

    def interp(res, desc=desc, impl=impl):
        if res != impl:
            rep.violation("struct-corr", "model predicates and cirkit predicates disagree (smooth, decomposable, sd, compat ab, compat ba, ...)",
                          {"case": desc, "model": res, "implementation": impl}, found_input=False)

    cs.add(desc, term, interp, nontrivial=desc["na"] >= 3)


def rg_case(rep, cs, seed, i):
    """region-graph level flag: RegionGraph.is_structured_decomposable against the set-based definition, the verified
    predicate rg_sd of the model, and the flag of a circuit built from the graph"""
    from cirkit.templates.region_graph.graph import RegionGraph, RegionNode, PartitionNode
    import cirkit.templates.region_graph as RGM
    from props.C16 import py_sd, ex_rg
    rng = rng_for(seed, PID + "rg", i)
    kind = rng.choice(["rbt", "rbt", "dup", "dup", "quadgraph", "pd", "linear"])
    try:
        if kind == "rbt":
            n = rng.randint(4, 9)
            kw = {"depth": None, "num_repetitions": rng.choice([2, 2, 3]), "seed": rng.randint(0, 1000)}
            rg = RGM.RandomBinaryTree(n, **kw)
            meta = {"n": n, **kw}
        elif kind == "linear":
            n = rng.randint(3, 7)
            kw = {"num_repetitions": rng.choice([1, 2, 3]), "randomize": True, "seed": rng.randint(0, 1000)}
            rg = RGM.LinearTree(n, **kw)
            meta = {"n": n, **kw}
        elif kind == "quadgraph":
            shape = (1, rng.randint(2, 4), rng.randint(2, 4))
            rg = RGM.QuadGraph(shape)
            meta = {"shape": list(shape)}
        elif kind == "pd":
            shape = (1, rng.randint(2, 4), rng.randint(2, 4))
            kw = {"delta": rng.choice([1, 2]), "max_depth": rng.choice([None, 2])}
            rg = RGM.PoonDomingos(shape, **kw)
            meta = {"shape": list(shape), **{k: str(v) for k, v in kw.items()}}
        else:
            # two distinct region nodes over the same scope (copies hanging from two equal root partitions), split the same
            # way or differently
            n = rng.choice([5, 6, 7])
            vs = list(range(n))
            rng.shuffle(vs)
            cut = rng.randint(2, n - 2)
            A, B = sorted(vs[:cut]), sorted(vs[cut:])
            big = A if len(A) >= 3 else B
            if len(big) < 3:
                return
            other = B if big is A else A
            same = rng.random() < 0.4
            splits = []
            for rep_ in range(2):
                k = 1 if (same or rep_ == 0) else 2
                splits.append((big[:k], big[k:]))
            nodes, inn = [], {}
            root = RegionNode(range(n))
            nodes.append(root)
            inn[root] = []
            for l, r in splits:
                p = PartitionNode(range(n))
                rb, ro = RegionNode(big), RegionNode(other)
                pb = PartitionNode(big)
                rl, rr = RegionNode(l), RegionNode(r)
                nodes += [p, rb, ro, pb, rl, rr]
                inn[root].append(p)
                inn[p] = [rb, ro]
                inn[rb] = [pb]
                inn[pb] = [rl, rr]
            rg = RegionGraph(nodes, inn, [root])
            meta = {"n": n, "same_split": same, "splits": [list(map(list, sp)) for sp in splits]}
    except Exception as e:
        rep.count("rg-build-failed:" + type(e).__name__)
        return
    desc = {"i": i, "seed": seed, "family": "region-graph", "kind": kind, **meta, "na": len(list(rg.region_nodes))}
    rep.count("family:region-graph:" + kind)
    flag = bool(rg.is_structured_decomposable)
    want = py_sd(rg)
    rep.count(f"rg-sd:{int(want)}")
    if flag != want:
        rep.violation("rg-sd-flag", "RegionGraph.is_structured_decomposable differs from the definition (partitions of equal scope split it into the same set of sub-scopes)",
                      {"case": desc, "observed": flag, "expected": want})
    try:
        sc = rg.build_circuit(input_factory=lambda scope, K: L.EmbeddingLayer(scope, K, num_states=2, weight=P.Parameter.from_input(P.ConstantParameter(K, 2, value=1.0))),
                              sum_product="cp", num_input_units=1, num_sum_units=1,
                              sum_weight_factory=lambda shape: P.Parameter.from_input(P.ConstantParameter(*shape, value=1.0)))
        cflag = bool(sc.is_structured_decomposable)
        if cflag != want and len(list(rg.partition_nodes)) > 0:
            rep.violation("rg-circuit-sd-flag", "the circuit built from a region graph reports a structured-decomposability flag that differs from the definition on the graph",
                          {"case": desc, "observed": cflag, "expected": want})
    except Exception as e:
        rep.count("rg-circuit-failed:" + type(e).__name__)
    term = f"[b2n (rg_sd {ex_rg(rg)})]"
    impl = [int(flag)]

    def interp(res, desc=desc, impl=impl):
        if res != impl:
            rep.violation("rg-sd-corr", "the verified predicate rg_sd and RegionGraph.is_structured_decomposable disagree",
                          {"case": desc, "model": res, "implementation": impl}, found_input=False)

    cs.add(desc, term, interp, nontrivial=True)


def run(rep, tier, seed, replay=None):
    n = 300 if tier == "quick" else 6000
    cs = CaseSet(rep, PID)
    if replay is not None:
        c = replay["replay"].get("case", {})
        (rg_case if c.get("family") == "region-graph" else one_case)(rep, cs, c.get("seed", seed), c.get("i", 0))
        cs.run()
        return
    for i in range(n):
        one_case(rep, cs, seed, i)
    for i in range(max(40, n // 8)):
        rg_case(rep, cs, seed, i)
    cs.run(shard=max(10, 300 // 14))  # shard size of the quick tier: thorough runs use more files, not longer ones
