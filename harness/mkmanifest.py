"""Regenerates /verif/MANIFEST.json from the table below (run after adding a property module)."""
import json
import os

VERIF = os.path.dirname(os.path.dirname(os.path.abspath(__file__)))

BASE_NOTE = ("Trusted: Coq 8.16.1 kernel + VM; axioms as printed by Print Assumptions under each theorem of "
             "coq/Props/<id>.v (recorded in the evidence file); hand-written model (coq/*.v) tied to /repo by the "
             "correspondence harness (harness/export.py abstraction function, generators, exact-rational comparison "
             "under rtol 1e-7 / scaled atol 1e-9); fixed-point exp/log/sqrt in coq/Scalar.v used only to run the model; "
             "PyTorch primitives. See DESIGN.md section 7.")

# id -> (technique, level text, extra note)
CLAIMED = {
    "C03": ("Coq theorem C03_integrate (DAG-level, any semiring, any linear functional, input/sum/Hadamard/Kronecker nodes) + "
            "correspondence of integrate_m with cirkit integrate by exact in-Coq evaluation + brute-force/quadrature oracle on compiled circuits",
            "Machine-checked proof on the model for all circuits/parameters/inputs; the tie to the code is a sampled "
            "correspondence (model operator vs implementation operator evaluated exactly inside Coq) plus a direct oracle.",
            "Gaussian integral = 1 is an analytic hypothesis of the continuous instance."),
    "C04": ("Coq theorems C04_multiply / C04_outputs (every pair node of the product circuit = Kronecker product of the operands' values) + "
            "correspondence of multiply_m with cirkit multiply inside Coq + product oracle on compiled circuits",
            "Machine-checked proof on the semantic model for all circuits; sampled correspondence and oracle tie it to the code.",
            "C04_multiply_executable proves the executable operator multiply_m value-correct with every per-layer rule (Embedding, Polynomial, sum x sum column permutation, sorted Hadamard pairing, Kronecker x Kronecker permutation layer, disjoint joins); the Categorical and Gaussian product rules are proved over the real numbers from a transcription of the torch nodes (C04_gaussian_product_rule, C04_categorical_product_rule; standard-library real-number axioms) and checked per instance against the code."),
    "C05": ("Coq theorems C05_differentiate / C05_outputs_sorted against an abstract iterated partial-derivative operator + "
            "correspondence of differentiate_m with cirkit differentiate inside Coq + autograd oracle on compiled circuits",
            "Machine-checked proof on the semantic model (any order through the abstraction); sampled correspondence and oracle tie it to the code.",
            "C05_differentiate_executable proves the executable operator differentiate_m value-correct against forward-mode (dual-number) evaluation for every order; C05_differentiate_real instantiates the abstract derivative with the real partial derivative (Coquelicot; standard-library real-number axioms ClassicalDedekindReals.sig_forall_dec / sig_not_dec, functional_extensionality_dep, Classical_Prop.classic, named in DESIGN.md). That PolynomialDifferential computes the k-th formal derivative is checked per instance; torch autograd trusted as oracle."),
    "C06": ("Coq theorems C06_evidence, C06_evidence_scope, C06_concatenate(_nth) + correspondence inside Coq + oracle on compiled circuits under all flags",
            "Machine-checked proof on the semantic model for all circuits and observations; sampled correspondence ties it to the code.", ""),
    "C07": ("Coq theorems C07_conjugate, C07_involutive, C07_real_identity over any semiring endomorphism, instantiated at Gaussian rationals + "
            "correspondence inside Coq with complex parameters + oracle on compiled circuits",
            "Machine-checked proof on the semantic model; sampled correspondence ties it to the code.", ""),
    "C08": ("Coq theorems on the executable predicates (iff-specifications, soundness and completeness, symmetry, invariance under input order "
            "and injective renaming) + exact comparison of the predicates with cirkit's on generated circuits and pairs + set-based oracles",
            "Machine-checked proof that the model predicates meet the definitions; the implementation is compared with them exactly on every generated case.", ""),
    "C01": ("Coq model of the denotation (coq/Exec.v den, evaluated exactly inside Coq) compared with the compiled circuit under every semiring x fold x optimize "
            "x batch size (incl. batch == folds); theorem C02_folded_sound for the address-book evaluation; row-independence and shape oracles",
            "The reference semantics is the executable Gallina denotation; every compiled output is compared with it as exact rationals inside Coq. "
            "The folding theorem is machine-checked; the semiring morphism (exp/log) and the per-layer torch kernels are tied by correspondence only.",
            "Theorems C01_hom_eval (one denotation serves all semirings), C01_denotation_is_semantic (executable den = semantic eval on the algebraic fragment) and C01_folded_evaluation are machine-checked; that the torch layer kernels compute the model's layer functions is correspondence (partial)."),
    "C02": ("Coq theorem C02_folded_sound (consistent address book => folded evaluation = unfolded evaluation, modules arbitrary functions) + four-flag "
            "differential on operator pipelines with parameters written through the registry + registry addressability checks + model denotation at the updated values",
            "Machine-checked proof of address-book soundness on the abstract folded-graph model; the implementation's folding/optimisation is compared numerically "
            "against the unfolded compilation and the model denotation on generated circuits.",
            "The algebraic identity behind every optimisation rewrite rule (sum collapse, Tucker, Candecomp, Kronecker-weight / tensor-dot rules, reduce-sum of outer products, log-softmax) is machine-checked over any commutative semiring (C02_rule_*, coq/Optim.v); that the Python rules implement exactly these identities (pattern matching, views, einsum strings) is tied by the four-flag differential only."),
    "C09": ("Model operators' refusal codes (coq/Ops.v res_code) compared with cirkit's exceptions on valid and malformed operands + verified structural predicates (C08) on results",
            "Refusals and result structure are decided by the executable model operators and the verified predicates; compared with the implementation on generated valid/invalid operands.",
            "Result structure is proved for all six executable operators (C09_integrate_result, C09_multiply_result, C09_differentiate_result, evidence, conjugate, concatenate) and additionally checked per instance with the verified predicates on the implementation's results."),
    "C10": ("Coq check that derived circuits introduce no learnable leaves (learn_subset on exported circuits) + model denotation at the CURRENT tensor values after random "
            "histories of in-place updates / resets / load_state_dict + defining-relation oracles + storage-identity check",
            "The operator theorems (C03-C07) are quantified over all parameter values, so the relations hold after any update provided derived circuits read the operands' tensors; "
            "that sharing is checked on the implementation (registry, data_ptr) and against the model at the updated values.", ""),
    "C11": ("Model integrate_m per sample (coq/Ops.v) compared with IntegrateQuery inside Coq + brute-force / quadrature marginals of the compiled circuit + symbolic integrate "
            "compilation, over masks x formats x flags x batch sizes",
            "Per-sample marginal = denotation of integrate_m at the sample, whose correctness is theorem C03; the query is compared with it on generated cases.", "Binomial inputs: oracle only (no symbolic rule)."),
    "C12": ("Coq theorems C12_partition_one / C12_partition_function / softmax and mixing row sums / non-negativity and positivity + verified predicate normalised_struct on "
            "exported template circuits + numeric Z = 1 before and after updates",
            "Machine-checked proof that circuits built from normalised parts have partition function one for every parameter value; templates are certified per instance by the structural predicate.",
            "Normalisation of the discrete input layers is proved (C12_binomial_normalised, C12_softmax_categorical_input_node, C12_partition_one_discrete: no hypothesis left on discrete inputs); only the Gaussian integral = 1 remains an analytic hypothesis."),
    "C13": ("Exact central difference quotient of the model's denotation (computed in Coq) vs autograd gradients mapped back through the registry + flag-independence + finite differences",
            "The folding/denotation theorems hold over any commutative semiring (hence over dual numbers); gradients are tied numerically to the model's exact difference quotient.",
            "Theorems C13_dual_semiring / dual_primal / leibniz / polynomial_derivative instantiate the circuit theorems at dual numbers; torch autograd of primitive operations is trusted and tied numerically."),
    "C14": ("Executable Gallina semantics of every parameter node (coq/Pexpr.v peval) compared exactly inside Coq with compiled / folded parameter graphs over node types x shapes x "
            "axes (both signs) x folds x compositions + translator route: shape/axis expressions regenerated from source and proved equal to the model (GenAgree.v)",
            "Each node's mathematical definition is the Gallina function; the source's axis arithmetic is re-translated on every run and proved to select the declared axis.",
            "Transcendental functions evaluated with 80-bit fixed point in the model."),
    "C15": ("Coq theorems C15_sampling_law (ancestral sampling weight of the outcomes consistent with an assignment = circuit value, every node and unit), C15_support, C15_columns + chi-square test decided inside Coq with the model's exact probabilities (p < 1e-9) + positivity and column checks on the returned samples",
            "The push-forward law of the ancestral-sampling model is machine-checked for all ok circuits with finite-domain inputs; the implementation's sampler is tied to it statistically (its RNG cannot be compared exactly); columns and support are exact.",
            "torch RNG trusted; the statistical tie cannot exhibit deviations below the test's power (partial)."),
    "C16": ("Coq theorems C16_valid_spec, C16_sd_flag, C16_fully_factorized, C16_linear_tree + verified predicates evaluated on every exported region graph and circuit + dump/load round trip",
            "Validity and the structured-decomposability flag are decided by verified predicates on every generated graph; two constructions are proved valid for all sizes.",
            "C16_tree_valid / C16_tree_structured_decomposable prove every tree-shaped region graph valid and SD (RandomBinaryTree, LinearTree, QuadTree, tree2rg) and repetitions valid; that each algorithm outputs such a tree, and the non-tree graphs (QuadGraph, Poon-Domingos), are certified per instance by the verified predicates."),
    "C17": ("Coq theorems C17_axis, C17_dirichlet_shape, C17_foldwise_slice + translator route (GenAgree.source_simplex_axis over the current source) + per-slice value/flag checks through the registry",
            "The axis/slice bookkeeping is proved for all ranks, axes and fold positions and tied to the source by re-translation on every run.", "Distributional facts (Dirichlet, uniform, normal) are torch's: checked numerically only."),
    "C18": ("Coq theorems C18_contexts (token restoration for every well-bracketed history), C18_memo, C18_bijection, C18_operands_first + the model state machines run on the same random "
            "call histories as cirkit (contexts nested / reused / exceptional exits, compile / lookup / operator calls)",
            "Machine-checked invariants over all histories of the state-machine model; the implementation is compared with the model event by event.", ""),
    "C19": ("Coq theorems C19_roundtrip / names on the state-dictionary model + save/load into freshly compiled instances, derived circuits, reset/load sequences + model denotation at the loaded values",
            "Round-trip proved on the association-list model under unique equal names; names and reloaded values are checked on the implementation.", ""),
    "C20": ("Model denotation of the exported template circuits compared with compiled outputs inside Coq + documented contractions (CP, Tucker, tensor train, HMM forward algorithm, "
            "fully factorised, truth tables / model counts) computed from the parameters read through the registry",
            "Theorems C20_cp, C20_tucker, C20_tucker_order2, C20_hmm prove the documented contractions for the model circuits of those shapes (all sizes and parameters); the templates' exported circuits are tied to the model by correspondence and to the formulas by per-instance oracles.", "Tensor-train and logic-formula templates: per-instance oracles only."),
}

NOT_YET = {}


def main():
    props = [json.loads(l) for l in open(os.path.join(VERIF, "properties.jsonl"))]
    checks = []
    na = []
    for p in props:
        pid = p["id"]
        if pid in CLAIMED and os.path.exists(os.path.join(VERIF, "harness", "props", f"{pid}.py")):
            tech, text, note = CLAIMED[pid]
            checks.append({
                "property_id": pid,
                "quick_cmd": f"./check {pid} --tier quick",
                "thorough_cmd": f"./check {pid} --tier thorough",
                "evidence_file": f"evidence/{pid}.json",
                "replay_cmd_template": f"./check {pid} --replay {{path}}",
                "engine": "coq-model+correspondence",
                "level_claimed": {"category": "proof", "text": text, "design_ref": f"DESIGN.md section 6 ({pid})"},
                "level_note": BASE_NOTE + (" " + note if note else ""),
                "technique": tech,
            })
        else:
            na.append({"property_id": pid, "reason": NOT_YET.get(pid, "check not built yet in this revision (planned: see DESIGN.md section 6)")})
    man = {
        "version": 1,
        "setup_cmd": "cd coq && coq_makefile -f _CoqProject -o Makefile >/dev/null && timeout 3000 make -j16 >/dev/null 2>&1; cd .. && ./check selftest",
        "hooks": {
            "guard": "CIRKIT_VERIF",
            "enable": "no source hooks: the harness imports /repo directly (PYTHONPATH=/repo) and patches nothing in the source tree",
            "baseline_off_cmd": "cd /repo && /venv/bin/python -m pytest -ra -q -p no:cacheprovider --timeout=900 --continue-on-collection-errors",
            "source_commits": [],
            "add_only": True,
        },
        "engines": [{
            "name": "coq-model+correspondence",
            "path": "coq/ harness/",
            "serves_properties": [c["property_id"] for c in checks],
            "kind_free_text": "Hand-written executable Gallina model with machine-checked theorems (Coq 8.16), tied to /repo on every run by "
                              "a correspondence check that evaluates model and implementation on the same generated inputs inside Coq (vm_compute), "
                              "plus direct oracles on the implementation for the failing-input search.",
        }],
        "checks": checks,
        "not_applicable": na,
        "notes": "All checks rebuild the Coq development incrementally and import cirkit from /repo's working tree.",
    }
    with open(os.path.join(VERIF, "MANIFEST.json"), "w") as f:
        json.dump(man, f, indent=1)
    print(f"{len(checks)} checks, {len(na)} not yet claimed")


if __name__ == "__main__":
    main()
