(* C04 — multiply returns the pointwise product
   Property theorems only: each is closed by `exact <lemma>`; proofs live in the imported files. *)
From Coq Require Import List ZArith QArith Qcanon Ring_theory Field_theory Permutation Sorted.
Import ListNotations.
From CK Require Import Base.
From CK Require Import Circ.
From CK Require Import Multiply.
Close Scope Qc_scope. Close Scope Q_scope. Close Scope Z_scope. Open Scope nat_scope.

(* every pair node (i,j) of the product circuit evaluates to kron (value of i in c1) (value of j in c2), for all well-scoped circuits with declared unit counts, all inputs, any choice of pairs forced to the Kronecker fallback *)
Theorem C04_multiply :
  forall (R : Type) (rO rI : R) (radd rmul : R -> R -> R),
         semi_ring_theory rO rI radd rmul eq ->
         forall (D : Type) (force : nat -> nat -> bool) (c1 c2 : circuit R D),
         wfm R rO radd rmul D c1 ->
         wfm R rO radd rmul D c2 ->
         forall (y : asg D) (i j : nat),
         i < length c1 ->
         j < length c2 ->
         nth (pidx R D c1 c2 i j) (eval R rO radd rmul D (multiply R rmul D force c1 c2) y) [] =
         kron R rmul (nth i (eval R rO radd rmul D c1 y) []) (nth j (eval R rO radd rmul D c2 y) []).
Proof. exact multiply_correct. Qed.
Print Assumptions C04_multiply.

(* the outputs of the product circuit are the Kronecker products of the operands' outputs, output (o1,o2) in o1-major order *)
Theorem C04_outputs :
  forall (R : Type) (rO rI : R) (radd rmul : R -> R -> R),
         semi_ring_theory rO rI radd rmul eq ->
         forall (D : Type) (force : nat -> nat -> bool) (c1 c2 : circuit R D),
         wfm R rO radd rmul D c1 ->
         wfm R rO radd rmul D c2 ->
         forall (outs1 outs2 : list nat) (y : asg D),
         (forall o : nat, In o outs1 -> o < length c1) ->
         (forall o : nat, In o outs2 -> o < length c2) ->
         map (get R (eval R rO radd rmul D (multiply R rmul D force c1 c2) y))
           (outs_prod R D c1 c2 outs1 outs2) =
         flat_map
           (fun o1 : nat =>
            map
              (fun o2 : nat =>
               kron R rmul (get R (eval R rO radd rmul D c1 y) o1) (get R (eval R rO radd rmul D c2 y) o2))
              outs2) outs1.
Proof. exact multiply_outputs. Qed.
Print Assumptions C04_outputs.
