(* DiffStruct.v — result structure of [differentiate_m] (C09):
   whenever differentiate returns, the result is smooth and decomposable, has the scope of the
   operand, one output per (output, variable of its scope) plus the copy, and only refers to
   existing earlier nodes.  Key invariant: every block "derivative of node i w.r.t. v" and the
   copy of node i have the scope of node i of the operand. *)
From Coq Require Import ZArith QArith Qcanon List Bool Arith Lia.
Import ListNotations.
From CK Require Import Base Scalar Tensor Pexpr Exec Ops Struct OpsProps.
From CK Require Circ.
Close Scope Qc_scope. Close Scope Q_scope. Close Scope Z_scope.
Open Scope nat_scope.

(* ================================================================== *)
(* 0. Generic helpers                                                   *)
(* ================================================================== *)
Lemma omap_F2 {X Y} (f : X -> option Y) l : forall l',
  omap f l = Some l' -> Forall2 (fun x y => f x = Some y) l l'.
Proof.
  induction l as [|x l IH]; intros l' H; simpl in H.
  - inversion H. constructor.
  - destruct (f x) eqn:Ex; [|discriminate]. destruct (omap f l) eqn:El; [|discriminate].
    inversion H; subst. constructor; [exact Ex | apply IH; reflexivity].
Qed.

Lemma omap_id_map {X Y} (g : X -> option Y) vars : forall bl,
  omap (fun x => x) (map g vars) = Some bl -> Forall2 (fun v b => g v = Some b) vars bl.
Proof.
  induction vars as [|v vars IH]; intros bl H; simpl in H.
  - inversion H. constructor.
  - destruct (g v) eqn:Ex; [|discriminate].
    destruct (omap (fun x => x) (map g vars)) eqn:El; [|discriminate].
    inversion H; subst. constructor; [exact Ex | apply IH; reflexivity].
Qed.

Lemma Forall2_In_r {A B} (R : A -> B -> Prop) l l' :
  Forall2 R l l' -> forall y, In y l' -> exists x, In x l /\ R x y.
Proof.
  induction 1 as [|a b l l' Hab HF IH]; intros y Hy; [destruct Hy|].
  destruct Hy as [Hy|Hy].
  - subst y. exists a. simpl; auto.
  - destruct (IH y Hy) as [x [Hx Hr]]. exists x. simpl; auto.
Qed.

Lemma Forall2_impl_in {A B} (R R' : A -> B -> Prop) l l' :
  (forall a b, In a l -> R a b -> R' a b) -> Forall2 R l l' -> Forall2 R' l l'.
Proof.
  intros H HF. induction HF as [|a b l l' Hab HF IH]; constructor.
  - apply H; simpl; auto.
  - apply IH. intros a' b' Ha'. apply H; simpl; auto.
Qed.

Lemma alookup_In v l : forall x, alookup v l = Some x -> In (v, x) l.
Proof.
  induction l as [|[u y] r IH]; intros x H; simpl in H; [discriminate|].
  destruct (u =? v) eqn:E.
  - apply Nat.eqb_eq in E. inversion H; subst. left; reflexivity.
  - right. apply IH. exact H.
Qed.

Lemma map_fst_combine {A B} (a : list A) : forall (b : list B),
  length a = length b -> map fst (combine a b) = a.
Proof.
  induction a as [|x a IH]; intros [|y b] H; simpl in *; try discriminate; auto.
  f_equal. apply IH. lia.
Qed.

Lemma nth_map_const {A B} (T d : B) (l : list A) x :
  x < length l -> nth x (map (fun _ => T) l) d = T.
Proof.
  revert x. induction l as [|a l IH]; intros x Hx; simpl in *; [lia|].
  destruct x; auto. apply IH. lia.
Qed.

(* ================================================================== *)
(* 1. What [wf], [is_smooth], [is_decomposable] say about the operand   *)
(* ================================================================== *)
Lemma wf_from_lt ns : forall pos us i l ins, wf_from ns pos us = true ->
  nth_error ns i = Some (l, ins) -> forall j, In j ins -> j < pos + i.
Proof.
  induction ns as [|[l0 ins0] ns IH]; intros pos us i l ins Hwf Hn j Hj; [destruct i; discriminate|].
  cbn [wf_from] in Hwf. apply andb_prop in Hwf. destruct Hwf as [H1 H2]. destruct i as [|i].
  - cbn [nth_error] in Hn. inversion Hn; subst l0 ins0. destruct (is_input l).
    + destruct ins; [destruct Hj | discriminate].
    + apply andb_prop in H1. destruct H1 as [_ H3].
      rewrite forallb_forall in H3. specialize (H3 j Hj). apply andb_prop in H3.
      destruct H3 as [H5 _]. apply Nat.ltb_lt in H5. lia.
  - cbn [nth_error] in Hn.
    specialize (IH (Datatypes.S pos) (us ++ [out_units l0]) i l ins H2 Hn j Hj). lia.
Qed.

Lemma wf_wsc c : wf c = true -> wsc c.
Proof.
  intros H. unfold wf in H. apply andb_prop in H. destruct H as [H _].
  intros i l ins Hn j Hj. apply (wf_from_lt (nodes c) 0 [] i l ins H Hn j Hj).
Qed.

Lemma wf_outs c : wf c = true -> forall o, In o (outs c) -> o < length (nodes c).
Proof.
  intros H. unfold wf in H. apply andb_prop in H. destruct H as [_ H].
  rewrite forallb_forall in H. intros o Ho. apply Nat.ltb_lt. auto.
Qed.

Lemma scope_at c i l ins : wf c = true -> nth_error (nodes c) i = Some (l, ins) ->
  nth i (scopes c) [] =
    if is_input l then in_scope l else sunions (map (fun j => nth j (scopes c) []) ins).
Proof.
  intros Hwf Hn. apply scopes_nth_error; auto. apply (wf_wsc c Hwf i l ins Hn).
Qed.

Lemma smooth_eq c : is_smooth c = true ->
  forall i l ins, nth_error (nodes c) i = Some (l, ins) -> is_sum l = true ->
  forall j, In j ins -> nth j (scopes c) [] = nth i (scopes c) [].
Proof.
  intros Hs i l ins Hn Hl j Hj. apply sorted_ext; try apply scopes_nth_sorted.
  exact (proj1 (smooth_iff' c) Hs i l ins Hn Hl j Hj).
Qed.

Lemma dec_all c : is_decomposable c = true ->
  forall l ins, In (l, ins) (nodes c) -> is_prod l = true ->
  all_pairs sdisjoint (map (fun j => nth j (scopes c) []) ins) = true.
Proof.
  intros Hd l ins Hin Hp. unfold is_decomposable in Hd. rewrite forallb_forall in Hd.
  specialize (Hd (l, ins) Hin). simpl in Hd. rewrite Hp in Hd. exact Hd.
Qed.

(* ================================================================== *)
(* 2. Scopes of a batch of appended nodes that all have the same scope  *)
(* ================================================================== *)
Lemma node_scope_app l ins acc X : (forall x, In x ins -> x < length acc) ->
  node_scope l ins (acc ++ X) = node_scope l ins acc.
Proof.
  intros H. unfold node_scope. destruct (is_input l); auto. f_equal.
  apply map_ext_in. intros x Hx. apply app_nth1. auto.
Qed.

Lemma scopes_from_const new T : forall acc,
  (forall l ins, In (l, ins) new ->
     (forall x, In x ins -> x < length acc) /\ node_scope l ins acc = T) ->
  scopes_from new acc = acc ++ map (fun _ => T) new.
Proof.
  induction new as [|[l ins] r IH]; intros acc H.
  - simpl. rewrite app_nil_r. reflexivity.
  - rewrite scopes_from_cons. destruct (H l ins (or_introl eq_refl)) as [_ HT]. rewrite HT.
    rewrite IH.
    + rewrite <- app_assoc. reflexivity.
    + intros l' ins' Hin. destruct (H l' ins' (or_intror Hin)) as [Hb Hn]. split.
      * intros x Hx. rewrite app_length. specialize (Hb x Hx). lia.
      * rewrite node_scope_app; auto.
Qed.

(* ================================================================== *)
(* 3. The invariant of the fold of [differentiate_m]                    *)
(* ================================================================== *)
Section DiffInv.
Variable k : nat.
Variable c : circuit.
Hypothesis Hwf : wf c = true.
Hypothesis Hsm : is_smooth c = true.
Hypothesis Hde : is_decomposable c = true.
Notation sc := (scopes c).

(* [ns], [tbl]: nodes built and table after the first [m] nodes of [c] *)
Record Inv (ns : list (layer * list nat)) (tbl : list (list (nat * nat) * nat)) (m : nat) : Prop :=
  mkInv {
  inv_len : length tbl = m;
  (* the copy of node j has the scope of node j *)
  inv_self : forall j, j < m ->
      snd (nth j tbl ([], 0)) < length ns /\
      nth (snd (nth j tbl ([], 0))) (scopes_from ns []) [] = nth j sc [];
  (* one derivative block per variable of the scope of node j, in the order of the scope *)
  inv_vars : forall j, j < m -> map fst (fst (nth j tbl ([], 0))) = nth j sc [];
  (* each derivative block of node j has the scope of node j *)
  inv_diffs : forall j, j < m -> forall v d, In (v, d) (fst (nth j tbl ([], 0))) ->
      d < length ns /\ nth d (scopes_from ns []) [] = nth j sc [];
  (* the result only refers to earlier nodes *)
  inv_bound : forall i l ins, nth_error ns i = Some (l, ins) -> forall x, In x ins -> x < i;
  inv_smooth : forall i l ins, nth_error ns i = Some (l, ins) -> is_sum l = true ->
      forall x, In x ins -> nth x (scopes_from ns []) [] = nth i (scopes_from ns []) [];
  inv_dec : forall l ins, In (l, ins) ns -> is_prod l = true ->
      all_pairs sdisjoint (map (fun x => nth x (scopes_from ns []) []) ins) = true }.

Lemma Inv_nil : Inv [] [] 0.
Proof.
  constructor; try (intros; lia); auto;
    try (intros i l ins H; destruct i; discriminate H).
  all: try (intros l ins []).
Qed.

(* appending a batch of nodes that all have the scope [T] of node [m] of [c] *)
Lemma Inv_extend ns tbl m new ds s T :
  Inv ns tbl m ->
  T = nth m sc [] ->
  (forall l ins, In (l, ins) new ->
     (forall x, In x ins -> x < length ns) /\
     node_scope l ins (scopes_from ns []) = T /\
     (is_sum l = true -> forall x, In x ins -> nth x (scopes_from ns []) [] = T) /\
     (is_prod l = true ->
        all_pairs sdisjoint (map (fun x => nth x (scopes_from ns []) []) ins) = true)) ->
  length ns <= s < length ns + length new ->
  map fst ds = T ->
  (forall v d, In (v, d) ds -> length ns <= d < length ns + length new) ->
  Inv (ns ++ new) (tbl ++ [(ds, s)]) (Datatypes.S m).
Proof.
  intros HI HT Hnew Hs Hds Hd.
  assert (HK : length (scopes_from ns []) = length ns).
  { rewrite scopes_from_length. reflexivity. }
  assert (HS : scopes_from (ns ++ new) [] = scopes_from ns [] ++ map (fun _ => T) new).
  { rewrite scopes_from_app. apply scopes_from_const. intros l ins Hin.
    destruct (Hnew l ins Hin) as (B & N & _). split; auto. rewrite HK. exact B. }
  assert (Hold : forall x, x < length ns ->
            nth x (scopes_from (ns ++ new) []) [] = nth x (scopes_from ns []) []).
  { intros x Hx. rewrite HS. apply app_nth1. lia. }
  assert (Hnw : forall x, length ns <= x < length ns + length new ->
            nth x (scopes_from (ns ++ new) []) [] = T).
  { intros x Hx. rewrite HS, app_nth2 by lia. rewrite HK. apply nth_map_const. lia. }
  destruct HI as [I1 I2 I3 I4 I5 I6 I7].
  assert (Htold : forall j, j < m -> nth j (tbl ++ [(ds, s)]) ([], 0) = nth j tbl ([], 0)).
  { intros j Hj. apply app_nth1. lia. }
  assert (Htnew : nth m (tbl ++ [(ds, s)]) ([], 0) = (ds, s)).
  { rewrite app_nth2 by lia. rewrite I1, Nat.sub_diag. reflexivity. }
  assert (Hcase : forall j, j < Datatypes.S m -> j < m \/ j = m) by (intros; lia).
  constructor.
  - rewrite app_length. simpl. lia.
  - intros j Hj. rewrite app_length. destruct (Hcase j Hj) as [Hlt|E].
    + rewrite (Htold j Hlt). destruct (I2 j Hlt) as [A B]. split; [lia|].
      rewrite Hold by exact A. exact B.
    + subst j. rewrite Htnew. simpl. split; [lia|]. rewrite Hnw by lia. exact HT.
  - intros j Hj. destruct (Hcase j Hj) as [Hlt|E].
    + rewrite (Htold j Hlt). auto.
    + subst j. rewrite Htnew. simpl. rewrite Hds. exact HT.
  - intros j Hj v d Hin. rewrite app_length. destruct (Hcase j Hj) as [Hlt|E].
    + rewrite (Htold j Hlt) in Hin. destruct (I4 j Hlt v d Hin) as [A B]. split; [lia|].
      rewrite Hold by exact A. exact B.
    + subst j. rewrite Htnew in Hin. simpl in Hin. specialize (Hd v d Hin). split; [lia|].
      rewrite Hnw by lia. exact HT.
  - intros i l ins Hn x Hx. destruct (Nat.lt_ge_cases i (length ns)) as [Hi|Hi].
    + rewrite nth_error_app1 in Hn by exact Hi. eapply I5; eauto.
    + rewrite nth_error_app2 in Hn by exact Hi. apply nth_error_In in Hn.
      destruct (Hnew l ins Hn) as (B & _). specialize (B x Hx). lia.
  - intros i l ins Hn Hl x Hx. destruct (Nat.lt_ge_cases i (length ns)) as [Hi|Hi].
    + rewrite nth_error_app1 in Hn by exact Hi.
      assert (Hxi : x < i) by (eapply I5; eauto).
      rewrite !Hold by lia. eapply I6; eauto.
    + assert (Hi2 : i < length (ns ++ new)) by (apply nth_error_Some; congruence).
      rewrite app_length in Hi2.
      rewrite nth_error_app2 in Hn by exact Hi. apply nth_error_In in Hn.
      destruct (Hnew l ins Hn) as (B & _ & Sm & _).
      rewrite Hold by (apply B; exact Hx). rewrite Hnw by lia. apply Sm; auto.
  - intros l ins Hin Hp. apply in_app_iff in Hin. destruct Hin as [Hin|Hin].
    + rewrite <- (I7 l ins Hin Hp). f_equal. apply map_ext_in. intros x Hx. apply Hold.
      destruct (In_nth_error _ _ Hin) as [i Hi].
      assert (x < i) by (eapply I5; eauto).
      assert (i < length ns) by (apply nth_error_Some; congruence). lia.
    + destruct (Hnew l ins Hin) as (B & _ & _ & De).
      rewrite <- (De Hp). f_equal. apply map_ext_in. intros x Hx. apply Hold. apply B; exact Hx.
Qed.

(* [x] is a node of the result built so far that has the scope of node [j] of [c] *)
Definition R (ns : list (layer * list nat)) (j x : nat) : Prop :=
  x < length ns /\ nth x (scopes_from ns []) [] = nth j sc [].

Lemma R_map ns ins b : Forall2 (R ns) ins b ->
  map (fun x => nth x (scopes_from ns []) []) b = map (fun j => nth j sc []) ins.
Proof.
  induction 1 as [|j x ins b [_ H] HF IH]; simpl; auto. rewrite H, IH. reflexivity.
Qed.

(* a non-input layer [l] of [c] applied to nodes that have the scopes of its inputs *)
Lemma good_node ns m l ins b :
  nth_error (nodes c) m = Some (l, ins) -> is_input l = false -> Forall2 (R ns) ins b ->
  (forall x, In x b -> x < length ns) /\
  node_scope l b (scopes_from ns []) = nth m sc [] /\
  (is_sum l = true -> forall x, In x b -> nth x (scopes_from ns []) [] = nth m sc []) /\
  (is_prod l = true ->
     all_pairs sdisjoint (map (fun x => nth x (scopes_from ns []) []) b) = true).
Proof.
  intros Hn Hi HF. pose proof (R_map ns ins b HF) as Hmap.
  split; [|split; [|split]].
  - intros x Hx. destruct (Forall2_In_r _ _ _ HF x Hx) as [j [_ [H _]]]. exact H.
  - unfold node_scope. rewrite Hi, Hmap. rewrite (scope_at c m l ins Hwf Hn), Hi. reflexivity.
  - intros Hs x Hx. destruct (Forall2_In_r _ _ _ HF x Hx) as [j [Hj [_ H]]]. rewrite H.
    apply (smooth_eq c Hsm m l ins Hn Hs j Hj).
  - intros Hp. rewrite Hmap. apply (dec_all c Hde l ins); auto. eapply nth_error_In; eauto.
Qed.

Lemma diff_step_inv st m l ins st' :
  Inv (dnodes st) (dtbl st) m ->
  nth_error (nodes c) m = Some (l, ins) ->
  diff_step k sc (Ok st) (m, (l, ins)) = Ok st' ->
  Inv (dnodes st') (dtbl st') (Datatypes.S m).
Proof.
  intros HI Hn Hst. unfold diff_step, rbind in Hst.
  assert (Hlt : forall j, In j ins -> j < m) by (apply (wf_wsc c Hwf m l ins Hn)).
  destruct (is_input l) eqn:Hi.
  - (* input layer: only polynomial layers pass [diff_layer] *)
    destruct (diff_layer k l) as [dl|e] eqn:Hd; [|discriminate Hst].
    destruct l; simpl in Hd; try discriminate Hd. inversion Hd; subst dl. clear Hd.
    cbn [in_scope] in Hst. inversion Hst; subst st'. cbn [dnodes dtbl].
    apply Inv_extend with (T := [v]); auto.
    + rewrite (scope_at c m _ ins Hwf Hn). reflexivity.
    + intros l' ins' [E|[E|[]]]; inversion E; subst l' ins';
        (split; [intros x []|]); (split; [reflexivity|]); split; intros; discriminate.
    + simpl. lia.
    + intros v0 d [E|[]]. inversion E; subst. simpl. lia.
  - (* sum or product layer *)
    match type of Hst with match omap _ ?B with _ => _ end = _ => set (blocks := B) in * end.
    destruct (omap (fun x => x) blocks) as [bl|] eqn:Hbl; [|discriminate Hst].
    inversion Hst; subst st'. cbn [dnodes dtbl]. clear Hst.
    assert (HBL : length bl = length (nth m sc []) /\
                  forall b, In b bl -> Forall2 (R (dnodes st)) ins b).
    { subst blocks. destruct (is_sum l).
      - apply omap_id_map in Hbl. split; [symmetry; eapply Forall2_length; eauto|].
        intros b Hb. destruct (Forall2_In_r _ _ _ Hbl b Hb) as [v [Hv Hg]].
        apply omap_F2 in Hg. eapply Forall2_impl_in; [|exact Hg].
        intros j x Hj Hx. cbv beta in Hx. apply alookup_In in Hx.
        exact (inv_diffs _ _ _ HI j (Hlt j Hj) v x Hx).
      - apply omap_id_map in Hbl. split; [symmetry; eapply Forall2_length; eauto|].
        intros b Hb. destruct (Forall2_In_r _ _ _ Hbl b Hb) as [v [Hv Hg]].
        apply omap_F2 in Hg. eapply Forall2_impl_in; [|exact Hg].
        intros j x Hj Hx. cbv beta in Hx.
        destruct (alookup v (fst (nth j (dtbl st) ([], 0)))) as [d|] eqn:Ha.
        + inversion Hx; subst d. apply alookup_In in Ha.
          exact (inv_diffs _ _ _ HI j (Hlt j Hj) v x Ha).
        + destruct (smem v (nth j sc [])); [discriminate Hx|]. inversion Hx; subst x.
          exact (inv_self _ _ _ HI j (Hlt j Hj)). }
    destruct HBL as [HL HB].
    assert (Hself : Forall2 (R (dnodes st)) ins
                      (map (fun j => snd (nth j (dtbl st) ([], 0))) ins)).
    { apply Forall2_map_r. intros j Hj. exact (inv_self _ _ _ HI j (Hlt j Hj)). }
    apply Inv_extend with (T := nth m sc []); auto.
    + intros l' ins' Hin. apply in_app_iff in Hin. destruct Hin as [Hin|[Hin|[]]].
      * apply in_map_iff in Hin. destruct Hin as [b [E Hb]]. inversion E; subst l' ins'.
        apply (good_node (dnodes st) m l ins b Hn Hi (HB b Hb)).
      * inversion Hin; subst l' ins'.
        apply (good_node (dnodes st) m l ins _ Hn Hi Hself).
    + rewrite app_length, map_length. simpl. lia.
    + apply map_fst_combine. rewrite seq_length. reflexivity.
    + intros v d Hin. apply in_combine_r in Hin. apply in_seq in Hin.
      rewrite app_length, map_length. simpl. lia.
Qed.

Lemma diff_fold_err e l : fold_left (diff_step k sc) l (Err e) = Err e.
Proof. induction l as [|p l IH]; simpl; auto. Qed.

Lemma diff_fold_inv rest : forall pre st st',
  nodes c = pre ++ rest ->
  Inv (dnodes st) (dtbl st) (length pre) ->
  fold_left (diff_step k sc) (combine (seq (length pre) (length rest)) rest) (Ok st) = Ok st' ->
  Inv (dnodes st') (dtbl st') (length (nodes c)).
Proof.
  induction rest as [|[l ins] r IH]; intros pre st st' Hn HI Hf.
  - cbn [length seq combine fold_left] in Hf. inversion Hf; subst st'.
    rewrite Hn, app_nil_r. exact HI.
  - cbn [length seq combine fold_left] in Hf.
    destruct (diff_step k sc (Ok st) (length pre, (l, ins))) as [st1|e] eqn:E.
    + apply (IH (pre ++ [(l, ins)]) st1 st').
      * rewrite <- app_assoc. exact Hn.
      * rewrite app_length. simpl. rewrite Nat.add_1_r.
        apply (diff_step_inv st (length pre) l ins st1 HI); auto.
        rewrite Hn, nth_error_app2, Nat.sub_diag by lia. reflexivity.
      * rewrite app_length. simpl. rewrite Nat.add_1_r. exact Hf.
    + rewrite diff_fold_err in Hf. discriminate Hf.
Qed.
End DiffInv.

(* ================================================================== *)
(* 4. The result-structure theorem                                      *)
(* ================================================================== *)
(* the outputs of the result contributed by output [o] of the operand *)
Definition diff_outs (tbl : list (list (nat * nat) * nat)) (o : nat) : list nat :=
  let '(ds, s) := nth o tbl ([], 0) in map snd ds ++ [s].

Lemma flat_map_length_sum {A B} (f : A -> list B) l :
  length (flat_map f l) = list_sum (map (fun x => length (f x)) l).
Proof. induction l as [|x l IH]; simpl; auto. rewrite app_length, IH. reflexivity. Qed.

Lemma list_sum_ext_in {A} (f g : A -> nat) l :
  (forall x, In x l -> f x = g x) -> list_sum (map f l) = list_sum (map g l).
Proof. intros H. f_equal. apply map_ext_in. exact H. Qed.

Theorem differentiate_invariant k c c' :
  wf c = true -> differentiate_m k c = Ok c' ->
  exists tbl,
    Inv c (nodes c') tbl (length (nodes c)) /\
    outs c' = flat_map (diff_outs tbl) (outs c).
Proof.
  intros Hwf H. destruct (differentiate_ok k c c' H) as (Hsm & Hde & _).
  rewrite differentiate_unfold in H.
  destruct (negb (is_smooth c && is_decomposable c)); [discriminate H|].
  destruct (k =? 0); [discriminate H|].
  destruct (fold_left _ _ _) as [st|e] eqn:Hf; [|discriminate H].
  unfold rbind in H. inversion H; subst c'. cbn [nodes outs].
  exists (dtbl st). split; [|reflexivity].
  apply (diff_fold_inv k c Hwf Hsm Hde (nodes c) [] {| dnodes := []; dtbl := [] |} st);
    auto. apply Inv_nil.
Qed.

(* the key invariant, stated on the result: every output of the result has the scope of the
   output of the operand it comes from *)
Lemma diff_outs_scope c ns tbl o x :
  Inv c ns tbl (length (nodes c)) -> o < length (nodes c) -> In x (diff_outs tbl o) ->
  x < length ns /\ nth x (scopes_from ns []) [] = nth o (scopes c) [].
Proof.
  intros HI Ho Hx. unfold diff_outs in Hx.
  pose proof (inv_self _ _ _ _ HI o Ho) as Hs. pose proof (inv_diffs _ _ _ _ HI o Ho) as Hd.
  destruct (nth o tbl ([], 0)) as [ds s]. simpl in Hs, Hd.
  apply in_app_iff in Hx. destruct Hx as [Hx|[Hx|[]]].
  - apply in_map_iff in Hx. destruct Hx as [[v d] [E Hin]]. simpl in E. subst d.
    exact (Hd v x Hin).
  - subst x. exact Hs.
Qed.

Lemma diff_outs_length c ns tbl o :
  Inv c ns tbl (length (nodes c)) -> o < length (nodes c) ->
  length (diff_outs tbl o) = length (nth o (scopes c) []) + 1.
Proof.
  intros HI Ho. unfold diff_outs. pose proof (inv_vars _ _ _ _ HI o Ho) as Hv.
  destruct (nth o tbl ([], 0)) as [ds s]. simpl in Hv.
  rewrite app_length, map_length, <- Hv, map_length. reflexivity.
Qed.

Lemma diff_outs_self tbl o : In (snd (nth o tbl ([], 0))) (diff_outs tbl o).
Proof.
  unfold diff_outs. destruct (nth o tbl ([], 0)) as [ds s]. simpl.
  apply in_app_iff. right. left. reflexivity.
Qed.

(* strong form: the scope is literally the same list, and the result is well-scoped *)
Theorem differentiate_structure_eq k c c' :
  wf c = true ->
  differentiate_m k c = Ok c' ->
  is_smooth c' = true /\ is_decomposable c' = true /\
  cscope c' = cscope c /\
  length (outs c') = list_sum (map (fun o => length (nth o (scopes c) []) + 1) (outs c)) /\
  (forall o, In o (outs c') -> o < length (nodes c')) /\
  wsc c'.
Proof.
  intros Hwf H. destruct (differentiate_invariant k c c' Hwf H) as [tbl [HI Ho]].
  pose proof (wf_outs c Hwf) as Hout.
  assert (Hsc : scopes c' = scopes_from (nodes c') []) by reflexivity.
  split; [|split; [|split; [|split; [|split]]]].
  - apply smooth_iff'. intros i l ins Hn Hl j Hj v. rewrite Hsc.
    rewrite (inv_smooth _ _ _ _ HI i l ins Hn Hl j Hj). tauto.
  - rewrite is_decomposable_unfold. apply forallb_forall. intros [l ins] Hin. unfold dec_at.
    destruct (is_prod l) eqn:Hp; auto. rewrite Hsc. apply (inv_dec _ _ _ _ HI l ins Hin Hp).
  - unfold cscope. apply sunions_ext. intros s. rewrite !in_map_iff. split.
    + intros [x [E Hx]]. rewrite Ho in Hx. apply in_flat_map in Hx.
      destruct Hx as [o [Hin Hx]]. exists o. split; auto.
      destruct (diff_outs_scope c _ _ o x HI (Hout o Hin) Hx) as [_ Hs].
      rewrite <- E, Hsc. symmetry. exact Hs.
    + intros [o [E Hin]]. exists (snd (nth o tbl ([], 0))). split.
      * destruct (diff_outs_scope c _ _ o _ HI (Hout o Hin) (diff_outs_self tbl o)) as [_ Hs].
        rewrite Hsc, Hs. exact E.
      * rewrite Ho. apply in_flat_map. exists o. split; auto. apply diff_outs_self.
  - rewrite Ho, flat_map_length_sum. apply list_sum_ext_in. intros o Hin.
    apply (diff_outs_length c _ _ o HI (Hout o Hin)).
  - intros x Hx. rewrite Ho in Hx. apply in_flat_map in Hx. destruct Hx as [o [Hin Hx]].
    apply (diff_outs_scope c _ _ o x HI (Hout o Hin) Hx).
  - intros i l ins Hn x Hx. exact (inv_bound _ _ _ _ HI i l ins Hn x Hx).
Qed.

(* every output of the result has the scope of the output of the operand it stands for:
   the j-th block of outputs (derivatives w.r.t. the variables of output [o], then the copy) *)
Theorem differentiate_output_scopes k c c' :
  wf c = true -> differentiate_m k c = Ok c' ->
  exists blocks : list (list nat),
    outs c' = concat blocks /\
    Forall2 (fun o b => length b = length (nth o (scopes c) []) + 1 /\
                        forall x, In x b -> nth x (scopes c') [] = nth o (scopes c) [])
            (outs c) blocks.
Proof.
  intros Hwf H. destruct (differentiate_invariant k c c' Hwf H) as [tbl [HI Ho]].
  pose proof (wf_outs c Hwf) as Hout.
  exists (map (diff_outs tbl) (outs c)). split.
  - rewrite Ho. apply flat_map_concat_map.
  - apply Forall2_map_r. intros o Hin. split.
    + apply (diff_outs_length c _ _ o HI (Hout o Hin)).
    + intros x Hx. apply (diff_outs_scope c _ _ o x HI (Hout o Hin) Hx).
Qed.

Theorem differentiate_structure k c c' :
  wf c = true ->
  differentiate_m k c = Ok c' ->
  is_smooth c' = true /\ is_decomposable c' = true /\
  Circ.sameset (cscope c') (cscope c) /\
  length (outs c') = list_sum (map (fun o => length (nth o (scopes c) []) + 1) (outs c)) /\
  (forall o, In o (outs c') -> o < length (nodes c')).
Proof.
  intros Hwf H.
  destruct (differentiate_structure_eq k c c' Hwf H) as (H1 & H2 & H3 & H4 & H5 & _).
  repeat split; auto; rewrite H3; auto.
Qed.

(* ================================================================== *)
(* 5. Concrete checks: the statement on a small circuit; [wf] is needed *)
(* ================================================================== *)
Definition dcheck (k : nat) (c : circuit) : option (bool * bool * bool * bool * bool) :=
  match differentiate_m k c with
  | Ok c' => Some (is_smooth c', is_decomposable c', seqb (cscope c') (cscope c),
       length (outs c') =? list_sum (map (fun o => length (nth o (scopes c) []) + 1) (outs c)),
       forallb (fun o => o <? length (nodes c')) (outs c'))
  | Err _ => None
  end.
Definition tpoly (v : nat) : layer := LPoly v 1 2 (pconst0 1).
(* three variables, two Hadamard products over {0,1}, their sum, a product with variable 2;
   outputs of scopes {0,1}, {0,1,2} and {2} *)
Definition dex_wf : circuit :=
  mkC [(tpoly 0, []); (tpoly 1, []); (tpoly 2, []); (tpoly 0, []);
       (LHad 1 2, [0; 1]); (LHad 1 2, [3; 1]); (LSum 1 1 2 (pconst0 1), [4; 5]);
       (LHad 1 2, [6; 2])] [6; 7; 2].
Example dex_wf_ok : wf dex_wf = true /\ dcheck 1 dex_wf = Some (true, true, true, true, true)
                    /\ dcheck 3 dex_wf = Some (true, true, true, true, true).
Proof. vm_compute. auto. Qed.
(* without [wf]: a forward reference (node 1 reads node 2) has scope [] in [scopes] but the
   result reads the derivative block of node 0 instead, so the scope changes from [] to [0] *)
Definition dex_fwd : circuit := mkC [(tpoly 0, []); (LHad 1 1, [2]); (tpoly 1, [])] [1].
Example dex_fwd_scope_changes :
  wf dex_fwd = false /\ cscope dex_fwd = [] /\
  exists c', differentiate_m 1 dex_fwd = Ok c' /\ cscope c' = [0].
Proof. split; [reflexivity|]. split; [reflexivity|]. eexists. split; vm_compute; reflexivity. Qed.
(* without [wf]: an output that is not a node yields the output 0 of an empty result *)
Definition dex_dangling : circuit := mkC [] [0].
Example dex_dangling_range :
  wf dex_dangling = false /\ differentiate_m 1 dex_dangling = Ok (mkC [] [0]).
Proof. split; vm_compute; reflexivity. Qed.

(* ================================================================== *)
(* Deliverables                                                         *)
(* ================================================================== *)
Check differentiate_invariant. Print Assumptions differentiate_invariant.
Check differentiate_structure_eq. Print Assumptions differentiate_structure_eq.
Check differentiate_output_scopes. Print Assumptions differentiate_output_scopes.
Check differentiate_structure. Print Assumptions differentiate_structure.
