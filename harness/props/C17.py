"""C17 — parameter initialisation follows the symbolic initialiser regardless of folding."""
import traceback

import numpy as np
import torch

from cirkit.symbolic import layers as L
from cirkit.symbolic import parameters as P
from cirkit.symbolic.circuit import Circuit
from cirkit.symbolic.dtypes import DataType
from cirkit.symbolic.initializers import ConstantTensorInitializer, DirichletInitializer, NormalInitializer, UniformInitializer
from cirkit.utils.scope import Scope

import evalc
import gen
from cases import CaseSet, rng_for, close

PID = "C17"
POOL = {"uniform": [], "normal": [], "dirichlet": []}   # standardised samples pooled over the run (moment tests at the end)


def rand_init(rng, shape, cplx=False):
    kind = rng.choice(["const", "array", "dirichlet", "dirichlet", "uniform", "normal"])
    rank = len(shape)
    if cplx:
        # complex data type: constants and arrays with non-zero imaginary parts
        if rng.random() < 0.5:
            v = complex(gen.dy(rng, 1, 8, 4), gen.dy(rng, -8, 8, 4))
            return "const", ConstantTensorInitializer(v), {"value": v}
        v = gen.dy_array(rng, shape, -8, 8, 4, cplx=True)
        return "array", ConstantTensorInitializer(v), {"value": v}
    if kind == "const":
        v = gen.dy(rng, 1, 8, 4)
        return kind, ConstantTensorInitializer(v), {"value": v}
    if kind == "array":
        v = gen.dy_array(rng, shape, 1, 8, 4)
        return kind, ConstantTensorInitializer(v), {"value": v}
    if kind == "dirichlet":
        ax = rng.randrange(rank)
        a = ax if rng.random() < 0.5 else ax - rank
        alpha = rng.choice([1.0, 0.5, [float(rng.choice([1, 2, 3])) for _ in range(shape[ax])]])
        return kind, DirichletInitializer(alpha, axis=a), {"axis": ax, "declared_axis": a, "alpha": alpha}
    if kind == "uniform":
        lo = gen.dy(rng, 0, 4, 4)
        hi = lo + gen.dy(rng, 1, 4, 4)
        return kind, UniformInitializer(lo, hi), {"a": lo, "b": hi}
    m, s = gen.dy(rng, -8, 8, 4), gen.dy(rng, 1, 4, 8)
    return kind, NormalInitializer(m, s), {"mean": m, "stddev": s}


def build(rng):
    """a circuit whose sum layers (same shapes, hence foldable) use differently initialised weights"""
    nv = rng.choice([2, 3, 4])
    K, Ko = rng.choice([2, 3]), rng.choice([2, 3])
    rank3_all = rng.random() < 0.4
    mixed = rng.random() < 0.3          # ranks differ inside one frontier: several fold groups
    D = rng.choice([2, 3])
    anyc = rng.random() < 0.25          # some tensors of complex data type
    layers, ins, leaves = [], {}, []
    sums = []
    for v in range(nv):
        il = L.EmbeddingLayer(Scope([v]), K, num_states=2, weight=P.Parameter.from_input(P.ConstantParameter(K, 2, value=1.0)))
        layers.append(il)
        rank3 = (rng.random() < 0.5) if mixed else rank3_all
        shape = (D, Ko, K) if rank3 else (Ko, K)
        cplx = anyc and rng.random() < 0.6
        kind, init, info = rand_init(rng, shape, cplx=cplx)
        learnable = rng.random() < 0.7
        t = P.TensorParameter(*shape, initializer=init, learnable=learnable, dtype=DataType.COMPLEX if cplx else DataType.REAL)
        info["complex"] = cplx
        leaves.append((t, kind, info, learnable))
        w = P.Parameter.from_unary(P.ReduceSumParameter(shape, axis=0), t) if rank3 else P.Parameter.from_input(t)
        sl = L.SumLayer(K, Ko, arity=1, weight=w)
        layers.append(sl)
        ins[sl] = [il]
        sums.append(sl)
    h = L.HadamardLayer(Ko, arity=nv)
    layers.append(h)
    ins[h] = sums
    # a Gaussian layer with rank-1 parameters as well
    return Circuit(layers, ins, [h]), leaves


def check_tensor(rep, desc, t, kind, info, learnable, val, when, pt):
    tag = {"case": desc, "when": when, "initializer": kind, "info": {k: (str(v.tolist()) if isinstance(v, np.ndarray) else str(v) if isinstance(v, complex) else v) for k, v in info.items()}}
    if tuple(val.shape) != tuple(t.shape):
        rep.violation("init-slice-shape", "the slice representing the parameter has the wrong shape", {**tag, "observed": list(val.shape)})
        return
    if bool(pt.requires_grad) != bool(learnable):
        rep.violation("init-requires-grad", "requires_grad does not match the learnable flag", {**tag, "observed": bool(pt.requires_grad)})
    if bool(np.iscomplexobj(val)) != bool(info.get("complex")):
        rep.violation("init-dtype", "the compiled tensor does not have the data type declared by the symbolic parameter",
                      {**{k_: v_ for k_, v_ in tag.items() if k_ != "info"}, "observed": str(val.dtype), "declared_complex": bool(info.get("complex"))})
        return
    if kind in ("const", "array"):
        exp = np.broadcast_to(np.asarray(info["value"]), t.shape)
        if not np.array_equal(val, exp):
            rep.violation("init-constant-slice", "a constant / array initialiser was not copied exactly into the parameter's slice",
                          {**tag, "observed": str(val.tolist()), "expected": str(exp.tolist())})
    elif kind == "dirichlet":
        s = val.sum(axis=info["axis"])
        if not np.allclose(s, 1.0, atol=1e-9) or np.any(val < 0):
            rep.violation("init-dirichlet-axis", "Dirichlet samples do not sum to one along the declared axis",
                          {**tag, "observed_sums": s.tolist()})
        else:
            al = info.get("alpha")
            n_ax = val.shape[info["axis"]]
            al = np.array(al if isinstance(al, list) else [al] * n_ax, dtype=float)
            a0 = al.sum()
            mean = al / a0
            sd = np.sqrt(al * (a0 - al) / (a0 * a0 * (a0 + 1)))
            x = np.moveaxis(val, info["axis"], -1)
            POOL["dirichlet"].extend(((x - mean) / sd).ravel().tolist())
    elif kind == "uniform":
        if np.any(val < info["a"]) or np.any(val > info["b"]):
            rep.violation("init-uniform-bounds", "uniform samples outside [a, b]", {**tag, "observed": val.tolist()})
        POOL["uniform"].extend(((val - info["a"]) / (info["b"] - info["a"])).ravel().tolist())
    elif kind == "normal":
        z = (val - info["mean"]) / info["stddev"]
        if np.any(np.abs(z) > 7.0):
            rep.violation("init-normal-moments", "normal samples more than 7 standard deviations from the mean", {**tag, "observed": val.tolist()})
        POOL["normal"].extend(z.ravel().tolist())


def one_case(rep, cs, seed, i):
    rng = rng_for(seed, PID, i)
    torch.manual_seed(seed * 7919 + i)
    sc, leaves = build(rng)
    fold, opt = rng.choice(evalc.FLAGS)
    desc = {"i": i, "seed": seed, "fold": fold, "opt": opt, "inits": [k for _, k, _, _ in leaves], "shape": list(leaves[0][0].shape)}
    rep.case(desc, True)
    for _, k, _, _ in leaves:
        rep.count("init:" + k)
    rep.count(f"flags:{int(fold)}{int(opt)}")
    rep.count(f"rank:{len(leaves[0][0].shape)}")
    try:
        ctx = evalc.make_ctx("complex-lse-sum" if any(info.get("complex") for _, _, info, _ in leaves) else "sum-product", fold, opt)
        cc = ctx.compile(sc)
        state = ctx._compiler.state
        prev = {}
        sem_used = "complex-lse-sum" if any(info.get("complex") for _, _, info, _ in leaves) else "sum-product"
        for when in ("compile", "reset-1", "reset-after-update"):
            if when == "reset-after-update":
                with torch.no_grad():   # a training-like in-place change of every tensor, then reset
                    for p_ in cc.parameters():
                        p_.add_(torch.tensor(gen.dy(rng, 1, 3, 16), dtype=p_.dtype))
            if when != "compile":
                cc.reset_parameters()
            for t, kind, info, learnable in leaves:
                pt, k = state.retrieve_compiled_parameter(t)
                val = pt._ptensor.detach()[k].numpy().copy()
                check_tensor(rep, desc, t, kind, info, learnable, val, when, pt._ptensor)
                if kind in ("uniform", "normal", "dirichlet") and id(t) in prev and np.array_equal(prev[id(t)], val) and val.size > 1:
                    rep.violation("reset-not-resampled", "reset_parameters did not redraw a random initialiser", {"case": desc, "initializer": kind})
                prev[id(t)] = val
        # correspondence: the axis the model says is normalised is an axis along which the stored slice sums to one
        dl = [(t, info) for t, kind, info, _ in leaves if kind == "dirichlet"]
        if dl:
            obs = []
            for t, info in dl:
                pt, k = state.retrieve_compiled_parameter(t)
                val = pt._ptensor.detach()[k].numpy()
                obs.append([ax for ax in range(val.ndim) if np.allclose(val.sum(axis=ax), 1.0, atol=1e-9)])
            term = "[" + "; ".join(f"Z.to_nat (simplex_axis ({info['declared_axis']}) ({len(t.shape)}))" for t, info in dl) + "]"

            def interp(res, desc=desc, obs=obs, dl=dl):
                for r, o, (t, info) in zip(res, obs, dl):
                    if r not in o:
                        rep.violation("init-axis-corr", "the axis predicted by the model (Init.simplex_axis) is not an axis along which the parameter's slice sums to one",
                                      {"case": desc, "model_axis": r, "observed_axes": o, "declared_axis": info["declared_axis"]}, found_input=False)

            cs.items.append((desc, term, interp))
    except Exception as e:
        rep.violation("init-exception:" + type(e).__name__, "compiling / resetting raised",
                      {"case": desc, "exception": repr(e)[:300], "traceback": traceback.format_exc()[-1500:]})


def run(rep, tier, seed, replay=None):
    n = 300 if tier == "quick" else 5000
    cs = CaseSet(rep, PID)
    if replay is not None:
        c = replay["replay"].get("case", {})
        one_case(rep, cs, c.get("seed", seed), c.get("i", 0))
        cs.run()
        return
    for i in range(n):
        one_case(rep, cs, seed, i)
    cs.run(shard=max(20, 300 // 10))  # shard size of the quick tier: thorough runs use more files, not longer ones
    # pooled moment tests (6-sigma thresholds: false-alarm probability below 1e-8)
    z = np.array(POOL["normal"])
    if z.size >= 200:
        if abs(z.mean()) > 6 / np.sqrt(z.size) or abs(z.var() - 1) > 6 * np.sqrt(2 / z.size):
            rep.violation("init-normal-pooled-moments", "pooled normal initialisations do not have the declared mean / standard deviation",
                          {"n": int(z.size), "mean_z": float(z.mean()), "var_z": float(z.var())})
    u = np.array(POOL["uniform"])
    if u.size >= 200:
        if abs(u.mean() - 0.5) > 6 * np.sqrt(1 / (12 * u.size)) or abs(u.var() - 1 / 12) > 6 * np.sqrt(1 / (180 * u.size)):
            rep.violation("init-uniform-pooled-moments", "pooled uniform initialisations are not uniform on [a, b]",
                          {"n": int(u.size), "mean_u": float(u.mean()), "var_u": float(u.var())})
    d = np.array(POOL["dirichlet"])
    if d.size >= 400:
        # components of one draw are dependent: use a loose 8-sigma bound on the pooled standardised mean
        if abs(d.mean()) > 8 / np.sqrt(d.size):
            rep.violation("init-dirichlet-pooled-mean", "pooled Dirichlet initialisations do not have the means alpha_i / sum(alpha)",
                          {"n": int(d.size), "mean_z": float(d.mean())})
    rep.count(f"pooled-dirichlet:{d.size}")
    rep.count(f"pooled-normal:{z.size}")
    rep.count(f"pooled-uniform:{u.size}")
