(* OpsSimple.v — evidence, conjugate and concatenate on semantic circuits (Circ.v) and their
   specifications, proved for all circuits over an abstract commutative semiring. *)
From Coq Require Import List Lia Ring Ring_theory Bool Arith.
Import ListNotations.
From CK Require Import Base Circ.

Local Arguments NIn {R D} i.
Local Arguments NSum {R D} W ins.
Local Arguments NHad {R D} ins.
Local Arguments NKron {R D} ins.
Local Arguments Build_inp {R D} iscope iunits ifun.
Local Arguments iscope {R D} i.
Local Arguments iunits {R D} i.
Local Arguments ifun {R D} i _.

Section OpsSimple.
Variable R : Type.
Variables (rO rI : R) (radd rmul : R -> R -> R).
Hypothesis Rth : semi_ring_theory rO rI radd rmul (@eq R).
Add Ring Rring : Rth.
Infix "+" := radd. Infix "*" := rmul.
Notation "0" := rO. Notation "1" := rI.
Variable D : Type.
Notation asg := (asg D).
Notation vec := (vec R).
Notation dot := (dot R rO radd rmul).
Notation had := (had R rmul).
Notation kron := (kron R rmul).
Notation scale := (scale R rmul).
Notation dep_on := (dep_on R D).
Notation agree := (agree D).
Notation inp := (inp R D).
Notation node := (node R D).
Notation circuit := (circuit R D).
Notation get := (get R).
Notation hadn := (hadn R rmul).
Notation kronn := (kronn R rmul).
Notation eval := (eval R rO radd rmul D).
Notation eval_from := (eval_from R rO radd rmul D).
Notation eval_node := (eval_node R rO radd rmul D).
Notation node_scope := (node_scope R D).
Notation scopes := (scopes R D).
Notation scopes_from := (scopes_from R D).

(* ================================================================= *)
(* generic: node-wise rewriting that preserves eval_node              *)
(* ================================================================= *)
Lemma eval_from_map_ext (f : node -> node) (y y' : asg) (ns : circuit) :
  (forall n, In n ns -> forall vals, eval_node (f n) y vals = eval_node n y' vals) ->
  forall acc, eval_from (map f ns) y acc = eval_from ns y' acc.
Proof.
  induction ns as [|n ns IH]; intros H acc; simpl; [reflexivity|].
  rewrite (H n) by (simpl; auto). apply IH. intros m Hm. apply H. simpl; auto.
Qed.

(* ================================================================= *)
(* (1) EVIDENCE                                                       *)
(* ================================================================= *)
Definition obs_t := list (nat * D).
Fixpoint lookup (u : nat) (obs : obs_t) : option D :=
  match obs with
  | [] => None
  | (v, d) :: r => if Nat.eqb u v then Some d else lookup u r
  end.
Definition override (y : asg) (obs : obs_t) : asg :=
  fun u => match lookup u obs with Some d => d | None => y u end.
Definition ev_inp (obs : obs_t) (i : inp) : inp :=
  {| iscope := filter (fun v => negb (mem v (map fst obs))) (iscope i);
     iunits := iunits i;
     ifun := fun y => ifun i (override y obs) |}.
Definition ev_node (obs : obs_t) (n : node) : node :=
  match n with
  | NIn i => if existsb (fun v => mem v (map fst obs)) (iscope i) then NIn (ev_inp obs i) else n
  | _ => n
  end.
Definition evidence (obs : obs_t) (c : circuit) : circuit := map (ev_node obs) c.

Lemma lookup_None u obs : ~ In u (map fst obs) -> lookup u obs = None.
Proof.
  induction obs as [|[v d] r IH]; simpl; intros H; [reflexivity|].
  destruct (Nat.eqb_spec u v) as [->|Hne]; [exfalso; apply H; auto|].
  apply IH. intros Hin; apply H; auto.
Qed.
Lemma override_unobserved y obs u : ~ In u (map fst obs) -> override y obs u = y u.
Proof. intros H. unfold override. rewrite lookup_None by exact H. reflexivity. Qed.
Lemma untouched_agree obs S y :
  existsb (fun v => mem v (map fst obs)) S = false -> agree S y (override y obs).
Proof.
  intros He u Hu. symmetry. apply override_unobserved. intros Hin.
  assert (existsb (fun v => mem v (map fst obs)) S = true); [|congruence].
  apply existsb_exists. exists u. split; [exact Hu | apply mem_In; exact Hin].
Qed.

(* vector-level dependence: what the proof really uses *)
Definition vdep (i : inp) := forall y y', agree (iscope i) y y' -> ifun i y = ifun i y'.

Lemma vdep_of_nth (i : inp) :
  (forall y, length (ifun i y) = iunits i) ->
  (forall k, dep_on (iscope i) (fun y => nth k (ifun i y) 0)) -> vdep i.
Proof.
  intros HL Hd y y' Ha. apply (list_eq_nth0 R rO).
  - rewrite !HL. reflexivity.
  - intros k. exact (Hd k y y' Ha).
Qed.

Lemma ev_node_eval obs n y vals :
  (forall i, n = NIn i -> vdep i) ->
  eval_node (ev_node obs n) y vals = eval_node n (override y obs) vals.
Proof.
  intros H. destruct n as [i|W ins|ins|ins]; simpl; try reflexivity.
  destruct (existsb (fun v => mem v (map fst obs)) (iscope i)) eqn:E; simpl; [reflexivity|].
  apply (H i eq_refl). apply untouched_agree. exact E.
Qed.

Theorem evidence_correct_vdep obs c :
  forall (Hdep : forall i, In (NIn i) c -> vdep i),
  forall y, eval (evidence obs c) y = eval c (override y obs).
Proof.
  intros Hdep y. unfold evidence, Circ.eval. apply eval_from_map_ext.
  intros n Hn vals. apply ev_node_eval. intros i ->. apply Hdep. exact Hn.
Qed.

Theorem evidence_correct obs c :
  forall (Hlen : forall i, In (NIn i) c -> forall y, length (ifun i y) = iunits i)
         (Hdep : forall i, In (NIn i) c -> forall k, dep_on (iscope i) (fun y => nth k (ifun i y) 0)),
  forall y, eval (evidence obs c) y = eval c (override y obs).
Proof.
  intros Hlen Hdep. apply evidence_correct_vdep. intros i Hi.
  apply vdep_of_nth; [apply Hlen | apply Hdep]; exact Hi.
Qed.

(* every output of the conditioned circuit, indexwise *)
Corollary evidence_correct_nth obs c :
  forall (Hlen : forall i, In (NIn i) c -> forall y, length (ifun i y) = iunits i)
         (Hdep : forall i, In (NIn i) c -> forall k, dep_on (iscope i) (fun y => nth k (ifun i y) 0)),
  forall y o, nth o (eval (evidence obs c) y) [] = nth o (eval c (override y obs)) [].
Proof. intros Hlen Hdep y o. rewrite (evidence_correct obs c Hlen Hdep). reflexivity. Qed.

(* --- scopes --- *)
Lemma filter_concat {A} (p : A -> bool) (ls : list (list A)) :
  filter p (concat ls) = concat (map (filter p) ls).
Proof.
  induction ls as [|l ls IH]; simpl; [reflexivity|].
  rewrite filter_app, IH. reflexivity.
Qed.
Lemma filter_all_true {A} (p : A -> bool) (l : list A) :
  (forall x, In x l -> p x = true) -> filter p l = l.
Proof.
  induction l as [|a l IH]; simpl; intros H; [reflexivity|].
  rewrite (H a) by auto. f_equal. apply IH. intros; apply H; auto.
Qed.
Lemma nth_map_filter (p : nat -> bool) (sc : list (list nat)) j :
  nth j (map (filter p) sc) [] = filter p (nth j sc []).
Proof. change (@nil nat) with (filter p []) at 1. apply map_nth. Qed.

Lemma ev_node_scope obs n sc :
  node_scope (ev_node obs n) (map (filter (fun v => negb (mem v (map fst obs)))) sc)
  = filter (fun v => negb (mem v (map fst obs))) (node_scope n sc).
Proof.
  set (p := fun v => negb (mem v (map fst obs))).
  assert (Hinner : forall ins, concat (map (fun j => nth j (map (filter p) sc) []) ins)
                               = filter p (concat (map (fun j => nth j sc []) ins))).
  { intros ins. rewrite filter_concat, map_map. f_equal. apply map_ext. intros j. apply nth_map_filter. }
  destruct n as [i|W ins|ins|ins]; simpl; try apply Hinner.
  destruct (existsb (fun v => mem v (map fst obs)) (iscope i)) eqn:E; simpl; [reflexivity|].
  symmetry. apply filter_all_true. intros x Hx. unfold p.
  destruct (mem x (map fst obs)) eqn:Em; [|reflexivity]. exfalso.
  assert (existsb (fun v => mem v (map fst obs)) (iscope i) = true); [|congruence].
  apply existsb_exists. exists x. split; assumption.
Qed.

Lemma evidence_scopes_from obs ns acc :
  scopes_from (evidence obs ns) (map (filter (fun v => negb (mem v (map fst obs)))) acc)
  = map (filter (fun v => negb (mem v (map fst obs)))) (scopes_from ns acc).
Proof.
  revert acc; induction ns as [|n ns IH]; intros acc; simpl; [reflexivity|].
  rewrite ev_node_scope.
  change [filter (fun v => negb (mem v (map fst obs))) (node_scope n acc)]
    with (map (filter (fun v => negb (mem v (map fst obs)))) [node_scope n acc]).
  rewrite <- map_app. apply IH.
Qed.

Theorem evidence_scopes obs c :
  scopes (evidence obs c) = map (filter (fun v => negb (mem v (map fst obs)))) (scopes c).
Proof. unfold Circ.scopes. exact (evidence_scopes_from obs c []). Qed.

(* ================================================================= *)
(* (2) CONJUGATE                                                      *)
(* ================================================================= *)
Variable conj : R -> R.
Hypothesis conj_add : forall a b, conj (a + b) = conj a + conj b.
Hypothesis conj_mul : forall a b, conj (a * b) = conj a * conj b.
Hypothesis conj_0 : conj 0 = 0.
Hypothesis conj_1 : conj 1 = 1.

Definition cj_inp (i : inp) : inp :=
  {| iscope := iscope i; iunits := iunits i; ifun := fun y => map conj (ifun i y) |}.
Definition cj_node (n : node) : node :=
  match n with
  | NIn i => NIn (cj_inp i)
  | NSum W ins => NSum (map (map conj) W) ins
  | NHad ins => NHad ins
  | NKron ins => NKron ins
  end.
Definition conjugate (c : circuit) : circuit := map cj_node c.

Lemma dot_conj a b : dot (map conj a) (map conj b) = conj (dot a b).
Proof.
  revert b; induction a as [|x a IH]; intros [|z b]; simpl; try (symmetry; exact conj_0).
  rewrite IH, conj_add, conj_mul. reflexivity.
Qed.
Lemma had_conj a b : had (map conj a) (map conj b) = map conj (had a b).
Proof.
  revert b; induction a as [|x a IH]; intros [|z b]; simpl; try reflexivity.
  rewrite IH, conj_mul. reflexivity.
Qed.
Lemma scale_conj a b : scale (conj a) (map conj b) = map conj (scale a b).
Proof.
  unfold Base.scale. rewrite !map_map. apply map_ext. intros x. symmetry. apply conj_mul.
Qed.
Lemma kron_conj a b : kron (map conj a) (map conj b) = map conj (kron a b).
Proof.
  unfold Base.kron. induction a as [|x a IH]; simpl; [reflexivity|].
  rewrite map_app, IH, scale_conj. reflexivity.
Qed.
Lemma concat_conj (l : list vec) : concat (map (map conj) l) = map conj (concat l).
Proof. symmetry. apply concat_map. Qed.
Lemma get_conj vals j : get (map (map conj) vals) j = map conj (get vals j).
Proof. unfold Circ.get. change (@nil R) with (map conj []) at 1. apply map_nth. Qed.
Lemma gets_conj vals ins : map (get (map (map conj) vals)) ins = map (map conj) (map (get vals) ins).
Proof. rewrite map_map. apply map_ext. intros j. apply get_conj. Qed.
Lemma fold_had_conj vs v :
  fold_left had (map (map conj) vs) (map conj v) = map conj (fold_left had vs v).
Proof. revert v; induction vs as [|a vs IH]; intros v; simpl; [reflexivity|]. rewrite had_conj. apply IH. Qed.
Lemma fold_kron_conj vs v :
  fold_left kron (map (map conj) vs) (map conj v) = map conj (fold_left kron vs v).
Proof. revert v; induction vs as [|a vs IH]; intros v; simpl; [reflexivity|]. rewrite kron_conj. apply IH. Qed.
Lemma hadn_conj xs : hadn (map (map conj) xs) = map conj (hadn xs).
Proof. destruct xs as [|v vs]; simpl; [reflexivity | apply fold_had_conj]. Qed.
Lemma kronn_conj xs : kronn (map (map conj) xs) = map conj (kronn xs).
Proof. destruct xs as [|v vs]; simpl; [reflexivity | apply fold_kron_conj]. Qed.

Lemma cj_node_eval n y vals :
  eval_node (cj_node n) y (map (map conj) vals) = map conj (eval_node n y vals).
Proof.
  destruct n as [i|W ins|ins|ins]; simpl.
  - reflexivity.
  - rewrite gets_conj, concat_conj, !map_map. apply map_ext. intros w. apply dot_conj.
  - rewrite gets_conj. apply hadn_conj.
  - rewrite gets_conj. apply kronn_conj.
Qed.

Lemma conjugate_eval_from ns y acc :
  eval_from (conjugate ns) y (map (map conj) acc) = map (map conj) (eval_from ns y acc).
Proof.
  revert acc; induction ns as [|n ns IH]; intros acc; simpl; [reflexivity|].
  rewrite cj_node_eval.
  change [map conj (eval_node n y acc)] with (map (map conj) [eval_node n y acc]).
  rewrite <- map_app. apply IH.
Qed.

Theorem conjugate_correct c y : eval (conjugate c) y = map (map conj) (eval c y).
Proof. unfold Circ.eval. exact (conjugate_eval_from c y []). Qed.

Corollary conjugate_involutive :
  forall (conj_inv : forall x, conj (conj x) = x),
  forall c y, eval (conjugate (conjugate c)) y = eval c y.
Proof.
  intros conj_inv c y. rewrite !conjugate_correct, map_map.
  rewrite <- (map_id (eval c y)) at 2. apply map_ext. intros v.
  rewrite map_map. rewrite <- (map_id v) at 2. apply map_ext. exact conj_inv.
Qed.

Corollary conjugate_real c :
  forall (HW : forall W ins, In (NSum W ins) c -> map (map conj) W = W)
         (HI : forall i, In (NIn i) c -> forall y, map conj (ifun i y) = ifun i y),
  forall y, eval (conjugate c) y = eval c y.
Proof.
  intros HW HI y. unfold conjugate, Circ.eval. apply eval_from_map_ext.
  intros n Hn vals. destruct n as [i|W ins|ins|ins]; simpl; try reflexivity.
  - apply HI. exact Hn.
  - rewrite (HW W ins Hn). reflexivity.
Qed.

(* scopes and units are untouched by conjugation *)
Lemma conjugate_scopes c : scopes (conjugate c) = scopes c.
Proof.
  unfold Circ.scopes. generalize (@nil (list nat)) as acc.
  induction c as [|n c IH]; intros acc; simpl; [reflexivity|].
  rewrite IH. destruct n; reflexivity.
Qed.

(* ================================================================= *)
(* (3) CONCATENATE                                                    *)
(* ================================================================= *)
Definition shift (k : nat) (n : node) : node :=
  match n with
  | NIn i => NIn i
  | NSum W ins => NSum W (map (Nat.add k) ins)
  | NHad ins => NHad (map (Nat.add k) ins)
  | NKron ins => NKron (map (Nat.add k) ins)
  end.
Definition concat2 (c1 c2 : circuit) : circuit := c1 ++ map (shift (length c1)) c2.
Definition concat_all (cs : list circuit) : circuit := fold_left concat2 cs [].

Definition node_inputs (n : node) : list nat :=
  match n with NIn _ => [] | NSum _ ins | NHad ins | NKron ins => ins end.
Definition dflt : node := NHad [].
Definition wsc (c : circuit) : Prop :=
  forall i, i < length c -> forall j, In j (node_inputs (nth i c dflt)) -> j < i.

Lemma gets_shift (P vals : list vec) ins :
  map (get (P ++ vals)) (map (Nat.add (length P)) ins) = map (get vals) ins.
Proof.
  rewrite map_map. apply map_ext. intros j. unfold Circ.get. apply app_nth2_plus.
Qed.
Lemma shift_eval (P vals : list vec) n y :
  eval_node (shift (length P) n) y (P ++ vals) = eval_node n y vals.
Proof. destruct n as [i|W ins|ins|ins]; simpl; rewrite ?gets_shift; reflexivity. Qed.

Lemma shift_eval_from (P : list vec) ns y acc :
  eval_from (map (shift (length P)) ns) y (P ++ acc) = P ++ eval_from ns y acc.
Proof.
  revert acc; induction ns as [|n ns IH]; intros acc; simpl; [reflexivity|].
  rewrite shift_eval, <- app_assoc. apply IH.
Qed.

(* the wsc hypothesis is not needed: dangling/forward references read [] on both sides *)
Theorem concat2_correct_gen c1 c2 y : eval (concat2 c1 c2) y = eval c1 y ++ eval c2 y.
Proof.
  unfold concat2, Circ.eval. rewrite (eval_from_app R rO radd rmul D).
  fold (eval c1 y). rewrite <- (length_eval R rO radd rmul D c1 y).
  rewrite <- (app_nil_r (eval c1 y)) at 2. apply shift_eval_from.
Qed.

Theorem concat2_correct c1 c2 y :
  forall (Hwsc : wsc c2), eval (concat2 c1 c2) y = eval c1 y ++ eval c2 y.
Proof. intros _. apply concat2_correct_gen. Qed.

Lemma concat_all_from cs : forall c0 y,
  eval (fold_left concat2 cs c0) y = eval c0 y ++ concat (map (fun c => eval c y) cs).
Proof.
  induction cs as [|c cs IH]; intros c0 y; simpl; [rewrite app_nil_r; reflexivity|].
  rewrite IH, concat2_correct_gen, <- app_assoc. reflexivity.
Qed.

Theorem concat_all_correct_gen cs y : eval (concat_all cs) y = concat (map (fun c => eval c y) cs).
Proof. unfold concat_all. rewrite concat_all_from. reflexivity. Qed.

Theorem concat_all_correct cs y :
  forall (Hwsc : forall c, In c cs -> wsc c),
  eval (concat_all cs) y = concat (map (fun c => eval c y) cs).
Proof. intros _. apply concat_all_correct_gen. Qed.

(* concatenation preserves well-scopedness, so the result is again a legal operand *)
Lemma wsc_nil : wsc [].
Proof. intros i Hi. simpl in Hi. lia. Qed.
Lemma node_inputs_shift k n : node_inputs (shift k n) = map (Nat.add k) (node_inputs n).
Proof. destruct n; reflexivity. Qed.
Lemma wsc_concat2 c1 c2 : wsc c1 -> wsc c2 -> wsc (concat2 c1 c2).
Proof.
  intros H1 H2 i Hi j Hj. unfold concat2 in *. rewrite app_length, map_length in Hi.
  destruct (Nat.lt_ge_cases i (length c1)) as [Hlt|Hge].
  - rewrite app_nth1 in Hj by exact Hlt. exact (H1 i Hlt j Hj).
  - rewrite app_nth2 in Hj by exact Hge.
    assert (Hi2 : i - length c1 < length c2) by lia.
    rewrite (nth_indep _ dflt (shift (length c1) dflt)) in Hj by (rewrite map_length; exact Hi2).
    rewrite map_nth, node_inputs_shift in Hj. apply in_map_iff in Hj. destruct Hj as [j0 [<- Hj0]].
    specialize (H2 _ Hi2 j0 Hj0). lia.
Qed.
Lemma wsc_concat_all cs : (forall c, In c cs -> wsc c) -> wsc (concat_all cs).
Proof.
  unfold concat_all. assert (G : forall c0, wsc c0 -> (forall c, In c cs -> wsc c) -> wsc (fold_left concat2 cs c0)).
  { induction cs as [|c cs IH]; intros c0 H0 H; simpl; [exact H0|].
    apply IH; [apply wsc_concat2; [exact H0 | apply H; simpl; auto] | intros; apply H; simpl; auto]. }
  intros H. apply G; [apply wsc_nil | exact H].
Qed.

(* index form: output o of operand m sits at offset_m + o *)
Definition offset (cs : list circuit) (m : nat) : nat := length (concat (firstn m cs)).

Lemma nth_concat_offset {A} (ls : list (list A)) (d : A) : forall m o,
  o < length (nth m ls []) ->
  nth (length (concat (firstn m ls)) + o) (concat ls) d = nth o (nth m ls []) d.
Proof.
  induction ls as [|l ls IH]; intros m o Ho.
  - destruct m; simpl in Ho; lia.
  - destruct m as [|m]; simpl in *.
    + apply app_nth1. exact Ho.
    + rewrite app_length, <- Nat.add_assoc, app_nth2_plus. apply IH. exact Ho.
Qed.

Lemma length_concat_evals (cs : list circuit) y :
  length (concat (map (fun c => eval c y) cs)) = length (concat cs).
Proof.
  induction cs as [|c cs IH]; simpl; [reflexivity|].
  rewrite !app_length, IH, (length_eval R rO radd rmul D). reflexivity.
Qed.

Theorem concat_all_nth cs y m o :
  forall (Hwsc : forall c, In c cs -> wsc c) (Ho : o < length (nth m cs [])),
  nth (offset cs m + o) (eval (concat_all cs) y) [] = nth o (eval (nth m cs []) y) [].
Proof.
  intros _ Ho. rewrite concat_all_correct_gen. unfold offset.
  assert (Hn : nth m (map (fun c => eval c y) cs) [] = eval (nth m cs []) y)
    by exact (map_nth (fun c => eval c y) cs [] m).
  rewrite <- (length_concat_evals (firstn m cs) y), <- firstn_map.
  rewrite nth_concat_offset; rewrite Hn; [reflexivity|].
  rewrite (length_eval R rO radd rmul D). exact Ho.
Qed.

End OpsSimple.

Check evidence_correct.
Print Assumptions evidence_correct.
Check evidence_correct_vdep.
Print Assumptions evidence_correct_vdep.
Check evidence_scopes.
Print Assumptions evidence_scopes.
Check conjugate_correct.
Print Assumptions conjugate_correct.
Check conjugate_involutive.
Print Assumptions conjugate_involutive.
Check conjugate_real.
Print Assumptions conjugate_real.
Check concat2_correct.
Print Assumptions concat2_correct.
Check concat2_correct_gen.
Print Assumptions concat2_correct_gen.
Check concat_all_correct.
Print Assumptions concat_all_correct.
Check concat_all_correct_gen.
Print Assumptions concat_all_correct_gen.
Check concat_all_nth.
Print Assumptions concat_all_nth.
Check wsc_concat_all.
Print Assumptions wsc_concat_all.
