(* C06 — evidence and concatenate
   Property theorems only: each is closed by `exact <lemma>`; proofs live in the imported files. *)
From Coq Require Import List ZArith QArith Qcanon Ring_theory Field_theory Permutation Sorted.
Import ListNotations.
From CK Require Import Base.
From CK Require Import Circ.
From CK Require Import OpsSimple.
From CK Require Import Scalar.
From CK Require Import Tensor.
From CK Require Import Pexpr.
From CK Require Import Exec.
From CK Require Import Ops.
From CK Require Import Struct.
From CK Require Import Link.
From CK Require Import Link2.
Close Scope Qc_scope. Close Scope Q_scope. Close Scope Z_scope. Open Scope nat_scope.

(* the evidence circuit evaluated at y equals the original circuit evaluated at y overridden by the observation, for every circuit whose inputs depend only on their scope *)
Theorem C06_evidence :
  forall (R : Type) (rO : R) (radd rmul : R -> R -> R) (D : Type) (obs : obs_t D) (c : list (node R D)),
         (forall i : inp R D, In (NIn R D i) c -> forall y : Base.asg D, length (ifun R D i y) = iunits R D i) ->
         (forall i : inp R D,
          In (NIn R D i) c ->
          forall k : nat, dep_on R D (iscope R D i) (fun y : Base.asg D => nth k (ifun R D i y) rO)) ->
         forall y : Base.asg D,
         eval R rO radd rmul D (evidence R D obs c) y = eval R rO radd rmul D c (OpsSimple.override D y obs).
Proof. exact evidence_correct. Qed.
Print Assumptions C06_evidence.

(* every scope of the evidence circuit is the original scope minus the observed variables *)
Theorem C06_evidence_scope :
  forall (R D : Type) (obs : obs_t D) (c : Circ.circuit R D),
         Circ.scopes R D (evidence R D obs c) =
         map (filter (fun v : nat => negb (mem v (map fst obs)))) (Circ.scopes R D c).
Proof. exact evidence_scopes. Qed.
Print Assumptions C06_evidence_scope.

(* evaluating the concatenation yields the operands' values one after the other, in the given order *)
Theorem C06_concatenate :
  forall (R : Type) (rO : R) (radd rmul : R -> R -> R) (D : Type) (cs : list (Circ.circuit R D))
           (y : Base.asg D),
         (forall c : Circ.circuit R D, In c cs -> OpsSimple.wsc R D c) ->
         eval R rO radd rmul D (concat_all R D cs) y =
         concat (map (fun c : Circ.circuit R D => eval R rO radd rmul D c y) cs).
Proof. exact concat_all_correct. Qed.
Print Assumptions C06_concatenate.

(* output o of operand m is found at offset m + o and equals the operand evaluated alone *)
Theorem C06_concatenate_nth :
  forall (R : Type) (rO : R) (radd rmul : R -> R -> R) (D : Type) (cs : list (Circ.circuit R D))
           (y : Base.asg D) (m o : nat),
         (forall c : Circ.circuit R D, In c cs -> OpsSimple.wsc R D c) ->
         o < length (nth m cs []) ->
         nth (offset R D cs m + o) (eval R rO radd rmul D (concat_all R D cs) y) [] =
         nth o (eval R rO radd rmul D (nth m cs []) y) [].
Proof. exact concat_all_nth. Qed.
Print Assumptions C06_concatenate_nth.

(* EXECUTABLE level, every layer kind, no structural hypothesis: the circuit returned by evidence_m (model of cirkit.symbolic.functional.evidence) evaluated at y has, node by node, the values of the original circuit at y overridden by the observation *)
Theorem C06_evidence_executable :
  forall (obs : asg) (c c' : circuit) (y : asg),
         evidence_m obs c = Ok c' -> den_all c' y = den_all c (override obs y).
Proof. exact evidence_exec_den. Qed.
Print Assumptions C06_evidence_executable.

(* ... and on the algebraic fragment this is the semantic evidence operator of C06_evidence *)
Theorem C06_evidence_executable_semantic :
  forall (obs : asg) (c c' : circuit) (y : asg),
         frag c = true ->
         evidence_m obs c = Ok c' ->
         den_all c' y =
         (if inrange c (override obs y) then Some (SEval (SEvidence obs (interp c)) (afun y)) else None).
Proof. exact evidence_exec_sem. Qed.
Print Assumptions C06_evidence_executable_semantic.

(* EXECUTABLE level, every layer kind: the node values of concatenate_m cs are the operands' node values one after the other *)
Theorem C06_concatenate_executable :
  forall (cs : list circuit) (c' : circuit) (y : asg),
         concatenate_m cs = Ok c' ->
         den_all c' y = option_map (concat (A:=cvec)) (omap (fun c : circuit => den_all c y) cs).
Proof. exact concatenate_exec_den. Qed.
Print Assumptions C06_concatenate_executable.

(* the outputs of concatenate_m cs are the operands' outputs in order, provided each operand's outputs are valid node indices (sharp: Link2.Example2.ex_cat_sharp) *)
Theorem C06_concatenate_executable_outputs :
  forall (cs : list circuit) (c' : circuit) (y : asg),
         Forall outs_ok cs ->
         concatenate_m cs = Ok c' ->
         den c' y = option_map (concat (A:=cvec)) (omap (fun c : circuit => den c y) cs).
Proof. exact concatenate_exec_outs. Qed.
Print Assumptions C06_concatenate_executable_outputs.
