(* C05 — differentiate returns the partial derivatives in variable order
   Property theorems only: each is closed by `exact <lemma>`; proofs live in the imported files. *)
From Coq Require Import Reals.
From Coquelicot Require Import Coquelicot.
From Coq Require Import List ZArith QArith Qcanon Ring_theory Field_theory Permutation Sorted.
Import ListNotations.
From CK Require Import Base.
From CK Require Import Circ.
From CK Require Import Differentiate.
From CK Require Import DiffReal.
Close Scope Qc_scope. Close Scope Q_scope. Close Scope Z_scope. Open Scope nat_scope.

(* for any abstract (iterated) partial-derivative operator Dv satisfying linearity and the independent-factor rules, block (i,t) of the differentiated circuit evaluates to Dv (nth t vars) of node i and the copy evaluates to node i *)
Theorem C05_differentiate :
  forall (R : Type) (rO rI : R) (radd rmul : R -> R -> R),
         semi_ring_theory rO rI radd rmul eq ->
         forall (D : Type) (DF : (asg D -> R) -> Prop),
         (forall f g : asg D -> R, (forall y : asg D, f y = g y) -> DF f -> DF g) ->
         (forall c : R, DF (fun _ : asg D => c)) ->
         (forall f g : asg D -> R, DF f -> DF g -> DF (fun y : asg D => radd (f y) (g y))) ->
         (forall f g : asg D -> R, DF f -> DF g -> DF (fun y : asg D => rmul (f y) (g y))) ->
         forall Dv : nat -> (asg D -> R) -> asg D -> R,
         (forall (v : nat) (f g : asg D -> R),
          (forall y : asg D, f y = g y) -> forall y : asg D, Dv v f y = Dv v g y) ->
         (forall (v : nat) (f g : asg D -> R) (y : asg D),
          DF f -> DF g -> Dv v (fun y0 : asg D => radd (f y0) (g y0)) y = radd (Dv v f y) (Dv v g y)) ->
         (forall (v : nat) (c : R) (f : asg D -> R) (y : asg D),
          DF f -> Dv v (fun y0 : asg D => rmul c (f y0)) y = rmul c (Dv v f y)) ->
         (forall (v : nat) (S : list nat) (g f : asg D -> R),
          dep_on R D S g ->
          ~ In v S ->
          DF f -> forall y : asg D, Dv v (fun y0 : asg D => rmul (g y0) (f y0)) y = rmul (g y) (Dv v f y)) ->
         (forall (v : nat) (S : list nat) (f : asg D -> R),
          dep_on R D S f -> ~ In v S -> forall y : asg D, Dv v f y = rO) ->
         forall (vars : list nat) (c : circuit R D),
         ok R rO D c ->
         inputs_DF R rO D DF c ->
         forall (y : asg D) (i : nat),
         i < length c ->
         nth (cidx (length vars) i) (eval R rO radd rmul D (differentiate R rO D Dv vars c) y) [] =
         nth i (eval R rO radd rmul D c y) [] /\
         (forall t : nat,
          t < length vars ->
          forall k : nat,
          nth k (nth (didx (length vars) i t) (eval R rO radd rmul D (differentiate R rO D Dv vars c) y) []) rO =
          Dv (nth t vars 0) (fun y' : asg D => nth k (nth i (eval R rO radd rmul D c y') []) rO) y).
Proof. exact differentiate_correct. Qed.
Print Assumptions C05_differentiate.

(* the outputs attached to an output node are the derivatives w.r.t. exactly the variables of its scope, in the order of vars (increasing when vars is sorted), followed by the node itself *)
Theorem C05_outputs_sorted :
  forall (R : Type) (rO rI : R) (radd rmul : R -> R -> R),
         semi_ring_theory rO rI radd rmul eq ->
         forall (D : Type) (DF : (asg D -> R) -> Prop),
         (forall f g : asg D -> R, (forall y : asg D, f y = g y) -> DF f -> DF g) ->
         (forall c : R, DF (fun _ : asg D => c)) ->
         (forall f g : asg D -> R, DF f -> DF g -> DF (fun y : asg D => radd (f y) (g y))) ->
         (forall f g : asg D -> R, DF f -> DF g -> DF (fun y : asg D => rmul (f y) (g y))) ->
         forall Dv : nat -> (asg D -> R) -> asg D -> R,
         (forall (v : nat) (f g : asg D -> R),
          (forall y : asg D, f y = g y) -> forall y : asg D, Dv v f y = Dv v g y) ->
         (forall (v : nat) (f g : asg D -> R) (y : asg D),
          DF f -> DF g -> Dv v (fun y0 : asg D => radd (f y0) (g y0)) y = radd (Dv v f y) (Dv v g y)) ->
         (forall (v : nat) (c : R) (f : asg D -> R) (y : asg D),
          DF f -> Dv v (fun y0 : asg D => rmul c (f y0)) y = rmul c (Dv v f y)) ->
         (forall (v : nat) (S : list nat) (g f : asg D -> R),
          dep_on R D S g ->
          ~ In v S ->
          DF f -> forall y : asg D, Dv v (fun y0 : asg D => rmul (g y0) (f y0)) y = rmul (g y) (Dv v f y)) ->
         (forall (v : nat) (S : list nat) (f : asg D -> R),
          dep_on R D S f -> ~ In v S -> forall y : asg D, Dv v f y = rO) ->
         forall (vars : list nat) (c : circuit R D) (o : nat),
         ok R rO D c ->
         inputs_DF R rO D DF c ->
         o < length c ->
         (forall (y : asg D) (k : nat),
          map
            (fun idx : nat => nth k (nth idx (eval R rO radd rmul D (differentiate R rO D Dv vars c) y) []) rO)
            (outs R D vars c o) =
          map (fun v : nat => Dv v (fun y' : asg D => nth k (nth o (eval R rO radd rmul D c y') []) rO) y)
            (dvars vars (nth o (scopes R D c) [])) ++ [nth k (nth o (eval R rO radd rmul D c y) []) rO]) /\
         (forall v : nat,
          In v (dvars vars (nth o (scopes R D c) [])) <-> In v vars /\ In v (nth o (scopes R D c) [])) /\
         (StronglySorted lt vars -> StronglySorted lt (dvars vars (nth o (scopes R D c) []))).
Proof. exact differentiate_outputs. Qed.
Print Assumptions C05_outputs_sorted.

(* special case DF := all functions (the unconditional rules of the first version of this theorem) *)
Theorem C05_differentiate_total :
  forall (R : Type) (rO rI : R) (radd rmul : R -> R -> R),
         semi_ring_theory rO rI radd rmul eq ->
         forall (D : Type) (Dv : nat -> (asg D -> R) -> asg D -> R),
         (forall (v : nat) (f g : asg D -> R),
          (forall y : asg D, f y = g y) -> forall y : asg D, Dv v f y = Dv v g y) ->
         (forall (v : nat) (f g : asg D -> R) (y : asg D),
          Dv v (fun y0 : asg D => radd (f y0) (g y0)) y = radd (Dv v f y) (Dv v g y)) ->
         (forall (v : nat) (c : R) (f : asg D -> R) (y : asg D),
          Dv v (fun y0 : asg D => rmul c (f y0)) y = rmul c (Dv v f y)) ->
         (forall (v : nat) (S : list nat) (g f : asg D -> R),
          dep_on R D S g ->
          ~ In v S -> forall y : asg D, Dv v (fun y0 : asg D => rmul (g y0) (f y0)) y = rmul (g y) (Dv v f y)) ->
         (forall (v : nat) (S : list nat) (f : asg D -> R),
          dep_on R D S f -> ~ In v S -> forall y : asg D, Dv v f y = rO) ->
         forall (vars : list nat) (c : circuit R D),
         ok R rO D c ->
         forall (y : asg D) (i : nat),
         i < length c ->
         nth (cidx (length vars) i) (eval R rO radd rmul D (differentiate R rO D Dv vars c) y) [] =
         nth i (eval R rO radd rmul D c y) [] /\
         (forall t : nat,
          t < length vars ->
          forall k : nat,
          nth k (nth (didx (length vars) i t) (eval R rO radd rmul D (differentiate R rO D Dv vars c) y) []) rO =
          Dv (nth t vars 0) (fun y' : asg D => nth k (nth i (eval R rO radd rmul D c y') []) rO) y).
Proof. exact differentiate_correct_total. Qed.
Print Assumptions C05_differentiate_total.

(* INSTANCE over the real numbers (Coquelicot): for every ok circuit over R whose input functions are differentiable in each variable, block (i,t) of the differentiated circuit IS the partial derivative (is_derive: existence included) w.r.t. variable nth t vars of unit k of node i; uses the standard library's real-number axioms and functional extensionality (named in the trusted base) *)
Theorem C05_differentiate_real :
  forall (vars : list nat) (c : circuitR),
         ok R 0%R R c ->
         inputs_differentiable c ->
         forall (y : asgR) (i : nat),
         i < length c ->
         forall t : nat,
         t < length vars ->
         forall k : nat,
         is_derive
           (fun x : R_AbsRing => nth k (nth i (eval R 0%R Rplus Rmult R c (updR y (nth t vars 0) x)) []) 0%R)
           (y (nth t vars 0))
           (nth k (nth (didx (length vars) i t) (eval R 0%R Rplus Rmult R (differentiateR vars c) y) []) 0%R).
Proof. exact differentiate_real_is_derive. Qed.
Print Assumptions C05_differentiate_real.

(* ... stated with Coquelicot's total Derive *)
Theorem C05_differentiate_real_Derive :
  forall (vars : list nat) (c : circuitR),
         ok R 0%R R c ->
         inputs_differentiable c ->
         forall (y : asgR) (i : nat),
         i < length c ->
         forall t : nat,
         t < length vars ->
         forall k : nat,
         nth k (nth (didx (length vars) i t) (eval R 0%R Rplus Rmult R (differentiateR vars c) y) []) 0%R =
         Derive (fun x : R => nth k (nth i (eval R 0%R Rplus Rmult R c (updR y (nth t vars 0) x)) []) 0%R)
           (y (nth t vars 0)).
Proof. exact differentiate_real. Qed.
Print Assumptions C05_differentiate_real_Derive.

(* every unit of every node of such a circuit is differentiable in each variable *)
Theorem C05_circuits_differentiable :
  forall c : circuitR,
         ok R 0%R R c ->
         inputs_differentiable c ->
         forall i : nat,
         i < length c ->
         forall (k : nat) (y : asgR) (v : nat),
         ex_derive (fun x : R_AbsRing => nth k (nth i (eval R 0%R Rplus Rmult R c (updR y v x)) []) 0%R) (y v).
Proof. exact eval_differentiable. Qed.
Print Assumptions C05_circuits_differentiable.

(* non-vacuity: a quadratic polynomial input function meets the hypotheses, with derivative a1 + 2 a2 x *)
Theorem C05_polynomial_input_instance :
  forall (v : nat) (a0 a1 a2 : R) (y : asgR),
         is_derive (fun x : R_AbsRing => (a0 + a1 * updR y v x v + a2 * updR y v x v ^ 2)%R) 
           (y v) (a1 + 2 * a2 * y v)%R.
Proof. exact poly_is_derive. Qed.
Print Assumptions C05_polynomial_input_instance.
