From Coq Require Import List.
Theorem C12_placeholder : True. Proof. exact I. Qed.
Print Assumptions C12_placeholder.
