(* Link2.v — executable-level correctness of three more operators of Ops.v, stated directly on
   the executable denotation [den_all] / [den] (Exec.v):
     - evidence_m     (evidence_exec_den, for ALL layer kinds; semantic corollary on the fragment),
     - concatenate_m  (concatenate_exec_den / concatenate_exec_outs, for ALL layer kinds),
     - conjugate_m    (involution: conjugate_conjugate_den, for ALL layer kinds it accepts). *)
From Coq Require Import ZArith QArith Qcanon List Bool Arith Lia.
Import ListNotations.
From CK Require Import Base Circ OpsSimple Scalar Tensor Pexpr Exec Ops Struct OpsProps Link.
Close Scope Qc_scope. Close Scope Q_scope. Close Scope Z_scope. Open Scope nat_scope.

(* ================================================================== *)
(* 0. Generic facts about den_from                                      *)
(* ================================================================== *)
(* node-wise congruence with two (possibly different) assignments *)
Lemma den_from_ext2 ns ns' y y' :
  Forall2 (fun n n' => snd n = snd n' /\ forall xs, node_eval (fst n) y xs = node_eval (fst n') y' xs) ns ns' ->
  forall acc, den_from ns y acc = den_from ns' y' acc.
Proof.
  induction 1 as [|[l ins] [l' ins'] ns ns' [Hi Hn] _ IH]; intros acc; [reflexivity|].
  simpl in Hi, Hn. subst ins'. cbn [den_from]. rewrite Hn.
  destruct (node_eval l' y' (map (fun j => nth j acc []) ins)); [|reflexivity].
  cbn [obind]. apply IH.
Qed.

Lemma Forall2_map_l {A B} (P : B -> A -> Prop) (f : A -> B) l :
  (forall x, In x l -> P (f x) x) -> Forall2 P (map f l) l.
Proof. induction l as [|a l IH]; intros H; simpl; constructor; [apply H; simpl; auto | apply IH; intros; apply H; simpl; auto]. Qed.

Lemma den_from_app ns1 ns2 y : forall acc,
  den_from (ns1 ++ ns2) y acc = (do a <- den_from ns1 y acc; den_from ns2 y a).
Proof.
  induction ns1 as [|[l ins] ns1 IH]; intros acc; [reflexivity|].
  cbn [app den_from]. destruct (node_eval l y (map (fun j => nth j acc []) ins)); [|reflexivity].
  cbn [obind]. apply IH.
Qed.

Lemma den_from_length ns y : forall acc vals,
  den_from ns y acc = Some vals -> length vals = length acc + length ns.
Proof.
  induction ns as [|[l ins] ns IH]; intros acc vals H; cbn [den_from] in H.
  - inversion H; subst. cbn [length]. lia.
  - destruct (node_eval l y (map (fun j => nth j acc []) ins)); [|discriminate].
    cbn [obind] in H. apply IH in H. rewrite app_length in H. cbn [length] in *. lia.
Qed.

Lemma den_all_length c y vals : den_all c y = Some vals -> length vals = length (nodes c).
Proof. intros H. apply den_from_length in H. exact H. Qed.

(* ================================================================== *)
(* 1. EVIDENCE                                                          *)
(* ================================================================== *)
(* the observation is bound in front of the assignment: [lookup] returns the first binding,
   so observed variables read their observed value and all others are unchanged *)
Definition override (obs y : Exec.asg) : Exec.asg := obs ++ y.

Lemma lookup_override_in v obs y : In v (map fst obs) -> lookup v (override obs y) = lookup v obs.
Proof.
  unfold override. induction obs as [|[u x] r IH]; cbn [map fst In app lookup]; intros H; [contradiction|].
  destruct (Nat.eqb_spec u v) as [->|Hne]; [reflexivity|].
  apply IH. destruct H as [H|H]; [congruence | exact H].
Qed.
Lemma lookup_override_notin v obs y : ~ In v (map fst obs) -> lookup v (override obs y) = lookup v y.
Proof.
  unfold override. induction obs as [|[u x] r IH]; cbn [map fst In app lookup]; intros H; [reflexivity|].
  destruct (Nat.eqb_spec u v) as [->|Hne]; [exfalso; apply H; left; reflexivity|].
  apply IH. intros G. apply H. right. exact G.
Qed.

(* an input layer reads the assignment only at the variable of its scope *)
Lemma in_eval_dep l : forall y y',
  (forall v, In v (in_scope l) -> lookup v y = lookup v y') -> in_eval l y = in_eval l y'.
Proof.
  induction l as [v K N w|v K N lg p|v K n lg p|v K mu sd lp|v K dg cf|K lsp val|inner IH obs|Ki Ko ar w|Ki ar|Ki ar];
    intros y y' H; cbn [in_eval]; try reflexivity;
    try (rewrite (H v) by (left; reflexivity); reflexivity).
  destruct (peval obs) as [O|]; [|reflexivity]. cbn [obind].
  destruct (in_scope inner) as [|v [|w r]] eqn:E; try reflexivity.
  apply IH. intros u Hu. destruct Hu as [<-|[]]. cbn [lookup]. rewrite Nat.eqb_refl. reflexivity.
Qed.

Lemma in_scope_cases l : in_scope l = [] \/ exists v, in_scope l = [v] /\ forall y xs, node_eval l y xs = in_eval l y.
Proof. destruct l; cbn [in_scope]; auto; right; eexists; (split; [reflexivity|]); reflexivity. Qed.

Lemma node_eval_dep l y y' xs :
  (forall v, In v (in_scope l) -> lookup v y = lookup v y') -> node_eval l y xs = node_eval l y' xs.
Proof.
  intros H. destruct l; try reflexivity; cbn [node_eval]; apply in_eval_dep; exact H.
Qed.

Lemma evi_in_eval l v x y : in_scope l = [v] ->
  in_eval (LEvi l (PTen 0 false (of_vec [x]))) y = in_eval l ((v, x) :: y).
Proof. intros H. cbn [in_eval peval obind]. rewrite H. reflexivity. Qed.

Lemma evidence_node_eval obs l ins y xs :
  snd (evidence_node obs (l, ins)) = ins /\
  node_eval (fst (evidence_node obs (l, ins))) y xs = node_eval l (override obs y) xs.
Proof.
  unfold evidence_node. destruct (in_scope_cases l) as [E|[v [E Hin]]]; rewrite E.
  - split; [reflexivity|]. cbn [fst]. apply node_eval_dep. rewrite E. intros v [].
  - destruct (smem v (canon (map fst obs))) eqn:Hm; cbn [fst snd]; (split; [reflexivity|]).
    + apply (proj1 (smem_In _ _)) in Hm. apply (proj1 (canon_In _ _)) in Hm.
      cbn [node_eval]. rewrite (evi_in_eval l v _ y E), Hin. apply in_eval_dep.
      rewrite E. intros u [<-|[]]. cbn [lookup]. rewrite Nat.eqb_refl. symmetry.
      apply lookup_override_in. exact Hm.
    + apply node_eval_dep. rewrite E. intros u [<-|[]]. symmetry. apply lookup_override_notin.
      intros G. apply (proj2 (canon_In _ _)) in G. apply (proj2 (smem_In _ _)) in G. congruence.
Qed.

(* C-evidence at the executable level, node by node, for ALL layer kinds: the circuit returned
   by Ops.evidence_m evaluates, at y, every node to the value the original circuit has at y
   overridden by the observation *)
Theorem evidence_exec_den obs c c' y :
  evidence_m obs c = Ok c' -> den_all c' y = den_all c (override obs y).
Proof.
  intros H. destruct (evidence_nodes obs c c' H) as [HN _]. unfold den_all. rewrite HN.
  apply den_from_ext2. apply Forall2_map_l. intros [l ins] _.
  destruct (evidence_node_eval obs l ins y []) as [Hs _]. split; [exact Hs|].
  intros xs. apply (evidence_node_eval obs l ins y xs).
Qed.

Corollary evidence_exec_den_outs obs c c' y :
  evidence_m obs c = Ok c' -> den c' y = den c (override obs y).
Proof.
  intros H. unfold den. rewrite (evidence_exec_den obs c c' y H).
  destruct (evidence_nodes obs c c' H) as [_ HO]. rewrite HO. reflexivity.
Qed.

(* ---------- semantic corollary on the algebraic fragment ---------- *)
Notation SEvidence := (OpsSimple.evidence C C).

Lemma slookup_lookup u (obs : Exec.asg) :
  OpsSimple.lookup C u obs = if smem u (map fst obs) then Some (lookup u obs) else None.
Proof.
  induction obs as [|[v x] r IH]; cbn [OpsSimple.lookup lookup map fst smem existsb]; [reflexivity|].
  rewrite (Nat.eqb_sym v u). destruct (Nat.eqb u v); cbn [orb]; [reflexivity|]. exact IH.
Qed.

Lemma override_afun obs y u : OpsSimple.override C (afun y) obs u = afun (override obs y) u.
Proof.
  unfold OpsSimple.override, afun. rewrite slookup_lookup.
  destruct (smem u (map fst obs)) eqn:E.
  - symmetry. apply lookup_override_in. apply smem_In. exact E.
  - symmetry. apply lookup_override_notin. intros G. apply (proj2 (smem_In _ _)) in G. congruence.
Qed.

Lemma interp_vdep c i : In (SIn i) (interp c) -> OpsSimple.vdep C C i.
Proof.
  unfold interp, interp_nodes. intros H. apply in_map_iff in H. destruct H as [[l ins] [H _]].
  cbn [fst snd] in H.
  destruct l as [v K N w| | | | |K lsp val| |Ki Ko ar w| |]; cbn [interp_layer] in H; try discriminate.
  - destruct w; try discriminate. inversion H; subst i. intros y y' Ha. cbn [Circ.ifun Circ.iscope] in *.
    unfold emb_fun. rewrite (Ha v) by (left; reflexivity). reflexivity.
  - destruct lsp; try discriminate. destruct val; try discriminate. inversion H; subst i.
    intros y y' _. reflexivity.
  - destruct w; discriminate.
Qed.

(* on the fragment, the executable evidence circuit denotes the semantic evidence operator
   (OpsSimple.evidence) applied to the interpretation of the original circuit *)
Theorem evidence_exec_sem obs c c' y : frag c = true -> evidence_m obs c = Ok c' ->
  den_all c' y = if inrange c (override obs y)
                 then Some (SEval (SEvidence obs (interp c)) (afun y)) else None.
Proof.
  intros Hf H. rewrite (evidence_exec_den obs c c' y H), (den_all_spec c _ Hf).
  destruct (inrange c (override obs y)); [|reflexivity]. f_equal.
  rewrite (OpsSimple.evidence_correct_vdep C c0 cadd cmul C obs (interp c) (interp_vdep c)).
  apply SEval_pw. intros u. symmetry. apply override_afun.
Qed.

(* ================================================================== *)
(* 2. CONCATENATE                                                       *)
(* ================================================================== *)
Lemma node_eval_shift l y pre acc ins :
  node_eval l y (map (fun j => nth j (pre ++ acc) []) (map (Nat.add (length pre)) ins))
  = node_eval l y (map (fun j => nth j acc []) ins).
Proof. f_equal. rewrite map_map. apply map_ext. intros j. apply app_nth2_plus. Qed.

(* a block whose references are shifted by the length of a prefix ignores that prefix;
   no well-formedness is needed: dangling references read [] on both sides *)
Lemma den_from_shift pre ns y : forall acc,
  den_from (shift_nodes (length pre) ns) y (pre ++ acc) = option_map (app pre) (den_from ns y acc).
Proof.
  induction ns as [|[l ins] ns IH]; intros acc; [reflexivity|].
  cbn [shift_nodes map fst snd den_from]. rewrite node_eval_shift.
  destruct (node_eval l y (map (fun j => nth j acc []) ins)) as [v|]; [|reflexivity].
  cbn [obind]. rewrite <- app_assoc. apply (IH (acc ++ [v])).
Qed.

(* one step of concatenate_from *)
Definition cat2 (a c : Exec.circuit) : Exec.circuit :=
  mkC (nodes a ++ shift_nodes (length (nodes a)) (nodes c))
      (outs a ++ map (Nat.add (length (nodes a))) (outs c)).

Lemma concatenate_from_cons c r acc : concatenate_from (c :: r) acc = concatenate_from r (cat2 acc c).
Proof. reflexivity. Qed.

Lemma den_all_cat2 a c y :
  den_all (cat2 a c) y = (do va <- den_all a y; do vc <- den_all c y; Some (va ++ vc)).
Proof.
  unfold den_all, cat2. cbn [nodes]. rewrite den_from_app.
  destruct (den_from (nodes a) y []) as [va|] eqn:Ea; [|reflexivity]. cbn [obind].
  rewrite <- (den_all_length a y va Ea).
  rewrite <- (app_nil_r va) at 2. rewrite den_from_shift.
  destruct (den_from (nodes c) y []); reflexivity.
Qed.

(* concatenation of the values of the operands; None as soon as one operand is undefined *)
Definition cat_vals {A} (l : list (option (list A))) : option (list A) :=
  option_map (@concat A) (omap (fun x => x) l).

Lemma omap_map {X Y Z} (f : Y -> option Z) (g : X -> Y) l : omap f (map g l) = omap (fun x => f (g x)) l.
Proof. induction l as [|x l IH]; cbn [map omap]; [reflexivity|]. rewrite IH. reflexivity. Qed.

Lemma den_all_concatenate_from cs y : forall acc,
  den_all (concatenate_from cs acc) y
  = (do va <- den_all acc y; do vs <- omap (fun c => den_all c y) cs; Some (va ++ concat vs)).
Proof.
  induction cs as [|c cs IH]; intros acc.
  - cbn [concatenate_from omap obind concat]. destruct (den_all acc y); cbn [obind]; [|reflexivity].
    rewrite app_nil_r. reflexivity.
  - rewrite concatenate_from_cons, IH, den_all_cat2. cbn [omap].
    destruct (den_all acc y) as [va|]; cbn [obind]; [|reflexivity].
    destruct (den_all c y) as [vc|]; cbn [obind]; [|reflexivity].
    destruct (omap (fun c0 => den_all c0 y) cs) as [vs|]; cbn [obind]; [|reflexivity].
    cbn [concat]. rewrite app_assoc. reflexivity.
Qed.

(* C-concatenate at the executable level, node by node, for ALL layer kinds and WITHOUT any
   well-formedness hypothesis: the values of the nodes of the concatenation are the values of
   the nodes of the operands, in order *)
Theorem concatenate_exec_den cs c' y : concatenate_m cs = Ok c' ->
  den_all c' y = option_map (@concat cvec) (omap (fun c => den_all c y) cs).
Proof.
  intros H. unfold concatenate_m in H. inversion H; subst c'. clear H.
  rewrite den_all_concatenate_from. change (den_all (mkC [] []) y) with (Some (@nil cvec)). cbn [obind].
  destruct (omap (fun c => den_all c y) cs); reflexivity.
Qed.

(* ---------- outputs ---------- *)
(* the only part of wf that matters here: the outputs are nodes of the circuit *)
Definition outs_ok (c : Exec.circuit) : Prop := Forall (fun o => o < length (nodes c)) (outs c).

Lemma wf_outs_ok c : wf c = true -> outs_ok c.
Proof.
  unfold wf, outs_ok. intros H. apply andb_prop in H. destruct H as [_ H].
  rewrite forallb_forall in H. apply Forall_forall. intros o Ho. apply Nat.ltb_lt. apply H. exact Ho.
Qed.

Lemma outs_ok_cat2 a c : outs_ok a -> outs_ok c -> outs_ok (cat2 a c).
Proof.
  unfold outs_ok, cat2, shift_nodes. cbn [nodes outs]. rewrite !Forall_forall. intros Ha Hc o Ho.
  rewrite app_length, map_length. apply in_app_or in Ho. destruct Ho as [Ho|Ho].
  - specialize (Ha o Ho). lia.
  - apply in_map_iff in Ho. destruct Ho as [o' [<- Ho']]. specialize (Hc o' Ho'). lia.
Qed.

Lemma den_cat2 a c y : outs_ok a ->
  den (cat2 a c) y = (do va <- den a y; do vc <- den c y; Some (va ++ vc)).
Proof.
  intros Ha. unfold den. rewrite den_all_cat2.
  destruct (den_all a y) as [va|] eqn:Ea; cbn [obind]; [|reflexivity].
  destruct (den_all c y) as [vc|] eqn:Ec; cbn [obind]; [|reflexivity].
  unfold cat2. cbn [outs nodes]. rewrite map_app, map_map. f_equal. f_equal.
  - apply map_ext_in. intros o Ho. apply app_nth1. rewrite (den_all_length _ _ _ Ea).
    unfold outs_ok in Ha. rewrite Forall_forall in Ha. apply Ha, Ho.
  - apply map_ext. intros o. rewrite <- (den_all_length _ _ _ Ea). apply app_nth2_plus.
Qed.

Lemma den_concatenate_from cs y : forall acc, outs_ok acc -> Forall outs_ok cs ->
  den (concatenate_from cs acc) y
  = (do va <- den acc y; do vs <- omap (fun c => den c y) cs; Some (va ++ concat vs)).
Proof.
  induction cs as [|c cs IH]; intros acc Ha Hcs.
  - cbn [concatenate_from omap obind concat]. destruct (den acc y); cbn [obind]; [|reflexivity].
    rewrite app_nil_r. reflexivity.
  - inversion Hcs as [|c1 cs1 Hc Hcs']; subst.
    rewrite concatenate_from_cons, (IH _ (outs_ok_cat2 _ _ Ha Hc) Hcs'), (den_cat2 _ _ _ Ha). cbn [omap].
    destruct (den acc y) as [va|]; cbn [obind]; [|reflexivity].
    destruct (den c y) as [vc|]; cbn [obind]; [|reflexivity].
    destruct (omap (fun c0 => den c0 y) cs) as [vs|]; cbn [obind]; [|reflexivity].
    cbn [concat]. rewrite app_assoc. reflexivity.
Qed.

(* the function denoted by the concatenation: the outputs of the operands, in order; output
   number k of c' is the corresponding output of the corresponding operand *)
Theorem concatenate_exec_outs cs c' y : Forall outs_ok cs -> concatenate_m cs = Ok c' ->
  den c' y = option_map (@concat cvec) (omap (fun c => den c y) cs).
Proof.
  intros Hcs H. unfold concatenate_m in H. inversion H; subst c'. clear H.
  rewrite den_concatenate_from; [|constructor|exact Hcs].
  change (den (mkC [] []) y) with (Some (@nil cvec)). cbn [obind].
  destruct (omap (fun c => den c y) cs); reflexivity.
Qed.

Corollary concatenate_exec_outs_wf cs c' y : (forall c, In c cs -> wf c = true) -> concatenate_m cs = Ok c' ->
  den c' y = option_map (@concat cvec) (omap (fun c => den c y) cs).
Proof.
  intros Hwf. apply concatenate_exec_outs. apply Forall_forall. intros c Hc. apply wf_outs_ok, Hwf, Hc.
Qed.

(* ---------- index form ---------- *)
(* position of the first element of operand m in the concatenation *)
Definition offs {X} (len : X -> nat) (cs : list X) (m : nat) : nat := list_sum (map len (firstn m cs)).

Lemma cat_nth {X A} (f : X -> option (list A)) (len : X -> nat) (d : A) (dx : X) :
  (forall c v, f c = Some v -> length v = len c) ->
  forall cs Vs, Forall2 (fun c v => f c = Some v) cs Vs ->
  forall m k, m < length cs -> k < len (nth m cs dx) ->
  exists Vm, f (nth m cs dx) = Some Vm /\ nth (offs len cs m + k) (concat Vs) d = nth k Vm d.
Proof.
  intros Hlen cs Vs HF. induction HF as [|c v cs Vs Hc _ IH]; intros m k Hm Hk; [simpl in Hm; lia|].
  destruct m as [|m]; cbn [nth firstn map list_sum concat offs] in *.
  - exists v. split; [exact Hc|]. apply app_nth1. rewrite (Hlen _ _ Hc). exact Hk.
  - destruct (IH m k) as [Vm [E1 E2]]; [simpl in Hm; lia | exact Hk|]. exists Vm. split; [exact E1|].
    change (offs len (c :: cs) (Datatypes.S m)) with (len c + offs len cs m).
    rewrite <- (Hlen _ _ Hc), <- Nat.add_assoc, app_nth2_plus. exact E2.
Qed.

Lemma den_length c y v : den c y = Some v -> length v = length (outs c).
Proof.
  unfold den. destruct (den_all c y); cbn [obind]; [|discriminate]. intros H. inversion H. apply map_length.
Qed.

Definition cempty : Exec.circuit := mkC [] [].

(* node k of operand m is node (offset_m + k) of the concatenation *)
Corollary concatenate_exec_den_nth cs c' y V : concatenate_m cs = Ok c' -> den_all c' y = Some V ->
  forall m k, m < length cs -> k < length (nodes (nth m cs cempty)) ->
  exists Vm, den_all (nth m cs cempty) y = Some Vm /\
             nth (offs (fun c => length (nodes c)) cs m + k) V [] = nth k Vm [].
Proof.
  intros H HV. rewrite (concatenate_exec_den cs c' y H) in HV.
  destruct (omap (fun c => den_all c y) cs) as [Vs|] eqn:E; [|discriminate]. inversion HV; subst V.
  apply omap_Forall2 in E. intros m k Hm Hk.
  exact (cat_nth (fun c => den_all c y) (fun c => length (nodes c)) [] cempty
           (fun c v => den_all_length c y v) cs Vs E m k Hm Hk).
Qed.

(* output k of operand m is output (offset_m + k) of the concatenation *)
Corollary concatenate_exec_outs_nth cs c' y V : (forall c, In c cs -> wf c = true) ->
  concatenate_m cs = Ok c' -> den c' y = Some V ->
  forall m k, m < length cs -> k < length (outs (nth m cs cempty)) ->
  exists Vm, den (nth m cs cempty) y = Some Vm /\
             nth (offs (fun c => length (outs c)) cs m + k) V [] = nth k Vm [].
Proof.
  intros Hwf H HV. rewrite (concatenate_exec_outs_wf cs c' y Hwf H) in HV.
  destruct (omap (fun c => den c y) cs) as [Vs|] eqn:E; [|discriminate]. inversion HV; subst V.
  apply omap_Forall2 in E. intros m k Hm Hk.
  exact (cat_nth (fun c => den c y) (fun c => length (outs c)) [] cempty
           (fun c v => den_length c y v) cs Vs E m k Hm Hk).
Qed.

(* ---------- semantic link: interp commutes with concatenation (all layers) ---------- *)
Notation SConcatAll := (OpsSimple.concat_all C C).
Notation SConcat2 := (OpsSimple.concat2 C C).

Lemma interp_layer_shift k l ins :
  interp_layer l (map (Nat.add k) ins) = OpsSimple.shift C C k (interp_layer l ins).
Proof.
  destruct l as [v K N w| | | | |K lsp val| |Ki Ko ar w| |]; try reflexivity.
  - destruct w; reflexivity.
  - destruct lsp; try reflexivity. destruct val; reflexivity.
  - destruct w; reflexivity.
Qed.

Lemma interp_cat2 a c : interp (cat2 a c) = SConcat2 (interp a) (interp c).
Proof.
  unfold interp, cat2, OpsSimple.concat2, shift_nodes. cbn [nodes].
  rewrite interp_nodes_app, length_interp_nodes. f_equal.
  unfold interp_nodes. rewrite !map_map. apply map_ext. intros [l ins]. cbn [fst snd].
  apply interp_layer_shift.
Qed.

Lemma interp_concatenate_from cs : forall acc,
  interp (concatenate_from cs acc) = fold_left SConcat2 (map interp cs) (interp acc).
Proof.
  induction cs as [|c cs IH]; intros acc; [reflexivity|].
  rewrite concatenate_from_cons, IH, interp_cat2. reflexivity.
Qed.

Theorem interp_concatenate cs c' : concatenate_m cs = Ok c' -> interp c' = SConcatAll (map interp cs).
Proof.
  intros H. unfold concatenate_m in H. inversion H; subst c'. apply interp_concatenate_from.
Qed.

Lemma frag_concatenate_from cs : forall acc,
  frag (concatenate_from cs acc) = frag acc && forallb frag cs.
Proof.
  induction cs as [|c cs IH]; intros acc; cbn [forallb]; [rewrite andb_true_r; reflexivity|].
  rewrite concatenate_from_cons, IH. unfold frag at 1, cat2. cbn [nodes]. rewrite frag_nodes_app.
  unfold shift_nodes, frag_nodes at 2. rewrite forallb_map'. cbn [fst].
  fold (frag_nodes (nodes c)). fold (frag c). fold (frag acc). rewrite andb_assoc. reflexivity.
Qed.

(* on the fragment, the executable concatenation denotes the semantic concat_all *)
Theorem concatenate_exec_sem cs c' y : forallb frag cs = true -> concatenate_m cs = Ok c' ->
  den_all c' y = if inrange c' y then Some (SEval (SConcatAll (map interp cs)) (afun y)) else None.
Proof.
  intros Hf H. rewrite <- (interp_concatenate cs c' H). apply den_all_spec.
  unfold concatenate_m in H. inversion H; subst c'. rewrite frag_concatenate_from. exact Hf.
Qed.

(* ================================================================== *)
(* 3. CONJUGATE is an involution (all layer kinds conjugate_m accepts)  *)
(* ================================================================== *)
Lemma tmap_cconj_invol : forall t : tn, tmap cconj (tmap cconj t) = t.
Proof.
  fix IH 1. intros [c|l]; cbn [tmap].
  - rewrite cconj_invol. reflexivity.
  - f_equal. rewrite map_map. induction l as [|x l IHl]; cbn [map]; [reflexivity|].
    rewrite IH, IHl. reflexivity.
Qed.

Lemma peval_conj_conj w : peval (PUn UConj (PUn UConj w)) = peval w.
Proof.
  cbn [peval]. destruct (peval w) as [t|]; cbn [obind eval_unop]; [|reflexivity].
  rewrite tmap_cconj_invol. reflexivity.
Qed.

(* the layer obtained by conjugating twice *)
Definition cj2_layer (l : layer) : layer :=
  match l with
  | LEmb v K N w => LEmb v K N (PUn UConj (PUn UConj w))
  | LPoly v K d c => LPoly v K d (PUn UConj (PUn UConj c))
  | LSum Ki Ko ar w => LSum Ki Ko ar (PUn UConj (PUn UConj w))
  | _ => l
  end.

Lemma conjugate_layer_twice l l' : conjugate_layer l = Ok l' -> conjugate_layer l' = Ok (cj2_layer l).
Proof. destruct l; cbn [conjugate_layer]; intros H; inversion H; subst; reflexivity. Qed.

Lemma cj2_node_eval l y xs : node_eval (cj2_layer l) y xs = node_eval l y xs.
Proof.
  destruct l; try reflexivity; cbn [cj2_layer node_eval in_eval]; rewrite peval_conj_conj; reflexivity.
Qed.

Definition cj_node_m (n : layer * list nat) : res (layer * list nat) :=
  let '(l, ins) := n in dor l' <- conjugate_layer l; Ok (l', ins).

Lemma rmap_list_cons {X Y} (f : X -> res Y) x r :
  rmap_list f (x :: r)
  = match f x, rmap_list f r with Ok y, Ok ys => Ok (y :: ys) | Err e, _ => Err e | _, Err e => Err e end.
Proof. reflexivity. Qed.

Lemma conjugate_nodes_twice ns : forall ns', rmap_list cj_node_m ns = Ok ns' ->
  rmap_list cj_node_m ns' = Ok (map (fun n => (cj2_layer (fst n), snd n)) ns).
Proof.
  induction ns as [|[l ins] ns IH]; intros ns' H.
  - inversion H. reflexivity.
  - rewrite rmap_list_cons in H. cbn [cj_node_m] in H.
    destruct (conjugate_layer l) as [l1|] eqn:El; cbn [rbind] in H; [|discriminate].
    destruct (rmap_list cj_node_m ns) as [ns1|] eqn:En; [|discriminate]. inversion H; subst ns'.
    rewrite rmap_list_cons. cbn [map fst snd cj_node_m].
    rewrite (conjugate_layer_twice l l1 El). cbn [rbind]. rewrite (IH ns1 eq_refl). reflexivity.
Qed.

Definition cj2_exec (c : Exec.circuit) : Exec.circuit :=
  mkC (map (fun n => (cj2_layer (fst n), snd n)) (nodes c)) (outs c).

Lemma den_all_cj2_exec c y : den_all (cj2_exec c) y = den_all c y.
Proof.
  unfold den_all, cj2_exec. cbn [nodes]. apply den_from_ext2. apply Forall2_map_l.
  intros [l ins] _. cbn [fst snd]. split; [reflexivity|]. intros xs. apply cj2_node_eval.
Qed.

(* conjugating twice always succeeds when conjugating once does, and yields cj2_exec *)
Theorem conjugate_m_twice c c' : conjugate_m c = Ok c' -> conjugate_m c' = Ok (cj2_exec c).
Proof.
  unfold conjugate_m. fold cj_node_m. intros H.
  destruct (rmap_list cj_node_m (nodes c)) as [ns|] eqn:E; cbn [rbind] in H; [|discriminate].
  inversion H; subst c'. cbn [nodes outs]. rewrite (conjugate_nodes_twice _ _ E). reflexivity.
Qed.

(* conjugate_m is an involution on the executable denotation, node by node *)
Theorem conjugate_conjugate_den c c' c'' y :
  conjugate_m c = Ok c' -> conjugate_m c' = Ok c'' -> den_all c'' y = den_all c y.
Proof.
  intros H1 H2. rewrite (conjugate_m_twice c c' H1) in H2. inversion H2; subst c''. apply den_all_cj2_exec.
Qed.

Corollary conjugate_conjugate_den_outs c c' c'' y :
  conjugate_m c = Ok c' -> conjugate_m c' = Ok c'' -> den c'' y = den c y.
Proof.
  intros H1 H2. unfold den. rewrite (conjugate_conjugate_den c c' c'' y H1 H2).
  rewrite (conjugate_m_twice c c' H1) in H2. inversion H2; subst c''. reflexivity.
Qed.

(* ================================================================== *)
(* Non-vacuity and sharpness                                            *)
(* ================================================================== *)
Module Example2.
Import Link.Example.
Definition mu : pexpr := PTen 5 true (of_vec [q 0; q 1]).
Definition sd : pexpr := PTen 6 true (of_vec [q 1; q 2]).
(* all input kinds, including an already conditioned embedding *)
Definition ex2 : Exec.circuit :=
  mkC [ (LEmb 0 2 2 (PTen 1 true W0), []); (LPoly 1 2 1 (PTen 2 true W1), []);
        (LEvi (LEmb 0 2 2 (PTen 1 true W0)) (PTen 0 false (of_vec [q 1])), []);
        (LGau 2 2 mu sd None, []); (LConst 2 false (PTen 7 true (of_vec [q 1; q 2])), []);
        (LCat 1 2 2 false (PTen 8 true W0), []);
        (LHad 2 4, [0; 1; 2; 5]); (LSum 2 1 1 (PTen 3 true Ws), [6]) ] [7].
(* duplicate bindings in the observation: the first one wins on both sides *)
Definition obs : Exec.asg := [(1, q 1); (0, q 1); (1, q 0)].
Definition y2 : Exec.asg := [(0, q 0); (1, q 0); (2, q 0)].
Definition exe : Exec.circuit := match evidence_m obs ex2 with Ok c => c | Err _ => cempty end.
Example ex_evi : evidence_m obs ex2 = Ok exe /\ den_all exe y2 <> None /\
  den_all exe y2 = den_all ex2 (override obs y2) /\ den_all exe y2 <> den_all ex2 y2.
Proof. vm_compute. repeat split; try reflexivity; discriminate. Qed.

(* concatenation, with an operand (bad) whose node references dangle / point forward *)
Definition bad : Exec.circuit := mkC [ (LHad 2 2, [1; 5]); (LConst 2 false (PTen 7 true (of_vec [q 1; q 2])), []) ] [0; 1].
Definition exc2 : Exec.circuit := match concatenate_m [ex; bad; ex2] with Ok c => c | Err _ => cempty end.
Example ex_cat : concatenate_m [ex; bad; ex2] = Ok exc2 /\ den_all exc2 y2 <> None /\
  den_all exc2 y2 = option_map (@concat cvec) (omap (fun c => den_all c y2) [ex; bad; ex2]) /\
  den exc2 y2 = option_map (@concat cvec) (omap (fun c => den c y2) [ex; bad; ex2]).
Proof. vm_compute. repeat split; try reflexivity; discriminate. Qed.

(* sharpness of outs_ok: an operand with an output index beyond its nodes reads [] on its own,
   but reads a node of the NEXT operand once concatenated *)
Definition dangling : Exec.circuit := mkC [] [0].
Definition one : Exec.circuit := mkC [ (LConst 2 false (PTen 7 true (of_vec [q 1; q 2])), []) ] [0].
Example ex_cat_sharp : forall c', concatenate_m [dangling; one] = Ok c' ->
  den c' [] = Some [[q 1; q 2]; [q 1; q 2]] /\
  option_map (@concat cvec) (omap (fun c => den c []) [dangling; one]) = Some [[]; [q 1; q 2]].
Proof. intros c' H. vm_compute in H. inversion H; subst c'. vm_compute. split; reflexivity. Qed.

(* conjugation twice, on a circuit with complex weights and non-fragment layers *)
Definition ci : C := (Q2Qc 0, Q2Qc 1).
Definition Wc : tn := of_mat [[ci; q 2]; [q 3; cadd ci (q 4)]].
Definition ex3 : Exec.circuit :=
  mkC [ (LEmb 0 2 2 (PUn USquare (PTen 1 true Wc)), []); (LPoly 1 2 1 (PTen 2 true Wc), []);
        (LCat 1 2 2 false (PTen 8 true W0), []);
        (LKron 2 2, [0; 1]); (LSum 4 1 1 (PTen 3 true (of_mat [[ci; ci; q 1; q 1]])), [3]) ] [4].
Definition y3 : Exec.asg := [(0, q 1); (1, ci)].
Definition ex3c : Exec.circuit := match conjugate_m ex3 with Ok c => c | Err _ => cempty end.
Definition ex3cc : Exec.circuit := match conjugate_m ex3c with Ok c => c | Err _ => cempty end.
Example ex_conj2 : conjugate_m ex3 = Ok ex3c /\ conjugate_m ex3c = Ok ex3cc /\ den_all ex3 y3 <> None /\
  den_all ex3cc y3 = den_all ex3 y3 /\ den_all ex3c y3 <> den_all ex3 y3.
Proof. vm_compute. repeat split; try reflexivity; discriminate. Qed.
End Example2.

Check evidence_exec_den.
Print Assumptions evidence_exec_den.
Check evidence_exec_den_outs.
Print Assumptions evidence_exec_den_outs.
Check evidence_exec_sem.
Print Assumptions evidence_exec_sem.
Check concatenate_exec_den.
Print Assumptions concatenate_exec_den.
Check concatenate_exec_outs.
Print Assumptions concatenate_exec_outs.
Check concatenate_exec_outs_wf.
Print Assumptions concatenate_exec_outs_wf.
Check concatenate_exec_den_nth.
Print Assumptions concatenate_exec_den_nth.
Check concatenate_exec_outs_nth.
Print Assumptions concatenate_exec_outs_nth.
Check interp_concatenate.
Print Assumptions interp_concatenate.
Check concatenate_exec_sem.
Print Assumptions concatenate_exec_sem.
Check peval_conj_conj.
Print Assumptions peval_conj_conj.
Check conjugate_m_twice.
Print Assumptions conjugate_m_twice.
Check conjugate_conjugate_den.
Print Assumptions conjugate_conjugate_den.
Check conjugate_conjugate_den_outs.
Print Assumptions conjugate_conjugate_den_outs.
Print Assumptions Example2.ex_evi.
Print Assumptions Example2.ex_cat.
Print Assumptions Example2.ex_cat_sharp.
Print Assumptions Example2.ex_conj2.
