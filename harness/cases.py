"""Case sets: (description, Coq term, interpretation) triples evaluated by sharded coqc runs."""
import itertools
import random

import numpy as np

import common
import evalc
import export
import gen

HDR = "Close Scope Qc_scope. Close Scope Q_scope. Close Scope Z_scope. Open Scope nat_scope."


class CaseSet:
    def __init__(self, rep, pid):
        self.rep, self.pid = rep, pid
        self.items = []

    def add(self, desc, term, interp, nontrivial=True):
        self.items.append((desc, term, interp))
        self.rep.case(desc, nontrivial)

    def run(self, shard=25, timeout=900):
        if not self.items:
            return
        results, logs = common.run_cases(self.pid, [t for _, t, _ in self.items], header=HDR, shard=shard, timeout=timeout)
        nfail = 0
        ntime = sum(1 for r in results if isinstance(r, str) and r == common.TIMEOUT)
        if ntime:
            self.rep.count("coq-timeout", ntime)
            self.rep.notes.append(f"{ntime} of {len(results)} correspondence cases were not evaluated within {timeout}s by coqc (skipped samples)")
        too_many = ntime > max(1, len(results) // 20)
        for (desc, _, interp), res in zip(self.items, results):
            if isinstance(res, str) and res == common.TIMEOUT:
                if too_many:
                    nfail += 1
                    self.rep.violation("coq-eval-timeout", "more than 5% of the correspondence cases could not be evaluated by coqc within the time limit",
                                       {"case": desc, "timeouts": ntime, "cases": len(results)}, found_input=False)
                continue
            if res is None:
                nfail += 1
                self.rep.violation("coq-eval-failed", "a correspondence case file could not be evaluated by coqc",
                                   {"case": desc, "log": logs[:1]}, found_input=False)
                continue
            interp(res)
        self.rep.obligations += 1
        if nfail == 0:
            self.rep.discharged += 1


def rng_for(seed, pid, i):
    return random.Random(f"{seed}:{pid}:{i}")


def pick_semiring(rng, monotone, cplx=False):
    if cplx:
        return "complex-lse-sum"
    if monotone:
        return rng.choice(["sum-product", "lse-sum", "lse-sum", "complex-lse-sum"])
    return rng.choice(["sum-product", "sum-product", "complex-lse-sum"])


def close(a, b, rtol=1e-7, atol=1e-9):
    a, b = np.asarray(a), np.asarray(b)
    if a.shape != b.shape:
        return False
    both_nan = np.isnan(a) & np.isnan(b)
    both_inf = np.isinf(a) & np.isinf(b) & (np.sign(np.real(a)) == np.sign(np.real(b)))
    same = both_nan | both_inf
    if np.any(same):
        a = np.where(same, 0, a)
        b = np.where(same, 0, b)
    if not (np.all(np.isfinite(a)) and np.all(np.isfinite(b))):
        return False
    s = max(1.0, float(np.max(np.abs(a))) if a.size else 1.0, float(np.max(np.abs(b))) if b.size else 1.0)
    return bool(np.all(np.abs(a - b) <= atol * s + rtol * np.maximum(np.abs(a), np.abs(b))))


def close_sem(a, b, sem, rtol=1e-7, atol=1e-9):
    """like close, but in the log-space semirings entries whose expected value is exactly zero (log = -inf) are
    not compared: rounding noise of an exactly-zero quantity has no meaningful logarithm"""
    a, b = np.asarray(a), np.asarray(b)
    if sem != "sum-product" and a.shape == b.shape:
        z = (b == 0)
        if np.any(z):
            a = np.where(z, 0, a)
            b = np.where(z, 0, b)
    return close(a, b, rtol=rtol, atol=atol)


def cplx_ok(sem):
    return sem != "lse-sum"


def all_assignments(doms, vs):
    vs = sorted(vs)
    return [dict(zip(vs, c)) for c in itertools.product(*[range(doms[v][1]) for v in vs])]
