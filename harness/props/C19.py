"""C19 — saved parameters reproduce the circuit after reload."""
import copy
import io
import traceback

import numpy as np
import torch

import cirkit.symbolic.functional as SF
from cirkit.symbolic import parameters as P
from cirkit.symbolic.initializers import ConstantTensorInitializer
from cirkit.utils.scope import Scope

import evalc
import export
import gen
import opkit
from cases import CaseSet, rng_for, pick_semiring, close
from props.C02 import build, pipeline_operands, tensor_leaves, prob_leaves

PID = "C19"


def one_case(rep, cs, seed, i):
    rng = rng_for(seed, PID, i)
    try:
        mode, sc, g, monotone = build(rng)
    except Exception as e:
        rep.count("build-failed:" + type(e).__name__)
        return
    sem = pick_semiring(rng, monotone)
    fold, opt = rng.choice(evalc.FLAGS)
    desc = {"i": i, "seed": seed, "mode": mode, "sem": sem, "fold": fold, "opt": opt, **g.desc}
    rep.count("mode:" + mode)
    rep.count(f"flags:{int(fold)}{int(opt)}")
    scope = sorted(sc.scope._set)
    ys = gen.sample_inputs(rng, g.doms, scope, 3, exhaustive_limit=0, nonneg=(sem == "lse-sum"))
    ops = pipeline_operands(sc)
    w = max(evalc.width_of(c) for c in ops)
    # some tensors are frozen (not learnable): they are part of the saved state all the same
    frozen = prob_leaves(ops)
    free = [p_ for p_ in tensor_leaves(ops) if id(p_) not in frozen and isinstance(p_.initializer, ConstantTensorInitializer)]
    nfrozen = 0
    for p_ in free:
        if rng.random() < 0.3:
            p_.learnable = False
            nfrozen += 1
    rep.count(f"non-learnable-tensors:{min(nfrozen, 3)}")
    try:
        ctxA = evalc.make_ctx(sem, fold, opt)
        ccA = ctxA.compile(sc)
        all_ccA = [ctxA.get_compiled_circuit(c) for c in ops]
        # train-like perturbation of every learnable tensor of instance A
        stateA = ctxA._compiler.state
        keep = set()
        for p_ in tensor_leaves(ops):
            if id(p_) in frozen and stateA.has_compiled_parameter(p_):
                keep.add(stateA.retrieve_compiled_parameter(p_)[0]._ptensor.data_ptr())
        with torch.no_grad():
            seen = set(keep)
            for cc in all_ccA:
                for p in cc.parameters():
                    if p.requires_grad and p.data_ptr() not in seen:
                        seen.add(p.data_ptr())
                        p.add_(torch.tensor(gen.dy(rng, 1, 3, 16), dtype=p.dtype))
        outA = evalc.evaluate(ccA, sc, ys, sem, width=w)
        sd = ccA.state_dict()
        # every learnable tensor is in the dictionary; for a base circuit exactly once
        ptrs = {}
        for k_, v_ in sd.items():
            if isinstance(v_, torch.Tensor) and v_.dtype.is_floating_point or (isinstance(v_, torch.Tensor) and v_.is_complex()):
                ptrs.setdefault(v_.data_ptr(), []).append(k_)
        for p in ccA.parameters():
            if p.requires_grad and p.data_ptr() not in ptrs:
                rep.violation("state-dict-missing", "a learnable tensor of the circuit is not in its state dictionary", {"case": desc, "shape": list(p.shape)})
        if sc.operation is None:
            dup = {k_: v_ for k_, v_ in ptrs.items() if len(v_) > 1}
            if dup:
                rep.violation("state-dict-duplicate", "a tensor of a base circuit appears under several keys", {"case": desc, "keys": list(dup.values())[:3]})
        # serialise for real
        buf = io.BytesIO()
        torch.save(sd, buf)
        buf.seek(0)
        sd2 = torch.load(buf)
        # a freshly compiled instance (fresh initial values = the symbolic initialisers, different from A's perturbed ones)
        # "whatever its fresh initial values": the initialisers of the symbolic tensors now produce other values
        for p_ in free:
            v0 = np.asarray(p_.initializer.value)
            p_.initializer = ConstantTensorInitializer(v0 + np.asarray(gen.dy_array(rng, v0.shape, 1, 3, 16)).astype(v0.dtype))
        ctxB = evalc.make_ctx(sem, fold, opt)
        ccB = ctxB.compile(sc)
        outB0 = evalc.evaluate(ccB, sc, ys, sem, width=w)
        if list(ccB.state_dict().keys()) != list(sd.keys()):
            rep.violation("state-dict-keys-differ", "two compilations of the same circuit under the same flags have different state-dictionary keys",
                          {"case": desc})
        if len(set(sd.keys())) != len(list(sd.keys())):
            rep.violation("state-dict-names-not-unique", "state-dictionary names are not unique", {"case": desc})
        ccB.load_state_dict(sd2)
        outB = evalc.evaluate(ccB, sc, ys, sem, width=w)
        if not close(outA, outB, rtol=1e-12, atol=1e-14):
            rep.violation("reload-differs", "after loading the saved state dictionary the fresh instance computes different outputs",
                          {"case": desc, "inputs": ys, "observed": outB.tolist(), "expected": outA.tolist()})
        # a derived circuit compiled in the reloaded context AFTERWARDS reads the loaded values and leaves them alone
        if scope:
            ov = sorted(rng.sample(scope, rng.randint(1, len(scope))))
            obs = {v: (rng.randrange(g.doms[v][1]) if g.doms[v][0] == "disc" else gen.dy(rng, 0, 6, 4)) for v in ov}
            kind_d = rng.choice(["evidence", "evidence", "integrate-evidence", "conjugate"])
            try:
                sd_ = SF.evidence(sc, obs)
                if kind_d == "integrate-evidence" and sd_.scope._set:
                    sd_ = SF.integrate(sd_)
                elif kind_d == "conjugate":
                    sd_ = SF.conjugate(sc)
            except Exception:
                sd_ = None
            if sd_ is not None:
                rep.count("derived-after-load:" + kind_d)
                ctxB.compile(sd_)
                outB2 = evalc.evaluate(ccB, sc, ys, sem, width=w)
                if not close(outA, outB2, rtol=1e-12, atol=1e-14):
                    rep.violation("derived-compile-changes-reloaded", f"compiling a derived ({kind_d}) circuit in the reloaded context changed the outputs of the reloaded circuit",
                                  {"case": desc, "inputs": ys, "observed": outB2.tolist(), "expected": outA.tolist()})
                if kind_d == "evidence":
                    rest_ = [v for v in scope if v not in ov]
                    ys_ = [{v: y[v] for v in rest_} for y in ys]
                    okd, det = opkit.oracle_evidence(sc, sd_, obs, ys_, sem, fold, opt, ctx=ctxB)
                    if okd is False:
                        rep.violation("derived-after-load-differs", "an evidence circuit compiled after the reload does not agree with the reloaded circuit", {"case": desc, "obs": obs, **det})
        # save / reset / load sequence on the same instance
        ccA.reset_parameters()
        ccA.load_state_dict(sd2)
        outA2 = evalc.evaluate(ccA, sc, ys, sem, width=w)
        if not close(outA, outA2, rtol=1e-12, atol=1e-14):
            rep.violation("reset-load-differs", "reset followed by load does not restore the saved function", {"case": desc, "inputs": ys})
        # derived circuits: loading only the OPERANDS' dictionaries into a fresh context makes the derived circuit agree too
        if sc.operation is not None:
            ctxC = evalc.make_ctx(sem, fold, opt)
            ccC = ctxC.compile(sc)
            for c0 in ops:
                if c0.operation is None:
                    ctxC.get_compiled_circuit(c0).load_state_dict(copy.deepcopy(ctxA.get_compiled_circuit(c0).state_dict()))
            outC = evalc.evaluate(ccC, sc, ys, sem, width=w)
            if not close(outA, outC, rtol=1e-12, atol=1e-14):
                rep.violation("derived-reload-differs", "after loading the operands' saved parameters the derived circuit of the fresh context computes different outputs",
                              {"case": desc, "inputs": ys, "observed": outC.tolist(), "expected": outA.tolist()})
    except Exception as e:
        rep.violation("state-dict-exception:" + type(e).__name__, "saving / loading raised",
                      {"case": desc, "exception": repr(e)[:300], "traceback": traceback.format_exc()[-1500:]})
        return
    if not np.all(np.isfinite(outB)):
        return
    # ---- model: the denotation at the values now held by instance B (read through B's registry) ----
    state = ctxB._compiler.state

    def leafval(p):
        if isinstance(p, P.ConstantParameter) or not state.has_compiled_parameter(p):
            return None
        t, k = state.retrieve_compiled_parameter(p)
        return t._ptensor.detach()[k].numpy()

    try:
        tc = export.Exporter(leafval=leafval).circuit(sc)
    except export.ExportError as e:
        rep.violation("export-error", str(e), {"case": desc}, found_input=False)
        return
    # names as numbers: the model's load/save theorem applies when names are unique and equal
    keys = list(sd.keys())
    kid = {k_: n for n, k_ in enumerate(sorted(set(keys)))}
    names = "[" + "; ".join(str(kid[k_]) for k_ in keys) + "]"
    term = f"[den_vs {tc} {export.ex_asgs(ys)} {export.ex_vals(outA)}; b2n (NoDup_b {names})]"

    def interp(res, desc=desc):
        dv, nd = res
        rep.count(f"coq:den_vs={dv}")
        if nd != 1:
            rep.violation("state-dict-names-not-unique", "state-dictionary names are not unique", {"case": desc})
        if dv == 0:
            rep.violation("reload-vs-denotation", "the reloaded instance's tensors do not denote the saved instance's outputs (model evaluation at the loaded values)",
                          {"case": desc})

    cs.add(desc, term, interp, nontrivial=g.desc["sums"] >= 1 and g.desc["prods"] >= 1)


def run(rep, tier, seed, replay=None):
    n = 70 if tier == "quick" else 900
    cs = CaseSet(rep, PID)
    if replay is not None:
        c = replay["replay"].get("case", {})
        one_case(rep, cs, c.get("seed", seed), c.get("i", 0))
        cs.run()
        return
    for i in range(n):
        one_case(rep, cs, seed, i)
    cs.run(shard=max(4, 70 // 14))  # shard size of the quick tier: thorough runs use more files, not longer ones
