(* C20 — templates compute their formulas
   Property theorems only: each is closed by `exact <lemma>`; proofs live in the imported files. *)
From Coq Require Import List ZArith QArith Qcanon Ring_theory Field_theory Permutation Sorted.
Import ListNotations.
From CK Require Import Base.
From CK Require Import Circ.
From CK Require Import Multiply.
From CK Require Import Algebra.
Close Scope Qc_scope. Close Scope Q_scope. Close Scope Z_scope. Open Scope nat_scope.

(* the CP template circuit evaluates to sum_k w_k prod_j a_j[k] *)
Theorem C20_cp :
  forall (R : Type) (rO rI : R) (radd rmul : R -> R -> R),
         semi_ring_theory rO rI radd rmul eq ->
         forall (D : Type) (is : list (inp R D)) (w : vec R) (r : nat) (y : asg D),
         is <> [] ->
         length w = r ->
         nth 0 (nth (S (length is)) (eval R rO radd rmul D (cp_circuit R D is w) y) []) rO =
         vsum R rO radd
           (map
              (fun k : nat =>
               rmul (nth k w rO) (prodl R rI rmul (map (fun i : inp R D => nth k (ifun R D i y) rO) is)))
              (seq 0 r)).
Proof. exact cp_circuit_correct. Qed.
Print Assumptions C20_cp.

(* a Tucker (Kronecker + sum) layer contracts the core with one more factor at a time *)
Theorem C20_tucker :
  forall (R : Type) (rO rI : R) (radd rmul : R -> R -> R),
         semi_ring_theory rO rI radd rmul eq ->
         forall (xs : list (vec R)) (b g : vec R),
         xs <> [] ->
         length g = length (kronn R rmul xs) * length b ->
         dot R rO radd rmul g (kronn R rmul (xs ++ [b])) =
         vsum R rO radd
           (map
              (fun i : nat => rmul (nth i (kronn R rmul xs) rO) (dot R rO radd rmul (block R (length b) g i) b))
              (seq 0 (length (kronn R rmul xs)))).
Proof. exact tucker_kronn. Qed.
Print Assumptions C20_tucker.

(* order-2 Tucker as the explicit double sum *)
Theorem C20_tucker_order2 :
  forall (R : Type) (rO rI : R) (radd rmul : R -> R -> R),
         semi_ring_theory rO rI radd rmul eq ->
         forall a b g : vec R,
         length g = length a * length b ->
         dot R rO radd rmul g (kron R rmul a b) =
         vsum R rO radd
           (map
              (fun i : nat =>
               rmul (nth i a rO)
                 (vsum R rO radd
                    (map (fun j : nat => rmul (nth (i * length b + j) g rO) (nth j b rO)) (seq 0 (length b)))))
              (seq 0 (length a))).
Proof. exact tucker2. Qed.
Print Assumptions C20_tucker_order2.

(* the chain circuit evaluates to the forward-algorithm recursion *)
Theorem C20_hmm :
  forall (R : Type) (rO : R) (radd rmul : R -> R -> R) (D : Type) (i0 : inp R D)
           (steps : list (list (vec R) * inp R D)) (y : asg D),
         last (eval R rO radd rmul D (hmm_circuit R D i0 steps) y) [] =
         forward R rO radd rmul (inst R D y steps) (ifun R D i0 y).
Proof. exact hmm_correct. Qed.
Print Assumptions C20_hmm.
