(* Init.v — model of parameter initialisation bookkeeping (C17): the axis a compiled Dirichlet
   initialiser normalises, with and without a leading fold dimension, and fold-wise application of
   per-parameter initialisers to the slices of a folded tensor. *)
From Coq Require Import ZArith List Lia Bool.
Import ListNotations.
Open Scope Z_scope.

(* symbolic: declared axis (possibly negative) of a tensor of rank r *)
Definition eff_axis (axis r : Z) : Z := if axis <? 0 then axis + r else axis.
(* compile_dirichlet_initializer: shift non-negative axes past the fold dimension *)
Definition compiled_dim (axis : Z) : Z := if axis <? 0 then axis else axis + 1.
(* dirichlet_: normalise dim w.r.t. the rank of the tensor it receives *)
Definition norm_dim (dim rank : Z) : Z := if dim <? 0 then dim + rank else dim.
(* the axis (counted without the fold dimension) along which the slice of one parameter sums to one,
   when the initialiser is applied to a tensor that still has its fold dimension (rank r + 1) *)
Definition simplex_axis (axis r : Z) : Z := norm_dim (compiled_dim axis) (r + 1) - 1.

Lemma simplex_axis_correct axis r : 0 < r -> - r <= axis < r -> simplex_axis axis r = eff_axis axis r.
Proof.
  intros Hr Ha. unfold simplex_axis, norm_dim, compiled_dim, eff_axis.
  destruct (axis <? 0) eqn:E.
  - apply Z.ltb_lt in E. rewrite (proj2 (Z.ltb_lt axis 0) E). lia.
  - apply Z.ltb_ge in E. assert (H : (axis + 1 <? 0) = false) by (apply Z.ltb_ge; lia). rewrite H. lia.
Qed.
Lemma eff_axis_range axis r : 0 < r -> - r <= axis < r -> 0 <= eff_axis axis r < r.
Proof. intros Hr Ha. unfold eff_axis. destruct (axis <? 0) eqn:E; [apply Z.ltb_lt in E | apply Z.ltb_ge in E]; lia. Qed.

(* moving the last axis of a shape to position d (torch.movedim(-1, d)) restores the original shape:
   sample shape = shape without position d, followed by the size at d *)
Close Scope Z_scope.
Fixpoint remove_at {A} (d : nat) (l : list A) : list A :=
  match l, d with [], _ => [] | _ :: t, O => t | a :: t, S d' => a :: remove_at d' t end.
Fixpoint insert_at {A} (d : nat) (x : A) (l : list A) : list A :=
  match d, l with O, _ => x :: l | S d', a :: t => a :: insert_at d' x t | S _, [] => [x] end.
Definition sample_shape (d : nat) (shape : list nat) : list nat := remove_at d shape ++ [nth d shape 0].
Definition movedim_last (d : nat) (s : list nat) : list nat := insert_at d (last s 0) (removelast s).

Lemma insert_remove {A} (l : list A) x : forall d, d < length l -> insert_at d (nth d l x) (remove_at d l) = l.
Proof. induction l as [|a t IH]; intros d Hd; simpl in *; [lia|]. destruct d; [reflexivity|]. simpl. f_equal. apply IH. lia. Qed.
Lemma movedim_restores d shape : d < length shape -> movedim_last d (sample_shape d shape) = shape.
Proof.
  intros Hd. unfold movedim_last, sample_shape. rewrite last_last, removelast_last. apply insert_remove. exact Hd.
Qed.
(* swapping instead of moving is wrong as soon as two axes follow d *)
Example transpose_is_not_movedim : movedim_last 1 (sample_shape 1 [1; 3; 3; 2]) = [1; 3; 3; 2] /\ sample_shape 1 [1; 3; 3; 2] = [1; 3; 2; 3].
Proof. split; reflexivity. Qed.

(* fold-wise initialisation: initialiser i acts on slice i only *)
Section Foldwise.
Variable T : Type.
Fixpoint foldwise (inits : list (T -> T)) (slices : list T) : list T :=
  match inits, slices with
  | f :: fs, s :: ss => f s :: foldwise fs ss
  | _, _ => slices
  end.
Lemma foldwise_nth inits slices i d : i < length inits -> i < length slices ->
  nth i (foldwise inits slices) d = nth i inits (fun x => x) (nth i slices d).
Proof.
  revert slices i. induction inits as [|f fs IH]; intros [|s ss] i Hi Hs; simpl in *; try lia.
  destruct i; [reflexivity|]. apply IH; lia.
Qed.
Lemma foldwise_length inits slices : length (foldwise inits slices) = length slices.
Proof. revert slices. induction inits as [|f fs IH]; intros [|s ss]; simpl; auto. Qed.
End Foldwise.
