(* C11 — marginal queries = per-sample integration (executable level)
   Property theorems only: each is closed by `exact <lemma>`; proofs live in the imported files. *)
From Coq Require Import List ZArith QArith Qcanon Ring_theory Field_theory Permutation Sorted.
Import ListNotations.
From CK Require Import Base.
From CK Require Import Circ.
From CK Require Import Integrate.
From CK Require Import Scalar.
From CK Require Import Tensor.
From CK Require Import Pexpr.
From CK Require Import Exec.
From CK Require Import Ops.
From CK Require Import Struct.
From CK Require Import Link.
Close Scope Qc_scope. Close Scope Q_scope. Close Scope Z_scope. Open Scope nat_scope.

(* on the algebraic fragment, every unit of every node of the executable integrate_m result is the iterated sum, over all states of the integrated variables in that node's scope, of the executable denotation of the original circuit *)
Theorem C11_marginal_is_sum :
  forall (dom : nat -> nat) (Z : list nat) (c c' : circuit) (y : asg),
         NoDup Z ->
         frag c = true ->
         shapes c = true ->
         doms dom c = true ->
         wf c = true ->
         integrate_m Z c = Ok c' ->
         inrange c y = true ->
         exists vals' : list cvec,
           den_all c' y = Some vals' /\
           (forall o k : nat,
            o < length (nodes c) ->
            nth k (nth o vals' []) c0 = sum_states dom (zs_of Z (nth o (scopes c) [])) (dval c o k) y).
Proof. exact integrate_exec_den. Qed.
Print Assumptions C11_marginal_is_sum.

(* the executable denotation is the semantic evaluation of the interpreted circuit (defined exactly when every embedding index is in range) *)
Theorem C11_denotation_is_semantic :
  forall (c : circuit) (y : asg),
         frag c = true -> den_all c y = (if inrange c y then Some (SEval (interp c) (afun y)) else None).
Proof. exact den_all_spec. Qed.
Print Assumptions C11_denotation_is_semantic.
