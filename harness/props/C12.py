"""C12 — circuits built with normalised parameterisations are normalised."""
import itertools
import traceback

import numpy as np
import torch

import cirkit.symbolic.functional as SF
from cirkit.symbolic import parameters as P
from cirkit.symbolic.parameters import mixing_weight_factory
from cirkit.templates import data_modalities, pgms
from cirkit.templates.utils import Parameterization, name_to_input_layer_factory, parameterization_to_factory
from cirkit.utils.scope import Scope

import evalc
import export
import gen
from cases import CaseSet, rng_for, close
from props.C16 import make_rg

PID = "C12"
INPUTS = {"categorical": {"num_categories": 3}, "binomial": {"total_count": 2}, "gaussian": {}}


def build(rng):
    kind = rng.choice(["rg", "rg", "rg", "image", "tabular", "hmm", "ff", "tf"])
    ik = rng.choice(list(INPUTS))
    K = rng.choice([1, 2, 3])
    nc = rng.choice([1, 1, 2])
    ab = rng.choice(["cp", "cp-t", "tucker"])
    mixing = rng.random() < 0.5
    meta = {"kind": kind, "input": ik, "units": K, "classes": nc, "abstraction": ab, "mixing": mixing}
    wf = parameterization_to_factory(Parameterization(activation="softmax", initialization="normal"))
    if kind == "rg":
        for _ in range(10):
            alg, args, kw, mk = make_rg(rng)
            nv = int(np.prod(args[0])) if isinstance(args[0], tuple) else args[0]
            if nv <= 9:
                break
        rg = mk()
        if ab == "tucker" and any(len(rg.partition_inputs(p)) > 3 for p in rg.partition_nodes):
            ab = meta["abstraction"] = "cp"
        meta["alg"] = alg
        meta["rgargs"] = [str(a) for a in args] + [str({k: v for k, v in kw.items() if not isinstance(v, torch.Tensor)})]
        kw = {}
        if mixing:
            kw["nary_sum_weight_factory"] = lambda shape: mixing_weight_factory(shape, param_factory=wf)
        elif rng.random() < 0.5:
            kw["nary_sum_weight_factory"] = wf
        # else: documented default, the n-ary sums fall back to sum_weight_factory
        meta["nary_given"] = "nary_sum_weight_factory" in kw
        sc = rg.build_circuit(input_factory=name_to_input_layer_factory(ik, **INPUTS[ik]), sum_product=ab, sum_weight_factory=wf,
                              num_input_units=K, num_sum_units=K, num_classes=nc, **kw)
        doms = {v: (("disc", 3) if ik == "categorical" else ("disc", 3) if ik == "binomial" else ("real",)) for v in rg.scope._set}
        return sc, doms, meta
    if kind == "image":
        shape = (1, rng.randint(1, 3), rng.randint(1, 3))
        rgname = rng.choice(["quad-tree-2", "quad-tree-4", "quad-graph", "random-binary-tree", "poon-domingos"])
        meta.update({"shape": list(shape), "rg": rgname})
        sc = data_modalities.image_data(shape, rgname, input_layer=ik, num_input_units=K, sum_product_layer=ab if ab != "tucker" else "cp",
                                        num_sum_units=K, num_classes=nc, use_mixing_weights=mixing)
        n = shape[1] * shape[2]
        doms = {v: (("disc", 256) if ik in ("categorical", "binomial") else ("real",)) for v in range(n)}
        return sc, doms, meta
    if kind == "tabular":
        n = rng.randint(1, 6)
        sc = data_modalities.tabular_data("random-binary-tree", num_features=n, input_layers={"name": ik, "args": INPUTS[ik]},
                                          num_input_units=K, sum_product_layer=ab, num_sum_units=K, num_classes=nc, use_mixing_weights=mixing)
        doms = {v: (("disc", 3) if ik != "gaussian" else ("real",)) for v in range(n)}
        return sc, doms, meta
    if kind == "hmm":
        n = rng.randint(1, 5)
        order = list(range(n))
        rng.shuffle(order)
        meta["ordering"] = order
        sc = pgms.hmm(order, input_layer=ik, num_latent_states=K, input_layer_kwargs=INPUTS[ik])
        doms = {v: (("disc", 3) if ik != "gaussian" else ("real",)) for v in range(n)}
        return sc, doms, meta
    if kind == "tf":
        from cirkit.templates import tensor_factorizations as TF
        tik = rng.choice(["categorical", "binomial"])
        meta["input"] = tik
        d = rng.choice([2, 2, 3])
        shape = tuple(rng.choice([2, 3]) for _ in range(d))
        sm = Parameterization(activation="softmax", initialization="normal")
        if rng.random() < 0.5:
            meta["abstraction"] = "cp"
            sc = TF.cp(shape, K, input_layer=tik, weight_param=sm)
        else:
            meta["abstraction"] = "tucker"
            sc = TF.tucker(shape, min(K, 2), input_layer=tik, core_param=sm)
        meta["shape"] = list(shape)
        doms = {v: ("disc", shape[v]) for v in range(d)}
        return sc, doms, meta
    n = rng.randint(1, 5)
    sc = pgms.fully_factorized(n, input_layer=ik, input_layer_kwargs=INPUTS[ik])
    doms = {v: (("disc", 3) if ik != "gaussian" else ("real",)) for v in range(n)}
    return sc, doms, meta


def one_case(rep, cs, seed, i):
    rng = rng_for(seed, PID, i)
    torch.manual_seed(seed * 1000 + i)
    try:
        sc, doms, meta = build(rng)
    except Exception as e:
        rep.violation("template-raises:" + type(e).__name__, "a template raised on valid arguments",
                      {"case": {"i": i, "seed": seed}, "exception": repr(e)[:300], "traceback": traceback.format_exc()[-1200:]})
        return
    sem = rng.choice(["sum-product", "lse-sum", "lse-sum"])
    fold, opt = rng.choice(evalc.FLAGS)
    desc = {"i": i, "seed": seed, "sem": sem, "fold": fold, "opt": opt, "nlayers": len(sc.layers), **meta}
    for k in ("kind", "input", "abstraction"):
        rep.count(f"{k}:{meta[k]}")
    rep.count("mixing" if meta["mixing"] else "dense")
    rep.count("semiring:" + sem)
    scope = sorted(sc.scope._set)
    try:
        ctx = evalc.make_ctx(sem, fold, opt)
        w = evalc.width_of(sc)
        if meta["input"] == "binomial":  # no symbolic integration rule for Binomial layers: use the integration query
            from cirkit.backend.torch.queries import IntegrateQuery
            cc = ctx.compile(sc)
            si = ci = None

            def partition():
                out = IntegrateQuery(cc)(torch.zeros((1, w)), integrate_vars=Scope(scope))
                return evalc.to_linear(out, sem)
        else:
            si = SF.integrate(sc)
            ci = ctx.compile(si)
            cc = ctx.get_compiled_circuit(sc)

            def partition():
                return evalc.evaluate(ci, si, [{}], sem)
        ys = []
        for _ in range(3):
            y = {}
            for v in scope:
                y[v] = rng.randrange(doms[v][1]) if doms[v][0] == "disc" else gen.dy(rng, -8, 8, 4)
                if meta["input"] == "binomial":
                    y[v] = rng.randrange(INPUTS["binomial"]["total_count"] + 1) if meta["kind"] != "image" else rng.randrange(256)
            ys.append(y)
        history = ["init"]
        for step in range(3):
            z = partition()
            if not close(z, np.ones_like(z), rtol=1e-9, atol=1e-9):
                rep.violation("partition-not-one", f"the partition function is not one after {history}",
                              {"case": desc, "history": list(history), "observed": z.tolist()})
                break
            out = cc(evalc.to_batch(ys, w))
            if sem == "sum-product":
                if not bool(torch.all(out >= 0)):
                    rep.violation("negative-value", "a normalised circuit returned a negative value", {"case": desc, "history": list(history), "inputs": ys})
            elif not bool(torch.all(torch.isfinite(out))):
                rep.violation("non-finite-log", "the log-space evaluation of an in-support input is not finite",
                              {"case": desc, "history": list(history), "inputs": ys, "observed": out.tolist()})
            # a training step surrogate: in-place update of every unconstrained learnable tensor
            with torch.no_grad():
                if step == 0:
                    for p in cc.parameters():
                        if p.requires_grad:
                            p.add_(torch.randn_like(p) * 1.5)
                    history.append("random update")
                else:
                    pass
            if step == 1:
                opt_ = torch.optim.SGD([p for p in cc.parameters() if p.requires_grad], lr=0.5)
                o2 = cc(evalc.to_batch(ys, w))
                loss = -(o2 if sem != "sum-product" else torch.log(o2 + 1e-300)).real.sum()
                opt_.zero_grad()
                loss.backward()
                opt_.step()
                history.append("sgd step")
        # brute force on tiny discrete circuits
        if all(doms[v][0] == "disc" and doms[v][1] <= 3 for v in scope) and len(scope) <= 5 and meta["input"] != "binomial":
            allx = [dict(zip(scope, c)) for c in itertools.product(*[range(doms[v][1]) for v in scope])]
            tot = evalc.evaluate(cc, sc, allx, sem, width=w).sum(axis=0)
            if not close(tot, np.ones_like(tot), rtol=1e-8, atol=1e-8):
                rep.violation("brute-force-not-one", "the values of the circuit over all assignments do not sum to one", {"case": desc, "observed": tot.tolist()})
    except Exception as e:
        rep.violation("normalised-exception:" + type(e).__name__, "compiling / integrating / evaluating a template circuit raised",
                      {"case": desc, "exception": repr(e)[:300], "traceback": traceback.format_exc()[-1500:]})
        return
    # ---- structure: the verified predicate recognises the circuit as normalised; model value at the current tensors ----
    if len(sc.layers) > 120 or (meta["kind"] == "image" and meta["input"] != "gaussian"):
        rep.count("too-large-for-coq")
        return
    state = ctx._compiler.state

    def leafval(p):
        if isinstance(p, P.ConstantParameter) or not state.has_compiled_parameter(p):
            return None
        t, k = state.retrieve_compiled_parameter(p)
        return t._ptensor.detach()[k].numpy()

    try:
        ex = export.Exporter(leafval=leafval)
        tc = ex.circuit(sc)
        tv = export.ex_vals(evalc.evaluate(cc, sc, ys, sem, width=w))
    except Exception as e:
        rep.violation("export-error", repr(e)[:300], {"case": desc}, found_input=False)
        return
    term = f"let c := {tc} in [b2n (normalised_struct c); b2n (is_smooth c && is_decomposable c); den_vs c {export.ex_asgs(ys)} {tv}]"

    def interp(res, desc=desc):
        ns, sd, dv = res
        rep.count(f"coq:normalised_struct={ns}")
        if ns != 1 or sd != 1:
            rep.violation("normalised-struct-corr", "the model does not recognise the template circuit as built from normalised parts (softmax / mixing sums, normalised inputs)",
                          {"case": desc, "normalised_struct": ns, "smooth_decomposable": sd}, found_input=False)
        if dv == 0:
            rep.violation("template-vs-denotation", "compiled template circuit differs from the model's denotation at the trained tensor values", {"case": desc})

    cs.add(desc, term, interp, nontrivial=len(sc.layers) >= 4)


def run(rep, tier, seed, replay=None):
    n = 70 if tier == "quick" else 900
    cs = CaseSet(rep, PID)
    if replay is not None:
        c = replay["replay"].get("case", {})
        one_case(rep, cs, c.get("seed", seed), c.get("i", 0))
        cs.run()
        return
    for i in range(n):
        one_case(rep, cs, seed, i)
    cs.run(shard=max(4, 70 // 14))  # shard size of the quick tier: thorough runs use more files, not longer ones
